------------------------------ MODULE Compare ------------------------------
(* C19: comparisons and membership tests.                                    *)
(*                                                                          *)
(* Five families of cases; every case is a TLC behaviour                     *)
(* (Init picks the case, named actions evaluate it, the final state carries  *)
(* the expected observation and is published for replay on compiled code).   *)
(*                                                                          *)
(*  "chain"  e1 op1 e2 op2 ... : operand leaves are evaluated one at a time  *)
(*           (log), a link that is falsy or raises ends the chain; the       *)
(*           result is the VALUE of the last link evaluated (rich            *)
(*           comparisons may return non-bool objects: value W below).        *)
(*           Shapes (operator sequence + per-operand value domain; one shape *)
(*           = one compiled function) come from the harness (IOEnv.SHAPES);  *)
(*           TLC explores shape x value tuples.  Part = "shapes" runs chain, *)
(*           pair, member and strin cases in one model, Part = "switch" the  *)
(*           if/elif chains (enumerated by the spec itself).                 *)
(*  "member" x in / not in  (m1, ..) | [..] | {..} | {m: _, ..}: reference = *)
(*           hash check for set/dict, then identity-or-equality scan.        *)
(*           Implementation-shaped: FlattenInListTransform (x == m1 or ..,   *)
(*           x != m1 and ..  -- no identity test, no hashing).               *)
(*  "strin"  x in / not in a str or bytes literal (substring / byte value).  *)
(*           Implementation-shaped for a C integer x: BytesContains on       *)
(*           (char) x.                                                      *)
(*  "pair"   a op b for the six rich comparisons over a wide value table    *)
(*           (compact and multi-digit ints, bools, floats incl. -0.0, inf,   *)
(*           nan, 2.0**53 next to 2**53+1, str/bytes/bytearray of different  *)
(*           lengths, equal-but-distinct objects): the reference compares    *)
(*           mathematical values / code point sequences (the fast paths of   *)
(*           Utility/Optimize.c PyObjectCompare must not be observable).     *)
(*  "switch" if/elif chains over one subject: reference = first matching arm;*)
(*           implementation-shaped = SwitchTransform (conditions merged into *)
(*           a C switch unless has_duplicate_values finds equal              *)
(*           constant_results) + C's rule that case labels are distinct.     *)
(*                                                                          *)
(* Abstract values (tokens):  m1 i0 i1 i2 (ints), f0 f1 (floats), T (True),  *)
(*   sa sb ("a","b"), ba (b"a"), N (None), nan, U (an unhashable list []),   *)
(*   W (an object whose rich comparisons return non-bool values: < -> 0,     *)
(*   <= -> 2, > raises ValueError, >= -> NotImplemented, == -> "", != -> "x",*)
(*   __contains__ -> 2).  Result tokens: True False r0 r2 re rx E:<Type>.    *)
EXTENDS Integers, Sequences, FiniteSets, TLC, Json, IOUtils

CONSTANTS Part,      \* "shapes" (chain, pair, member, strin cases from the harness' shape file) | "switch"
          MaxArms    \* switch: chains of 1..MaxArms arms

Range(s) == {s[i] : i \in DOMAIN s}
Shapes == IF Part = "switch" THEN <<>> ELSE ndJsonDeserialize(IOEnv.SHAPES)

---------------------------------------------------------------------------
(* values and the comparison operators of the language reference *)
NumVal == [m1 |-> -1, i0 |-> 0, i1 |-> 1, i2 |-> 2, f0 |-> 0, f1 |-> 1, T |-> 1]
IsNum(v) == v \in DOMAIN NumVal
IsInt(v) == v \in {"m1", "i0", "i1", "i2", "T"}
StrVal == [sa |-> 1, sb |-> 2]
IsStr(v) == v \in DOMAIN StrVal
Tokens == {"m1", "i0", "i1", "i2", "f0", "f1", "T", "sa", "sb", "ba", "N", "W", "nan", "U"}
Ops == {"<", "<=", "==", "!=", ">", ">=", "is", "isnot", "in", "notin"}

B(b) == IF b THEN "True" ELSE "False"
Excs == {"E:TypeError", "E:ValueError"}
Results == {"True", "False", "r0", "r2", "re", "rx"} \cup Excs
Truthy(r) == r \in {"True", "r2", "rx"}
Not(r) == IF r \in Excs THEN r ELSE B(~Truthy(r))

Swap(op) == CASE op = "<" -> ">" [] op = ">" -> "<" [] op = "<=" -> ">=" [] op = ">=" -> "<=" [] OTHER -> op
\* W's own methods; NI = NotImplemented
WTab(op) == CASE op = "<" -> "r0" [] op = "<=" -> "r2" [] op = ">" -> "E:ValueError"
              [] op = ">=" -> "NI" [] op = "==" -> "re" [] op = "!=" -> "rx"
\* binary rich comparison protocol when W takes part: left operand's method, then the
\* reflected method of the right operand (builtin types answer NotImplemented for W)
RichW(a, op, b) ==
  IF a = "W" THEN LET r == WTab(op) IN
        IF r # "NI" THEN r ELSE IF b = "W" THEN WTab(Swap(op)) ELSE "E:TypeError"
  ELSE LET r == WTab(Swap(op)) IN IF r # "NI" THEN r ELSE "E:TypeError"

IntCmp(x, op, y) == CASE op = "<" -> x < y [] op = "<=" -> x <= y [] op = ">" -> x > y
                      [] op = ">=" -> x >= y [] op = "==" -> x = y [] op = "!=" -> x # y
NumLike(v) == IsNum(v) \/ v = "nan"

Rich(a, op, b) ==   \* op in < <= == != > >=
  IF a = "W" \/ b = "W" THEN RichW(a, op, b)
  ELSE IF a = "nan" \/ b = "nan" THEN
         (IF op = "==" THEN "False" ELSE IF op = "!=" THEN "True"
          ELSE IF NumLike(a) /\ NumLike(b) THEN "False" ELSE "E:TypeError")
  ELSE IF IsNum(a) /\ IsNum(b) THEN B(IntCmp(NumVal[a], op, NumVal[b]))
  ELSE IF IsStr(a) /\ IsStr(b) THEN B(IntCmp(StrVal[a], op, StrVal[b]))
  ELSE IF op = "==" THEN B(a = b)
  ELSE IF op = "!=" THEN B(a # b)
  ELSE IF a = b /\ a \in {"ba", "U"} THEN B(op \in {"<=", ">="})
  ELSE "E:TypeError"

Contains(a, b) ==   \* a in b, b a run-time object
  IF b = "W" THEN "True"
  ELSE IF b = "U" THEN "False"
  ELSE IF IsStr(b) THEN (IF IsStr(a) THEN B(a = b) ELSE "E:TypeError")
  ELSE IF b = "ba" THEN (IF a = "ba" THEN "True"
                         ELSE IF IsInt(a) THEN (IF NumVal[a] < 0 THEN "E:ValueError" ELSE "False")
                         ELSE "E:TypeError")
  ELSE "E:TypeError"

Cmp(a, op, b) == CASE op = "is" -> B(a = b) [] op = "isnot" -> B(a # b)
                   [] op = "in" -> Contains(a, b) [] op = "notin" -> Not(Contains(a, b))
                   [] OTHER -> Rich(a, op, b)

RECURSIVE Prod(_)
Prod(ds) == IF ds = <<>> THEN {<<>>} ELSE {<<h>> \o t : h \in Range(Head(ds)), t \in Prod(Tail(ds))}

---------------------------------------------------------------------------
(* chain: declarative reference *)
Link(ops, vals, j) == Cmp(vals[j], ops[j], vals[j + 1])
StopAt(ops, vals) == LET S == {j \in DOMAIN ops : ~Truthy(Link(ops, vals, j))}
                     IN IF S = {} THEN Len(ops) ELSE CHOOSE j \in S : \A i \in S : j <= i
ChainRef(ops, vals) == [out |-> Link(ops, vals, StopAt(ops, vals)), n |-> StopAt(ops, vals) + 1]

(* member: declarative reference and FlattenInListTransform.  Kinds tuple/list/set/dict are displays  *)
(* written in the expression; vtuple/vlist/vset/vfrozenset/vdict are run-time objects held in a typed *)
(* variable (never flattened: PySequence_Contains / PySet_Contains / PyDict_Contains)                *)
HashKinds == {"set", "dict", "vset", "vfrozenset", "vdict"}
MemberRef(kind, neg, x, ms) ==
  IF kind \in HashKinds /\ x = "U" THEN "E:TypeError"
  ELSE B((\E j \in DOMAIN ms : ms[j] = x \/ Truthy(Rich(ms[j], "==", x))) # neg)
FlattenApplies(kind, ms) == kind \in {"tuple", "list", "set"} /\ Len(ms) >= 1
Flatten(neg, x, ms) == IF neg THEN B(\A j \in DOMAIN ms : Truthy(Rich(x, "!=", ms[j])))
                              ELSE B(\E j \in DOMAIN ms : Truthy(Rich(x, "==", ms[j])))
MemberImpl(kind, neg, x, ms) == IF FlattenApplies(kind, ms) THEN Flatten(neg, x, ms) ELSE MemberRef(kind, neg, x, ms)
\* FlattenInListTransform evaluates the non-simple members into temporaries *before* the left operand
FlattenLog(kind, ms, leaves) == IF FlattenApplies(kind, ms) /\ leaves THEN [i \in 1..(Len(ms) + 1) |-> IF i <= Len(ms) THEN i ELSE 0]
                                ELSE [i \in 1..(Len(ms) + 1) |-> i - 1]
\* the two ways in which dropping identity and hashing can show
IdentityOnly(x, ms) == /\ \E j \in DOMAIN ms : ms[j] = x
                       /\ ~\E j \in DOMAIN ms : Truthy(Rich(ms[j], "==", x))
MemberWhy(kind, x, ms) == IF kind \in HashKinds /\ x = "U" THEN "unhashable"
                          ELSE IF IdentityOnly(x, ms) THEN "identity" ELSE "none"

(* strin: x a record [k, cs, v, t]: k = "str"|"bytes" (cs: code points), "int" (v), "tok" (t: a token) *)
IsSub(s, t) == \E i \in 0..(Len(t) - Len(s)) : \A j \in DOMAIN s : t[i + j] = s[j]
StrinRef(kind, neg, x, cs) ==
  IF kind = "str" THEN (IF x.k = "str" THEN B(IsSub(x.cs, cs) # neg) ELSE "E:TypeError")
  ELSE IF x.k = "bytes" THEN B(IsSub(x.cs, cs) # neg)
  ELSE IF x.k = "int" THEN (IF x.v \in 0..255 THEN B((x.v \in Range(cs)) # neg) ELSE "E:ValueError")
  ELSE "E:TypeError"
\* a C integer x (int, long, unsigned char): with two or more distinct bytes in the literal SwitchTransform
\* compares x with `char` constants (case '\xe9': is negative where char is signed); otherwise the operand
\* is coerced to `char` and passed to __Pyx_BytesContains
SChar(b) == IF b >= 128 THEN b - 256 ELSE b
BytesImplCInt(neg, v, cs) == IF Cardinality(Range(cs)) >= 2 THEN B((\E j \in DOMAIN cs : SChar(cs[j]) = v) # neg)
                             ELSE B((\E j \in DOMAIN cs : (cs[j] - v) % 256 = 0) # neg)

---------------------------------------------------------------------------
(* pair: wide value table.  Numbers carry an order-preserving integer key of their mathematical  *)
(* value (TLC integers are 32-bit: 2**64 etc. cannot be written down), strings their code points *)
PNum == ("fNI" :> -100) @@ ("nB" :> -50) @@ ("fm" :> -3) @@ ("m1" :> -2) @@ ("i0" :> 0) @@ ("f0" :> 0) @@ ("fz" :> 0)
        @@ ("Fa" :> 0) @@ ("i1" :> 2) @@ ("f1" :> 2) @@ ("T" :> 2) @@ ("fh" :> 3) @@ ("i2" :> 4) @@ ("iC" :> 10) @@ ("iD" :> 11)
        @@ ("iE" :> 12) @@ ("fE" :> 12) @@ ("iF" :> 13) @@ ("iG" :> 14) @@ ("iH" :> 15) @@ ("fH" :> 15) @@ ("fX" :> 16) @@ ("fI" :> 100)
PStr == ("s_" :> <<>>) @@ ("sa" :> <<97>>) @@ ("sb" :> <<98>>) @@ ("sab" :> <<97, 98>>) @@ ("sab2" :> <<97, 98>>)
        @@ ("saa" :> <<97, 97>>) @@ ("sae" :> <<97, 233>>) @@ ("seu" :> <<8364>>)
\* bytes (b..) and bytearray (B..) objects: unsigned byte values
PByt == ("b_" :> <<>>) @@ ("ba" :> <<97>>) @@ ("bb" :> <<98>>) @@ ("bab" :> <<97, 98>>) @@ ("bab2" :> <<97, 98>>)
        @@ ("baa" :> <<97, 97>>) @@ ("bh" :> <<233>>) @@ ("bah" :> <<97, 233>>)
        @@ ("B_" :> <<>>) @@ ("Ba" :> <<97>>) @@ ("Bab" :> <<97, 98>>)
PairTokens == DOMAIN PNum \cup DOMAIN PStr \cup DOMAIN PByt \cup {"nan", "N", "W"}
Sign(n) == IF n < 0 THEN -1 ELSE IF n > 0 THEN 1 ELSE 0
LexCmp(s, t) == LET n == IF Len(s) < Len(t) THEN Len(s) ELSE Len(t)
                    D == {i \in 1..n : s[i] # t[i]}
                IN IF D = {} THEN Sign(Len(s) - Len(t))
                   ELSE LET i == CHOOSE i \in D : \A j \in D : i <= j IN Sign(s[i] - t[i])
PNumLike(v) == v \in DOMAIN PNum \/ v = "nan"
Rich2(a, op, b) ==
  IF a = "W" \/ b = "W" THEN RichW(a, op, b)
  ELSE IF PNumLike(a) /\ PNumLike(b) THEN
         (IF a = "nan" \/ b = "nan" THEN B(op = "!=") ELSE B(IntCmp(PNum[a], op, PNum[b])))
  ELSE IF a \in DOMAIN PStr /\ b \in DOMAIN PStr THEN B(IntCmp(LexCmp(PStr[a], PStr[b]), op, 0))
  ELSE IF a \in DOMAIN PByt /\ b \in DOMAIN PByt THEN B(IntCmp(LexCmp(PByt[a], PByt[b]), op, 0))
  ELSE IF op = "==" THEN B(a = b)
  ELSE IF op = "!=" THEN B(a # b)
  ELSE "E:TypeError"

---------------------------------------------------------------------------
(* switch: chains of arms; an arm is [f |-> "eq", ls] (x == l1 or x == l2 / x in (l1, l2))      *)
(* or [f |-> "in", ls] (x in b"..." for family "bytes", x in "..." for family "ustr")            *)
Pool == {97, 98, 99}
Subjects == 96..100
EqArms == {[f |-> "eq", ls |-> s] : s \in UNION {[1..n -> Pool] : n \in 1..2}}
InArms == {[f |-> "in", ls |-> s] : s \in {<<97>>, <<97, 98>>, <<98, 97>>, <<97, 97>>}}
Arms == EqArms \cup InArms
Chains == UNION {[1..n -> Arms] : n \in 1..MaxArms}

Matches(arm, x) == x \in Range(arm.ls)
Sequential(chain, x) == LET S == {j \in DOMAIN chain : Matches(chain[j], x)}
                        IN IF S = {} THEN 0 ELSE CHOOSE j \in S : \A i \in S : j <= i

RECURSIVE Sorted(_)
Sorted(S) == IF S = {} THEN <<>> ELSE LET m == CHOOSE v \in S : \A w \in S : v <= w IN <<m>> \o Sorted(S \ {m})
\* extract_conditions / extract_in_string_conditions: the condition nodes of one arm with the key that
\* has_duplicate_values compares (constant_result): an int for IntNode/CharNode/UnicodeNode characters,
\* a 1-byte bytes object for the CharNodes made from a bytes literal
CondsOf(fam, arm) == IF arm.f = "eq" THEN [j \in DOMAIN arm.ls |-> <<"i", arm.ls[j]>>]
                     ELSE LET s == Sorted(Range(arm.ls)) IN [j \in DOMAIN s |-> <<(IF fam = "bytes" THEN "b" ELSE "i"), s[j]>>]
RECURSIVE AllConds(_, _)
AllConds(fam, chain) == IF chain = <<>> THEN <<>> ELSE CondsOf(fam, Head(chain)) \o AllConds(fam, Tail(chain))
HasDup(s) == \E i, j \in DOMAIN s : i < j /\ s[i] = s[j]
IsSwitch(fam, chain) == LET cs == AllConds(fam, chain) IN Len(cs) >= 2 /\ ~HasDup(cs)
\* when the statement is left alone, a single condition with two or more distinct keys still becomes a switch
\* (visit_BoolBinopNode / visit_PrimaryCmpNode -> build_simple_switch_statement)
AnySwitch(fam, chain) == IsSwitch(fam, chain) \/ \E j \in DOMAIN chain : LET cs == CondsOf(fam, chain[j]) IN Len(cs) >= 2 /\ ~HasDup(cs)
\* the C compiler's view: labels are integer constant expressions, all distinct
WellFormed(fam, chain) == LET cs == AllConds(fam, chain) IN ~HasDup([i \in DOMAIN cs |-> cs[i][2]])
SwitchImplRow(fam, chain) ==
  LET isw == IsSwitch(fam, chain)
      wf  == WellFormed(fam, chain)
  IN [x \in Subjects |-> IF ~isw THEN Sequential(chain, x)
                         ELSE IF ~wf THEN -1                 \* not a C program
                         ELSE Sequential(chain, x)]          \* labels distinct: at most one arm holds x

---------------------------------------------------------------------------
VARIABLES c, pc, k, log, out
vars == <<c, pc, k, log, out>>

\* one initial state per (shape, value tuple); a shape is a record with a field `part`
InitShape(s) ==
  IF s.part = "chain" THEN \E vs \in Prod(s.doms) : c = [part |-> "chain", id |-> s.id, ops |-> s.ops, vals |-> vs]
  ELSE IF s.part = "pair" THEN \E a \in Range(s.adom) : \E b \in Range(s.bdom) :
                 c = [part |-> "pair", id |-> s.id, op |-> s.op, a |-> a, b |-> b]
  ELSE IF s.part = "member" THEN \E x \in Range(s.xdom) : \E ms \in Prod(s.mdoms) :
                 c = [part |-> "member", id |-> s.id, kind |-> s.kind, neg |-> s.neg, x |-> x, ms |-> ms]
  ELSE \E i \in DOMAIN s.xdom :
                 c = [part |-> "strin", id |-> s.id, kind |-> s.kind, neg |-> s.neg, x |-> s.xdom[i], cs |-> s.cs, cint |-> s.cint]
InitSwitch == \E fam \in {"bytes", "ustr"} : \E ch \in Chains : \E e \in BOOLEAN :
                 c = [part |-> "switch", fam |-> fam, arms |-> ch, els |-> e]

Init == /\ IF Part = "switch" THEN InitSwitch ELSE \E i \in DOMAIN Shapes : InitShape(Shapes[i])
        /\ IF c.part = "chain" THEN pc = "links" /\ k = 1 /\ log = <<0>>
                               ELSE pc = "start" /\ k = 0 /\ log = <<>>
        /\ out = "pending"

(* ---- chain machine: k = number of operands evaluated so far (the first operand is   *)
(*      evaluated in the initial state: log = <<0>>, k = 1) ---- *)
\* evaluate operand k+1, then link k
ChainStep(r) == /\ k' = k + 1 /\ log' = Append(log, k) /\ UNCHANGED c
                /\ IF Truthy(r) /\ k < Len(c.ops) THEN pc' = "links" /\ out' = out
                   ELSE pc' = "done" /\ out' = r
ChainContinue == /\ c.part = "chain" /\ pc = "links" /\ LET r == Link(c.ops, c.vals, k) IN
                    Truthy(r) /\ k < Len(c.ops) /\ ChainStep(r)
ChainLast == /\ c.part = "chain" /\ pc = "links" /\ LET r == Link(c.ops, c.vals, k) IN
                    Truthy(r) /\ k = Len(c.ops) /\ ChainStep(r)
ChainStopFalse == /\ c.part = "chain" /\ pc = "links" /\ LET r == Link(c.ops, c.vals, k) IN
                    ~Truthy(r) /\ r \notin Excs /\ ChainStep(r)
ChainRaise == /\ c.part = "chain" /\ pc = "links" /\ LET r == Link(c.ops, c.vals, k) IN
                    r \in Excs /\ ChainStep(r)

(* ---- member machine: all operands left to right, hash (set/dict), then the scan: the   *)
(*      first member that is the same object as x or equal to it decides ---- *)
Hit(j) == c.ms[j] = c.x \/ Truthy(Rich(c.ms[j], "==", c.x))
FirstHit == LET S == {j \in DOMAIN c.ms : Hit(j)} IN IF S = {} THEN 0 ELSE CHOOSE j \in S : \A i \in S : j <= i
Unhashable == c.kind \in HashKinds /\ c.x = "U"
MemberOperands == /\ c.part = "member" /\ pc = "start"
                  /\ pc' = "scan" /\ log' = [i \in 1..(Len(c.ms) + 1) |-> i - 1] /\ UNCHANGED <<c, k, out>>
MemberHashFail == /\ c.part = "member" /\ pc = "scan" /\ Unhashable
                  /\ pc' = "done" /\ out' = "E:TypeError" /\ UNCHANGED <<c, k, log>>
MemberHitIdentity == /\ c.part = "member" /\ pc = "scan" /\ ~Unhashable /\ FirstHit # 0 /\ c.ms[FirstHit] = c.x
                     /\ pc' = "done" /\ k' = FirstHit /\ out' = B(~c.neg) /\ UNCHANGED <<c, log>>
MemberHitEqual == /\ c.part = "member" /\ pc = "scan" /\ ~Unhashable /\ FirstHit # 0 /\ c.ms[FirstHit] # c.x
                  /\ pc' = "done" /\ k' = FirstHit /\ out' = B(~c.neg) /\ UNCHANGED <<c, log>>
MemberExhausted == /\ c.part = "member" /\ pc = "scan" /\ ~Unhashable /\ FirstHit = 0
                   /\ pc' = "done" /\ out' = B(c.neg) /\ UNCHANGED <<c, k, log>>

(* ---- strin, switch: one deciding step ---- *)
StrinDecide == /\ c.part = "strin" /\ pc = "start"
               /\ pc' = "done" /\ out' = StrinRef(c.kind, c.neg, c.x, c.cs) /\ log' = <<0>> /\ UNCHANGED <<c, k>>
PairDecide == /\ c.part = "pair" /\ pc = "start"
              /\ pc' = "done" /\ out' = Rich2(c.a, c.op, c.b) /\ log' = <<0, 1>> /\ UNCHANGED <<c, k>>
SwitchDecide == /\ c.part = "switch" /\ pc = "start"
                /\ pc' = "done" /\ out' = [x \in Subjects |-> Sequential(c.arms, x)] /\ UNCHANGED <<c, k, log>>

Done == pc = "done" /\ UNCHANGED vars

Next == \/ ChainContinue \/ ChainLast \/ ChainStopFalse \/ ChainRaise
        \/ MemberOperands \/ MemberHashFail \/ MemberHitIdentity \/ MemberHitEqual \/ MemberExhausted
        \/ PairDecide \/ StrinDecide \/ SwitchDecide \/ Done
Spec == Init /\ [][Next]_vars

---------------------------------------------------------------------------
(* invariants *)
\* every operand at most once, left to right: the log is 0, 1, 2, ... without gaps
LogInOrder == \A i \in DOMAIN log : log[i] = i - 1

ChainOK == (c.part = "chain" /\ pc = "done") =>
             LET r == ChainRef(c.ops, c.vals) IN
             /\ out = r.out /\ Len(log) = r.n /\ out \in Results
             \* nothing is evaluated beyond the first link that is not true
             /\ \A j \in 1..(Len(log) - 2) : Truthy(Link(c.ops, c.vals, j))
             \* a chain that ran to its end returns the last link; a stopped one a falsy value or an exception
             /\ (Len(log) <= Len(c.ops) => ~Truthy(out))
\* a negated chain of one link is the negation (in/not in, is/is not, ==/!= on values with consistent methods)
ChainDuals == (c.part = "chain" /\ pc = "done" /\ Len(c.ops) = 1) =>
             LET a == c.vals[1] b == c.vals[2] IN
             /\ Cmp(a, "notin", b) = Not(Cmp(a, "in", b))
             /\ Cmp(a, "isnot", b) = Not(Cmp(a, "is", b))
             /\ (a # "W" /\ b # "W" => Cmp(a, "!=", b) = Not(Cmp(a, "==", b)))

\* laws of a total preorder with a separate "unordered" class (nan) -- they tie the six operators together
PairOK == (c.part = "pair" /\ pc = "done") =>
             LET a == c.a b == c.b R(o) == Rich2(a, o, b) IN
             /\ c.a \in PairTokens /\ c.b \in PairTokens /\ out \in Results
             /\ (a # "W" /\ b # "W") =>
                  /\ R("!=") = Not(R("=="))
                  /\ Rich2(b, Swap(c.op), a) = out                                  \* reflection
                  /\ (R("<") \in Excs <=> R(">=") \in Excs) /\ (R("<") \in Excs <=> R("<=") \in Excs) /\ (R("<") \in Excs <=> R(">") \in Excs)
                  /\ (R("<") \notin Excs /\ a # "nan" /\ b # "nan") =>
                        /\ Cardinality({o \in {"<", "==", ">"} : R(o) = "True"}) = 1   \* trichotomy
                        /\ R("<=") = Not(R(">")) /\ R(">=") = Not(R("<"))
                  /\ (a = b /\ a # "nan") => R("==") = "True"

MemberOK == (c.part = "member" /\ pc = "done") =>
             /\ out = MemberRef(c.kind, c.neg, c.x, c.ms)
             /\ Len(log) = Len(c.ms) + 1
\* FlattenInListTransform differs from the reference exactly in the two predicted ways
MemberHazard == MemberImpl(c.kind, c.neg, c.x, c.ms) # MemberRef(c.kind, c.neg, c.x, c.ms)
FlattenOffHazards == (c.part = "member" /\ pc = "done") =>
             (MemberHazard => (FlattenApplies(c.kind, c.ms) /\ MemberWhy(c.kind, c.x, c.ms) # "none"))
FlattenStrict == (c.part = "member" /\ pc = "done") => ~MemberHazard
FlattenOrderStrict == (c.part = "member" /\ pc = "done") => FlattenLog(c.kind, c.ms, TRUE) = log

StrinHazard == c.cint /\ c.kind = "bytes" /\ c.x.k = "int" /\ BytesImplCInt(c.neg, c.x.v, c.cs) # out
StrinOK == (c.part = "strin" /\ pc = "done") =>
             /\ out \in Results
             \* the C paths are exact on 7-bit values, and on all byte values when no switch is built
             /\ (StrinHazard => (c.x.v \notin 0..255 \/ (c.x.v >= 128 /\ Cardinality(Range(c.cs)) >= 2)))
StrinStrict == (c.part = "strin" /\ pc = "done") => ~StrinHazard

SwitchHazard == SwitchImplRow(c.fam, c.arms) # [x \in Subjects |-> Sequential(c.arms, x)]
SwitchOK == (c.part = "switch" /\ pc = "done") =>
             /\ \A x \in Subjects : out[x] \in 0..Len(c.arms)
             /\ \A x \in Subjects : out[x] # 0 => Matches(c.arms[out[x]], x) /\ \A j \in 1..(out[x] - 1) : ~Matches(c.arms[j], x)
             \* a switch is only built from pairwise different keys; it is not a C program iff two keys denote one C value
             /\ (SwitchHazard <=> (IsSwitch(c.fam, c.arms) /\ ~WellFormed(c.fam, c.arms)))
             /\ (SwitchHazard => (c.fam = "bytes" /\ \E i, j \in DOMAIN c.arms : c.arms[i].f = "eq" /\ c.arms[j].f = "in"))
SwitchStrict == (c.part = "switch" /\ pc = "done") => ~SwitchHazard

(* publication of the final states *)
Publish == pc = "done" =>
   CASE c.part = "chain"  -> PrintT("@@" \o ToJson([p |-> "c", id |-> c.id, vals |-> c.vals, out |-> out, n |-> Len(log)]))
     [] c.part = "pair"   -> PrintT("@@" \o ToJson([p |-> "p", id |-> c.id, a |-> c.a, b |-> c.b, out |-> out]))
     [] c.part = "member" -> PrintT("@@" \o ToJson([p |-> "m", id |-> c.id, x |-> c.x, ms |-> c.ms, out |-> out, n |-> Len(log),
                                                   hz |-> MemberHazard, why |-> MemberWhy(c.kind, c.x, c.ms),
                                                   ilog |-> FlattenLog(c.kind, c.ms, TRUE),
                                                   impl |-> MemberImpl(c.kind, c.neg, c.x, c.ms)]))
     [] c.part = "strin"  -> PrintT("@@" \o ToJson([p |-> "s", id |-> c.id, x |-> c.x, out |-> out, hz |-> StrinHazard,
                                                   impl |-> IF c.cint /\ c.kind = "bytes" /\ c.x.k = "int" THEN BytesImplCInt(c.neg, c.x.v, c.cs) ELSE out]))
     [] c.part = "switch" -> PrintT("@@" \o ToJson([p |-> "w", fam |-> c.fam, arms |-> c.arms, els |-> c.els, row |-> out,
                                                   sw |-> IsSwitch(c.fam, c.arms), anysw |-> AnySwitch(c.fam, c.arms), hz |-> SwitchHazard]))
=============================================================================
