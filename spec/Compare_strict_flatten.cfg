SPECIFICATION Spec
CONSTANTS
  Part = "shapes"
  MaxArms = 1
INVARIANT FlattenStrict
CHECK_DEADLOCK FALSE
