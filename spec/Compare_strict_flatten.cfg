SPECIFICATION Spec
CONSTANTS
  Part = "shapes"
  BoolSize = "q"
  AndMerge = "fixed"
  MaxArms = 1
INVARIANT FlattenStrict
CHECK_DEADLOCK FALSE
