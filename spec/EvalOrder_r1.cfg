SPECIFICATION Spec
CONSTANTS
  MaxLeaves = 2
  MaxLeaves2 = 2
  Mod = 4
  Rem = 0
  Typings = {"O", "I", "M"}
  Tops = {"ret1"}
  Dump = FALSE
INVARIANT AtMostOnce
INVARIANT StopsAtRaise
INVARIANT AllEvaluated
INVARIANT LeftToRight
INVARIANT RhsFirst
INVARIANT AugOrder
INVARIANT Publish
CHECK_DEADLOCK FALSE
