SPECIFICATION Spec
CONSTANTS
  MaxLen = 2
  Dump = FALSE
  BodySel <- AllBodies
INVARIANT Consistent
INVARIANT FinallyOnce
INVARIANT CleanupOnDel
INVARIANT NoUnsup
PROPERTY Causal
CHECK_DEADLOCK FALSE
