----------------------------- MODULE CLiteral -----------------------------
(* C11: how a conforming C translator READS the text of string literals,    *)
(* character constants and {'c',..} initialisers (ISO C 5.1.1.2 translation *)
(* phases, 5.2.1.1 trigraphs, 6.4.4.4 escape sequences, 6.4.5 literals).    *)
(*                                                                          *)
(* The reader is a scanner state machine; one TLC behaviour per record:     *)
(*   phase 1  Trigraph : ??x -> one replaced character (9 trigraphs)        *)
(*   phase 2  Splice   : backslash immediately followed by new-line is      *)
(*                       deleted (after phase 1, so ??/ + new-line splices) *)
(*   phase 3/5 tokens and escapes: \ooo (1..3 octal digits), \xh.. (greedy, *)
(*            value must fit a byte), simple escapes \n \t \\ \" \' \? \a   *)
(*            \b \f \r \v; anything else after a backslash is malformed     *)
(*   phase 6  adjacent string literals are concatenated AFTER escape        *)
(*            processing: an escape never continues across  ""              *)
(* Records come from IOEnv.RECORDS (ndjson):                                *)
(*   [id, kind: "str"|"chr"|"arr", text: <<source chars 0..256>>,           *)
(*    expect: <<bytes>>]                                                    *)
(* "str": one or more adjacent string literals; "chr": one character        *)
(* constant; "arr": { 'c' , 'c' ... } (the MSVC branch of the emitter).     *)
(* The value is compared with `expect` on the fly (k = bytes produced,      *)
(* m = index of the first byte that differs, 0 if none).  Verdicts:         *)
(*   ok  reads as exactly expect          bad  well-formed, other value     *)
(*   mal not well-formed C                np   a character inside a literal *)
(*       outside printable ASCII/HT/VT/FF, a universal character name or a  *)
(*       multi-character constant: the reading is implementation-defined,   *)
(*       so no value is guaranteed by ISO C                                 *)
(* Every non-ok verdict is published; the harness decides what it means     *)
(* for the kind of record (produced by the compiler / by the oracle /       *)
(* deliberately corrupted).                                                 *)
EXTENDS Naturals, Integers, Sequences, Json, TLC, IOUtils

Records == ndJsonDeserialize(IOEnv.RECORDS)
N == Len(Records)

EOF == -1
Modes == {"gap", "pre", "elt", "sep", "tail", "in", "esc", "oct", "hex"}
Outside == {"gap", "pre", "elt", "sep", "tail"}
Verdicts == {"run", "ok", "bad", "mal", "np"}

(* ISO C 5.2.1.1: ??= # ??( [ ??/ \ ??) ] ??' ^ ??< { ??! | ??> } ??- ~ *)
TriOf(c) == CASE c = 61 -> 35  [] c = 40 -> 91  [] c = 47 -> 92
              [] c = 41 -> 93  [] c = 39 -> 94  [] c = 60 -> 123
              [] c = 33 -> 124 [] c = 62 -> 125 [] c = 45 -> 126
              [] OTHER -> -1

(* ISO C 6.4.4.4 simple-escape-sequence: the character after the backslash *)
SimpleOf(c) == CASE c = 110 -> 10 [] c = 116 -> 9  [] c = 92 -> 92
                 [] c = 34 -> 34  [] c = 39 -> 39  [] c = 63 -> 63
                 [] c = 97 -> 7   [] c = 98 -> 8   [] c = 102 -> 12
                 [] c = 114 -> 13 [] c = 118 -> 11
                 [] OTHER -> -1

IsOct(c) == c \in 48..55
HexVal(c) == IF c \in 48..57 THEN c - 48
             ELSE IF c \in 97..102 THEN c - 87
             ELSE IF c \in 65..70 THEN c - 55
             ELSE -1
IsWs(c) == c \in {32, 9, 10, 11, 12}
(* members of the basic source character set that may stand for themselves *)
Portable(c) == c \in 32..126 \/ c \in {9, 11, 12}

---------------------------------------------------------------------------
VARIABLES r,      \* record being read
          p,      \* next raw position in the text (1-based)
          la,     \* character produced by a trigraph and not yet consumed, or -1
          mode,   \* scanner mode
          acc, nd,\* value / digit count of the numeric escape being read
          k, m,   \* bytes produced so far; index of the first mismatch with expect
          cc,     \* characters in the current character constant (kinds chr/arr)
          nl,     \* 1 once a literal / constant has been closed
          v       \* verdict
vars == <<r, p, la, mode, acc, nd, k, m, cc, nl, v>>

Rec == Records[r]
T == Rec.text
E == Rec.expect
K == Rec.kind
Q == IF K = "str" THEN 34 ELSE 39            \* the delimiter of this kind

Raw(i) == IF i <= Len(T) THEN T[i] ELSE EOF
HasTri == la < 0 /\ Raw(p) = 63 /\ Raw(p + 1) = 63 /\ TriOf(Raw(p + 2)) >= 0
Cur == IF la >= 0 THEN la ELSE Raw(p)         \* current character after phase 1
After == IF la >= 0 THEN p ELSE p + 1         \* raw position behind Cur
HasSplice == ~HasTri /\ Cur = 92 /\ Raw(After) = 10
Ready == v = "run" /\ ~HasTri /\ ~HasSplice   \* Cur is a phase-2 character

Consume == la' = -1 /\ p' = After
Stay == UNCHANGED <<la, p>>
Emit(b) == /\ k' = k + 1
           /\ m' = IF m = 0 /\ (k + 1 > Len(E) \/ E[k + 1] # b) THEN k + 1 ELSE m
           /\ cc' = IF K = "str" THEN 0 ELSE IF cc = 0 THEN 1 ELSE 2
NoEmit == UNCHANGED <<k, m, cc>>

StartMode(kind) == IF kind = "str" THEN "gap" ELSE IF kind = "chr" THEN "elt" ELSE "pre"

Init == /\ r \in 1..N
        /\ p = 1 /\ la = -1 /\ mode = StartMode(Records[r].kind)
        /\ acc = 0 /\ nd = 0 /\ k = 0 /\ m = 0 /\ cc = 0 /\ nl = 0 /\ v = "run"

---------------------------------------------------------------------------
(* guards of the scanner steps (Ready is implied by the actions) *)
PunctNext == IF K # "arr" THEN ""
             ELSE IF mode = "pre" /\ Cur = 123 THEN "elt"
             ELSE IF mode = "sep" /\ Cur = 44 THEN "elt"
             ELSE IF mode = "sep" /\ Cur = 125 THEN "tail"
             ELSE IF mode = "elt" /\ nl = 1 /\ Cur = 125 THEN "tail"   \* trailing comma
             ELSE ""
OctNext == acc * 8 + (Cur - 48)
HexNext == acc * 16 + HexVal(Cur)
Accepting == \/ K = "str" /\ mode = "gap" /\ nl = 1
             \/ K # "str" /\ mode = "tail"

G_SkipWs     == mode \in Outside /\ IsWs(Cur)
G_OpenQuote  == mode \in {"gap", "elt"} /\ Cur = Q
G_Punct      == mode \in Outside /\ PunctNext # ""
G_CloseQuote == mode = "in" /\ Cur = Q /\ (K = "str" \/ cc = 1)
G_Plain      == mode = "in" /\ Cur \notin {Q, 92} /\ Portable(Cur)
G_NonPort    == \/ mode = "in" /\ Cur \notin {Q, 92, 10, EOF} /\ ~Portable(Cur)
                \/ mode = "esc" /\ Cur \in {117, 85}             \* \u \U: value depends on the execution charset
                \/ mode = "in" /\ Cur = Q /\ K # "str" /\ cc = 2    \* multi-character constant
G_Backslash  == mode = "in" /\ Cur = 92
G_SimpleEsc  == mode = "esc" /\ SimpleOf(Cur) >= 0
G_OctStart   == mode = "esc" /\ IsOct(Cur)
G_HexStart   == mode = "esc" /\ Cur = 120
G_OctDigit   == mode = "oct" /\ IsOct(Cur) /\ OctNext <= 255
G_OctEnd     == mode = "oct" /\ ~IsOct(Cur)
G_HexDigit   == mode = "hex" /\ HexVal(Cur) >= 0 /\ HexNext <= 255
G_HexEnd     == mode = "hex" /\ HexVal(Cur) < 0 /\ nd = 1
G_Finish     == Cur = EOF /\ Accepting

Guards == <<G_SkipWs, G_OpenQuote, G_Punct, G_CloseQuote, G_Plain, G_NonPort, G_Backslash,
            G_SimpleEsc, G_OctStart, G_HexStart, G_OctDigit, G_OctEnd, G_HexDigit, G_HexEnd,
            G_Finish>>
RECURSIVE CountTrue(_, _)
CountTrue(s, i) == IF i > Len(s) THEN 0 ELSE (IF s[i] THEN 1 ELSE 0) + CountTrue(s, i + 1)
NEnabled == CountTrue(Guards, 1)

Publish(verdict) ==
  IF verdict = "ok" THEN TRUE
  ELSE PrintT("@@" \o ToJson([id |-> Rec.id, v |-> verdict, k |-> k, m |-> m, p |-> p]))

---------------------------------------------------------------------------
(* phases 1 and 2 *)
Trigraph == /\ v = "run" /\ HasTri
            /\ la' = TriOf(Raw(p + 2)) /\ p' = p + 3
            /\ UNCHANGED <<r, mode, acc, nd, k, m, cc, nl, v>>

Splice == /\ v = "run" /\ HasSplice
          /\ la' = -1 /\ p' = After + 1
          /\ UNCHANGED <<r, mode, acc, nd, k, m, cc, nl, v>>

(* between literals *)
SkipWs == /\ Ready /\ G_SkipWs /\ Consume
          /\ UNCHANGED <<r, mode, acc, nd, k, m, cc, nl, v>>

OpenQuote == /\ Ready /\ G_OpenQuote /\ Consume
             /\ mode' = "in" /\ cc' = 0
             /\ UNCHANGED <<r, acc, nd, k, m, nl, v>>

Punct == /\ Ready /\ G_Punct /\ Consume
         /\ mode' = PunctNext
         /\ UNCHANGED <<r, acc, nd, k, m, cc, nl, v>>

(* inside a literal *)
CloseQuote == /\ Ready /\ G_CloseQuote /\ Consume
              /\ mode' = (IF K = "str" THEN "gap" ELSE IF K = "chr" THEN "tail" ELSE "sep")
              /\ nl' = 1
              /\ UNCHANGED <<r, acc, nd, k, m, cc, v>>

Plain == /\ Ready /\ G_Plain /\ Consume /\ Emit(Cur)
         /\ UNCHANGED <<r, mode, acc, nd, nl, v>>

Backslash == /\ Ready /\ G_Backslash /\ Consume /\ NoEmit
             /\ mode' = "esc"
             /\ UNCHANGED <<r, acc, nd, nl, v>>

SimpleEsc == /\ Ready /\ G_SimpleEsc /\ Consume /\ Emit(SimpleOf(Cur))
             /\ mode' = "in"
             /\ UNCHANGED <<r, acc, nd, nl, v>>

OctStart == /\ Ready /\ G_OctStart /\ Consume /\ NoEmit
            /\ mode' = "oct" /\ acc' = Cur - 48 /\ nd' = 1
            /\ UNCHANGED <<r, nl, v>>

(* second or third octal digit; the third one completes the escape *)
OctDigit == /\ Ready /\ G_OctDigit /\ Consume
            /\ IF nd = 2 THEN Emit(OctNext) /\ mode' = "in" /\ acc' = 0 /\ nd' = 0
                         ELSE NoEmit /\ mode' = "oct" /\ acc' = OctNext /\ nd' = 2
            /\ UNCHANGED <<r, nl, v>>

(* a non-octal character ends the escape and is then read on its own *)
OctEnd == /\ Ready /\ G_OctEnd /\ Stay /\ Emit(acc)
          /\ mode' = "in" /\ acc' = 0 /\ nd' = 0
          /\ UNCHANGED <<r, nl, v>>

HexStart == /\ Ready /\ G_HexStart /\ Consume /\ NoEmit
            /\ mode' = "hex" /\ acc' = 0 /\ nd' = 0
            /\ UNCHANGED <<r, nl, v>>

(* greedy: every following hex digit belongs to the escape *)
HexDigit == /\ Ready /\ G_HexDigit /\ Consume /\ NoEmit
            /\ acc' = HexNext /\ nd' = 1
            /\ UNCHANGED <<r, mode, nl, v>>

HexEnd == /\ Ready /\ G_HexEnd /\ Stay /\ Emit(acc)
          /\ mode' = "in" /\ acc' = 0 /\ nd' = 0
          /\ UNCHANGED <<r, nl, v>>

(* verdicts *)
Finish == /\ Ready /\ G_Finish
          /\ v' = (IF m = 0 /\ k = Len(E) THEN "ok" ELSE "bad")
          /\ Publish(v')
          /\ UNCHANGED <<r, p, la, mode, acc, nd, k, m, cc, nl>>

NonPortable == /\ Ready /\ G_NonPort
               /\ v' = "np" /\ Publish("np")
               /\ UNCHANGED <<r, p, la, mode, acc, nd, k, m, cc, nl>>

(* nothing else applies: unterminated literal, raw new-line in a literal,    *)
(* unknown escape, \x without digits, numeric escape out of range, stray     *)
(* text between literals, empty character constant                           *)
Reject == /\ Ready /\ NEnabled = 0
          /\ v' = "mal" /\ Publish("mal")
          /\ UNCHANGED <<r, p, la, mode, acc, nd, k, m, cc, nl>>

Done == v # "run" /\ UNCHANGED vars

Next == \/ Trigraph \/ Splice \/ SkipWs \/ OpenQuote \/ Punct \/ CloseQuote \/ Plain
        \/ Backslash \/ SimpleEsc \/ OctStart \/ OctDigit \/ OctEnd \/ HexStart \/ HexDigit
        \/ HexEnd \/ Finish \/ NonPortable \/ Reject \/ Done
Spec == Init /\ [][Next]_vars

---------------------------------------------------------------------------
TypeOK == /\ r \in 1..N /\ p \in 1..(Len(T) + 1) /\ la \in -1..255
          /\ mode \in Modes /\ acc \in 0..255 /\ nd \in 0..2
          /\ k \in Nat /\ m \in 0..k /\ cc \in 0..2 /\ nl \in 0..1 /\ v \in Verdicts

(* the reader is a function: in every running state exactly one step applies *)
Deterministic == Ready => NEnabled <= 1
(* every value byte costs at least one source character (plus the opening delimiter) *)
Consumes == k < p
(* "ok" is only ever said of a completely read text whose value is expect *)
OkIsEqual == v = "ok" => (m = 0 /\ k = Len(E) /\ p = Len(T) + 1 /\ la = -1)
(* numeric escapes never leave a pending value outside their modes *)
AccIdle == mode \notin {"oct", "hex"} => (acc = 0 /\ nd = 0)
=============================================================================
