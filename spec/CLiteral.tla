----------------------------- MODULE CLiteral -----------------------------
(* C11: how a conforming C translator READS the text of string literals,    *)
(* character constants and {'c',..} initialisers (ISO C 5.1.1.2 translation *)
(* phases, 5.2.1.1 trigraphs, 6.4.4.4 escape sequences, 6.4.5 literals).    *)
(*                                                                          *)
(* The reader is a scanner state machine; one TLC behaviour per record:     *)
(*   phase 1  Trigraph : ??x -> one replaced character (9 trigraphs)        *)
(*   phase 2  Splice   : backslash immediately followed by new-line is      *)
(*                       deleted (after phase 1, so ??/ + new-line splices) *)
(*   phase 3/5 tokens and escapes: \ooo (1..3 octal digits), \xh.. (greedy, *)
(*            value must fit a byte), simple escapes \n \t \\ \" \' \? \a   *)
(*            \b \f \r \v; anything else after a backslash is malformed     *)
(*   phase 6  adjacent string literals are concatenated AFTER escape        *)
(*            processing: an escape never continues across  ""              *)
(* Records come from IOEnv.RECORDS (ndjson):                                *)
(*   [id, kind: "str"|"chr"|"arr", text: <<source chars 0..256>>,           *)
(*    expect: <<bytes>>]                                                    *)
(* "str": one or more adjacent string literals; "chr": one character        *)
(* constant; "arr": { 'c' , 'c' ... } (the MSVC branch of the emitter).     *)
(* The value is compared with `expect` on the fly (k = bytes produced,      *)
(* m = index of the first byte that differs, 0 if none).  Verdicts:         *)
(*   ok  reads as exactly expect          bad  well-formed, other value     *)
(*   mal not well-formed C                np   a character inside a literal *)
(*       outside printable ASCII/HT/VT/FF, a universal character name or a  *)
(*       multi-character constant: the reading is implementation-defined,   *)
(*       so no value is guaranteed by ISO C                                 *)
(* Every non-ok verdict is published; the harness decides what it means     *)
(* for the kind of record (produced by the compiler / by the oracle /       *)
(* deliberately corrupted).                                                 *)
EXTENDS Naturals, Integers, Sequences, Json, TLC, IOUtils

Records == ndJsonDeserialize(IOEnv.RECORDS)
N == Len(Records)

EOF == -1
Modes == {"gap", "pre", "elt", "sep", "tail", "in", "esc", "oct", "hex"}
Outside == {"gap", "pre", "elt", "sep", "tail"}
Verdicts == {"run", "ok", "bad", "mal", "np"}

(* ISO C 5.2.1.1: ??= # ??( [ ??/ \ ??) ] ??' ^ ??< { ??! | ??> } ??- ~ *)
TriOf(c) == CASE c = 61 -> 35  [] c = 40 -> 91  [] c = 47 -> 92
              [] c = 41 -> 93  [] c = 39 -> 94  [] c = 60 -> 123
              [] c = 33 -> 124 [] c = 62 -> 125 [] c = 45 -> 126
              [] OTHER -> -1

(* ISO C 6.4.4.4 simple-escape-sequence: the character after the backslash *)
SimpleOf(c) == CASE c = 110 -> 10 [] c = 116 -> 9  [] c = 92 -> 92
                 [] c = 34 -> 34  [] c = 39 -> 39  [] c = 63 -> 63
                 [] c = 97 -> 7   [] c = 98 -> 8   [] c = 102 -> 12
                 [] c = 114 -> 13 [] c = 118 -> 11
                 [] OTHER -> -1

IsOct(c) == c \in 48..55
HexVal(c) == IF c \in 48..57 THEN c - 48
             ELSE IF c \in 97..102 THEN c - 87
             ELSE IF c \in 65..70 THEN c - 55
             ELSE -1
IsWs(c) == c \in {32, 9, 10, 11, 12}
(* members of the basic source character set that may stand for themselves *)
Portable(c) == c \in 32..126 \/ c \in {9, 11, 12}

---------------------------------------------------------------------------
VARIABLES r,      \* record being read
          c,      \* current character after phase 1 (EOF = -1 behind the text)
          p,      \* raw position behind c (1-based): the next unread source character
          tri,    \* TRUE iff c was produced by a trigraph (it cannot start another one)
          mode,   \* scanner mode
          acc, nd,\* value / digit count of the numeric escape being read
          k, m,   \* bytes produced so far; index of the first mismatch with expect
          cc,     \* characters in the current character constant (kinds chr/arr)
          nl,     \* 1 once a literal / constant has been closed
          v       \* verdict
vars == <<r, c, p, tri, mode, acc, nd, k, m, cc, nl, v>>

Rec == Records[r]
T == Rec.text
E == Rec.expect
K == Rec.kind
Q == IF K = "str" THEN 34 ELSE 39            \* the delimiter of this kind

Raw(i) == IF i <= Len(T) THEN T[i] ELSE EOF
(* phase 1: c = '?' read from the text, followed by '?' and one of the nine characters *)
HasTri == c = 63 /\ ~tri /\ Raw(p) = 63 /\ TriOf(Raw(p + 1)) >= 0
(* phase 2: a backslash (possibly written ??/) immediately followed by new-line *)
HasSplice == c = 92 /\ Raw(p) = 10
Ready == v = "run" /\ ~HasTri /\ ~HasSplice   \* c is a phase-2 character

Consume == c' = Raw(p) /\ p' = p + 1 /\ tri' = FALSE
Stay == UNCHANGED <<c, p, tri>>
Emit(b) == /\ k' = k + 1
           /\ m' = IF m = 0 /\ (k + 1 > Len(E) \/ E[k + 1] # b) THEN k + 1 ELSE m
           /\ cc' = IF K = "str" THEN 0 ELSE IF cc = 0 THEN 1 ELSE 2
NoEmit == UNCHANGED <<k, m, cc>>

StartMode(kind) == IF kind = "str" THEN "gap" ELSE IF kind = "chr" THEN "elt" ELSE "pre"

Init == /\ r \in 1..N
        /\ c = (IF Len(Records[r].text) >= 1 THEN Records[r].text[1] ELSE EOF)
        /\ p = 2 /\ tri = FALSE /\ mode = StartMode(Records[r].kind)
        /\ acc = 0 /\ nd = 0 /\ k = 0 /\ m = 0 /\ cc = 0 /\ nl = 0 /\ v = "run"

---------------------------------------------------------------------------
(* guards of the scanner steps; the actions add Ready *)
PunctNext == IF K # "arr" THEN ""
             ELSE IF mode = "pre" /\ c = 123 THEN "elt"
             ELSE IF mode = "sep" /\ c = 44 THEN "elt"
             ELSE IF mode = "sep" /\ c = 125 THEN "tail"
             ELSE IF mode = "elt" /\ nl = 1 /\ c = 125 THEN "tail"   \* trailing comma
             ELSE ""
OctNext == acc * 8 + (c - 48)
HexNext == acc * 16 + HexVal(c)
Accepting == \/ mode = "gap" /\ nl = 1 /\ K = "str"
             \/ mode = "tail" /\ K # "str"

G_SkipWs     == mode \in Outside /\ IsWs(c)
G_OpenQuote  == mode \in {"gap", "elt"} /\ c = Q
G_Punct      == mode \in Outside /\ c \in {123, 44, 125} /\ PunctNext # ""
G_CloseQuote == mode = "in" /\ c = Q /\ (K = "str" \/ cc = 1)
G_Plain      == mode = "in" /\ c # 92 /\ Portable(c) /\ c # Q
G_NonPort    == \/ mode = "in" /\ ~Portable(c) /\ c \notin {10, EOF}
                \/ mode = "esc" /\ c \in {117, 85}                 \* \u \U: value depends on the execution charset
                \/ mode = "in" /\ cc = 2 /\ c = Q /\ K # "str"       \* multi-character constant
G_Backslash  == mode = "in" /\ c = 92
G_SimpleEsc  == mode = "esc" /\ SimpleOf(c) >= 0
G_OctStart   == mode = "esc" /\ IsOct(c)
G_HexStart   == mode = "esc" /\ c = 120
G_OctDigit   == mode = "oct" /\ IsOct(c) /\ OctNext <= 255
G_OctEnd     == mode = "oct" /\ ~IsOct(c)
G_HexDigit   == mode = "hex" /\ HexVal(c) >= 0 /\ HexNext <= 255
G_HexEnd     == mode = "hex" /\ HexVal(c) < 0 /\ nd = 1
G_Finish     == c = EOF /\ Accepting

Guards == <<G_SkipWs, G_OpenQuote, G_Punct, G_CloseQuote, G_Plain, G_NonPort, G_Backslash,
            G_SimpleEsc, G_OctStart, G_HexStart, G_OctDigit, G_OctEnd, G_HexDigit, G_HexEnd,
            G_Finish>>
RECURSIVE CountTrue(_, _)
CountTrue(s, i) == IF i > Len(s) THEN 0 ELSE (IF s[i] THEN 1 ELSE 0) + CountTrue(s, i + 1)
NEnabled == CountTrue(Guards, 1)
AnyGuard == \/ G_SkipWs \/ G_OpenQuote \/ G_Punct \/ G_CloseQuote \/ G_Plain \/ G_NonPort \/ G_Backslash
            \/ G_SimpleEsc \/ G_OctStart \/ G_HexStart \/ G_OctDigit \/ G_OctEnd \/ G_HexDigit \/ G_HexEnd
            \/ G_Finish

(* non-ok verdicts are published: record id, verdict, bytes read, first mismatch, *)
(* position of the current character in the text and the character itself          *)
Publish(verdict) ==
  IF verdict = "ok" THEN TRUE
  ELSE PrintT("@@" \o ToJson([id |-> Rec.id, v |-> verdict, k |-> k, m |-> m, p |-> p - 1, c |-> c]))

---------------------------------------------------------------------------
(* phases 1 and 2 *)
Trigraph == /\ v = "run" /\ HasTri
            /\ c' = TriOf(Raw(p + 1)) /\ p' = p + 2 /\ tri' = TRUE
            /\ UNCHANGED <<r, mode, acc, nd, k, m, cc, nl, v>>

Splice == /\ v = "run" /\ HasSplice
          /\ c' = Raw(p + 1) /\ p' = p + 2 /\ tri' = FALSE
          /\ UNCHANGED <<r, mode, acc, nd, k, m, cc, nl, v>>

(* between literals *)
SkipWs == /\ G_SkipWs /\ Ready /\ Consume
          /\ UNCHANGED <<r, mode, acc, nd, k, m, cc, nl, v>>

OpenQuote == /\ G_OpenQuote /\ Ready /\ Consume
             /\ mode' = "in" /\ cc' = 0
             /\ UNCHANGED <<r, acc, nd, k, m, nl, v>>

Punct == /\ G_Punct /\ Ready /\ Consume
         /\ mode' = PunctNext
         /\ UNCHANGED <<r, acc, nd, k, m, cc, nl, v>>

(* inside a literal *)
CloseQuote == /\ G_CloseQuote /\ Ready /\ Consume
              /\ mode' = (IF K = "str" THEN "gap" ELSE IF K = "chr" THEN "tail" ELSE "sep")
              /\ nl' = 1
              /\ UNCHANGED <<r, acc, nd, k, m, cc, v>>

Plain == /\ G_Plain /\ Ready /\ Consume /\ Emit(c)
         /\ UNCHANGED <<r, mode, acc, nd, nl, v>>

Backslash == /\ G_Backslash /\ Ready /\ Consume /\ NoEmit
             /\ mode' = "esc"
             /\ UNCHANGED <<r, acc, nd, nl, v>>

SimpleEsc == /\ G_SimpleEsc /\ Ready /\ Consume /\ Emit(SimpleOf(c))
             /\ mode' = "in"
             /\ UNCHANGED <<r, acc, nd, nl, v>>

OctStart == /\ G_OctStart /\ Ready /\ Consume /\ NoEmit
            /\ mode' = "oct" /\ acc' = c - 48 /\ nd' = 1
            /\ UNCHANGED <<r, nl, v>>

(* second or third octal digit; the third one completes the escape *)
OctDigit == /\ G_OctDigit /\ Ready /\ Consume
            /\ IF nd = 2 THEN Emit(OctNext) /\ mode' = "in" /\ acc' = 0 /\ nd' = 0
                         ELSE NoEmit /\ mode' = "oct" /\ acc' = OctNext /\ nd' = 2
            /\ UNCHANGED <<r, nl, v>>

(* a non-octal character ends the escape and is then read on its own *)
OctEnd == /\ G_OctEnd /\ Ready /\ Stay /\ Emit(acc)
          /\ mode' = "in" /\ acc' = 0 /\ nd' = 0
          /\ UNCHANGED <<r, nl, v>>

HexStart == /\ G_HexStart /\ Ready /\ Consume /\ NoEmit
            /\ mode' = "hex" /\ acc' = 0 /\ nd' = 0
            /\ UNCHANGED <<r, nl, v>>

(* greedy: every following hex digit belongs to the escape *)
HexDigit == /\ G_HexDigit /\ Ready /\ Consume /\ NoEmit
            /\ acc' = HexNext /\ nd' = 1
            /\ UNCHANGED <<r, mode, nl, v>>

HexEnd == /\ G_HexEnd /\ Ready /\ Stay /\ Emit(acc)
          /\ mode' = "in" /\ acc' = 0 /\ nd' = 0
          /\ UNCHANGED <<r, nl, v>>

(* verdicts *)
Finish == /\ G_Finish /\ Ready
          /\ v' = (IF m = 0 /\ k = Len(E) THEN "ok" ELSE "bad")
          /\ Publish(v')
          /\ UNCHANGED <<r, c, p, tri, mode, acc, nd, k, m, cc, nl>>

NonPortable == /\ G_NonPort /\ Ready
               /\ v' = "np" /\ Publish("np")
               /\ UNCHANGED <<r, c, p, tri, mode, acc, nd, k, m, cc, nl>>

(* nothing else applies: unterminated literal, raw new-line in a literal,    *)
(* unknown escape, \x without digits, numeric escape out of range, stray     *)
(* text between literals, empty character constant                           *)
Reject == /\ v = "run" /\ ~AnyGuard /\ Ready
          /\ v' = "mal" /\ Publish("mal")
          /\ UNCHANGED <<r, c, p, tri, mode, acc, nd, k, m, cc, nl>>

Done == v # "run" /\ UNCHANGED vars

Next == \/ Trigraph \/ Splice \/ SkipWs \/ OpenQuote \/ Punct \/ CloseQuote \/ Plain
        \/ Backslash \/ SimpleEsc \/ OctStart \/ OctDigit \/ OctEnd \/ HexStart \/ HexDigit
        \/ HexEnd \/ Finish \/ NonPortable \/ Reject \/ Done
Spec == Init /\ [][Next]_vars

---------------------------------------------------------------------------
TypeOK == /\ r \in 1..N /\ c \in -1..256 /\ p \in 2..(Len(T) + 2) /\ tri \in BOOLEAN
          /\ mode \in Modes /\ acc \in 0..255 /\ nd \in 0..2
          /\ k >= 0 /\ m \in 0..k /\ cc \in 0..2 /\ nl \in 0..1 /\ v \in Verdicts

(* the reader is a function: in every running state at most one step applies *)
(* (Reject is by definition the step taken when none of them does)           *)
Deterministic == Ready => NEnabled <= 1
(* every value byte costs at least one source character (plus the opening delimiter) *)
Consumes == k < p
(* "ok" is only ever said of a completely read text whose value is expect *)
OkIsEqual == v = "ok" => (m = 0 /\ k = Len(E) /\ c = EOF /\ p = Len(T) + 2)
(* numeric escapes never leave a pending value outside their modes *)
AccIdle == mode \notin {"oct", "hex"} => (acc = 0 /\ nd = 0)
=============================================================================
