------------------------------- MODULE Mutate -------------------------------
(* C43: token-level edits of a token sequence.  A seed of n tokens is the   *)
(* index sequence <<1, .., n>>; an edit script of up to MaxEdits edits      *)
(* (positions refer to the current sequence) turns it into an index         *)
(* sequence that the harness maps back to the tokens of every seed program  *)
(* of that length.                                                          *)
(*   del(i)      remove position i                                          *)
(*   dup(i)      repeat position i                                          *)
(*   swap(i, j)  exchange positions i < j                                   *)
(*   trunc(i)    keep the first i positions, 0 <= i < length (the text ends *)
(*               in the middle of the program)                              *)
(* Every (n, script) is a state; it is published with the resulting index   *)
(* sequence.  With K2 > 1 only the seeded 1/K2 sample of second edits is    *)
(* explored (single edits always completely).                               *)
EXTENDS Integers, Sequences, FiniteSets, TLC, Json, IOUtils

CONSTANTS MinN, MaxN, MaxEdits, K2, Dump

Seed == IF "C43_SEED" \in DOMAIN IOEnv THEN atoi(IOEnv.C43_SEED) % 1000 ELSE 0

Ident(n) == [i \in 1..n |-> i]
Del(s, i)  == SubSeq(s, 1, i - 1) \o SubSeq(s, i + 1, Len(s))
Dup(s, i)  == SubSeq(s, 1, i) \o SubSeq(s, i, Len(s))
Swap(s, i, j) == [k \in 1..Len(s) |-> IF k = i THEN s[j] ELSE IF k = j THEN s[i] ELSE s[k]]
Trunc(s, i) == SubSeq(s, 1, i)

Edits(s) == LET L == Len(s) IN
            {[op |-> "del", i |-> i, j |-> 0] : i \in 1..L} \cup {[op |-> "dup", i |-> i, j |-> 0] : i \in 1..L}
            \cup {[op |-> "swap", i |-> p[1], j |-> p[2]] : p \in (1..L) \X (1..L)}
            \cup {[op |-> "trunc", i |-> i, j |-> 0] : i \in 0..(L - 1)}
ValidEdit(s, e) == e.op # "swap" \/ e.i < e.j
ApplyEdit(s, e) == CASE e.op = "del" -> Del(s, e.i) [] e.op = "dup" -> Dup(s, e.i)
                     [] e.op = "swap" -> Swap(s, e.i, e.j) [] e.op = "trunc" -> Trunc(s, e.i)
Code(e) == (CASE e.op = "del" -> 1 [] e.op = "dup" -> 2 [] e.op = "swap" -> 3 [] e.op = "trunc" -> 4) + 5 * e.i + 67 * e.j
SecondOK(e1, e2) == K2 = 1 \/ (Code(e1) * 31 + Code(e2) * 7 + Seed) % K2 = 0

VARIABLES n, seq, script
vars == <<n, seq, script>>

Init == n \in MinN..MaxN /\ seq = Ident(n) /\ script = <<>>
Edit == /\ Len(script) < MaxEdits
        /\ \E e \in Edits(seq) :
             /\ ValidEdit(seq, e)
             /\ script # <<>> => SecondOK(script[Len(script)], e)
             /\ seq' = ApplyEdit(seq, e)
             /\ script' = Append(script, e)
        /\ UNCHANGED n
Done == Len(script) = MaxEdits /\ UNCHANGED vars
Next == Edit \/ Done
Spec == Init /\ [][Next]_vars

---------------------------------------------------------------------------
Count(s, v) == Cardinality({k \in 1..Len(s) : s[k] = v})
NDup == Cardinality({k \in 1..Len(script) : script[k].op = "dup"})
NDel == Cardinality({k \in 1..Len(script) : script[k].op = "del"})
HasTrunc == \E k \in 1..Len(script) : script[k].op = "trunc"
TypeOK == /\ \A k \in 1..Len(seq) : seq[k] \in 1..n
          /\ Len(seq) <= n + NDup
(* without truncation the length is determined by the script; nothing appears more often than it was repeated *)
LenOK == ~HasTrunc => Len(seq) = n - NDel + NDup
MultOK == \A v \in 1..n : Count(seq, v) <= 1 + NDup
(* a single edit never gives back the seed (every single edit is a real mutation of distinct tokens) *)
SingleChanges == Len(script) = 1 => seq # Ident(n)
(* a lone truncation is a proper prefix, a lone deletion an order-preserving subsequence *)
TruncPrefix == (Len(script) = 1 /\ script[1].op = "trunc") => (Len(seq) < n /\ seq = Ident(Len(seq)))
DelSubseq == (Len(script) = 1 /\ script[1].op = "del") => \A k \in 1..(Len(seq) - 1) : seq[k] < seq[k + 1]
Publish == (Dump /\ script # <<>>) => PrintT("@@" \o ToJson([n |-> n, script |-> script, seq |-> seq]))
=============================================================================
