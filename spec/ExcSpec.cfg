SPECIFICATION Spec
CONSTANTS
  Kinds = {"cdef", "cpdef", "meth", "cpmeth"}
  CrossPtr = TRUE
  Legacy = {FALSE}
  WTypes = {"schar", "uchar", "ushort", "uint", "ulong", "float"}
  WKinds = {"cdef", "cpdef"}
  SentCast = "rtype"
  Dump = TRUE
INVARIANT ImplAgrees
INVARIANT ErrConsistent
INVARIANT NoStale
INVARIANT HookOnce
INVARIANT HazardOnlyMisuse
INVARIANT Publish
CHECK_DEADLOCK FALSE
