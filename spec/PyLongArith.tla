------------------------------ MODULE PyLongArith ------------------------------
(* C02: x op c and c op x (+ - * / // % & | ^ << >> == !=, in-place forms     *)
(* included) with a numeric constant c give the value, type and exception of  *)
(* CPython.                                                                   *)
(*                                                                            *)
(* Reference : Python semantics on ints/bools (unbounded), and on floats of a *)
(*   SCALED IEEE model: sign, MANT-bit mantissa, half-even rounding, signed   *)
(*   zeros, inf, nan, overflow at 2^EMAX; int -> float conversion rounds and  *)
(*   raises OverflowError; int / int is correctly rounded.                    *)
(* Impl-shaped: the helper families of Cython/Utility/Optimize.c              *)
(*   PyLongBinop    __Pyx_PyLong_<Op><ObjC|CObj>      (digit unpacking)       *)
(*   PyLongCompare  __Pyx_PyLong_[Bool]<Eq|Ne>...                             *)
(*   PyFloatBinop   __Pyx_PyFloat_[Bool]<Op>...       (float constants)       *)
(*   PyNumberBinop  __Pyx_PyNumber_<Op>_<t1>_<t2>     (typed operand)         *)
(*   PyObjectCompare __Pyx_PyObject_Compare[Bool]<Eq|Ne>_<t1>_<t2>            *)
(*   and the selection rule of Optimize.py:optimise_numeric_binop / the       *)
(*   method handlers / ExprNodes.py (Select).                                 *)
(* PyLong digits have SHIFT bits, C long LONG bits, long long LLONG bits,     *)
(* constants |c| <= 2^CBITS are "in range".  Real: 30/64/64/30, MANT 53,      *)
(* EMAX 1024.  TLC integers are 32-bit, so the instance is scaled (3/8/8/3,   *)
(* MANT 5): every guard of the C code compares the same quantities.           *)
(* One state per (site, chunk of operands); the state carries, per operand,   *)
(* <<reference, fast-path result, path>>.                                     *)
(* Float constants: a base set plus the boundary family BndFloatConsts (the   *)
(* integral doubles around 2^SHIFT, 2^(2 SHIFT), 2^MANT, 2^(MANT+1),          *)
(* 2^(LONG-1), both signs); case class RoundCollision / invariant             *)
(* ExactCompare: int ==/!= float is exact where (double) int = constant.      *)
EXTENDS Integers, Sequences, TLC, Json, FiniteSets

CONSTANTS SHIFT, LONG, LLONG, CBITS, MANT, EMAX,
          XMAX,            \* int operands range over -XMAX .. XMAX (covers 1, 2 and 3 digit values)
          CH,              \* operands per state
          ConstMags,       \* magnitudes of the integer constants of the sites (both signs are used)
          ShiftCounts,     \* constants of the << >> sites
          DeclaredHazards, \* "<family>/<path>" strings on which fast /= reference is tolerated (published)
          Dump

Pow2(n) == 2 ^ n
IntConsts == ConstMags \cup {-m : m \in ConstMags}
Abs(x) == IF x < 0 THEN -x ELSE x
Max(a, b) == IF a > b THEN a ELSE b
TruncDiv(a, b) == IF (a < 0) = (b < 0) THEN Abs(a) \div Abs(b) ELSE -(Abs(a) \div Abs(b))
FloorDiv(a, b) == LET q == TruncDiv(a, b) IN IF (a - q * b) # 0 /\ ((a < 0) # (b < 0)) THEN q - 1 ELSE q
FloorMod(a, b) == a - FloorDiv(a, b) * b
RECURSIVE BitLen(_)
BitLen(n) == IF n = 0 THEN 0 ELSE 1 + BitLen(n \div 2)
NDigits(v) == (BitLen(Abs(v)) + SHIFT - 1) \div SHIFT
Base == Pow2(SHIFT)
Digit(v, i) == (Abs(v) \div (Base ^ i)) % Base
Fits(bits, v) == v >= -Pow2(bits - 1) /\ v <= Pow2(bits - 1) - 1
Wrap(bits, v) == LET m == Pow2(bits) r == v - FloorDiv(v, m) * m IN IF r >= Pow2(bits - 1) THEN r - m ELSE r
IsCompact(v) == Abs(v) < Base

RECURSIVE BitOp(_, _, _)
BitOp(op, a, b) ==       \* infinite two's complement, lowest bit first
  IF op = "And" /\ (a = 0 \/ b = 0) THEN 0
  ELSE IF op = "And" /\ a = -1 THEN b
  ELSE IF op = "And" /\ b = -1 THEN a
  ELSE IF op = "Or" /\ a = 0 THEN b
  ELSE IF op = "Or" /\ b = 0 THEN a
  ELSE IF op = "Or" /\ (a = -1 \/ b = -1) THEN -1
  ELSE IF op = "Xor" /\ a = 0 THEN b
  ELSE IF op = "Xor" /\ b = 0 THEN a
  ELSE IF op = "Xor" /\ a = -1 /\ b = -1 THEN 0
  ELSE LET la == a - 2 * FloorDiv(a, 2)
           lb == b - 2 * FloorDiv(b, 2)
           bit == CASE op = "And" -> la * lb [] op = "Or" -> Max(la, lb) [] OTHER -> (la + lb) % 2
       IN bit + 2 * BitOp(op, FloorDiv(a, 2), FloorDiv(b, 2))

---------------------------------------------------------------------------
(* scaled IEEE floats: value = s * n / 2^d *)
NaN == [t |-> "nan", s |-> 1, n |-> 0, d |-> 0]
Inf(s) == [t |-> "inf", s |-> s, n |-> 0, d |-> 0]
Fin(s, n, d) == [t |-> "fin", s |-> s, n |-> n, d |-> d]
RECURSIVE Norm(_, _, _)
Norm(s, n, d) == IF n = 0 THEN Fin(s, 0, 0) ELSE IF d > 0 /\ n % 2 = 0 THEN Norm(s, n \div 2, d - 1) ELSE Fin(s, n, d)
IsZero(f) == f.t = "fin" /\ f.n = 0
FNeg(f) == IF f.t = "nan" THEN f ELSE [f EXCEPT !.s = -f.s]

RoundFin(s, n, d) ==     \* round n/2^d to MANT significant bits, half-even; overflow -> inf
  LET bl == BitLen(n)
      n2 == IF bl > MANT
            THEN LET sh == bl - MANT
                     q == n \div Pow2(sh)
                     rem == n - q * Pow2(sh)
                     half == Pow2(sh - 1)
                     q2 == IF rem > half \/ (rem = half /\ q % 2 = 1) THEN q + 1 ELSE q
                 IN q2 * Pow2(sh)
            ELSE n
  IN IF BitLen(n2) - d > EMAX THEN Inf(s) ELSE Norm(s, n2, d)

Quot(p, q, k) == LET num == IF k >= 0 THEN p * Pow2(k) ELSE p
                     den == IF k >= 0 THEN q ELSE q * Pow2(-k)
                 IN <<num \div den, num - (num \div den) * den, den>>
RoundRat(s, p, q) ==     \* correctly rounded p/q, p >= 0, q > 0
  IF p = 0 THEN Fin(s, 0, 0)
  ELSE LET k0 == MANT - (BitLen(p) - BitLen(q))
           q0 == Quot(p, q, k0)
           k == IF q0[1] >= Pow2(MANT) THEN k0 - 1 ELSE k0
           qq == IF k = k0 THEN q0 ELSE Quot(p, q, k)
           t == IF 2 * qq[2] > qq[3] \/ (2 * qq[2] = qq[3] /\ qq[1] % 2 = 1) THEN qq[1] + 1 ELSE qq[1]
           n == IF k >= 0 THEN t ELSE t * Pow2(-k)
           d == IF k >= 0 THEN k ELSE 0
       IN IF BitLen(n) - d > EMAX THEN Inf(s) ELSE Norm(s, n, d)

IeeeAdd(a, b) ==
  IF a.t = "nan" \/ b.t = "nan" THEN NaN
  ELSE IF a.t = "inf" THEN (IF b.t = "inf" /\ b.s # a.s THEN NaN ELSE a)
  ELSE IF b.t = "inf" THEN b
  ELSE LET D == Max(a.d, b.d)
           v == a.s * a.n * Pow2(D - a.d) + b.s * b.n * Pow2(D - b.d)
       IN IF v = 0 THEN Fin(IF IsZero(a) /\ IsZero(b) /\ a.s < 0 /\ b.s < 0 THEN -1 ELSE 1, 0, 0)
          ELSE RoundFin(IF v > 0 THEN 1 ELSE -1, Abs(v), D)
IeeeSub(a, b) == IeeeAdd(a, FNeg(b))
IeeeMul(a, b) ==
  IF a.t = "nan" \/ b.t = "nan" THEN NaN
  ELSE IF a.t = "inf" \/ b.t = "inf" THEN (IF IsZero(a) \/ IsZero(b) THEN NaN ELSE Inf(a.s * b.s))
  ELSE RoundFin(a.s * b.s, a.n * b.n, a.d + b.d)
IeeeDiv(a, b) ==
  IF a.t = "nan" \/ b.t = "nan" THEN NaN
  ELSE IF a.t = "inf" THEN (IF b.t = "inf" THEN NaN ELSE Inf(a.s * b.s))
  ELSE IF b.t = "inf" THEN Fin(a.s * b.s, 0, 0)
  ELSE IF IsZero(b) THEN (IF IsZero(a) THEN NaN ELSE Inf(a.s * b.s))
  ELSE RoundRat(a.s * b.s, a.n * Pow2(b.d), b.n * Pow2(a.d))
CFmod(a, b) ==           \* C fmod: exact, sign of the dividend
  IF a.t = "nan" \/ b.t = "nan" \/ a.t = "inf" \/ IsZero(b) THEN NaN
  ELSE IF b.t = "inf" THEN a
  ELSE LET D == Max(a.d, b.d)
           A == a.n * Pow2(D - a.d)
           B == b.n * Pow2(D - b.d)
       IN Norm(a.s, A % B, D)
PyMod(a, b) ==           \* CPython float_rem, b /= 0:  if (mod) { if ((wx < 0) != (mod < 0)) mod += wx; } else copysign(0, wx)
  LET m == CFmod(a, b)
  IN IF m.t = "nan" THEN m
     ELSE IF ~IsZero(m) THEN (IF (m.s < 0) # (b.s < 0) THEN IeeeAdd(m, b) ELSE m)
     ELSE Fin(b.s, 0, 0)
CMod(a, b) ==            \* PyFloatBinop:  if (result) result += ((result < 0) ^ (b < 0)) * b; else copysign(0.0, b)
  LET m == CFmod(a, b)
  IN IF m.t = "nan" THEN m
     ELSE IF ~IsZero(m) THEN IeeeAdd(m, IeeeMul(Fin(1, IF (m.s < 0) # (b.s < 0) THEN 1 ELSE 0, 0), b))
     ELSE Fin(b.s, 0, 0)
FEq(a, b) == IF a.t = "nan" \/ b.t = "nan" THEN FALSE
             ELSE IF a.t = "inf" \/ b.t = "inf" THEN a = b
             ELSE (a.n = 0 /\ b.n = 0) \/ a = b
IntToFloat(v) == RoundFin(IF v < 0 THEN -1 ELSE 1, Abs(v), 0)      \* Inf(_) stands for OverflowError
CmpExactEq(v, f) == f.t = "fin" /\ ((f.d = 0 /\ f.s * f.n = v) \/ (v = 0 /\ f.n = 0))
LtPow2(f, k) == f.n < Pow2(k + f.d)       \* |f| < 2^k, f finite

FmtI(v) == "i:" \o ToString(v)
FmtB(b) == IF b THEN "b:1" ELSE "b:0"
FmtF(f) == CASE f.t = "nan" -> "f:nan"
             [] f.t = "inf" -> "f:inf:" \o (IF f.s > 0 THEN "+" ELSE "-")
             [] OTHER -> "f:fin:" \o (IF f.s > 0 THEN "+" ELSE "-") \o ":" \o ToString(f.n) \o ":" \o ToString(f.d)

---------------------------------------------------------------------------
(* values and the reference *)
IntV(v) == [k |-> "int", v |-> v, f |-> NaN]
BoolV(v) == [k |-> "bool", v |-> v, f |-> NaN]
FloatV(f) == [k |-> "float", v |-> 0, f |-> f]
Other == [k |-> "other", v |-> 0, f |-> NaN]
IntLike(x) == x.k \in {"int", "bool"}
Cmp == {"Eq", "Ne"}
EqR(op, e) == FmtB(IF op = "Eq" THEN e ELSE ~e)

IntRef(op, a, b) ==
  CASE op = "Add" -> FmtI(a + b)
    [] op = "Subtract" -> FmtI(a - b)
    [] op = "Multiply" -> FmtI(a * b)
    [] op \in {"Remainder", "FloorDivide", "TrueDivide"} /\ b = 0 -> "e:ZeroDivisionError"
    [] op = "Remainder" -> FmtI(FloorMod(a, b))
    [] op = "FloorDivide" -> FmtI(FloorDiv(a, b))
    [] op = "TrueDivide" ->
         LET r == IF a = 0 THEN Fin(IF b > 0 THEN 1 ELSE -1, 0, 0)
                  ELSE RoundRat(IF (a < 0) = (b < 0) THEN 1 ELSE -1, Abs(a), Abs(b))
         IN IF r.t = "inf" THEN "e:OverflowError" ELSE FmtF(r)
    [] op \in {"Or", "Xor", "And"} -> FmtI(BitOp(op, a, b))
    [] op = "Rshift" -> IF b < 0 THEN "e:ValueError" ELSE FmtI(FloorDiv(a, Pow2(b)))
    [] op = "Lshift" -> IF b < 0 THEN "e:ValueError" ELSE FmtI(a * Pow2(b))
    [] op = "Eq" -> FmtB(a = b)
    [] op = "Ne" -> FmtB(a # b)

FloatRef(op, a, b) ==
  CASE op = "Add" -> FmtF(IeeeAdd(a, b))
    [] op = "Subtract" -> FmtF(IeeeSub(a, b))
    [] op = "Multiply" -> FmtF(IeeeMul(a, b))
    [] op \in {"TrueDivide", "Remainder", "FloorDivide"} /\ IsZero(b) -> "e:ZeroDivisionError"
    [] op = "TrueDivide" -> FmtF(IeeeDiv(a, b))
    [] op = "Remainder" -> FmtF(PyMod(a, b))
    [] op = "FloorDivide" -> "u"
    [] op = "Eq" -> FmtB(FEq(a, b))
    [] op = "Ne" -> FmtB(~FEq(a, b))
    [] OTHER -> "e:TypeError"

Ref2(op, a, b) ==
  IF a.k = "other" \/ b.k = "other" THEN "g"
  ELSE IF IntLike(a) /\ IntLike(b) THEN IntRef(op, a.v, b.v)
  ELSE IF op \in Cmp THEN EqR(op, IF IntLike(a) THEN CmpExactEq(a.v, b.f) ELSE IF IntLike(b) THEN CmpExactEq(b.v, a.f) ELSE FEq(a.f, b.f))
  ELSE IF op \in {"Or", "Xor", "And", "Rshift", "Lshift"} THEN "e:TypeError"
  ELSE LET fa == IF IntLike(a) THEN IntToFloat(a.v) ELSE a.f
           fb == IF IntLike(b) THEN IntToFloat(b.v) ELSE b.f
       IN IF (IntLike(a) /\ fa.t = "inf") \/ (IntLike(b) /\ fb.t = "inf") THEN "e:OverflowError" ELSE FloatRef(op, fa, fb)

---------------------------------------------------------------------------
(* selection of the helper family (Optimize.py / ExprNodes.py) *)
Select(op, order, ck, cv) ==
  IF ck = "int"
  THEN LET big == Abs(cv.v) > Pow2(CBITS) IN
       CASE op \in {"Rshift", "Lshift"} -> IF order = "ObjC" /\ cv.v >= 1 /\ cv.v <= LLONG - 1 /\ ~big THEN "PyLongBinop" ELSE "generic"
         [] op \in {"Remainder", "TrueDivide", "FloorDivide"} -> IF order = "ObjC" /\ cv.v # 0 /\ ~big THEN "PyLongBinop" ELSE "generic"
         [] op \in Cmp -> IF big THEN "PyObjectCompare" ELSE "PyLongCompare"
         [] ~big -> "PyLongBinop"
         [] op \in {"Add", "Subtract", "Multiply", "Xor", "And", "Or"} -> "PyNumberBinop"
         [] OTHER -> "generic"
  ELSE CASE op \in {"Add", "Subtract", "Eq", "Ne"} -> "PyFloatBinop"
         [] op \in {"TrueDivide", "Remainder"} ->
              IF order = "ObjC" /\ (IsZero(cv.f) \/ cv.f.t # "fin" \/ (cv.f.d = 0 /\ cv.f.n > Pow2(MANT))) THEN "generic" ELSE "PyFloatBinop"
         [] op \in {"Multiply", "Xor", "And", "Or"} -> "PyNumberBinop"
         [] OTHER -> "generic"

---------------------------------------------------------------------------
(* PyLongBinop *)
CFloorDiv(bits, a, b) ==
  IF b = 0 THEN <<"UB", "div0">> ELSE IF a = -Pow2(bits - 1) /\ b = -1 THEN <<"UB", "min-div">>
  ELSE LET q == TruncDiv(a, b) r == a - q * b IN <<FmtI(IF r # 0 /\ ((r < 0) # (b < 0)) THEN q - 1 ELSE q), "">>
CMod_(bits, a, b) ==
  IF b = 0 THEN <<"UB", "mod0">> ELSE IF a = -Pow2(bits - 1) /\ b = -1 THEN <<"UB", "min-mod">>
  ELSE LET r == a - TruncDiv(a, b) * b IN <<FmtI(IF r # 0 /\ ((r < 0) # (b < 0)) THEN r + b ELSE r), "">>
WithPath(r, p) == <<r[1], IF r[2] = "" THEN p ELSE p \o "!" \o r[2]>>

LongLong(op, a, b) ==          \* calculate_long_long
  CASE op = "Remainder" -> WithPath(CMod_(LLONG, a, b), "llong")
    [] op = "FloorDivide" -> WithPath(CFloorDiv(LLONG, a, b), "llong")
    [] op = "Rshift" -> IF b >= LLONG THEN <<FmtI(IF a < 0 THEN -1 ELSE 0), "llong">> ELSE <<FmtI(FloorDiv(a, Pow2(b))), "llong">>
    [] op = "Lshift" -> IF b >= LLONG THEN <<"UB", "llong!shift-count">>
                        ELSE LET xr == Wrap(LLONG, a * Pow2(b)) IN
                             IF a # FloorDiv(xr, Pow2(b)) THEN <<"g", "fallback">> ELSE <<FmtI(xr), "llong">>
    [] OTHER -> LET v == CASE op = "Add" -> a + b [] op = "Subtract" -> a - b [] op = "Multiply" -> a * b [] OTHER -> BitOp(op, a, b)
                IN IF Fits(LLONG, v) THEN <<FmtI(v), "llong">> ELSE <<"UB", "llong!overflow">>

Long(op, xv, size, a, b) ==    \* calculate_long
  CASE op = "Multiply" -> LongLong(op, a, b)
    [] op = "Remainder" -> WithPath(CMod_(LONG, a, b), "long")
    [] op = "FloorDivide" -> WithPath(CFloorDiv(LONG, a, b), "long")
    [] op = "TrueDivide" ->
         IF LONG <= MANT \/ Abs(xv) <= Pow2(MANT) \/ size <= (MANT - 1) \div SHIFT
         THEN (IF b = 0 THEN <<"UB", "long!fdiv0">> ELSE <<FmtF(IeeeDiv(IntToFloat(a), IntToFloat(b))), "long">>)
         ELSE <<IntRef(op, a, b), "slot">>
    [] op = "Rshift" -> IF b >= LONG THEN <<FmtI(IF a < 0 THEN -1 ELSE 0), "long">> ELSE <<FmtI(FloorDiv(a, Pow2(b))), "long">>
    [] op = "Lshift" -> IF b >= LONG THEN <<"UB", "long!shift-count">>
                        ELSE LET xr == Wrap(LONG, a * Pow2(b)) IN
                             IF ~(a = FloorDiv(xr, Pow2(b))) /\ a # 0 THEN LongLong(op, a, b) ELSE <<FmtI(xr), "long">>
    [] OTHER -> LET v == CASE op = "Add" -> a + b [] op = "Subtract" -> a - b [] OTHER -> BitOp(op, a, b)
                IN IF Fits(LONG, v) THEN <<FmtI(v), "long">> ELSE <<"UB", "long!overflow">>

Unpacked(op, order, xv, c) ==
  LET objc == order = "ObjC"
      a == IF objc THEN xv ELSE c
      b == IF objc THEN c ELSE xv
      size == NDigits(xv)
      extra == IF op = "Multiply" THEN CBITS ELSE 0
      mode == IF size = 1 THEN "long"
              ELSE IF size >= 2 /\ size <= 4 /\ LONG - 1 > size * SHIFT + extra /\ (op # "TrueDivide" \/ (size - 1) * SHIFT < MANT) THEN "long"
              ELSE IF size >= 2 /\ size <= 4 /\ op # "TrueDivide" /\ LLONG - 1 > size * SHIFT + extra THEN "llong"
              ELSE "slot"
  IN IF xv = 0 /\ ~objc /\ op \in {"Remainder", "TrueDivide", "FloorDivide"} THEN <<"e:ZeroDivisionError", "zero">>
     ELSE IF xv = 0 /\ ~objc /\ op \in {"Add", "Subtract", "Or", "Xor", "Rshift", "Lshift"} THEN <<FmtI(c), "zero">>
     ELSE IF xv = 0 /\ ~objc /\ op \in {"Multiply", "And"} THEN <<FmtI(0), "zero">>
     ELSE IF xv = 0 /\ objc /\ op \in {"Add", "Or", "Xor"} THEN <<FmtI(c), "zero">>
     ELSE IF xv = 0 /\ objc /\ op = "Subtract" THEN <<FmtI(-c), "zero">>
     ELSE IF xv = 0 /\ objc /\ op \in {"Multiply", "Remainder", "And", "Rshift", "Lshift", "FloorDivide"} THEN <<FmtI(0), "zero">>
     ELSE IF op = "And" /\ c >= 0 /\ c < Base
          THEN LET last == Abs(xv) % Base IN <<FmtI(BitOp("And", c, IF xv > 0 THEN last ELSE Base - last)), "and1">>
     ELSE IF mode = "slot" THEN <<IntRef(op, a, b), "slot">>
     ELSE IF mode = "long" THEN Long(op, xv, size, a, b)
     ELSE LongLong(op, a, b)

LongBinop(op, order, x, c) ==
  IF x.k = "int" THEN Unpacked(op, order, x.v, c)
  ELSE IF x.k = "float" /\ op \in {"Add", "Subtract", "Multiply", "TrueDivide"}
       THEN LET fc == IntToFloat(c)
                a == IF order = "ObjC" THEN x.f ELSE fc
                b == IF order = "ObjC" THEN fc ELSE x.f
            IN IF order = "CObj" /\ op = "TrueDivide" /\ IsZero(b) THEN <<"e:ZeroDivisionError", "float">>
               ELSE <<FmtF(CASE op = "Add" -> IeeeAdd(a, b) [] op = "Subtract" -> IeeeSub(a, b) [] op = "Multiply" -> IeeeMul(a, b) [] OTHER -> IeeeDiv(a, b)), "float">>
  ELSE <<"g", "generic">>

(* PyLongCompare *)
LongCompare(op, order, x, c) ==
  IF x.k = "int"
  THEN LET xv == x.v  u == Abs(c)  size == NDigits(xv)
           K == {k \in 1..4 : SHIFT * k < LONG /\ (u \div (Base ^ k)) # 0}
       IN IF c = 0 THEN <<EqR(op, xv = 0), "cmp-zero">>
          ELSE IF (c < 0 /\ xv >= 0) \/ (c > 0 /\ xv < 0) THEN <<EqR(op, FALSE), "cmp-sign">>
          ELSE IF K # {}
               THEN LET k == CHOOSE m \in K : \A j \in K : j <= m IN
                    <<EqR(op, ~(size # k + 1 \/ \E i \in 0..k : Digit(xv, i) # Digit(u, i))), "cmp-digits" \o ToString(k + 1)>>
               ELSE <<EqR(op, ~(size # 1 \/ Digit(xv, 0) # u % Base)), "cmp-digits1">>
  ELSE IF x.k = "float" THEN <<EqR(op, FEq(IntToFloat(c), x.f)), "cmp-float">>
  ELSE <<"g", "generic">>

(* PyFloatBinop; c is the float constant *)
FloatOfInt(xv) ==         \* <<float or Inf for "unknown", path>> for a non-zero, non-compact exact int
  LET size == NDigits(xv)
      cand == RoundFin(1, Abs(xv), 0)
      K == {k \in 2..4 : size <= k /\ LONG > k * SHIFT /\ (LONG < MANT \/ (k - 1) * SHIFT < MANT)
                         /\ (LONG < MANT \/ k * SHIFT < MANT \/ (cand.t = "fin" /\ LtPow2(cand, MANT)))}
  IN IF K # {} THEN <<IF xv > 0 THEN cand ELSE FNeg(cand), "fb-join">> ELSE <<NaN, "none">>

FloatBinop(op, order, x, c) ==
  LET objc == order = "ObjC"
      zc == ~objc /\ op \in {"TrueDivide", "Remainder"}
      Finish(fv, path) ==
        LET a == IF objc THEN fv ELSE c
            b == IF objc THEN c ELSE fv
        IN IF op \in Cmp THEN <<EqR(op, FEq(a, b)), path>>
           ELSE IF op = "Remainder" THEN (IF IsZero(b) THEN <<"UB", path \o "!fmod0">>
                                          ELSE <<FmtF(CMod(a, b)), IF b.t = "inf" THEN "fb-rem-infdiv" ELSE path>>)
           ELSE <<FmtF(CASE op = "Add" -> IeeeAdd(a, b) [] op = "Subtract" -> IeeeSub(a, b) [] OTHER -> IeeeDiv(a, b)), path>>
  IN IF x.k = "float" THEN (IF zc /\ IsZero(x.f) THEN <<"e:ZeroDivisionError", "fb-float">> ELSE Finish(x.f, "fb-float"))
     ELSE IF x.k = "int"
          THEN IF x.v = 0 THEN (IF zc THEN <<"e:ZeroDivisionError", "fb-zero">> ELSE Finish(Fin(1, 0, 0), "fb-zero"))
               ELSE IF NDigits(x.v) = 1 THEN Finish(IntToFloat(x.v), "fb-compact")
               ELSE LET j == FloatOfInt(x.v) IN
                    IF j[2] = "fb-join" THEN Finish(j[1], "fb-join")
                    ELSE IF op \in Cmp THEN <<EqR(op, CmpExactEq(x.v, c)), "fb-richcmp">>
                    ELSE LET fv == IntToFloat(x.v) IN IF fv.t = "inf" THEN <<"e:OverflowError", "fb-asdouble">> ELSE Finish(fv, "fb-asdouble")
     ELSE <<"g", "generic">>

(* PyNumberBinop: __Pyx__PyNumber_<op>_<t1>_<t2>(a, b), op in + - * ^ & | *)
IsF(v, t) == t = "float" \/ v.k = "float"
IsI(v, t) == t = "int" \/ v.k = "int"
Same(v) == IF v.k = "bool" THEN FmtB(v.v = 1) ELSE FmtI(v.v)
Ieee3(op, a, b) == CASE op = "Add" -> IeeeAdd(a, b) [] op = "Subtract" -> IeeeSub(a, b) [] OTHER -> IeeeMul(a, b)

NbXFloat(op, t2, a, b) ==
  IF t2 \in {"object", "int"} /\ IsI(b, t2)
  THEN LET fb == IntToFloat(b.v) IN
       IF IsCompact(b.v) /\ op \in {"Add", "Subtract"} /\ b.v = 0 THEN <<FmtF(a.f), "nb-xfloat-int0">>
       ELSE IF ~IsCompact(b.v) /\ fb.t = "inf" THEN <<"e:OverflowError", "nb-xfloat">>
       ELSE IF op = "Multiply" /\ IsZero(a.f) THEN <<FmtF(a.f), "nb-xfloat-mul0">>
       ELSE <<FmtF(Ieee3(op, a.f, fb)), "nb-xfloat">>
  ELSE IF t2 = "object" /\ b.k = "bool" THEN <<Ref2(op, a, b), "nb-xfloat-slot">>
  ELSE <<"g", "nb-reverse">>

NbIntInt(op, a, b) ==
  LET av == a.v  bv == b.v IN
  IF op = "Multiply"
  THEN IF IsCompact(av) /\ av = 0 THEN <<Same(a), "nb-ii-zero1">>
       ELSE IF IsCompact(av) /\ IsCompact(bv) THEN (IF bv = 0 THEN <<Same(b), "nb-ii-zero2">> ELSE <<FmtI(av * bv), "nb-ii-compact">>)
       ELSE IF ~IsCompact(av) /\ bv = 0 THEN <<Same(b), "nb-ii-zero2">>
       ELSE <<IntRef(op, av, bv), "nb-ii-slot">>
  ELSE IF IsCompact(av) /\ av = 0 /\ op \in {"Add", "Or", "Xor"} THEN <<Same(b), "nb-ii-zero1">>
       ELSE IF IsCompact(av) /\ av = 0 /\ op = "And" THEN <<Same(a), "nb-ii-zero1">>
       ELSE IF IsCompact(av) /\ IsCompact(bv)
            THEN (IF bv = 0 /\ op \in {"Add", "Subtract", "Or", "Xor"} THEN <<Same(a), "nb-ii-zero2">>
                  ELSE IF bv = 0 /\ op = "And" THEN <<Same(b), "nb-ii-zero2">>
                  ELSE <<IntRef(op, av, bv), "nb-ii-compact">>)
       ELSE IF ~IsCompact(av) /\ bv = 0 THEN <<Same(IF op \in {"Add", "Subtract", "Or", "Xor"} THEN a ELSE b), "nb-ii-zero2">>
       ELSE <<IntRef(op, av, bv), "nb-ii-slot">>

NumberBinop(op, t1, t2, a, b) ==
  LET arith == op \in {"Add", "Subtract", "Multiply"} IN
  IF t1 \in {"object", "float"} /\ arith /\ IsF(a, t1)
  THEN IF t2 \in {"object", "float"} /\ IsF(b, t2) THEN <<FmtF(Ieee3(op, a.f, b.f)), "nb-ff">> ELSE NbXFloat(op, t2, a, b)
  ELSE IF t1 \in {"object", "int"} /\ IsI(a, t1)
  THEN IF t2 \in {"object", "int"} /\ IsI(b, t2) THEN NbIntInt(op, a, b)
       ELSE IF t2 \in {"object", "float"} /\ arith /\ IsF(b, t2)
            THEN LET fa == IntToFloat(a.v) IN
                 IF IsCompact(a.v) /\ op = "Add" /\ a.v = 0 THEN <<FmtF(b.f), "nb-xint-float0">>
                 ELSE IF ~IsCompact(a.v) /\ fa.t = "inf" THEN <<"e:OverflowError", "nb-xint-float">>
                 ELSE <<FmtF(Ieee3(op, fa, b.f)), "nb-xint-float">>
       ELSE IF b.k \in {"bool", "float"} THEN <<Ref2(op, a, b), "nb-reverse">>
       ELSE <<"g", "nb-reverse">>
  ELSE <<"g", "generic">>

(* PyObjectCompare, Eq/Ne *)
OcFloatInt(op, f, iv) ==
  IF IsCompact(iv) THEN <<EqR(op, FEq(f, IntToFloat(iv))), "oc-fi-compact">>
  ELSE IF f.t # "fin" THEN <<EqR(op, FALSE), "oc-fi-nonfinite">>
  ELSE IF f.s > 0 \/ f.n = 0
       THEN (IF iv < 0 THEN <<EqR(op, FALSE), "oc-fi-sign">> ELSE IF LtPow2(f, SHIFT) THEN <<EqR(op, FALSE), "oc-fi-mag">> ELSE <<"g", "oc-richcmp">>)
       ELSE (IF iv > 0 THEN <<EqR(op, FALSE), "oc-fi-sign">> ELSE IF LtPow2(f, SHIFT) THEN <<EqR(op, FALSE), "oc-fi-mag">> ELSE <<"g", "oc-richcmp">>)
Sgn(v) == IF v > 0 THEN 1 ELSE IF v < 0 THEN -1 ELSE 0
ObjectCompare(op, t1, t2, a, b) ==
  IF t1 \in {"object", "float"} /\ IsF(a, t1)
  THEN IF t2 \in {"object", "float"} /\ IsF(b, t2) THEN <<EqR(op, FEq(a.f, b.f)), "oc-ff">>
       ELSE IF t2 \in {"object", "int"} /\ IsI(b, t2) THEN OcFloatInt(op, a.f, b.v)
       ELSE <<"g", "oc-richcmp">>
  ELSE IF t1 \in {"object", "int"} /\ IsI(a, t1)
  THEN IF t2 \in {"object", "int"} /\ IsI(b, t2)
       THEN (IF NDigits(a.v) = NDigits(b.v) /\ Sgn(a.v) = Sgn(b.v)
             THEN <<EqR(op, \A i \in 0..(NDigits(a.v) - 1) : Digit(a.v, i) = Digit(b.v, i)), "oc-ii-digits">>
             ELSE <<EqR(op, FALSE), "oc-ii-tag">>)
       ELSE IF t2 \in {"object", "float"} /\ IsF(b, t2) THEN OcFloatInt(op, b.f, a.v)
       ELSE <<"g", "oc-richcmp">>
  ELSE <<"g", "oc-richcmp">>

Fast(s, x) ==
  LET tc == IF s.ck = "float" THEN "float" ELSE "int" IN
  CASE s.family = "PyLongBinop" -> LongBinop(s.op, s.order, x, s.cv.v)
    [] s.family = "PyLongCompare" -> LongCompare(s.op, s.order, x, s.cv.v)
    [] s.family = "PyFloatBinop" -> FloatBinop(s.op, s.order, x, s.cv.f)
    [] s.family = "PyNumberBinop" -> IF s.order = "ObjC" THEN NumberBinop(s.op, "object", tc, x, s.cv) ELSE NumberBinop(s.op, tc, "object", s.cv, x)
    [] s.family = "PyObjectCompare" -> IF s.order = "ObjC" THEN ObjectCompare(s.op, "object", "int", x, s.cv) ELSE ObjectCompare(s.op, "int", "object", s.cv, x)
    [] OTHER -> <<"g", "generic">>
Ref(s, x) == IF s.order = "ObjC" THEN Ref2(s.op, x, s.cv) ELSE Ref2(s.op, s.cv, x)

---------------------------------------------------------------------------
(* sites and operands *)
ArithOps == {"Add", "Subtract", "Multiply", "Remainder", "TrueDivide", "FloorDivide", "Or", "Xor", "And"}
BaseFloatConsts == {Fin(1, 0, 0), Fin(-1, 0, 0), Fin(1, 1, 0), Fin(1, 1, 1), Fin(-1, 3, 1), Fin(1, 2, 0)}   \* 0.0 -0.0 1.0 0.5 -1.5 2.0
(* Boundary family of float constants: the integral doubles around every power of two at which a guard of the float    *)
(* helpers (PyFloatBinop digit join / "fval < 2^MANT", Select's |c| <= 2^MANT, PyObjectCompare's 2^SHIFT magnitude     *)
(* test) or the representation itself (digit count, spacing of doubles, width of long) switches - both signs.          *)
(* Only values a float literal can denote (representable, finite) are constants.  Real instance: 2^30-1 .. 2^30+2,     *)
(* 2^53-1, 2^53, 2^53+2, 2^54, 2^60, 2^63 and their negations.                                                         *)
BndExps == {SHIFT, 2 * SHIFT, MANT, MANT + 1, LONG - 1}
BndMags == UNION {{Pow2(e) - 1, Pow2(e), Pow2(e) + 1, Pow2(e) + 2} : e \in BndExps}
Representable(m) == RoundFin(1, m, 0) = Fin(1, m, 0)
BndFloatConsts == {Fin(s, m, 0) : s \in {1, -1}, m \in {mm \in BndMags : Representable(mm)}}
FloatOps == {"Add", "Subtract", "Multiply", "TrueDivide", "Remainder", "FloorDivide", "Eq", "Ne", "And"}
FloatHelperOps == {op \in FloatOps : Select(op, "CObj", "float", FloatV(Fin(1, 1, 0))) = "PyFloatBinop"}   \* + - / % == != : the ops of the digit-joining helper
MkSite(op, order, ck, cv) == [op |-> op, order |-> order, ck |-> ck, cv |-> cv, family |-> Select(op, order, ck, cv)]
Sites == {MkSite(op, order, "int", IntV(c)) : op \in ArithOps \cup Cmp, order \in {"ObjC", "CObj"}, c \in IntConsts}
         \cup {MkSite(op, "ObjC", "int", IntV(c)) : op \in {"Rshift", "Lshift"}, c \in ShiftCounts}
         \cup {MkSite(op, order, "float", FloatV(f)) : op \in FloatOps, order \in {"ObjC", "CObj"}, f \in BaseFloatConsts}
         \cup {MkSite(op, order, "float", FloatV(f)) : op \in FloatHelperOps, order \in {"ObjC", "CObj"}, f \in BndFloatConsts}

B == XMAX
NInt == 2 * B + 1
NChunks == (NInt + CH - 1) \div CH
Specials == << BoolV(0), BoolV(1),
               FloatV(Fin(1, 0, 0)), FloatV(Fin(-1, 0, 0)), FloatV(Fin(1, 1, 0)), FloatV(Fin(-1, 1, 0)), FloatV(Fin(1, 1, 1)), FloatV(Fin(-1, 3, 1)),
               FloatV(Fin(1, 2, 0)), FloatV(Fin(1, 3, 0)), FloatV(Fin(-1, 5, 1)), FloatV(Fin(1, 7, 0)), FloatV(Fin(1, 3, 2)),
               FloatV(Fin(1, 8, 0)), FloatV(Fin(1, 9, 0)), FloatV(Fin(-1, 9, 0)), FloatV(Fin(1, 34, 0)), FloatV(Fin(1, 64, 0)),
               FloatV(Fin(1, 100, 0)), FloatV(Fin(-1, 100, 0)), FloatV(Fin(1, 120, 0)), FloatV(Fin(1, 1, 4)), FloatV(Fin(-1, 1, 5)),
               FloatV(Inf(1)), FloatV(Inf(-1)), FloatV(NaN), Other >>
XSeq(chunk) ==
  IF chunk = NChunks THEN Specials
  ELSE LET lo == -B + chunk * CH
           n == IF lo + CH - 1 > B THEN B - lo + 1 ELSE CH
       IN [i \in 1..n |-> IntV(lo + i - 1)]
Cells(s, chunk) == LET X == XSeq(chunk) IN
  [i \in DOMAIN X |-> LET f == Fast(s, X[i]) IN [x |-> X[i], ref |-> Ref(s, X[i]), fast |-> f[1], path |-> f[2]]]

VARIABLES site, chunk, cells
vars == <<site, chunk, cells>>
Init == site \in Sites /\ chunk \in 0..NChunks /\ cells = Cells(site, chunk)
Next == UNCHANGED vars
Spec == Init /\ [][Next]_vars

(* case class "rounding collision": an int operand that is NOT equal to the float constant of the site but whose      *)
(* conversion to double IS (2^MANT + 1 against 2.0^MANT, ties-to-even).  Python compares int and float exactly; any  *)
(* helper that converts first and compares doubles answers True here.  For arithmetic the class is harmless (CPython *)
(* converts as well), Agree decides those cells.                                                                     *)
RoundCollision(s, x) == s.ck = "float" /\ x.k = "int" /\ s.cv.f.t = "fin" /\ ~CmpExactEq(x.v, s.cv.f) /\ FEq(IntToFloat(x.v), s.cv.f)
NCollisions == Cardinality({i \in DOMAIN cells : RoundCollision(site, cells[i].x)})
HazardKey(c) == site.family \o "/" \o c.path
IsHazard(c) == c.fast # "g" /\ c.fast # c.ref
(* the transcribed helper computes the reference result, or hands over to the generic protocol *)
Agree == \A i \in DOMAIN cells : IsHazard(cells[i]) => HazardKey(cells[i]) \in DeclaredHazards
(* what the spec leaves undecided is never decided by a fast path *)
UndecidedIsGeneric == \A i \in DOMAIN cells : cells[i].ref = "u" => cells[i].fast = "g"
(* no C undefined behaviour (signed overflow, division by zero, MIN / -1, shift count >= width) *)
NoUB == \A i \in DOMAIN cells : cells[i].fast # "UB"
(* operands that are not exact int/float objects never take a value-computing path of the digit helpers *)
TypeGuard == \A i \in DOMAIN cells : (cells[i].x.k = "other" \/ site.family = "generic") => cells[i].fast = "g"
(* bools (int subclass) are left to the generic protocol or to CPython's own slots *)
BoolGuard == \A i \in DOMAIN cells : cells[i].x.k = "bool" => (cells[i].fast = "g" \/ cells[i].path \in {"nb-xfloat-slot", "nb-reverse"})

(* int == float / int != float is exact: a colliding operand is unequal (or the decision is left to CPython) *)
ExactCompare == \A i \in DOMAIN cells : (site.op \in Cmp /\ RoundCollision(site, cells[i].x)) => cells[i].fast \in {"g", EqR(site.op, FALSE)}

Publish == Dump => PrintT("@@" \o ToJson([op |-> site.op, order |-> site.order, ck |-> site.ck,
                                          c |-> IF site.ck = "int" THEN FmtI(site.cv.v) ELSE FmtF(site.cv.f),
                                          family |-> site.family, chunk |-> chunk, coll |-> NCollisions,
                                          ref |-> [i \in DOMAIN cells |-> cells[i].ref],
                                          fast |-> [i \in DOMAIN cells |-> IF cells[i].fast = cells[i].ref THEN "=" ELSE cells[i].fast],
                                          path |-> [i \in DOMAIN cells |-> cells[i].path]]))
=============================================================================
