SPECIFICATION Spec
CONSTANTS
  Atoms <- Atoms01
  MaxLen = 2
  Factors <- AllFactors
  MaxRepeats = 1
  Dump = TRUE
INVARIANT RuntimeValueRight
INVARIANT FreshWithoutRepeat
INVARIANT StaleIsBase
INVARIANT HazardOnlyIfStale
INVARIANT RepLaws
INVARIANT Publish
CHECK_DEADLOCK FALSE
