SPECIFICATION Spec
CONSTANTS
  Atoms <- Atoms01
  MaxLen = 2
  Factors <- AllFactors
  MaxRepeats = 1
  Dump = TRUE
INVARIANT RuntimeValueRight
INVARIANT CresIsValue
INVARIANT ImplAgrees
INVARIANT RepLaws
INVARIANT Publish
CHECK_DEADLOCK FALSE
