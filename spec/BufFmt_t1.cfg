SPECIFICATION Spec
CONSTANTS
  DtNames = {"schar", "uchar", "char", "short", "ushort", "int", "uint", "long", "ulong", "float", "double", "ldouble", "cfloat", "cdouble", "CS", "AR", "SA"}
  Edits = 2
  MaxTail = 2
  Wide = FALSE
  Deep = TRUE
  Dump = TRUE
INVARIANT RefSound
INVARIANT DtSound
INVARIANT NoFalseAccept
INVARIANT ImplAgreesOffMarked
INVARIANT ImplAgreesOffMarkedDt
INVARIANT Publish
INVARIANT PublishDt
CHECK_DEADLOCK FALSE
