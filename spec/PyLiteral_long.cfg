SPECIFICATION Spec
CONSTANTS
  Family = "long"
  Prefixes = {"", "b"}
  Quotes = {1}
  Alphabet = "mini"
  MaxAtoms = 0
  MaxParts = 1
  Prefixes2 = {}
  Quotes2 = {}
  LongReps = {2100}
  BigReps = {1999, 2000, 2001, 65535, 65536, 65538}
  Dump = TRUE
INVARIANT TypeOK
INVARIANT Compositional
INVARIANT RawInert
INVARIANT NoGrowth
INVARIANT Periodic
INVARIANT Publish
