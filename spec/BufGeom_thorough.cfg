SPECIFICATION Spec
CONSTANTS
  Shapes <- ShapesT
  Depth = 3
  Dump = TRUE
INVARIANT ImplAgrees
INVARIANT InRange
INVARIANT Publish
CHECK_DEADLOCK FALSE
