SPECIFICATION Spec
CONSTANTS
  Shapes <- ShapesT
  Depth = 2
  Dump = TRUE
INVARIANT ImplAgrees
INVARIANT InRange
INVARIANT Publish
CHECK_DEADLOCK FALSE
