SPECIFICATION Spec
CONSTANTS
  MaxLen = 4
  UseCore = TRUE
  Dump = FALSE
INVARIANT ImplAgreesOffHazards
INVARIANT RefChoiceIsBest
INVARIANT ImplTokensAreBest
INVARIANT ErrorIffNoRuleMatches
INVARIANT DfaWellFormed
CHECK_DEADLOCK FALSE
