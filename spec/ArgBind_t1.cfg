SPECIFICATION Spec
CONSTANTS
  MaxPO = 2
  MaxPK = 2
  MaxKO = 2
  FixPO = 1
  MaxPos = 6
  Extra = 2
  MaxKw = 2
  NSim = 0
  KindMode = "pat"
  Dump = TRUE
INVARIANT RefIsDeclarative
INVARIANT ImplAgrees
INVARIANT Publish
CHECK_DEADLOCK FALSE
