SPECIFICATION Spec
CONSTANTS
  MaxPO = 2
  MaxPK = 2
  MaxKO = 2
  FixPO = 9
  MaxPos = 6
  Extra = 2
  MaxKw = 1
  NSim = 0
  KindMode = "pat"
  Dump = TRUE
INVARIANT RefIsDeclarative
INVARIANT ImplAgrees
INVARIANT Publish
CHECK_DEADLOCK FALSE
