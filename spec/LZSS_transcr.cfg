SPECIFICATION Spec
CONSTANTS
  Mode = "transcr"
  Big = FALSE
  MaxS = 0
  Alphabet = {97}
  Base = 128
  Off2N = 512
  Len2N = 32
  Off3N = 16384
  Len8N = 256
  GPS = 8
INVARIANT TypeOK
INVARIANT RoundTrip
INVARIANT Publish
CHECK_DEADLOCK FALSE
