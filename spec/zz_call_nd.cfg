SPECIFICATION Spec
CONSTANTS
  Level = 1
  Sites = {"call"}
  Dump = FALSE
INVARIANT WellFormed
INVARIANT DigitLaw
INVARIANT BufOK
INVARIANT Publish
CHECK_DEADLOCK FALSE
