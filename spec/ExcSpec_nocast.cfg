SPECIFICATION Spec
CONSTANTS
  Kinds = {"cdef"}
  CrossPtr = FALSE
  Legacy = {FALSE}
  WTypes = {"schar", "uchar", "short", "ushort", "uint", "long", "ulong", "llong", "ullong", "ssize_t", "size_t", "float"}
  WKinds = {"cdef"}
  SentCast = "none"
  Dump = FALSE
INVARIANT ImplAgrees
CHECK_DEADLOCK FALSE
