SPECIFICATION Spec
CONSTANTS
  MaxNodes = 1
  MaxDepth = 3
  OvMode = "all"
  SrcMode = "full"
  Dump = TRUE
INVARIANT WellFormed
INVARIANT Unambiguous
INVARIANT DictAgrees
INVARIANT NoLeak
INVARIANT Applies
INVARIANT SourceOrder
INVARIANT Publish
CHECK_DEADLOCK FALSE
