SPECIFICATION Spec
CONSTANTS
  MaxLen = 4
  Dump = FALSE
  UseCache = TRUE
INVARIANT MostDerived
INVARIANT Publish
CHECK_DEADLOCK FALSE
