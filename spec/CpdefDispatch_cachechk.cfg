SPECIFICATION Spec
CONSTANTS
  MaxLen = 5
  Dump = FALSE
  UseCache = TRUE
INVARIANT MostDerived
INVARIANT Publish
CHECK_DEADLOCK FALSE
