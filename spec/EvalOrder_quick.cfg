SPECIFICATION Spec
CONSTANTS
  MaxLeaves = 4
  MaxLeaves2 = 3
  Mod = 24
  Typings = {"O", "I", "M"}
  Tops = {"ret1", "ret2", "assign", "aug", "unpack", "member"}
  ModMem = 360
  Dump = TRUE
INVARIANT CanonInv
INVARIANT AtMostOnce
INVARIANT StopsAtRaise
INVARIANT AllEvaluated
INVARIANT LeftToRight
INVARIANT RhsFirst
INVARIANT AugOrder
INVARIANT MemberFirst
INVARIANT Publish
CHECK_DEADLOCK FALSE
