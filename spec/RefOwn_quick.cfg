SPECIFICATION Spec
CONSTANTS
  NRand = 60
  MaxStmts = 3
  EDepth = 2
  SDepth = 2
  MaxK = 24
  Dump = TRUE
INVARIANT ExcKinds
INVARIANT Reached
INVARIANT Propagates
INVARIANT Handled
INVARIANT NoResult
INVARIANT ArgsAlive
INVARIANT NoOrphans
INVARIANT Publish
CHECK_DEADLOCK FALSE
