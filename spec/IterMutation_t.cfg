SPECIFICATION Spec
CONSTANTS
  Kinds = {"dict", "set", "list", "rlist"}
  InitSizes = {0, 1, 2, 3, 4, 5}
  MaxAct = 3
  Dump = TRUE
INVARIANT TypeOK
INVARIANT SizeCheck
INVARIANT DictBudget
INVARIANT NoMutationVisitsAll
INVARIANT DictNoRepeatWithoutStore
INVARIANT PyxTempsOK
INVARIANT PyxDictAgrees
INVARIANT Publish
