SPECIFICATION Spec
CONSTANTS
  Part = "xslice"
  MaxLen = 3
  VMag = 2
  Mixed = FALSE
  Dump = TRUE
INVARIANT NoUB
INVARIANT ImplAgreesOffHazards
INVARIANT HazardsConfined
INVARIANT CropClamped
INVARIANT MacrosSound
INVARIANT RefSound
INVARIANT RefShape
INVARIANT Publish
CHECK_DEADLOCK FALSE
