SPECIFICATION Spec
CONSTANTS
  Part = "one"
  UNames <- UNone
  UNames3 <- UNum4
  MaxLen = 4
  ArgsOne <- AScalar
  ArgsPair <- APairAll
INVARIANT TypeOK
INVARIANT RefPartial
INVARIANT RefConvOK
INVARIANT ImplAgrees
INVARIANT DeviationsExplained
INVARIANT StepsAreImplCall
CHECK_DEADLOCK FALSE
