SPECIFICATION Spec
CONSTANTS
  Mods <- ModsDef
  Deps <- DepsDef
  Workers <- W1
  Orders <- OrdersDef
  Seeds = {0, 1, 2, 3}
  Dump = TRUE
INVARIANT ScheduleIndependent
INVARIANT NoSharedOutput
INVARIANT Publish
CHECK_DEADLOCK FALSE
