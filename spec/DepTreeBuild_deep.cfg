SPECIFICATION Spec
CONSTANTS
  Mods = {"a", "b"}
  HasPxd = {"a", "b"}
  Pxis = {"i"}
  MaxT = 2
  MaxLen = 4
  Cadence = 0
  Dump = FALSE
  FromFile = FALSE
VIEW NoHistView
INVARIANT TypeOK
INVARIANT IncAcyclic
INVARIANT DepsAgree
INVARIANT DepsAgreePxd
INVARIANT RebuildAgree
INVARIANT BuildIsFixpoint
INVARIANT NoSpuriousRebuild
CHECK_DEADLOCK FALSE
