------------------------------ MODULE Convert ------------------------------
(* C33: Python <-> C/C++ value conversions round-trip or raise.             *)
(*                                                                          *)
(* Target types are a small algebra (C integers, double, char* / std::string *)
(* under a c_string_type/c_string_encoding mode, struct, union, T[n],        *)
(* char[n], vector, list, set, unordered_set, map, unordered_map, pair).     *)
(* Python values are records (see the P* constructors).                      *)
(*                                                                          *)
(*  Reference   RoundTrip(T, v, FALSE) = ToPy(T, FromPy(T, v)) through an    *)
(*              explicit C value domain (sequences, SETS, key/value sets,    *)
(*              member tuples, NUL-terminated views of char* ), with the     *)
(*              error classes of the property: TypeError for a wrong object  *)
(*              or element type, OverflowError for an element outside the C  *)
(*              range, ValueError for wrong keys / wrong length / text that  *)
(*              cannot be encoded or decoded.                                *)
(*              Declarative counterpart: Valid(T, v) and Norm(T, v) (what    *)
(*              "equal value" means: list for every sequence, set, dict,     *)
(*              2-tuple, C-string view up to the first NUL for char* ).      *)
(*  Impl-shaped RoundTrip(T, v, TRUE): the same conversions as written in    *)
(*              Utility/CppConvert.pyx and Utility/CConvert.pyx:             *)
(*              carray.from_py (len probe, enumerate loop with break/else),  *)
(*              FromPyUnionUtility (length countdown over the members),      *)
(*              FromPyStructUtility (look-ups, then assignments, no test for *)
(*              surplus keys), map.from_py (o.items()), integer elements     *)
(*              through the nb_int slot, char[n] -> Python through strlen.   *)
(*              Every place where it leaves the reference carries a `dev`    *)
(*              tag (the root cause); TLC checks that nothing else differs.  *)
(*                                                                          *)
(* A case is built in steps: pick a target type, pick a valid value, inject  *)
(* at most one fault at some position (top level or nested), convert.        *)
(* Every converted case is published with the reference outcome (`want`),    *)
(* the implementation-shaped outcome (`pred`) and the root cause (`rc`).     *)
EXTENDS Integers, Sequences, FiniteSets, TLC, Json

CONSTANTS TypeSet,     \* the target types explored by this configuration
          TopLen,      \* max. number of elements of a top-level container of leaves
          TypesOnly,   \* TRUE: only publish the type table
          Dump

---------------------------------------------------------------------------
(* target types *)
RECURSIVE MdOfSeq(_)
MdOfSeq(a) == IF a = <<>> THEN "" ELSE IF Head(a).md # "" THEN Head(a).md ELSE MdOfSeq(Tail(a))
Ty(t, name, a, f, n, md) == [t |-> t, name |-> name, a |-> a, f |-> f, n |-> n, md |-> md]
Leaf(t) == Ty(t, t, <<>>, <<>>, 0, "")
TInt == Leaf("int")
TUChar == Leaf("uchar")
TShort == Leaf("short")
TSChar == Leaf("schar")            \* plain `char` (signed on the platforms the binding runs on)
TDouble == Leaf("double")
TCStr(md) == Ty("cstr", "cstr_" \o md, <<>>, <<>>, 0, md)        \* const char*
TString(md) == Ty("string", "string_" \o md, <<>>, <<>>, 0, md)  \* std::string
Tmpl1(t, E) == Ty(t, t \o "_" \o E.name, <<E>>, <<>>, 0, E.md)
Tmpl2(t, A, B) == Ty(t, t \o "_" \o A.name \o "_" \o B.name, <<A, B>>, <<>>, 0, MdOfSeq(<<A, B>>))
Vec(E) == Tmpl1("vector", E)
CppList(E) == Tmpl1("list", E)
CppSet(E) == Tmpl1("set", E)
USet(E) == Tmpl1("uset", E)
Map(K, V) == Tmpl2("map", K, V)
UMap(K, V) == Tmpl2("umap", K, V)
Pair(A, B) == Tmpl2("pair", A, B)
Arr(E, n) == Ty("array", "arr" \o ToString(n) \o "_" \o E.name, <<E>>, <<>>, n, E.md)
CharArr(n) == Ty("chararray", "chararr" \o ToString(n), <<>>, <<>>, n, "")
Struct(name, fs, ts) == Ty("struct", name \o (IF MdOfSeq(ts) = "" THEN "" ELSE "_" \o MdOfSeq(ts)), ts, fs, 0, MdOfSeq(ts))
Union(name, fs, ts) == Ty("union", name, ts, fs, 0, MdOfSeq(ts))

IntTypes == {"int", "uchar", "short", "schar"}
StrTypes == {"cstr", "string"}
SeqTypes == {"vector", "list"}
SetTypes == {"set", "uset"}
MapTypes == {"map", "umap"}
Lo(t) == CASE t = "int" -> -2147483647 - 1 [] t = "uchar" -> 0 [] t = "short" -> -32768 [] t = "schar" -> -128
Hi(t) == CASE t = "int" -> 2147483647 [] t = "uchar" -> 255 [] t = "short" -> 32767 [] t = "schar" -> 127

S1 == Struct("S1", <<"a", "b">>, <<TInt, TDouble>>)
S2(md) == Struct("S2", <<"a", "s">>, <<TInt, TCStr(md)>>)
S3 == Struct("S3", <<"k", "inner">>, <<TUChar, S1>>)
S4 == Struct("S4", <<"a", "arr">>, <<TShort, Arr(TInt, 2)>>)
SV == Struct("SV", <<"a", "v">>, <<TInt, Vec(TInt)>>)
SM == Struct("SM", <<"m", "p">>, <<Map(TInt, TInt), Pair(TInt, TDouble)>>)
U1 == Union("U1", <<"a", "b">>, <<TInt, TDouble>>)
U3 == Union("U3", <<"a", "b", "c">>, <<TUChar, TShort, TInt>>)

\* C module (gcc)
TypesC == {TInt, TUChar, TDouble, TCStr("bytes"), S1, S2("bytes"), S3, S4, U1, U3,
           Arr(TInt, 3), Arr(TDouble, 2), Arr(Arr(TInt, 2), 2), Arr(S1, 2), CharArr(3)}
\* C++ modules (g++), default string mode
TypesCppA == {TString("bytes"), Vec(TInt), Vec(TUChar), Vec(TDouble), Vec(TString("bytes")), Vec(Vec(TInt)),
              Vec(Pair(TInt, TInt)), CppList(TInt), CppList(TString("bytes")), Vec(S1)}
TypesCppB == {CppSet(TInt), USet(TInt), CppSet(TString("bytes")), USet(TShort), Map(TInt, TInt), Map(TString("bytes"), TInt),
              UMap(TInt, TDouble), Map(TInt, Vec(TInt)), UMap(TString("bytes"), TString("bytes"))}
TypesCppC == {Pair(TInt, TDouble), Pair(TInt, Pair(TInt, TInt)), Pair(TString("bytes"), TInt), SV,
              Map(TInt, Pair(TInt, TInt)), Vec(Map(TInt, TInt)), Pair(Vec(TInt), TInt), Arr(Vec(TInt), 2)}
\* c_string_type/c_string_encoding modes: u8 = (unicode, utf8), ascii = (str, ascii)
TypesMode(md) == {TCStr(md), TString(md), Vec(TString(md)), Map(TString(md), TInt), S2(md), Pair(TString(md), TInt),
                  CppSet(TString(md))}
TypesU8 == TypesMode("u8")
TypesAscii == TypesMode("ascii")
\* thorough tier only
TypesExtraC == {TShort, TSChar, Arr(TShort, 2), Arr(TCStr("bytes"), 2), Struct("S5", <<"x", "y", "z">>, <<TDouble, TUChar, TShort>>),
                Struct("S6", <<"u", "w">>, <<U1, TInt>>), Arr(Arr(TDouble, 1), 3), CharArr(2)}
TypesExtraCpp == {SM, CppList(Vec(TInt)), CppList(Pair(TInt, TDouble)), CppSet(Pair(TInt, TInt)), UMap(TShort, Vec(TDouble)),
                  Map(TInt, Map(TInt, TInt)), Vec(CppList(TUChar)), Vec(CppSet(TInt)), Pair(Pair(TInt, TInt), Pair(TDouble, TInt)),
                  Map(Pair(TInt, TInt), TInt), Arr(Pair(TInt, TInt), 2), UMap(TInt, TString("bytes")), USet(TString("bytes"))}
TypesModeExtra(md) == {CppList(TString(md)), UMap(TString(md), TString(md)), Vec(Pair(TString(md), TInt)), Arr(TCStr(md), 2),
                       Map(TInt, Vec(TString(md)))}
TypesU8X == TypesModeExtra("u8")
TypesAsciiX == TypesModeExtra("ascii")
\* the configurations: two model checking runs in the quick tier, four in the thorough tier
QuickA == TypesC \cup TypesCppA \cup TypesU8
QuickB == TypesCppB \cup TypesCppC \cup TypesAscii
ThorC == TypesExtraC \cup TypesU8X \cup TypesAsciiX
ThorD == TypesExtraCpp
AllQuick == QuickA \cup QuickB
AllThorough == AllQuick \cup ThorC \cup ThorD

---------------------------------------------------------------------------
(* Python values.  Field names are chosen so that TLC can always compare two *)
(* values: n numbers, b byte / code point sequences, e element sequences,    *)
(* d key/value sequences, s member names, m sets (results only).             *)
PInt(n) == [k |-> "int", n |-> n]
PBig(s) == [k |-> "big", n |-> s]               \* s * 2^70
PBool(n) == [k |-> "bool", n |-> n]             \* True / False as 1 / 0
PFloat(h) == [k |-> "float", n |-> h]           \* h / 2
PNone == [k |-> "none", n |-> 0]
PObj == [k |-> "obj", n |-> 0]                  \* object()
PBytes(b) == [k |-> "bytes", b |-> b]
PBArr(b) == [k |-> "bytearray", b |-> b]
PStr(u) == [k |-> "str", b |-> u]               \* code points
PName(s) == [k |-> "name", s |-> s]             \* a str that is a struct / union member name
PSeq(kd, e) == [k |-> kd, e |-> e]              \* kd: list, tuple, gen (a generator), set
PList(e) == PSeq("list", e)
PTuple(e) == PSeq("tuple", e)
PDict(kd, d) == [k |-> kd, d |-> d]             \* kd: dict, mproxy (types.MappingProxyType); d: <<key, value>> pairs in order
\* results
OSet(m) == [k |-> "oset", m |-> m]
ODict(m) == [k |-> "odict", m |-> m]            \* set of <<key, value>>
SDict(m) == [k |-> "sdict", m |-> m]            \* struct: set of <<member name, value>>
UDict(s, x) == [k |-> "udict", s |-> s, e |-> <<x>>]   \* union: the member that was set (the dict also holds the other members)
Nil == [k |-> "nil", n |-> 0]

\* C values
CInt(n) == [c |-> "int", n |-> n]
CDbl(h) == [c |-> "dbl", n |-> h]
CStr(b) == [c |-> "str", b |-> b]
CSeq(e) == [c |-> "seq", e |-> e]
CSet(m) == [c |-> "set", m |-> m]
CMap(d) == [c |-> "map", d |-> d]               \* sequence of <<ck, cv>> with distinct keys
CUni(i, x) == [c |-> "uni", n |-> i, e |-> <<x>>]

\* outcomes
Ok(x) == [ok |-> TRUE, exc |-> "", x |-> x, dev |-> ""]
Err(e) == [ok |-> FALSE, exc |-> e, x |-> Nil, dev |-> ""]
WithDev(o, d) == IF o.dev = "" THEN [o EXCEPT !.dev = d] ELSE o
Vocab == {"TypeError", "ValueError", "OverflowError"}

---------------------------------------------------------------------------
(* text *)
IsSurr(c) == c >= 55296 /\ c <= 57343
Utf8One(c) == IF c < 128 THEN <<c>>
              ELSE IF c < 2048 THEN <<192 + (c \div 64), 128 + (c % 64)>>
              ELSE <<224 + (c \div 4096), 128 + ((c \div 64) % 64), 128 + (c % 64)>>
RECURSIVE Utf8(_)
Utf8(u) == IF u = <<>> THEN <<>> ELSE Utf8One(Head(u)) \o Utf8(Tail(u))
IsCont(x) == x >= 128 /\ x <= 191
Rest(b, n) == SubSeq(b, n + 1, Len(b))
RECURSIVE Dec8(_)
\* strict UTF-8 decoder for 1..3 byte forms (the value pools hold no 4-byte lead bytes)
Dec8(b) ==
  IF b = <<>> THEN [ok |-> TRUE, u |-> <<>>]
  ELSE LET b0 == b[1]
           cons(c, r) == IF r.ok THEN [ok |-> TRUE, u |-> <<c>> \o r.u] ELSE r
           bad == [ok |-> FALSE, u |-> <<>>]
       IN IF b0 < 128 THEN cons(b0, Dec8(Rest(b, 1)))
          ELSE IF b0 >= 194 /\ b0 <= 223
               THEN IF Len(b) >= 2 /\ IsCont(b[2]) THEN cons((b0 - 192) * 64 + (b[2] - 128), Dec8(Rest(b, 2))) ELSE bad
          ELSE IF b0 >= 224 /\ b0 <= 239
               THEN IF /\ Len(b) >= 3 /\ IsCont(b[2]) /\ IsCont(b[3])
                       /\ (b0 # 224 \/ b[2] >= 160) /\ (b0 # 237 \/ b[2] <= 159)
                    THEN cons((b0 - 224) * 4096 + (b[2] - 128) * 64 + (b[3] - 128), Dec8(Rest(b, 3))) ELSE bad
          ELSE bad
RECURSIVE UpToNul(_)
UpToNul(b) == IF b = <<>> \/ Head(b) = 0 THEN <<>> ELSE <<Head(b)>> \o UpToNul(Tail(b))
AllBelow(b, n) == \A i \in 1..Len(b) : b[i] < n
HasNul(b) == \E i \in 1..Len(b) : b[i] = 0

---------------------------------------------------------------------------
(* iteration of a Python object *)
Iter(v) ==
  CASE v.k \in {"list", "tuple", "gen", "set"} -> [ok |-> TRUE, e |-> v.e]
    [] v.k \in {"dict", "mproxy"} -> [ok |-> TRUE, e |-> [i \in 1..Len(v.d) |-> v.d[i][1]]]
    [] v.k \in {"bytes", "bytearray"} -> [ok |-> TRUE, e |-> [i \in 1..Len(v.b) |-> PInt(v.b[i])]]
    [] v.k = "str" -> [ok |-> TRUE, e |-> [i \in 1..Len(v.b) |-> PStr(<<v.b[i]>>)]]
    [] OTHER -> [ok |-> FALSE, e |-> <<>>]
HasLen(v) == v.k \in {"list", "tuple", "set", "dict", "mproxy", "bytes", "bytearray", "str"}
IsMapping(v) == v.k \in {"dict", "mproxy"}
HasKey(d, key) == \E i \in 1..Len(d) : d[i][1] = key
Lookup(d, key) == d[CHOOSE i \in 1..Len(d) : d[i][1] = key][2]
Names(T) == {PName(T.f[i]) : i \in 1..Len(T.f)}
Keys(d) == {d[i][1] : i \in 1..Len(d)}
Trunc(h) == IF h >= 0 THEN h \div 2 ELSE -((-h) \div 2)

---------------------------------------------------------------------------
(* leaves *)
IntFromPy(t, v, impl) ==
  CASE v.k = "int" -> IF v.n >= Lo(t) /\ v.n <= Hi(t) THEN Ok(CInt(v.n)) ELSE Err("OverflowError")
    [] v.k = "bool" -> Ok(CInt(v.n))
    [] v.k = "big" -> Err("OverflowError")
    [] v.k = "float" -> IF impl   \* __Pyx_PyNumber_Long: the nb_int slot truncates
                        THEN WithDev(IF Trunc(v.n) >= Lo(t) /\ Trunc(v.n) <= Hi(t) THEN Ok(CInt(Trunc(v.n))) ELSE Err("OverflowError"), "float-trunc")
                        ELSE Err("TypeError")
    [] OTHER -> Err("TypeError")
DblFromPy(v) ==
  CASE v.k \in {"int", "bool"} -> IF v.n > -1000000 /\ v.n < 1000000 THEN Ok(CDbl(2 * v.n)) ELSE Err("UNDEFINED")
    [] v.k = "float" -> Ok(CDbl(v.n))
    [] v.k = "big" -> Err("UNDEFINED")         \* exact float, not representable here; never generated
    [] OTHER -> Err("TypeError")
StrFromPy(T, v) ==
  CASE v.k \in {"bytes", "bytearray"} -> Ok(CStr(v.b))
    [] v.k = "str" -> IF T.md = "bytes" THEN Err("TypeError")       \* no c_string_encoding: text is not accepted
                      ELSE IF T.md = "u8" THEN (IF \E i \in 1..Len(v.b) : IsSurr(v.b[i]) THEN Err("ValueError") ELSE Ok(CStr(Utf8(v.b))))
                      ELSE (IF AllBelow(v.b, 128) THEN Ok(CStr(v.b)) ELSE Err("ValueError"))
    [] OTHER -> Err("TypeError")
TextToPy(md, b) ==
  IF md = "bytes" THEN Ok(PBytes(b))
  ELSE IF md = "u8" THEN (LET d == Dec8(b) IN IF d.ok THEN Ok(PStr(d.u)) ELSE Err("ValueError"))
  ELSE (IF AllBelow(b, 128) THEN Ok(PStr(b)) ELSE Err("ValueError"))
\* char* is a NUL-terminated view (documented C string semantics); std::string carries its length
StrToPy(T, c) == TextToPy(T.md, IF T.t = "cstr" THEN UpToNul(c.b) ELSE c.b)

---------------------------------------------------------------------------
(* the conversions; impl = FALSE: reference, impl = TRUE: as implemented *)
RECURSIVE FromPy(_, _, _), ToPy(_, _, _), SeqFrom(_, _, _, _, _), MapFrom(_, _, _, _, _), SeqTo(_, _, _, _, _),
          MembersFrom(_, _, _, _, _), ArrLoop(_, _, _, _, _, _), UnionLoop(_, _, _, _, _, _, _)

\* convert items[i..] with element types ts (one type for all if Len(ts) = 1), accumulating C values
ElemTy(ts, i) == IF Len(ts) = 1 THEN ts[1] ELSE ts[i]
SeqFrom(ts, items, i, impl, acc) ==
  IF i > Len(items) THEN acc
  ELSE LET r == FromPy(ElemTy(ts, i), items[i], impl) IN
       IF ~r.ok THEN WithDev(r, acc.dev)
       ELSE SeqFrom(ts, items, i + 1, impl, WithDev([acc EXCEPT !.x = Append(acc.x, r.x)], r.dev))

\* map.from_py: for key, value in o.items(): m.insert(pair(<X>key, <Y>value)); insert keeps the first entry of a key
MapFrom(T, d, i, impl, acc) ==
  IF i > Len(d) THEN acc
  ELSE LET rk == FromPy(T.a[1], d[i][1], impl) IN
       IF ~rk.ok THEN WithDev(rk, acc.dev)
       ELSE LET rv == FromPy(T.a[2], d[i][2], impl) IN
            IF ~rv.ok THEN WithDev(WithDev(rv, acc.dev), rk.dev)
            ELSE LET seen == \E j \in 1..Len(acc.x) : acc.x[j][1] = rk.x
                     acc2 == IF seen THEN acc ELSE [acc EXCEPT !.x = Append(acc.x, <<rk.x, rv.x>>)]
                 IN MapFrom(T, d, i + 1, impl, WithDev(WithDev(acc2, rk.dev), rv.dev))

\* struct members: result.m = value_m in declaration order
MembersFrom(T, d, i, impl, acc) ==
  IF i > Len(T.f) THEN acc
  ELSE LET r == FromPy(T.a[i], Lookup(d, PName(T.f[i])), impl) IN
       IF ~r.ok THEN WithDev(r, acc.dev)
       ELSE MembersFrom(T, d, i + 1, impl, WithDev([acc EXCEPT !.x = Append(acc.x, r.x)], r.dev))

\* carray.from_py after `if i == length:` -- for i, item in enumerate(o): if i >= length: break; v[i] = item
\* idx: 0-based index of the next item; cnt: value of the variable `i` so far
ArrLoop(T, items, idx, cnt, impl, acc) ==
  IF idx >= Len(items)
  THEN (LET i2 == cnt + 1 IN          \* else: i += 1
        IF i2 = T.n THEN acc ELSE WithDev(Err("IndexError"), "array-len-indexerror"))
  ELSE IF idx >= T.n THEN WithDev(Err("IndexError"), "array-len-indexerror")       \* break
  ELSE LET r == FromPy(T.a[1], items[idx + 1], impl) IN
       IF ~r.ok THEN WithDev(r, acc.dev)
       ELSE ArrLoop(T, items, idx + 1, idx, impl, WithDev([acc EXCEPT !.x = Append(acc.x, r.x)], r.dev))

\* FromPyUnionUtility: one `if length:` block per member
\* st = [len, last, rep, res] ; last/rep: 0 = None, else member index ; rep = -1: "repeated_key" set
UnionLoop(T, v, i, len, last, rep, impl) ==
  IF i > Len(T.f)
  THEN (IF last = 0 THEN Err("ValueError") ELSE Err("ValueError"))     \* "No value specified ..." / "More than one union attribute ..."
  ELSE IF len # 0 /\ HasKey(v.d, PName(T.f[i]))
       THEN IF last # 0 THEN UnionLoop(T, v, i + 1, 0, last, i, impl)
            ELSE LET r == FromPy(T.a[i], Lookup(v.d, PName(T.f[i])), impl) IN
                 IF ~r.ok THEN r
                 ELSE IF len - 1 = 0 THEN [r EXCEPT !.x = CUni(i, r.x)]
                 ELSE UnionLoop(T, v, i + 1, len - 1, i, rep, impl)
       ELSE UnionLoop(T, v, i + 1, len, last, rep, impl)

ElemType(T) == IF T.t = "chararray" THEN TSChar ELSE T.a[1]

FromPy(T, v, impl) ==
  CASE T.t \in IntTypes -> IntFromPy(T.t, v, impl)
    [] T.t = "double" -> DblFromPy(v)
    [] T.t \in StrTypes -> StrFromPy(T, v)
    [] T.t \in SeqTypes \cup SetTypes ->
         LET it == Iter(v) IN
         IF ~it.ok THEN Err("TypeError")
         ELSE LET r == SeqFrom(T.a, it.e, 1, impl, Ok(<<>>)) IN
              IF ~r.ok THEN r
              ELSE IF T.t \in SeqTypes THEN [r EXCEPT !.x = CSeq(r.x)]
              ELSE [r EXCEPT !.x = CSet({r.x[i] : i \in 1..Len(r.x)})]
    [] T.t = "pair" ->                       \* x, y = o
         LET it == Iter(v) IN
         IF ~it.ok THEN Err("TypeError")
         ELSE IF Len(it.e) # 2 THEN Err("ValueError")
         ELSE LET r == SeqFrom(T.a, it.e, 1, impl, Ok(<<>>)) IN IF r.ok THEN [r EXCEPT !.x = CSeq(r.x)] ELSE r
    [] T.t \in MapTypes ->
         IF ~IsMapping(v)
         THEN (IF impl THEN WithDev(Err("AttributeError"), "map-items-attr") ELSE Err("TypeError"))     \* o.items()
         ELSE LET r == MapFrom(T, v.d, 1, impl, Ok(<<>>)) IN IF r.ok THEN [r EXCEPT !.x = CMap(r.x)] ELSE r
    [] T.t = "struct" ->
         IF ~IsMapping(v) THEN Err("TypeError")
         ELSE IF \E i \in 1..Len(T.f) : ~HasKey(v.d, PName(T.f[i])) THEN Err("ValueError")      \* all look-ups come first
         ELSE IF ~impl /\ Keys(v.d) # Names(T) THEN Err("ValueError")                           \* surplus key
         ELSE LET r == MembersFrom(T, v.d, 1, impl, Ok(<<>>))
                  r2 == IF r.ok THEN [r EXCEPT !.x = CSeq(r.x)] ELSE r
              IN IF impl /\ Keys(v.d) # Names(T) THEN WithDev(r2, "struct-extra-key") ELSE r2
    [] T.t = "union" ->
         IF ~IsMapping(v) THEN Err("TypeError")
         ELSE IF impl THEN UnionLoop(T, v, 1, Len(v.d), 0, 0, impl)
         ELSE IF Len(v.d) # 1 \/ v.d[1][1] \notin Names(T) THEN Err("ValueError")
         ELSE LET i == CHOOSE j \in 1..Len(T.f) : PName(T.f[j]) = v.d[1][1]
                  r == FromPy(T.a[i], v.d[1][2], impl)
              IN IF r.ok THEN [r EXCEPT !.x = CUni(i, r.x)] ELSE r
    [] T.t \in {"array", "chararray"} ->
         LET it == Iter(v)
             TT == [T EXCEPT !.a = <<ElemType(T)>>] IN
         IF impl
         THEN (LET i0 == IF HasLen(v) THEN Len(it.e) ELSE T.n IN      \* try: i = len(o) except (TypeError, OverflowError): pass
               IF i0 # T.n THEN WithDev(Err("IndexError"), "array-len-indexerror")
               ELSE IF ~it.ok THEN Err("TypeError")                   \* enumerate(o)
               ELSE LET r == ArrLoop(TT, it.e, 0, i0, impl, Ok(<<>>)) IN IF r.ok THEN [r EXCEPT !.x = CSeq(r.x)] ELSE r)
         ELSE IF ~it.ok THEN Err("TypeError")
         ELSE IF Len(it.e) # T.n THEN Err("ValueError")
         ELSE LET r == SeqFrom(TT.a, it.e, 1, impl, Ok(<<>>)) IN IF r.ok THEN [r EXCEPT !.x = CSeq(r.x)] ELSE r

\* C -> Python for cs[i..] ; acc.x collects Python values
SeqTo(ts, cs, i, impl, acc) ==
  IF i > Len(cs) THEN acc
  ELSE LET r == ToPy(ElemTy(ts, i), cs[i], impl) IN
       IF ~r.ok THEN r ELSE SeqTo(ts, cs, i + 1, impl, WithDev([acc EXCEPT !.x = Append(acc.x, r.x)], r.dev))

ToPy(T, c, impl) ==
  CASE T.t \in IntTypes -> Ok(PInt(c.n))
    [] T.t = "double" -> Ok(PFloat(c.n))
    [] T.t \in StrTypes -> StrToPy(T, c)
    [] T.t \in SeqTypes \cup {"array"} -> LET r == SeqTo(T.a, c.e, 1, impl, Ok(<<>>)) IN IF r.ok THEN [r EXCEPT !.x = PList(r.x)] ELSE r
    [] T.t = "pair" -> LET r == SeqTo(T.a, c.e, 1, impl, Ok(<<>>)) IN IF r.ok THEN [r EXCEPT !.x = PTuple(r.x)] ELSE r
    [] T.t \in SetTypes ->
         LET rs == {ToPy(T.a[1], x, impl) : x \in c.m} IN
         IF \E r \in rs : ~r.ok THEN (CHOOSE r \in rs : ~r.ok) ELSE Ok(OSet({r.x : r \in rs}))
    [] T.t \in MapTypes ->
         LET rs == {<<ToPy(T.a[1], c.d[i][1], impl), ToPy(T.a[2], c.d[i][2], impl)>> : i \in 1..Len(c.d)} IN
         IF \E p \in rs : ~p[1].ok THEN (CHOOSE p \in rs : ~p[1].ok)[1]
         ELSE IF \E p \in rs : ~p[2].ok THEN (CHOOSE p \in rs : ~p[2].ok)[2]
         ELSE Ok(ODict({<<p[1].x, p[2].x>> : p \in rs}))
    [] T.t = "struct" ->
         LET r == SeqTo(T.a, c.e, 1, impl, Ok(<<>>)) IN
         IF r.ok THEN [r EXCEPT !.x = SDict({<<T.f[i], r.x[i]>> : i \in 1..Len(T.f)})] ELSE r
    [] T.t = "union" ->          \* the dict holds every member; only the one that was set is determined
         LET r == ToPy(T.a[c.n], c.e[1], impl) IN IF r.ok THEN [r EXCEPT !.x = UDict(T.f[c.n], r.x)] ELSE r
    [] T.t = "chararray" ->      \* char[n] converts like a C string
         LET b == [i \in 1..Len(c.e) |-> (c.e[i].n + 256) % 256] IN
         IF impl /\ ~HasNul(b)   \* strlen() runs past the array
         THEN [ok |-> TRUE, exc |-> "UB", x |-> PBytes(b), dev |-> "chararray-overread"]
         ELSE Ok(PBytes(UpToNul(b)))

RoundTrip(T, v, impl) ==
  LET r == FromPy(T, v, impl) IN
  IF ~r.ok THEN r ELSE LET t == ToPy(T, r.x, impl) IN [t EXCEPT !.dev = IF r.dev # "" THEN r.dev ELSE t.dev]   \* the first root cause

---------------------------------------------------------------------------
(* declarative counterpart of the reference: which values are valid, and what *)
(* the round trip of a valid value is equal to                                *)
RECURSIVE Valid(_, _), Norm(_, _)
TextBytes(T, v) == IF T.t = "cstr" THEN UpToNul(v.b) ELSE v.b
Valid(T, v) ==
  CASE T.t \in IntTypes -> (v.k = "int" /\ v.n >= Lo(T.t) /\ v.n <= Hi(T.t)) \/ v.k = "bool"
    [] T.t = "double" -> v.k \in {"int", "bool", "float"}
    [] T.t \in StrTypes ->
         \/ v.k \in {"bytes", "bytearray"} /\ (T.md = "bytes" \/ (T.md = "u8" /\ Dec8(TextBytes(T, v)).ok) \/ (T.md = "ascii" /\ AllBelow(TextBytes(T, v), 128)))
         \/ v.k = "str" /\ ((T.md = "u8" /\ \A i \in 1..Len(v.b) : ~IsSurr(v.b[i])) \/ (T.md = "ascii" /\ AllBelow(v.b, 128)))
    [] T.t \in SeqTypes \cup SetTypes -> Iter(v).ok /\ \A i \in 1..Len(Iter(v).e) : Valid(T.a[1], Iter(v).e[i])
    [] T.t \in {"array", "chararray"} -> Iter(v).ok /\ Len(Iter(v).e) = T.n /\ \A i \in 1..T.n : Valid(ElemType(T), Iter(v).e[i])
    [] T.t = "pair" -> Iter(v).ok /\ Len(Iter(v).e) = 2 /\ Valid(T.a[1], Iter(v).e[1]) /\ Valid(T.a[2], Iter(v).e[2])
    [] T.t \in MapTypes -> IsMapping(v) /\ \A i \in 1..Len(v.d) : Valid(T.a[1], v.d[i][1]) /\ Valid(T.a[2], v.d[i][2])
    [] T.t = "struct" -> IsMapping(v) /\ Keys(v.d) = Names(T) /\ \A i \in 1..Len(T.f) : Valid(T.a[i], Lookup(v.d, PName(T.f[i])))
    [] T.t = "union" -> IsMapping(v) /\ Len(v.d) = 1 /\ \E i \in 1..Len(T.f) : v.d[1][1] = PName(T.f[i]) /\ Valid(T.a[i], v.d[1][2])
Norm(T, v) ==
  CASE T.t \in IntTypes -> PInt(v.n)
    [] T.t = "double" -> PFloat(IF v.k = "float" THEN v.n ELSE 2 * v.n)
    [] T.t \in StrTypes ->
         IF T.md = "bytes" THEN PBytes(TextBytes(T, v))
         ELSE IF v.k = "str" THEN PStr(TextBytes(T, v))                 \* decode(encode(s)) = s, cut at U+0000 for char*
         ELSE IF T.md = "u8" THEN PStr(Dec8(TextBytes(T, v)).u) ELSE PStr(TextBytes(T, v))
    [] T.t \in SeqTypes \cup {"array"} -> PList([i \in 1..Len(Iter(v).e) |-> Norm(T.a[1], Iter(v).e[i])])
    [] T.t = "chararray" -> PBytes(UpToNul([i \in 1..Len(Iter(v).e) |-> (Iter(v).e[i].n + 256) % 256]))
    [] T.t \in SetTypes -> OSet({Norm(T.a[1], Iter(v).e[i]) : i \in 1..Len(Iter(v).e)})
    [] T.t = "pair" -> PTuple(<<Norm(T.a[1], Iter(v).e[1]), Norm(T.a[2], Iter(v).e[2])>>)
    [] T.t \in MapTypes -> ODict({<<Norm(T.a[1], v.d[i][1]), Norm(T.a[2], v.d[i][2])>> : i \in 1..Len(v.d)})
    [] T.t = "struct" -> SDict({<<T.f[i], Norm(T.a[i], Lookup(v.d, PName(T.f[i])))>> : i \in 1..Len(T.f)})
    [] T.t = "union" -> LET i == CHOOSE j \in 1..Len(T.f) : v.d[1][1] = PName(T.f[j]) IN UDict(T.f[i], Norm(T.a[i], v.d[1][2]))

---------------------------------------------------------------------------
(* generators: valid values *)
SeqsUpTo(S, n) == UNION {[1..m -> S] : m \in 0..n}
RECURSIVE SetSeq(_)
SetSeq(S) == IF S = {} THEN <<>> ELSE LET x == CHOOSE y \in S : TRUE IN <<x>> \o SetSeq(S \ {x})
\* at most two representatives of a pool (nested positions)
Few(S) == IF Cardinality(S) <= 2 THEN S ELSE LET x == CHOOSE y \in S : TRUE IN {x, CHOOSE y \in S \ {x} : TRUE}

StrGood(T, lvl) ==
  LET base == IF lvl = 0 THEN {PBytes(<<>>), PBytes(<<97, 0, 98>>), PBytes(<<104, 195, 169>>), PBArr(<<120, 0>>)} ELSE {PBytes(<<97>>), PBytes(<<0, 98>>)}
      raw == IF lvl = 0 THEN {PBytes(<<255>>), PBytes(<<195>>)} ELSE {PBytes(<<255, 0>>)}        \* not text
      u8 == IF lvl = 0 THEN {PStr(<<>>), PStr(<<104, 233>>), PStr(<<8364>>), PStr(<<97, 0, 98>>), PBytes(<<226, 130, 172, 65>>)} ELSE {PStr(<<233, 8364>>)}
      cut == IF T.t = "cstr" /\ lvl = 0      \* char*: what follows the NUL is not part of the value (text is encoded first)
             THEN {PBytes(<<97, 0, 255>>)} \cup (IF T.md = "u8" THEN {PStr(<<97, 0, 233>>)} ELSE {}) ELSE {}
      asc == IF lvl = 0 THEN {PStr(<<>>), PStr(<<97, 98>>), PStr(<<97, 0, 98>>)} ELSE {PStr(<<98>>)}
  IN IF T.md = "bytes" THEN base \cup raw
     ELSE IF T.md = "u8" THEN base \cup u8 \cup cut
     ELSE {x \in base : AllBelow(x.b, 128)} \cup asc \cup cut
\* pools without two members that convert to the same C value (set elements, map keys)
RECURSIVE KeyPool(_, _)
KeyPool(T, lvl) ==
  CASE T.t \in IntTypes -> IF lvl = 0 THEN {PInt(1), PInt(Hi(T.t)), PInt(Lo(T.t))} ELSE {PInt(1), PInt(Hi(T.t))}
    [] T.t = "string" -> IF T.md = "bytes" THEN {PBytes(<<>>), PBytes(<<97, 0>>), PBytes(<<255>>)}
                         ELSE IF T.md = "u8" THEN {PStr(<<104, 233>>), PBytes(<<97>>), PStr(<<>>)}
                         ELSE {PStr(<<97, 98>>), PBytes(<<97>>), PStr(<<>>)}
    [] T.t = "pair" -> {PTuple(<<x, y>>) : x \in Few(KeyPool(T.a[1], lvl + 1)), y \in Few(KeyPool(T.a[2], lvl + 1))}
    [] T.t = "double" -> {PFloat(3), PInt(2)}
    [] OTHER -> {}

RECURSIVE Good(_, _)
SeqKinds(lvl) == IF lvl = 0 THEN {"list", "tuple", "gen"} ELSE {"list"}
DictKinds(lvl) == IF lvl = 0 THEN {"dict", "mproxy"} ELSE {"dict"}
IsLeafTy(T) == T.t \in IntTypes \cup StrTypes \cup {"double"}
Good(T, lvl) ==
  CASE T.t \in IntTypes -> IF lvl = 0 THEN {PInt(0), PInt(1), PInt(Hi(T.t)), PInt(Lo(T.t)), PBool(1)} ELSE {PInt(1), PInt(Hi(T.t))}
    [] T.t = "double" -> IF lvl = 0 THEN {PFloat(3), PFloat(-1), PInt(2), PBool(1)} ELSE {PFloat(3), PInt(2)}
    [] T.t \in StrTypes -> IF lvl = 0 THEN StrGood(T, lvl) ELSE Few(StrGood(T, lvl))
    [] T.t \in SeqTypes ->
         LET E == T.a[1]
             es == IF lvl = 0 /\ IsLeafTy(E) THEN Good(E, 1) ELSE Few(Good(E, lvl + 1))
             n == IF lvl = 0 THEN (IF IsLeafTy(E) THEN TopLen ELSE 2) ELSE IF lvl = 1 THEN 2 ELSE 1
         IN {PSeq(kd, s) : kd \in SeqKinds(lvl), s \in SeqsUpTo(es, n)}
            \cup (IF lvl = 0 /\ E.t \in {"int", "uchar"} THEN {PBytes(<<97, 200>>), PDict("dict", <<<<PInt(3), PNone>>, <<PInt(4), PNone>>>>)} ELSE {})
    [] T.t \in SetTypes ->
         LET pool == KeyPool(T.a[1], lvl)
             subs == {s \in SUBSET pool : Cardinality(s) <= (IF lvl = 0 THEN 2 ELSE 1)}
         IN {PSeq(kd, SetSeq(s)) : kd \in (IF lvl = 0 THEN {"set", "list"} ELSE {"set"}), s \in subs}
            \cup (IF lvl = 0 THEN {PList(<<x, x>>) : x \in Few(pool)} ELSE {})          \* a repeated element
    [] T.t = "pair" ->
         {PSeq(kd, <<x, y>>) : kd \in (IF lvl = 0 THEN {"tuple", "list", "gen"} ELSE {"tuple"}),
                               x \in (IF lvl = 0 THEN Good(T.a[1], 1) ELSE Few(Good(T.a[1], lvl + 1))),
                               y \in (IF lvl = 0 THEN Good(T.a[2], 1) ELSE Few(Good(T.a[2], lvl + 1)))}
    [] T.t \in MapTypes ->
         LET pool == Few(KeyPool(T.a[1], lvl + 1))
             vals == Few(Good(T.a[2], lvl + 1))
             subs == {s \in SUBSET pool : Cardinality(s) <= (IF lvl = 0 THEN 2 ELSE 1)}
         IN UNION {{PDict(kd, [i \in 1..Len(SetSeq(s)) |-> <<SetSeq(s)[i], g[SetSeq(s)[i]]>>]) : kd \in DictKinds(lvl), g \in [s -> vals]} : s \in subs}
    [] T.t = "struct" ->
         LET n == Len(T.f)
             pool(i) == IF lvl = 0 /\ n <= 2 /\ IsLeafTy(T.a[i]) THEN Good(T.a[i], 1) ELSE Few(Good(T.a[i], lvl + 1))
             all == UNION {pool(i) : i \in 1..n}
         IN {PDict(kd, [i \in 1..n |-> <<PName(T.f[i]), g[i]>>]) : kd \in DictKinds(lvl), g \in {h \in [1..n -> all] : \A i \in 1..n : h[i] \in pool(i)}}
    [] T.t = "union" ->
         UNION {{PDict(kd, <<<<PName(T.f[i]), x>>>>) : kd \in DictKinds(lvl), x \in (IF lvl = 0 THEN Good(T.a[i], 0) ELSE Few(Good(T.a[i], lvl + 1)))} : i \in 1..Len(T.f)}
    [] T.t = "array" ->
         LET es == IF lvl = 0 /\ T.n <= 2 /\ IsLeafTy(T.a[1]) THEN Good(T.a[1], 1) ELSE Few(Good(T.a[1], lvl + 1))
             \* (a char* element points into the item: the items must outlive the iteration, so no generator there)
             kds == IF T.a[1].t = "cstr" THEN SeqKinds(lvl) \ {"gen"} ELSE IF IsLeafTy(T.a[1]) THEN SeqKinds(lvl) ELSE SeqKinds(lvl) \ {"tuple"}
         IN {PSeq(kd, s) : kd \in kds, s \in [1..T.n -> es]}
    [] T.t = "chararray" ->
         {PBytes(s) : s \in {t \in [1..T.n -> {97, 0, 127}] : TRUE}} \cup {PList([i \in 1..T.n |-> PInt(s[i])]) : s \in [1..T.n -> {98, 0, -128}]}

---------------------------------------------------------------------------
(* generators: one fault *)
RECURSIVE Hashable(_)
Hashable(v) == \/ v.k \in {"int", "bool", "big", "float", "none", "obj", "str", "bytes", "name"}
               \/ v.k = "tuple" /\ \A i \in 1..Len(v.e) : Hashable(v.e[i])
Fault(v, T, fk, lvl) == [v |-> v, at |-> T.t, fk |-> fk, bad |-> v.k, depth |-> lvl, path |-> <<>>]
NoFault == [at |-> "", fk |-> "none", bad |-> "", depth |-> 0, path |-> <<>>]
WrongObjs == {PNone, PInt(5), PObj, PFloat(3)}
ButLast(s) == SubSeq(s, 1, Len(s) - 1)

LocalFaults(T, v, lvl) ==
  CASE T.t \in IntTypes ->
         {Fault(PFloat(3), T, "float", lvl), Fault(PBig(1), T, "range", lvl), Fault(PBig(-1), T, "range", lvl)}
         \cup {Fault(x, T, "type", lvl) : x \in {PNone, PStr(<<49>>), PList(<<>>), PBytes(<<49>>)}}
         \cup (IF T.t # "int" THEN {Fault(PInt(Hi(T.t) + 1), T, "range", lvl), Fault(PInt(Lo(T.t) - 1), T, "range", lvl)} ELSE {})
    [] T.t = "double" -> {Fault(x, T, "type", lvl) : x \in {PNone, PStr(<<49>>), PList(<<>>)}}
    [] T.t \in StrTypes ->
         {Fault(x, T, "type", lvl) : x \in {PNone, PInt(5), PList(<<PInt(97)>>)}}
         \cup (IF T.md = "bytes" THEN {Fault(PStr(<<97>>), T, "text-in-bytes-mode", lvl)}
               ELSE IF T.md = "u8" THEN {Fault(PStr(<<97, 55296>>), T, "encode", lvl), Fault(PBytes(<<255>>), T, "decode", lvl),
                                         Fault(PBytes(<<104, 195>>), T, "decode", lvl), Fault(PBArr(<<237, 160, 128>>), T, "decode", lvl)}
               ELSE {Fault(PStr(<<104, 233>>), T, "encode", lvl), Fault(PBytes(<<195, 169>>), T, "decode", lvl)})
    [] T.t \in SeqTypes \cup SetTypes -> {Fault(x, T, "wrongobj", lvl) : x \in WrongObjs}
    [] T.t \in {"array", "chararray", "pair"} ->
         {Fault(x, T, "wrongobj", lvl) : x \in WrongObjs}
         \cup (IF v.k \in {"list", "tuple", "gen"}
               THEN {Fault([v EXCEPT !.e = ButLast(v.e)], T, "len-short", lvl), Fault([v EXCEPT !.e = Append(v.e, v.e[Len(v.e)])], T, "len-long", lvl),
                     Fault([v EXCEPT !.e = <<>>], T, "len-short", lvl)}
               ELSE IF v.k = "bytes" THEN {Fault(PBytes(ButLast(v.b)), T, "len-short", lvl), Fault(PBytes(Append(v.b, 65)), T, "len-long", lvl)}
               ELSE {})
         \cup (IF T.t = "chararray" THEN {Fault(PStr([i \in 1..T.n |-> 97]), T, "type", lvl)} ELSE {})
    [] T.t \in MapTypes ->
         {Fault(x, T, "wrongobj", lvl) : x \in WrongObjs}
         \cup (IF IsMapping(v) THEN {Fault(PList([i \in 1..Len(v.d) |-> PTuple(<<v.d[i][1], v.d[i][2]>>)]), T, "nonmapping", lvl),
                                      Fault(PSeq("set", [i \in 1..Len(v.d) |-> v.d[i][1]]), T, "nonmapping", lvl),
                                      Fault(PTuple(<<>>), T, "nonmapping", lvl)} ELSE {})
    [] T.t = "struct" ->
         {Fault(x, T, "wrongobj", lvl) : x \in WrongObjs}
         \cup {Fault(PList([i \in 1..Len(v.d) |-> PTuple(<<v.d[i][1], v.d[i][2]>>)]), T, "nonmapping", lvl)}
         \cup {Fault([v EXCEPT !.d = SubSeq(v.d, 1, i - 1) \o SubSeq(v.d, i + 1, Len(v.d))], T, "missing-key", lvl) : i \in 1..Len(v.d)}
         \cup {Fault([v EXCEPT !.d = Append(v.d, <<PName("zz"), PInt(0)>>)], T, "extra-key", lvl),
               Fault([v EXCEPT !.d = <<<<PBytes(<<97>>), PInt(0)>>>> \o v.d], T, "extra-key", lvl),
               Fault([v EXCEPT !.d[1] = <<PName("zz"), v.d[1][2]>>], T, "renamed-key", lvl)}
    [] T.t = "union" ->
         {Fault(x, T, "wrongobj", lvl) : x \in WrongObjs}
         \cup {Fault([v EXCEPT !.d = <<>>], T, "missing-key", lvl), Fault([v EXCEPT !.d = <<<<PName("zz"), PInt(0)>>>>], T, "renamed-key", lvl),
               Fault([v EXCEPT !.d = Append(v.d, <<PName("zz"), PInt(0)>>)], T, "extra-key", lvl),
               Fault([v EXCEPT !.d = <<<<PName("zz"), PInt(0)>>>> \o v.d], T, "extra-key", lvl)}
         \cup {Fault([v EXCEPT !.d = Append(v.d, <<PName(T.f[i]), CHOOSE g \in Good(T.a[i], 2) : TRUE>>)], T, "two-members", lvl)
               : i \in {j \in 1..Len(T.f) : PName(T.f[j]) # v.d[1][1]}}

RECURSIVE Faulty(_, _, _), ChildFaults(_, _, _)
\* faults inside element i of a sequence-like value
LiftE(v, i, f) == [f EXCEPT !.v = [v EXCEPT !.e[i] = f.v], !.path = <<i>> \o f.path]
LiftK(v, i, f) == [f EXCEPT !.v = [v EXCEPT !.d[i] = <<f.v, v.d[i][2]>>], !.path = <<i, 1>> \o f.path]
LiftV(v, i, f) == [f EXCEPT !.v = [v EXCEPT !.d[i] = <<v.d[i][1], f.v>>], !.path = <<i, 2>> \o f.path]
Faulty(T, v, lvl) == LocalFaults(T, v, lvl) \cup ChildFaults(T, v, lvl)
ChildFaults(T, v, lvl) ==
  CASE T.t \in SeqTypes \cup SetTypes \cup {"array", "pair"} /\ v.k \in {"list", "tuple", "gen", "set"} ->
         UNION {{LiftE(v, i, f) : f \in {g \in Faulty(ElemTy(T.a, i), v.e[i], lvl + 1) : v.k # "set" \/ Hashable(g.v)}} : i \in 1..Len(v.e)}
    [] T.t = "chararray" /\ v.k = "list" /\ v.e[T.n].n = 0 ->      \* (keeps the terminating NUL: one root cause per case)
         UNION {{LiftE(v, i, f) : f \in Faulty(TSChar, v.e[i], lvl + 1)} : i \in 1..(T.n - 1)}
    [] T.t \in MapTypes /\ IsMapping(v) ->
         UNION {{LiftK(v, i, f) : f \in {g \in Faulty(T.a[1], v.d[i][1], lvl + 1) : Hashable(g.v) /\ ~HasKey(v.d, g.v)}}
                \cup {LiftV(v, i, f) : f \in Faulty(T.a[2], v.d[i][2], lvl + 1)} : i \in 1..Len(v.d)}
    [] T.t = "struct" /\ IsMapping(v) ->
         UNION {{LiftV(v, i, f) : f \in Faulty(T.a[i], v.d[i][2], lvl + 1)} : i \in 1..Len(v.d)}
    [] T.t = "union" /\ IsMapping(v) ->
         LET i == CHOOSE j \in 1..Len(T.f) : PName(T.f[j]) = v.d[1][1] IN {LiftV(v, 1, f) : f \in Faulty(T.a[i], v.d[1][2], lvl + 1)}
    [] OTHER -> {}

---------------------------------------------------------------------------
VARIABLES ph, ty, val, fault, want, pred
vars == <<ph, ty, val, fault, want, pred>>
NoTy == Leaf("none")

Init == ph = "type" /\ ty = NoTy /\ val = Nil /\ fault = NoFault /\ want = Err("") /\ pred = Err("")

PickType == /\ ph = "type"
            /\ \E T \in TypeSet : ty' = T
            /\ ph' = "value" /\ UNCHANGED <<val, fault, want, pred>>
Same(a, b) == a.ok = b.ok /\ a.exc = b.exc /\ a.x = b.x
\* a value enters the "ready" phase together with its two outcomes
Ready(v) == val' = v /\ want' = RoundTrip(ty, v, FALSE) /\ pred' = RoundTrip(ty, v, TRUE)
PickGood == /\ ph = "value" /\ ~TypesOnly
            /\ \E g \in Good(ty, 0) : Ready(g)
            /\ ph' = "ready" /\ UNCHANGED <<ty, fault>>
Inject(fs) == /\ \E f \in fs :
                   /\ Ready(f.v) /\ fault' = [at |-> f.at, fk |-> f.fk, bad |-> f.bad, depth |-> f.depth, path |-> f.path]
              /\ UNCHANGED <<ph, ty>>
InjectTop == ph = "ready" /\ fault = NoFault /\ Inject(LocalFaults(ty, val, 0))       \* the whole value is wrong
InjectNested == ph = "ready" /\ fault = NoFault /\ Inject(ChildFaults(ty, val, 0))  \* something inside it is
Convert(accept, agree) == /\ want.ok = accept /\ Same(want, pred) = agree
                          /\ ph' = "done" /\ UNCHANGED <<ty, val, fault, want, pred>>
Accept == ph = "ready" /\ Convert(TRUE, TRUE)
Reject == ph = "ready" /\ Convert(FALSE, TRUE)
AcceptDev == ph = "ready" /\ Convert(TRUE, FALSE)       \* a valid value that the implementation-shaped model does not round-trip
RejectDev == ph = "ready" /\ Convert(FALSE, FALSE)      \* an invalid value that it accepts, or rejects with another class

Next == PickType \/ PickGood \/ InjectTop \/ InjectNested \/ Accept \/ Reject \/ AcceptDev \/ RejectDev
Spec == Init /\ [][Next]_vars

---------------------------------------------------------------------------
Done == ph = "done"
(* the generators produce what they claim *)
GoodIsValid == (ph = "ready" /\ fault = NoFault) => Valid(ty, val)
FaultIsInvalid == (ph = "ready" /\ fault # NoFault) => ~Valid(ty, val)
(* reference: a valid value round-trips to its normal form ...             *)
RefRoundTrip == (Done /\ Valid(ty, val)) => (want.ok /\ want.x = Norm(ty, val))
(* ... and anything else raises one of the three exceptions: never a value  *)
RefRejects == (Done /\ ~Valid(ty, val)) => (~want.ok /\ want.exc \in Vocab)
RefDefined == Done => want.exc # "UNDEFINED" /\ pred.exc # "UNDEFINED"
(* the implementation-shaped conversions leave the reference only at the    *)
(* tagged places, and a tag alone changes nothing                           *)
RootCauses == {"float-trunc", "map-items-attr", "array-len-indexerror", "struct-extra-key", "chararray-overread"}
DevExplained == (Done /\ ~Same(want, pred)) => pred.dev \in RootCauses
NoDevOnGoodExceptOverread == (Done /\ fault = NoFault /\ ~Same(want, pred)) => pred.dev = "chararray-overread"
(* what each root cause can do *)
DevShape == (Done /\ ~Same(want, pred)) =>
   CASE pred.dev = "map-items-attr" -> ~want.ok /\ want.exc = "TypeError" /\ pred.exc = "AttributeError"
     [] pred.dev = "array-len-indexerror" -> ~want.ok /\ want.exc = "ValueError" /\ pred.exc = "IndexError"
     [] pred.dev = "struct-extra-key" -> ~want.ok /\ want.exc = "ValueError" /\ pred.ok
     [] pred.dev = "float-trunc" -> ~want.ok /\ want.exc = "TypeError"
     [] pred.dev = "chararray-overread" -> want.ok /\ pred.exc = "UB" /\ ty.t = "chararray"
     [] OTHER -> FALSE

Rc == IF Same(want, pred) THEN "" ELSE pred.dev
Publish == /\ (Dump /\ Done) =>
                PrintT("@@" \o ToJson([ty |-> ty.name, val |-> val, fault |-> fault, want |-> want, pred |-> pred, rc |-> Rc]))
           /\ (ph = "value") => PrintT("@@" \o ToJson([type |-> ty]))
=============================================================================
