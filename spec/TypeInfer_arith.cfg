INIT InitArith
NEXT NextArith
CONSTANTS
  Phase = "arith"
  MaxLimbs = 80
  MaxSteps = 0
INVARIANT ArithWellFormed
INVARIANT PublishArith
CHECK_DEADLOCK FALSE
