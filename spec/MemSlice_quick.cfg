SPECIFICATION Spec
CONSTANTS
  Inits <- InitsQ
  ChainDepth = 2
  ChainFull = FALSE
  Dump = TRUE
INVARIANT RefSound
INVARIANT RefInBuffer
INVARIANT PredInBase
INVARIANT FixedImplAgrees
INVARIANT NoUnexplained
INVARIANT HazardNecessary
INVARIANT UnellipsifyOK
INVARIANT PathsAgree
INVARIANT Publish
CHECK_DEADLOCK FALSE
