SPECIFICATION Spec
CONSTANTS
  Inits <- InitsQ
  ChainDepth = 2
  ChainFull = FALSE
  Dump = TRUE
INVARIANT RefSound
INVARIANT RefInBuffer
INVARIANT ImplAgrees
INVARIANT ObjAgrees
INVARIANT SameView
INVARIANT UnellipsifyOK
INVARIANT Publish
CHECK_DEADLOCK FALSE
