------------------------------ MODULE Complex ------------------------------
(* C08: + - * / ** abs() and conversions on C `double complex` values give  *)
(* the values of Python complex arithmetic (signed zeros, infinities, NaN   *)
(* included); division by 0+0j raises ZeroDivisionError unless cdivision.   *)
(*                                                                          *)
(* Doubles are "extended dyadic reals" (XReal): nan, +-inf, +-0 and         *)
(* s * m * 2^e with odd m < 2^15, -1074 <= e, top bit <= 1023.  Every       *)
(* operation is the IEEE-754 double operation where its result is decided   *)
(* by exact arithmetic on these (overflow to inf and half-even rounding in  *)
(* the subnormal range included) and the flag IX ("inexact / not decided")  *)
(* otherwise; IX poisons everything computed from it.                       *)
(*                                                                          *)
(* Reference  : CPython 3.12 Objects/complexobject.c  (_Py_c_sum/diff/prod, *)
(*   _Py_c_quot with its |re| >= |im| branch and errno=EDOM, _Py_c_abs,     *)
(*   complex_pow: small-integer exponents by c_powu/c_powi, zero base/zero  *)
(*   exponent of _Py_c_pow, _Py_ADJUST_ERANGE2 -> OverflowError).           *)
(* Impl-shaped: Cython/Utility/Complex.c, struct variant (CYTHON_CCOMPLEX=0)*)
(*   __Pyx_c_sum/diff/prod/quot/neg/abs(sqrt form: HAVE_HYPOT is undefined  *)
(*   on py3.12)/pow, the is_zero test of ExprNodes.DivNode; and for the     *)
(*   default C99 variant the constructor `x + y*(T)_Complex_I`              *)
(*   (Declarations: T_from_parts) used by every conversion into the type.   *)
(*   C99 `* /`, cabs, cpow are not modelled (compiler/libm; replayed only). *)
(*                                                                          *)
(* One state per (op, fixed components); the state carries the row of cells *)
(* over the last component: demand, struct model, C99-constructor model,    *)
(* code path taken by the model.  Rows are published for replay (B1).       *)
EXTENDS Integers, Sequences, TLC, Json, FiniteSets

CONSTANTS GridSel,  \* "q" (quick) or "t" (thorough) component grid
          Ops,      \* operations explored in this run
          Dump

MaxM == 32768
Abs(x) == IF x < 0 THEN -x ELSE x
Min(a, b) == IF a < b THEN a ELSE b
RECURSIVE BitLen(_)
BitLen(n) == IF n = 0 THEN 0 ELSE 1 + BitLen(n \div 2)
RECURSIVE TZ(_)
TZ(n) == IF n % 2 = 1 THEN 0 ELSE 1 + TZ(n \div 2)       \* n > 0

---------------------------------------------------------------------------
(* XReal *)
NaN == [k |-> "nan", s |-> 1, m |-> 0, e |-> 0]
IX  == [k |-> "ix", s |-> 1, m |-> 0, e |-> 0]
Inf(s) == [k |-> "inf", s |-> s, m |-> 0, e |-> 0]
Zero(s) == [k |-> "fin", s |-> s, m |-> 0, e |-> 0]
Fin(s, m, e) == [k |-> "fin", s |-> s, m |-> m, e |-> e]
One == Fin(1, 1, 0)
PZ == Zero(1)
IsIx(x) == x.k = "ix"
IsNan(x) == x.k = "nan"
IsInf(x) == x.k = "inf"
IsFin(x) == x.k = "fin"
IsZero(x) == x.k = "fin" /\ x.m = 0
Top(x) == x.e + BitLen(x.m) - 1                 \* exponent of the leading bit (x finite, non-zero)

\* the double nearest to s * m * 2^e (m < 2^30 any natural), or IX when the mantissa leaves the modelled range
Round(s, m, e) ==
  IF m = 0 THEN Zero(s)
  ELSE LET z == TZ(m)  m1 == m \div (2 ^ z)  e1 == e + z  bl == BitLen(m1) IN
       IF e1 + bl - 1 > 1023 THEN Inf(s)                                  \* >= 2^1024 rounds to infinity
       ELSE IF e1 < -1074 THEN
            LET k == -1074 - e1 IN
            IF k > bl THEN Zero(s)                                         \* below half of the least subnormal
            ELSE LET p == 2 ^ k  q == m1 \div p  r == m1 % p  half == p \div 2
                     q2 == IF r > half \/ (r = half /\ q % 2 = 1) THEN q + 1 ELSE q
                 IN IF q2 = 0 THEN Zero(s) ELSE Fin(s, q2 \div (2 ^ TZ(q2)), -1074 + TZ(q2))
       ELSE IF m1 >= MaxM THEN IX ELSE Fin(s, m1, e1)

Neg(x) == IF x.k \in {"nan", "ix"} THEN x ELSE [x EXCEPT !.s = -x.s]
Fabs(x) == IF x.k \in {"nan", "ix"} THEN x ELSE [x EXCEPT !.s = 1]

Add(x, y) ==
  IF IsNan(x) \/ IsNan(y) THEN NaN
  ELSE IF IsIx(x) \/ IsIx(y) THEN IX
  ELSE IF IsInf(x) THEN (IF IsInf(y) /\ y.s # x.s THEN NaN ELSE x)
  ELSE IF IsInf(y) THEN y
  ELSE IF x.m = 0 /\ y.m = 0 THEN Zero(IF x.s = -1 /\ y.s = -1 THEN -1 ELSE 1)
  ELSE IF x.m = 0 THEN y
  ELSE IF y.m = 0 THEN x
  ELSE LET hi == IF x.e >= y.e THEN x ELSE y
           lo == IF x.e >= y.e THEN y ELSE x
           d == hi.e - lo.e
       IN IF d <= 14
          THEN LET v == hi.s * hi.m * (2 ^ d) + lo.s * lo.m
               IN IF v = 0 THEN PZ ELSE Round(IF v < 0 THEN -1 ELSE 1, Abs(v), lo.e)
          ELSE IF Top(hi) - Top(lo) >= 55 THEN hi       \* |lo| < ulp(hi)/4: absorbed
          ELSE IX
Sub(x, y) == Add(x, Neg(y))

Mul(x, y) ==
  IF IsNan(x) \/ IsNan(y) THEN NaN
  ELSE IF IsIx(x) \/ IsIx(y) THEN IX
  ELSE IF IsInf(x) \/ IsInf(y) THEN (IF IsZero(x) \/ IsZero(y) THEN NaN ELSE Inf(x.s * y.s))
  ELSE Round(x.s * y.s, x.m * y.m, x.e + y.e)

Div(x, y) ==
  IF IsNan(x) \/ IsNan(y) THEN NaN
  ELSE IF IsIx(x) \/ IsIx(y) THEN IX
  ELSE IF IsInf(x) THEN (IF IsInf(y) THEN NaN ELSE Inf(x.s * y.s))
  ELSE IF IsInf(y) THEN Zero(x.s * y.s)
  ELSE IF y.m = 0 THEN (IF x.m = 0 THEN NaN ELSE Inf(x.s * y.s))
  ELSE IF x.m = 0 THEN Zero(x.s * y.s)
  ELSE IF x.m % y.m = 0 THEN Round(x.s * y.s, x.m \div y.m, x.e - y.e)
  ELSE IX

Sqrt(x) ==
  IF IsNan(x) \/ IsIx(x) THEN x
  ELSE IF IsZero(x) THEN x
  ELSE IF x.s < 0 THEN NaN
  ELSE IF IsInf(x) THEN x
  ELSE IF x.e % 2 = 0 /\ \E r \in 1..181 : r * r = x.m
       THEN Fin(1, CHOOSE r \in 1..181 : r * r = x.m, x.e \div 2)
       ELSE IX

\* -1 / 0 / 1 ordered, 2 unordered (a NaN), 3 not decided
MagCmp(x, y) ==
  LET tx == Top(x)  ty == Top(y) IN
  IF tx # ty THEN (IF tx < ty THEN -1 ELSE 1)
  ELSE LET em == Min(x.e, y.e)  ax == x.m * (2 ^ (x.e - em))  ay == y.m * (2 ^ (y.e - em))
       IN IF ax < ay THEN -1 ELSE IF ax = ay THEN 0 ELSE 1
Cmp(x, y) ==
  IF IsNan(x) \/ IsNan(y) THEN 2
  ELSE IF IsIx(x) \/ IsIx(y) THEN 3
  ELSE IF IsInf(x) THEN (IF IsInf(y) THEN (IF x.s = y.s THEN 0 ELSE x.s) ELSE x.s)
  ELSE IF IsInf(y) THEN -y.s
  ELSE IF x.m = 0 /\ y.m = 0 THEN 0
  ELSE IF x.m = 0 THEN -y.s
  ELSE IF y.m = 0 THEN x.s
  ELSE IF x.s # y.s THEN x.s
  ELSE x.s * MagCmp(x, y)
EqF(x, y) == Cmp(x, y) = 0
LtF(x, y) == Cmp(x, y) = -1
GeF(x, y) == Cmp(x, y) \in {0, 1}
NeF(x, y) == Cmp(x, y) \in {-1, 1, 2}          \* C `!=` is true for unordered operands
AnyIx(z) == IsIx(z[1]) \/ IsIx(z[2])
IXIX == <<IX, IX>>

\* exact hypot of two finite non-zero values when the sum of squares is a perfect square (3,4,5 ...)
Hypot(x, y) ==
  IF IsZero(x) THEN Fabs(y) ELSE IF IsZero(y) THEN Fabs(x)
  ELSE LET hi == IF x.e >= y.e THEN x ELSE y
           lo == IF x.e >= y.e THEN y ELSE x
           d == hi.e - lo.e
       IN IF hi.m <= 31 /\ lo.m <= 31 /\ d <= 6
          THEN LET v == hi.m * hi.m * (2 ^ (2 * d)) + lo.m * lo.m
               IN IF \E r \in 1..2100 : r * r = v THEN Round(1, CHOOSE r \in 1..2100 : r * r = v, lo.e) ELSE IX
          ELSE IX

---------------------------------------------------------------------------
(* Reference: CPython 3.12 complexobject.c.  Complex values are <<re, im>>. *)
PyAdd(a, b) == <<Add(a[1], b[1]), Add(a[2], b[2])>>
PySub(a, b) == <<Sub(a[1], b[1]), Sub(a[2], b[2])>>
PyNeg(a) == <<Neg(a[1]), Neg(a[2])>>
PyMul(a, b) == <<Sub(Mul(a[1], b[1]), Mul(a[2], b[2])), Add(Mul(a[1], b[2]), Mul(a[2], b[1]))>>

\* _Py_c_quot: [z, edom]
PyQuotE(a, b) ==
  LET br == b[1]  bi == b[2]
      abr == IF LtF(br, PZ) THEN Neg(br) ELSE br
      abi == IF LtF(bi, PZ) THEN Neg(bi) ELSE bi
  IN IF AnyIx(b) THEN [z |-> IXIX, edom |-> FALSE]
     ELSE IF GeF(abr, abi)
          THEN IF EqF(abr, PZ) THEN [z |-> <<PZ, PZ>>, edom |-> TRUE]
               ELSE LET ratio == Div(bi, br)  denom == Add(br, Mul(bi, ratio))
                    IN [z |-> <<Div(Add(a[1], Mul(a[2], ratio)), denom), Div(Sub(a[2], Mul(a[1], ratio)), denom)>>, edom |-> FALSE]
     ELSE IF GeF(abi, abr)
          THEN LET ratio == Div(br, bi)  denom == Add(Mul(br, ratio), bi)
               IN [z |-> <<Div(Add(Mul(a[1], ratio), a[2]), denom), Div(Sub(Mul(a[2], ratio), a[1]), denom)>>, edom |-> FALSE]
     ELSE [z |-> <<NaN, NaN>>, edom |-> FALSE]

\* results of the Python-level operation: a complex/float value or an exception
Val(z) == [t |-> "v", z |-> z, exc |-> ""]
Exc(n) == [t |-> "e", z |-> <<NaN, NaN>>, exc |-> n]
PyDiv(a, b) == LET q == PyQuotE(a, b) IN IF q.edom THEN Exc("ZDE") ELSE Val(q.z)

\* complex_abs / _Py_c_abs
PyAbs(a) ==
  IF AnyIx(a) THEN Val(<<IX, PZ>>)
  ELSE IF ~IsFin(a[1]) \/ ~IsFin(a[2])
       THEN Val(<<IF IsInf(a[1]) \/ IsInf(a[2]) THEN Inf(1) ELSE NaN, PZ>>)
       ELSE LET h == Hypot(a[1], a[2]) IN IF IsInf(h) THEN Exc("OVF") ELSE Val(<<h, PZ>>)

\* c_powu / c_powi / complex_pow
RECURSIVE PowULoop(_, _, _, _)
PowULoop(r, p, n, mask) ==
  IF n < mask THEN r
  ELSE PowULoop(IF (n \div mask) % 2 = 1 THEN PyMul(r, p) ELSE r, PyMul(p, p), n, 2 * mask)
PowU(x, n) == PowULoop(<<One, PZ>>, x, n, 1)
IsSmallInt(x, lim) == IsFin(x) /\ (x.m = 0 \/ (x.e >= 0 /\ x.e <= 30 /\ Top(x) <= 30 /\ x.m * (2 ^ x.e) <= lim))
IntVal(x) == IF x.m = 0 THEN 0 ELSE x.s * x.m * (2 ^ x.e)
PyPow(a, b) ==
  LET br == b[1]  bi == b[2]
      r == IF EqF(bi, PZ) /\ IsSmallInt(br, 100)
           THEN LET n == IntVal(br) IN
                IF n > 0 THEN [z |-> PowU(a, n), edom |-> FALSE] ELSE PyQuotE(<<One, PZ>>, PowU(a, -n))
           ELSE IF EqF(br, PZ) /\ EqF(bi, PZ) THEN [z |-> <<One, PZ>>, edom |-> FALSE]
           ELSE IF EqF(a[1], PZ) /\ EqF(a[2], PZ) THEN [z |-> <<PZ, PZ>>, edom |-> NeF(bi, PZ) \/ LtF(br, PZ)]
           ELSE [z |-> IXIX, edom |-> FALSE]          \* hypot/pow/atan2/exp/log/sin/cos: not decided
  IN IF r.edom THEN Exc("ZDE")
     ELSE IF IsInf(r.z[1]) \/ IsInf(r.z[2]) THEN Exc("OVF")        \* _Py_ADJUST_ERANGE2
     ELSE IF AnyIx(r.z) THEN Val(IXIX)                             \* the undecided part may be an infinity
     ELSE Val(r.z)

---------------------------------------------------------------------------
(* Implementation-shaped: Utility/Complex.c, struct variant.  [z, path] *)
CySum(a, b) == <<Add(a[1], b[1]), Add(a[2], b[2])>>
CyDiff(a, b) == <<Sub(a[1], b[1]), Sub(a[2], b[2])>>
CyNeg(a) == <<Neg(a[1]), Neg(a[2])>>
CyProd(a, b) == <<Sub(Mul(a[1], b[1]), Mul(a[2], b[2])), Add(Mul(a[1], b[2]), Mul(a[2], b[1]))>>
CyIsZero(b) == EqF(b[1], PZ) /\ EqF(b[2], PZ)

CyQuot(a, b) ==
  LET ar == a[1]  ai == a[2]  br == b[1]  bi == b[2] IN
  IF AnyIx(b) THEN [z |-> IXIX, path |-> "quot:ix"]
  ELSE IF EqF(bi, PZ) THEN [z |-> <<Div(ar, br), Div(ai, br)>>, path |-> "quot:bimag0"]
  ELSE IF GeF(Fabs(br), Fabs(bi))
       THEN IF EqF(br, PZ) /\ EqF(bi, PZ) THEN [z |-> <<Div(ar, br), Div(ai, bi)>>, path |-> "quot:dead"]
            ELSE LET r == Div(bi, br)  s == Div(One, Add(br, Mul(bi, r)))
                 IN [z |-> <<Mul(Add(ar, Mul(ai, r)), s), Mul(Sub(ai, Mul(ar, r)), s)>>, path |-> "quot:re>=im"]
       ELSE LET r == Div(br, bi)  s == Div(One, Add(bi, Mul(br, r)))
            IN [z |-> <<Mul(Add(Mul(ar, r), ai), s), Mul(Sub(Mul(ai, r), ar), s)>>, path |-> "quot:im>re"]

\* DivNode.generate_div_warning_code: the is_zero test in front of the helper, unless cdivision
CyDiv(a, b, cdiv) ==
  IF ~cdiv /\ CyIsZero(b) THEN [r |-> Exc("ZDE"), path |-> "div:zerotest"]
  ELSE LET q == CyQuot(a, b) IN [r |-> Val(q.z), path |-> q.path]

CyAbs(a) == [r |-> Val(<<Sqrt(Add(Mul(a[1], a[1]), Mul(a[2], a[2]))), PZ>>), path |-> "abs:sqrt"]

\* `b.real == (int)b.real`: decided for finite values below 2^31 (beyond: the cast is undefined in C;
\* x86 yields INT_MIN, unequal to every grid value)
CyPow(a, b) ==
  LET br == b[1]  bi == b[2]
      isint == EqF(bi, PZ) /\ IsSmallInt(br, 2147483647)
      n0 == IF isint THEN IntVal(br) ELSE 0
      denom == Add(Mul(a[1], a[1]), Mul(a[2], a[2]))
      a1 == IF isint /\ n0 < 0 THEN <<Div(a[1], denom), Div(Neg(a[2]), denom)>> ELSE a
      n == Abs(n0)
      sgn == IF n0 < 0 THEN "neg" ELSE "pos"
      General == IF AnyIx(a1) THEN [z |-> IXIX, path |-> "pow:general"]
                 ELSE IF EqF(a1[2], PZ) /\ EqF(a1[1], PZ) THEN [z |-> a1, path |-> "pow:zerobase"]
                 ELSE [z |-> IXIX, path |-> "pow:general"]
      q == IF isint /\ n = 0 THEN [z |-> <<One, PZ>>, path |-> "pow:int0"]
           ELSE IF isint /\ n = 1 THEN [z |-> a1, path |-> "pow:int1" \o sgn]
           ELSE IF isint /\ n = 2 THEN [z |-> CyProd(a1, a1), path |-> "pow:int2" \o sgn]
           ELSE IF isint /\ n = 3 THEN [z |-> CyProd(CyProd(a1, a1), a1), path |-> "pow:int3" \o sgn]
           ELSE IF isint /\ n = 4 THEN [z |-> LET z2 == CyProd(a1, a1) IN CyProd(z2, z2), path |-> "pow:int4" \o sgn]
           ELSE General
  IN [r |-> Val(q.z), path |-> q.path]

\* default C99 variant: T_from_parts(x, y) = x + y*(T)_Complex_I, i.e. real + (real * (0 + 1i)):
\* gcc multiplies both parts of I by y and adds x to the real part only
CCFromParts(x, y) == <<Add(x, Mul(y, PZ)), Mul(y, One)>>

---------------------------------------------------------------------------
(* grids *)
H == Fin(1, 1, 1023)            \* "huge": 2^1023
T == Fin(1, 1, -1074)           \* "tiny": least subnormal
F(m, e) == {Fin(1, m, e), Fin(-1, m, e)}
Special == {NaN, Inf(1), Inf(-1), Zero(1), Zero(-1)}
Gq == Special \cup F(1, 0) \cup F(1, 1) \cup {H, T}
Gt == Special \cup F(1, 0) \cup F(1, 1) \cup F(1, -1) \cup F(3, 0) \cup F(1, 1023) \cup F(1, -1074)
G == IF GridSel = "q" THEN Gq ELSE Gt
\* unary operations and conversions: always the wide grid
GU == Gt \cup F(1, 2) \cup F(5, 0) \cup F(3, 2) \cup F(1, 970) \cup F(1, 512) \cup F(1, -537) \cup F(3, -1074) \cup {Fin(1, 32767, 1009)}
\* exponents of **
PowRe == Special \cup F(1, 0) \cup F(1, 1) \cup F(3, 0) \cup F(1, 2) \cup F(5, 0) \cup F(1, -1) \cup {H}
         \cup (IF GridSel = "q" THEN {} ELSE F(25, 2) \cup F(101, 0) \cup F(7, 0) \cup {T})
PowIm == {Zero(1), Zero(-1), One, NaN} \cup (IF GridSel = "q" THEN {} ELSE {T, Inf(1)})

Binary == {"add", "sub", "mul", "div", "cdiv", "pow"}
Unary == {"neg", "abs", "conv", "fromreal"}

FmtF(x) == CASE x.k = "nan" -> "nan"
             [] x.k = "ix" -> "?"
             [] x.k = "inf" -> IF x.s > 0 THEN "inf" ELSE "-inf"
             [] OTHER -> (IF x.s < 0 THEN "-" ELSE "") \o (IF x.m = 0 THEN "0" ELSE ToString(x.m) \o "p" \o ToString(x.e))
FmtC(z) == FmtF(z[1]) \o "," \o FmtF(z[2])
FmtR(r) == IF r.t = "e" THEN r.exc ELSE FmtC(r.z)

\* what the property demands.  Python's OverflowError (abs, **) and its ZeroDivisionError for
\* 0 ** (negative or complex) are not values: no demand ("none:<exc>"); so is b = 0 under cdivision.
Demand(op, a, b) ==
  CASE op = "add" -> Val(PyAdd(a, b))
    [] op = "sub" -> Val(PySub(a, b))
    [] op = "mul" -> Val(PyMul(a, b))
    [] op = "div" -> PyDiv(a, b)
    [] op = "cdiv" -> LET r == PyDiv(a, b) IN IF r.t = "e" THEN Exc("none:ZDE") ELSE r
    [] op = "pow" -> LET r == PyPow(a, b) IN IF r.t = "e" THEN Exc("none:" \o r.exc) ELSE r
    [] op = "neg" -> Val(PyNeg(a))
    [] op = "abs" -> LET r == PyAbs(a) IN IF r.t = "e" THEN Exc("none:" \o r.exc) ELSE r
    [] op = "conv" -> Val(a)
    [] op = "fromreal" -> Val(<<a[1], PZ>>)

Struct(op, a, b) ==
  CASE op = "add" -> [r |-> Val(CySum(a, b)), path |-> "sum"]
    [] op = "sub" -> [r |-> Val(CyDiff(a, b)), path |-> "diff"]
    [] op = "mul" -> [r |-> Val(CyProd(a, b)), path |-> "prod"]
    [] op = "div" -> CyDiv(a, b, FALSE)
    [] op = "cdiv" -> CyDiv(a, b, TRUE)
    [] op = "pow" -> CyPow(a, b)
    [] op = "neg" -> [r |-> Val(CyNeg(a)), path |-> "neg"]
    [] op = "abs" -> CyAbs(a)
    [] op = "conv" -> [r |-> Val(a), path |-> "parts"]
    [] op = "fromreal" -> [r |-> Val(<<a[1], PZ>>), path |-> "parts"]

\* C99 variant: only what Cython's own code does (the constructor); "-" = not modelled
CC(op, a, b) ==
  CASE op = "conv" -> FmtC(CCFromParts(a[1], a[2]))
    [] op = "fromreal" -> FmtC(CCFromParts(a[1], PZ))
    [] OTHER -> "-"

Cell(o, a, b) ==
  LET d == Demand(o, a, b)  s == Struct(o, a, b)
  IN [d |-> FmtR(d), m |-> FmtR(s.r), p |-> s.path, c |-> CC(o, a, b),
      dx |-> d.t = "e" \/ ~AnyIx(d.z), mx |-> s.r.t = "e" \/ ~AnyIx(s.r.z), nd |-> (d.t = "e" /\ d.exc # "ZDE")]

---------------------------------------------------------------------------
VARIABLES op, fx, row
vars == <<op, fx, row>>

LastDom(o) == IF o = "pow" THEN PowIm ELSE IF o \in Binary THEN G ELSE IF o = "fromreal" THEN {PZ} ELSE GU
MkRow(o, f) == IF o \in Binary THEN [y \in LastDom(o) |-> Cell(o, <<f[1], f[2]>>, <<f[3], y>>)]
               ELSE [y \in LastDom(o) |-> Cell(o, <<f[1], y>>, <<PZ, PZ>>)]
NoRow == [y \in {} |-> 0]

Init == /\ op \in Ops
        /\ fx \in IF op = "pow" THEN G \X G \X PowRe
                  ELSE IF op \in Binary THEN G \X G \X G
                  ELSE GU \X {PZ} \X {PZ}
        /\ row = NoRow
Eval == /\ row = NoRow
        /\ row' = MkRow(op, fx)
        /\ UNCHANGED <<op, fx>>
Done == /\ row # NoRow
        /\ UNCHANGED vars
Next == Eval \/ Done
Spec == Init /\ [][Next]_vars

Ys == DOMAIN row

(* the helpers that are plain component formulas agree with the reference everywhere *)
PlainAgree == op \in {"add", "sub", "mul", "neg"} => \A y \in Ys : row[y].m = row[y].d
(* ZeroDivisionError is raised exactly where Python raises it *)
ZeroDivAgree == op = "div" => \A y \in Ys : (row[y].d = "ZDE") <=> (row[y].m = "ZDE")
(* on moderate operands (+-1, +-2, +-1/2, +-3: no zero, no special, no huge/tiny) a decided model result is the demanded one *)
Moderate(x) == IsFin(x) /\ x.m # 0 /\ x.e >= -1 /\ x.e <= 1
ModerateAgree == (op \in {"div", "cdiv"} /\ \A i \in 1..3 : Moderate(fx[i])) =>
                   \A y \in Ys : (Moderate(y) /\ row[y].mx /\ row[y].dx) => row[y].m = row[y].d
(* integer powers 0..4 of moderate bases: repeated products in both, same value *)
PowIntAgree == (op = "pow" /\ Moderate(fx[1]) /\ Moderate(fx[2]) /\ IsSmallInt(fx[3], 4) /\ GeF(fx[3], PZ)) =>
                   \A y \in Ys : IsZero(y) => row[y].m = row[y].d
(* abs of a value with one zero component and a mid-range other one *)
Mid(x) == IsFin(x) /\ (x.m = 0 \/ (Top(x) < 500 /\ x.e > -500))
AbsAgree == op = "abs" => \A y \in Ys : ((IsZero(y) /\ Mid(fx[1])) \/ (IsZero(fx[1]) /\ Mid(y))) => row[y].m = row[y].d
(* the C99 constructor keeps every value whose imaginary part is finite and whose real part is not -0 *)
ConvAgree == op = "conv" => \A y \in Ys : (IsFin(y) /\ ~(IsZero(fx[1]) /\ fx[1].s = -1)) => row[y].c = row[y].d
(* struct conversions are exact *)
StructConvAgree == op \in {"conv", "fromreal"} => \A y \in Ys : row[y].m = row[y].d

(* NOT an invariant of the unchanged tree: the strict configuration must fail (TLC finds the deviations itself) *)
StructAgreesEverywhere == \A y \in Ys : (row[y].dx /\ row[y].mx /\ ~row[y].nd) => row[y].m = row[y].d
ConvAgreesEverywhere == op = "conv" => \A y \in Ys : row[y].c = row[y].d

Publish == (Dump /\ row # NoRow) =>
             PrintT("@@" \o ToJson([op |-> op, f |-> <<FmtF(fx[1]), FmtF(fx[2]), FmtF(fx[3])>>,
                                    cells |-> {[y |-> FmtF(y), c |-> row[y]] : y \in Ys}]))
=============================================================================
