----------------------------- MODULE RangeLoop -----------------------------
(* C14 (a): for-loops over range() with a C-typed target.                      *)
(*  Reference  : Python's range(start, stop, step) / reversed(range(...)),      *)
(*               validated declaratively (RefSound), and the observation of    *)
(*               the loop template  "n-th iteration: continue if n = ck; log;   *)
(*               break if n = bk; else: ...":  <<visited, final value of the    *)
(*               target (Sent if the loop never assigns it), else-clause ran>>. *)
(*  Impl-shaped: the C `for` statement that Optimize.IterationTransform        *)
(*               (_transform_range_iteration, _build_range_step_calculation)   *)
(*               and Nodes.ForFromStatNode.generate_execution_code emit for a  *)
(*               target of C type T with run-time bounds of that type,         *)
(*               simulated with two's complement wrap-around and an explicit   *)
(*               record of every wrap event (cause + kind).                    *)
(* A type is [w, s, pw, bw]: width and signedness of the target, width of the   *)
(* type C evaluates loop arithmetic in (pw > w: promoted to a signed `int`; the *)
(* real signed/unsigned char are (8, 24): TLC integers are 32-bit, any pw that  *)
(* holds all intermediate values behaves like 32), and bw > 0: width of the     *)
(* signed type of the bounds when they are Python objects / Py_ssize_t rather    *)
(* than T (0: bounds of type T): the bound temporaries keep that type, so the   *)
(* reversed bound, the start expression and the limit are evaluated in it and   *)
(* only the store into the loop variable converts to T.                         *)
(* (w, w, 0) is the scaled image of int / long / Py_ssize_t / unsigned int.     *)
(* One state per (type, form, step, start); the invariants quantify over every  *)
(* stop and body, and the state's row (range length and hazard description per  *)
(* stop) is published for the binding.                                          *)
EXTENDS Integers, Sequences, TLC, Json, FiniteSets

CONSTANTS Types, Steps, GridOnly, Dump

Sent == 99

TScaled5 == {[w |-> 5, s |-> TRUE, pw |-> 5, bw |-> 0], [w |-> 5, s |-> FALSE, pw |-> 5, bw |-> 0],
             [w |-> 5, s |-> TRUE, pw |-> 5, bw |-> 10], [w |-> 5, s |-> FALSE, pw |-> 5, bw |-> 10]}
TScaled6 == {[w |-> 6, s |-> TRUE, pw |-> 6, bw |-> 0], [w |-> 6, s |-> FALSE, pw |-> 6, bw |-> 0],
             [w |-> 6, s |-> TRUE, pw |-> 6, bw |-> 12], [w |-> 6, s |-> FALSE, pw |-> 6, bw |-> 12]}
TScaled8 == {[w |-> 8, s |-> TRUE, pw |-> 8, bw |-> 0], [w |-> 8, s |-> FALSE, pw |-> 8, bw |-> 0],
             [w |-> 8, s |-> TRUE, pw |-> 8, bw |-> 16], [w |-> 8, s |-> FALSE, pw |-> 8, bw |-> 16]}
TChar    == {[w |-> 8, s |-> TRUE, pw |-> 24, bw |-> 0], [w |-> 8, s |-> FALSE, pw |-> 24, bw |-> 0]}
TAll8    == TScaled8 \cup TChar
StepsStd == {-3, -2, -1, 1, 2, 3}
StepsBig == {-3, -2, 2, 3}

Pow2(n) == 2 ^ n
MinOf(t) == IF t.s THEN -Pow2(t.w - 1) ELSE 0
MaxOf(t) == IF t.s THEN Pow2(t.w - 1) - 1 ELSE Pow2(t.w) - 1
InR(w, s, v) == IF s THEN v >= -Pow2(w - 1) /\ v < Pow2(w - 1) ELSE v >= 0 /\ v < Pow2(w)
Wrap(w, s, v) == LET m == Pow2(w) r == ((v % m) + m) % m IN IF s /\ r >= Pow2(w - 1) THEN r - m ELSE r
Abs(x) == IF x < 0 THEN -x ELSE x
FloorDiv(x, k) == IF x >= 0 THEN x \div k ELSE -((-x + k - 1) \div k)     \* k > 0

\* bodies: break at the bk-th iteration (0: never), continue at the ck-th
Bodies == {[bk |-> 0, ck |-> 0], [bk |-> 1, ck |-> 0], [bk |-> 2, ck |-> 0], [bk |-> 3, ck |-> 0],
           [bk |-> 0, ck |-> 1], [bk |-> 0, ck |-> 2], [bk |-> 2, ck |-> 1], [bk |-> 2, ck |-> 2]}

---------------------------------------------------------------------------
(* reference *)
RangeLen(a, b, s) == IF s > 0 THEN (IF a < b THEN (b - a - 1) \div s + 1 ELSE 0)
                              ELSE (IF a > b THEN (a - b - 1) \div (-s) + 1 ELSE 0)
RefSeq(form, a, b, s) == LET n == RangeLen(a, b, s)
                         IN [j \in 1..n |-> IF form = "fwd" THEN a + (j - 1) * s ELSE a + (n - j) * s]
\* declarative: the members of range(a, b, s) are exactly the a + i*s (i >= 0) before b
InRange(x, a, b, s) == /\ (x - a) % Abs(s) = 0
                       /\ IF s > 0 THEN a <= x /\ x < b ELSE b < x /\ x <= a

\* iterations executed, and the observation of the loop template over a sequence
Broke(seq, body) == body.bk > 0 /\ body.bk <= Len(seq) /\ body.bk # body.ck
NExec(seq, body) == IF Broke(seq, body) THEN body.bk ELSE Len(seq)
Obs(seq, body) == LET m == NExec(seq, body)
                      skip == body.ck > 0 /\ body.ck <= m
                  IN [vis |-> [j \in 1..(IF skip THEN m - 1 ELSE m) |-> seq[IF skip /\ j >= body.ck THEN j + 1 ELSE j]],
                      fin |-> IF m = 0 THEN Sent ELSE seq[m],
                      els |-> ~Broke(seq, body)]

---------------------------------------------------------------------------
(* implementation-shaped.  Every C operation of the generated loop is checked *)
(* for leaving its type: kind 1: unsigned wrap-around, 2: signed overflow     *)
(* (undefined behaviour in C), 3: value-changing store into the target type.  *)
(* The walk stops at the first such event (cause = where it happened).        *)
AT(t) == IF t.pw > t.w THEN [w |-> t.pw, s |-> TRUE] ELSE [w |-> t.w, s |-> t.s]
BT(t) == IF t.bw > 0 THEN [w |-> t.bw, s |-> TRUE] ELSE AT(t)      \* type of expressions over the bounds
Chk(at, v) == IF InR(at.w, at.s, v) THEN 0 ELSE IF at.s THEN 2 ELSE 1
ChkSt(t, v) == IF InR(t.w, t.s, v) THEN 0 ELSE 3
FirstEv(cause, kinds) == LET bad == SelectSeq(kinds, LAMBDA k : k # 0)
                         IN IF bad = <<>> THEN <<>> ELSE <<cause, bad[1]>>
OrEv(e1, e2) == IF e1 # <<>> THEN e1 ELSE e2

Dec(form, s) == IF form = "fwd" THEN s < 0 ELSE s > 0
\* ForFromStatNode: unsigned target and a '>' / '>=' relation: the loop variable runs `step` ahead
Special(t, form, s) == ~t.s /\ Dec(form, s)

\* _build_range_step_calculation: the bound from which the reversed loop starts:
\*   s > 0:  a + k * ((b - a - 1) // k) + 1        s < 0:  a - k * ((a - b - 1) // k) - 1
\* evaluated left to right in the bound type (bounds of type T: then cast to T).
\* (signed types divide with __Pyx_div_T = floor, unsigned ones with C `/`; equal while nothing wrapped)
RevBound(t, a, b, s) ==
  LET k == Abs(s) B == BT(t) IN
  IF k = 1 THEN [v |-> b, ev |-> <<>>]
  ELSE LET sg == IF s > 0 THEN 1 ELSE -1
           x1 == sg * (b - a)   x2 == x1 - 1
           m  == k * FloorDiv(x2, k)
           y1 == a + sg * m     y2 == y1 + sg
       IN [v |-> y2, ev |-> FirstEv("calc", <<Chk(B, x1), Chk(B, x2), Chk(B, m), Chk(B, y1), Chk(B, y2),
                                                IF t.bw > 0 THEN 0 ELSE ChkSt(t, y2)>>)]

LoopInit(t, form, a, b, s) ==
  LET k == Abs(s) A == BT(t) IN
  IF form = "fwd" THEN
     IF Special(t, form, s) THEN [v |-> a + k, ev |-> FirstEv("init", <<Chk(A, a + k), ChkSt(t, a + k)>>)]
     ELSE [v |-> a, ev |-> <<>>]
  ELSE LET b1 == RevBound(t, a, b, s)
           o  == b1.v + (IF Dec(form, s) THEN -1 ELSE 1)
           p  == IF Special(t, form, s) THEN o + k ELSE o
       IN [v |-> p, ev |-> OrEv(b1.ev, FirstEv("init", <<Chk(A, o), Chk(A, p), ChkSt(t, p)>>))]
LoopLimit(t, form, a, b, s) ==
  LET b2 == IF form = "fwd" THEN b ELSE a IN
  IF Special(t, form, s) THEN [v |-> b2 + Abs(s), ev |-> FirstEv("bound", <<Chk(BT(t), b2 + Abs(s))>>)]
  ELSE [v |-> b2, ev |-> <<>>]
\* j-th element of the reference sequence of n elements
RefElem(form, a, s, n, j) == IF form = "fwd" THEN a + (j - 1) * s ELSE a + (n - j) * s

\* The loop proper.  c: constants of the loop (relation, signed increment d, bounds of the
\* arithmetic type and of the target type, limit, reference sequence as r0 + j * rd);
\* tv: loop variable, j: iterations done.  Result: m = iterations before the first event or
\* the natural end, ev = the event (<<>>: natural end), ok = every iteration saw the
\* reference's element (a walk that leaves the reference stops at once).
LoopConsts(t, form, a, s, n, lim) ==
  LET A == AT(t) IN
  [sp |-> Special(t, form, s), d |-> IF Dec(form, s) THEN -Abs(s) ELSE Abs(s),
   rel |-> IF form = "fwd" THEN (IF s < 0 THEN ">" ELSE "<") ELSE (IF s > 0 THEN ">=" ELSE "<="),
   alo |-> IF A.s THEN -Pow2(A.w - 1) ELSE 0, ahi |-> IF A.s THEN Pow2(A.w - 1) - 1 ELSE Pow2(A.w) - 1, akind |-> IF A.s THEN 2 ELSE 1,
   tlo |-> MinOf(t), thi |-> MaxOf(t), lim |-> lim, n |-> n,
   r0 |-> RefElem(form, a, s, n, 0), rd |-> IF form = "fwd" THEN s ELSE -s]
CondC(c, tv) == IF c.rel = "<" THEN tv < c.lim ELSE IF c.rel = ">" THEN tv > c.lim
                ELSE IF c.rel = ">=" THEN tv >= c.lim ELSE tv <= c.lim
IncEv(c, v) == IF v < c.alo \/ v > c.ahi THEN <<"inc", c.akind>>
               ELSE IF v < c.tlo \/ v > c.thi THEN <<"inc", 3>> ELSE <<>>
RECURSIVE Walk(_, _, _)
Walk(c, tv, j) ==
  IF ~CondC(c, tv) THEN [m |-> j, ev |-> <<>>, ok |-> TRUE]
  ELSE IF c.sp THEN
         \* for (t = b1 + k; t > b2 + k; ) { t -= k; body }
         LET y == tv + c.d IN
         IF IncEv(c, y) # <<>> THEN [m |-> j, ev |-> IncEv(c, y), ok |-> TRUE]
         ELSE IF j + 1 > c.n \/ y # c.r0 + (j + 1) * c.rd THEN [m |-> j + 1, ev |-> <<>>, ok |-> FALSE]
         ELSE Walk(c, y, j + 1)
       ELSE
         \* for (t = b1; t < b2; t += k) { body }
         IF j + 1 > c.n \/ tv # c.r0 + (j + 1) * c.rd THEN [m |-> j + 1, ev |-> <<>>, ok |-> FALSE]
         ELSE LET z == tv + c.d IN
              IF IncEv(c, z) # <<>> THEN [m |-> j + 1, ev |-> IncEv(c, z), ok |-> TRUE]
              ELSE Walk(c, z, j + 1)

Run(t, form, a, b, s) ==
  LET n  == RangeLen(a, b, s)
      i0 == LoopInit(t, form, a, b, s)
      lm == LoopLimit(t, form, a, b, s)
      e0 == OrEv(i0.ev, lm.ev)
  IN IF e0 # <<>> THEN [n |-> n, m |-> 0, ev |-> e0, ok |-> TRUE]
     ELSE LET r == Walk(LoopConsts(t, form, a, s, n, lm.v), i0.v, 0) IN [n |-> n, m |-> r.m, ev |-> r.ev, ok |-> r.ok]

\* a body is exposed to the event unless it breaks out before: the increment after
\* the m-th iteration (or the loop head, m = 0) is never executed by a body that breaks at k <= m
Exposed(r, body) == r.ev # <<>> /\ ~(body.bk > 0 /\ body.bk <= r.m /\ body.bk # body.ck)

---------------------------------------------------------------------------
VARIABLES ty, form, step, start, row
vars == <<ty, form, step, start, row>>

Grid(t) == {v \in {MinOf(t), MinOf(t) + 1, MinOf(t) + 2, MinOf(t) + 3, MinOf(t) + 4, MinOf(t) + 5, MinOf(t) + 7,
                     -7, -4, -3, -2, -1, 0, 1, 2, 3, 4, 5, 6, 7, 12,
                     MaxOf(t) - 7, MaxOf(t) - 5, MaxOf(t) - 4, MaxOf(t) - 3, MaxOf(t) - 2, MaxOf(t) - 1, MaxOf(t),
                     MaxOf(t) \div 2, MaxOf(t) \div 2 + 1} : v >= MinOf(t) /\ v <= MaxOf(t)}
Dom(t) == IF GridOnly THEN Grid(t) ELSE MinOf(t)..MaxOf(t)

\* the row of a case is computed by a transition (TLC evaluates initial states in one thread only)
Init == /\ ty \in Types /\ form \in {"fwd", "rev"} /\ step \in Steps /\ start \in Dom(ty)
        /\ row = <<>>
Compute == /\ row = <<>>
           /\ row' = [b \in Dom(ty) |-> Run(ty, form, start, b, step)]
           /\ UNCHANGED <<ty, form, step, start>>
Next == Compute
Spec == Init /\ [][Next]_vars
Done == row # <<>>

Stops == Dom(ty)

(* the reference sequence is the declaratively specified range, in order *)
RefSound == (Done /\ form = "fwd" /\ ty.bw = 0) => \A b \in Stops :
  LET q == RefSeq("fwd", start, b, step) r == RefSeq("rev", start, b, step) n == Len(q) IN
  /\ \A j \in 1..n : InRange(q[j], start, b, step)
  /\ Cardinality({x \in MinOf(ty)..MaxOf(ty) : InRange(x, start, b, step)}) = n      \* with the next line: q enumerates exactly the members
  /\ \A j \in 1..(n - 1) : q[j + 1] = q[j] + step
  /\ \A j \in 1..n : r[j] = q[n + 1 - j] /\ r[j] = RefElem("rev", start, step, n, j) /\ q[j] = RefElem("fwd", start, step, n, j)
  /\ (n > 0 => q[1] = start)

(* template facts: else iff no break; final value = value of the last executed *)
(* iteration, untouched when there was none; everything visited was iterated   *)
BodySound == (Done /\ ty.bw = 0) => \A b \in {x \in Stops : RangeLen(start, x, step) <= 6} : \A body \in Bodies :
  LET q == RefSeq(form, start, b, step) o == Obs(q, body) IN
  /\ o.els = ~(body.bk > 0 /\ body.bk <= Len(q) /\ body.bk # body.ck)
  /\ (Len(q) = 0 => o.fin = Sent /\ o.vis = <<>> /\ o.els)
  /\ (Len(q) > 0 /\ o.els => o.fin = q[Len(q)])
  /\ Len(o.vis) <= Len(q)
  /\ \A j \in 1..Len(o.vis) : InRange(o.vis[j], start, b, step)

(* the property on the model: the simulated C loop follows the reference      *)
(* exactly up to its first wrap event, and ends where the reference ends when *)
(* there is none (all values fit T on that path by construction) ...          *)
ImplFollowsRef == Done => \A b \in Stops : row[b].ok /\ row[b].m <= row[b].n /\ (row[b].ev = <<>> => row[b].m = row[b].n)
(* ... hence a body that is not exposed to the event observes what the reference observes *)
ImplAgreesOffHazards == Done => \A b \in {x \in Stops : row[x].ev # <<>>} : \A body \in Bodies :
  LET r == row[b] q == RefSeq(form, start, b, step) IN
  ~Exposed(r, body) => Obs(SubSeq(q, 1, IF r.ev = <<>> THEN r.n ELSE r.m), body) = Obs(q, body)

(* and the hazards are confined to the shapes the C code suggests *)
HazardShape == Done => \A b \in Stops :
  LET r == row[b] IN
  r.ev # <<>> =>
    \/ r.ev[1] = "inc" /\ r.m = r.n /\ (Abs(step) > 1 \/ form = "rev")  \* stepping past the type bound after the last element
    \/ r.ev[1] \in {"init", "bound"} /\ (Special(ty, form, step) \/ form = "rev")
    \/ r.ev[1] = "calc" /\ form = "rev" /\ Abs(step) > 1

StopSeq == IF ~GridOnly THEN [i \in 1..(MaxOf(ty) - MinOf(ty) + 1) |-> MinOf(ty) + i - 1]
           ELSE LET RECURSIVE S(_) S(set) == IF set = {} THEN <<>> ELSE LET m == CHOOSE x \in set : \A y \in set : x <= y IN <<m>> \o S(set \ {m})
                IN S(Stops)
Publish == (Dump /\ Done) => PrintT("@@" \o ToJson(
   [w |-> ty.w, s |-> ty.s, pw |-> ty.pw, bw |-> ty.bw, form |-> form, step |-> step, start |-> start,
    stops |-> StopSeq,
    n |-> [i \in 1..Len(StopSeq) |-> row[StopSeq[i]].n],
    m |-> [i \in 1..Len(StopSeq) |-> row[StopSeq[i]].m],
    ev |-> [i \in 1..Len(StopSeq) |-> row[StopSeq[i]].ev]]))
=============================================================================
