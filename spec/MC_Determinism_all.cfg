SPECIFICATION Spec
CONSTANTS
  Mods <- ModsDef
  Deps <- DepsDef
  Base <- BaseDef
  Decls <- DeclsDef
  Scoped <- ScopedDef
  NWorkers = {1, 2}
  MaxW = 2
  Orders <- OrdersAll
  Seeds = {0, 1, 2, 3}
  KeyModes = {"exact", "base", "decl"}
  Dump = TRUE
INVARIANT ScheduleIndependent
INVARIANT NoSharedOutput
INVARIANT MemoHistoryIndependent
INVARIANT MemoSound
INVARIANT MemoPrivate
INVARIANT Publish
CHECK_DEADLOCK FALSE
