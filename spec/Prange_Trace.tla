---------------------------- MODULE Prange_Trace ----------------------------
(* Validation of prange runs recorded from compiled code (OpenMP threads     *)
(* scheduled by the OS) against the guarantee of the protocol model:         *)
(* PrangeGuarantee!Guarantee is the invariant `Safe` of Prange.tla and is    *)
(* evaluated here on every recorded run.  One TLC state per record; the ids  *)
(* of rejected runs are published in the final state.                        *)
(* Record: [id, n, kinds (sequence of outcome names, iteration i at index    *)
(* i+1), ex (executed iterations), fin, s, l, exc, fr, each (TRUE iff every  *)
(* executed iteration ran exactly once), idx (final index variable, -1 = not *)
(* applicable)]                                                              *)
EXTENDS Naturals, Integers, Sequences, FiniteSets, TLC, Json, IOUtils, PrangeGuarantee

Records == ndJsonDeserialize(IOEnv.RECORDS)
NR == Len(Records)

ToSet(q) == {q[k] : k \in 1..Len(q)}
Accepts(r) ==
  LET o == [i \in 0..(r.n - 1) |-> r.kinds[i + 1]] IN
  /\ r.each
  /\ ToSet(r.ex) \subseteq 0..(r.n - 1)
  /\ Guarantee(r.n, o, ToSet(r.ex), r.fin, r.s, r.l, r.exc, ToSet(r.fr))
  /\ (r.fin = "normal" /\ r.n > 0) => r.idx = r.n - 1        \* the index variable ends at the last index

VARIABLES i, bad
vars == <<i, bad>>
Init == i = 0 /\ bad = <<>>
Step == /\ i < NR /\ i' = i + 1
        /\ bad' = IF Accepts(Records[i + 1]) THEN bad ELSE Append(bad, Records[i + 1].id)
Done == i = NR /\ UNCHANGED vars
Next == Step \/ Done
Spec == Init /\ [][Next]_vars
Publish == (i = NR) => PrintT("@@" \o ToJson([n |-> NR, bad |-> bad]))
=============================================================================
