SPECIFICATION Spec
CONSTANTS
  SHIFT = 3
  LONG = 8
  LLONG = 8
  CBITS = 3
  MANT = 5
  EMAX = 7
  XMAX = 130
  CH = 64
  ConstMags = {0, 1, 2, 3, 7, 8, 9}
  ShiftCounts = {0, 1, 2, 3, 6, 7, 8}
  DeclaredHazards = {"PyNumberBinop/nb-xfloat-mul0", "PyFloatBinop/fb-rem-infdiv"}
  Dump = TRUE
INVARIANT Agree
INVARIANT UndecidedIsGeneric
INVARIANT NoUB
INVARIANT TypeGuard
INVARIANT BoolGuard
INVARIANT ExactCompare
INVARIANT Publish
CHECK_DEADLOCK FALSE
