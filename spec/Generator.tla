----------------------------- MODULE Generator -----------------------------
(* C23: the generator / coroutine protocol (PEP 255, 342, 380, 479, 492),    *)
(* written as an INTERPRETER WITH AN INPUT STREAM.                            *)
(*                                                                          *)
(* A body is a structured program (records below).  Exec(stmt, st, d) runs  *)
(* a statement of the frame at delegation depth d and returns the new state *)
(* and a signal: norm | raise e | ret v | susp | drop.  The client history  *)
(* (next / send v / throw E / close, optionally a final `del`) is threaded  *)
(* through the evaluator in st.ops: every `yield` answers the operation in  *)
(* progress (st.cur) and consumes the next one:                             *)
(*    next, send v  -> the yield expression evaluates to v                  *)
(*    throw E       -> E is raised at the yield                             *)
(*    close / del   -> GeneratorExit is raised at the yield, the frame is    *)
(*                     `closing`: a further yield means "generator ignored  *)
(*                     GeneratorExit" (RuntimeError for close; the frame is *)
(*                     dropped without running anything else for del)       *)
(*    history empty -> `susp`: unwinds WITHOUT running finally blocks       *)
(* `yield from` executes the sub-body as a frame of depth d+1 with its own  *)
(* local x; throw/close reach the innermost yield; PEP 380: close() and     *)
(* throw(GeneratorExit) first close the inner frames (set `closing`), a     *)
(* closed inner frame makes GeneratorExit appear at the outer `yield from`, *)
(* an inner frame that yields while closing makes its close() fail with     *)
(* RuntimeError at the outer `yield from` and is finalised at once (it is   *)
(* unreferenced): GeneratorExit again at its new yield, a third yield       *)
(* drops it.  StopIteration leaving a frame becomes RuntimeError (PEP 479). *)
(* Semantics are taken from the PEPs / CPython's documented behaviour, not  *)
(* from Cython/Utility/Coroutine.c.                                         *)
(*                                                                          *)
(* TLC states are (body template, history) cases; every state carries the   *)
(* expected observations, computed FROM SCRATCH by the interpreter, for the *)
(* history and for the history followed by `del`; they are published for    *)
(* the binding (B1, three-way against CPython and compiled code).           *)
EXTENDS Integers, Sequences, FiniteSets, TLC, Json

CONSTANTS MaxLen,    \* bound on the history length
          Dump,      \* TRUE: publish every case
          BodySel    \* set of body-template indexes explored in this run

NONE == -1           \* Python's None among the (non-negative) integer values

---------------------------------------------------------------------------
(* statements *)
Y(v)        == [t |-> "yield", v |-> v]                 \* yield v
R(v)        == [t |-> "recv", v |-> v]                  \* x = yield v
YX          == [t |-> "yieldx"]                         \* x = yield x
Lg(k)       == [t |-> "log", k |-> k]                   \* L.append(k)
LX          == [t |-> "logx"]                           \* L.append(x)
Ret(v)      == [t |-> "ret", v |-> v]                   \* return v
RetX        == [t |-> "retx"]                           \* return x
Rz(e)       == [t |-> "raise", e |-> e]                 \* raise e
Sq(ss)      == [t |-> "seq", ss |-> ss]
TF(b, f)    == [t |-> "tryfin", b |-> b, f |-> f]       \* try: b  finally: f
TE(b, e, h) == [t |-> "tryexc", b |-> b, e |-> e, h |-> h]  \* try: b  except e: h
Loop(n, b)  == [t |-> "loop", n |-> n, b |-> b]         \* for _ in range(n): b
YF(g)       == [t |-> "yf", g |-> g]                    \* x = yield from Subs[g]
YI(k, n)    == [t |-> "yi", k |-> k, n |-> n]           \* x = yield from <plain iterator over 1..n WITHOUT send/throw/close>
                                                        \*   k = "list": iter([1, .., n]);  k = "cls": a class with only __iter__/__next__
Rr          == [t |-> "reraise"]                        \* bare `raise` (re-raise the exception being handled)
LH          == [t |-> "loghexc"]                        \* L.append(code of type(sys.exc_info()[1])): the exception being handled
Re(k)       == [t |-> "reenter", k |-> k]               \* resume self while running: ValueError -> L.append(k)

(* sub-generators used by `yield from`; kind "c": compiled in the module under *)
(* test, kind "p": a plain-Python generator defined by the driver             *)
SubBodies == <<
  (* 1 *) TF(Sq(<<R(1), LX, R(2), LX, Ret(77)>>), Lg(61)),
  (* 2 *) TE(Sq(<<Y(1), Y(2)>>), "GeneratorExit", Sq(<<Lg(81), TF(Y(8), Lg(82)), Y(9), Lg(83)>>)),
  (* 3 *) Loop(2, TE(Sq(<<R(1), LX>>), "ValueError", Sq(<<Lg(121), R(4), LX>>))),
  (* 4 *) Sq(<<YF(1), LX, TF(Y(5), Lg(131)), Ret(6)>>),
  (* 5 *) TE(Sq(<<Y(1), Y(2)>>), "GeneratorExit", Sq(<<Lg(141), Ret(5)>>)),
  (* 6 *) TF(Sq(<<Y(1), Y(2)>>), Rz("KeyError")),
  (* 7 *) TE(Sq(<<Y(1), Y(2)>>), "GeneratorExit",
             Sq(<<Lg(181), TE(TF(Y(8), Lg(182)), "GeneratorExit", Sq(<<Lg(183), TF(Y(9), Lg(184)), Lg(185)>>))>>)),
  (* 8 *) Sq(<<TE(YI("list", 2), "KeyError", Sq(<<Lg(230), Y(56)>>)), LX, Ret(9)>>)
>>
Subs == <<
  [name |-> "s1c", kind |-> "c", b |-> 1], [name |-> "s1p", kind |-> "p", b |-> 1],
  [name |-> "s2c", kind |-> "c", b |-> 2], [name |-> "s2p", kind |-> "p", b |-> 2],
  [name |-> "s3c", kind |-> "c", b |-> 3], [name |-> "s3p", kind |-> "p", b |-> 3],
  [name |-> "s4c", kind |-> "c", b |-> 4],
  [name |-> "s5c", kind |-> "c", b |-> 5], [name |-> "s5p", kind |-> "p", b |-> 5],
  [name |-> "s6c", kind |-> "c", b |-> 6],
  [name |-> "s7c", kind |-> "c", b |-> 7], [name |-> "s7p", kind |-> "p", b |-> 7],
  [name |-> "s8c", kind |-> "c", b |-> 8]
>>

G(name, b) == [name |-> name, kind |-> "gen", b |-> b]
C(name, aw, b) == [name |-> name, kind |-> "coro", aw |-> aw, b |-> b]
   \* async def; `yield v` is `await Aw(v)`, Aw a hand-written awaitable whose __await__ is
   \* `return (yield self.v)`, compiled in the module (aw = "c") or plain Python (aw = "p")

Bodies == <<
  (*  1 *) G("plain",      Sq(<<Y(1), Y(2), Y(3)>>)),
  (*  2 *) G("echo",       Sq(<<R(1), Loop(3, YX), RetX>>)),
  (*  3 *) G("tryfin",     Sq(<<TF(Sq(<<Y(1), Y(2)>>), Lg(10)), Y(3), Lg(11)>>)),
  (*  4 *) G("ignore_ge",  Sq(<<TE(Sq(<<Y(1), Y(2)>>), "GeneratorExit", Sq(<<Lg(20), Y(8), Lg(21)>>)), Y(3)>>)),
  (*  5 *) G("exc_to_yield", Sq(<<TE(Sq(<<Y(1), Y(2)>>), "ValueError", Sq(<<Lg(30), R(5), LX>>)), Y(3)>>)),
  (*  6 *) G("loop",       Loop(3, Sq(<<R(1), LX>>))),
  (*  7 *) G("retval",     TF(Sq(<<Y(1), Ret(42)>>), Lg(40))),
  (*  8 *) G("pep479",     Sq(<<Y(1), TF(Rz("StopIteration"), Lg(50))>>)),
  (*  9 *) G("yf_c",       Sq(<<Lg(60), YF(1), LX, Y(9)>>)),
  (* 10 *) G("yf_p",       Sq(<<Lg(60), YF(2), LX, Y(9)>>)),
  (* 11 *) G("nested_fin", TF(Sq(<<Y(1), TF(Y(2), Sq(<<Lg(70), Y(3)>>)), Y(4)>>), Lg(71))),
  (* 12 *) G("yf_ignore_c", Sq(<<TE(YF(3), "RuntimeError", Sq(<<Lg(80), Y(6)>>)), LX, Y(7)>>)),
  (* 13 *) G("yf_ignore_p", Sq(<<TE(YF(4), "RuntimeError", Sq(<<Lg(80), Y(6)>>)), LX, Y(7)>>)),
  (* 14 *) G("fin_raises", Sq(<<TE(TF(Sq(<<Y(1), Y(2)>>), Rz("KeyError")), "KeyError", Sq(<<Lg(90), Y(5)>>)), Y(3)>>)),
  (* 15 *) G("yield_in_fin", Sq(<<TF(Y(1), Sq(<<Y(2), Lg(100)>>)), Y(3)>>)),
  (* 16 *) G("reenter",    Sq(<<Y(1), Re(110), Y(2)>>)),
  (* 17 *) G("loop_exc_fin", TF(Loop(2, TE(R(1), "KeyError", Sq(<<Lg(111), YX>>))), Lg(112))),
  (* 18 *) G("yf_two_level", Sq(<<YF(7), LX, Y(7)>>)),
  (* 19 *) G("fin_return", Sq(<<TF(Sq(<<Y(1), Y(2)>>), Ret(5))>>)),
  (* 20 *) G("exc_exception", Sq(<<TE(Sq(<<Y(1), Y(2)>>), "Exception", Sq(<<Lg(115), Y(3)>>)), Lg(116)>>)),
  (* 21 *) G("yf_conv_c",  Sq(<<TF(YF(5), Lg(120)), LX, Y(2)>>)),
  (* 22 *) G("yf_conv_p",  Sq(<<TF(YF(6), Lg(120)), LX, Y(2)>>)),
  (* 23 *) G("yf_close_ret_c", Sq(<<TE(YF(8), "GeneratorExit", Sq(<<Lg(140), Ret(3)>>)), LX, Y(4)>>)),
  (* 24 *) G("yf_close_ret_p", Sq(<<TF(YF(9), Lg(142)), LX, Y(4)>>)),
  (* 25 *) G("yf_fin_raises", Sq(<<TE(YF(10), "KeyError", Sq(<<Lg(150), Y(5)>>)), Y(3)>>)),
  (* 26 *) G("yf_drop_c",  Sq(<<TF(TE(YF(11), "RuntimeError", Sq(<<Lg(190), Y(6)>>)), Lg(191)), Y(7)>>)),
  (* 27 *) G("yf_drop_p",  Sq(<<TF(TE(YF(12), "RuntimeError", Sq(<<Lg(190), Y(6)>>)), Lg(191)), Y(7)>>)),
  (* 28 *) G("reraise",    Sq(<<TE(Sq(<<Y(1), Y(2)>>), "ValueError",
                                    Sq(<<Lg(200), Y(5), LH, TE(Y(6), "KeyError", Sq(<<LH, Y(7), LH>>)), LH, Rr>>)), LH, Y(3)>>)),
  (* 29 *) C("co_plain", "c", Sq(<<R(1), LX, R(2), RetX>>)),
  (* 30 *) C("co_tryfin", "p", Sq(<<TF(Sq(<<Y(1), TE(Y(2), "ValueError", Sq(<<Lg(160), Y(5)>>))>>), Lg(161)), Ret(9)>>)),
  (* 31 *) C("co_ignore_ge", "c", Sq(<<TE(Sq(<<Y(1), Y(2)>>), "GeneratorExit", Sq(<<Lg(170), Y(8)>>)), Re(171), Rz("StopIteration")>>)),
  \* delegation to plain iterators (55 = "handled", 66 = "after")
  (* 32 *) G("yi_list",    Sq(<<TE(YI("list", 3), "ValueError", Sq(<<Lg(210), Y(55)>>)), LX, Y(66)>>)),
  (* 33 *) G("yi_cls",     Sq(<<TE(YI("cls", 3), "ValueError", Sq(<<Lg(210), Y(55)>>)), LX, Y(66)>>)),
  (* 34 *) G("yi_fin_ret", TF(Sq(<<TE(YI("cls", 2), "Exception", Sq(<<Lg(220), R(55), LX>>)), LX, Y(66), Ret(8)>>), Lg(221))),
  (* 35 *) G("yf_yi",      Sq(<<TE(YF(13), "ValueError", Sq(<<Lg(231), Y(57)>>)), LX, Y(7)>>))
>>

---------------------------------------------------------------------------
(* client operations and answers *)
Op(k, v, e) == [k |-> k, v |-> v, e |-> e]
OpSeq == << Op("next", NONE, ""), Op("send", NONE, ""), Op("send", 7, ""),
            Op("throw", NONE, "ValueError"), Op("throw", NONE, "KeyError"),
            Op("throw", NONE, "GeneratorExit"), Op("close", NONE, "") >>
DelOp == Op("del", NONE, "")
NoOp  == Op("none", NONE, "")

A(k, v, e) == [k |-> k, v |-> v, e |-> e]
\* k: "y" yielded v | "stop" StopIteration(v) | "exc" exception of type e | "closed" close() returned

(* signals *)
Norm      == [t |-> "norm", e |-> "", v |-> NONE]
Raise(e)  == [t |-> "raise", e |-> e, v |-> NONE]
Return(v) == [t |-> "ret", e |-> "", v |-> v]
Susp      == [t |-> "susp", e |-> "", v |-> NONE]
Drop(d)   == [t |-> "drop", e |-> "", v |-> d]
Res(st, sig) == [st |-> st, sig |-> sig]

Matches(e, cls) == \/ cls = e
                   \/ cls = "BaseException"
                   \/ cls = "Exception" /\ e # "GeneratorExit"
Pep479(e) == IF e = "StopIteration" THEN "RuntimeError" ELSE e
ECodes == [None |-> 0, ValueError |-> 901, KeyError |-> 902, GeneratorExit |-> 903, RuntimeError |-> 904, StopIteration |-> 905]
ECode(e) == IF e = "" THEN ECodes.None ELSE IF e \in DOMAIN ECodes THEN ECodes[e] ELSE 909

---------------------------------------------------------------------------
(* a suspended frame at depth d takes the next client operation *)
Resume(st, d) ==
  IF st.ops = <<>> THEN Res(st, Susp)
  ELSE LET op == Head(st.ops)
           s1 == [st EXCEPT !.ops = Tail(@), !.cur = op]
       IN CASE op.k \in {"next", "send"} -> Res([s1 EXCEPT !.sent = op.v], Norm)
            [] op.k = "throw" /\ op.e # "GeneratorExit" -> Res(s1, Raise(op.e))
            [] op.k = "throw" /\ op.e = "GeneratorExit" -> Res([s1 EXCEPT !.closing = 1..d], Raise("GeneratorExit"))
            [] op.k \in {"close", "del"} -> Res([s1 EXCEPT !.closing = 0..d], Raise("GeneratorExit"))

(* the frame at depth d yields val *)
Yield(val, st, d) ==
  IF st.fin >= 1 THEN
       \* a finaliser is running for the inner frame st.fin: a yield of that frame drops it
       IF d = st.fin THEN Res([st EXCEPT !.dropped = TRUE], Drop(d))
       ELSE Res([st EXCEPT !.unsup = TRUE], Susp)          \* outside the modelled domain (guarded by NoUnsup)
  ELSE IF d \in st.closing THEN
       IF d = 0 THEN
            IF st.cur.k = "del"
            THEN Res([st EXCEPT !.dropped = TRUE, !.closing = {}], Drop(0))
            ELSE Resume([st EXCEPT !.obs = Append(@, A("exc", NONE, "RuntimeError")), !.closing = {}], d)
       ELSE \* the inner frame ignored GeneratorExit: its close() fails; unreferenced -> finalised now
            Res([st EXCEPT !.closing = @ \ {d}, !.fin = d], Raise("GeneratorExit"))
  ELSE Resume([st EXCEPT !.obs = Append(@, A("y", val, ""))], d)

RECURSIVE Exec(_, _, _), ExecSeq(_, _, _), ExecLoop(_, _, _, _), ExecYI(_, _, _, _)

ExecSeq(ss, st, d) ==
  IF ss = <<>> THEN Res(st, Norm)
  ELSE LET r == Exec(Head(ss), st, d)
       IN IF r.sig.t = "norm" THEN ExecSeq(Tail(ss), r.st, d) ELSE r

ExecLoop(n, b, st, d) ==
  IF n = 0 THEN Res(st, Norm)
  ELSE LET r == Exec(b, st, d)
       IN IF r.sig.t = "norm" THEN ExecLoop(n - 1, b, r.st, d) ELSE r

(* x = yield from Subs[g](L), executed by the frame at depth d *)
ExecYF(g, st, d) ==
  LET k   == d + 1
      r   == Exec(SubBodies[Subs[g].b], [st EXCEPT !.x = NONE], k)
      s1  == r.st
      sig == r.sig
      back(s) == [s EXCEPT !.x = st.x]
  IN IF sig.t = "susp" THEN r
     ELSE IF s1.fin = k
          THEN \* the inner frame ignored GeneratorExit and has been finalised (whatever it did)
               Res(back([s1 EXCEPT !.fin = -1]), Raise("RuntimeError"))
     ELSE IF k \in s1.closing
          THEN LET s2 == back([s1 EXCEPT !.closing = @ \ {k}, !.cret = @ \/ (sig.t = "ret" /\ sig.v # NONE)])
               IN IF sig.t \in {"norm", "ret"} \/ (sig.t = "raise" /\ sig.e = "GeneratorExit")
                  THEN Res(s2, Raise("GeneratorExit"))          \* inner close() succeeded
                  ELSE Res(s2, Raise(Pep479(sig.e)))            \* inner close() failed with e
     ELSE CASE sig.t = "norm"  -> Res([back(s1) EXCEPT !.x = NONE], Norm)
            [] sig.t = "ret"   -> Res([back(s1) EXCEPT !.x = sig.v], Norm)
            [] sig.t = "raise" -> Res(back(s1), Raise(Pep479(sig.e)))

(* x = yield from it, `it` a plain iterator over 1..n that has only __next__ (PEP 380):      *)
(* the values are yielded by the frame itself (no inner frame, nothing to close);          *)
(* next / send(None) -> next(it); send(v) -> it.send is missing: AttributeError at the     *)
(* `yield from`; throw(E) / close() -> no throw() / close(): the delegation is abandoned   *)
(* and E / GeneratorExit is raised at the `yield from` (Resume already does that);         *)
(* exhaustion -> the expression is None.                                                   *)
ExecYI(i, n, st, d) ==
  IF i > n THEN Res([st EXCEPT !.x = NONE], Norm)
  ELSE LET r == Yield(i, st, d)
       IN IF r.sig.t # "norm" THEN r
          ELSE IF r.st.sent # NONE THEN Res(r.st, Raise("AttributeError"))
          ELSE ExecYI(i + 1, n, r.st, d)

Exec(s, st, d) ==
  CASE s.t = "yield"  -> Yield(s.v, st, d)
    [] s.t = "recv"   -> LET r == Yield(s.v, st, d)
                         IN IF r.sig.t = "norm" THEN Res([r.st EXCEPT !.x = r.st.sent], Norm) ELSE r
    [] s.t = "yieldx" -> LET r == Yield(st.x, st, d)
                         IN IF r.sig.t = "norm" THEN Res([r.st EXCEPT !.x = r.st.sent], Norm) ELSE r
    [] s.t = "log"    -> Res([st EXCEPT !.log = Append(@, s.k)], Norm)
    [] s.t = "logx"   -> Res([st EXCEPT !.log = Append(@, st.x)], Norm)
    [] s.t = "loghexc" -> Res([st EXCEPT !.log = Append(@, ECode(st.hexc))], Norm)
    [] s.t = "reenter" -> Res([st EXCEPT !.log = Append(@, s.k)], Norm)
    [] s.t = "ret"    -> Res(st, Return(s.v))
    [] s.t = "retx"   -> Res(st, Return(st.x))
    [] s.t = "raise"  -> Res(st, Raise(s.e))
    [] s.t = "reraise" -> Res(st, Raise(IF st.hexc = "" THEN "RuntimeError" ELSE st.hexc))
    [] s.t = "seq"    -> ExecSeq(s.ss, st, d)
    [] s.t = "loop"   -> ExecLoop(s.n, s.b, st, d)
    [] s.t = "tryexc" -> LET r == Exec(s.b, st, d)
                         IN IF r.sig.t = "raise" /\ Matches(r.sig.e, s.e)
                            THEN \* the handler runs with r.sig.e as the exception being handled (it survives yields)
                                 LET hr == Exec(s.h, [r.st EXCEPT !.hexc = r.sig.e], d)
                                 IN Res([hr.st EXCEPT !.hexc = st.hexc], hr.sig)
                            ELSE r
    [] s.t = "tryfin" -> LET r == Exec(s.b, [st EXCEPT !.tries = @ + 1], d)
                         IN IF r.sig.t \in {"susp", "drop"} THEN r
                            ELSE LET f == Exec(s.f, [r.st EXCEPT !.fins = @ + 1], d)
                                 IN IF f.sig.t = "norm" THEN Res(f.st, r.sig) ELSE f
    [] s.t = "yf"     -> ExecYF(s.g, st, d)
    [] s.t = "yi"     -> ExecYI(1, s.n, st, d)

---------------------------------------------------------------------------
(* the object as a whole *)
RECURSIVE Finished(_)
Finished(st) ==      \* a finished object answers without running body code
  IF st.ops = <<>> THEN st
  ELSE LET op == Head(st.ops)
           a  == CASE op.k \in {"next", "send"} -> IF st.coro THEN A("exc", NONE, "RuntimeError") ELSE A("stop", NONE, "")
                   [] op.k = "throw" -> IF st.coro THEN A("exc", NONE, "RuntimeError") ELSE A("exc", NONE, op.e)
                   [] OTHER -> A("closed", NONE, "")
       IN IF op.k = "del" THEN [st EXCEPT !.ops = Tail(@)]
          ELSE Finished([st EXCEPT !.ops = Tail(@), !.obs = Append(@, a)])

Finish(r) ==         \* frame 0 stopped with r.sig while answering r.st.cur
  LET st == r.st  sig == r.sig IN
  IF sig.t = "susp" THEN [st EXCEPT !.status = "suspended"]
  ELSE IF sig.t = "drop" THEN [st EXCEPT !.status = "dropped"]
  ELSE LET e   == IF sig.t = "raise" THEN Pep479(sig.e) ELSE ""
           ans == IF 0 \in st.closing
                  THEN (IF sig.t # "raise" \/ e = "GeneratorExit" THEN A("closed", NONE, "") ELSE A("exc", NONE, e))
                  ELSE (IF sig.t = "raise" THEN A("exc", NONE, e)
                        ELSE A("stop", IF sig.t = "ret" THEN sig.v ELSE NONE, ""))
           s1  == IF st.cur.k = "del" THEN st ELSE [st EXCEPT !.obs = Append(@, ans)]
       IN Finished([s1 EXCEPT !.status = "finished", !.closing = {}, !.logfin = Len(st.log),
                               !.cret = @ \/ (0 \in st.closing /\ sig.t = "ret" /\ sig.v # NONE)])

RECURSIVE Start(_, _)
Start(b, st) ==      \* the not-started object
  IF st.ops = <<>> THEN st
  ELSE LET op == Head(st.ops)
           s1 == [st EXCEPT !.ops = Tail(@), !.cur = op]
       IN CASE op.k = "next" \/ (op.k = "send" /\ op.v = NONE) -> Finish(Exec(b, s1, 0))
            [] op.k = "send" /\ op.v # NONE ->      \* rejected, the object STAYS startable
                 Start(b, [s1 EXCEPT !.obs = Append(@, A("exc", NONE, "TypeError"))])
            [] op.k = "throw" -> Finished([s1 EXCEPT !.obs = Append(@, A("exc", NONE, op.e)), !.status = "finished", !.logfin = 0])
            [] op.k = "close" -> Finished([s1 EXCEPT !.obs = Append(@, A("closed", NONE, "")), !.status = "finished", !.logfin = 0])
            [] op.k = "del"   -> [s1 EXCEPT !.status = "finished", !.logfin = 0]

Run(bi, ops) ==
  Start(Bodies[bi].b,
        [ops |-> ops, obs |-> <<>>, log |-> <<>>, x |-> NONE, sent |-> NONE, cur |-> NoOp,
         closing |-> {}, fin |-> -1, hexc |-> "", tries |-> 0, fins |-> 0, dropped |-> FALSE, unsup |-> FALSE,
         status |-> "created", logfin |-> -1, cret |-> FALSE, coro |-> Bodies[bi].kind = "coro"])

Eval(bi, h) ==
  LET ops == [i \in 1..Len(h) |-> OpSeq[h[i]]]
      r   == Run(bi, ops)
      rd  == Run(bi, Append(ops, DelOp))
  IN [obs |-> r.obs, log |-> r.log, status |-> r.status, tries |-> r.tries, fins |-> r.fins,
      dropped |-> r.dropped, logfin |-> r.logfin, unsup |-> r.unsup \/ rd.unsup,
      dobs |-> rd.obs, dlog |-> rd.log, dstatus |-> rd.status, dtries |-> rd.tries, dfins |-> rd.fins,
      ddropped |-> rd.dropped,
      cret |-> r.cret, dcret |-> rd.cret]    \* a frame being closed returned a non-None value (case feature)

---------------------------------------------------------------------------
VARIABLES body, hist, exp
vars == <<body, hist, exp>>

AllBodies == 1..Len(Bodies)

Init == /\ body \in BodySel
        /\ hist = <<>>
        /\ exp = Eval(body, <<>>)

Extend(i) == /\ hist' = Append(hist, i)
             /\ body' = body
             /\ exp' = Eval(body, hist')

More    == Len(hist) < MaxLen
DoNext  == More /\ Extend(1)
DoSend  == More /\ \E i \in {2, 3} : Extend(i)
DoThrow == More /\ \E i \in {4, 5, 6} : Extend(i)
DoClose == More /\ Extend(7)
Next == DoNext \/ DoSend \/ DoThrow \/ DoClose

Spec == Init /\ [][Next]_vars

---------------------------------------------------------------------------
(* properties of the model *)
IsPrefix(s, t) == Len(s) <= Len(t) /\ \A i \in 1..Len(s) : s[i] = t[i]

\* one answer per operation; `del` adds no answer and only extends the log
Consistent == /\ Len(exp.obs) = Len(hist)
              /\ exp.dobs = exp.obs
              /\ IsPrefix(exp.log, exp.dlog)
              /\ exp.status \in {"created", "suspended", "finished"}
              /\ exp.dstatus \in {"finished", "dropped"}

\* a finally block runs at most once per entered try; exactly once when the object
\* finished (also through `del`), unless a frame was dropped for ignoring GeneratorExit
FinallyOnce == /\ exp.fins <= exp.tries /\ exp.dfins <= exp.dtries
               /\ (exp.status = "finished" /\ ~exp.dropped) => exp.fins = exp.tries
               /\ (exp.dstatus = "finished" /\ ~exp.ddropped) => exp.dfins = exp.dtries
               /\ exp.dstatus = "dropped" => exp.ddropped

\* abandoned objects: `del` runs the cleanup; on a finished or never-started object it runs nothing
CleanupOnDel == /\ exp.status \in {"finished", "created"} => exp.dlog = exp.log
                /\ exp.status = "created" => exp.log = <<>>

\* the body templates stay inside the modelled domain
NoUnsup == ~exp.unsup

\* answers and log entries never depend on later operations; a finished object never runs body code
Causal == [][/\ IsPrefix(exp.obs, exp'.obs)
             /\ IsPrefix(exp.log, exp'.log)
             /\ exp.status = "finished" => (exp'.status = "finished" /\ exp'.log = exp.log /\ exp'.dlog = exp.log
                                            /\ exp.logfin = Len(exp.log))]_vars

Publish == Dump => PrintT("@@" \o ToJson([b |-> body, h |-> hist,
                                           o |-> [i \in 1..Len(exp.obs) |-> <<exp.obs[i].k, exp.obs[i].v, exp.obs[i].e>>],
                                           l |-> exp.log, d |-> exp.dlog, s |-> exp.status, ds |-> exp.dstatus,
                                           cr |-> exp.cret, dcr |-> exp.dcret]))

ASSUME PrintT("@@" \o ToJson([templates |-> Bodies, subs |-> Subs, subbodies |-> SubBodies, ops |-> OpSeq, ecodes |-> ECodes]))
=============================================================================
