SPECIFICATION Spec
CONSTANTS
  Pairs <- PairsC
  FamC <- All64
  FamS <- Tiny
  FamD <- Small
  FamO <- Tiny
  Dump = TRUE
INVARIANT RefShape
INVARIANT ImplAgreesOffHazards
INVARIANT Publish
CHECK_DEADLOCK FALSE
