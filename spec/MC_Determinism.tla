--------------------------- MODULE MC_Determinism ---------------------------
(* model-checking instance of Determinism.  Five modules:                    *)
(*   pa, qa  same base name `a` in the packages p and q, same declarations   *)
(*   ta      base name `a` at top level (no package)                         *)
(*   ro      another base name in package r, same declarations               *)
(*   b       the module whose .pxd the others cimport (pa, qa, ta, ro depend *)
(*           on b); it declares only G                                       *)
(* Declarations: T is scoped (its derived names are mangled with the         *)
(* declaring module), G is global (declared in b's .pxd: same derived name   *)
(* everywhere, a legitimate memo hit across jobs).                           *)
EXTENDS Determinism
ModsDef == {"pa", "qa", "ta", "ro", "b"}
DepsDef == [m \in ModsDef |-> IF m = "b" THEN {} ELSE {"b"}]
BaseDef == [m \in ModsDef |-> IF m \in {"pa", "qa", "ta"} THEN "a" ELSE IF m = "ro" THEN "o" ELSE "b"]
DeclsDef == [m \in ModsDef |-> IF m = "b" THEN {"G"} ELSE {"T", "G"}]
ScopedDef == {"T"}
(* every pair of modules occurs in both relative orders, every module first and last *)
OrdersDef == {<<"pa", "qa", "ta", "ro", "b">>, <<"b", "ro", "ta", "qa", "pa">>, <<"qa", "b", "pa", "ro", "ta">>,
              <<"ta", "ro", "pa", "b", "qa">>, <<"ro", "pa", "b", "ta", "qa">>, <<"b", "ta", "qa", "pa", "ro">>}
RECURSIVE PermsOf(_)
PermsOf(S) == IF S = {} THEN {<<>>} ELSE UNION {{<<x>> \o p : p \in PermsOf(S \ {x})} : x \in S}
OrdersAll == PermsOf(ModsDef)
=============================================================================
