--------------------------- MODULE MC_Determinism ---------------------------
(* model-checking instance of Determinism.  Four modules:                    *)
(*   pa, qa  same base name `a` in the packages p and q, same declarations   *)
(*   ro      other scopes (another base name, another package) that contain  *)
(*           the same declarations                                           *)
(*   b       the module whose .pxd the others cimport (pa, qa, ro depend on  *)
(*           b); it declares only G                                          *)
(* Declarations: T is scoped (its derived names are mangled with the         *)
(* declaring module), G is global (declared in b's .pxd: same derived name   *)
(* everywhere, a legitimate memo hit across jobs).                           *)
EXTENDS Determinism
ModsDef == {"pa", "qa", "ro", "b"}
DepsDef == [m \in ModsDef |-> IF m = "b" THEN {} ELSE {"b"}]
BaseDef == [m \in ModsDef |-> IF m \in {"pa", "qa"} THEN "a" ELSE IF m = "ro" THEN "o" ELSE "b"]
DeclsDef == [m \in ModsDef |-> IF m = "b" THEN {"G"} ELSE {"T", "G"}]
ScopedDef == {"T"}
(* every pair of modules occurs in both relative orders and adjacent, every module is first and last in some order *)
OrdersDef == {<<"pa", "qa", "ro", "b">>, <<"b", "ro", "qa", "pa">>, <<"qa", "b", "pa", "ro">>,
              <<"ro", "pa", "b", "qa">>, <<"qa", "ro", "b", "pa">>, <<"pa", "b", "qa", "ro">>}
RECURSIVE PermsOf(_)
PermsOf(S) == IF S = {} THEN {<<>>} ELSE UNION {{<<x>> \o p : p \in PermsOf(S \ {x})} : x \in S}
OrdersAll == PermsOf(ModsDef)
=============================================================================
