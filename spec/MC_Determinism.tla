--------------------------- MODULE MC_Determinism ---------------------------
(* model-checking instance of Determinism: three modules, `a` depends on `b` *)
EXTENDS Determinism
ModsDef == {"a", "b", "c"}
DepsDef == [m \in ModsDef |-> IF m = "a" THEN {"b"} ELSE {}]
OrdersDef == {<<"a", "b", "c">>, <<"c", "b", "a">>, <<"b", "c", "a">>}
W2 == {1, 2}
W1 == {1}
=============================================================================
