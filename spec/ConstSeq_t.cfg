SPECIFICATION Spec
CONSTANTS
  Atoms <- Atoms012
  MaxLen = 2
  Factors <- AllFactors
  MaxRepeats = 2
  Dump = TRUE
INVARIANT RuntimeValueRight
INVARIANT CresIsValue
INVARIANT ImplAgrees
INVARIANT RepLaws
INVARIANT Publish
CHECK_DEADLOCK FALSE
