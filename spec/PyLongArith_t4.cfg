SPECIFICATION Spec
CONSTANTS
  SHIFT = 4
  LONG = 10
  LLONG = 10
  CBITS = 4
  MANT = 6
  EMAX = 9
  XMAX = 300
  CH = 64
  ConstMags = {0, 1, 2, 3, 6, 8, 15, 16, 17}
  ShiftCounts = {0, 1, 3, 4, 5, 8, 9, 10}
  DeclaredHazards = {"PyNumberBinop/nb-xfloat-mul0", "PyFloatBinop/fb-rem-infdiv"}
  Dump = TRUE
INVARIANT Agree
INVARIANT UndecidedIsGeneric
INVARIANT NoUB
INVARIANT TypeGuard
INVARIANT BoolGuard
INVARIANT ExactCompare
INVARIANT Publish
CHECK_DEADLOCK FALSE
