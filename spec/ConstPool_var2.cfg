SPECIFICATION Spec
CONSTANTS
  Mode = "variants"
  AtomSet <- AllAtoms
  InnerAtoms <- ZeroOne
  PairOuter = TRUE
  Dump = TRUE
INVARIANT KeyImpliesPyEq
INVARIANT MergeExplained
INVARIANT SameTextShared
INVARIANT FixedKeySound
INVARIANT FixedKeyShares
INVARIANT ObsRefinesEq
INVARIANT ObsIdempotent
INVARIANT PublishConst
INVARIANT PublishPair
CHECK_DEADLOCK FALSE
