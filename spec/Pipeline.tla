------------------------------ MODULE Pipeline ------------------------------
(* C43: the compilation pipeline as a state machine over the FULL event     *)
(* alphabet of PipelineCore (legal and illegal events); TLC explores every  *)
(* run of a pipeline <<parse, xform^NX, abort, codegen>> with up to MaxErr  *)
(* counted errors.  The state is PipelineCore's summary of the events so    *)
(* far plus two ghosts (crash: an internal exception / crash report         *)
(* occurred; silent: a CompileError was raised unreported and the run was   *)
(* ended without run_pipeline's report).                                    *)
(* Decided here: a run that the validator does not reject ("legal") ends    *)
(* in exactly one of the two outcomes of the property -- Generated (all     *)
(* phases returned, no error counted) or Rejected (>= 1 counted error with  *)
(* a position inside the source) -- whatever the environment does; code     *)
(* generation is entered only with zero errors; internal exceptions and     *)
(* crash reports are never part of a legal run.  The outcome classes of     *)
(* legal runs are published; the harness requires every real compilation    *)
(* to fall into one of them.                                                *)
EXTENDS PipelineCore, TLC, Json, FiniteSets

CONSTANTS NX, MaxErr

Kinds == <<"parse">> \o [i \in 1..NX |-> "xform"] \o <<"abort", "codegen">>
N == Len(Kinds)
XClasses == {"CompileError", "CompilerCrash", "AbortError", "InternalError", "Other"}
Wheres == {"ok", "marker", "none", "foreign", "range"}

VARIABLES st, crash, last
vars == <<st, crash, last>>

Init == st = St0 /\ crash = FALSE /\ last = "init"

Live == st.status # "bad" /\ st.nerr < MaxErr + 1

Enter == /\ Live /\ st.pc < N
         /\ st' = Apply(st, [e |-> "enter", p |-> st.pc + 1, n |-> st.nerr], Kinds)
         /\ UNCHANGED crash /\ last' = "enter"

(* the environment may also try to enter a wrong phase (skip one / re-enter) *)
EnterWrong == /\ Live /\ st.pc + 2 <= N
              /\ st' = Apply(st, [e |-> "enter", p |-> st.pc + 2, n |-> st.nerr], Kinds)
              /\ UNCHANGED crash /\ last' = "enterwrong"

Error == /\ Live /\ st.nerr < MaxErr
         /\ \E c \in {"CompileError", "CompilerCrash"}, w \in Wheres :
              /\ st' = Apply(st, [e |-> "error", c |-> c, w |-> w, n |-> st.nerr + 1], Kinds)
              /\ crash' = (crash \/ c = "CompilerCrash")
         /\ last' = "error"

Exit == /\ Live /\ st.in
        /\ st' = Apply(st, [e |-> "exit", p |-> st.pc + 1, n |-> st.nerr], Kinds)
        /\ UNCHANGED crash /\ last' = "exit"

Raise == /\ Live /\ st.in
         /\ \E x \in XClasses, r \in BOOLEAN :
              /\ st' = Apply(st, [e |-> "raise", p |-> st.pc + 1, x |-> x, r |-> r, n |-> st.nerr], Kinds)
              /\ crash' = (crash \/ x \in {"CompilerCrash", "InternalError", "Other"})
         /\ last' = "raise"

Span == /\ Live /\ st.pc < N
        /\ \E q \in (st.pc + 1)..N :
             st' = Apply(st, [e |-> "span", p |-> st.pc + 1, q |-> q, n |-> st.nerr], Kinds)
        /\ UNCHANGED crash /\ last' = "span"

Stutter == UNCHANGED vars
Next == Enter \/ EnterWrong \/ Error \/ Exit \/ Raise \/ Span \/ Stutter
Spec == Init /\ [][Next]_vars

---------------------------------------------------------------------------
(* the caller's view that Main.run_pipeline / teardown_errors derive from the run *)
Fin(s) == [nerr |-> s.nerr, cfile |-> Generated(s, Kinds), stale |-> FALSE, escaped |-> "",
           timeout |-> FALSE, died |-> FALSE, cc |-> "accepted"]
(* points at which run_pipeline returns *)
AtEnd(s) == \/ s.status = "run" /\ ~s.in /\ s.pc = N
            \/ s.status \in {"raised", "aborted"}

TypeOK == /\ st.pc \in 0..N /\ st.in \in BOOLEAN /\ st.nerr \in 0..(MaxErr + 1) /\ st.npos \in 0..st.nerr
          /\ st.status \in {"run", "raised", "aborted", "bad"}
BadIsExplained == (st.status = "bad") <=> (st.why # "")
(* a legal run that has ended is Generated or Rejected, never both, and the verdict on it is empty *)
TwoOutcomes == (st.status # "bad" /\ AtEnd(st) /\ ~st.pending) =>
                 /\ Generated(st, Kinds) # Rejected(st, Kinds)
                 /\ FinalWhy(st, Fin(st), Kinds) = ""
(* ... and a run whose CompileError was never reported is not accepted *)
SilentRejected == (st.status = "raised" /\ st.pending) => FinalWhy(st, Fin(st), Kinds) = "rejected-without-message"
(* code generation runs only on error-free trees *)
CodegenClean == (st.status # "bad" /\ st.in /\ Kinds[st.pc + 1] = "codegen") => st.n0 = 0
(* internal exceptions and crash reports are never legal *)
CrashNeverLegal == crash => st.status = "bad"
(* a verdict never accepts a run that ended without a message or without code *)
NoLimbo == (st.status # "bad" /\ AtEnd(st) /\ FinalWhy(st, Fin(st), Kinds) = "") =>
             \/ st.nerr = 0 /\ st.pc = N
             \/ st.npos >= 1
(* corrupting the caller's view of an accepted run is detected *)
ViewChecked == (st.status # "bad" /\ AtEnd(st) /\ ~st.pending) =>
                 /\ FinalWhy(st, [Fin(st) EXCEPT !.cfile = ~@], Kinds) # ""
                 /\ FinalWhy(st, [Fin(st) EXCEPT !.nerr = @ + 1], Kinds) # ""
                 /\ FinalWhy(st, [Fin(st) EXCEPT !.escaped = "KeyError"], Kinds) # ""
                 /\ FinalWhy(st, [Fin(st) EXCEPT !.timeout = TRUE], Kinds) # ""
                 /\ (Generated(st, Kinds) => FinalWhy(st, [Fin(st) EXCEPT !.cc = "rejected"], Kinds) = "c-compiler-rejects")

(* the shorthand event means what it abbreviates *)
RECURSIVE Expand(_, _, _)
Expand(p, q, n) == IF p > q THEN <<>>
                   ELSE <<[e |-> "enter", p |-> p, n |-> n], [e |-> "exit", p |-> p, n |-> n]>> \o Expand(p + 1, q, n)
SpanMeaning == (st.status = "run" /\ ~st.in) =>
                 \A q \in (st.pc + 1)..N :
                    LET a == Apply(st, [e |-> "span", p |-> st.pc + 1, q |-> q, n |-> st.nerr], Kinds)
                        b == Run(st, Expand(st.pc + 1, q, st.nerr), 1, Kinds)
                    IN a = b

OutcomeClass(s) == IF Generated(s, Kinds) THEN "generated"
                   ELSE IF s.status = "run" THEN "errors-in-codegen"
                   ELSE s.status \o "-in-" \o Kinds[s.pc + 1]
Publish == (st.status # "bad" /\ AtEnd(st) /\ ~st.pending) =>
              PrintT("@@" \o ToJson([outcome |-> OutcomeClass(st), errors |-> st.nerr]))
PublishBad == (st.status = "bad") => PrintT("@@" \o ToJson([bad |-> st.why, after |-> last]))
=============================================================================
