------------------------------- MODULE Plex -------------------------------
(* C50: the Plex lexer engine (Cython/Plex) recognises exactly its rules.   *)
(*                                                                          *)
(* Characters: "a" "b" "c" and "n", where "n" STANDS FOR THE NEWLINE (the   *)
(* binding maps it to "\n").  The scanner does not feed its machine plain   *)
(* characters but an EVENT stream with pseudo-symbols around every line:    *)
(*     bol c c .. eol n  bol c .. eol n  bol .. eol eof                     *)
(*                                                                          *)
(* Reference  : denotational matching on that stream.  Ends(x, E, i) is the *)
(*   set of j such that regular expression x matches events i+1..j.  The    *)
(*   pseudo-symbols are transparent unless a rule names them: a bol may be  *)
(*   skipped in front of any character / newline / Eol item, an eol in      *)
(*   front of a newline.  A token is a declaratively chosen pair (rule,     *)
(*   end): no rule matches a longer stretch, no earlier rule the same       *)
(*   stretch.  No match: end of file when no character is left (read():     *)
(*   "Returns (None, '') on end of file"), an error otherwise.  Positions   *)
(*   (offset, line, column) are counted on the event stream.                *)
(* Impl-shaped: Regexps.py constructors desugared as in the source          *)
(*   (CodeRange split around newline, chars_to_ranges, AnyBut complement,   *)
(*   Opt = Alt(re, Empty), Rep = Opt(Rep1)), the static attributes nullable *)
(*   / match_nl, build_machine with match_bol + build_opt, priorities       *)
(*   (Lexicons.add_token_to_machine), epsilon closure + subset construction *)
(*   (DFA.nfa_to_dfa, highest_priority_action), and the scanner loop        *)
(*   (Scanners.run_machine_inlined: input_state 1..5, backup state, state   *)
(*   left ADVANCED when a run fails; scan_a_token's end-of-file test).      *)
(* Cases are states: root -> lexicon id -> built lexicon (AST, DFA) ->      *)
(* one state per (lexicon, text) carrying both token streams.               *)
EXTENDS Integers, Sequences, FiniteSets, TLC, Json, IOUtils

CONSTANTS MaxLen,     \* texts: every string over {a,b,c,n} of length <= MaxLen
          UseCore,    \* include the hand-written lexicons
          Dump        \* publish lexicons and cases for the binding

Seed  == atoi(IOEnv.PLEX_SEED)     \* seed of the generated lexicon family
NRand == atoi(IOEnv.PLEX_NLEX)     \* number of generated lexicons in this run
First == atoi(IOEnv.PLEX_FIRST)    \* family index of the first of them (batches)

AlphaSet == {"a", "b", "c", "n"}
Ev7 == AlphaSet \cup {"bol", "eol", "eof"}
Ord == [c \in AlphaSet |-> CASE c = "n" -> 10 [] c = "a" -> 97 [] c = "b" -> 98 [] c = "c" -> 99]
INF == 1000

RangeOf(s) == {s[i] : i \in DOMAIN s}
RECURSIVE Join(_)
Join(s) == IF s = <<>> THEN "" ELSE Head(s) \o Join(Tail(s))

---------------------------------------------------------------------------
(* surface syntax: what the binding builds with the Plex constructors *)
Node(op, s, xs) == [op |-> op, s |-> s, xs |-> xs]
Str(s)      == Node("str", s, <<>>)
AnyOf(s)      == Node("any", s, <<>>)
AnyBut(s)   == Node("anybut", s, <<>>)
Rng(a, b)   == Node("range", <<a, b>>, <<>>)
Bol         == Node("bol", <<>>, <<>>)
Eol         == Node("eol", <<>>, <<>>)
Eof         == Node("eof", <<>>, <<>>)
Empty       == Node("empty", <<>>, <<>>)
Seq2(x, y)  == Node("seq", <<>>, <<x, y>>)
Seq3(x, y, z) == Node("seq", <<>>, <<x, y, z>>)
Alt2(x, y)  == Node("alt", <<>>, <<x, y>>)
Alt3(x, y, z) == Node("alt", <<>>, <<x, y, z>>)
Rep(x)      == Node("rep", <<>>, <<x>>)
Rep1(x)     == Node("rep1", <<>>, <<x>>)
Opt(x)      == Node("opt", <<>>, <<x>>)

ClassOf(x) == CASE x.op = "any" -> RangeOf(x.s)
                [] x.op = "anybut" -> AlphaSet \ RangeOf(x.s)
                [] x.op = "range" -> {c \in AlphaSet : Ord[x.s[1]] <= Ord[c] /\ Ord[c] <= Ord[x.s[2]]}

---------------------------------------------------------------------------
(* the event stream of a text, and positions counted on it *)
RECURSIVE Evs(_)
Evs(t) == IF t = <<>> THEN <<"eol", "eof">>
          ELSE IF Head(t) = "n" THEN <<"eol", "n", "bol">> \o Evs(Tail(t))
          ELSE <<Head(t)>> \o Evs(Tail(t))
Events(t) == <<"bol">> \o Evs(t)

At(E, k) == IF k <= Len(E) THEN E[k] ELSE "end"
\* with k events consumed: character offset, line, start offset of the line of the NEXT event
Pos(E, k)  == Cardinality({j \in 1..k : E[j] \in AlphaSet})
Line(E, k) == 1 + Cardinality({j \in 1..k : E[j] = "n"})
LineStart(E, k) == LET m  == IF k + 1 <= Len(E) THEN k + 1 ELSE Len(E)
                       bs == {j \in 1..m : E[j] = "bol"}
                       b  == CHOOSE j \in bs : \A i \in bs : i <= j       \* the last bol up to the next event
                   IN Pos(E, b - 1)
Col(E, k) == Pos(E, k) - LineStart(E, k)

---------------------------------------------------------------------------
(* reference: denotational matching *)
CharBase(S, E, b) ==
  (IF At(E, b + 1) \in S \ {"n"} THEN {b + 1} ELSE {})
  \cup (IF "n" \in S THEN (IF At(E, b + 1) = "n" THEN {b + 1} ELSE {})
                          \cup (IF At(E, b + 1) = "eol" /\ At(E, b + 2) = "n" THEN {b + 2} ELSE {})
        ELSE {})
CharEnds(S, E, i) == CharBase(S, E, i) \cup (IF At(E, i + 1) = "bol" THEN CharBase(S, E, i + 1) ELSE {})

RECURSIVE StrEnds(_, _, _)
StrEnds(s, E, I) == IF s = <<>> \/ I = {} THEN I
                    ELSE StrEnds(Tail(s), E, UNION {CharEnds({Head(s)}, E, k) : k \in I})

RECURSIVE Ends(_, _, _), SeqEnds(_, _, _), Clo(_, _, _)
Ends(x, E, i) ==
  CASE x.op = "str"   -> StrEnds(x.s, E, {i})
    [] x.op \in {"any", "anybut", "range"} -> CharEnds(ClassOf(x), E, i)
    [] x.op = "bol"   -> IF At(E, i + 1) = "bol" THEN {i + 1} ELSE {}
    [] x.op = "eof"   -> IF At(E, i + 1) = "eof" THEN {i + 1} ELSE {}
    [] x.op = "eol"   -> (IF At(E, i + 1) = "eol" THEN {i + 1} ELSE {})
                         \cup (IF At(E, i + 1) = "bol" /\ At(E, i + 2) = "eol" THEN {i + 2} ELSE {})
    [] x.op = "empty" -> {i}
    [] x.op = "seq"   -> SeqEnds(x.xs, E, {i})
    [] x.op = "alt"   -> UNION {Ends(x.xs[j], E, i) : j \in DOMAIN x.xs}
    [] x.op = "opt"   -> {i} \cup Ends(x.xs[1], E, i)
    [] x.op = "rep1"  -> Clo(x.xs[1], E, Ends(x.xs[1], E, i))
    [] x.op = "rep"   -> {i} \cup Clo(x.xs[1], E, Ends(x.xs[1], E, i))
SeqEnds(xs, E, I) == IF xs = <<>> \/ I = {} THEN I
                     ELSE SeqEnds(Tail(xs), E, UNION {Ends(Head(xs), E, k) : k \in I})
Clo(x, E, R) == LET R2 == R \cup UNION {Ends(x, E, k) : k \in R} IN IF R2 = R THEN R ELSE Clo(x, E, R2)

\* the token at a scan point, declaratively: a pair (rule, end) such that no rule matches a
\* longer stretch and no earlier rule the same stretch
Cands(lx, E, p) == UNION {{<<r, q>> : q \in Ends(lx[r], E, p)} : r \in DOMAIN lx}
IsBest(c, C) == \A d \in C : d[2] < c[2] \/ (d[2] = c[2] /\ d[1] >= c[1])

\* the same choice, organised so that every Ends set is computed once (RefChoiceIsBest below
\* ties it to IsBest): the largest end of any rule, then the smallest rule reaching it
RECURSIVE EndsOfRules(_, _, _, _)
EndsOfRules(lx, E, p, r) == IF r > Len(lx) THEN <<>> ELSE <<Ends(lx[r], E, p)>> \o EndsOfRules(lx, E, p, r + 1)
Largest(S)  == CHOOSE x \in S : \A y \in S : y <= x
Smallest(S) == CHOOSE x \in S : \A y \in S : x <= y
\* <<rule, end, tie>>, rule = 0 when nothing matches
Choice(lx, E, p) == LET en  == EndsOfRules(lx, E, p, 1)
                        all == UNION {en[r] : r \in DOMAIN en}
                    IN IF all = {} THEN <<0, 0, FALSE>>
                       ELSE LET q  == Largest(all)
                                rs == {r \in DOMAIN en : q \in en[r]}
                            IN <<Smallest(rs), q, Cardinality(rs) > 1>>

NoEnd == [k |-> "none", line |-> 0, col |-> 0]
RECURSIVE RefFrom(_, _, _, _, _)
RefFrom(lx, E, p, toks, fl) ==
  LET b == Choice(lx, E, p) IN
  IF b[1] = 0 THEN
     [toks |-> toks, fl |-> fl,
      end |-> [k |-> IF Pos(E, p) = Pos(E, Len(E)) THEN "eof" ELSE "error", line |-> Line(E, p), col |-> Col(E, p)]]
  ELSE LET q == b[2]
           tok == <<b[1], Pos(E, p), Pos(E, q), Line(E, p), Col(E, p)>>
           fl2 == [fl EXCEPT !.tie = @ \/ b[3]]
       IN IF q = p THEN [toks |-> Append(toks, tok), fl |-> fl2, end |-> [NoEnd EXCEPT !.k = "stuck"]]
          ELSE IF E[q] = "eof" THEN [toks |-> Append(toks, tok), fl |-> fl2, end |-> [NoEnd EXCEPT !.k = "eofc"]]
          ELSE RefFrom(lx, E, q, Append(toks, tok), fl2)
RefScan(lx, t) == RefFrom(lx, Events(t), 0, <<>>, [tie |-> FALSE])

---------------------------------------------------------------------------
(* implementation-shaped, part 1: Regexps.py *)
CRaw(cs)   == [op |-> "raw", cs |-> cs, sym |-> "", xs |-> <<>>]
CNl        == [op |-> "nl", cs |-> {}, sym |-> "", xs |-> <<>>]
CSym(s)    == [op |-> "sym", cs |-> {}, sym |-> s, xs |-> <<>>]
CSeq(xs)   == [op |-> "seq", cs |-> {}, sym |-> "", xs |-> xs]
CAlt(xs)   == [op |-> "alt", cs |-> {}, sym |-> "", xs |-> xs]
CRep1(x)   == [op |-> "rep1", cs |-> {}, sym |-> "", xs |-> <<x>>]
CEmpty     == CSeq(<<>>)

CharsIn(lo, hi) == {c \in AlphaSet : lo <= Ord[c] /\ Ord[c] < hi}
CodeRange(lo, hi) == IF lo <= 10 /\ 10 < hi
                     THEN CAlt(<<CRaw(CharsIn(lo, 10)), CNl, CRaw(CharsIn(11, hi))>>)
                     ELSE CRaw(CharsIn(lo, hi))
\* chars_to_ranges: maximal runs of consecutive codes, in increasing order, as <<lo, hi>> (hi exclusive)
RECURSIVE SortUp(_)
SortUp(C) == IF C = {} THEN <<>> ELSE LET m == CHOOSE x \in C : \A y \in C : x <= y IN <<m>> \o SortUp(C \ {m})
RunsOf(s) == LET C  == {Ord[s[i]] : i \in DOMAIN s}
                 st == SortUp({x \in C : (x - 1) \notin C})
             IN [k \in DOMAIN st |-> <<st[k], 1 + CHOOSE y \in C : y >= st[k] /\ (\A z \in st[k]..y : z \in C) /\ (y + 1) \notin C>>]
CodeRanges(rs) == CAlt([k \in DOMAIN rs |-> CodeRange(rs[k][1], rs[k][2])])
GapsOf(rs) == [k \in 1..(Len(rs) + 1) |-> <<IF k = 1 THEN -INF ELSE rs[k - 1][2], IF k = Len(rs) + 1 THEN INF ELSE rs[k][1]>>]

RECURSIVE Desugar(_)
Desugar(x) ==
  CASE x.op = "str"    -> CSeq([k \in DOMAIN x.s |-> CodeRange(Ord[x.s[k]], Ord[x.s[k]] + 1)])
    [] x.op = "any"    -> CodeRanges(RunsOf(x.s))
    [] x.op = "anybut" -> CodeRanges(GapsOf(RunsOf(x.s)))
    [] x.op = "range"  -> CodeRange(Ord[x.s[1]], Ord[x.s[2]] + 1)
    [] x.op \in {"bol", "eol", "eof"} -> CSym(x.op)
    [] x.op = "empty"  -> CEmpty
    [] x.op = "seq"    -> CSeq([k \in DOMAIN x.xs |-> Desugar(x.xs[k])])
    [] x.op = "alt"    -> CAlt([k \in DOMAIN x.xs |-> Desugar(x.xs[k])])
    [] x.op = "rep1"   -> CRep1(Desugar(x.xs[1]))
    [] x.op = "opt"    -> CAlt(<<Desugar(x.xs[1]), CEmpty>>)
    [] x.op = "rep"    -> CAlt(<<CRep1(Desugar(x.xs[1])), CEmpty>>)

\* the static attributes the constructors compute
RECURSIVE Nullable(_), MatchNl(_), SeqMatchNl(_, _)
Nullable(c) == CASE c.op \in {"raw", "nl", "sym"} -> FALSE
                 [] c.op = "seq"  -> \A k \in DOMAIN c.xs : Nullable(c.xs[k])
                 [] c.op = "alt"  -> \E k \in DOMAIN c.xs : Nullable(c.xs[k])
                 [] c.op = "rep1" -> Nullable(c.xs[1])
MatchNl(c) == CASE c.op \in {"raw", "sym"} -> FALSE
                [] c.op = "nl"   -> TRUE
                [] c.op = "seq"  -> SeqMatchNl(c.xs, Len(c.xs))
                [] c.op = "alt"  -> \E k \in DOMAIN c.xs : MatchNl(c.xs[k])
                [] c.op = "rep1" -> MatchNl(c.xs[1])
SeqMatchNl(xs, i) == IF i = 0 THEN FALSE
                     ELSE IF MatchNl(xs[i]) THEN TRUE
                     ELSE IF ~Nullable(xs[i]) THEN FALSE
                     ELSE SeqMatchNl(xs, i - 1)

(* part 2: build_machine.  A machine is [n: number of states, tr: set of    *)
(* <<from, event, to>>]; the event "" is an epsilon move.                   *)
NewSt(m) == [m EXCEPT !.n = @ + 1]
AddT(m, a, e, b) == [m EXCEPT !.tr = @ \cup {<<a, e, b>>}]
\* build_opt: a new state reachable on c or on epsilon; result <<machine, state>>
BuildOpt(m, s0, c) == LET m1 == NewSt(m) s == m1.n IN <<AddT(AddT(m1, s0, "", s), s0, c, s), s>>
MaybeBol(m, s0, mb) == IF mb THEN BuildOpt(m, s0, "bol") ELSE <<m, s0>>

RECURSIVE Build(_, _, _, _, _), BuildSeq(_, _, _, _, _, _), BuildAll(_, _, _, _, _, _)
Build(c, m, s0, sf, mb) ==
  CASE c.op = "raw" -> LET o == MaybeBol(m, s0, mb)
                       IN [o[1] EXCEPT !.tr = @ \cup {<<o[2], ch, sf>> : ch \in c.cs}]
    [] c.op = "nl"  -> LET o == MaybeBol(m, s0, mb)
                           o2 == BuildOpt(o[1], o[2], "eol")
                       IN AddT(o2[1], o2[2], "n", sf)
    [] c.op = "sym" -> LET o == MaybeBol(m, s0, mb /\ c.sym = "eol") IN AddT(o[1], o[2], c.sym, sf)
    [] c.op = "seq" -> IF c.xs = <<>> THEN AddT(m, s0, "", sf) ELSE BuildSeq(c.xs, 1, m, s0, sf, mb)
    [] c.op = "alt" -> LET nul == SelectSeq(c.xs, Nullable)
                           non == SelectSeq(c.xs, LAMBDA y : ~Nullable(y))
                           m1  == BuildAll(nul, 1, m, s0, sf, mb)
                       IN IF non = <<>> THEN m1
                          ELSE LET o == MaybeBol(m1, s0, mb) IN BuildAll(non, 1, o[1], o[2], sf, FALSE)
    [] c.op = "rep1" -> LET m1 == NewSt(m)  s1 == m1.n
                            m2 == NewSt(m1) s2 == m2.n
                            m3 == AddT(m2, s0, "", s1)
                            m4 == Build(c.xs[1], m3, s1, s2, mb \/ MatchNl(c.xs[1]))
                        IN AddT(AddT(m4, s2, "", s1), s2, "", sf)
BuildSeq(xs, i, m, s1, sf, mb) ==
  LET last == i = Len(xs)
      m1 == IF last THEN m ELSE NewSt(m)
      s2 == IF last THEN sf ELSE m1.n
      m2 == Build(xs[i], m1, s1, s2, mb)
  IN IF last THEN m2
     ELSE BuildSeq(xs, i + 1, m2, s2, sf, MatchNl(xs[i]) \/ (mb /\ Nullable(xs[i])))
BuildAll(xs, i, m, s0, sf, mb) == IF i > Len(xs) THEN m ELSE BuildAll(xs, i + 1, Build(xs[i], m, s0, sf, mb), s0, sf, mb)

\* Lexicon.__init__ / add_token_to_machine: state 1 is the initial state; rule r gets a
\* final state with priority -r
RECURSIVE AddTokens(_, _, _, _)
AddTokens(lx, r, m, acc) ==
  IF r > Len(lx) THEN [n |-> m.n, tr |-> m.tr, acc |-> acc]
  ELSE LET m1 == NewSt(m) fin == m1.n
       IN AddTokens(lx, r + 1, Build(Desugar(lx[r]), m1, 1, fin, TRUE), acc \cup {<<fin, r>>})
MakeNFA(lx) == AddTokens(lx, 1, [n |-> 1, tr |-> {}], {})

(* part 3: DFA.nfa_to_dfa *)
RECURSIVE EpsClo(_, _)
EpsClo(nfa, S) == LET S2 == S \cup {t[3] : t \in {u \in nfa.tr : u[2] = "" /\ u[1] \in S}}
                  IN IF S2 = S THEN S ELSE EpsClo(nfa, S2)
Move(nfa, S, e) == EpsClo(nfa, {t[3] : t \in {u \in nfa.tr : u[2] = e /\ u[1] \in S}})
\* highest_priority_action: priority -r, so the smallest rule number; 0 = no action
ActionOf(nfa, S) == LET rs == {a[2] : a \in {b \in nfa.acc : b[1] \in S}}
                    IN IF rs = {} THEN 0 ELSE CHOOSE r \in rs : \A r2 \in rs : r <= r2
RECURSIVE SeqOfSet(_)
SeqOfSet(S) == IF S = {} THEN <<>> ELSE LET x == CHOOSE y \in S : TRUE IN <<x>> \o SeqOfSet(S \ {x})
RECURSIVE Subsets(_, _, _)
Subsets(nfa, i, ss) ==
  IF i > Len(ss) THEN ss
  ELSE LET succ == {Move(nfa, ss[i], e) : e \in Ev7} \ {{}}
           new  == succ \ RangeOf(ss)
       IN Subsets(nfa, i + 1, ss \o SeqOfSet(new))
MakeDFA(lx) ==
  LET nfa == MakeNFA(lx)
      ss  == Subsets(nfa, 1, <<EpsClo(nfa, {1})>>)
      Idx(T) == IF T = {} THEN 0 ELSE CHOOSE j \in DOMAIN ss : ss[j] = T
  IN [K |-> Len(ss), nfa_states |-> nfa.n,
      tr  |-> [i \in DOMAIN ss |-> [e \in Ev7 |-> Idx(Move(nfa, ss[i], e))]],
      act |-> [i \in DOMAIN ss |-> ActionOf(nfa, ss[i])]]

(* part 4: Scanners.py.  The scanner reads the TEXT (not the event list of  *)
(* the reference) through its five input states.                            *)
\* (k is a ghost field: the number of events consumed, used only by the invariants)
Sc0 == [cur_pos |-> 0, cur_line |-> 1, cur_line_start |-> 0, cur_char |-> "bol", input_state |-> 1, next_pos |-> 0, k |-> 0]
NextChar(sc0, T) ==
  LET sc == [sc0 EXCEPT !.k = @ + 1] IN
  CASE sc.input_state = 1 ->
         LET c == IF sc.next_pos < Len(T) THEN T[sc.next_pos + 1] ELSE ""
             np == IF c = "" THEN sc.next_pos ELSE sc.next_pos + 1
         IN [sc EXCEPT !.cur_pos = sc.next_pos, !.next_pos = np,
                       !.cur_char = IF c = "n" \/ c = "" THEN "eol" ELSE c,
                       !.input_state = IF c = "n" THEN 2 ELSE IF c = "" THEN 4 ELSE 1]
    [] sc.input_state = 2 -> [sc EXCEPT !.cur_char = "n", !.input_state = 3]
    [] sc.input_state = 3 -> [sc EXCEPT !.cur_line = @ + 1, !.cur_line_start = sc.next_pos, !.cur_pos = sc.next_pos,
                                        !.cur_char = "bol", !.input_state = 1]
    [] sc.input_state = 4 -> [sc EXCEPT !.cur_char = "eof", !.input_state = 5]
    [] sc.input_state = 5 -> [sc EXCEPT !.cur_char = ""]        \* (the eof symbol was consumed)

\* run_machine_inlined: bk is the backup state (bk.a = 0: none); returns [a, sc, over]
\* (over: the run went past the accepted end and had to back up)
RECURSIVE Run(_, _, _, _, _)
Run(dfa, T, d, sc, bk) ==
  LET a   == dfa.act[d]
      bk2 == IF a # 0 THEN [a |-> a, sc |-> sc] ELSE bk
      c   == sc.cur_char
      nd  == IF c = "" THEN 0 ELSE dfa.tr[d][c]
  IN IF nd # 0 THEN Run(dfa, T, nd, NextChar(sc, T), bk2)
     ELSE IF bk2.a # 0 THEN [a |-> bk2.a, sc |-> bk2.sc, over |-> bk2.sc # sc]
     ELSE [a |-> 0, sc |-> sc, over |-> FALSE]      \* no backup: the scanner state stays advanced

\* scan_a_token + read, until end of file / error / no progress
RECURSIVE ImplFrom(_, _, _, _, _, _)
ImplFrom(dfa, T, sc, toks, spans, fl) ==
  LET r == Run(dfa, T, 1, sc, [a |-> 0, sc |-> sc])
      line == sc.cur_line
      col  == sc.cur_pos - sc.cur_line_start
  IN IF r.a = 0 THEN
        [toks |-> toks, spans |-> spans, fl |-> fl, endp |-> sc.k,
         end |-> [k |-> IF r.sc.cur_pos = sc.cur_pos /\ r.sc.cur_char = "eof" THEN "eof" ELSE "error", line |-> line, col |-> col]]
     ELSE LET tok == <<r.a, sc.cur_pos, r.sc.cur_pos, line, col>>
              toks2 == Append(toks, tok)
              spans2 == Append(spans, <<sc.k, r.sc.k>>)
              fl2 == [fl EXCEPT !.backup = @ \/ r.over]
          IN IF r.sc = sc THEN [toks |-> toks2, spans |-> spans2, fl |-> fl2, endp |-> sc.k, end |-> [NoEnd EXCEPT !.k = "stuck"]]
             ELSE IF r.sc.input_state = 5 /\ r.sc.cur_char = ""
                  THEN [toks |-> toks2, spans |-> spans2, fl |-> fl2, endp |-> r.sc.k, end |-> [NoEnd EXCEPT !.k = "eofc"]]
             ELSE ImplFrom(dfa, T, r.sc, toks2, spans2, fl2)
ImplScan(dfa, T) == ImplFrom(dfa, T, Sc0, <<>>, <<>>, [backup |-> FALSE])

---------------------------------------------------------------------------
(* the lexicon family *)
A == <<"a">>  B == <<"b">>  N == <<"n">>
Core == <<
  <<Str(<<"a", "b">>), Str(A), Str(<<"a", "b", "c">>), Eol>>,                   \* back up from a failed "abc"
  <<Str(<<"a", "b">>), Rep1(AnyOf(<<"a", "b">>))>>,                                \* tie: earliest rule
  <<Rep1(AnyOf(<<"a", "b">>)), Str(<<"a", "b">>)>>,
  <<Str(A), Rep1(Rng("a", "c")), AnyOf(N)>>,                                       \* keyword / identifier / newline
  <<Seq2(Bol, Str(A)), Str(A), AnyBut(<<>>)>>,                                   \* explicit Bol
  <<Seq2(Str(A), Eol), Str(A), Str(N)>>,                                         \* explicit Eol after a character
  <<Seq2(Str(N), Bol), AnyBut(<<>>), Eol>>,                                      \* Bol after a newline
  <<Rep1(Rng("a", "c")), Seq2(Eol, Opt(Str(N))), Eof>>,                          \* the shape of Compiler/Lexicon.py
  <<Seq3(Str(A), Rep(Str(B)), Str(<<"c">>)), Str(A), Str(B)>>,                   \* long look-ahead, back up to "a"
  <<Rep(Str(A))>>,                                                               \* nullable rule
  <<Str(A)>>,                                                                    \* nothing for the line end
  <<AnyBut(A), Str(<<"a", "a">>)>>,
  <<Seq2(Rep(AnyBut(N)), Str(N)), Rep1(AnyBut(N))>>,                             \* whole lines
  <<Seq2(Str(N), Rep(Str(A))), Seq3(Str(N), Str(A), Str(B)), Rng("a", "c")>>,    \* optional bol after newline, inside Rep
  <<Alt2(Seq2(Str(A), Str(N)), Str(B)), Seq2(Rep1(Str(N)), Str(A)), AnyBut(<<>>)>>,
  <<Seq2(Opt(Str(A)), Eol), Str(A), Str(B), Str(N)>>,
  <<Alt3(Bol, Str(A), Eol), Rng("n", "a"), Str(B)>>,
  <<Seq2(Opt(Str(N)), Str(B)), Seq2(Rep(AnyOf(<<"a", "n">>)), Str(<<"c">>)), AnyBut(<<>>)>>,
  <<Seq2(Seq2(Str(N), Opt(Str(A))), Str(B)), Str(A), AnyBut(<<>>)>>,            \* Seq.match_nl looks past a nullable tail
  <<Seq2(Str(A), Rep1(Seq2(Str(N), Rep(Str(B))))), Str(B), Str(N)>>,            \* ... inside a Rep1 that is not at the rule start
  <<Seq2(Eof, Eof), Rep1(Rng("a", "c")), Seq2(Eol, Opt(Str(N))), Eof>>,                      \* the eof symbol comes once
  <<Seq2(Alt2(Opt(Str(A)), Str(N)), Str(B)), Seq3(Str(B), Alt2(Empty, Str(N)), Str(A)), AnyBut(B)>>
>>
NCore == IF UseCore THEN Len(Core) ELSE 0

Atoms == <<Str(A), Str(B), Str(<<"a", "b">>), Str(<<"b", "a">>), Str(<<"a", "a">>), Str(N), Str(<<"a", "n">>), Str(<<"n", "a">>),
           Str(<<"a", "b", "c">>), Str(<<"c">>),
           AnyOf(<<"a", "b">>), AnyOf(<<"a", "n">>), AnyOf(<<"b", "c">>), AnyOf(N), AnyOf(<<"a", "c">>), AnyOf(<<"c", "n", "a">>),
           AnyBut(A), AnyBut(N), AnyBut(<<"a", "b">>), AnyBut(<<>>), AnyBut(<<"a", "n">>), AnyBut(B), AnyBut(<<"a", "c">>),
           Rng("a", "b"), Rng("b", "c"), Rng("n", "a"), Rng("a", "c"), Rng("n", "n"),
           Bol, Eol, Eof, Empty>>
\* suffixes that make a nullable rule non-nullable
Tails == <<Str(A), Str(B), Str(N), AnyOf(<<"b", "c">>), Eol, AnyBut(A)>>

Mix(h, i) == (h * 1103 + i * 7919 + 12345) % 1000003
RECURSIVE Gen(_, _)
Gen(d, h) ==
  IF d = 0 THEN Atoms[1 + (Mix(h, 8) % Len(Atoms))]
  ELSE LET k == Mix(h, 9) % 9
           x == Gen(d - 1, Mix(h, 1))
           y == Gen(d - 1, Mix(h, 2))
           z == Gen(d - 1, Mix(h, 3))
       IN CASE k = 0 -> Seq2(x, y)
            [] k = 1 -> Alt2(x, y)
            [] k = 2 -> Rep(x)
            [] k = 3 -> Rep1(x)
            [] k = 4 -> Opt(x)
            [] k = 5 -> Seq3(x, y, z)
            [] k = 6 -> Alt3(x, y, z)
            [] k = 7 -> Seq2(x, Gen(0, Mix(h, 4)))
            [] k = 8 -> x
\* matches the empty event sequence (reference notion, on an empty stream)
NullableRef(x) == 0 \in Ends(x, <<>>, 0)
GenRule(h) ==
  LET d == <<0, 1, 1, 1, 2, 2>>[1 + (Mix(h, 12) % 6)]
      x == Gen(d, Mix(h, 13))
  IN IF NullableRef(x) /\ Mix(h, 14) % 5 # 0 THEN Seq2(x, Tails[1 + (Mix(h, 15) % Len(Tails))]) ELSE x
GenLexicon(k) ==
  LET h0 == Mix((Mix(Seed % 100003, 5) + k * 7) % 1000003, 6)
      nr == <<1, 2, 2, 3, 3, 3, 4, 4>>[1 + (Mix(h0, 11) % 8)]
  IN [i \in 1..nr |-> GenRule(Mix(h0, 20 + i))]

LexIds == 1..(NCore + NRand)
LexiconOf(i) == IF i <= NCore THEN Core[i] ELSE GenLexicon(First + (i - NCore) - 1)
\* identification of a lexicon across batches: 0.. for core, 1000.. for generated ones
FamilyId(i) == IF i <= NCore THEN i ELSE 1000 + First + (i - NCore) - 1

Texts == UNION {[1..k -> AlphaSet] : k \in 0..MaxLen}

---------------------------------------------------------------------------
VARIABLES phase, li, lex, dfa, text, ref, imp
vars == <<phase, li, lex, dfa, text, ref, imp>>

Init == phase = "root" /\ li = 0 /\ lex = <<>> /\ dfa = 0 /\ text = <<>> /\ ref = 0 /\ imp = 0

PickLexicon == /\ phase = "root"
               /\ \E i \in LexIds : li' = i
               /\ phase' = "id"
               /\ UNCHANGED <<lex, dfa, text, ref, imp>>
BuildLexicon == /\ phase = "id"
                /\ phase' = "lex"
                /\ lex' = LexiconOf(li)
                /\ dfa' = MakeDFA(lex')
                /\ UNCHANGED <<li, text, ref, imp>>
PickText == /\ phase = "lex"
            /\ \E t \in Texts : /\ text' = t
                                /\ ref' = RefScan(lex, t)
                                /\ imp' = ImplScan(dfa, t)
            /\ phase' = "case"
            /\ lex' = <<>> /\ dfa' = 0          \* leaves stay small (the lexicon is LexiconOf(li))
            /\ UNCHANGED li
Next == PickLexicon \/ BuildLexicon \/ PickText
Spec == Init /\ [][Next]_vars

---------------------------------------------------------------------------
(* what TLC decides *)
IsCase == phase = "case"

\* the end-of-file hazard: the reference demands "end of file", the implementation-shaped
\* scanner raises UnrecognizedInput (its end-of-file test looks at the state a FAILED run left
\* behind and knows only the `eof` symbol)
Hazard == IsCase /\ ref.end.k = "eof" /\ imp.end.k = "error"

\* the property on the model, strict form: violated exactly by the hazard cases
ImplAgrees == IsCase => (imp.toks = ref.toks /\ imp.end = ref.end)
\* ... and what holds everywhere else
ImplAgreesOffHazards == IsCase => /\ imp.toks = ref.toks
                                  /\ imp.end.line = ref.end.line /\ imp.end.col = ref.end.col
                                  /\ (imp.end.k = ref.end.k \/ Hazard)

\* the tokens of the implementation-shaped scanner judged directly by the declarative
\* statement of the property: each one is a match, no rule matches a longer stretch, no
\* earlier rule the same stretch (spans = ghost event indices of the scanner)
ImplTokensAreBest ==
  IsCase => LET E == Events(text) IN
            \A j \in DOMAIN imp.toks :
               LET C == Cands(LexiconOf(li), E, imp.spans[j][1])
                   c == <<imp.toks[j][1], imp.spans[j][2]>>
               IN c \in C /\ IsBest(c, C)
\* the organised choice of the reference is the declarative one, at every scan point of the text
RefChoiceIsBest ==
  IsCase => LET E == Events(text) IN
            \A p \in 0..Len(E) :
               LET C == Cands(LexiconOf(li), E, p)
                   b == Choice(LexiconOf(li), E, p)
               IN IF C = {} THEN b[1] = 0
                  ELSE <<b[1], b[2]>> \in C /\ IsBest(<<b[1], b[2]>>, C) /\ (b[3] <=> \E d \in C : d[2] = b[2] /\ d[1] # b[1])
\* "input no rule matches is reported as an error" -- and nothing else is
ErrorIffNoRuleMatches ==
  IsCase => LET E == Events(text)
                none == Cands(LexiconOf(li), E, imp.endp) = {}
                left == Pos(E, imp.endp) < Len(text)      \* characters not yet consumed
            IN /\ (imp.end.k \in {"error", "eof"}) => none
               /\ (imp.end.k = "eof") => ~left
               /\ (imp.end.k = "error" /\ ~Hazard) => left

\* DFA sanity: deterministic by construction; every accepting action is a rule of the lexicon
DfaWellFormed == phase = "lex" =>
                   /\ dfa.K >= 1
                   /\ \A i \in 1..dfa.K : dfa.act[i] \in 0..Len(lex) /\ \A e \in Ev7 : dfa.tr[i][e] \in 0..dfa.K

(* publication for the binding *)
PublishLex == (Dump /\ phase = "lex") =>
                 PrintT("@@" \o ToJson([kind |-> "lex", l |-> FamilyId(li), rules |-> lex,
                                        dfa_states |-> dfa.K, nfa_states |-> dfa.nfa_states]))
PublishCase == (Dump /\ IsCase) =>
                 PrintT("@@" \o ToJson([kind |-> "case", l |-> FamilyId(li), s |-> Join(text), t |-> ref.toks, e |-> ref.end,
                                        m |-> imp.end.k, tie |-> ref.fl.tie, bk |-> imp.fl.backup]))
=============================================================================
