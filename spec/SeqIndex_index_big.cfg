SPECIFICATION Spec
CONSTANTS
  Part = "index"
  MaxLen = 8
  VMag = 10
  Mixed = FALSE
  Dump = TRUE
INVARIANT ImplAgrees
INVARIANT NoUB
INVARIANT ImplAgreesOffHazards
INVARIANT HazardsConfined
INVARIANT CropClamped
INVARIANT MacrosSound
INVARIANT RefSound
INVARIANT RefShape
INVARIANT Publish
CHECK_DEADLOCK FALSE
