--------------------------- MODULE DirectiveText ---------------------------
(* C41, part 2: directive strings are parsed to the documented value or      *)
(* rejected.                                                                 *)
(*                                                                           *)
(* Part "value": texts are sequences of characters, built by appending       *)
(* chunks (so that the keywords are reachable within a few steps); every     *)
(* reachable state is one text.  For each directive *type* the spec gives    *)
(* the documented result:                                                    *)
(*   sbool  : 'True' -> T, 'False' -> F, anything else rejected              *)
(*            (header comments, decorators; docs: "True / False")            *)
(*   rbool  : additionally, case-insensitively, true/yes -> T, false/no -> F *)
(*            (command line -X: parse_directive_list(relaxed_bool=True);     *)
(*            the documentation is silent, this is what the code does)       *)
(*   int    : Python's int() of the text (surrounding blanks, a sign, digits *)
(*            with single inner underscores), else rejected                  *)
(*   cstr   : c_string_type: one of bytes / bytearray / str / unicode        *)
(*            (unicode is an alias of str), else rejected                    *)
(*   str    : every text is accepted unchanged (language_level, ...)         *)
(* "R" = rejected (ValueError).                                              *)
(*                                                                           *)
(* Part "list": `name=value, name=value` lists as token sequences; the       *)
(* semantics is defined on the *flat* token sequence (split at commas, strip *)
(* blanks, split at the first '='), for the two ways the compiler calls it:  *)
(* header comment (strict bool, unknown names ignored) and -X (relaxed bool, *)
(* unknown names rejected).  Later items override earlier ones; the first    *)
(* bad item rejects the whole list.                                          *)
EXTENDS Integers, Sequences, FiniteSets, TLC, Json, SequencesExt

CONSTANTS Part,      \* "value" | "list"
          MaxChunks, \* value part: number of chunks
          MaxItems,  \* list part: number of items
          ItemMode,  \* "small" | "all"
          Dump       \* "all" | "accepted" | "none"

---------------------------------------------------------------------------
(* characters and chunks *)
Chunks == { <<"T">>, <<"F">>, <<"t">>, <<"f">>, <<"r","u","e">>, <<"R","U","E">>, <<"a","l","s","e">>,
            <<"y">>, <<"Y">>, <<"e","s">>, <<"E","S">>, <<"n">>, <<"N">>, <<"o">>, <<"O">>,
            <<" ">>, <<"0">>, <<"1">>, <<"-">>, <<"_">>, <<"s","t","r">>, <<"b","y","t","e","s">>,
            <<"u","n","i","c","o","d","e">>, <<"N","o","n","e">> }

LowerOf(c) == CASE c = "T" -> "t" [] c = "F" -> "f" [] c = "R" -> "r" [] c = "U" -> "u" [] c = "E" -> "e"
                [] c = "Y" -> "y" [] c = "S" -> "s" [] c = "N" -> "n" [] c = "O" -> "o" [] OTHER -> c
Lower(t) == [i \in 1..Len(t) |-> LowerOf(t[i])]

cTrue == <<"T","r","u","e">>
cFalse == <<"F","a","l","s","e">>
ctrue == <<"t","r","u","e">>
cfalse == <<"f","a","l","s","e">>
cyes == <<"y","e","s">>
cno == <<"n","o">>

RECURSIVE LStrip(_), RStrip(_)
LStrip(t) == IF Len(t) > 0 /\ t[1] = " " THEN LStrip(Tail(t)) ELSE t
RStrip(t) == IF Len(t) > 0 /\ t[Len(t)] = " " THEN RStrip(SubSeq(t, 1, Len(t) - 1)) ELSE t
Strip(t) == RStrip(LStrip(t))

SBool(t) == IF t = cTrue THEN "T" ELSE IF t = cFalse THEN "F" ELSE "R"
RBool(t) == IF SBool(t) # "R" THEN SBool(t)
            ELSE IF Lower(t) \in {ctrue, cyes} THEN "T"
            ELSE IF Lower(t) \in {cfalse, cno} THEN "F" ELSE "R"

IsDigit(c) == c \in {"0", "1"}
DigitVal(c) == IF c = "1" THEN 1 ELSE 0
\* digits with single inner underscores
RECURSIVE DigitsOK(_), DigitsVal(_, _)
DigitsOK(t) == /\ Len(t) > 0
               /\ IsDigit(t[1])
               /\ IsDigit(t[Len(t)])
               /\ \A i \in 1..Len(t) : IsDigit(t[i]) \/ (t[i] = "_" /\ i > 1 /\ i < Len(t) /\ IsDigit(t[i-1]) /\ IsDigit(t[i+1]))
DigitsVal(t, acc) == IF Len(t) = 0 THEN acc
                     ELSE IF t[1] = "_" THEN DigitsVal(Tail(t), acc)
                     ELSE DigitsVal(Tail(t), 10 * acc + DigitVal(t[1]))
\* result: <<"I", n>> or <<"R">>
IntParse(t) == LET s == Strip(t)
                   neg == Len(s) > 0 /\ s[1] = "-"
                   body == IF neg THEN Tail(s) ELSE s
               IN IF DigitsOK(body) THEN <<"I", IF neg THEN -DigitsVal(body, 0) ELSE DigitsVal(body, 0)>>
                  ELSE <<"R">>

cbytes == <<"b","y","t","e","s">>
cstr == <<"s","t","r">>
cunicode == <<"u","n","i","c","o","d","e">>
CStr(t) == IF t = cbytes THEN "bytes" ELSE IF t \in {cstr, cunicode} THEN "str" ELSE "R"

---------------------------------------------------------------------------
(* list part: tokens are strings *)
NameToks == {"cdivision", "boundscheck", "c_string_type", "language_level", "nosuch", "warn.all",
             "test_assert_path_exists", "nogil", "warn"}
NameMid == {"cdivision", "boundscheck", "c_string_type", "language_level", "nosuch", "warn.all"}
NameSmall == {"cdivision", "c_string_type", "nosuch", "warn.all"}
ValToks == {"True", "False", "yes", "bytes", "unicode", "3"}
ValSmall == {"True", "yes", "unicode"}
EqForms == {<<>>, <<"=">>, <<" ", "=", " ">>, <<"=", "=">>}
EqSmall == {<<>>, <<"=">>, <<" ", "=", " ">>}

Opt(S) == {<<>>} \cup {<<x>> : x \in S}
ItemsAll == {l \o n \o e \o v : l \in Opt({" "}), n \in Opt(NameToks), e \in EqForms, v \in Opt(ValToks)}
ItemsSmall == {n \o e \o v : n \in Opt(NameSmall), e \in EqSmall, v \in Opt(ValSmall)}
ItemsMid == {n \o e \o v : n \in Opt(NameMid), e \in EqSmall, v \in Opt(ValSmall \cup {"False"})}
ItemSet == IF ItemMode = "all" THEN ItemsAll ELSE IF ItemMode = "mid" THEN ItemsMid ELSE ItemsSmall

\* the directives that the tokens can name: type per name
BoolNames == {"cdivision", "boundscheck"}
WarnDirs == {"warn.undeclared", "warn.unreachable", "warn.maybe_uninitialized", "warn.unused",
             "warn.unused_arg", "warn.unused_result", "warn.multiple_declarators",
             "warn.deprecated.DEF", "warn.deprecated.IF"}
\* names of the directive table that have no string form (their type is neither bool, int,
\* str, a list nor a validator): there is no documented value, so every text is rejected
NoValueNames == {"nogil", "warn"}
ListNames == {"test_assert_path_exists"}

RECURSIVE Join(_)
Join(toks) == IF Len(toks) = 0 THEN "" ELSE toks[1] \o Join(Tail(toks))

RECURSIVE TStripL(_), TStripR(_)
TStripL(t) == IF Len(t) > 0 /\ t[1] = " " THEN TStripL(Tail(t)) ELSE t
TStripR(t) == IF Len(t) > 0 /\ t[Len(t)] = " " THEN TStripR(SubSeq(t, 1, Len(t) - 1)) ELSE t
TStrip(t) == TStripR(TStripL(t))

\* split a token sequence at every "," token
RECURSIVE SplitComma(_, _)
SplitComma(t, cur) == IF Len(t) = 0 THEN <<cur>>
                      ELSE IF t[1] = "," THEN <<cur>> \o SplitComma(Tail(t), <<>>)
                      ELSE SplitComma(Tail(t), Append(cur, t[1]))

FirstEq(t) == IF \E i \in 1..Len(t) : t[i] = "=" THEN CHOOSE i \in 1..Len(t) : t[i] = "=" /\ \A j \in 1..(i - 1) : t[j] # "=" ELSE 0

\* value of a bool directive from a token sequence: only a single known token can be a keyword
BoolOfToks(v, relaxed) ==
  IF Len(v) # 1 THEN "R"
  ELSE IF v[1] = "True" THEN "B:T" ELSE IF v[1] = "False" THEN "B:F"
  ELSE IF relaxed /\ v[1] = "yes" THEN "B:T" ELSE "R"
CStrOfToks(v) ==
  IF Len(v) # 1 THEN "R"
  ELSE IF v[1] = "bytes" THEN "S:bytes" ELSE IF v[1] = "unicode" THEN "S:str" ELSE "R"

\* one item applied to the result so far: res = [ok, m]; m maps names to encoded values
Bad == [ok |-> FALSE, m |-> <<>>]
ApplyItem(res, item, relaxed, ignoreUnknown) ==
  LET it == TStrip(item) IN
  IF ~res.ok THEN Bad
  ELSE IF Len(it) = 0 THEN res
  ELSE IF FirstEq(it) = 0 THEN Bad
  ELSE LET k == FirstEq(it)
           nameT == TStrip(SubSeq(it, 1, k - 1))
           valT == TStrip(SubSeq(it, k + 1, Len(it)))
           name == Join(nameT)
           Put(n, x) == [ok |-> TRUE, m |-> [y \in DOMAIN res.m \cup {n} |-> IF y = n THEN x ELSE res.m[y]]]
       IN IF Len(nameT) = 1 /\ name \in BoolNames
            THEN IF BoolOfToks(valT, relaxed) = "R" THEN Bad ELSE Put(name, BoolOfToks(valT, relaxed))
          ELSE IF Len(nameT) = 1 /\ name = "c_string_type"
            THEN IF CStrOfToks(valT) = "R" THEN Bad ELSE Put(name, CStrOfToks(valT))
          ELSE IF Len(nameT) = 1 /\ name = "language_level" THEN Put(name, "S:" \o Join(valT))
          ELSE IF Len(nameT) = 1 /\ name \in ListNames
            THEN Put(name, (IF name \in DOMAIN res.m THEN res.m[name] \o "|" ELSE "L:") \o Join(valT))
          ELSE IF Len(nameT) = 1 /\ name = "warn.all"
            THEN IF BoolOfToks(valT, relaxed) = "R" THEN Bad
                 ELSE [ok |-> TRUE, m |-> [y \in DOMAIN res.m \cup WarnDirs |->
                                              IF y \in WarnDirs THEN BoolOfToks(valT, relaxed) ELSE res.m[y]]]
          ELSE IF Len(nameT) = 1 /\ name \in NoValueNames THEN Bad
          ELSE IF ignoreUnknown THEN res ELSE Bad

RECURSIVE ApplyAll(_, _, _, _)
ApplyAll(res, items, relaxed, ign) ==
  IF Len(items) = 0 THEN res ELSE ApplyAll(ApplyItem(res, items[1], relaxed, ign), Tail(items), relaxed, ign)

ParseList(toks, relaxed, ign) == ApplyAll([ok |-> TRUE, m |-> <<>>], SplitComma(toks, <<>>), relaxed, ign)

---------------------------------------------------------------------------
VARIABLES text,   \* value part: character sequence; list part: token sequence
          steps   \* chunks / items appended so far
vars == <<text, steps>>

Init == text = <<>> /\ steps = 0

MoreV == Part = "value" /\ steps < MaxChunks
AppendChunk(S) == \E c \in S : text' = text \o c /\ steps' = steps + 1
AddLetters == MoreV /\ AppendChunk({c \in Chunks : c[1] \notin {" ", "0", "1", "-", "_"}})
AddDigit   == MoreV /\ AppendChunk({<<"0">>, <<"1">>})
AddBlank   == MoreV /\ AppendChunk({<<" ">>})
AddSign    == MoreV /\ AppendChunk({<<"-">>, <<"_">>})

MoreL == Part = "list" /\ steps < MaxItems
AddItem == MoreL /\ \E it \in ItemSet :
               /\ text' = (IF steps = 0 THEN it ELSE text \o <<",">> \o it)
               /\ steps' = steps + 1

Next == AddLetters \/ AddDigit \/ AddBlank \/ AddSign \/ AddItem
Spec == Init /\ [][Next]_vars

---------------------------------------------------------------------------
(* invariants: sanity of the reference operators *)
\* strict implies relaxed; relaxed accepts exactly the four words, case-insensitively
BoolSane == Part = "value" =>
   /\ (SBool(text) # "R" => RBool(text) = SBool(text))
   /\ (RBool(text) = "T" <=> Lower(text) \in {ctrue, cyes})
   /\ (RBool(text) = "F" <=> Lower(text) \in {cfalse, cno})
\* an accepted integer text has a digit, and blanks only at the ends
IntSane == Part = "value" =>
   (IntParse(text)[1] = "I" =>
       /\ \E i \in 1..Len(text) : IsDigit(text[i])
       /\ \A i \in 1..Len(text) : text[i] \in {"0", "1", " ", "-", "_"}
       /\ IntParse(text)[2] \in -11111..11111)
\* list part: the header way never rejects because of an unknown name; whatever the strict
\* header way accepts with known names only, the -X way accepts with the same values
ListSane == Part = "list" =>
   LET h == ParseList(text, FALSE, TRUE)
       x == ParseList(text, TRUE, FALSE)
   IN (x.ok /\ h.ok) => \A n \in DOMAIN h.m : n \in DOMAIN x.m /\ x.m[n] = h.m[n]

AcceptedV == SBool(text) # "R" \/ RBool(text) # "R" \/ IntParse(text)[1] = "I" \/ CStr(text) # "R"

PublishV == (Part = "value" /\ (Dump = "all" \/ (Dump = "accepted" /\ AcceptedV))) =>
   PrintT("@@" \o ToJson([chars |-> text, sbool |-> SBool(text), rbool |-> RBool(text),
                          int |-> IntParse(text), cstr |-> CStr(text)]))
Enc(r) == [ok |-> r.ok, names |-> SetToSeq(DOMAIN r.m), vals |-> [i \in 1..Cardinality(DOMAIN r.m) |-> r.m[SetToSeq(DOMAIN r.m)[i]]]]
PublishL == (Part = "list" /\ Dump = "all") =>
   PrintT("@@" \o ToJson([toks |-> text, header |-> Enc(ParseList(text, FALSE, TRUE)),
                          xopt |-> Enc(ParseList(text, TRUE, FALSE))]))
=============================================================================
