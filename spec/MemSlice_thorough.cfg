SPECIFICATION Spec
CONSTANTS
  Inits <- InitsT
  ChainDepth = 2
  ChainFull = TRUE
  Dump = TRUE
INVARIANT RefSound
INVARIANT RefInBuffer
INVARIANT PredInBase
INVARIANT FixedImplAgrees
INVARIANT NoUnexplained
INVARIANT HazardNecessary
INVARIANT UnellipsifyOK
INVARIANT PathsAgree
INVARIANT Publish
CHECK_DEADLOCK FALSE
