SPECIFICATION Spec
CONSTANTS
  Inits <- InitsT
  ChainDepth = 2
  ChainFull = TRUE
  Dump = TRUE
INVARIANT RefSound
INVARIANT RefInBuffer
INVARIANT ImplAgrees
INVARIANT ObjAgrees
INVARIANT SameView
INVARIANT UnellipsifyOK
INVARIANT Publish
CHECK_DEADLOCK FALSE
