---------------------------- MODULE Determinism ----------------------------
(* C42: compiling the same sources with the same options gives byte-        *)
(* identical output whatever the hash seed, the process, the order and the  *)
(* parallelism of a multi-module build.                                     *)
(*                                                                          *)
(* Model of a cythonize build: M modules with a dependency relation (a      *)
(* module reads its own source and the sources of its dependencies, never   *)
(* another module's OUTPUT), a job list ordered by `order`, nw worker       *)
(* PROCESSES that take jobs from the list.  A job reads its inputs (one     *)
(* action per file, so that reads interleave with other jobs' writes),      *)
(* resolves the names derived from its declarations through the memo of ITS *)
(* PROCESS (action Memo), and writes its output in two steps (truncate,     *)
(* write).                                                                  *)
(*                                                                          *)
(* Process-wide compiler state.  Every worker process owns a memo (the      *)
(* union of all module-level caches of the compiler: type identifiers,      *)
(* cnames, specialisations, utility-code trees, dependency parses ...) that *)
(* lives as long as the process and is read and written by every job the    *)
(* process runs.  A declaration d of module m yields the derived value      *)
(* Val(m, d): for a SCOPED declaration the value depends on the declaring   *)
(* module (scope-mangled identifiers), for a global one only on d.  A memo  *)
(* entry is found under Key(km, m, d).  The reference semantics is the key  *)
(* mode "exact" (key = declaration + declaring module); the hazard models   *)
(* "base" (key = declaration + base name of the module: modules with the    *)
(* same base name in different packages collide) and "decl" (key = the      *)
(* declaration alone: every module with the same declaration collides) are  *)
(* carried along in the same state (memo[w][km], names[w][km]): they hold   *)
(* no invariant, TLC computes for every process history which outputs they  *)
(* would make stale, and these are the histories the binding has to execute *)
(* on the real compiler.                                                    *)
(*                                                                          *)
(* The environment (hash seed, job order, number of workers) is never read  *)
(* by an action; the hash seed is therefore drawn in a last step (Observe)  *)
(* instead of in Init: same classes, a quarter of the interleavings.        *)
(* Invariants (key mode "exact", ALL interleavings): a job's names do not   *)
(* depend on the history of the memo it ran on (MemoHistoryIndependent), a  *)
(* memo key determines its value (MemoSound), the final outputs are the     *)
(* fresh ones = what a job computes in a new process with an empty memo     *)
(* (ScheduleIndependent).  Every final state is                             *)
(* published with its process histories (hist[w] = the jobs process w ran,  *)
(* in order); each class is executed with the real compiler: one real       *)
(* process per model process, compiling its jobs in the published order;    *)
(* outputs must be byte-identical to the fresh ones.                        *)
EXTENDS Integers, Sequences, FiniteSets, TLC, Json

CONSTANTS Mods,        \* set of module ids
          Deps,        \* [Mods -> SUBSET Mods]
          Base,        \* [Mods -> STRING]: base name (last component of the qualified name)
          Decls,       \* [Mods -> SUBSET declaration ids]: declarations whose derived names go through the memo
          Scoped,      \* declaration ids whose derived value depends on the declaring module
          NWorkers,    \* set of worker counts (nthreads) to explore
          MaxW,        \* the largest of them
          Orders,      \* set of job orders (sequences over Mods) to explore
          Seeds,       \* hash seeds (environment only)
          KeyModes,    \* subset of {"exact", "base", "decl"}
          Dump

VARIABLES order, seed, nw, queue, job, got, names, memo, hist, out, pc
vars == <<order, seed, nw, queue, job, got, names, memo, hist, out, pc>>
env == <<order, seed, nw>>

Workers == 1..MaxW
NoNames == [d \in {} |-> <<>>]

(* the value derived from declaration d of module m, and the memo key it is stored under *)
Val(m, d) == IF d \in Scoped THEN <<d, m>> ELSE <<d, "*">>
Key(km, m, d) == IF d \notin Scoped THEN <<d, "*">>
                 ELSE IF km = "exact" THEN <<d, m>>
                 ELSE IF km = "base" THEN <<d, Base[m]>>
                 ELSE <<d, "*">>

FreshNames(m) == [d \in Decls[m] |-> Val(m, d)]
Fresh(m) == [src |-> m, deps |-> Deps[m], names |-> [km \in KeyModes |-> FreshNames(m)]]   \* F: a function of the module's inputs only
NoNamesK == [km \in KeyModes |-> NoNames]
Empty == [src |-> "", deps |-> {}, names |-> NoNamesK]
Partial == [src |-> "partial", deps |-> {}, names |-> NoNamesK]

Init == /\ order \in Orders /\ seed = -1 /\ nw \in NWorkers
        /\ queue = order
        /\ job = [w \in Workers |-> ""]
        /\ got = [w \in Workers |-> {}]            \* input files read so far by the running job
        /\ names = [w \in Workers |-> NoNamesK]    \* derived names of the running job, per key mode
        /\ memo = [w \in Workers |-> [km \in KeyModes |-> {}]]   \* process-wide memo: set of [k |-> key, v |-> value], per key mode
        /\ hist = [w \in Workers |-> <<>>]         \* jobs run by the process so far
        /\ out = [m \in Mods |-> Empty]
        /\ pc = [w \in Workers |-> "idle"]

Take(w) == /\ w <= nw /\ pc[w] = "idle" /\ queue # <<>>
           /\ job' = [job EXCEPT ![w] = Head(queue)] /\ queue' = Tail(queue)
           /\ hist' = [hist EXCEPT ![w] = Append(@, Head(queue))]
           /\ got' = [got EXCEPT ![w] = {}] /\ names' = [names EXCEPT ![w] = NoNamesK]
           /\ pc' = [pc EXCEPT ![w] = "read"]
           /\ UNCHANGED <<env, out, memo>>
Inputs(m) == {m} \cup Deps[m]
ReadOne(w) == /\ pc[w] = "read"
              /\ \E f \in Inputs(job[w]) \ got[w] : got' = [got EXCEPT ![w] = @ \cup {f}]
              /\ pc' = [pc EXCEPT ![w] = IF got'[w] = Inputs(job[w]) THEN "memo" ELSE "read"]
              /\ UNCHANGED <<env, queue, job, names, memo, hist, out>>
(* the job looks every declaration up in the memo of its process: a hit returns what an EARLIER job *)
(* of this process stored under the key, a miss computes the value and stores it for later jobs      *)
Hit(w, km, k) == \E e \in memo[w][km] : e.k = k
Stored(w, km, k) == (CHOOSE e \in memo[w][km] : e.k = k).v
Memo(w) == /\ pc[w] = "memo"
           /\ LET m == job[w] IN
                /\ names' = [names EXCEPT ![w] = [km \in KeyModes |-> [d \in Decls[m] |->
                                IF Hit(w, km, Key(km, m, d)) THEN Stored(w, km, Key(km, m, d)) ELSE Val(m, d)]]]
                /\ memo' = [memo EXCEPT ![w] = [km \in KeyModes |-> @[km] \cup
                                {[k |-> Key(km, m, d), v |-> Val(m, d)] : d \in {x \in Decls[m] : ~Hit(w, km, Key(km, m, x))}}]]
           /\ pc' = [pc EXCEPT ![w] = "trunc"]
           /\ UNCHANGED <<env, queue, job, got, hist, out>>
Truncate(w) == /\ pc[w] = "trunc"
               /\ out' = [out EXCEPT ![job[w]] = Partial] /\ pc' = [pc EXCEPT ![w] = "write"]
               /\ UNCHANGED <<env, queue, job, got, names, memo, hist>>
Write(w) == /\ pc[w] = "write"
            /\ out' = [out EXCEPT ![job[w]] = [src |-> job[w], deps |-> got[w] \ {job[w]}, names |-> names[w]]]
            /\ pc' = [pc EXCEPT ![w] = "idle"] /\ job' = [job EXCEPT ![w] = ""]
            /\ UNCHANGED <<env, queue, got, names, memo, hist>>

DoTake == \E w \in Workers : Take(w)
DoRead == \E w \in Workers : ReadOne(w)
DoMemo == \E w \in Workers : Memo(w)
DoTrunc == \E w \in Workers : Truncate(w)
DoWrite == \E w \in Workers : Write(w)
Done == queue = <<>> /\ \A w \in Workers : pc[w] = "idle"
Observe == /\ Done /\ seed = -1 /\ seed' \in Seeds
           /\ UNCHANGED <<order, nw, queue, job, got, names, memo, hist, out, pc>>
Next == DoTake \/ DoRead \/ DoMemo \/ DoTrunc \/ DoWrite \/ Observe
Spec == Init /\ [][Next]_vars

StaleK(km) == {m \in Mods : out[m].src # m \/ out[m].deps # Deps[m] \/ out[m].names[km] # FreshNames(m)}
(* whatever the schedule, order and seed: the final outputs are the fresh ones *)
ScheduleIndependent == Done => StaleK("exact") = {}
(* no job is taken twice, no two workers write the same output *)
NoSharedOutput == \A w1, w2 \in Workers : (w1 # w2 /\ job[w1] # "") => job[w1] # job[w2]
(* the names a job got from the memo are the ones it computes on an empty memo, whatever ran before it *)
MemoHistoryIndependent == \A w \in Workers : pc[w] \in {"trunc", "write"} => names[w]["exact"] = FreshNames(job[w])
(* a key determines its value: every entry is right for EVERY (module, declaration) that maps to its key *)
MemoSound == \A w \in Workers : \A e \in memo[w]["exact"] : \A m \in Mods : \A d \in Decls[m] :
                 Key("exact", m, d) = e.k => e.v = Val(m, d)
(* memos are private to their process: every entry was stored by a job of this process *)
MemoPrivate == \A w \in Workers : \A km \in KeyModes : \A e \in memo[w][km] :
                   \E i \in 1..Len(hist[w]) : \E d \in Decls[hist[w][i]] :
                       e = [k |-> Key(km, hist[w][i], d), v |-> Val(hist[w][i], d)]
(* every final state = one environment class with its process histories; stale[km] = the outputs a memo keyed *)
(* like hazard model km would get wrong in this history (the binding must execute histories that cover them)    *)
Publish == (Dump /\ Done /\ seed # -1) => PrintT("@@" \o ToJson([order |-> order, seed |-> seed, nworkers |-> nw, hist |-> hist,
                                                     stale |-> [km \in KeyModes |-> StaleK(km)]]))
=============================================================================
