---------------------------- MODULE Determinism ----------------------------
(* C42: compiling the same sources with the same options gives byte-        *)
(* identical output whatever the hash seed, the process, the order and the  *)
(* parallelism of a multi-module build.                                     *)
(*                                                                          *)
(* Model of a cythonize build: M modules with a dependency relation (a      *)
(* module reads its own source and the sources of its dependencies, never   *)
(* another module's OUTPUT), a job list ordered by `order`, nw worker       *)
(* PROCESSES that take jobs from the list.  A job reads its inputs (one     *)
(* action per file, so that reads interleave with other jobs' writes),      *)
(* resolves the names derived from its declarations through the memo of ITS *)
(* PROCESS (action Memo), and writes its output in two steps (truncate,     *)
(* write).                                                                  *)
(*                                                                          *)
(* Process-wide compiler state.  Every worker process owns a memo (the      *)
(* union of all module-level caches of the compiler: type identifiers,      *)
(* cnames, specialisations, utility-code trees, dependency parses ...) that *)
(* lives as long as the process and is read and written by every job the    *)
(* process runs.  A declaration d of module m yields the derived value      *)
(* Val(m, d): for a SCOPED declaration the value depends on the declaring   *)
(* module (scope-mangled identifiers), for a global one only on d.  A memo  *)
(* entry is found under Key(keymode, m, d).  The reference semantics is     *)
(* keymode = "exact" (key = declaration + declaring module); the hazard     *)
(* models "base" (key = declaration + base name of the module: modules with *)
(* the same base name in different packages collide) and "decl" (key = the  *)
(* declaration alone: every module with the same declaration collides) are  *)
(* explored in the same run: they hold no invariant, TLC computes for every *)
(* process history which outputs they would make stale, and these are the   *)
(* histories the binding has to execute on the real compiler.               *)
(*                                                                          *)
(* The environment (hash seed, job order, number of workers) is never read  *)
(* by an action.  Invariants (keymode "exact", ALL interleavings): a job's  *)
(* names do not depend on the history of the memo it ran on                 *)
(* (MemoHistoryIndependent), a memo key determines its value (MemoSound),   *)
(* the final outputs are the fresh ones = what a job computes in a new      *)
(* process with an empty memo (ScheduleIndependent).  Every final state is  *)
(* published with its process histories (hist[w] = the jobs process w ran,  *)
(* in order); each class is executed with the real compiler: one real       *)
(* process per model process, compiling its jobs in the published order;    *)
(* outputs must be byte-identical to the fresh ones.                        *)
EXTENDS Naturals, Sequences, FiniteSets, TLC, Json

CONSTANTS Mods,        \* set of module ids
          Deps,        \* [Mods -> SUBSET Mods]
          Base,        \* [Mods -> STRING]: base name (last component of the qualified name)
          Decls,       \* [Mods -> SUBSET declaration ids]: declarations whose derived names go through the memo
          Scoped,      \* declaration ids whose derived value depends on the declaring module
          NWorkers,    \* set of worker counts (nthreads) to explore
          MaxW,        \* the largest of them
          Orders,      \* set of job orders (sequences over Mods) to explore
          Seeds,       \* hash seeds (environment only)
          KeyModes,    \* subset of {"exact", "base", "decl"}
          Dump

VARIABLES order, seed, nw, keymode, queue, job, got, names, memo, hist, out, pc
vars == <<order, seed, nw, keymode, queue, job, got, names, memo, hist, out, pc>>
env == <<order, seed, nw, keymode>>

Workers == 1..MaxW
NoNames == [d \in {} |-> <<>>]

(* the value derived from declaration d of module m, and the memo key it is stored under *)
Val(m, d) == IF d \in Scoped THEN <<d, m>> ELSE <<d, "*">>
Key(km, m, d) == IF d \notin Scoped THEN <<d, "*">>
                 ELSE IF km = "exact" THEN <<d, m>>
                 ELSE IF km = "base" THEN <<d, Base[m]>>
                 ELSE <<d, "*">>

FreshNames(m) == [d \in Decls[m] |-> Val(m, d)]
Fresh(m) == [src |-> m, deps |-> Deps[m], names |-> FreshNames(m)]   \* F: a function of the module's inputs only
Empty == [src |-> "", deps |-> {}, names |-> NoNames]
Partial == [src |-> "partial", deps |-> {}, names |-> NoNames]

Init == /\ order \in Orders /\ seed \in Seeds /\ nw \in NWorkers /\ keymode \in KeyModes
        /\ queue = order
        /\ job = [w \in Workers |-> ""]
        /\ got = [w \in Workers |-> {}]            \* input files read so far by the running job
        /\ names = [w \in Workers |-> NoNames]     \* derived names of the running job
        /\ memo = [w \in Workers |-> {}]           \* process-wide memo: set of [k |-> key, v |-> value]
        /\ hist = [w \in Workers |-> <<>>]         \* jobs run by the process so far
        /\ out = [m \in Mods |-> Empty]
        /\ pc = [w \in Workers |-> "idle"]

Take(w) == /\ w <= nw /\ pc[w] = "idle" /\ queue # <<>>
           /\ job' = [job EXCEPT ![w] = Head(queue)] /\ queue' = Tail(queue)
           /\ hist' = [hist EXCEPT ![w] = Append(@, Head(queue))]
           /\ got' = [got EXCEPT ![w] = {}] /\ names' = [names EXCEPT ![w] = NoNames]
           /\ pc' = [pc EXCEPT ![w] = "read"]
           /\ UNCHANGED <<env, out, memo>>
Inputs(m) == {m} \cup Deps[m]
ReadOne(w) == /\ pc[w] = "read"
              /\ \E f \in Inputs(job[w]) \ got[w] : got' = [got EXCEPT ![w] = @ \cup {f}]
              /\ pc' = [pc EXCEPT ![w] = IF got'[w] = Inputs(job[w]) THEN "memo" ELSE "read"]
              /\ UNCHANGED <<env, queue, job, names, memo, hist, out>>
(* the job looks every declaration up in the memo of its process: a hit returns what an EARLIER job *)
(* of this process stored under the key, a miss computes the value and stores it for later jobs      *)
Hit(w, k) == \E e \in memo[w] : e.k = k
Stored(w, k) == (CHOOSE e \in memo[w] : e.k = k).v
Memo(w) == /\ pc[w] = "memo"
           /\ LET m == job[w] IN
                /\ names' = [names EXCEPT ![w] = [d \in Decls[m] |->
                                IF Hit(w, Key(keymode, m, d)) THEN Stored(w, Key(keymode, m, d)) ELSE Val(m, d)]]
                /\ memo' = [memo EXCEPT ![w] = @ \cup {[k |-> Key(keymode, m, d), v |-> Val(m, d)] :
                                                        d \in {x \in Decls[m] : ~Hit(w, Key(keymode, m, x))}}]
           /\ pc' = [pc EXCEPT ![w] = "trunc"]
           /\ UNCHANGED <<env, queue, job, got, hist, out>>
Truncate(w) == /\ pc[w] = "trunc"
               /\ out' = [out EXCEPT ![job[w]] = Partial] /\ pc' = [pc EXCEPT ![w] = "write"]
               /\ UNCHANGED <<env, queue, job, got, names, memo, hist>>
Write(w) == /\ pc[w] = "write"
            /\ out' = [out EXCEPT ![job[w]] = [src |-> job[w], deps |-> got[w] \ {job[w]}, names |-> names[w]]]
            /\ pc' = [pc EXCEPT ![w] = "idle"] /\ job' = [job EXCEPT ![w] = ""]
            /\ UNCHANGED <<env, queue, got, names, memo, hist>>

DoTake == \E w \in Workers : Take(w)
DoRead == \E w \in Workers : ReadOne(w)
DoMemo == \E w \in Workers : Memo(w)
DoTrunc == \E w \in Workers : Truncate(w)
DoWrite == \E w \in Workers : Write(w)
Next == DoTake \/ DoRead \/ DoMemo \/ DoTrunc \/ DoWrite
Spec == Init /\ [][Next]_vars

Done == queue = <<>> /\ \A w \in Workers : pc[w] = "idle"
Stale == {m \in Mods : out[m] # Fresh(m)}
(* whatever the schedule, order and seed: the final outputs are the fresh ones *)
ScheduleIndependent == (Done /\ keymode = "exact") => Stale = {}
(* no job is taken twice, no two workers write the same output *)
NoSharedOutput == \A w1, w2 \in Workers : (w1 # w2 /\ job[w1] # "") => job[w1] # job[w2]
(* the names a job got from the memo are the ones it computes on an empty memo, whatever ran before it *)
MemoHistoryIndependent == keymode = "exact" =>
    \A w \in Workers : pc[w] \in {"trunc", "write"} => names[w] = FreshNames(job[w])
(* a key determines its value: every entry is right for EVERY (module, declaration) that maps to its key *)
MemoSound == keymode = "exact" =>
    \A w \in Workers : \A e \in memo[w] : \A m \in Mods : \A d \in Decls[m] :
        Key(keymode, m, d) = e.k => e.v = Val(m, d)
(* memos are private to their process: what one process stored is never visible in another one *)
MemoPrivate == \A w \in Workers : \A e \in memo[w] : \E i \in 1..Len(hist[w]) : \E d \in Decls[hist[w][i]] :
                   e = [k |-> Key(keymode, hist[w][i], d), v |-> Val(hist[w][i], d)]
(* the hazard models do make outputs stale in some history (the model can express the defect class) *)
Publish == (Dump /\ Done) => PrintT("@@" \o ToJson([order |-> order, seed |-> seed, nworkers |-> nw, keymode |-> keymode,
                                                     hist |-> hist, stale |-> Stale]))
=============================================================================
