---------------------------- MODULE Determinism ----------------------------
(* C42: compiling the same sources with the same options gives byte-        *)
(* identical output whatever the hash seed, the process, the order and the  *)
(* parallelism of a multi-module build.                                     *)
(*                                                                          *)
(* Model of a cythonize build: M modules with a dependency relation (a      *)
(* module reads its own source and the sources of its dependencies, never   *)
(* another module's OUTPUT), a job list ordered by `order`, K worker        *)
(* processes that take jobs from the list.  A job reads its inputs (one     *)
(* action per file, so that reads interleave with other jobs' writes),      *)
(* computes F(inputs) and writes its output in two steps (truncate, write). *)
(* The environment (hash seed, job order, number of workers) is a constant  *)
(* no action reads: by construction every behaviour ends with               *)
(* out[m] = F(src[m], src of deps) -- checked as an invariant over ALL      *)
(* interleavings; the schedules (order, nthreads, seed) are published and   *)
(* each is executed with the real cythonize; outputs must be byte-identical *)
(* to the baseline schedule.                                                *)
EXTENDS Naturals, Sequences, FiniteSets, TLC, Json

CONSTANTS Mods,        \* set of module ids
          Deps,        \* [Mods -> SUBSET Mods]
          Workers,     \* set of worker ids (nthreads)
          Orders,      \* set of job orders (sequences over Mods) to explore
          Seeds,       \* hash seeds (environment only)
          Dump

VARIABLES order, seed, queue, job, got, out, pc
vars == <<order, seed, queue, job, got, out, pc>>

Fresh(m) == [src |-> m, deps |-> Deps[m]]       \* abstract F: a function of the module's inputs only
Empty == [src |-> "", deps |-> {}]
Partial == [src |-> "partial", deps |-> {}]

Init == /\ order \in Orders /\ seed \in Seeds
        /\ queue = order
        /\ job = [w \in Workers |-> ""]
        /\ got = [w \in Workers |-> {}]            \* input files read so far by the running job
        /\ out = [m \in Mods |-> Empty]
        /\ pc = [w \in Workers |-> "idle"]

Take(w) == /\ pc[w] = "idle" /\ queue # <<>>
           /\ job' = [job EXCEPT ![w] = Head(queue)] /\ queue' = Tail(queue)
           /\ got' = [got EXCEPT ![w] = {}] /\ pc' = [pc EXCEPT ![w] = "read"]
           /\ UNCHANGED <<order, seed, out>>
Inputs(m) == {m} \cup Deps[m]
ReadOne(w) == /\ pc[w] = "read"
              /\ \E f \in Inputs(job[w]) \ got[w] : got' = [got EXCEPT ![w] = @ \cup {f}]
              /\ pc' = [pc EXCEPT ![w] = IF got'[w] = Inputs(job[w]) THEN "trunc" ELSE "read"]
              /\ UNCHANGED <<order, seed, queue, job, out>>
Truncate(w) == /\ pc[w] = "trunc"
               /\ out' = [out EXCEPT ![job[w]] = Partial] /\ pc' = [pc EXCEPT ![w] = "write"]
               /\ UNCHANGED <<order, seed, queue, job, got>>
Write(w) == /\ pc[w] = "write"
            /\ out' = [out EXCEPT ![job[w]] = [src |-> job[w], deps |-> got[w] \ {job[w]}]]
            /\ pc' = [pc EXCEPT ![w] = "idle"] /\ job' = [job EXCEPT ![w] = ""]
            /\ UNCHANGED <<order, seed, queue, got>>

DoTake == \E w \in Workers : Take(w)
DoRead == \E w \in Workers : ReadOne(w)
DoTrunc == \E w \in Workers : Truncate(w)
DoWrite == \E w \in Workers : Write(w)
Next == DoTake \/ DoRead \/ DoTrunc \/ DoWrite
Spec == Init /\ [][Next]_vars

Done == queue = <<>> /\ \A w \in Workers : pc[w] = "idle"
(* whatever the schedule, order and seed: the final outputs are the fresh ones *)
ScheduleIndependent == Done => \A m \in Mods : out[m] = Fresh(m)
(* no job is taken twice, no two workers write the same output *)
NoSharedOutput == \A w1, w2 \in Workers : (w1 # w2 /\ job[w1] # "") => job[w1] # job[w2]

Publish == (Dump /\ Done) => PrintT("@@" \o ToJson([order |-> order, seed |-> seed, nworkers |-> Cardinality(Workers)]))
=============================================================================
