SPECIFICATION Spec
CONSTANTS
  Mode = "lattice"
  Slice = "flags6"
  MaxFields = 2
  MaxLen = 2
  Salts = {0, 1}
  SetVals = {2}
  MaxKw = 9
INVARIANT TypeOK
INVARIANT HashTableTotal
INVARIANT BindConflictFree
INVARIANT SignatureOK
INVARIANT OrderLaws
INVARIANT EqHashCoherent
INVARIANT ImplVsRefCfg
INVARIANT ImplVsRefStep
CHECK_DEADLOCK FALSE
