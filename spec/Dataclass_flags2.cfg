SPECIFICATION Spec
CONSTANTS
  Mode = "lattice"
  Slice = "flags"
  MaxFields = 2
  MaxLen = 3
  Salts = {0, 1}
  SetVals = {2}
INVARIANT TypeOK
INVARIANT HashTableTotal
INVARIANT BindConflictFree
INVARIANT SignatureOK
INVARIANT OrderLaws
INVARIANT EqHashCoherent
INVARIANT ImplVsRef
CHECK_DEADLOCK FALSE
