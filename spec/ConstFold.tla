----------------------------- MODULE ConstFold -----------------------------
(* C09, part 2: constant expressions keep the type and value CPython gives  *)
(* them (what Optimize.ConstantFolding evaluates at compile time, and what  *)
(* it leaves to C arithmetic on the literal operands at run time).          *)
(*                                                                          *)
(*  Reference  : Python's numeric semantics on int, bool and float, exact:  *)
(*               a float is a signed dyadic rational (sign bit, n / 2^d), so *)
(*               signed zeros, int/float mixing, true/floor division, the   *)
(*               sign rules of float // and %, bool arithmetic, bitwise ops *)
(*               on two's complement, shifts, **, comparison chains, `in`,  *)
(*               and/or, conditional expressions are all decided exactly.   *)
(*               Results outside the exact domain are "und" (not claimed).  *)
(*  Impl-shaped: (a) which sub-expressions ConstantFolding turns into a     *)
(*               literal node (`folded`; every unary operator on a literal, *)
(*               `~` included, gives a literal), (b) the C helper for       *)
(*               double % (__Pyx_mod_double: fmod and a sign fix-up) that   *)
(*               evaluates an unfolded float %.  The C type of an unfolded  *)
(*               `&`, `|`, `^` is bint only if BOTH operands are bint, i.e. *)
(*               where Python gives a bool as well, so it needs no model.   *)
(*               TLC proves that the implementation-shaped evaluation       *)
(*               equals the reference on every case (ImplAgrees).           *)
(* An expression is built token by token in postfix order; every state with *)
(* one value on the stack is a case (published for replay on compiled code).*)
EXTENDS Integers, Sequences, FiniteSets, TLC, Json

CONSTANTS Leaves,      \* literal texts that may be pushed
          UnOps, BinOps, CmpOps, ChainOps,
          MaxTok,      \* bound on the number of tokens
          Ternary,     \* BOOLEAN: chained comparison, `in`, conditional expression
          Dump

AllLeaves   == {"0", "1", "2", "3", "7", "0.0", "1.0", "2.0", "0.5", "1.5", "True", "False"}
SmallLeaves == {"0", "1", "3", "0.0", "1.5", "True"}
MidLeaves   == {"0", "1", "2", "7", "0.0", "1.0", "0.5", "True", "False"}
QuickLeaves == {"0", "1", "3", "0.0", "0.5", "1.5", "True", "False"}
AllUn       == {"neg", "pos", "inv", "not"}
AllBin      == {"+", "-", "*", "/", "//", "%", "**", "<<", ">>", "&", "|", "^", "and", "or"}
AllCmp      == {"<", "<=", "==", "!=", ">", ">="}
SomeChain   == {"<", "==", "!=", ">="}
NoOps       == {}

VARIABLES rpn, vals, ivals, lits
vars == <<rpn, vals, ivals, lits>>

---------------------------------------------------------------------------
(* values *)
BIG == 32768                            \* keeps every intermediate product below 2^31 (TLC integers)
V(k, v, s, n, d) == [k |-> k, v |-> v, s |-> s, n |-> n, d |-> d]
Und == V("und", 0, 0, 0, 0)
Err == V("err", 0, 0, 0, 0)          \* the expression raises in Python: no value, not a case
MkInt(x) == IF x > BIG \/ x < -BIG THEN Und ELSE V("int", x, 0, 0, 0)
MkBool(b) == V("bool", IF b THEN 1 ELSE 0, 0, 0, 0)
RECURSIVE NormF(_, _, _)
NormF(s, n, d) == IF n = 0 THEN V("float", 0, s, 0, 0)
                  ELSE IF d > 0 /\ n % 2 = 0 THEN NormF(s, n \div 2, d - 1)
                  ELSE IF n > BIG \/ d > 12 THEN Und ELSE V("float", 0, s, n, d)
MkFloat(s, n, d) == NormF(s, n, d)
Abs(x) == IF x < 0 THEN -x ELSE x
Pow2(e) == 2 ^ e
Max(a, b) == IF a > b THEN a ELSE b
Xor(a, b) == IF a = b THEN 0 ELSE 1

Decided(x) == x.k \in {"int", "bool", "float"}
IsF(x) == x.k = "float"
\* signed numerator and denominator exponent of any number
Num(x) == IF IsF(x) THEN (IF x.s = 1 THEN -x.n ELSE x.n) ELSE x.v
Den(x) == IF IsF(x) THEN x.d ELSE 0
SignBit(x) == IF IsF(x) THEN x.s ELSE (IF x.v < 0 THEN 1 ELSE 0)     \* of the number converted to float
IsZero(x) == Num(x) = 0
Truthy(x) == ~IsZero(x)
\* both numerators over the common denominator 2^D
Common(x, y) == LET D == Max(Den(x), Den(y)) IN
                [D |-> D, X |-> Num(x) * Pow2(D - Den(x)), Y |-> Num(y) * Pow2(D - Den(y))]

LeafValue(t) == CASE t = "0" -> MkInt(0) [] t = "1" -> MkInt(1) [] t = "2" -> MkInt(2) [] t = "3" -> MkInt(3)
                  [] t = "7" -> MkInt(7) [] t = "0.0" -> MkFloat(0, 0, 0) [] t = "1.0" -> MkFloat(0, 1, 0)
                  [] t = "2.0" -> MkFloat(0, 2, 0) [] t = "0.5" -> MkFloat(0, 1, 1) [] t = "1.5" -> MkFloat(0, 3, 1)
                  [] t = "True" -> MkBool(TRUE) [] t = "False" -> MkBool(FALSE)

---------------------------------------------------------------------------
(* unary operators *)
Neg(x) == IF IsF(x) THEN V("float", 0, 1 - x.s, x.n, x.d) ELSE MkInt(-x.v)
Pos(x) == IF x.k = "bool" THEN MkInt(x.v) ELSE x
Inv(x) == MkInt(-x.v - 1)                       \* int and bool only
Not(x) == MkBool(~Truthy(x))
UnApply(op, x) == CASE op = "neg" -> Neg(x) [] op = "pos" -> Pos(x) [] op = "inv" -> Inv(x) [] op = "not" -> Not(x)
UnDefined(op, x) == Decided(x) /\ (op = "inv" => ~IsF(x))

(* integer helpers: two's complement bit operations through floor halving *)
RECURSIVE BAnd(_, _), BOr(_, _), BXor(_, _)
BAnd(x, y) == IF x = 0 \/ y = 0 THEN 0 ELSE IF x = -1 THEN y ELSE IF y = -1 THEN x
              ELSE (x % 2) * (y % 2) + 2 * BAnd(x \div 2, y \div 2)
BOr(x, y) == IF x = 0 THEN y ELSE IF y = 0 THEN x ELSE IF x = -1 \/ y = -1 THEN -1
             ELSE Max(x % 2, y % 2) + 2 * BOr(x \div 2, y \div 2)
BXor(x, y) == IF x = 0 THEN y ELSE IF y = 0 THEN x ELSE IF x = -1 THEN -y - 1 ELSE IF y = -1 THEN -x - 1
              ELSE (((x % 2) + (y % 2)) % 2) + 2 * BXor(x \div 2, y \div 2)
FloorDivInt(a, b) == IF b > 0 THEN a \div b ELSE (-a) \div (-b)      \* TLA+ \div is floor division for a positive divisor
RECURSIVE StripTwos(_, _)
StripTwos(o, k) == IF o % 2 = 0 THEN StripTwos(o \div 2, k + 1) ELSE <<o, k>>

(* float arithmetic, exact on dyadic rationals, with IEEE-754 / CPython sign rules *)
FAdd(x, y) == LET c == Common(x, y) S == c.X + c.Y IN
              IF S # 0 THEN MkFloat(IF S < 0 THEN 1 ELSE 0, Abs(S), c.D)
              ELSE IF IsZero(x) /\ IsZero(y) THEN MkFloat(IF SignBit(x) = 1 /\ SignBit(y) = 1 THEN 1 ELSE 0, 0, 0)
              ELSE MkFloat(0, 0, 0)                                   \* x + (-x) = +0.0 (round to nearest)
FNegOf(y) == V("float", 0, 1 - SignBit(y), Abs(Num(y)), Den(y))       \* -(float(y))
FSub(x, y) == FAdd(x, FNegOf(y))
FMul(x, y) == IF Abs(Num(x)) > BIG \/ Abs(Num(y)) > BIG THEN Und
              ELSE MkFloat(Xor(SignBit(x), SignBit(y)), Abs(Num(x)) * Abs(Num(y)), Den(x) + Den(y))
FTrueDiv(x, y) == IF IsZero(y) THEN Err
                  ELSE LET num == Abs(Num(x)) * Pow2(Den(y))
                           st  == StripTwos(Abs(Num(y)), 0)          \* |y| = o * 2^k / 2^Den(y)
                           o   == st[1]
                           k   == st[2] + Den(x)
                       IN IF num % o # 0 THEN Und                    \* quotient is not a dyadic rational: not decided here
                          ELSE LET q == num \div o
                                   \* q / 2^k, but k may be "negative" through Den(y): handled by num's factor
                               IN MkFloat(Xor(SignBit(x), SignBit(y)), q, k)
\* floor(x / y) as an integer, for y # 0
FloorQ(x, y) == LET c == Common(x, y) IN FloorDivInt(c.X, c.Y)
\* CPython float_floor_div: floor of the exact quotient; a zero result takes the sign of x / y
FFloorDiv(x, y) == IF IsZero(y) THEN Err
                   ELSE LET q == FloorQ(x, y) IN
                        IF q # 0 THEN MkFloat(IF q < 0 THEN 1 ELSE 0, Abs(q), 0)
                        ELSE MkFloat(Xor(SignBit(x), SignBit(y)), 0, 0)
\* CPython float_rem: x - y * floor(x / y); a zero result takes the sign of y
FMod(x, y) == IF IsZero(y) THEN Err
              ELSE LET c == Common(x, y) R == c.X - FloorQ(x, y) * c.Y IN
                   IF R # 0 THEN MkFloat(IF R < 0 THEN 1 ELSE 0, Abs(R), c.D)
                   ELSE MkFloat(SignBit(y), 0, 0)
\* Cython's C helper __Pyx_mod_double (Utility/CMath.c, ModFloat), as of commit bc43ee563:
\*   r = fmod(a, b); if (r != 0) { if ((r < 0) != (b < 0)) r += b; } else r = copysign(0, b);
\* (before that commit: r += ((r != 0) & ((r < 0) ^ (b < 0))) * b, which left a zero remainder with
\*  the sign fmod gave it, i.e. sign(a) AND sign(b): 4.0 % -2.0 was +0.0 -- known finding KF-C09-3, fixed)
FModC(x, y) == IF IsZero(y) THEN Err
               ELSE LET c == Common(x, y)
                        T == (Abs(c.X) \div Abs(c.Y)) * (IF (c.X < 0) = (c.Y < 0) THEN 1 ELSE -1)   \* truncated quotient
                        F == c.X - T * c.Y                                                         \* fmod: sign of a
                        R == IF F # 0 /\ ((F < 0) # (c.Y < 0)) THEN F + c.Y ELSE F IN
                    IF R # 0 THEN MkFloat(IF R < 0 THEN 1 ELSE 0, Abs(R), c.D)
                    ELSE MkFloat(SignBit(y), 0, 0)

RECURSIVE PowRep(_, _, _, _)
\* acc * x^e by repeated multiplication (mul is FMul or integer multiplication)
PowRep(x, e, acc, isf) == IF e = 0 \/ ~Decided(acc) THEN acc
                          ELSE PowRep(x, e - 1, IF isf THEN FMul(acc, x) ELSE MkInt(acc.v * x.v), isf)

BothInt(x, y) == ~IsF(x) /\ ~IsF(y)
BothBool(x, y) == x.k = "bool" /\ y.k = "bool"
BitResult(x, y, r) == IF BothBool(x, y) THEN MkBool(r = 1) ELSE MkInt(r)

\* is `x op y` inside the domain this specification decides (types accepted by Python, bounded sizes)?
BinDefined(op, x, y) ==
  /\ Decided(x) /\ Decided(y)
  /\ op \in {"<<", ">>", "&", "|", "^"} => BothInt(x, y)
  /\ op \in {"<<", ">>"} => (y.v >= 0 /\ y.v <= 12 /\ Abs(x.v) <= 256)
  /\ op = "**" => (~IsF(y) /\ y.v >= 0 /\ y.v <= 6 /\ Abs(Num(x)) <= 16)

BinRef(op, x, y, modop(_, _)) ==
  CASE op = "and" -> IF Truthy(x) THEN y ELSE x
    [] op = "or"  -> IF Truthy(x) THEN x ELSE y
    [] op = "+"  -> IF BothInt(x, y) THEN MkInt(x.v + y.v) ELSE FAdd(x, y)
    [] op = "-"  -> IF BothInt(x, y) THEN MkInt(x.v - y.v) ELSE FSub(x, y)
    [] op = "*"  -> IF BothInt(x, y) THEN MkInt(x.v * y.v) ELSE FMul(x, y)
    [] op = "/"  -> FTrueDiv(x, y)
    [] op = "//" -> IF BothInt(x, y) THEN (IF y.v = 0 THEN Err ELSE MkInt(FloorDivInt(x.v, y.v))) ELSE FFloorDiv(x, y)
    [] op = "%"  -> IF BothInt(x, y) THEN (IF y.v = 0 THEN Err ELSE MkInt(x.v - y.v * FloorDivInt(x.v, y.v))) ELSE modop(x, y)
    [] op = "**" -> IF BothInt(x, y) THEN PowRep(x, y.v, MkInt(1), FALSE) ELSE PowRep(x, y.v, MkFloat(0, 1, 0), TRUE)
    [] op = "<<" -> MkInt(x.v * Pow2(y.v))
    [] op = ">>" -> MkInt(x.v \div Pow2(y.v))
    [] op = "&"  -> BitResult(x, y, BAnd(x.v, y.v))
    [] op = "|"  -> BitResult(x, y, BOr(x.v, y.v))
    [] op = "^"  -> BitResult(x, y, BXor(x.v, y.v))

Cmp(op, x, y) == LET c == Common(x, y) IN
                 CASE op = "<" -> c.X < c.Y [] op = "<=" -> c.X <= c.Y [] op = "==" -> c.X = c.Y
                   [] op = "!=" -> c.X # c.Y [] op = ">" -> c.X > c.Y [] op = ">=" -> c.X >= c.Y

---------------------------------------------------------------------------
(* tokens: [t, a, b] *)
Tok(t, a, b) == [t |-> t, a |-> a, b |-> b]
H == Len(vals)
Top(s, i) == s[Len(s) - i]                   \* i = 0: top of stack
Pop(s, k) == SubSeq(s, 1, Len(s) - k)
Room == Len(rpn) < MaxTok

Init == rpn = <<>> /\ vals = <<>> /\ ivals = <<>> /\ lits = <<>>

\* a pushed operand must still be consumable by an operator within the token budget
Push == /\ Room /\ H < 3 /\ Len(rpn) + 1 + (IF Ternary THEN (H + 1) \div 2 ELSE H) <= MaxTok
        /\ \E l \in Leaves :
             /\ rpn' = Append(rpn, Tok("leaf", l, ""))
             /\ vals' = Append(vals, LeafValue(l)) /\ ivals' = Append(ivals, LeafValue(l))
             /\ lits' = Append(lits, TRUE)

\* ConstantFolding.visit_UnopNode: "not", unary minus / plus / "~" (_handle_TildeNode) of a literal and any
\* operator on a bool literal give a literal again (only literals with a U / L / LL suffix, which are not
\* generated here, stay operator nodes under "~")
UnLit(op, x, lit) == lit

Unary == /\ Room /\ H >= 1
         /\ \E op \in UnOps :
              /\ UnDefined(op, Top(vals, 0)) /\ UnDefined(op, Top(ivals, 0))
              /\ rpn' = Append(rpn, Tok("un", op, ""))
              /\ vals' = Append(Pop(vals, 1), UnApply(op, Top(vals, 0)))
              /\ ivals' = Append(Pop(ivals, 1), UnApply(op, Top(ivals, 0)))
              /\ lits' = Append(Pop(lits, 1), UnLit(op, Top(vals, 0), Top(lits, 0)))

\* visit_BinopNode: folded into a literal only if both operands are literals and the result is not a
\* float; and/or: the chosen operand node is kept as it is
BinLit(op, x, y, r, lx, ly) ==
  IF op = "and" THEN (IF Truthy(x) THEN ly ELSE lx)
  ELSE IF op = "or" THEN (IF Truthy(x) THEN lx ELSE ly)
  ELSE lx /\ ly /\ ~IsF(r)

Binary == /\ Room /\ H >= 2
          /\ \E op \in BinOps :
               LET x == Top(vals, 1) y == Top(vals, 0) ix == Top(ivals, 1) iy == Top(ivals, 0)
                   r == BinRef(op, x, y, FMod)
                   lit == BinLit(op, x, y, r, Top(lits, 1), Top(lits, 0))
                   \* an unfolded float % goes through the C helper; NumBinopNode.compute_c_result_type types an
                   \* unfolded `&`, `|`, `^` as bint only if both operand types are bint (BitResult says the same)
                   ir == BinRef(op, ix, iy, FModC) IN
               /\ BinDefined(op, x, y) /\ BinDefined(op, ix, iy)
               /\ rpn' = Append(rpn, Tok("bin", op, ""))
               /\ vals' = Append(Pop(vals, 2), r) /\ ivals' = Append(Pop(ivals, 2), ir)
               /\ lits' = Append(Pop(lits, 2), lit)

Compare == /\ Room /\ H >= 2
           /\ \E op \in CmpOps :
                /\ Decided(Top(vals, 1)) /\ Decided(Top(vals, 0)) /\ Decided(Top(ivals, 1)) /\ Decided(Top(ivals, 0))
                /\ rpn' = Append(rpn, Tok("cmp", op, ""))
                /\ vals' = Append(Pop(vals, 2), MkBool(Cmp(op, Top(vals, 1), Top(vals, 0))))
                /\ ivals' = Append(Pop(ivals, 2), MkBool(Cmp(op, Top(ivals, 1), Top(ivals, 0))))
                /\ lits' = Append(Pop(lits, 2), TRUE)

All3Decided == /\ H >= 3 /\ \A i \in 0..2 : Decided(Top(vals, i)) /\ Decided(Top(ivals, i))

Chain == /\ Ternary /\ Room /\ All3Decided
         /\ \E o1 \in ChainOps, o2 \in ChainOps :
              LET f(s) == MkBool(Cmp(o1, Top(s, 2), Top(s, 1)) /\ Cmp(o2, Top(s, 1), Top(s, 0))) IN
              /\ rpn' = Append(rpn, Tok("chain", o1, o2))
              /\ vals' = Append(Pop(vals, 3), f(vals)) /\ ivals' = Append(Pop(ivals, 3), f(ivals))
              /\ lits' = Append(Pop(lits, 3), TRUE)

\* x in (a, b) / x not in (a, b): identity or equality with some item
Member == /\ Ternary /\ Room /\ All3Decided
          /\ \E neg \in BOOLEAN :
               LET f(s) == LET hit == Cmp("==", Top(s, 2), Top(s, 1)) \/ Cmp("==", Top(s, 2), Top(s, 0))
                           IN MkBool(IF neg THEN ~hit ELSE hit) IN
               /\ rpn' = Append(rpn, Tok("in", IF neg THEN "not in" ELSE "in", ""))
               /\ vals' = Append(Pop(vals, 3), f(vals)) /\ ivals' = Append(Pop(ivals, 3), f(ivals))
               /\ lits' = Append(Pop(lits, 3), TRUE)

\* a if c else b   (stack: a c b)
Cond == /\ Ternary /\ Room /\ All3Decided
        /\ rpn' = Append(rpn, Tok("cond", "", ""))
        /\ vals' = Append(Pop(vals, 3), IF Truthy(Top(vals, 1)) THEN Top(vals, 2) ELSE Top(vals, 0))
        /\ ivals' = Append(Pop(ivals, 3), IF Truthy(Top(ivals, 1)) THEN Top(ivals, 2) ELSE Top(ivals, 0))
        /\ lits' = Append(Pop(lits, 3), IF Truthy(Top(vals, 1)) THEN Top(lits, 2) ELSE Top(lits, 0))

Next == Push \/ Unary \/ Binary \/ Compare \/ Chain \/ Member \/ Cond
Spec == Init /\ [][Next]_vars

---------------------------------------------------------------------------
Complete == H = 1 /\ Len(rpn) >= 1
Case == Complete /\ Decided(vals[1])

(* well-formedness of the value domain *)
TypeOK == \A i \in 1..Len(vals) :
            LET x == vals[i] IN
            /\ x.k \in {"int", "bool", "float", "und", "err"}
            /\ x.k = "bool" => x.v \in {0, 1}
            /\ x.k = "float" => (x.v = 0 /\ x.s \in {0, 1} /\ (x.n = 0 => x.d = 0) /\ (x.d > 0 => x.n % 2 = 1))

(* algebraic sanity of the reference operators on the values met (guards against a wrong transcription): *)
(* the remainder identity and the sign rule of %, floor property of //, bitwise identities               *)
RefSound ==
  (Len(vals) >= 2 /\ Decided(Top(vals, 0)) /\ Decided(Top(vals, 1)) /\ ~IsZero(Top(vals, 0))) =>
    LET x == Top(vals, 1) y == Top(vals, 0)
        q == BinRef("//", x, y, FMod) r == BinRef("%", x, y, FMod) IN
    (Decided(q) /\ Decided(r)) =>
       /\ LET qy == BinRef("*", q, y, FMod) IN Decided(qy) => Cmp("==", BinRef("+", qy, r, FMod), x)     \* x = q*y + r
       /\ IsZero(r) \/ (SignBit(r) = SignBit(y))                                                         \* r has the sign of y
       /\ Cmp("<", IF SignBit(y) = 0 THEN r ELSE y, IF SignBit(y) = 0 THEN y ELSE r) \/ IsZero(r)       \* |r| < |y|
       /\ BothInt(x, y) => /\ BAnd(x.v, y.v) + BOr(x.v, y.v) = x.v + y.v
                           /\ BXor(x.v, y.v) = BOr(x.v, y.v) - BAnd(x.v, y.v)

(* the implementation-shaped evaluation (folded or not, C helper for float %) agrees with the reference *)
(* on every stack entry of every state: no hazard is left                                               *)
ImplAgrees == vals = ivals /\ Len(lits) = Len(vals)

Publish == (Dump /\ Case) =>
             PrintT("@@" \o ToJson([rpn |-> rpn, val |-> vals[1], folded |-> lits[1]]))
CountErr == (Dump /\ Complete /\ ~Case) => PrintT("@@" \o ToJson([skipped |-> vals[1].k]))
=============================================================================
