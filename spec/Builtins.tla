------------------------------ MODULE Builtins ------------------------------
(* C13: reference semantics of the builtin calls and builtin-type methods    *)
(* that Cython replaces with specialised code (Optimize.py, Builtin.py).     *)
(*                                                                           *)
(* A Python value is a triple <<tag, sub, payload>>:                         *)
(*   tag  None bool int big float fnz fnan finf str bytes bytearray list     *)
(*        tuple set frozenset dict type types exc                            *)
(*   sub  ""  exact builtin type, "S" plain subclass, "O" subclass whose     *)
(*        optimised methods are overridden (return 'ovr', __len__ = 7)       *)
(*   payload  int: the number; big: +-1 = +-2^70, +-2 = +-(2^32+65);         *)
(*        float: quarters; str/bytes/bytearray: code points / byte values;   *)
(*        list/tuple: sequence of values; set/frozenset: set of values;      *)
(*        dict: sequence of <<key, value>>; type(s): sequence of type names; *)
(*        exc: <<class name, argument>> = an exception instance cls(arg)     *)
(* One state per case (shape, args); the state carries the outcome           *)
(* <<"v", value>> | <<"e", exception type, payload>> and the receiver after  *)
(* the call.  payload = <<"args", values>> where the exception carries data  *)
(* of the call (KeyError(key); Unicode errors: object, start, end), and      *)
(* <<"msg", <<>>>> where its arguments are message text (not modelled).      *)
(* Every shape is defined by guarded branches; TLC checks that exactly one   *)
(* branch applies (Functional), that outcomes are well formed (WellFormed),  *)
(* and declarative laws tying the operators together (Laws).  All states     *)
(* are published for replay on compiled code.                                *)
EXTENDS Integers, Sequences, FiniteSets, TLC, Json

CONSTANTS Level,    \* 1 quick, 2 thorough (larger pools)
          Groups,   \* shape groups explored by this run
          Dump

Tag(v) == v[1]
SubOf(v) == v[2]
Pay(v) == v[3]

None == <<"None", "", 0>>
Bo(b) == <<"bool", "", b>>
I(n) == <<"int", "", n>>
Big(k) == <<"big", "", k>>
Fl(q) == <<"float", "", q>>
NaN == <<"fnan", "", 0>>
Inf == <<"finf", "", 1>>
NInf == <<"finf", "", -1>>
NZ == <<"fnz", "", 0>>
St(c) == <<"str", "", c>>
By(c) == <<"bytes", "", c>>
Ba(c) == <<"bytearray", "", c>>
Li(s) == <<"list", "", s>>
Tu(s) == <<"tuple", "", s>>
Se(S) == <<"set", "", S>>
Fs(S) == <<"frozenset", "", S>>
Di(s) == <<"dict", "", s>>
Ty(n) == <<"type", "", <<n>>>>
Tys(ns) == <<"types", "", ns>>
Sub(v, s) == <<v[1], s, v[3]>>
Exact(v) == <<v[1], "", v[3]>>
WithPay(v, p) == <<v[1], v[2], p>>
Ovr == St(<<111, 118, 114>>)          \* 'ovr'
AnyPost == <<"any", "", 0>>           \* receiver state left unspecified by the reference

Ex(n, v) == <<"exc", "", <<n, v>>>>    \* the exception instance n(v)
Val(v) == <<"v", v>>
MsgArgs == <<"msg", <<>>>>
Exc(n) == <<"e", n, MsgArgs>>
ExcArgs(n, vs) == <<"e", n, <<"args", vs>>>>
TE == Exc("TypeError")
AE == Exc("AttributeError")
VE == Exc("ValueError")
IE == Exc("IndexError")
KE == Exc("KeyError")
OE == Exc("OverflowError")
KEk(k) == ExcArgs("KeyError", <<k>>)   \* the lookup errors carry the missing key: KeyError(key).args = (key,)

\* guarded branch: the outcome expression is evaluated only when the guard holds
Br(g, o) == IF g THEN {o} ELSE {}

NumTags == {"bool", "int", "big", "float", "fnan", "finf", "fnz"}
IsNum(v) == Tag(v) \in NumTags
IsIntLike(v) == Tag(v) \in {"bool", "int", "big"}
IsFloat(v) == Tag(v) \in {"float", "fnan", "finf", "fnz"}
Kind(v) == CASE IsNum(v) -> "num"
             [] Tag(v) \in {"bytes", "bytearray"} -> "bytes"
             [] Tag(v) \in {"set", "frozenset"} -> "set"
             [] Tag(v) \in {"type", "types"} -> "type"
             [] OTHER -> Tag(v)
IsNone(v) == Tag(v) = "None"
IsO(v) == SubOf(v) = "O"
SeqKinds == {"str", "bytes", "list", "tuple"}
Sized(v) == Kind(v) \in {"str", "bytes", "list", "tuple", "set", "dict"}

\* numbers on a common scale of quarters (proxies for the values outside the small range)
Q(v) == CASE Tag(v) = "bool" -> IF Pay(v) THEN 4 ELSE 0
          [] Tag(v) = "int" -> 4 * Pay(v)
          [] Tag(v) = "big" -> (IF Pay(v) = 1 THEN 2000000000 ELSE IF Pay(v) = -1 THEN -2000000000
                                ELSE IF Pay(v) = 2 THEN 1900000000 ELSE -1900000000)
          [] Tag(v) = "float" -> Pay(v)
          [] Tag(v) = "fnz" -> 0
          [] Tag(v) = "finf" -> Pay(v) * 2100000000
          [] OTHER -> 0
NumLt(a, b) == Tag(a) # "fnan" /\ Tag(b) # "fnan" /\ Q(a) < Q(b)
NumEq(a, b) == Tag(a) # "fnan" /\ Tag(b) # "fnan" /\ Q(a) = Q(b)
AbsI(n) == IF n < 0 THEN -n ELSE n
MinI(a, b) == IF a < b THEN a ELSE b
MaxI(a, b) == IF a > b THEN a ELSE b

RECURSIVE PyEq(_, _)
PyEq(a, b) ==
  IF IsNum(a) /\ IsNum(b) THEN NumEq(a, b)
  ELSE IF Kind(a) # Kind(b) THEN FALSE
  ELSE CASE Kind(a) \in {"str", "bytes"} -> Pay(a) = Pay(b)
         [] Kind(a) \in {"list", "tuple"} -> /\ Len(Pay(a)) = Len(Pay(b))
                                             /\ \A i \in 1..Len(Pay(a)) : PyEq(Pay(a)[i], Pay(b)[i])
         [] Kind(a) = "set" -> /\ \A x \in Pay(a) : \E y \in Pay(b) : PyEq(x, y)
                               /\ \A y \in Pay(b) : \E x \in Pay(a) : PyEq(x, y)
         [] Kind(a) = "None" -> TRUE
         [] OTHER -> Pay(a) = Pay(b)      \* exc: identity; a pool value stands for one object, so equal payloads = the same object

RECURSIVE Hashable(_)
Hashable(v) == CASE Tag(v) \in {"list", "set", "dict", "bytearray"} -> FALSE
                 [] Tag(v) = "tuple" -> \A i \in 1..Len(Pay(v)) : Hashable(Pay(v)[i])
                 [] OTHER -> TRUE

RECURSIVE SeqLt(_, _)     \* lexicographic order on integer sequences
SeqLt(a, b) == IF b = <<>> THEN FALSE
               ELSE IF a = <<>> THEN TRUE
               ELSE IF Head(a) # Head(b) THEN Head(a) < Head(b)
               ELSE SeqLt(Tail(a), Tail(b))

\* a < b : "T", "F" or "E" (TypeError)
RECURSIVE Lt3(_, _), LexLt3(_, _)
Lt3(a, b) == IF IsNum(a) /\ IsNum(b) THEN (IF NumLt(a, b) THEN "T" ELSE "F")
             ELSE IF Kind(a) = Kind(b) /\ Kind(a) \in {"str", "bytes"} THEN (IF SeqLt(Pay(a), Pay(b)) THEN "T" ELSE "F")
             ELSE IF Kind(a) = Kind(b) /\ Kind(a) \in {"list", "tuple"} THEN LexLt3(Pay(a), Pay(b))
             ELSE "E"
LexLt3(a, b) == IF b = <<>> THEN "F"
                ELSE IF a = <<>> THEN "T"
                ELSE IF PyEq(Head(a), Head(b)) THEN LexLt3(Tail(a), Tail(b))
                ELSE Lt3(Head(a), Head(b))

Truth(v) == CASE IsNone(v) -> FALSE
              [] Tag(v) = "bool" -> Pay(v)
              [] Tag(v) = "fnan" -> TRUE
              [] IsNum(v) -> Q(v) # 0
              [] Kind(v) = "type" -> TRUE
              [] IsO(v) -> TRUE                                  \* __len__ returns 7
              [] Kind(v) = "set" -> Pay(v) # {}
              [] OTHER -> Pay(v) # <<>>
SizeOf(v) == IF IsO(v) THEN 7 ELSE IF Kind(v) = "set" THEN Cardinality(Pay(v)) ELSE Len(Pay(v))

RECURSIVE SetSeq(_)       \* some enumeration of a set (only used where the order cannot be observed)
SetSeq(S) == IF S = {} THEN <<>> ELSE LET x == CHOOSE x \in S : TRUE IN <<x>> \o SetSeq(S \ {x})

Iterable(v) == Kind(v) \in {"str", "bytes", "list", "tuple", "set", "dict"}
Iter(v) == CASE Kind(v) = "str" -> [i \in 1..Len(Pay(v)) |-> St(<<Pay(v)[i]>>)]
             [] Kind(v) = "bytes" -> [i \in 1..Len(Pay(v)) |-> I(Pay(v)[i])]
             [] Kind(v) \in {"list", "tuple"} -> Pay(v)
             [] Kind(v) = "set" -> SetSeq(Pay(v))
             [] Kind(v) = "dict" -> [i \in 1..Len(Pay(v)) |-> Pay(v)[i][1]]
             [] OTHER -> <<>>

Range(s) == {s[i] : i \in 1..Len(s)}
RECURSIVE SumSeq(_)
SumSeq(s) == IF s = <<>> THEN 0 ELSE Head(s) + SumSeq(Tail(s))
SubSeqSafe(s, lo, hi) == IF lo > hi THEN <<>> ELSE SubSeq(s, lo, hi)     \* 1-based inclusive
Slice0(s, a, b) == SubSeqSafe(s, a + 1, b)                               \* s[a:b] for 0 <= a, b <= Len(s)
RemoveAt(s, i) == SubSeqSafe(s, 1, i - 1) \o SubSeqSafe(s, i + 1, Len(s))
InsertAt(s, i, x) == SubSeqSafe(s, 1, i) \o <<x>> \o SubSeqSafe(s, i + 1, Len(s))   \* x becomes element i+1
Rev(s) == [i \in 1..Len(s) |-> s[Len(s) + 1 - i]]
RECURSIVE Concat(_)
Concat(ss) == IF ss = <<>> THEN <<>> ELSE Head(ss) \o Concat(Tail(ss))
RECURSIVE Repeat(_, _)
Repeat(s, n) == IF n <= 0 THEN <<>> ELSE s \o Repeat(s, n - 1)

\* first position (1-based) of an element equal to k, 0 if none
RECURSIVE FindEq(_, _, _)
FindEq(s, k, i) == IF i > Len(s) THEN 0 ELSE IF PyEq(s[i], k) THEN i ELSE FindEq(s, k, i + 1)
Member(s, k) == FindEq(s, k, 1) # 0

\* set construction: keep the first of equal elements
RECURSIVE Dedup(_, _)
Dedup(s, acc) == IF s = <<>> THEN acc
                 ELSE IF \E y \in acc : PyEq(Head(s), y) THEN Dedup(Tail(s), acc)
                 ELSE Dedup(Tail(s), acc \cup {Head(s)})
AllHashable(s) == \A i \in 1..Len(s) : Hashable(s[i])

\* dict construction from pairs: a later equal key replaces the value, the first key object stays
RECURSIVE DictIdx(_, _, _)
DictIdx(d, k, i) == IF i > Len(d) THEN 0 ELSE IF PyEq(d[i][1], k) THEN i ELSE DictIdx(d, k, i + 1)
DictPut(d, k, v) == LET i == DictIdx(d, k, 1) IN
                    IF i = 0 THEN Append(d, <<k, v>>) ELSE [d EXCEPT ![i] = <<d[i][1], v>>]
RECURSIVE DictFrom(_, _)
DictFrom(pairs, acc) == IF pairs = <<>> THEN acc ELSE DictFrom(Tail(pairs), DictPut(acc, Head(pairs)[1], Head(pairs)[2]))

\* stable insertion sort by Lt3 (callers exclude incomparable pairs)
RECURSIVE InsSorted(_, _), PySort(_)
InsSorted(s, x) == IF s = <<>> THEN <<x>>
                   ELSE IF Lt3(x, s[Len(s)]) = "T" THEN Append(InsSorted(SubSeqSafe(s, 1, Len(s) - 1), x), s[Len(s)])
                   ELSE Append(s, x)
PySort(s) == IF s = <<>> THEN <<>> ELSE InsSorted(PySort(SubSeqSafe(s, 1, Len(s) - 1)), s[Len(s)])
Sortable(s) == \A i \in 1..Len(s) : \A j \in 1..Len(s) : i # j => Lt3(s[i], s[j]) # "E"
SortOutcome(s) == IF Len(s) >= 2 /\ ~Sortable(s) THEN TE ELSE Val(Li(PySort(s)))

\* index conversions
\* PyNumber_AsSsize_t-like: <<"ok", n>> | <<"te">> | <<"big", sign>>
AsIndex(v) == CASE Tag(v) = "bool" -> <<"ok", IF Pay(v) THEN 1 ELSE 0>>
                [] Tag(v) = "int" -> <<"ok", Pay(v)>>
                [] Tag(v) = "big" -> IF AbsI(Pay(v)) = 2 THEN <<"ok", Pay(v) * 950000000>>      \* fits Py_ssize_t: far out of any range
                                     ELSE <<"big", Pay(v)>>
                [] OTHER -> <<"te", 0>>
\* slice-style bound: None -> default, outside Py_ssize_t clamps
SliceIdx(v, dflt) == IF IsNone(v) THEN <<"ok", dflt>>
                     ELSE LET c == AsIndex(v) IN IF c[1] = "big" THEN <<"ok", c[2] * 1000000000>> ELSE c
HUGE == 1000000000
AdjStart(a, n) == IF a < 0 THEN MaxI(a + n, 0) ELSE a
AdjEnd(b, n) == IF b > n THEN n ELSE IF b < 0 THEN MaxI(b + n, 0) ELSE b

---------------------------------------------------------------------------
(* numeric builtins *)
U(o, a) == <<o, a[1]>>            \* outcome with an unchanged first argument

AbsVal(x) == CASE Tag(x) = "bool" -> I(IF Pay(x) THEN 1 ELSE 0)
               [] Tag(x) = "int" -> I(AbsI(Pay(x)))
               [] Tag(x) = "big" -> Big(AbsI(Pay(x)))
               [] Tag(x) = "float" -> Fl(AbsI(Pay(x)))
               [] Tag(x) = "fnz" -> Fl(0)
               [] Tag(x) = "finf" -> Inf
               [] OTHER -> NaN
D_len(a) == LET x == a[1] IN Br(Sized(x), U(Val(I(SizeOf(x))), a)) \cup Br(~Sized(x), U(TE, a))
D_abs(a) == LET x == a[1] IN Br(IsNum(x), U(Val(AbsVal(x)), a)) \cup Br(~IsNum(x), U(TE, a))

\* min(a, b): the later argument wins only if strictly smaller
Min2(x, y) == LET c == Lt3(y, x) IN IF c = "E" THEN TE ELSE IF c = "T" THEN Val(y) ELSE Val(x)
Max2(x, y) == LET c == Lt3(x, y) IN IF c = "E" THEN TE ELSE IF c = "T" THEN Val(y) ELSE Val(x)
D_min2(a) == {U(Min2(a[1], a[2]), a)}
D_max2(a) == {U(Max2(a[1], a[2]), a)}
D_min3(a) == LET m == Min2(a[1], a[2]) IN {U(IF m[1] = "e" THEN m ELSE Min2(m[2], a[3]), a)}
D_max3(a) == LET m == Max2(a[1], a[2]) IN {U(IF m[1] = "e" THEN m ELSE Max2(m[2], a[3]), a)}

\* sum: 0 + x1 + x2 ...; ints stay ints, a float operand makes the result float; others TypeError
Addable(v) == Tag(v) \in {"bool", "int", "float", "fnz"}
RECURSIVE SumFrom(_, _, _)
SumFrom(s, accq, isf) == IF s = <<>> THEN Val(IF isf THEN Fl(accq) ELSE I(accq \div 4))
                         ELSE IF ~Addable(Head(s)) THEN TE
                         ELSE SumFrom(Tail(s), accq + Q(Head(s)), isf \/ IsFloat(Head(s)))
D_sum(a) == LET x == a[1] IN Br(Iterable(x), U(SumFrom(Iter(x), 0, FALSE), a)) \cup Br(~Iterable(x), U(TE, a))

D_ord(a) == LET x == a[1] IN
            Br(Kind(x) \in {"str", "bytes"} /\ Len(Pay(x)) = 1, U(Val(I(Pay(x)[1])), a))
            \cup Br(~(Kind(x) \in {"str", "bytes"} /\ Len(Pay(x)) = 1), U(TE, a))
D_chr(a) == LET x == a[1] IN
            Br(Tag(x) \in {"bool", "int"} /\ Q(x) \div 4 \in 0..1114111, U(Val(St(<<Q(x) \div 4>>)), a))
            \cup Br(Tag(x) \in {"bool", "int"} /\ ~(Q(x) \div 4 \in 0..1114111), U(VE, a))
            \cup Br(Tag(x) = "big", U(OE, a))
            \cup Br(~IsIntLike(x), U(TE, a))

\* text of an integer: optional blanks, sign, digits with single inner underscores
WS == {9, 10, 11, 12, 13, 32}
RECURSIVE LStrip(_), RStrip(_)
LStrip(s) == IF s # <<>> /\ Head(s) \in WS THEN LStrip(Tail(s)) ELSE s
RStrip(s) == IF s # <<>> /\ s[Len(s)] \in WS THEN RStrip(SubSeqSafe(s, 1, Len(s) - 1)) ELSE s
Strip(s) == RStrip(LStrip(s))
IsDigit(c) == c \in 48..57
DigitsOK(s) == /\ s # <<>> /\ IsDigit(s[1]) /\ IsDigit(s[Len(s)])
               /\ \A i \in 1..Len(s) : IsDigit(s[i]) \/ (s[i] = 95 /\ i > 1 /\ s[i - 1] # 95)
RECURSIVE DigitsVal(_, _)
DigitsVal(s, acc) == IF s = <<>> THEN acc
                     ELSE IF Head(s) = 95 THEN DigitsVal(Tail(s), acc)
                     ELSE DigitsVal(Tail(s), 10 * acc + (Head(s) - 48))
ParseInt(s0) == LET s == Strip(s0)
                    neg == s # <<>> /\ s[1] = 45
                    body == IF s # <<>> /\ s[1] \in {43, 45} THEN Tail(s) ELSE s
                IN IF DigitsOK(body) THEN Val(I((IF neg THEN -1 ELSE 1) * DigitsVal(body, 0))) ELSE VE
TruncQ(q) == IF q < 0 THEN -((-q) \div 4) ELSE q \div 4
D_int(a) == LET x == a[1] IN
            Br(IsIntLike(x), U(Val(IF Tag(x) = "bool" THEN I(Q(x) \div 4) ELSE Exact(x)), a))
            \cup Br(Tag(x) \in {"float", "fnz"}, U(Val(I(TruncQ(Q(x)))), a))
            \cup Br(Tag(x) = "fnan", U(VE, a))
            \cup Br(Tag(x) = "finf", U(OE, a))
            \cup Br(Kind(x) \in {"str", "bytes"}, U(ParseInt(Pay(x)), a))
            \cup Br(~IsNum(x) /\ ~(Kind(x) \in {"str", "bytes"}), U(TE, a))

\* text of a float: [sign] digits [. fraction] with fraction in quarters, or nan / inf
FracQ(f) == CASE f = <<>> -> 0 [] f = <<48>> -> 0 [] f = <<53>> -> 2 [] f = <<50, 53>> -> 1 [] f = <<55, 53>> -> 3 [] OTHER -> -1
DotPos(s) == IF \E i \in 1..Len(s) : s[i] = 46 THEN CHOOSE i \in 1..Len(s) : s[i] = 46 /\ \A j \in 1..(i - 1) : s[j] # 46 ELSE 0
Lower(s) == [i \in 1..Len(s) |-> IF s[i] \in 65..90 THEN s[i] + 32 ELSE s[i]]
ParseFloat(s0) == LET s == Strip(s0)
                      neg == s # <<>> /\ s[1] = 45
                      body == IF s # <<>> /\ s[1] \in {43, 45} THEN Tail(s) ELSE s
                      lb == Lower(body)
                      d == DotPos(body)
                      ip == IF d = 0 THEN body ELSE SubSeqSafe(body, 1, d - 1)
                      fp == IF d = 0 THEN <<>> ELSE SubSeqSafe(body, d + 1, Len(body))
                      sg == IF neg THEN -1 ELSE 1
                  IN IF lb = <<110, 97, 110>> THEN Val(NaN)
                     ELSE IF lb = <<105, 110, 102>> \/ lb = <<105, 110, 102, 105, 110, 105, 116, 121>> THEN Val(IF neg THEN NInf ELSE Inf)
                     ELSE IF (ip = <<>> /\ fp = <<>>) \/ (ip # <<>> /\ ~DigitsOK(ip)) \/ FracQ(fp) < 0 THEN VE
                     ELSE LET q == 4 * DigitsVal(ip, 0) + FracQ(fp) IN
                          Val(IF q = 0 /\ neg THEN NZ ELSE Fl(sg * q))
D_float(a) == LET x == a[1] IN
              Br(Tag(x) \in {"bool", "int"}, U(Val(Fl(Q(x))), a))
              \cup Br(IsFloat(x), U(Val(Exact(x)), a))
              \cup Br(Kind(x) \in {"str", "bytes"}, U(ParseFloat(Pay(x)), a))
              \cup Br(~(Tag(x) \in {"bool", "int"}) /\ ~IsFloat(x) /\ ~(Kind(x) \in {"str", "bytes"}), U(TE, a))
D_bool(a) == {U(Val(Bo(Truth(a[1]))), a)}

RECURSIVE NatStr(_)
NatStr(n) == IF n < 10 THEN <<48 + n>> ELSE Append(NatStr(n \div 10), 48 + (n % 10))
IntStr(n) == IF n < 0 THEN <<45>> \o NatStr(-n) ELSE NatStr(n)
D_str(a) == LET x == a[1] IN
            Br(Tag(x) = "str", U(Val(St(Pay(x))), a))
            \cup Br(Tag(x) = "int", U(Val(St(IntStr(Pay(x)))), a))
            \cup Br(Tag(x) = "bool", U(Val(St(IF Pay(x) THEN <<84, 114, 117, 101>> ELSE <<70, 97, 108, 115, 101>>)), a))
            \cup Br(IsNone(x), U(Val(St(<<78, 111, 110, 101>>)), a))

---------------------------------------------------------------------------
(* predicates and constructors *)
AnyOf(s) == \E i \in 1..Len(s) : Truth(s[i])
AllOf(s) == \A i \in 1..Len(s) : Truth(s[i])
D_any(a) == LET x == a[1] IN Br(Iterable(x), U(Val(Bo(AnyOf(Iter(x)))), a)) \cup Br(~Iterable(x), U(TE, a))
D_all(a) == LET x == a[1] IN Br(Iterable(x), U(Val(Bo(AllOf(Iter(x)))), a)) \cup Br(~Iterable(x), U(TE, a))

TypeName(v) == CASE IsNone(v) -> "NoneType"
                 [] Tag(v) = "big" -> "int"
                 [] IsFloat(v) -> "float"
                 [] Kind(v) = "type" -> "type"
                 [] OTHER -> Tag(v)
IsInst(v, n) == n = "object" \/ n = TypeName(v) \/ (n = "int" /\ Tag(v) = "bool")
D_isinstance(a) == {U(Val(Bo(\E i \in 1..Len(Pay(a[2])) : IsInst(a[1], Pay(a[2])[i]))), a)}

D_list(a) == LET x == a[1] IN Br(Iterable(x), U(Val(Li(Iter(x))), a)) \cup Br(~Iterable(x), U(TE, a))
D_tuple(a) == LET x == a[1] IN Br(Iterable(x), U(Val(Tu(Iter(x))), a)) \cup Br(~Iterable(x), U(TE, a))
SetOutcome(x, frozen) == IF ~Iterable(x) \/ ~AllHashable(Iter(x)) THEN TE
                         ELSE Val(IF frozen THEN Fs(Dedup(Iter(x), {})) ELSE Se(Dedup(Iter(x), {})))
D_set(a) == {U(SetOutcome(a[1], FALSE), a)}
D_frozenset(a) == {U(SetOutcome(a[1], TRUE), a)}

\* dict(x): a dict is copied; otherwise every element must be an iterable of length 2 with a hashable first item
RECURSIVE PairsFrom(_, _)
PairsFrom(s, acc) == IF s = <<>> THEN Val(Di(acc))
                     ELSE IF ~Iterable(Head(s)) THEN TE
                     ELSE LET e == Iter(Head(s)) IN
                          IF Len(e) # 2 THEN VE
                          ELSE IF ~Hashable(e[1]) THEN TE
                          ELSE PairsFrom(Tail(s), DictPut(acc, e[1], e[2]))
D_dict(a) == LET x == a[1] IN
             Br(Tag(x) = "dict", U(Val(Di(Pay(x))), a))
             \cup Br(Tag(x) # "dict" /\ Iterable(x), U(PairsFrom(Iter(x), <<>>), a))
             \cup Br(~Iterable(x), U(TE, a))
DictGen(s) == IF ~AllHashable(s) THEN TE ELSE Val(Di(DictFrom([i \in 1..Len(s) |-> <<s[i], s[i]>>], <<>>)))
D_dictgen(a) == LET x == a[1] IN Br(Iterable(x), U(DictGen(Iter(x)), a)) \cup Br(~Iterable(x), U(TE, a))
D_sorted(a) == LET x == a[1] IN Br(Iterable(x), U(SortOutcome(Iter(x)), a)) \cup Br(~Iterable(x), U(TE, a))

---------------------------------------------------------------------------
(* dict, list, set and bytearray methods: results are <<outcome, receiver afterwards>> *)
IsDictR(d) == Tag(d) = "dict" /\ ~IsO(d)        \* a real dict (exact or plain subclass)
IsListR(x) == Tag(x) = "list" /\ ~IsO(x)
IsSetR(s) == Tag(s) = "set" /\ ~IsO(s)
IsBaR(b) == Tag(b) = "bytearray" /\ ~IsO(b)

DictGet(d, k, dflt) == IF ~Hashable(k) THEN <<TE, d>>
                       ELSE LET i == DictIdx(Pay(d), k, 1) IN <<Val(IF i = 0 THEN dflt ELSE Pay(d)[i][2]), d>>
DictSetDefault(d, k, dflt) == IF ~Hashable(k) THEN <<TE, d>>
                              ELSE LET i == DictIdx(Pay(d), k, 1) IN
                                   IF i = 0 THEN <<Val(dflt), WithPay(d, Append(Pay(d), <<k, dflt>>))>>
                                   ELSE <<Val(Pay(d)[i][2]), d>>
\* has = a default was given
DictPop(d, k, has, dflt) == IF Pay(d) = <<>> THEN <<IF has THEN Val(dflt) ELSE KEk(k), d>>   \* an empty dict does not hash the key
                            ELSE IF ~Hashable(k) THEN <<TE, d>>
                            ELSE LET i == DictIdx(Pay(d), k, 1) IN
                                 IF i = 0 THEN <<IF has THEN Val(dflt) ELSE KEk(k), d>>
                                 ELSE <<Val(Pay(d)[i][2]), WithPay(d, RemoveAt(Pay(d), i))>>

\* list.pop(i) / bytearray.pop(i) on payload p with element constructor
PopIndex(x, i, elem(_)) == LET c == AsIndex(i) n == Len(Pay(x)) IN
                           IF c[1] = "te" THEN <<TE, x>>
                           ELSE IF c[1] = "big" THEN <<OE, x>>
                           ELSE IF n = 0 THEN <<IE, x>>
                           ELSE LET j == IF c[2] < 0 THEN c[2] + n ELSE c[2] IN
                                IF j < 0 \/ j >= n THEN <<IE, x>>
                                ELSE <<Val(elem(Pay(x)[j + 1])), WithPay(x, RemoveAt(Pay(x), j + 1))>>
IdV(v) == v
\* value accepted as a byte by bytearray: <<"ok", n>> | <<"te">> | <<"ve">>
AsByte(v) == CASE Tag(v) \in {"bool", "int"} -> (IF Q(v) \div 4 \in 0..255 THEN <<"ok", Q(v) \div 4>> ELSE <<"ve", 0>>)
               [] Tag(v) = "big" -> <<"ve", 0>>
               [] OTHER -> <<"te", 0>>
BaAppend(b, v) == LET c == AsByte(v) IN
                  IF c[1] = "te" THEN <<TE, b>> ELSE IF c[1] = "ve" THEN <<VE, b>>
                  ELSE <<Val(None), WithPay(b, Append(Pay(b), c[2]))>>

\* receivers that are no dict: None, an overriding subclass, a list, anything else
D_d_get1(a) == LET d == a[1] IN Br(IsDictR(d), DictGet(d, a[2], None)) \cup Br(IsO(d), <<Val(Ovr), d>>)
                                \cup Br(Tag(d) # "dict", <<AE, d>>)
D_d_get2(a) == LET d == a[1] IN Br(IsDictR(d), DictGet(d, a[2], a[3])) \cup Br(IsO(d), <<Val(Ovr), d>>)
                                \cup Br(Tag(d) # "dict", <<AE, d>>)
D_d_setdefault1(a) == LET d == a[1] IN Br(IsDictR(d), DictSetDefault(d, a[2], None)) \cup Br(IsO(d), <<Val(Ovr), d>>)
                                       \cup Br(Tag(d) # "dict", <<AE, d>>)
D_d_setdefault2(a) == LET d == a[1] IN Br(IsDictR(d), DictSetDefault(d, a[2], a[3])) \cup Br(IsO(d), <<Val(Ovr), d>>)
                                       \cup Br(Tag(d) # "dict", <<AE, d>>)
D_d_pop1(a) == LET d == a[1] IN Br(IsDictR(d), DictPop(d, a[2], FALSE, None)) \cup Br(IsO(d), <<Val(Ovr), d>>)
                                \cup Br(IsListR(d), PopIndex(d, a[2], IdV))
                                \cup Br(Tag(d) \notin {"dict", "list"}, <<AE, d>>)
D_d_pop2(a) == LET d == a[1] IN Br(IsDictR(d), DictPop(d, a[2], TRUE, a[3])) \cup Br(IsO(d), <<Val(Ovr), d>>)
                                \cup Br(IsListR(d), <<TE, d>>)
                                \cup Br(Tag(d) \notin {"dict", "list"}, <<AE, d>>)
\* d[k]: dict lookup (missing: KeyError(k)), list / tuple / str / bytes indexing, others not subscriptable
SeqItem(x, k) == LET c == AsIndex(k) n == Len(Pay(x)) IN
                 IF c[1] = "te" THEN TE
                 ELSE IF c[1] = "big" THEN IE
                 ELSE LET j == IF c[2] < 0 THEN c[2] + n ELSE c[2] IN
                      IF j < 0 \/ j >= n THEN IE ELSE Val(Pay(x)[j + 1])
D_d_getitem(a) == LET d == a[1] k == a[2] IN
                  Br(Tag(d) = "dict", <<IF ~Hashable(k) THEN TE
                                        ELSE LET i == DictIdx(Pay(d), k, 1) IN IF i = 0 THEN KEk(k) ELSE Val(Pay(d)[i][2]), d>>)
                  \cup Br(Tag(d) = "list", <<SeqItem(d, k), d>>)
                  \cup Br(Tag(d) \notin {"dict", "list"}, <<TE, d>>)
\* del d[k]
SeqDelItem(x, k) == LET c == AsIndex(k) n == Len(Pay(x)) IN
                    IF c[1] = "te" THEN <<TE, x>>
                    ELSE IF c[1] = "big" THEN <<IE, x>>
                    ELSE LET j == IF c[2] < 0 THEN c[2] + n ELSE c[2] IN
                         IF j < 0 \/ j >= n THEN <<IE, x>> ELSE <<Val(None), WithPay(x, RemoveAt(Pay(x), j + 1))>>
D_d_delitem(a) == LET d == a[1] k == a[2] IN
                  Br(Tag(d) = "dict", IF ~Hashable(k) THEN <<TE, d>>
                                      ELSE LET i == DictIdx(Pay(d), k, 1) IN
                                           IF i = 0 THEN <<KEk(k), d>> ELSE <<Val(None), WithPay(d, RemoveAt(Pay(d), i))>>)
                  \cup Br(Tag(d) = "list", SeqDelItem(d, k))
                  \cup Br(Tag(d) \notin {"dict", "list"}, <<TE, d>>)
D_d_contains(a) == LET d == a[1] k == a[2] IN
                   Br(Tag(d) = "dict", <<IF ~Hashable(k) THEN TE ELSE Val(Bo(DictIdx(Pay(d), k, 1) # 0)), d>>)
                   \cup Br(Tag(d) = "list", <<Val(Bo(Member(Pay(d), k))), d>>)
                   \cup Br(Tag(d) \notin {"dict", "list"}, <<TE, d>>)
DictView(d, f(_)) == Val(Li([i \in 1..Len(Pay(d)) |-> f(Pay(d)[i])]))
KeyOf(p) == p[1]
ValOf(p) == p[2]
ItemOf(p) == Tu(<<p[1], p[2]>>)
\* list(d.keys()): an overriding subclass returns 'ovr', and list('ovr') is its characters
OvrList == Val(Li(<<St(<<111>>), St(<<118>>), St(<<114>>)>>))
D_d_keys(a) == LET d == a[1] IN Br(IsDictR(d), <<DictView(d, KeyOf), d>>) \cup Br(IsO(d), <<OvrList, d>>) \cup Br(Tag(d) # "dict", <<AE, d>>)
D_d_values(a) == LET d == a[1] IN Br(IsDictR(d), <<DictView(d, ValOf), d>>) \cup Br(IsO(d), <<OvrList, d>>) \cup Br(Tag(d) # "dict", <<AE, d>>)
D_d_items(a) == LET d == a[1] IN Br(IsDictR(d), <<DictView(d, ItemOf), d>>) \cup Br(IsO(d), <<OvrList, d>>) \cup Br(Tag(d) # "dict", <<AE, d>>)
D_d_copy(a) == LET d == a[1] IN Br(IsDictR(d), <<Val(Di(Pay(d))), d>>) \cup Br(IsO(d), <<Val(Ovr), d>>)
                                \cup Br(IsListR(d), <<Val(Li(Pay(d))), d>>)
                                \cup Br(Tag(d) \notin {"dict", "list"}, <<AE, d>>)
D_d_clear(a) == LET d == a[1] IN Br(IsDictR(d) \/ IsListR(d), <<Val(None), WithPay(d, <<>>)>>) \cup Br(IsO(d), <<Val(Ovr), d>>)
                                 \cup Br(Tag(d) \notin {"dict", "list"}, <<AE, d>>)
\* d.update(o): o a dict, or an iterable of pairs
RECURSIVE MergePairs(_, _, _)
MergePairs(d, s, acc) == IF s = <<>> THEN <<Val(None), WithPay(d, acc)>>
                         ELSE IF ~Iterable(Head(s)) THEN <<TE, WithPay(d, acc)>>
                         ELSE LET e == Iter(Head(s)) IN
                              IF Len(e) # 2 THEN <<VE, WithPay(d, acc)>>
                              ELSE IF ~Hashable(e[1]) THEN <<TE, WithPay(d, acc)>>
                              ELSE MergePairs(d, Tail(s), DictPut(acc, e[1], e[2]))
DictUpdate(d, o) == IF Tag(o) = "dict" THEN <<Val(None), WithPay(d, DictFrom(Pay(o), Pay(d)))>>
                    ELSE IF ~Iterable(o) THEN <<TE, d>>
                    ELSE MergePairs(d, Iter(o), Pay(d))
D_d_update(a) == LET d == a[1] IN Br(IsDictR(d), DictUpdate(d, a[2])) \cup Br(IsO(d), <<Val(Ovr), d>>) \cup Br(Tag(d) # "dict", <<AE, d>>)

\* ---- list methods (other receivers: None, dict, tuple, bytearray)
D_l_append(a) == LET x == a[1] IN
                 Br(IsListR(x), <<Val(None), WithPay(x, Append(Pay(x), a[2]))>>) \cup Br(IsO(x), <<Val(Ovr), x>>)
                 \cup Br(IsBaR(x), BaAppend(x, a[2]))
                 \cup Br(Tag(x) \notin {"list", "bytearray"}, <<AE, x>>)
\* statement form: the result of the call is dropped
D_l_append_stmt(a) == LET r == CHOOSE r \in D_l_append(a) : TRUE IN {<<IF r[1][1] = "v" THEN Val(None) ELSE r[1], r[2]>>}
D_l_pop0(a) == LET x == a[1] n == Len(Pay(x)) IN
               Br(IsListR(x), IF n = 0 THEN <<IE, x>> ELSE <<Val(Pay(x)[n]), WithPay(x, SubSeqSafe(Pay(x), 1, n - 1))>>)
               \cup Br(IsO(x), <<Val(Ovr), x>>)
               \cup Br(IsBaR(x), IF n = 0 THEN <<IE, x>> ELSE <<Val(I(Pay(x)[n])), WithPay(x, SubSeqSafe(Pay(x), 1, n - 1))>>)
               \cup Br(IsDictR(x), <<TE, x>>)
               \cup Br(Tag(x) \notin {"list", "bytearray", "dict"}, <<AE, x>>)
D_l_pop1(a) == LET x == a[1] IN
               Br(IsListR(x), PopIndex(x, a[2], IdV)) \cup Br(IsO(x), <<Val(Ovr), x>>)
               \cup Br(IsBaR(x), PopIndex(x, a[2], I))
               \cup Br(IsDictR(x), DictPop(x, a[2], FALSE, None))
               \cup Br(Tag(x) \notin {"list", "bytearray", "dict"}, <<AE, x>>)
\* list.insert: the index is an 'n' argument (beyond Py_ssize_t: OverflowError) and is clamped
ListInsert(x, i, v) == LET c == AsIndex(i) n == Len(Pay(x)) IN
                       IF c[1] = "te" THEN <<TE, x>> ELSE IF c[1] = "big" THEN <<OE, x>>
                       ELSE LET j == IF c[2] < 0 THEN MaxI(c[2] + n, 0) ELSE MinI(c[2], n) IN
                            <<Val(None), WithPay(x, InsertAt(Pay(x), j, v))>>
D_l_insert(a) == LET x == a[1] IN Br(IsListR(x), ListInsert(x, a[2], a[3])) \cup Br(IsO(x), <<Val(Ovr), x>>)
                                  \cup Br(Tag(x) # "list", <<AE, x>>)
D_l_extend(a) == LET x == a[1] it == a[2] IN
                 Br(IsListR(x), IF Iterable(it) THEN <<Val(None), WithPay(x, Pay(x) \o Iter(it))>> ELSE <<TE, x>>)
                 \cup Br(IsO(x), <<Val(Ovr), x>>) \cup Br(Tag(x) # "list", <<AE, x>>)
D_l_extend_lit2(a) == LET x == a[1] IN
                 Br(IsListR(x), <<Val(None), WithPay(x, Pay(x) \o <<a[2], a[3]>>)>>)
                 \cup Br(IsO(x), <<Val(None), x>>) \cup Br(Tag(x) # "list", <<AE, x>>)
D_l_reverse(a) == LET x == a[1] IN Br(IsListR(x), <<Val(None), WithPay(x, Rev(Pay(x)))>>) \cup Br(IsO(x), <<Val(Ovr), x>>)
                                   \cup Br(Tag(x) # "list", <<AE, x>>)
D_l_sort(a) == LET x == a[1] o == SortOutcome(Pay(x)) IN
               Br(IsListR(x), IF o[1] = "e" THEN <<o, AnyPost>> ELSE <<Val(None), WithPay(x, Pay(o[2]))>>)
               \cup Br(IsO(x), <<Val(Ovr), x>>) \cup Br(Tag(x) # "list", <<AE, x>>)

\* ---- set methods; a set argument of discard / remove / in is looked up as a frozenset
SetKeyOK(v) == Hashable(v) \/ Tag(v) = "set"
SetFind(S, v) == {y \in S : PyEq(y, v)}
D_s_add(a) == LET s == a[1] v == a[2] IN
              Br(IsSetR(s), IF ~Hashable(v) THEN <<TE, s>>
                            ELSE <<Val(None), IF SetFind(Pay(s), v) = {} THEN WithPay(s, Pay(s) \cup {v}) ELSE s>>)
              \cup Br(IsO(s), <<Val(Ovr), s>>) \cup Br(Tag(s) # "set", <<AE, s>>)
D_s_discard(a) == LET s == a[1] v == a[2] IN
              Br(IsSetR(s), IF ~SetKeyOK(v) THEN <<TE, s>> ELSE <<Val(None), WithPay(s, Pay(s) \ SetFind(Pay(s), v))>>)
              \cup Br(IsO(s), <<Val(Ovr), s>>) \cup Br(Tag(s) # "set", <<AE, s>>)
D_s_remove(a) == LET s == a[1] v == a[2] IN
              Br(IsSetR(s), IF ~SetKeyOK(v) THEN <<TE, s>>
                            ELSE IF SetFind(Pay(s), v) = {} THEN <<KEk(v), s>>      \* the key as passed (a set stays a set)
                            ELSE <<Val(None), WithPay(s, Pay(s) \ SetFind(Pay(s), v))>>)
              \cup Br(IsO(s), <<Val(Ovr), s>>) \cup Br(Tag(s) # "set", <<AE, s>>)
D_s_contains(a) == LET s == a[1] v == a[2] IN
              Br(Kind(s) = "set", <<IF ~SetKeyOK(v) THEN TE ELSE Val(Bo(SetFind(Pay(s), v) # {})), s>>)
              \cup Br(Tag(s) = "tuple", <<Val(Bo(Member(Pay(s), v))), s>>)
              \cup Br(Kind(s) # "set" /\ Tag(s) # "tuple", <<TE, s>>)
D_s_clear(a) == LET s == a[1] IN Br(IsSetR(s), <<Val(None), WithPay(s, {})>>) \cup Br(IsO(s), <<Val(Ovr), s>>)
                                 \cup Br(Tag(s) # "set", <<AE, s>>)
\* pop of a set with at most one element (which element a larger set gives up is unspecified)
D_s_pop(a) == LET s == a[1] IN
              Br(IsSetR(s), IF Pay(s) = {} THEN <<KE, s>> ELSE <<Val(CHOOSE y \in Pay(s) : TRUE), WithPay(s, {})>>)
              \cup Br(IsO(s), <<Val(Ovr), s>>) \cup Br(Tag(s) # "set", <<AE, s>>)

\* ---- bytearray
D_ba_append(a) == LET b == a[1] IN Br(IsBaR(b), BaAppend(b, a[2])) \cup Br(IsO(b), <<Val(Ovr), b>>)
                                   \cup Br(IsListR(b), <<Val(None), WithPay(b, Append(Pay(b), a[2]))>>)
                                   \cup Br(Tag(b) \notin {"bytearray", "list"}, <<AE, b>>)
RECURSIVE BytesFrom(_, _)
BytesFrom(s, acc) == IF s = <<>> THEN <<"ok", acc>>
                     ELSE LET c == AsByte(Head(s)) IN IF c[1] # "ok" THEN c ELSE BytesFrom(Tail(s), Append(acc, c[2]))
BaExtend(b, it) == IF Kind(it) = "bytes" THEN <<Val(None), WithPay(b, Pay(b) \o Pay(it))>>
                   ELSE IF Kind(it) = "str" \/ ~Iterable(it) THEN <<TE, b>>
                   ELSE LET r == BytesFrom(Iter(it), <<>>) IN
                        IF r[1] = "te" THEN <<TE, b>> ELSE IF r[1] = "ve" THEN <<VE, b>>
                        ELSE <<Val(None), WithPay(b, Pay(b) \o r[2])>>
D_ba_extend(a) == LET b == a[1] IN Br(IsBaR(b), BaExtend(b, a[2])) \cup Br(IsO(b), <<Val(Ovr), b>>)
                                   \cup Br(Tag(b) # "bytearray", <<AE, b>>)

---------------------------------------------------------------------------
(* str / bytes methods.  Receivers: str (exact, S), bytes-like (exact, S), an overriding subclass, others *)
IsStrR(s) == Tag(s) = "str" /\ ~IsO(s)
IsBytesR(s) == Kind(s) = "bytes" /\ ~IsO(s)
TextR(s) == IsStrR(s) \/ IsBytesR(s)
SameText(s, p) == Kind(p) = Kind(s)             \* argument of the receiver's own kind (str for str, bytes-like for bytes)

\* does p occur in s at 0-based position i
MatchAt(s, p, i) == i >= 0 /\ i + Len(p) <= Len(s) /\ \A j \in 1..Len(p) : s[i + j] = p[j]
\* start/end arguments: <<"ok", start, end>> after ADJUST_INDICES, or <<"te">>
Bounds(s, av, bv) == LET ca == SliceIdx(av, 0) cb == SliceIdx(bv, HUGE) n == Len(s) IN
                     IF ca[1] = "te" \/ cb[1] = "te" THEN <<"te", 0, 0>>
                     ELSE <<"ok", AdjStart(ca[2], n), AdjEnd(cb[2], n)>>
\* dir = -1 startswith, +1 endswith
Tail1(s, p, st, en, dir) == LET e2 == en - Len(p) IN
                            IF e2 < st THEN FALSE ELSE MatchAt(s, p, IF dir < 0 THEN st ELSE e2)
RECURSIVE TailTuple(_, _, _, _, _, _)
TailTuple(s, ps, st, en, dir, knd) == IF ps = <<>> THEN Val(Bo(FALSE))
                                      ELSE IF Kind(Head(ps)) # knd THEN TE
                                      ELSE IF Tail1(s, Pay(Head(ps)), st, en, dir) THEN Val(Bo(TRUE))
                                      ELSE TailTuple(s, Tail(ps), st, en, dir, knd)
TailMatch(s, p, av, bv, dir) == LET b == Bounds(Pay(s), av, bv) IN
                                IF b[1] = "te" THEN TE
                                ELSE IF Tag(p) = "tuple" THEN TailTuple(Pay(s), Pay(p), b[2], b[3], dir, Kind(s))
                                ELSE IF ~SameText(s, p) THEN TE
                                ELSE Val(Bo(Tail1(Pay(s), Pay(p), b[2], b[3], dir)))
D_tail(a, av, bv, dir) == LET s == a[1] IN
                          Br(TextR(s), U(TailMatch(s, a[2], av, bv, dir), a)) \cup Br(IsO(s), U(Val(Ovr), a))
                          \cup Br(Kind(s) \notin {"str", "bytes"}, U(AE, a))

FindIn(s, p, st, en, dir) == LET cand == {i \in st..(en - Len(p)) : MatchAt(s, p, i)} IN
                             IF cand = {} THEN -1
                             ELSE IF dir < 0 THEN CHOOSE i \in cand : \A j \in cand : i <= j
                             ELSE CHOOSE i \in cand : \A j \in cand : i >= j
Find(s, p, av, bv, dir) == LET b == Bounds(Pay(s), av, bv) IN
                           IF b[1] = "te" \/ Tag(p) # "str" THEN TE ELSE Val(I(FindIn(Pay(s), Pay(p), b[2], b[3], dir)))
D_find(a, av, bv, dir) == LET s == a[1] IN
                          Br(IsStrR(s), U(Find(s, a[2], av, bv, dir), a)) \cup Br(IsO(s), U(Val(Ovr), a))
                          \cup Br(Tag(s) # "str", U(AE, a))
RECURSIVE CountIn(_, _, _, _)
CountIn(s, p, st, en) == IF en - st < Len(p) THEN 0
                         ELSE IF MatchAt(s, p, st) THEN 1 + CountIn(s, p, st + Len(p), en)
                         ELSE CountIn(s, p, st + 1, en)
Count(s, p, av, bv) == LET b == Bounds(Pay(s), av, bv) IN
                       IF b[1] = "te" \/ Tag(p) # "str" THEN TE
                       ELSE IF Pay(p) = <<>> THEN Val(I(IF b[3] - b[2] < 0 THEN 0 ELSE b[3] - b[2] + 1))
                       ELSE Val(I(CountIn(Pay(s), Pay(p), b[2], b[3])))
D_count(a, av, bv) == LET s == a[1] IN
                      Br(IsStrR(s), U(Count(s, a[2], av, bv), a)) \cup Br(IsO(s), U(Val(Ovr), a))
                      \cup Br(Tag(s) # "str", U(AE, a))

\* 'n'-style count argument: <<"ok", n>> | <<"te">> | <<"oe">>
AsCount(v) == LET c == AsIndex(v) IN IF c[1] = "big" THEN <<"oe", 0>> ELSE c
\* replace the first n occurrences (n < 0: all); an empty pattern matches before every character and at the end
RECURSIVE Repl(_, _, _, _)
Repl(s, x, y, n) == IF n = 0 THEN s
                    ELSE IF x = <<>> THEN (IF s = <<>> THEN y ELSE y \o <<Head(s)>> \o Repl(Tail(s), x, y, n - 1))
                    ELSE IF Len(s) < Len(x) THEN s
                    ELSE IF MatchAt(s, x, 0) THEN y \o Repl(SubSeqSafe(s, Len(x) + 1, Len(s)), x, y, n - 1)
                    ELSE <<Head(s)>> \o Repl(Tail(s), x, y, n)
\* an empty pattern with an exhausted subject: only one insertion is left
ReplTop(s, x, y, n) == IF x = <<>> /\ s = <<>> THEN (IF n = 0 THEN s ELSE y) ELSE Repl(s, x, y, n)
Replace(s, x, y, nv) == LET c == AsCount(nv) IN
                        IF Tag(x) # "str" \/ Tag(y) # "str" \/ c[1] = "te" THEN TE
                        ELSE IF c[1] = "oe" THEN OE
                        ELSE Val(St(ReplTop(Pay(s), Pay(x), Pay(y), c[2])))
D_replace(a, nv) == LET s == a[1] IN
                    Br(IsStrR(s), U(Replace(s, a[2], a[3], nv), a)) \cup Br(IsO(s), U(Val(Ovr), a))
                    \cup Br(Tag(s) # "str", U(AE, a))

\* split
USpace == {9, 10, 11, 12, 13, 28, 29, 30, 31, 32, 133, 160, 8232, 8233}
RECURSIVE SkipWS(_), TakeWord(_), SplitWS(_, _), SplitSep(_, _, _, _)
SkipWS(s) == IF s # <<>> /\ Head(s) \in USpace THEN SkipWS(Tail(s)) ELSE s
TakeWord(s) == IF s = <<>> \/ Head(s) \in USpace THEN <<>> ELSE <<Head(s)>> \o TakeWord(Tail(s))
RStripU(s) == IF s # <<>> /\ s[Len(s)] \in USpace THEN SubSeqSafe(s, 1, Len(s) - 1) ELSE s
RECURSIVE RStripAll(_)
RStripAll(s) == IF s # <<>> /\ s[Len(s)] \in USpace THEN RStripAll(SubSeqSafe(s, 1, Len(s) - 1)) ELSE s
SplitWS(s0, n) == LET s == SkipWS(s0) IN
                  IF s = <<>> THEN <<>>
                  ELSE IF n = 0 THEN <<St(s)>>
                  ELSE LET w == TakeWord(s) IN <<St(w)>> \o SplitWS(SubSeqSafe(s, Len(w) + 1, Len(s)), n - 1)
SplitSep(s, p, n, cur) == IF n = 0 \/ Len(s) < Len(p) THEN <<St(cur \o s)>>
                          ELSE IF MatchAt(s, p, 0) THEN <<St(cur)>> \o SplitSep(SubSeqSafe(s, Len(p) + 1, Len(s)), p, n - 1, <<>>)
                          ELSE SplitSep(Tail(s), p, n, Append(cur, Head(s)))
Split(s, pv, nv) == LET c == AsCount(nv) IN
                    IF c[1] = "te" \/ ~(IsNone(pv) \/ Tag(pv) = "str") THEN TE
                    ELSE IF c[1] = "oe" THEN OE
                    ELSE IF IsNone(pv) THEN Val(Li(SplitWS(Pay(s), c[2])))
                    ELSE IF Pay(pv) = <<>> THEN VE
                    ELSE Val(Li(SplitSep(Pay(s), Pay(pv), c[2], <<>>)))
D_split(a, pv, nv) == LET s == a[1] IN
                      Br(IsStrR(s), U(Split(s, pv, nv), a)) \cup Br(IsO(s), U(Val(Ovr), a))
                      \cup Br(Tag(s) # "str", U(AE, a))
LineEnds == {10, 11, 12, 13, 28, 29, 30, 133, 8232, 8233}
RECURSIVE Lines(_, _, _)
Lines(s, cur, keep) == IF s = <<>> THEN (IF cur = <<>> THEN <<>> ELSE <<St(cur)>>)
                       ELSE IF Head(s) = 13 /\ Len(s) >= 2 /\ s[2] = 10
                            THEN <<St(IF keep THEN cur \o <<13, 10>> ELSE cur)>> \o Lines(SubSeqSafe(s, 3, Len(s)), <<>>, keep)
                       ELSE IF Head(s) \in LineEnds
                            THEN <<St(IF keep THEN Append(cur, Head(s)) ELSE cur)>> \o Lines(Tail(s), <<>>, keep)
                       ELSE Lines(Tail(s), Append(cur, Head(s)), keep)
D_splitlines(a, keep) == LET s == a[1] IN
                         Br(IsStrR(s), U(Val(Li(Lines(Pay(s), <<>>, keep))), a)) \cup Br(IsO(s), U(Val(Ovr), a))
                         \cup Br(Tag(s) # "str", U(AE, a))

\* join: every item must be of the separator's kind; the result has the separator's exact type
RECURSIVE JoinSeq(_, _)
JoinSeq(sep, items) == IF items = <<>> THEN <<>>
                       ELSE IF Len(items) = 1 THEN Pay(items[1])
                       ELSE Pay(Head(items)) \o sep \o JoinSeq(sep, Tail(items))
Join(s, it) == IF ~Iterable(it) THEN TE
               ELSE LET items == Iter(it) IN
                    IF \E i \in 1..Len(items) : Kind(items[i]) # Kind(s) THEN TE
                    ELSE Val(<<Tag(s), "", JoinSeq(Pay(s), items)>>)
D_join(a) == LET s == a[1] IN
             Br(TextR(s), U(Join(s, a[2]), a)) \cup Br(IsO(s), U(Val(Ovr), a))
             \cup Br(Kind(s) \notin {"str", "bytes"}, U(AE, a))

\* s * n
Mul(s, nv) == LET c == AsIndex(nv) IN
              IF c[1] = "te" THEN TE ELSE IF c[1] = "big" THEN OE
              ELSE Val(<<Tag(s), "", Repeat(Pay(s), c[2])>>)
D_mul(a) == LET s == a[1] IN
            Br(Kind(s) \in SeqKinds, U(Mul(s, a[2]), a)) \cup Br(Kind(s) \notin SeqKinds, U(TE, a))

\* c in s
Occurs(s, p) == \E i \in 0..(Len(s) - Len(p)) : MatchAt(s, p, i)
Contains(s, c) == CASE Kind(s) = "str" -> (IF Tag(c) = "str" THEN Val(Bo(Occurs(Pay(s), Pay(c)))) ELSE TE)
                    [] Kind(s) = "bytes" -> (IF Kind(c) = "bytes" THEN Val(Bo(Occurs(Pay(s), Pay(c))))
                                             ELSE LET b == AsByte(c) IN
                                                  IF b[1] = "te" THEN TE ELSE IF b[1] = "ve" THEN VE
                                                  ELSE Val(Bo(b[2] \in Range(Pay(s)))))
                    [] Kind(s) \in {"list", "tuple"} -> Val(Bo(Member(Pay(s), c)))
                    [] OTHER -> TE
D_contains(a) == {U(Contains(a[1], a[2]), a)}

---------------------------------------------------------------------------
(* codecs *)
CodecOf(n) == LET l == Lower(n) x == SelectSeq(l, LAMBDA c : c \notin {45, 95}) IN     \* '-' and '_' dropped
              CASE x = <<117, 116, 102, 56>> -> "utf8"
                [] x = <<97, 115, 99, 105, 105>> \/ x = <<117, 115, 97, 115, 99, 105, 105>> -> "ascii"
                [] x = <<108, 97, 116, 105, 110, 49>> \/ x = <<105, 115, 111, 56, 56, 53, 57, 49>> -> "latin1"
                [] x = <<117, 116, 102, 49, 54>> -> "utf16"
                [] x = <<117, 116, 102, 49, 54, 108, 101>> -> "utf16le"
                [] x = <<117, 116, 102, 49, 54, 98, 101>> -> "utf16be"
                [] OTHER -> "?"
ErrOf(n) == CASE n = <<115, 116, 114, 105, 99, 116>> -> "strict"
              [] n = <<105, 103, 110, 111, 114, 101>> -> "ignore"
              [] n = <<114, 101, 112, 108, 97, 99, 101>> -> "replace"
              [] OTHER -> "?"
IsSurr(c) == c \in 55296..57343
Utf8Of(c) == IF c < 128 THEN <<c>>
             ELSE IF c < 2048 THEN <<192 + c \div 64, 128 + (c % 64)>>
             ELSE IF c < 65536 THEN <<224 + c \div 4096, 128 + ((c \div 64) % 64), 128 + (c % 64)>>
             ELSE <<240 + c \div 262144, 128 + ((c \div 4096) % 64), 128 + ((c \div 64) % 64), 128 + (c % 64)>>
U16(u, be) == IF be THEN <<u \div 256, (u % 256)>> ELSE <<(u % 256), u \div 256>>
Utf16Of(c, be) == IF c < 65536 THEN U16(c, be)
                  ELSE U16(55296 + (c - 65536) \div 1024, be) \o U16(56320 + ((c - 65536) % 1024), be)
Encodable(c, codec) == CASE codec = "ascii" -> c < 128 [] codec = "latin1" -> c < 256 [] OTHER -> ~IsSurr(c)
EncChar(c, codec) == CASE codec = "utf8" -> Utf8Of(c)
                       [] codec \in {"ascii", "latin1"} -> <<c>>
                       [] codec = "utf16be" -> Utf16Of(c, TRUE)
                       [] OTHER -> Utf16Of(c, FALSE)
EncRepl(codec) == CASE codec = "utf16be" -> <<0, 63>> [] codec \in {"utf16", "utf16le"} -> <<63, 0>> [] OTHER -> <<63>>
RECURSIVE EncSeq(_, _, _)
EncSeq(s, codec, err) == IF s = <<>> THEN <<>>
                         ELSE (IF Encodable(Head(s), codec) THEN EncChar(Head(s), codec)
                               ELSE IF err = "replace" THEN EncRepl(codec) ELSE <<>>) \o EncSeq(Tail(s), codec, err)
Encode(s, codec, err) == IF codec = "?" THEN Exc("LookupError")
                         ELSE IF \A i \in 1..Len(s) : Encodable(s[i], codec)
                              THEN Val(By((IF codec = "utf16" THEN <<255, 254>> ELSE <<>>) \o EncSeq(s, codec, err)))
                         ELSE IF err = "strict" THEN Exc("UnicodeEncodeError")
                         ELSE IF err = "?" THEN Exc("LookupError")
                         ELSE Val(By((IF codec = "utf16" THEN <<255, 254>> ELSE <<>>) \o EncSeq(s, codec, err)))
\* ev / rv: encoding and errors arguments (must be str)
EncodeArgs(s, ev, rv) == IF Tag(ev) # "str" \/ Tag(rv) # "str" THEN TE
                         ELSE Encode(Pay(s), CodecOf(Pay(ev)), ErrOf(Pay(rv)))
D_encode(a, ev, rv) == LET s == a[1] IN
                       Br(IsStrR(s), U(EncodeArgs(s, ev, rv), a)) \cup Br(IsO(s), U(Val(Ovr), a))
                       \cup Br(Tag(s) # "str", U(AE, a))

\* UTF-8 decoding: <<code point or -1, number of bytes consumed>> at the head of b
Cont(b, i, lo, hi) == Len(b) >= i /\ b[i] >= lo /\ b[i] <= hi
Utf8Head(b) == LET b0 == b[1] IN
   IF b0 < 128 THEN <<b0, 1>>
   ELSE IF b0 \in 194..223 THEN (IF Cont(b, 2, 128, 191) THEN <<(b0 - 192) * 64 + (b[2] - 128), 2>> ELSE <<-1, 1>>)
   ELSE IF b0 \in 224..239 THEN
        LET lo == IF b0 = 224 THEN 160 ELSE 128  hi == IF b0 = 237 THEN 159 ELSE 191 IN
        IF ~Cont(b, 2, lo, hi) THEN <<-1, 1>>
        ELSE IF ~Cont(b, 3, 128, 191) THEN <<-1, 2>>
        ELSE <<(b0 - 224) * 4096 + (b[2] - 128) * 64 + (b[3] - 128), 3>>
   ELSE IF b0 \in 240..244 THEN
        LET lo == IF b0 = 240 THEN 144 ELSE 128  hi == IF b0 = 244 THEN 143 ELSE 191 IN
        IF ~Cont(b, 2, lo, hi) THEN <<-1, 1>>
        ELSE IF ~Cont(b, 3, 128, 191) THEN <<-1, 2>>
        ELSE IF ~Cont(b, 4, 128, 191) THEN <<-1, 3>>
        ELSE <<(b0 - 240) * 262144 + (b[2] - 128) * 4096 + (b[3] - 128) * 64 + (b[4] - 128), 4>>
   ELSE <<-1, 1>>
\* result: sequence of code points, -1 marks one decoding error
RECURSIVE Utf8Dec(_)
Utf8Dec(b) == IF b = <<>> THEN <<>> ELSE LET h == Utf8Head(b) IN <<h[1]>> \o Utf8Dec(SubSeqSafe(b, h[2] + 1, Len(b)))
RECURSIVE Utf16Dec(_, _)
Utf16Dec(b, be) == IF b = <<>> THEN <<>>
                   ELSE IF Len(b) = 1 THEN <<-1>>
                   ELSE LET u == IF be THEN b[1] * 256 + b[2] ELSE b[2] * 256 + b[1] IN
                        IF u \in 55296..56319 THEN
                             (IF Len(b) >= 4 /\ (IF be THEN b[3] ELSE b[4]) \in 220..223
                              THEN LET v == IF be THEN b[3] * 256 + b[4] ELSE b[4] * 256 + b[3] IN
                                   <<65536 + (u - 55296) * 1024 + (v - 56320)>> \o Utf16Dec(SubSeqSafe(b, 5, Len(b)), be)
                              ELSE <<-1>>)
                        ELSE IF u \in 56320..57343 THEN <<-1>>
                        ELSE <<u>> \o Utf16Dec(SubSeqSafe(b, 3, Len(b)), be)
RawDecode(b, codec) == CASE codec = "utf8" -> Utf8Dec(b)
                         [] codec = "ascii" -> [i \in 1..Len(b) |-> IF b[i] < 128 THEN b[i] ELSE -1]
                         [] codec = "latin1" -> b
                         [] codec = "utf16le" -> Utf16Dec(b, FALSE)
                         [] codec = "utf16be" -> Utf16Dec(b, TRUE)
                         [] OTHER -> IF Len(b) >= 2 /\ b[1] = 255 /\ b[2] = 254 THEN Utf16Dec(SubSeqSafe(b, 3, Len(b)), FALSE)
                                     ELSE IF Len(b) >= 2 /\ b[1] = 254 /\ b[2] = 255 THEN Utf16Dec(SubSeqSafe(b, 3, Len(b)), TRUE)
                                     ELSE Utf16Dec(b, FALSE)
Decode(b, codec, err) == IF b = <<>> THEN Val(St(<<>>))                  \* empty input: no codec lookup
                         ELSE IF codec = "?" THEN Exc("LookupError")
                         ELSE LET r == RawDecode(b, codec) IN
                              IF \A i \in 1..Len(r) : r[i] >= 0 THEN Val(St(r))
                              ELSE IF err = "strict" THEN Exc("UnicodeDecodeError")
                              ELSE IF err = "?" THEN Exc("LookupError")
                              ELSE IF err = "ignore" THEN Val(St(SelectSeq(r, LAMBDA c : c >= 0)))
                              ELSE Val(St([i \in 1..Len(r) |-> IF r[i] < 0 THEN 65533 ELSE r[i]]))
DecodeArgs(b, ev, rv) == IF Tag(ev) # "str" \/ Tag(rv) # "str" THEN TE
                         ELSE Decode(b, CodecOf(Pay(ev)), ErrOf(Pay(rv)))
D_decode(a, ev, rv) == LET b == a[1] IN
                       Br(IsBytesR(b), U(DecodeArgs(Pay(b), ev, rv), a)) \cup Br(IsO(b), U(Val(Ovr), a))
                       \cup Br(Kind(b) # "bytes", U(AE, a))
\* b[i:j].decode(e)
SliceOf(p, iv, jv) == LET ci == SliceIdx(iv, 0) cj == SliceIdx(jv, HUGE) n == Len(p) IN
                      IF ci[1] = "te" \/ cj[1] = "te" THEN <<"te", <<>>>>
                      ELSE LET st == MinI(AdjStart(ci[2], n), n) en == AdjEnd(cj[2], n) IN <<"ok", Slice0(p, st, MaxI(st, en))>>
D_slicedecode(a) == LET b == a[1] sl == SliceOf(Pay(b), a[2], a[3]) IN
                    Br(Kind(b) = "bytes", U(IF sl[1] = "te" THEN TE ELSE DecodeArgs(sl[2], a[4], St(<<115, 116, 114, 105, 99, 116>>)), a))
                    \cup Br(Kind(b) # "bytes", U(TE, a))

---------------------------------------------------------------------------
(* character properties of the pool characters (Unicode database of CPython 3.12), other characters: none *)
NoChar(c) == [al |-> FALSE, dc |-> FALSE, dg |-> FALSE, nu |-> FALSE, sp |-> FALSE, up |-> FALSE, lo |-> FALSE, ti |-> FALSE,
              cs |-> FALSE, tl |-> <<c>>, tu |-> <<c>>, tt |-> <<c>>]
CharRec(c) == CASE
      c = 97 -> [al |-> TRUE, dc |-> FALSE, dg |-> FALSE, nu |-> FALSE, sp |-> FALSE, up |-> FALSE, lo |-> TRUE, ti |-> FALSE, cs |-> TRUE,
                    tl |-> <<97>>, tu |-> <<65>>, tt |-> <<65>>]
   [] c = 65 -> [al |-> TRUE, dc |-> FALSE, dg |-> FALSE, nu |-> FALSE, sp |-> FALSE, up |-> TRUE, lo |-> FALSE, ti |-> FALSE, cs |-> TRUE,
                    tl |-> <<97>>, tu |-> <<65>>, tt |-> <<65>>]
   [] c = 49 -> [al |-> FALSE, dc |-> TRUE, dg |-> TRUE, nu |-> TRUE, sp |-> FALSE, up |-> FALSE, lo |-> FALSE, ti |-> FALSE, cs |-> FALSE,
                    tl |-> <<49>>, tu |-> <<49>>, tt |-> <<49>>]
   [] c = 32 -> [al |-> FALSE, dc |-> FALSE, dg |-> FALSE, nu |-> FALSE, sp |-> TRUE, up |-> FALSE, lo |-> FALSE, ti |-> FALSE, cs |-> FALSE,
                    tl |-> <<32>>, tu |-> <<32>>, tt |-> <<32>>]
   [] c = 233 -> [al |-> TRUE, dc |-> FALSE, dg |-> FALSE, nu |-> FALSE, sp |-> FALSE, up |-> FALSE, lo |-> TRUE, ti |-> FALSE, cs |-> TRUE,
                    tl |-> <<233>>, tu |-> <<201>>, tt |-> <<201>>]
   [] c = 223 -> [al |-> TRUE, dc |-> FALSE, dg |-> FALSE, nu |-> FALSE, sp |-> FALSE, up |-> FALSE, lo |-> TRUE, ti |-> FALSE, cs |-> TRUE,
                    tl |-> <<223>>, tu |-> <<83, 83>>, tt |-> <<83, 115>>]
   [] c = 8364 -> [al |-> FALSE, dc |-> FALSE, dg |-> FALSE, nu |-> FALSE, sp |-> FALSE, up |-> FALSE, lo |-> FALSE, ti |-> FALSE, cs |-> FALSE,
                    tl |-> <<8364>>, tu |-> <<8364>>, tt |-> <<8364>>]
   [] c = 453 -> [al |-> TRUE, dc |-> FALSE, dg |-> FALSE, nu |-> FALSE, sp |-> FALSE, up |-> FALSE, lo |-> FALSE, ti |-> TRUE, cs |-> TRUE,
                    tl |-> <<454>>, tu |-> <<452>>, tt |-> <<453>>]
   [] c = 128512 -> [al |-> FALSE, dc |-> FALSE, dg |-> FALSE, nu |-> FALSE, sp |-> FALSE, up |-> FALSE, lo |-> FALSE, ti |-> FALSE, cs |-> FALSE,
                    tl |-> <<128512>>, tu |-> <<128512>>, tt |-> <<128512>>]
   [] c = 1635 -> [al |-> FALSE, dc |-> TRUE, dg |-> TRUE, nu |-> TRUE, sp |-> FALSE, up |-> FALSE, lo |-> FALSE, ti |-> FALSE, cs |-> FALSE,
                    tl |-> <<1635>>, tu |-> <<1635>>, tt |-> <<1635>>]
   [] c = 178 -> [al |-> FALSE, dc |-> FALSE, dg |-> TRUE, nu |-> TRUE, sp |-> FALSE, up |-> FALSE, lo |-> FALSE, ti |-> FALSE, cs |-> FALSE,
                    tl |-> <<178>>, tu |-> <<178>>, tt |-> <<178>>]
   [] c = 304 -> [al |-> TRUE, dc |-> FALSE, dg |-> FALSE, nu |-> FALSE, sp |-> FALSE, up |-> TRUE, lo |-> FALSE, ti |-> FALSE, cs |-> TRUE,
                    tl |-> <<105, 775>>, tu |-> <<304>>, tt |-> <<304>>]
   [] c = 189 -> [al |-> FALSE, dc |-> FALSE, dg |-> FALSE, nu |-> TRUE, sp |-> FALSE, up |-> FALSE, lo |-> FALSE, ti |-> FALSE, cs |-> FALSE,
                    tl |-> <<189>>, tu |-> <<189>>, tt |-> <<189>>]
   [] c = 8551 -> [al |-> FALSE, dc |-> FALSE, dg |-> FALSE, nu |-> TRUE, sp |-> FALSE, up |-> TRUE, lo |-> FALSE, ti |-> FALSE, cs |-> TRUE,
                    tl |-> <<8567>>, tu |-> <<8551>>, tt |-> <<8551>>]
   [] c = 95 -> [al |-> FALSE, dc |-> FALSE, dg |-> FALSE, nu |-> FALSE, sp |-> FALSE, up |-> FALSE, lo |-> FALSE, ti |-> FALSE, cs |-> FALSE,
                    tl |-> <<95>>, tu |-> <<95>>, tt |-> <<95>>]
   [] c = 10 -> [al |-> FALSE, dc |-> FALSE, dg |-> FALSE, nu |-> FALSE, sp |-> TRUE, up |-> FALSE, lo |-> FALSE, ti |-> FALSE, cs |-> FALSE,
                    tl |-> <<10>>, tu |-> <<10>>, tt |-> <<10>>]
   [] c = 66560 -> [al |-> TRUE, dc |-> FALSE, dg |-> FALSE, nu |-> FALSE, sp |-> FALSE, up |-> TRUE, lo |-> FALSE, ti |-> FALSE, cs |-> TRUE,
                    tl |-> <<66600>>, tu |-> <<66560>>, tt |-> <<66560>>]
   [] c = 98 -> [al |-> TRUE, dc |-> FALSE, dg |-> FALSE, nu |-> FALSE, sp |-> FALSE, up |-> FALSE, lo |-> TRUE, ti |-> FALSE, cs |-> TRUE,
                    tl |-> <<98>>, tu |-> <<66>>, tt |-> <<66>>]
   [] c = 66 -> [al |-> TRUE, dc |-> FALSE, dg |-> FALSE, nu |-> FALSE, sp |-> FALSE, up |-> TRUE, lo |-> FALSE, ti |-> FALSE, cs |-> TRUE,
                    tl |-> <<98>>, tu |-> <<66>>, tt |-> <<66>>]
   [] OTHER -> NoChar(c)
AllCh(s, P(_)) == s # <<>> /\ \A i \in 1..Len(s) : P(CharRec(s[i]))
PAlpha(r) == r.al
PDecimal(r) == r.dc
PDigit(r) == r.dg
PNumeric(r) == r.nu
PSpace(r) == r.sp
PAlnum(r) == r.al \/ r.dc \/ r.dg \/ r.nu
IsUpperS(s) == (\E i \in 1..Len(s) : CharRec(s[i]).up) /\ \A i \in 1..Len(s) : ~CharRec(s[i]).lo /\ ~CharRec(s[i]).ti
IsLowerS(s) == (\E i \in 1..Len(s) : CharRec(s[i]).lo) /\ \A i \in 1..Len(s) : ~CharRec(s[i]).up /\ ~CharRec(s[i]).ti
\* istitle: <<ok so far, previous is cased, seen cased>>
RECURSIVE TitleScan(_, _, _)
TitleScan(s, prev, seen) == IF s = <<>> THEN seen
                            ELSE LET r == CharRec(Head(s)) IN
                                 IF r.up \/ r.ti THEN (IF prev THEN FALSE ELSE TitleScan(Tail(s), TRUE, TRUE))
                                 ELSE IF r.lo THEN (IF ~prev THEN FALSE ELSE TitleScan(Tail(s), TRUE, TRUE))
                                 ELSE TitleScan(Tail(s), FALSE, seen)
RECURSIVE MapCase(_, _, _)
\* mode "l" lower, "u" upper, "t" title (prev = previous character is cased)
MapCase(s, mode, prev) == IF s = <<>> THEN <<>>
                          ELSE LET r == CharRec(Head(s)) IN
                               (CASE mode = "l" -> r.tl [] mode = "u" -> r.tu [] OTHER -> IF prev THEN r.tl ELSE r.tt)
                               \o MapCase(Tail(s), mode, r.cs)
CharOp(m, s) == CASE m = "isalpha" -> Bo(AllCh(s, PAlpha))
                  [] m = "isdecimal" -> Bo(AllCh(s, PDecimal))
                  [] m = "isdigit" -> Bo(AllCh(s, PDigit))
                  [] m = "isnumeric" -> Bo(AllCh(s, PNumeric))
                  [] m = "isspace" -> Bo(AllCh(s, PSpace))
                  [] m = "isalnum" -> Bo(AllCh(s, PAlnum))
                  [] m = "isupper" -> Bo(IsUpperS(s))
                  [] m = "islower" -> Bo(IsLowerS(s))
                  [] m = "istitle" -> Bo(TitleScan(s, FALSE, FALSE))
                  [] m = "lower" -> St(MapCase(s, "l", FALSE))
                  [] m = "upper" -> St(MapCase(s, "u", FALSE))
                  [] OTHER -> St(MapCase(s, "t", FALSE))
OvrMethods == {"lower", "upper", "isalpha", "isdigit"}      \* the methods the overriding str subclass replaces
D_char(m, a) == LET c == a[1] IN
                Br(Tag(c) = "str" /\ ~(IsO(c) /\ m \in OvrMethods), U(Val(CharOp(m, Pay(c))), a))
                \cup Br(Tag(c) = "str" /\ IsO(c) /\ m \in OvrMethods, U(Val(Ovr), a))
                \cup Br(Tag(c) # "str", U(AE, a))

---------------------------------------------------------------------------
(* value pools; L2(S) only in the thorough configuration *)
L2(S) == IF Level >= 2 THEN S ELSE {}
SE == St(<<>>)
SA == St(<<97>>)
SB == St(<<98>>)
SAB == St(<<97, 98>>)
SABAB == St(<<97, 98, 97, 98>>)
SLat == St(<<233, 97>>)
SEuro == St(<<97, 8364>>)
SEmo == St(<<128512, 97>>)
SSp == St(<<32, 97, 32, 32, 98, 32>>)
SNl == St(<<97, 10, 98, 13, 10, 99, 13>>)
SAa == St(<<97, 97, 97>>)
BE == By(<<>>)
BA == By(<<97>>)
BAB == By(<<97, 98>>)
BHi == By(<<233, 97>>)
BaAB == Ba(<<97, 98>>)
L0 == Li(<<>>)
L1 == Li(<<I(1)>>)
L213 == Li(<<I(2), I(1), I(3)>>)
LMix == Li(<<I(1), Bo(TRUE), Fl(4)>>)
LStrInt == Li(<<I(1), SA>>)
LNone2 == Li(<<None, None>>)
LStrs == Li(<<SB, SA>>)
LNest == Li(<<L0>>)
LFalsy == Li(<<I(0), None, SE>>)
L12 == Li(<<I(1), I(2)>>)
T0 == Tu(<<>>)
T12 == Tu(<<I(1), I(2)>>)
TPairs == Tu(<<Tu(<<I(1), I(2)>>), Tu(<<I(3), I(4)>>)>>)
LPair == Li(<<Tu(<<I(1), I(2)>>), SAB, Li(<<Bo(TRUE), None>>)>>)
LBad1 == Li(<<Tu(<<I(1)>>)>>)
LBad2 == Li(<<I(1)>>)
LUnh == Li(<<Tu(<<L0, I(1)>>)>>)
Set0 == Se({})
Set1 == Se({I(1)})
Set12 == Se({I(1), I(2)})
SetF == Se({Fs({I(1)})})
FSet0 == Fs({})
FSet1 == Fs({I(1)})
D0 == Di(<<>>)
D1 == Di(<<<<I(1), SA>>>>)
D2 == Di(<<<<I(1), SA>>, <<St(<<107>>), I(2)>>>>)
DT == Di(<<<<Tu(<<I(1)>>), I(1)>>>>)

Nums == {I(0), I(1), I(-1), I(5), Bo(TRUE), Bo(FALSE), Fl(6), Fl(-2), Fl(0), NZ, NaN, Inf, Big(1), Sub(I(3), "S")}
        \cup L2({NInf, Big(-1), Big(2), Big(-2), Fl(1), Sub(Fl(10), "S"), I(100), I(-100)})
ScaledInts == {I(-128), I(-127), I(127)} \cup L2({I(-101), I(101), I(126)})
Strs == {SE, SA, SAB, SLat, SEuro, SEmo, Sub(SAB, "S"), Sub(SAB, "O")} \cup L2({SABAB, SSp, SNl, Sub(SE, "S")})
Byts == {BE, BA, BAB, BHi, BaAB, Sub(BAB, "S")} \cup L2({Ba(<<>>), Ba(<<97>>), Sub(BaAB, "S"), Sub(BAB, "O")})
Lists == {L0, L1, L213, LMix, LStrInt, LNone2, LStrs, LNest, LFalsy, Sub(L12, "S"), Sub(L12, "O"), T0, T12}
         \cup L2({TPairs, Li(<<Fl(6), I(1), Bo(FALSE)>>), Tu(<<SA, SB>>), Sub(T12, "S"), Li(<<Tu(<<I(2), SA>>), Tu(<<I(1), SB>>)>>)})
Sets == {Set0, Set1, FSet0, FSet1, Sub(Set1, "S"), Sub(Set1, "O")}
Dicts == {D0, D1, D2, Sub(D1, "S"), Sub(D1, "O")} \cup L2({DT})
AnyV == {None, I(0), I(1), I(-1), Bo(TRUE), Bo(FALSE), Fl(6), NZ, NaN, Big(1), SE, SA, SAB, Sub(SAB, "S"), Sub(SAB, "O"),
         BE, BA, BaAB, L0, L1, L213, Sub(L12, "S"), Sub(L12, "O"), T0, T12, Set0, Set1, FSet1, D0, D1, Sub(D1, "S"), Sub(D1, "O")}
        \cup L2({Ty("list"), Sub(I(3), "S"), Sub(Fl(4), "S"), Sub(BAB, "S"), Sub(Set1, "S"), Sub(T12, "S")})
\* T0, T12, None and the exception instances: the keys that PyErr_SetObject(KeyError, key) would not turn into KeyError(key)
XKey == Ex("KeyError", St(<<105>>))
XVal == Ex("ValueError", St(<<105>>))
Keys == {None, I(1), Bo(TRUE), Fl(4), St(<<107>>), SA, L0, Tu(<<I(1)>>), Set1, FSet1, D0, T0, XKey, XVal}
        \cup L2({Big(1), Tu(<<L0>>), I(2), Sub(I(1), "S"), T12, Sub(Tu(<<I(1)>>), "S"), Ex("LookupError", I(1)), Sub(XKey, "S"), Ex("KeyError", None)})
Idx == {I(0), I(1), I(-1), I(2), I(-3), I(3), Big(1), None, Fl(4), Bo(TRUE), T0, XKey}      \* T0, XKey: keys of x.pop(k) on a dict
       \cup L2({I(100), I(-100), Big(-1), Big(2), Big(-2), SA, Sub(I(1), "S"), I(-2)})
SIdx == {I(0), I(1), I(-1), I(2), I(3), I(-100), Big(1), None} \cup L2({I(-2), I(5), Big(-1), Big(2), Fl(4), Bo(TRUE)})
Prefs == {SE, SA, SAB, SB, St(<<233>>), BA, None, Tu(<<St(<<120>>), SA>>), Tu(<<SA, I(1)>>), Tu(<<I(1), SA>>)}
         \cup L2({St(<<8364>>), St(<<128512>>), St(<<97, 98, 99>>), BE, By(<<98>>), Ba(<<97>>), I(1), T0, Tu(<<BA, By(<<120>>)>>),
                  Li(<<SA>>), Sub(SA, "S"), Tu(<<Tu(<<SA>>)>>)})
TypeArgs == {Ty("list"), Ty("tuple"), Ty("dict"), Ty("str"), Ty("bytes"), Ty("int"), Ty("float"), Ty("bool"), Ty("object"),
             Tys(<<"list", "tuple">>), Tys(<<"int", "str">>)}
            \cup L2({Ty("set"), Ty("frozenset"), Ty("bytearray"), Ty("type"), Tys(<<"bytes", "bytearray", "str">>)})
IntTexts == {St(<<49, 50>>), St(<<32, 45, 51, 32>>), St(<<49, 95, 48>>), St(<<120>>), By(<<49, 50>>), Ba(<<55>>), St(<<49, 95, 95, 48>>),
             St(<<43, 55>>), St(<<95, 49>>), St(<<49, 32, 50>>)}
FloatTexts == {St(<<49, 50>>), St(<<32, 45, 51, 46, 53, 32>>), St(<<110, 97, 110>>), St(<<120>>), By(<<49, 50>>), Ba(<<55>>),
               St(<<46, 53>>), St(<<53, 46>>), St(<<45, 105, 110, 102>>), St(<<45, 48>>), St(<<49, 95, 48, 46, 50, 53>>), St(<<46>>)}
Chars == {St(<<c>>) : c \in {97, 65, 49, 32, 233, 223, 8364, 453, 128512, 1635, 178, 304, 189, 8551, 95, 10, 66560}}
CharRecv == Chars \cup {SE, SAB, St(<<65, 98>>), St(<<65, 49>>), St(<<65, 32, 66, 98>>), St(<<223, 65>>), Sub(SA, "O"), Sub(St(<<65>>), "S"), None, I(1)}
Encs == {St(<<117, 116, 102, 56>>), St(<<85, 84, 70, 45, 56>>), St(<<97, 115, 99, 105, 105>>), St(<<108, 97, 116, 105, 110, 49>>),
         St(<<117, 116, 102, 45, 49, 54>>), St(<<110, 111, 112, 101>>)}
        \cup L2({St(<<117, 116, 102, 45, 56>>), St(<<105, 115, 111, 45, 56, 56, 53, 57, 45, 49>>), St(<<117, 116, 102, 45, 49, 54, 108, 101>>),
                 St(<<117, 116, 102, 45, 49, 54, 98, 101>>), St(<<117, 115, 45, 97, 115, 99, 105, 105>>), St(<<108, 97, 116, 105, 110, 45, 49>>),
                 St(<<117, 116, 102, 49, 54>>), SE})
Errs == {St(<<115, 116, 114, 105, 99, 116>>), St(<<105, 103, 110, 111, 114, 101>>), St(<<114, 101, 112, 108, 97, 99, 101>>), St(<<110, 111, 112, 101>>)}
Strict == St(<<115, 116, 114, 105, 99, 116>>)
Utf8 == St(<<117, 116, 102, 45, 56>>)
EncRecv == {SE, SA, SLat, SEuro, SEmo, St(<<97, 55296>>), Sub(SAB, "S"), Sub(SAB, "O"), None, BA}
DecRecv == {BE, BAB, BHi, By(<<195, 169>>), By(<<226, 130, 172>>), By(<<240, 159, 152, 128>>), By(<<226, 130>>), By(<<97, 255, 98>>),
            By(<<255, 254, 97, 0>>), BaAB, Sub(BAB, "S"), Sub(BAB, "O"), None, SA}
           \cup L2({By(<<192, 128>>), By(<<237, 160, 128>>), By(<<97, 0>>), By(<<254, 255, 0, 97>>), By(<<61, 216, 0, 222>>), By(<<61, 216>>),
                    By(<<0, 220>>), By(<<97>>), By(<<240, 159, 152>>), By(<<244, 144, 128, 128>>), Ba(<<195, 169>>), L0})

---------------------------------------------------------------------------
(* cases: Dom(shape) = set of argument tuples; GroupOf(shape) *)
P1(A) == {<<x>> : x \in A}
P2(A, B) == A \X B
P3(A, B, C) == A \X B \X C
P4(A, B, C, D) == A \X B \X C \X D

MinMaxA == Nums \cup ScaledInts \cup {SA, None}
MinMaxB == Nums \cup ScaledInts \cup {SB, None}
MM3 == {I(0), I(1), Fl(6), NaN, Bo(TRUE), I(-128), SA} \cup L2({I(5), I(127), NZ, I(-1)})
SumArgs == {None, I(1), SA, L0, L1, L213, LMix, LStrInt, LNone2, LNest, T12, Set1, D1, Li(<<Fl(6), I(1), Bo(FALSE)>>), Li(<<NZ>>),
            Li(<<Sub(I(3), "S"), I(1)>>), Sub(L12, "S"), Sub(L12, "O"), BAB}
SeqArgs == AnyV \cup Lists
SortArgs == (AnyV \ {NaN}) \cup Lists \cup {Set12, Li(<<Fl(6), I(1), Bo(FALSE)>>), Li(<<Tu(<<I(2), SA>>), Tu(<<I(1), SB>>)>>), D2,
             Li(<<I(1), Bo(TRUE), Fl(4), I(0)>>), Li(<<SB, SA, SAB>>), Li(<<BAB, BA>>), Li(<<L1, L0>>)}
DictRecv == Dicts \cup {None, L12}
ListRecv == {L0, L1, L213, LStrInt, Sub(L12, "S"), Sub(L12, "O"), None, D1, T12, BaAB}
ListOnlyRecv == {L0, L1, L213, LStrInt, Sub(L12, "S"), Sub(L12, "O"), None, D1, T12}
SetRecv == {Set0, Set1, Set12, SetF, Sub(Set1, "S"), Sub(Set1, "O"), None, T12, FSet1}
TextRecv == Strs \cup Byts \cup {None, L0}
StrRecv == Strs \cup {None, L0}
TextRecvS == {SE, SA, SAB, SLat, SEmo, BAB, None} \cup L2({SABAB, SEuro, BaAB, Sub(SAB, "S")})
StrRecvS == {SE, SA, SABAB, SLat, SEmo, None} \cup L2({SAB, SEuro, SAa, Sub(SAB, "S")})
PrefsS == {SE, SA, SAB, SB, BA, Tu(<<St(<<120>>), SA>>)} \cup L2({St(<<233>>), St(<<128512>>), None})
Prefs4 == {SE, SA, SAB, Tu(<<St(<<120>>), SA>>)} \cup L2({SB, BA, St(<<233>>)})
SIdx4 == {I(0), I(1), I(-1), I(3), None} \cup L2({Big(1), I(2), I(-2), I(5), I(-100), Big(-1), Big(2)})
SIdx4b == {I(0), I(1), I(-1), Big(1), None} \cup L2({I(3), I(2), I(-2), I(5), I(-100), Big(-1), Big(2)})
TextRecv4 == {SE, SAB, SLat, SEmo, BAB, None} \cup L2({SA, SABAB, SEuro, BaAB, Sub(SAB, "S")})
StrRecv4 == {SE, SABAB, SLat, SEmo, None} \cup L2({SA, SAB, SEuro, SAa, Sub(SAB, "S")})
Reps == {SE, SA, SAB, None, BA} \cup L2({St(<<8364>>), I(1), SAa})
Counts == {I(0), I(1), I(-1), I(2), Big(1), None, Fl(4)} \cup L2({Bo(TRUE), Big(-1), Big(2), I(100)})
SplitRecv == {SE, SA, SSp, SNl, SABAB, St(<<32>>), St(<<97, 9, 98, 160, 99, 8232, 100, 133, 101, 11, 102, 28, 103>>), Sub(SSp, "S"),
              Sub(SSp, "O"), None, L0, St(<<10>>), St(<<13, 10, 10>>)}
Seps == {SE, SA, St(<<32>>), SAB, None, BA, I(1), St(<<10>>)}
JoinIts == {L0, Li(<<SA>>), Li(<<SA, SB>>), Li(<<Sub(SA, "S")>>), Li(<<St(<<8364>>), St(<<120>>)>>), Li(<<SA, I(1)>>), Li(<<BA>>),
            Li(<<BA, By(<<98>>)>>), Tu(<<SA, SB>>), T0, None, I(1), SAB, BAB, Se({SA}), Di(<<<<St(<<107>>), I(1)>>>>), Li(<<SA, None>>),
            Li(<<Ba(<<97>>)>>), Li(<<Sub(SA, "O"), SB>>)}
MulRecv == {SE, SAB, BAB, BaAB, L1, T12, L0, None, Sub(SA, "S"), Sub(L12, "O"), Sub(SAB, "O")} \cup L2({SEuro, SEmo, Sub(BAB, "S")})
MulN == {I(0), I(1), I(2), I(-1), None, Fl(8), Bo(TRUE), SA, Sub(I(2), "S"), Big(-1), Big(-2), Big(1)}
ContRecv == {SE, SAB, SLat, SEuro, SEmo, Sub(SAB, "S"), Sub(SAB, "O"), BE, BAB, BHi, BaAB, L0, L213, LMix, LStrInt, T12, None, I(1)}
ContArgs == {SA, SE, SAB, St(<<233>>), St(<<8364>>), St(<<128512>>), I(97), I(1), BA, None, I(256), Big(1), Bo(TRUE), L0, I(-1), Fl(4)}

ShapeTable == <<
  <<"len", "num", P1(AnyV)>>, <<"abs", "num", P1(AnyV \cup Nums \cup ScaledInts)>>,
  <<"min2", "num", P2(MinMaxA, MinMaxB)>>, <<"max2", "num", P2(MinMaxA, MinMaxB)>>,
  <<"min3", "num", P3(MM3, MM3, MM3)>>, <<"max3", "num", P3(MM3, MM3, MM3)>>,
  <<"sum", "num", P1(SumArgs)>>, <<"sumgen", "num", P1(SumArgs)>>, <<"sumcomp", "num", P1(SumArgs)>>,
  <<"ord", "num", P1(AnyV \cup Strs \cup Byts \cup {Sub(SA, "O"), Sub(SA, "S"), St(<<8364>>), St(<<128512>>), By(<<233>>), Ba(<<97>>)})>>,
  <<"chr", "num", P1(Nums \cup {I(65), I(1114111), I(1114112), I(233), I(8364), I(55296), None, SA, Big(-1), Big(2), Big(-2), NInf, Sub(I(65), "S")})>>,
  <<"int", "num", P1((AnyV \ {Ty("list")}) \cup Nums \cup IntTexts \cup {Fl(-6), Fl(-2), NInf, Big(-1), Sub(Fl(10), "S")})>>,
  <<"float", "num", P1(((AnyV \cup Nums) \ {Big(1), Big(-1), Big(2), Big(-2), Ty("list")}) \cup FloatTexts)>>,
  <<"bool", "num", P1(AnyV \cup Nums \cup {Sub(I(0), "S"), Sub(L0, "S"), Sub(L0, "O"), Sub(SE, "S")})>>,
  <<"str", "num", P1(Strs \cup {None, I(0), I(-12), I(1114112), Bo(TRUE), Bo(FALSE), Sub(I(3), "S"), SSp})>>,
  <<"any", "pred", P1(SeqArgs)>>, <<"all", "pred", P1(SeqArgs)>>, <<"anygen", "pred", P1(SeqArgs)>>, <<"allgen", "pred", P1(SeqArgs)>>,
  <<"isinstance", "pred", P2(AnyV \cup {Sub(I(3), "S"), Sub(Fl(4), "S"), Sub(BAB, "S"), Ty("list")}, TypeArgs)>>,
  <<"list", "ctor", P1(SeqArgs)>>, <<"tuple", "ctor", P1(SeqArgs)>>, <<"set", "ctor", P1(SeqArgs \cup {Set12, LUnh})>>,
  <<"frozenset", "ctor", P1(SeqArgs \cup {Set12})>>,
  <<"dict", "ctor", P1(SeqArgs \cup Dicts \cup {TPairs, LPair, LBad1, LBad2, LUnh, Li(<<T12, Tu(<<Bo(TRUE), I(3)>>)>>)})>>,
  <<"listgen", "ctor", P1(SeqArgs)>>, <<"setgen", "ctor", P1(SeqArgs)>>, <<"dictgen", "ctor", P1(SeqArgs)>>,
  <<"sorted", "ctor", P1(SortArgs)>>, <<"sortedgen", "ctor", P1(SortArgs)>>,
  <<"d_get1", "dict", P2(DictRecv, Keys)>>, <<"d_get2", "dict", P3(DictRecv, Keys, {None, I(7)})>>,
  <<"d_setdefault1", "dict", P2(DictRecv, Keys)>>, <<"d_setdefault2", "dict", P3(DictRecv, Keys, {I(7), L0})>>,
  <<"d_pop1", "dict", P2(DictRecv, Keys)>>, <<"d_pop2", "dict", P3(DictRecv, Keys, {None, I(7)})>>,
  <<"d_contains", "dict", P2(DictRecv \cup {I(1)}, Keys)>>, <<"d_getitem", "dict", P2(DictRecv \cup {I(1)}, Keys)>>,
  <<"d_delitem", "dict", P2(DictRecv \cup {I(1)}, Keys)>>,
  <<"d_keys", "dict", P1(DictRecv \cup {SA})>>, <<"d_values", "dict", P1(DictRecv \cup {SA})>>, <<"d_items", "dict", P1(DictRecv \cup {SA})>>,
  <<"d_copy", "dict", P1(DictRecv \cup {T12})>>, <<"d_clear", "dict", P1(DictRecv \cup {T12})>>,
  <<"d_update", "dict", P2(Dicts \cup {None, T12}, {D0, D2, Sub(D1, "O"), TPairs, LPair, LBad1, LBad2, LUnh, None, I(1), L0, Di(<<<<Bo(TRUE), I(9)>>>>)})>>,
  <<"l_append", "list", P2(ListRecv, {I(9), None, L0, I(256)})>>, <<"l_append_r", "list", P2(ListRecv, {I(9), None, L0, I(256)})>>,
  <<"l_pop0", "list", P1(ListRecv \cup {Ba(<<>>)})>>,
  <<"l_pop1", "list", P2(ListRecv, Idx)>>,
  <<"l_insert", "list", P3(ListOnlyRecv, Idx, {I(9)})>>,
  <<"l_extend", "list", P2(ListOnlyRecv, AnyV)>>,
  <<"l_extend_lit2", "list", P3(ListOnlyRecv, {I(8)}, {None})>>,
  <<"l_reverse", "list", P1(ListOnlyRecv)>>, <<"l_sort", "list", P1(ListOnlyRecv \cup {LMix, LNone2, LStrs, LNest, LFalsy, Li(<<L1, L0>>)})>>,
  <<"s_add", "set", P2(SetRecv, Keys)>>, <<"s_discard", "set", P2(SetRecv, Keys)>>, <<"s_remove", "set", P2(SetRecv, Keys)>>,
  <<"s_contains", "set", P2(SetRecv \cup {FSet0, I(1)}, Keys)>>,
  <<"s_clear", "set", P1(SetRecv)>>, <<"s_pop", "set", P1(SetRecv \ {Set12})>>,
  <<"ba_append", "bytearray", P2({Ba(<<>>), BaAB, Sub(BaAB, "S"), Sub(BaAB, "O"), None, L0, BA},
                                  {I(0), I(65), I(255), I(256), I(-1), Big(1), Big(2), Big(-2), None, SA, BA, Fl(4), Bo(TRUE), Sub(I(66), "S")})>>,
  <<"ba_extend", "bytearray", P2({Ba(<<>>), BaAB, Sub(BaAB, "O"), None, T12},
                                  {By(<<99, 100>>), Ba(<<99>>), L12, Li(<<I(256)>>), Li(<<SA>>), SA, None, I(1), Tu(<<I(3)>>), BE, Li(<<I(1), None>>)})>>,
  <<"startswith1", "str", P2(TextRecv, Prefs)>>, <<"endswith1", "str", P2(TextRecv, Prefs)>>,
  <<"startswith2", "str", P3(TextRecvS, PrefsS, SIdx \cup {Fl(4)})>>, <<"endswith2", "str", P3(TextRecvS, PrefsS, SIdx \cup {Fl(4)})>>,
  <<"startswith3", "str", P4(TextRecv4, Prefs4, SIdx4, SIdx4b)>>, <<"endswith3", "str", P4(TextRecv4, Prefs4, SIdx4, SIdx4b)>>,
  <<"find1", "str", P2(StrRecv, Prefs)>>, <<"rfind1", "str", P2(StrRecv, Prefs)>>, <<"count1", "str", P2(Strs \cup {None, I(1)}, Prefs)>>,
  <<"find2", "str", P3(StrRecvS, PrefsS, SIdx \cup {Fl(4)})>>,
  <<"find3", "str", P4(StrRecv4, Prefs4, SIdx4, SIdx4b)>>, <<"rfind3", "str", P4(StrRecv4, Prefs4, SIdx4, SIdx4b)>>,
  <<"count3", "str", P4(StrRecv4, Prefs4, SIdx4, SIdx4b)>>,
  <<"replace2", "str", P3(StrRecv \cup {SABAB, SAa}, Reps, Reps)>>,
  <<"replace3", "str", P4(StrRecvS \cup {SAa}, {SE, SA, SAB}, {SE, SB, None}, Counts)>>,
  <<"split0", "str", P1(SplitRecv)>>, <<"split1", "str", P2(SplitRecv, Seps)>>,
  <<"split2", "str", P3(SplitRecv, {SA, St(<<32>>), None, SE}, Counts)>>,
  <<"splitlines0", "str", P1(SplitRecv)>>, <<"splitlines1", "str", P2(SplitRecv, {Bo(TRUE), Bo(FALSE), I(0), I(2), None, SE})>>,
  <<"join", "str", P2({SE, SA, St(<<44, 32>>), St(<<8364>>), Sub(SA, "S"), Sub(SA, "O"), BE, By(<<44>>), Ba(<<44>>), None, L0}, JoinIts)>>,
  <<"joingen", "str", P2({SE, SA, St(<<8364>>), Sub(SA, "S"), By(<<44>>), None}, JoinIts)>>,
  <<"encode0", "str", P1(EncRecv)>>, <<"encode1", "str", P2(EncRecv, Encs \cup {None, I(1)})>>,
  <<"encode2", "str", P3(EncRecv, Encs, Errs \cup {None})>>,
  <<"decode0", "str", P1(DecRecv)>>, <<"decode1", "str", P2(DecRecv, Encs \cup {None, I(1)})>>,
  <<"decode2", "str", P3(DecRecv, Encs, Errs \cup {None})>>,
  <<"slicedecode", "str", P4({By(<<97, 98, 99, 100>>), By(<<97, 195, 169, 98>>), BE, Ba(<<97, 98, 99, 100>>), None},
                              {I(0), I(1), I(-1), I(-100), None} \cup L2({I(2), I(100), Big(1), Big(-1)}),
                              {I(0), I(2), I(-1), I(100), None} \cup L2({I(3), I(-100), Big(1), Big(-1)}),
                              {Utf8, St(<<97, 115, 99, 105, 105>>), St(<<108, 97, 116, 105, 110, 49>>)} \cup L2({St(<<117, 116, 102, 45, 49, 54>>)}))>>,
  <<"mul", "str", P2(MulRecv, MulN)>>, <<"rmul", "str", P2(MulRecv, MulN)>>,
  <<"contains", "str", P2(ContRecv, ContArgs)>>,
  <<"c_isalpha", "ucs4", P1(CharRecv)>>, <<"c_isdigit", "ucs4", P1(CharRecv)>>, <<"c_isdecimal", "ucs4", P1(CharRecv)>>,
  <<"c_isnumeric", "ucs4", P1(CharRecv)>>, <<"c_isspace", "ucs4", P1(CharRecv)>>, <<"c_isupper", "ucs4", P1(CharRecv)>>,
  <<"c_islower", "ucs4", P1(CharRecv)>>, <<"c_isalnum", "ucs4", P1(CharRecv)>>, <<"c_istitle", "ucs4", P1(CharRecv)>>,
  <<"c_lower", "ucs4", P1(CharRecv)>>, <<"c_upper", "ucs4", P1(CharRecv)>>, <<"c_title", "ucs4", P1(CharRecv)>>
>>
ShapeIdx == {i \in 1..Len(ShapeTable) : ShapeTable[i][2] \in Groups}

\* the reference: set of <<outcome, receiver afterwards>> (exactly one element, see Functional)
Ref(sh, a) ==
  CASE sh = "len" -> D_len(a) [] sh = "abs" -> D_abs(a)
    [] sh = "min2" -> D_min2(a) [] sh = "max2" -> D_max2(a) [] sh = "min3" -> D_min3(a) [] sh = "max3" -> D_max3(a)
    [] sh \in {"sum", "sumgen", "sumcomp"} -> D_sum(a)
    [] sh = "ord" -> D_ord(a) [] sh = "chr" -> D_chr(a) [] sh = "int" -> D_int(a) [] sh = "float" -> D_float(a)
    [] sh = "bool" -> D_bool(a) [] sh = "str" -> D_str(a)
    [] sh \in {"any", "anygen"} -> D_any(a) [] sh \in {"all", "allgen"} -> D_all(a)
    [] sh = "isinstance" -> D_isinstance(a)
    [] sh \in {"list", "listgen"} -> D_list(a) [] sh = "tuple" -> D_tuple(a)
    [] sh \in {"set", "setgen"} -> D_set(a) [] sh = "frozenset" -> D_frozenset(a)
    [] sh = "dict" -> D_dict(a) [] sh = "dictgen" -> D_dictgen(a)
    [] sh \in {"sorted", "sortedgen"} -> D_sorted(a)
    [] sh = "d_get1" -> D_d_get1(a) [] sh = "d_get2" -> D_d_get2(a)
    [] sh = "d_setdefault1" -> D_d_setdefault1(a) [] sh = "d_setdefault2" -> D_d_setdefault2(a)
    [] sh = "d_pop1" -> D_d_pop1(a) [] sh = "d_pop2" -> D_d_pop2(a) [] sh = "d_contains" -> D_d_contains(a) [] sh = "d_getitem" -> D_d_getitem(a) [] sh = "d_delitem" -> D_d_delitem(a)
    [] sh = "d_keys" -> D_d_keys(a) [] sh = "d_values" -> D_d_values(a) [] sh = "d_items" -> D_d_items(a)
    [] sh = "d_copy" -> D_d_copy(a) [] sh = "d_clear" -> D_d_clear(a) [] sh = "d_update" -> D_d_update(a)
    [] sh = "l_append" -> D_l_append_stmt(a) [] sh = "l_append_r" -> D_l_append(a)
    [] sh = "l_pop0" -> D_l_pop0(a) [] sh = "l_pop1" -> D_l_pop1(a) [] sh = "l_insert" -> D_l_insert(a)
    [] sh = "l_extend" -> D_l_extend(a) [] sh = "l_extend_lit2" -> D_l_extend_lit2(a)
    [] sh = "l_reverse" -> D_l_reverse(a) [] sh = "l_sort" -> D_l_sort(a)
    [] sh = "s_add" -> D_s_add(a) [] sh = "s_discard" -> D_s_discard(a) [] sh = "s_remove" -> D_s_remove(a)
    [] sh = "s_contains" -> D_s_contains(a) [] sh = "s_clear" -> D_s_clear(a) [] sh = "s_pop" -> D_s_pop(a)
    [] sh = "ba_append" -> D_ba_append(a) [] sh = "ba_extend" -> D_ba_extend(a)
    [] sh = "startswith1" -> D_tail(a, None, None, -1) [] sh = "startswith2" -> D_tail(a, a[3], None, -1)
    [] sh = "startswith3" -> D_tail(a, a[3], a[4], -1)
    [] sh = "endswith1" -> D_tail(a, None, None, 1) [] sh = "endswith2" -> D_tail(a, a[3], None, 1)
    [] sh = "endswith3" -> D_tail(a, a[3], a[4], 1)
    [] sh = "find1" -> D_find(a, None, None, -1) [] sh = "find2" -> D_find(a, a[3], None, -1)
    [] sh = "find3" -> D_find(a, a[3], a[4], -1)
    [] sh = "rfind1" -> D_find(a, None, None, 1) [] sh = "rfind3" -> D_find(a, a[3], a[4], 1)
    [] sh = "count1" -> D_count(a, None, None) [] sh = "count3" -> D_count(a, a[3], a[4])
    [] sh = "replace2" -> D_replace(a, I(-1)) [] sh = "replace3" -> D_replace(a, a[4])
    [] sh = "split0" -> D_split(a, None, I(-1)) [] sh = "split1" -> D_split(a, a[2], I(-1)) [] sh = "split2" -> D_split(a, a[2], a[3])
    [] sh = "splitlines0" -> D_splitlines(a, FALSE) [] sh = "splitlines1" -> D_splitlines(a, Truth(a[2]))
    [] sh \in {"join", "joingen"} -> D_join(a)
    [] sh = "encode0" -> D_encode(a, Utf8, Strict) [] sh = "encode1" -> D_encode(a, a[2], Strict) [] sh = "encode2" -> D_encode(a, a[2], a[3])
    [] sh = "decode0" -> D_decode(a, Utf8, Strict) [] sh = "decode1" -> D_decode(a, a[2], Strict) [] sh = "decode2" -> D_decode(a, a[2], a[3])
    [] sh = "slicedecode" -> D_slicedecode(a)
    [] sh \in {"mul", "rmul"} -> D_mul(a) [] sh = "contains" -> D_contains(a)
    [] sh = "c_isalpha" -> D_char("isalpha", a) [] sh = "c_isdigit" -> D_char("isdigit", a) [] sh = "c_isdecimal" -> D_char("isdecimal", a)
    [] sh = "c_isnumeric" -> D_char("isnumeric", a) [] sh = "c_isspace" -> D_char("isspace", a) [] sh = "c_isupper" -> D_char("isupper", a)
    [] sh = "c_islower" -> D_char("islower", a) [] sh = "c_isalnum" -> D_char("isalnum", a) [] sh = "c_istitle" -> D_char("istitle", a)
    [] sh = "c_lower" -> D_char("lower", a) [] sh = "c_upper" -> D_char("upper", a) [] sh = "c_title" -> D_char("title", a)

---------------------------------------------------------------------------
VARIABLES shape, args, outs
vars == <<shape, args, outs>>

Init == \E i \in ShapeIdx : /\ shape = ShapeTable[i][1]
                            /\ args \in ShapeTable[i][3]
                            /\ outs = Ref(shape, args)
Next == UNCHANGED vars
Spec == Init /\ [][Next]_vars

(* exactly one branch of the definition applies *)
Functional == Cardinality(outs) = 1
TheOut == CHOOSE r \in outs : TRUE

ExcNames == {"TypeError", "AttributeError", "ValueError", "IndexError", "KeyError", "OverflowError", "LookupError",
             "UnicodeEncodeError", "UnicodeDecodeError"}
AllTags == NumTags \cup {"None", "str", "bytes", "bytearray", "list", "tuple", "set", "frozenset", "dict", "type", "types", "any", "exc"}
RECURSIVE WFValue(_)
WFValue(v) == /\ Tag(v) \in AllTags /\ SubOf(v) \in {"", "S", "O"}
              /\ CASE Tag(v) \in {"list", "tuple"} -> \A i \in 1..Len(Pay(v)) : WFValue(Pay(v)[i])
                   [] Tag(v) \in {"set", "frozenset"} -> \A x \in Pay(v) : WFValue(x) /\ Hashable(x)
                   [] Tag(v) = "dict" -> \A i \in 1..Len(Pay(v)) : WFValue(Pay(v)[i][1]) /\ WFValue(Pay(v)[i][2]) /\ Hashable(Pay(v)[i][1])
                   [] Tag(v) \in {"str"} -> \A i \in 1..Len(Pay(v)) : Pay(v)[i] \in 0..1114111
                   [] Tag(v) \in {"bytes", "bytearray"} -> \A i \in 1..Len(Pay(v)) : Pay(v)[i] \in 0..255
                   [] Tag(v) = "exc" -> Pay(v)[1] \in ExcNames /\ WFValue(Pay(v)[2]) /\ SubOf(v) # "O"
                   [] OTHER -> TRUE
WellFormed == \A r \in outs : /\ r[1][1] \in {"v", "e"}
                              /\ (r[1][1] = "e" => /\ r[1][2] \in ExcNames
                                                    /\ r[1][3][1] \in {"msg", "args"}
                                                    /\ (r[1][3][1] = "msg" => r[1][3][2] = <<>>)
                                                    /\ \A i \in 1..Len(r[1][3][2]) : WFValue(r[1][3][2][i]))
                              /\ (r[1][1] = "v" => WFValue(r[1][2]))
                              /\ WFValue(r[2])

---------------------------------------------------------------------------
(* declarative laws that tie the operators together; checked on every state they apply to *)
O1 == TheOut[1]
IsV == O1[1] = "v"
RV == O1[2]
X1 == args[1]
\* sorted: a stable ordered permutation
SortedLaw == (shape \in {"sorted", "sortedgen"} /\ IsV) =>
               LET r == Pay(RV) s == Iter(X1) IN
               /\ Len(r) = Len(s)
               /\ \A i \in 1..Len(r) : \A j \in 1..Len(r) : i < j => Lt3(r[j], r[i]) # "T"
               /\ \A x \in Range(s) : Cardinality({i \in 1..Len(s) : s[i] = x}) = Cardinality({i \in 1..Len(r) : r[i] = x})
\* min / max return one of the arguments and no argument beats the result
MinMaxLaw == (shape \in {"min2", "max2", "min3", "max3"} /\ IsV /\ \A i \in 1..Len(args) : Tag(args[i]) # "fnan") =>
               /\ \E i \in 1..Len(args) : args[i] = RV
               /\ \A i \in 1..Len(args) : (IF shape \in {"min2", "min3"} THEN Lt3(args[i], RV) ELSE Lt3(RV, args[i])) # "T"
\* set(x): exactly the elements of x up to equality, no two equal
SetLaw == (shape \in {"set", "setgen", "frozenset"} /\ IsV) =>
               /\ \A x \in Range(Iter(X1)) : \E y \in Pay(RV) : PyEq(x, y)
               /\ \A y \in Pay(RV) : \E x \in Range(Iter(X1)) : x = y
               /\ \A y \in Pay(RV) : \A z \in Pay(RV) : PyEq(y, z) => y = z
\* find / rfind: declarative definition of the position
FindLaw == (shape \in {"find1", "find2", "find3", "rfind1", "rfind3"} /\ IsV /\ IsStrR(X1)) =>
               LET s == Pay(X1) p == Pay(args[2])
                   b == Bounds(s, IF Len(args) >= 3 THEN args[3] ELSE None, IF Len(args) >= 4 THEN args[4] ELSE None)
                   r == Pay(RV)
                   inr(i) == i >= b[2] /\ i + Len(p) <= b[3] /\ MatchAt(s, p, i) IN
               /\ r >= 0 => inr(r)
               /\ r = -1 => \A i \in 0..Len(s) : ~inr(i)
               /\ r >= 0 => \A i \in 0..Len(s) : inr(i) => (IF shape \in {"find1", "find2", "find3"} THEN r <= i ELSE r >= i)
\* startswith agrees with find at the start position; count > 0 iff find succeeds
TailLaw == (shape \in {"startswith1", "startswith2", "startswith3"} /\ IsV /\ IsStrR(X1) /\ Tag(args[2]) = "str") =>
               LET b == Bounds(Pay(X1), IF Len(args) >= 3 THEN args[3] ELSE None, IF Len(args) >= 4 THEN args[4] ELSE None) IN
               Pay(RV) <=> (b[2] + Len(Pay(args[2])) <= b[3] /\ MatchAt(Pay(X1), Pay(args[2]), b[2]))
CountLaw == (shape \in {"count1", "count3"} /\ IsV /\ IsStrR(X1)) =>
               LET f == Find(X1, args[2], IF Len(args) >= 3 THEN args[3] ELSE None, IF Len(args) >= 4 THEN args[4] ELSE None, -1) IN
               (Pay(RV) > 0) <=> (Pay(f[2]) >= 0)
\* split with a separator and no limit is inverted by join; replace(x, x) is the identity
SplitLaw == (shape = "split1" /\ IsV /\ IsStrR(X1)) =>
               (IF IsNone(args[2]) THEN \A i \in 1..Len(Pay(RV)) : Pay(Pay(RV)[i]) # <<>> /\ \A c \in Range(Pay(Pay(RV)[i])) : c \notin USpace
                ELSE JoinSeq(Pay(args[2]), Pay(RV)) = Pay(X1))
ReplaceLaw == (shape = "replace2" /\ IsV /\ IsStrR(X1) /\ args[2] = args[3]) => Pay(RV) = Pay(X1)
LinesLaw == (shape = "splitlines1" /\ IsV /\ IsStrR(X1) /\ Truth(args[2])) => Concat([i \in 1..Len(Pay(RV)) |-> Pay(Pay(RV)[i])]) = Pay(X1)
\* encoding is inverted by decoding
CodecLaw == (shape \in {"encode0", "encode1"} /\ IsV /\ IsStrR(X1)) =>
               LET c == IF shape = "encode0" THEN "utf8" ELSE CodecOf(Pay(args[2])) IN Decode(Pay(RV), c, "strict") = Val(St(Pay(X1)))
\* dict laws: after setdefault the key is present, after pop it is absent, other entries are untouched
DictLaw == (shape \in {"d_setdefault1", "d_setdefault2", "d_pop1", "d_pop2", "d_delitem"} /\ IsV /\ IsDictR(X1)) =>
               LET post == TheOut[2] k == args[2] IN
               /\ (DictIdx(Pay(post), k, 1) # 0) <=> (shape \in {"d_setdefault1", "d_setdefault2"})
               /\ \A i \in 1..Len(Pay(X1)) : ~PyEq(Pay(X1)[i][1], k) => \E j \in 1..Len(Pay(post)) : Pay(post)[j] = Pay(X1)[i]
\* list laws: pop(i) removes exactly one element, insert adds exactly one, reverse twice is the identity
ListLaw == /\ (shape \in {"l_pop0", "l_pop1"} /\ IsV /\ IsListR(X1)) => Len(Pay(TheOut[2])) = Len(Pay(X1)) - 1
           /\ (shape = "l_insert" /\ IsV /\ IsListR(X1)) =>
                 /\ Len(Pay(TheOut[2])) = Len(Pay(X1)) + 1
                 /\ \E j \in 1..Len(Pay(TheOut[2])) : Pay(TheOut[2])[j] = args[3] /\ RemoveAt(Pay(TheOut[2]), j) = Pay(X1)
           /\ (shape = "l_reverse" /\ IsListR(X1)) => Rev(Pay(TheOut[2])) = Pay(X1)
\* Exceptions that carry the key.  Transcription of how a C helper raises: PyErr_SetObject(cls, v) followed by normalisation
\* builds cls() for None, cls(*v) for a tuple (subclass), raises v itself when v is an instance of cls, cls(v) otherwise.
ExcBases(n) == CASE n = "KeyError" -> {"KeyError", "LookupError"}
                 [] n = "IndexError" -> {"IndexError", "LookupError"}
                 [] n \in {"UnicodeEncodeError", "UnicodeDecodeError"} -> {n, "ValueError"}
                 [] OTHER -> {n}
SetObject(cls, v) == CASE IsNone(v) -> <<"args", <<>>>>
                       [] Tag(v) = "tuple" -> <<"args", Pay(v)>>
                       [] Tag(v) = "exc" /\ cls \in ExcBases(Pay(v)[1]) -> <<"is", <<v>>>>
                       [] OTHER -> <<"args", <<v>>>>
KeyClass(v) == CASE IsNone(v) -> "none"
                 [] Tag(v) = "tuple" -> "tuple"
                 [] Tag(v) = "exc" /\ "KeyError" \in ExcBases(Pay(v)[1]) -> "exc"
                 [] OTHER -> "plain"
KeyedShapes == {"d_pop1", "l_pop1", "d_getitem", "d_delitem", "s_remove"}
IsKeyed == O1[1] = "e" /\ O1[2] = "KeyError" /\ O1[3][1] = "args"
\* a lookup by key that fails with KeyError reports exactly the key that was passed; packing the key into a 1-tuple is right for
\* every key, handing the bare key to PyErr_SetObject is right for the plain class only
KeyLaw == /\ IsKeyed => shape \in KeyedShapes /\ O1[3] = <<"args", <<args[2]>>>>
          /\ (shape \in KeyedShapes /\ O1[1] = "e" /\ O1[2] = "KeyError") => IsKeyed
          /\ IsKeyed => /\ SetObject("KeyError", Tu(<<args[2]>>)) = O1[3]
                        /\ (KeyClass(args[2]) = "plain") <=> (SetObject("KeyError", args[2]) = O1[3])
\* len agrees with list(): the number of items iteration yields (exact types)
LenLaw == (shape = "len" /\ IsV /\ ~IsO(X1)) => Pay(RV) = Len(Iter(X1))
Laws == /\ SortedLaw /\ MinMaxLaw /\ SetLaw /\ FindLaw /\ TailLaw /\ CountLaw /\ SplitLaw /\ ReplaceLaw /\ LinesLaw /\ CodecLaw
        /\ DictLaw /\ ListLaw /\ LenLaw /\ KeyLaw

(* publication: one record per case *)
Publish == Dump => PrintT("@@" \o ToJson([shape |-> shape, args |-> args, o |-> TheOut[1], post |-> TheOut[2],
                                           kc |-> IF IsKeyed THEN KeyClass(args[2]) ELSE ""]))
=============================================================================
