SPECIFICATION Spec
CONSTANTS
  Part = "member"
  MaxArms = 1
INVARIANT LogInOrder
INVARIANT MemberOK
INVARIANT FlattenOffHazards
INVARIANT Publish
CHECK_DEADLOCK FALSE
