----------------------------- MODULE ConstSeq ------------------------------
(* C09, part 4: constant tuples / lists with a constant repeat factor, and  *)
(* what the compiler evaluates at compile time from them.                    *)
(*                                                                          *)
(*  Reference  : Python: s * k (k <= 0 gives the empty sequence), comparison *)
(*               of sequences (lexicographic), truth value (non-empty),      *)
(*               membership, and/or, conditional expression.                 *)
(*  Impl-shaped: Optimize.ConstantFolding.visit_MulNode /                    *)
(*               _calculate_constant_seq: the sequence node keeps its items, *)
(*               gets a `mult_factor` (or loses its items for k <= 0) and    *)
(*               takes over the constant_result of the product (MulNode:     *)
(*               constant_result of the sequence * factor).  Everything that *)
(*               is decided at compile time from that node (comparison       *)
(*               folding, coercion to a truth value for not / if-else /      *)
(*               and / or) reads that constant_result; the value built at    *)
(*               run time is items * mult_factor; `in` is a chain of         *)
(*               comparisons with the items.                                 *)
(* A case is built in three steps: make a sequence of small ints, repeat it  *)
(* (from the right or the left) up to MaxRepeats times, consume it.          *)
(* TLC proves that the implementation-shaped result equals the reference     *)
(* result for every consumer (ImplAgrees); published: the reference result.  *)
EXTENDS Integers, Sequences, FiniteSets, TLC, Json

CONSTANTS Atoms,        \* the ints that may be items
          MaxLen,       \* length of the written sequence
          Factors,      \* repeat factors
          MaxRepeats,
          Dump

Atoms012 == {0, 1, 2}
Atoms01 == {0, 1}
AllFactors == {-1, 0, 1, 2, 3}

VARIABLES phase, kind, base, ops, node, val, cons, res, ires
vars == <<phase, kind, base, ops, node, val, cons, res, ires>>

Seqs(n) == {<<>>} \cup (IF n >= 1 THEN {<<a>> : a \in Atoms} ELSE {}) \cup (IF n >= 2 THEN {<<a, b>> : a \in Atoms, b \in Atoms} ELSE {})
                   \cup (IF n >= 3 THEN {<<a, b, c>> : a \in Atoms, b \in Atoms, c \in Atoms} ELSE {})
RECURSIVE Rep(_, _)
Rep(s, k) == IF k <= 0 THEN <<>> ELSE s \o Rep(s, k - 1)
Range(s) == {s[i] : i \in 1..Len(s)}
RECURSIVE LexLess(_, _)
LexLess(a, b) == IF b = <<>> THEN FALSE ELSE IF a = <<>> THEN TRUE
                 ELSE IF Head(a) # Head(b) THEN Head(a) < Head(b) ELSE LexLess(Tail(a), Tail(b))

\* results: a bool, an int or a sequence (uniform record)
RBool(b) == [k |-> "bool", b |-> b, i |-> 0, s |-> <<>>]
RInt(i) == [k |-> "int", b |-> FALSE, i |-> i, s |-> <<>>]
RSeq(s) == [k |-> "seq", b |-> FALSE, i |-> 0, s |-> s]
NoRes == [k |-> "none", b |-> FALSE, i |-> 0, s |-> <<>>]
NoCons == [c |-> "", other |-> <<>>, x |-> 0]

---------------------------------------------------------------------------
(* implementation-shaped node: items, mult_factor (0 = None), constant_result *)
NodeOf(s) == [args |-> s, mult |-> 0, cres |-> s]
\* _calculate_constant_seq(node, sequence_node, factor)
CalcSeq(n, k) ==
  IF k # 1 /\ n.args # <<>> THEN
       \* sequence_node.constant_result = node.constant_result (the MulNode's: constant_result * factor)
       IF k <= 0 THEN [n EXCEPT !.args = <<>>, !.mult = 0, !.cres = Rep(n.cres, k)]
       ELSE IF n.mult # 0 THEN [n EXCEPT !.mult = n.mult * k, !.cres = Rep(n.cres, k)]
       ELSE [n EXCEPT !.mult = k, !.cres = Rep(n.cres, k)]
  ELSE n
\* what the generated code builds at run time
NodeValue(n) == Rep(n.args, IF n.mult = 0 THEN 1 ELSE n.mult)

CmpNames == {"eq", "ne", "lt", "nested-eq"}
Consumers == CmpNames \cup {"not", "cond", "or", "and", "in", "ret", "len"}

\* reference: v is the value of the sequence expression
RefConsume(c, v) ==
  CASE c.c = "eq" -> RBool(v = c.other) [] c.c = "nested-eq" -> RBool(v = c.other)
    [] c.c = "ne" -> RBool(v # c.other) [] c.c = "lt" -> RBool(LexLess(v, c.other))
    [] c.c = "not" -> RBool(v = <<>>)
    [] c.c = "cond" -> RInt(IF v # <<>> THEN 7 ELSE 8)               \* 7 if S else 8
    [] c.c = "or" -> IF v # <<>> THEN RSeq(v) ELSE RInt(5)           \* S or 5
    [] c.c = "and" -> IF v # <<>> THEN RInt(5) ELSE RSeq(v)          \* S and 5
    [] c.c = "in" -> RBool(c.x \in Range(v))                         \* x in S
    [] c.c = "ret" -> RSeq(v)
    [] c.c = "len" -> RInt(Len(v))
\* implementation-shaped: compile-time decisions read n.cres, run-time values are NodeValue(n)
ImplConsume(c, n) ==
  CASE c.c = "eq" -> RBool(n.cres = c.other) [] c.c = "nested-eq" -> RBool(n.cres = c.other)
    [] c.c = "ne" -> RBool(n.cres # c.other) [] c.c = "lt" -> RBool(LexLess(n.cres, c.other))
    [] c.c = "not" -> RBool(n.cres = <<>>)
    [] c.c = "cond" -> RInt(IF n.cres # <<>> THEN 7 ELSE 8)
    [] c.c = "or" -> IF n.cres # <<>> THEN RSeq(NodeValue(n)) ELSE RInt(5)
    [] c.c = "and" -> IF n.cres # <<>> THEN RInt(5) ELSE RSeq(NodeValue(n))
    [] c.c = "in" -> RBool(c.x \in Range(n.args))        \* `x in (a, b) * k` becomes a chain of comparisons with the items
    [] c.c = "ret" -> RSeq(NodeValue(n))
    [] c.c = "len" -> RInt(Len(NodeValue(n)))

---------------------------------------------------------------------------
Init == /\ phase = "start" /\ kind = "" /\ base = <<>> /\ ops = <<>> /\ node = NodeOf(<<>>) /\ val = <<>>
        /\ cons = NoCons /\ res = NoRes /\ ires = NoRes

Make == /\ phase = "start"
        /\ \E s \in Seqs(MaxLen), kd \in {"tuple", "list"} :
             /\ base' = s /\ kind' = kd /\ node' = NodeOf(s) /\ val' = s
        /\ phase' = "seq" /\ UNCHANGED <<ops, cons, res, ires>>

Repeat == /\ phase = "seq" /\ Len(ops) < MaxRepeats
          /\ \E k \in Factors, side \in {"r", "l"} :
               /\ Len(Rep(val, k)) <= 8
               /\ ops' = Append(ops, [side |-> side, k |-> k])
               /\ val' = Rep(val, k) /\ node' = CalcSeq(node, k)
          /\ UNCHANGED <<phase, kind, base, cons, res, ires>>

\* the sequences a comparison is made with: the true value, the written items, the empty sequence, one more item
Others == {val, base, <<>>} \cup (IF Len(val) < 8 THEN {Append(val, 0)} ELSE {})

Consume == /\ phase = "seq"
           /\ \E c \in Consumers :
                \E o \in (IF c \in CmpNames THEN Others ELSE {<<>>}), x \in (IF c = "in" THEN Atoms ELSE {0}) :
                   LET cc == [c |-> c, other |-> o, x |-> x] IN
                   /\ cons' = cc /\ res' = RefConsume(cc, val) /\ ires' = ImplConsume(cc, node)
           /\ phase' = "done" /\ UNCHANGED <<kind, base, ops, node, val>>

Next == Make \/ Repeat \/ Consume
Spec == Init /\ [][Next]_vars

---------------------------------------------------------------------------
(* the value built at run time is the Python value ...                       *)
RuntimeValueRight == NodeValue(node) = val
(* ... the constant_result of the node is that value as well ...             *)
CresIsValue == phase # "start" => node.cres = val
(* ... and so the implementation-shaped result of every consumer, decided at *)
(* compile time or not, is the reference result: no hazard is left           *)
ImplAgrees == phase = "done" => res = ires
(* repeating obeys Python's laws on the reference side                       *)
RepLaws == phase = "seq" => /\ Len(val) <= 8
                            /\ \A k \in Factors : Len(Rep(val, k)) = (IF k <= 0 THEN 0 ELSE k * Len(val))

Publish == (Dump /\ phase = "done") =>
             PrintT("@@" \o ToJson([kind |-> kind, base |-> base, ops |-> ops, cons |-> cons, val |-> val,
                                     res |-> res, repeated |-> val # base]))
=============================================================================
