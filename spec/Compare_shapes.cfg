SPECIFICATION Spec
CONSTANTS
  Part = "shapes"
  BoolSize = "q"
  AndMerge = "fixed"
  MaxArms = 1
INVARIANT LogInOrder
INVARIANT ChainOK
INVARIANT ChainDuals
INVARIANT PairOK
INVARIANT MemberOK
INVARIANT FlattenOffHazards
INVARIANT StrinOK
INVARIANT Publish
CHECK_DEADLOCK FALSE
