----------------------------- MODULE MemSlice -----------------------------
(* C16: indexing and slicing of typed memoryviews.                          *)
(*                                                                          *)
(* A view is <off, dims> over a base array whose element at position p has  *)
(* the id p: dims is a sequence of [n |-> extent, s |-> stride] (strides in *)
(* elements).  An index expression is a sequence of items                   *)
(*   [k |-> "i"] integer, [k |-> "s"] slice a:b:c (NoneV = bound omitted),  *)
(*   [k |-> "n"] None (new axis), [k |-> "e"] Ellipsis.                     *)
(*                                                                          *)
(*  Reference  : buffer / sequence semantics: PySlice_Unpack +              *)
(*               PySlice_AdjustIndices per axis (for a negative step the    *)
(*               clamps are -1 and n-1), integer index with wraparound or   *)
(*               IndexError, step 0 -> ValueError, None inserts an axis of  *)
(*               extent 1, one Ellipsis expands to the missing axes.        *)
(*  Impl-shaped: __pyx_memoryview_slice_memviewslice (MemoryView_C.c) per   *)
(*               dimension with its have_start/have_stop/have_step flags,   *)
(*               its clamping branches (which differ from CPython's for a   *)
(*               stop >= extent under a negative step) and its length       *)
(*               computation; the SliceIndex template for integers;         *)
(*               unellipsify of Compiler/MemoryView.py (typed path) and     *)
(*               _unellipsify_index_tuple of MemoryView.pyx (object path).  *)
(*               Transcribed from the code after commit 20608b6d6, which    *)
(*               repaired the two deviations this model had exhibited       *)
(*               (clamp to 0 under a negative step; C-division length).     *)
(*               The cells on which they occurred are still marked (nbs,    *)
(*               nbe, agd) so that the binding can show they are replayed.  *)
(*                                                                          *)
(* Behaviours: Init picks an input buffer (extents, per-axis layout:        *)
(* contiguous / every second element / reversed, all inside a padded base), *)
(* every step applies one index expression to the current (reference) view, *)
(* so a history is a chain a[e1][e2]...; every state after at least one     *)
(* step is a published case: expected observation <err, shape, strides,     *)
(* element ids>.  A chain ends at an error, a 0-dim or an empty result.     *)
EXTENDS Integers, Sequences, FiniteSets, TLC, Json

CONSTANTS Inits,      \* set of <<mode, lens, lays>>; mode: "full1" 1-D, whole quantifier domain | "chain1" 1-D chains | "nd" 1..3-D menus
          ChainDepth, \* length of the chains
          ChainFull,  \* chain1: the second link ranges over the whole domain instead of the boundary set
          Dump        \* publish the cases

VARIABLES init,   \* <<mode, lens, lays>> of the input buffer
          lane,   \* which part of the first-step menu this behaviour explores
          prev,   \* view the last expression was applied to
          view,   \* current (reference) view
          hist,   \* expressions applied so far
          exp     \* expected observation of the last expression, hazard class, predicted observation of the code as it is
vars == <<init, lane, prev, view, hist, exp>>
Mode == init[1]
MaxDepth == IF Mode = "chain1" THEN ChainDepth ELSE 1

NoneV == 99          \* "bound omitted" (all real bounds are within -2n-1 .. 2n+1, n <= 6)
Big == 1000          \* stands for PY_SSIZE_T_MAX in PySlice_Unpack

Abs(x) == IF x < 0 THEN -x ELSE x
Sgn(x) == IF x < 0 THEN -1 ELSE 1
TruncDiv(a, b) == Sgn(a) * Sgn(b) * (Abs(a) \div Abs(b))      \* C division
SetMin(S) == CHOOSE x \in S : \A y \in S : x <= y

\* TLC re-evaluates a LET definition at every use but evaluates an operator argument once: values
\* that are used several times are therefore passed on as arguments of a helper operator (name_).
Seqify(f) == f \o <<>>      \* TLC: evaluate a function constructor over 1..n once, into a plain tuple
RECURSIVE SumSeq(_)
SumSeq(s) == IF s = <<>> THEN 0 ELSE Head(s) + SumSeq(Tail(s))
RECURSIVE Cat(_)
Cat(ss) == IF ss = <<>> THEN <<>> ELSE Head(ss) \o Cat(Tail(ss))
RECURSIVE Prod(_)    \* all sequences s with s[i] \in sets[i]
Prod(sets) == IF sets = <<>> THEN {<<>>} ELSE {<<h>> \o t : h \in Head(sets), t \in Prod(Tail(sets))}

---------------------------------------------------------------------------
(* input buffers: an axis of extent n lives in 2n+4 slots (2 slots of      *)
(* padding on both sides, so that even the deviating views of the hazards  *)
(* stay inside the base and the predicted observation is deterministic)    *)
Span(n) == 2 * n + 4
LayFirst(l, n) == IF l = "r" THEN n + 1 ELSE 2
LayStep(l) == CASE l = "c" -> 1 [] l = "s2" -> 2 [] l = "r" -> -1
RECURSIVE ProdSpan(_)
ProdSpan(lens) == IF lens = <<>> THEN 1 ELSE Span(Head(lens)) * ProdSpan(Tail(lens))
BaseStride(lens, i) == ProdSpan(SubSeq(lens, i + 1, Len(lens)))
BaseSize(lens) == ProdSpan(lens)
InitView(lens, lays) ==
  [off |-> SumSeq([i \in 1..Len(lens) |-> LayFirst(lays[i], lens[i]) * BaseStride(lens, i)]),
   dims |-> Seqify([i \in 1..Len(lens) |-> [n |-> lens[i], s |-> LayStep(lays[i]) * BaseStride(lens, i)]])]

RECURSIVE Elems(_, _)   \* element ids in C order
Elems(off, dims) == IF dims = <<>> THEN <<off>>
                    ELSE LET d == Head(dims) IN Cat([j \in 1..d.n |-> Elems(off + (j - 1) * d.s, Tail(dims))])

---------------------------------------------------------------------------
(* items *)
Sl(a, b, c) == [k |-> "s", a |-> a, b |-> b, c |-> c]
Ix(i) == [k |-> "i", a |-> i, b |-> NoneV, c |-> NoneV]
NA == [k |-> "n", a |-> NoneV, b |-> NoneV, c |-> NoneV]
EL == [k |-> "e", a |-> NoneV, b |-> NoneV, c |-> NoneV]
FullSl == Sl(NoneV, NoneV, NoneV)
IsAxisItem(it) == it.k \in {"i", "s"}
NReal(e) == Cardinality({p \in DOMAIN e : IsAxisItem(e[p])})

\* per-item outcome: error, or offset delta and (if the axis is kept) the new extent and stride
Out(err, doff, keep, n, s) == [err |-> err, doff |-> doff, keep |-> keep, n |-> n, s |-> s]

---------------------------------------------------------------------------
(* reference *)
AdjRef(x, n, neg) ==     \* PySlice_AdjustIndices, one bound
  IF x < 0 THEN (IF x + n < 0 THEN (IF neg THEN -1 ELSE 0) ELSE x + n)
  ELSE IF x >= n THEN (IF neg THEN n - 1 ELSE n) ELSE x

SliceRef_(start, stop, step) ==     \* PySlice_AdjustIndices: the length
  [start |-> start, stop |-> stop, step |-> step,
   len |-> IF step < 0 THEN (IF stop < start THEN (start - stop - 1) \div (-step) + 1 ELSE 0)
                       ELSE (IF start < stop THEN (stop - start - 1) \div step + 1 ELSE 0)]
SliceRefS_(n, a, b, step) ==        \* PySlice_Unpack defaults, then the adjustment of both bounds
  SliceRef_(AdjRef(IF a = NoneV THEN (IF step < 0 THEN Big ELSE 0) ELSE a, n, step < 0),
            AdjRef(IF b = NoneV THEN (IF step < 0 THEN -Big ELSE Big) ELSE b, n, step < 0), step)
SliceRef(n, a, b, c) == SliceRefS_(n, a, b, IF c = NoneV THEN 1 ELSE c)     \* c # 0

OutOfSlice_(d, r) == Out("", r.start * d.s, TRUE, r.len, d.s * r.step)
IntIndex_(d, i) == IF ~(0 <= i /\ i < d.n) THEN Out("IndexError", 0, FALSE, 0, 0) ELSE Out("", i * d.s, FALSE, 0, 0)
AxisRef(d, it) ==
  IF it.k = "n" THEN Out("", 0, TRUE, 1, 0)
  ELSE IF it.k = "i" THEN
    IntIndex_(d, IF it.a < 0 THEN it.a + d.n ELSE it.a)
  ELSE IF it.c = 0 THEN Out("ValueError", 0, FALSE, 0, 0)
  ELSE OutOfSlice_(d, SliceRef(d.n, it.a, it.b, it.c))

\* one Ellipsis stands for the axes that have no item of their own; without one they are appended
Fill(m) == Seqify([q \in 1..m |-> FullSl])
Expand__(e, fill, p) == SubSeq(e, 1, p - 1) \o fill \o SubSeq(e, p + 1, Len(e))
Expand_(e, fill, ep) == IF ep = {} THEN e \o fill ELSE Expand__(e, fill, SetMin(ep))
Expand(e, nd) == Expand_(e, Fill(nd - NReal(e)), {p \in DOMAIN e : e[p].k = "e"})

---------------------------------------------------------------------------
(* implementation-shaped *)
ImplSlice_(start, stop, step, neg) ==     \* "Number of items, as in PySlice_AdjustIndices()"
  [start |-> start, stop |-> stop, step |-> step,
   len |-> IF neg THEN (IF stop < start THEN TruncDiv(start - stop - 1, -step) + 1 ELSE 0)
           ELSE IF start < stop THEN TruncDiv(stop - start - 1, step) + 1 ELSE 0]
ImplSliceS_(n, a, b, step, neg) ==        \* neg: negative_step
  ImplSlice_(IF a # NoneV
             THEN (IF a < 0 THEN (IF a + n < 0 THEN (IF neg THEN -1 ELSE 0) ELSE a + n)
                   ELSE IF a >= n THEN (IF neg THEN n - 1 ELSE n) ELSE a)
             ELSE (IF neg THEN n - 1 ELSE 0),
             IF b # NoneV
             THEN (IF b < 0 THEN (IF b + n < 0 THEN (IF neg THEN -1 ELSE 0) ELSE b + n)
                   ELSE IF b > n THEN n ELSE b)          \* also under a negative step (CPython: n - 1)
             ELSE (IF neg THEN -1 ELSE n),
             step, neg)
ImplSlice(n, a, b, c) ==    \* the is_slice branch; have_x is (x # NoneV); c # 0
  ImplSliceS_(n, a, b, IF c # NoneV THEN c ELSE 1, c # NoneV /\ c < 0)
\* the bounds, as the code normalises them, lie against the step by less than one step: the cells on
\* which the former ceil((stop - start) / step) in C arithmetic produced one element instead of none
AgainstSmall_(r) == /\ r.stop # r.start /\ ((r.stop - r.start < 0) # (r.step < 0))
                    /\ Abs(r.stop - r.start) < Abs(r.step)

AxisImpl(d, it) ==
  IF it.k = "n" THEN Out("", 0, TRUE, 1, 0)
  ELSE IF it.k = "i" THEN          \* SliceIndex template / the !is_slice branch / buffer lookup
    IntIndex_(d, IF it.a < 0 THEN it.a + d.n ELSE it.a)
  ELSE IF it.c # NoneV /\ it.c = 0 THEN Out("ValueError", 0, FALSE, 0, 0)
  ELSE IF it = FullSl THEN Out("", 0, TRUE, d.n, d.s)      \* SimpleSlice template (object path: same result through the function)
  ELSE OutOfSlice_(d, ImplSlice(d.n, it.a, it.b, it.c))

\* Compiler/MemoryView.py: unellipsify (typed path, index known at compile time)
UnellCPad_(res, nd, nnone) ==           \* result_length < ndim: pad with full slices
  IF Len(res) - nnone < nd THEN res \o Fill(nd - (Len(res) - nnone)) ELSE res
UnellC_(e, nd, nidx, first, nnone) ==   \* nidx: n_indices (counts the Ellipsis); first: position of the first Ellipsis or 0
  UnellCPad_(Cat(Seqify([p \in DOMAIN e |-> IF e[p].k = "e"
                                             THEN (IF p = first THEN Fill(nd - nidx + 1) ELSE <<FullSl>>)
                                             ELSE <<e[p]>>])), nd, nnone)
UnellCFirst_(ep) == IF ep = {} THEN 0 ELSE SetMin(ep)
UnellC(e, nd) == UnellC_(e, nd, Cardinality({p \in DOMAIN e : e[p].k # "n"}), UnellCFirst_({p \in DOMAIN e : e[p].k = "e"}),
                         Cardinality({p \in DOMAIN e : e[p].k = "n"}))

\* Utility/MemoryView.pyx: _unellipsify_index_tuple (object path; None is rejected there)
UnellREll_(e, nd, f, ife, eend) ==   \* f: first_ellipsis_index (0-based); ife: indices_from_ellipsis; eend: ellipsis_end
  Seqify([p \in 1..nd |->
            IF p - 1 < f THEN e[p]
            ELSE IF p - 1 - eend >= 1 /\ p - 1 - eend <= ife - 1 /\ e[f + (p - 1 - eend) + 1].k # "e" THEN e[f + (p - 1 - eend) + 1]
            ELSE FullSl])
UnellR_(e, nd, ep) ==
  IF ep # {} THEN UnellREll_(e, nd, SetMin(ep) - 1, Len(e) - (SetMin(ep) - 1), nd - (Len(e) - (SetMin(ep) - 1)))
  ELSE e \o Fill(nd - Len(e))
UnellR(e, nd) == UnellR_(e, nd, {p \in DOMAIN e : e[p].k = "e"})

---------------------------------------------------------------------------
(* applying an expanded expression: the p-th item that is not None takes axis p *)
AxisOf(x, p) == Cardinality({q \in 1..p : x[q].k # "n"})
CombineOk_(vw, outs, kept) ==
  [err |-> "", off |-> vw.off + SumSeq(Seqify([p \in DOMAIN outs |-> outs[p].doff])),
   dims |-> Seqify([q \in DOMAIN kept |-> [n |-> kept[q].n, s |-> kept[q].s]])]
Combine_(vw, outs, errs) ==
  IF errs # {} THEN [err |-> outs[SetMin(errs)].err, off |-> 0, dims |-> <<>>]      \* the first failing item decides
  ELSE CombineOk_(vw, outs, SelectSeq(outs, LAMBDA o : o.keep))
Combine(vw, outs) == Combine_(vw, outs, {p \in DOMAIN outs : outs[p].err # ""})

NoDim == [n |-> 0, s |-> 0]
ApplyRef_(vw, x) ==
  Combine(vw, Seqify([p \in DOMAIN x |-> AxisRef(IF x[p].k = "n" THEN NoDim ELSE vw.dims[AxisOf(x, p)], x[p])]))
ApplyRef(vw, e) == ApplyRef_(vw, Expand(e, Len(vw.dims)))

ApplyImpl_(vw, x) ==
  Combine(vw, Seqify([p \in DOMAIN x |-> AxisImpl(IF x[p].k = "n" THEN NoDim ELSE vw.dims[AxisOf(x, p)], x[p])]))
ApplyImpl(vw, e, path) ==
  ApplyImpl_(vw, IF path = "typed" THEN UnellC(e, Len(vw.dims)) ELSE UnellR(e, Len(vw.dims)))

\* what can be observed of a result.  The stride of an axis of extent 0 is not part of it (no element is
\* ever addressed with it; NumPy keeps the operand's stride there, Python's memoryview multiplies it by
\* the step): it is published as 0.
Obs(r) == IF r.err # "" THEN [err |-> r.err, shape |-> <<>>, strides |-> <<>>, el |-> <<>>]
          ELSE [err |-> "", shape |-> Seqify([q \in DOMAIN r.dims |-> r.dims[q].n]),
                strides |-> Seqify([q \in DOMAIN r.dims |-> IF r.dims[q].n = 0 THEN 0 ELSE r.dims[q].s]), el |-> Elems(r.off, r.dims)]

HasNone(e) == \E p \in DOMAIN e : e[p].k = "n"
Paths(e) == IF HasNone(e) THEN {"typed"} ELSE {"typed", "object"}
ImplObs(vw, e, path) == Obs(ApplyImpl(vw, e, path))

---------------------------------------------------------------------------
(* menus *)
Steps == (-3..3) \cup {NoneV}
Dom(n) == ((-2 * n - 1)..(2 * n + 1)) \cup {NoneV}
BSet(n) == {-n - 2, -n, -1, 0, n - 1, n + 2, NoneV}
\* first links of the chains: views of every stride sign and offset
FirstMenu(n) == {Sl(NoneV, NoneV, 2), Sl(NoneV, NoneV, -1), Sl(1, NoneV, NoneV), Sl(NoneV, -1, NoneV), Sl(NoneV, NoneV, -2),
                 Sl(1, NoneV, 3), Sl(-2, NoneV, -1), Sl(n, 0, -1), FullSl, Sl(1, n - 1, 1)}

\* `lane` partitions the first-step menus over several initial states (so that TLC's workers share the work)
SliceMenu(n, depth, ln) ==
  IF Mode = "full1" THEN {Sl(ln, b, c) : b \in Dom(n), c \in Steps}
  ELSE IF depth = 0 \/ depth >= 2 THEN FirstMenu(n)
  ELSE IF ChainFull THEN {Sl(a, b, c) : a \in Dom(n), b \in Dom(n), c \in Steps}
  ELSE {Sl(a, b, c) : a \in BSet(n), b \in BSet(n), c \in Steps}
IndexMenu(n, depth, ln) ==
  IF Mode = "full1" THEN (IF ln = NoneV THEN {Ix(i) : i \in (-2 * n - 1)..(2 * n + 1)} ELSE {})
  ELSE IF ChainFull THEN {Ix(i) : i \in (-2 * n - 1)..(2 * n + 1)}
  ELSE {Ix(i) : i \in BSet(n) \ {NoneV}}

\* n-d: a small menu per axis that reaches every branch of the per-dimension code, combined as a full product
AxisMenu(n, nd) ==
  IF nd <= 2 THEN
    {Ix(i) : i \in {-n - 1, -n, -1, 0, n - 1, n}} \cup
    {FullSl, Sl(NoneV, NoneV, 2), Sl(NoneV, NoneV, -1),
     Sl(1, 2 * n + 1, 2), Sl(n, -n - 2, -1), Sl(-n - 2, n, -2), Sl(-1, 0, -2), Sl(n - 1, 0, 3), Sl(0, n, 0)}
  ELSE
    {Ix(i) : i \in {-n - 1, -1, 0, n}} \cup {FullSl, Sl(1, 2 * n + 1, 2), Sl(n, -n - 2, -1), Sl(-1, 0, -2)}

\* where None and Ellipsis go: "x" takes an item of the menu of its axis
Pats(nd) ==
  CASE nd = 1 -> {<<"x">>, <<"E">>, <<"x", "E">>, <<"E", "x">>, <<"N", "x">>, <<"x", "N">>, <<"N", "E", "N">>}
    [] nd = 2 -> {<<"x", "x">>, <<"x">>, <<"E">>, <<"x", "E">>, <<"E", "x">>, <<"x", "E", "x">>, <<"N", "x", "x">>, <<"x", "N", "x">>,
                  <<"x", "x", "N">>, <<"N", "E", "x">>, <<"x", "E", "N">>, <<"x", "x", "E">>, <<"E", "x", "x">>, <<"N">>}
    [] nd = 3 -> {<<"x", "x", "x">>, <<"x", "x">>, <<"x">>, <<"x", "E", "x">>, <<"E", "x">>, <<"x", "E">>, <<"x", "N", "x", "x">>,
                  <<"N", "x", "E", "x">>, <<"E", "N">>}
PatAxis(pt, p, nd) ==   \* the axis an "x" at position p lands on
  LET before == {q \in 1..(p - 1) : pt[q] = "x"}
      after == {q \in (p + 1)..Len(pt) : pt[q] = "x"}
  IN IF \E q \in 1..(p - 1) : pt[q] = "E" THEN nd - Cardinality(after) ELSE Cardinality(before) + 1
ExprsND(vw, pt) ==
  LET nd == Len(vw.dims)
  IN Prod(Seqify([p \in DOMAIN pt |-> IF pt[p] = "x" THEN AxisMenu(vw.dims[PatAxis(pt, p, nd)].n, nd)
                                        ELSE IF pt[p] = "N" THEN {NA} ELSE {EL}]))
Lanes(i) == CASE i[1] = "full1" -> Dom(i[2][1]) [] i[1] = "chain1" -> {0} [] i[1] = "nd" -> Pats(Len(i[2]))

---------------------------------------------------------------------------
(* input sets for the configurations *)
Layouts == {"c", "s2", "r"}
I1(m, ns, ls) == {<<m, <<n>>, <<l>>>> : n \in ns, l \in ls}
INd(m, lenss, layss) == {<<m, a, b>> : a \in lenss, b \in layss}
Lays2 == {<<"c", "c">>, <<"s2", "r">>, <<"r", "s2">>}
Lays3 == {<<"c", "c", "c">>, <<"r", "s2", "c">>}
InitsQ == I1("full1", 0..4, {"c"}) \cup I1("full1", {2}, {"s2"}) \cup I1("full1", {3}, {"r"})
          \cup I1("chain1", {3}, {"r"})
          \cup I1("nd", {0}, {"c"}) \cup I1("nd", {3}, {"r"})
          \cup INd("nd", {<<3, 2>>}, {<<"s2", "r">>}) \cup INd("nd", {<<2, 0>>}, {<<"c", "c">>})
          \cup INd("nd", {<<2, 1, 3>>}, {<<"r", "s2", "c">>})
InitsT == I1("full1", 0..6, Layouts)
          \cup I1("chain1", {1, 3}, Layouts)
          \cup I1("nd", {0, 1, 2, 3, 6}, Layouts)
          \cup INd("nd", {<<0, 3>>, <<1, 1>>, <<2, 4>>, <<3, 2>>, <<4, 0>>, <<6, 1>>, <<1, 6>>}, Lays2)
          \cup INd("nd", {<<2, 1, 3>>, <<1, 2, 0>>, <<3, 3, 2>>, <<0, 2, 1>>}, Lays3)
InitsT3 == I1("chain1", {3}, {"r"})       \* chains of three links

---------------------------------------------------------------------------
NoExp == [err |-> "", shape |-> <<>>, strides |-> <<>>, el |-> <<>>, nbs |-> FALSE, nbe |-> FALSE, agd |-> FALSE]

Init == /\ init \in Inits
        /\ lane \in Lanes(init)
        /\ view = InitView(init[2], init[3])
        /\ prev = view
        /\ hist = <<>>
        /\ exp = NoExp

MkExp_(o, x, dims) ==
  [err |-> o.err, shape |-> o.shape, strides |-> o.strides, el |-> o.el,
   \* marks of the cells on which the code before 20608b6d6 deviated (x: the expanded expression)
   nbs |-> \E q \in DOMAIN x : x[q].k = "s" /\ x[q].c # NoneV /\ x[q].c < 0       \* negative step, start below -extent
                               /\ x[q].a # NoneV /\ x[q].a < -dims[AxisOf(x, q)].n,
   nbe |-> \E q \in DOMAIN x : x[q].k = "s" /\ x[q].c # NoneV /\ x[q].c < 0       \* negative step, stop below -extent
                               /\ x[q].b # NoneV /\ x[q].b < -dims[AxisOf(x, q)].n,
   agd |-> \E q \in DOMAIN x : x[q].k = "s" /\ x[q].c # 0                          \* bounds against the step, by less than a step
                               /\ AgainstSmall_(ImplSlice(dims[AxisOf(x, q)].n, x[q].a, x[q].b, x[q].c))]
Step__(e, r, o) ==
  /\ prev' = view
  /\ view' = IF r.err = "" THEN [off |-> r.off, dims |-> r.dims] ELSE view
  /\ hist' = Append(hist, e)
  /\ exp' = MkExp_(o, Expand(e, Len(view.dims)), view.dims)
  /\ UNCHANGED <<init, lane>>
Step_(e, r) == Step__(e, r, Obs(r))
Step(e) == Step_(e, ApplyRef(view, e))

\* a chain ends at an error, a 0-dim result and at an empty result: the position of an empty view is not
\* observable (the code places it at its own normalised start, which may differ from CPython's), so nothing
\* computed from it could be predicted; empty operands are covered by the input buffers of extent 0
Open == Len(hist) < MaxDepth /\ exp.err = "" /\ view.dims # <<>> /\ (hist = <<>> \/ exp.el # <<>>)

Slice1 == /\ Open /\ Mode \in {"full1", "chain1"} /\ Len(view.dims) = 1
          /\ \E e \in SliceMenu(view.dims[1].n, Len(hist), lane) : Step(<<e>>)
Index1 == /\ Open /\ Mode \in {"full1", "chain1"} /\ Len(view.dims) = 1
          /\ \E e \in IndexMenu(view.dims[1].n, Len(hist), lane) : Step(<<e>>)
ExprN  == /\ Open /\ Mode = "nd"
          /\ \E e \in ExprsND(view, lane) : Step(e)
Next == Slice1 \/ Index1 \/ ExprN
Spec == Init /\ [][Next]_vars

---------------------------------------------------------------------------
(* invariants.  `op` is the last expression, applied to `prev`.             *)
op == hist[Len(hist)]
Stepped == hist # <<>>
SliceItems == {p \in DOMAIN op : op[p].k = "s" /\ op[p].c # 0}

\* the reference normalisation selects exactly the indices start + m*step that lie before `stop`
\* in the direction of the step, all of them inside the axis (declarative reading of the
\* sequence-slicing rule of the language reference)
RefSound_(n, r, a, b) ==
  /\ Cardinality({x \in 0..(n - 1) : \E m \in 0..n : x = r.start + m * r.step /\ (IF r.step > 0 THEN x < r.stop ELSE x > r.stop)}) = r.len
  /\ \A m \in 0..(r.len - 1) : /\ 0 <= r.start + m * r.step /\ r.start + m * r.step < n
                               /\ (IF r.step > 0 THEN r.start + m * r.step < r.stop ELSE r.start + m * r.step > r.stop)
  /\ (a = NoneV /\ b = NoneV) => r.len = (n + Abs(r.step) - 1) \div Abs(r.step)
RefSound ==
  (Stepped /\ Len(prev.dims) = 1 /\ Len(op) = 1 /\ op[1].k = "s" /\ op[1].c # 0) =>
    RefSound_(prev.dims[1].n, SliceRef(prev.dims[1].n, op[1].a, op[1].b, op[1].c), op[1].a, op[1].b)

\* the reference never leaves the input buffer, the result of a slice is a sub-multiset of its operand
SeqRange_(q) == {q[j] : j \in DOMAIN q}
Subset_(q, all) == \A j \in DOMAIN q : q[j] \in all
RefInBuffer == Stepped => Subset_(exp.el, SeqRange_(Elems(prev.off, prev.dims)))

\* the transcription of the code as it is agrees with the reference: typed path and memoryview-object path
ExpObs == [err |-> exp.err, shape |-> exp.shape, strides |-> exp.strides, el |-> exp.el]
ImplAgrees == Stepped => ImplObs(prev, op, "typed") = ExpObs
ObjAgrees == (Stepped /\ "object" \in Paths(op)) => ImplObs(prev, op, "object") = ExpObs
\* ... and a non-empty result even has the same position (offset), so chains may follow the reference view
SameView == (Stepped /\ exp.err = "" /\ exp.el # <<>>) =>
               \A path \in Paths(op) : ApplyImpl(prev, op, path) = [err |-> "", off |-> view.off, dims |-> view.dims]

\* the two transcribed ellipsis expansions agree with the reference expansion
UnellipsifyOK ==
  Stepped => /\ UnellC(op, Len(prev.dims)) = Expand(op, Len(prev.dims))
             /\ ~HasNone(op) => UnellR(op, Len(prev.dims)) = Expand(op, Len(prev.dims))

ItemJ(it) == <<it.k, it.a, it.b, it.c>>
Publish ==
  Dump =>
    IF Stepped
    THEN PrintT("@@" \o ToJson([part |-> init[1], lens |-> init[2], lays |-> init[3],
                                hist |-> [h \in DOMAIN hist |-> [p \in DOMAIN hist[h] |-> ItemJ(hist[h][p])]],
                                exp |-> exp]))
    ELSE PrintT("@@" \o ToJson([input |-> TRUE, lens |-> init[2], lays |-> init[3], off |-> view.off,      \* the input buffer itself
                                shape |-> [q \in DOMAIN view.dims |-> view.dims[q].n],
                                strides |-> [q \in DOMAIN view.dims |-> view.dims[q].s],
                                el |-> Elems(view.off, view.dims), base |-> BaseSize(init[2])]))
=============================================================================
