SPECIFICATION Spec
CONSTANTS
  Level = 2
  Groups = {"dict", "list", "set", "bytearray"}
  Dump = TRUE
INVARIANT Functional
INVARIANT WellFormed
INVARIANT Laws
INVARIANT Publish
CHECK_DEADLOCK FALSE
