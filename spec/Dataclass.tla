----------------------------- MODULE Dataclass -----------------------------
(* C30: an extension type declared as a dataclass behaves like the class the *)
(* standard `dataclasses` module builds from the same declaration (PEP 557,  *)
(* Lib/dataclasses.py of Python 3.12).                                       *)
(*                                                                           *)
(* A configuration is cfg = [id, o, f]: decorator options                    *)
(*   o = [init repr eq order uhash frozen kwo margs]                         *)
(* and a sequence of fields                                                  *)
(*   f[i] = [dflt in none/value/factory/mutable/both, init, repr, cmp,       *)
(*           hash in none/true/false, kwo, ty].                              *)
(* `ty` (long/double/str/obj) is a rendering attribute: the reference        *)
(* semantics does not depend on it (only SetSelf needs an object field).     *)
(*                                                                           *)
(* Reference: definition-time errors, the __init__ signature and argument    *)
(* binding, defaults / factories / class-attribute fallback, repr, tuple     *)
(* comparison, the __hash__ action table, frozen, __match_args__.            *)
(* Implementation-shaped: Cython/Compiler/Dataclass.py transcribed           *)
(* (Field(), process_class_get_fields, generate_init_code / match_args /     *)
(* cmp_code / hash_code).  Where the transcription differs from the          *)
(* reference the configuration carries a *hazard*; the invariants say that   *)
(* the two agree exactly off the hazards and differ on them.                 *)
(*                                                                           *)
(* State machine: a history of operations on at most two instances           *)
(*   new(p positional, kw keywords, salt)   any call shape as first step     *)
(*                                          (terminal unless canonical)      *)
(*   set / del / fill / setself                                              *)
(* after every step the full expected observation vector is recorded.        *)
(* Mode "lattice": Init ranges over a slice of the option lattice (tables    *)
(* total and conflict-free).  Mode "cases": Init ranges over configurations  *)
(* the harness sampled from the full product (IOEnv.CASES); the leaves are   *)
(* published for replay on compiled code and on the stdlib (B1).             *)
EXTENDS Integers, Sequences, FiniteSets, TLC, Json, IOUtils

CONSTANTS Mode, Slice, MaxFields, MaxLen, Salts, SetVals, MaxKw

UNSET == -1     \* attribute does not exist (Python: AttributeError)
DFLT  == 3      \* the field's default value
FAC   == 4      \* the value its default_factory returns
SELF  == 9      \* the instance itself (recursive repr)

Min(a, b) == IF a < b THEN a ELSE b
Range(s) == {s[k] : k \in DOMAIN s}
Sub(x, idx) == [k \in 1..Len(idx) |-> x[idx[k]]]

---------------------------------------------------------------------------
(* configurations *)
DefaultO == [init |-> TRUE, repr |-> TRUE, eq |-> TRUE, order |-> FALSE, uhash |-> FALSE,
             frozen |-> FALSE, kwo |-> FALSE, margs |-> TRUE]
DefaultF == [dflt |-> "none", init |-> TRUE, repr |-> TRUE, cmp |-> TRUE, hash |-> "none", kwo |-> FALSE, ty |-> "obj"]
AllO == [init : BOOLEAN, repr : BOOLEAN, eq : BOOLEAN, order : BOOLEAN, uhash : BOOLEAN,
         frozen : BOOLEAN, kwo : BOOLEAN, margs : BOOLEAN]
AllF == [dflt : {"none", "value", "factory", "mutable", "both"}, init : BOOLEAN, repr : BOOLEAN, cmp : BOOLEAN,
         hash : {"none", "true", "false"}, kwo : BOOLEAN, ty : {"obj"}]
VaryO(keys) == {o \in AllO : \A k \in DOMAIN o \ keys : o[k] = DefaultO[k]}
VaryF(keys, dflts) == {g \in AllF : g.dflt \in dflts /\ \A k \in (DOMAIN g \ keys) \ {"dflt"} : g[k] = DefaultF[k]}
Lists(FS) == UNION {[1..n -> FS] : n \in 0..MaxFields}

FlagsF == Lists(VaryF({"repr", "cmp", "hash"}, {"none"}))
DefErrF == Lists(VaryF({"init", "kwo", "repr"}, {"none", "value", "factory", "mutable", "both"}))
LatticeCfgs ==
  CASE Slice = "sig"     -> {[id |-> 0, o |-> o, f |-> f] : o \in VaryO({"init", "kwo"}),
                                                            f \in Lists(VaryF({"init", "kwo"}, {"none", "value", "factory"}))}
    [] Slice = "flags6"  -> {[id |-> 0, o |-> o, f |-> f] : o \in VaryO({"repr", "eq", "order", "uhash", "frozen", "margs"}), f \in FlagsF}
    [] Slice = "flags8"  -> {[id |-> 0, o |-> o, f |-> f] : o \in AllO, f \in FlagsF}
    [] Slice = "deferr3" -> {[id |-> 0, o |-> o, f |-> f] : o \in VaryO({"init", "eq", "order"}), f \in DefErrF}
    [] Slice = "deferr5" -> {[id |-> 0, o |-> o, f |-> f] : o \in VaryO({"init", "eq", "order", "kwo", "margs"}), f \in DefErrF}
    [] OTHER -> {}

Cases == IF Mode = "cases" THEN ndJsonDeserialize(IOEnv.CASES) ELSE <<>>
Cfgs == IF Mode = "cases" THEN Range(Cases) ELSE LatticeCfgs

FIdx(c) == 1..Len(c.f)
\* the field indices that satisfy P, in declaration order
Idx(c, P(_)) == SelectSeq([i \in 1..Len(c.f) |-> i], P)
IsKwo(c, i) == c.o.kwo \/ c.f[i].kwo
HasDflt(g) == g.dflt # "none"
\* the declaration needs no field(...) call
Bare(g) == g.init /\ g.repr /\ g.cmp /\ g.hash = "none" /\ ~g.kwo /\ g.dflt \in {"none", "value", "mutable"}

---------------------------------------------------------------------------
(* reference: class construction (dataclasses._process_class) *)
StdInit(c) == Idx(c, LAMBDA i : c.f[i].init /\ ~IsKwo(c, i))
KwInit(c)  == Idx(c, LAMBDA i : c.f[i].init /\ IsKwo(c, i))

NonDefaultAfterDefault(c) ==
  LET s == StdInit(c) IN \E j, k \in 1..Len(s) : j < k /\ HasDflt(c.f[s[j]]) /\ ~HasDflt(c.f[s[k]])

RefDefError(c) ==
  IF \E i \in FIdx(c) : c.f[i].dflt = "both" THEN "ValueError"          \* field(): both default and default_factory
  ELSE IF \E i \in FIdx(c) : c.f[i].dflt = "mutable" THEN "ValueError"  \* _get_field: mutable default
  ELSE IF c.o.order /\ ~c.o.eq THEN "ValueError"                        \* eq must be true if order is true
  ELSE IF c.o.init /\ NonDefaultAfterDefault(c) THEN "TypeError"        \* _init_fn
  ELSE "none"

\* the __hash__ action table of PEP 557 (no explicit __hash__ in the class): <<unsafe_hash, eq, frozen>>
HashTable == [t \in BOOLEAN \X BOOLEAN \X BOOLEAN |->
  CASE t = <<FALSE, FALSE, FALSE>> -> "inherit"
    [] t = <<FALSE, FALSE, TRUE>>  -> "inherit"
    [] t = <<FALSE, TRUE, FALSE>>  -> "none"
    [] t = <<FALSE, TRUE, TRUE>>   -> "add"
    [] t = <<TRUE, FALSE, FALSE>>  -> "add"
    [] t = <<TRUE, FALSE, TRUE>>   -> "add"
    [] t = <<TRUE, TRUE, FALSE>>   -> "add"
    [] t = <<TRUE, TRUE, TRUE>>    -> "add"]
RefHashAction(c) == HashTable[<<c.o.uhash, c.o.eq, c.o.frozen>>]

\* everything the generated methods are built from (computed once per configuration: state variable dv)
Derive(c) == [std   |-> StdInit(c), kw |-> KwInit(c),
              margs |-> IF c.o.margs THEN [k |-> "names", v |-> StdInit(c)] ELSE [k |-> "absent", v |-> <<>>],
              reprf |-> Idx(c, LAMBDA i : c.f[i].repr),
              cmpf  |-> Idx(c, LAMBDA i : c.f[i].cmp),
              hashf |-> Idx(c, LAMBDA i : IF c.f[i].hash = "none" THEN c.f[i].cmp ELSE c.f[i].hash = "true"),
              hact  |-> RefHashAction(c), deferr |-> RefDefError(c)]
RefMatchArgs(c) == Derive(c).margs

---------------------------------------------------------------------------
(* reference: calling the class with p positional arguments and the keyword *)
(* set kw (field indices; 0 stands for a name that is no field at all);     *)
(* d = Derive(c)                                                            *)
ParamsD(d) == Range(d.std) \cup Range(d.kw)
Positional(d, p) == {d.std[j] : j \in 1..Min(p, Len(d.std))}
RefBind(c, d, p, kw) ==
  IF ~c.o.init THEN (IF p = 0 /\ kw = {} THEN "ok" ELSE "TypeError")     \* object.__init__ takes no arguments
  ELSE IF p > Len(d.std) THEN "TypeError"                                \* too many positional arguments
  ELSE IF ~(kw \subseteq ParamsD(d)) THEN "TypeError"                    \* unexpected keyword (init=False fields included)
  ELSE IF Positional(d, p) \cap kw # {} THEN "TypeError"                 \* multiple values
  ELSE IF \E i \in ParamsD(d) \ (Positional(d, p) \cup kw) : ~HasDflt(c.f[i]) THEN "TypeError"   \* missing argument
  ELSE "ok"

Val(i, s) == (i + s) % 3
Supplied(d, p, kw) == Positional(d, p) \cup kw
NewObj(c, d, p, kw, s) == LET sup == Supplied(d, p, kw) IN [i \in FIdx(c) |->
  IF ~c.o.init THEN (IF c.f[i].dflt = "value" THEN DFLT ELSE UNSET)     \* class attribute fallback only
  ELSE IF i \in sup THEN Val(i, s)
  ELSE IF c.f[i].dflt = "value" THEN DFLT
  ELSE IF c.f[i].dflt = "factory" THEN FAC
  ELSE UNSET]
FacCalls(c, d, p, kw) == IF c.o.init THEN Cardinality({i \in FIdx(c) : c.f[i].dflt = "factory" /\ i \notin Supplied(d, p, kw)}) ELSE 0
\* where every __init__ parameter gets its value from: exactly one source when the call binds
Sources(c, d, p, kw, i) == (IF i \in Positional(d, p) THEN {"pos"} ELSE {}) \cup (IF i \in kw THEN {"kw"} ELSE {})
                           \cup (IF i \notin Supplied(d, p, kw) /\ HasDflt(c.f[i]) THEN {"default"} ELSE {})
Canonical(c, d, p, kw) == p = 0 /\ kw = (IF c.o.init THEN ParamsD(d) ELSE {})

---------------------------------------------------------------------------
(* reference: observations *)
HasUnset(x, idx) == \E k \in 1..Len(idx) : x[idx[k]] = UNSET
HasSelf(x) == \E i \in DOMAIN x : x[i] = SELF

RECURSIVE TupLt(_, _)
TupLt(x, y) == IF x = <<>> THEN FALSE
               ELSE IF Head(x) < Head(y) THEN TRUE
               ELSE IF Head(x) > Head(y) THEN FALSE
               ELSE TupLt(Tail(x), Tail(y))
\* the declarative reading: the first position where the tuples differ decides
LexLt(x, y) == \E k \in 1..Len(x) : x[k] < y[k] /\ \A j \in 1..(k - 1) : x[j] = y[j]
Cmp(op, x, y) == CASE op = "eq" -> x = y
                   [] op = "lt" -> TupLt(x, y)
                   [] op = "le" -> ~TupLt(y, x)
                   [] op = "gt" -> TupLt(y, x)
                   [] op = "ge" -> ~TupLt(x, y)

ReprObs(c, d, x) == IF ~c.o.repr THEN [k |-> "default", v |-> <<>>]
                    ELSE IF HasUnset(x, d.reprf) THEN [k |-> "unset", v |-> <<>>]
                    ELSE [k |-> "fields", v |-> [j \in 1..Len(d.reprf) |-> <<d.reprf[j], x[d.reprf[j]]>>]]
HashObs(c, d, x) == IF HasSelf(x) THEN [k |-> "skip", v |-> <<>>]
                    ELSE IF d.hact = "none" THEN [k |-> "unhashable", v |-> <<>>]
                    ELSE IF d.hact = "inherit" THEN [k |-> "identity", v |-> <<>>]
                    ELSE IF HasUnset(x, d.hashf) THEN [k |-> "unset", v |-> <<>>]
                    ELSE [k |-> "tuple", v |-> Sub(x, d.hashf)]
MatchObs(c, d, x) == IF ~c.o.margs THEN [k |-> "absent", v |-> <<>>]
                     ELSE IF HasSelf(x) THEN [k |-> "skip", v |-> <<>>]
                     ELSE IF HasUnset(x, d.std) THEN [k |-> "unset", v |-> <<>>]
                     ELSE [k |-> "captures", v |-> Sub(x, d.std)]
\* one character per ordered pair: T / F, E = TypeError, U = reads a missing attribute, S = not observed
CmpChar(c, d, op, os, i, j) ==
  IF HasSelf(os[i]) \/ HasSelf(os[j]) THEN "S"
  ELSE IF op = "eq" /\ ~c.o.eq THEN (IF i = j THEN "T" ELSE "F")      \* identity
  ELSE IF op # "eq" /\ ~c.o.order THEN "E"
  ELSE IF HasUnset(os[i], d.cmpf) \/ HasUnset(os[j], d.cmpf) THEN "U"
  ELSE IF Cmp(op, Sub(os[i], d.cmpf), Sub(os[j], d.cmpf)) THEN "T" ELSE "F"
RECURSIVE Mat(_, _, _, _, _)
Mat(c, d, op, os, k) == LET m == Len(os) IN
  IF k > m * m THEN "" ELSE CmpChar(c, d, op, os, ((k - 1) \div m) + 1, ((k - 1) % m) + 1) \o Mat(c, d, op, os, k + 1)

Obs(c, d, os) == [v  |-> os,
                  r  |-> [k \in 1..Len(os) |-> ReprObs(c, d, os[k])],
                  h  |-> [k \in 1..Len(os) |-> HashObs(c, d, os[k])],
                  m  |-> [k \in 1..Len(os) |-> MatchObs(c, d, os[k])],
                  eq |-> Mat(c, d, "eq", os, 1), lt |-> Mat(c, d, "lt", os, 1), le |-> Mat(c, d, "le", os, 1),
                  gt |-> Mat(c, d, "gt", os, 1), ge |-> Mat(c, d, "ge", os, 1)]

---------------------------------------------------------------------------
(* implementation-shaped: Cython/Compiler/Dataclass.py *)
\* generate_init_code: one pass over the fields in declaration order
RECURSIVE ImplSeenDefaultError(_, _, _)
ImplSeenDefaultError(c, i, seen) ==
  IF i > Len(c.f) THEN FALSE
  ELSE IF HasDflt(c.f[i]) THEN ImplSeenDefaultError(c, i + 1, seen \/ c.f[i].init)
  ELSE IF seen /\ ~c.o.kwo /\ c.f[i].init THEN TRUE
  ELSE ImplSeenDefaultError(c, i + 1, seen)

ImplDefError(c) ==
  IF \E i \in FIdx(c) : c.f[i].dflt = "both" THEN "CompileError"                      \* process_class_get_fields
  ELSE IF \E i \in FIdx(c) : c.f[i].kwo THEN "CompileError"                           \* Field(**additional_kwds)
  ELSE IF \E i \in FIdx(c) : c.f[i].dflt = "mutable" /\ Bare(c.f[i]) THEN "CompileError"  \* only `x: T = []` is checked
  ELSE IF c.o.init /\ ImplSeenDefaultError(c, 1, FALSE) THEN "CompileError"
  ELSE "none"
\* args of the generated __init__: `*` first when kw_only, then every init field
ImplStd(c) == IF c.o.kwo THEN <<>> ELSE Idx(c, LAMBDA i : c.f[i].init)
ImplKw(c)  == IF c.o.kwo THEN Idx(c, LAMBDA i : c.f[i].init) ELSE <<>>
\* generate_match_args: every field that is not keyword-only (Field has no kw_only attribute)
ImplMatchArgs(c) == IF c.o.margs THEN [k |-> "names", v |-> IF c.o.kwo THEN <<>> ELSE [i \in 1..Len(c.f) |-> i]]
                    ELSE [k |-> "absent", v |-> <<>>]
\* generate_hash_code without an explicit __hash__
ImplHashAction(c) == IF ~c.o.uhash THEN (IF ~c.o.eq THEN "inherit" ELSE IF ~c.o.frozen THEN "none" ELSE "add") ELSE "add"
\* the hashed fields: `field.compare.value if field.hash.value is None else field.hash.value` -- the default of
\* Field.hash is a NoneNode, whose .value is the string "Py_None": the first branch is never taken
ImplHashF(c) == Idx(c, LAMBDA i : c.f[i].hash # "false")
\* generate_cmp_code: field by field
RECURSIVE ImplCmp(_, _, _)
ImplCmp(op, x, y) ==
  IF x = <<>> THEN op \in {"eq", "le", "ge"}
  ELSE IF op # "eq" /\ (IF op \in {"lt", "le"} THEN Head(x) < Head(y) ELSE Head(x) > Head(y)) THEN TRUE
  ELSE IF Head(x) # Head(y) THEN FALSE
  ELSE ImplCmp(op, Tail(x), Tail(y))
\* frozen: the attributes are declared `readonly` (ExprNodes.NameNode.declare_from_annotation)
ImplFrozenError == "AttributeError"
RefFrozenError == "FrozenInstanceError"
\* init=False: no __init__ at all; tp_new of an extension type ignores its arguments
ImplBind(c, p, kw) == IF ~c.o.init THEN "ok"
                      ELSE RefBind(c, [std |-> ImplStd(c), kw |-> ImplKw(c)], p, kw)

HzNames == <<"field-kw-only", "order-without-eq", "mutable-default-via-field", "init-false-in-match-args", "frozen", "no-init",
            "hash-of-compare-false-field">>
Hazards(c) ==
  (IF \E i \in FIdx(c) : c.f[i].kwo THEN {"field-kw-only"} ELSE {})
  \cup (IF c.o.order /\ ~c.o.eq THEN {"order-without-eq"} ELSE {})
  \cup (IF \E i \in FIdx(c) : c.f[i].dflt = "mutable" /\ ~Bare(c.f[i]) THEN {"mutable-default-via-field"} ELSE {})
  \cup (IF c.o.margs /\ ~c.o.kwo /\ \E i \in FIdx(c) : ~c.f[i].init /\ ~c.f[i].kwo THEN {"init-false-in-match-args"} ELSE {})
  \cup (IF c.o.frozen THEN {"frozen"} ELSE {})
  \cup (IF ~c.o.init THEN {"no-init"} ELSE {})
  \cup (IF RefHashAction(c) = "add" /\ \E i \in FIdx(c) : c.f[i].hash = "none" /\ ~c.f[i].cmp THEN {"hash-of-compare-false-field"} ELSE {})

---------------------------------------------------------------------------
VARIABLES cfg, dv, objs, hist, open
vars == <<cfg, dv, objs, hist, open>>

DefOK == dv.deferr = "none"
\* some instance still shows a default that Python reads from the class attribute (init=False classes)
ClassAttrLive(c, os) == ~c.o.init /\ \E k \in 1..Len(os) : \E i \in FIdx(c) : os[k][i] = DFLT
Step(op, i, a, kw, s, res, fac, nobjs) ==
  [op |-> op, i |-> i, a |-> a, kw |-> kw, s |-> s, res |-> res, fac |-> fac, live |-> ClassAttrLive(cfg, nobjs),
   obs |-> Obs(cfg, dv, nobjs)]

Init == /\ cfg \in Cfgs /\ dv = Derive(cfg) /\ objs = <<>> /\ hist = <<>> /\ open = TRUE

\* a keyword set as ascending sequence (0 = the name that is no field)
KwSeq(c, kw) == SelectSeq([i \in 1..(Len(c.f) + 1) |-> i - 1], LAMBDA x : x \in kw)
\* call shapes: every positional count, keyword sets of at most MaxKw names plus "all parameters" and "all fields"
Shapes(c, d) == {<<p, kw>> : p \in 0..(Len(c.f) + 1),
                             kw \in {k \in SUBSET (0..Len(c.f)) : Cardinality(k) <= MaxKw \/ k = ParamsD(d) \/ k = FIdx(c)}}

DoNew(p, kw, s) ==
  /\ DefOK /\ open /\ Len(hist) < MaxLen /\ Len(objs) < 2
  /\ Canonical(cfg, dv, p, kw) \/ hist = <<>>
  /\ hist = <<>> => s = 0
  /\ LET res == RefBind(cfg, dv, p, kw)
         nobjs == IF res = "ok" THEN Append(objs, NewObj(cfg, dv, p, kw, s)) ELSE objs
     IN /\ objs' = nobjs
        /\ hist' = Append(hist, Step("new", 0, p, KwSeq(cfg, kw), s, res, IF res = "ok" THEN FacCalls(cfg, dv, p, kw) ELSE 0, nobjs))
  /\ open' = Canonical(cfg, dv, p, kw)
  /\ UNCHANGED <<cfg, dv>>

DoSet(i, a, v) ==
  /\ DefOK /\ open /\ Len(hist) < MaxLen /\ i \in 1..Len(objs) /\ a \in FIdx(cfg)
  /\ LET res == IF cfg.o.frozen THEN RefFrozenError ELSE "ok"
         nobjs == IF cfg.o.frozen THEN objs ELSE [objs EXCEPT ![i][a] = v]
     IN /\ objs' = nobjs
        /\ hist' = Append(hist, Step("set", i, a, <<>>, v, res, 0, nobjs))
  /\ UNCHANGED <<cfg, dv, open>>

DoDel(i, a) ==     \* only on frozen classes (deleting a C-typed attribute is not a dataclass matter)
  /\ DefOK /\ open /\ Len(hist) < MaxLen /\ i \in 1..Len(objs) /\ a \in FIdx(cfg) /\ cfg.o.frozen
  /\ hist' = Append(hist, Step("del", i, a, <<>>, 0, RefFrozenError, 0, objs))
  /\ UNCHANGED <<cfg, dv, objs, open>>

DoFill(i) ==       \* assign every missing attribute of instance i (value salt = i)
  /\ DefOK /\ open /\ Len(hist) < MaxLen /\ i \in 1..Len(objs)
  /\ \E a \in FIdx(cfg) : objs[i][a] = UNSET
  /\ LET res == IF cfg.o.frozen THEN RefFrozenError ELSE "ok"
         nobjs == IF cfg.o.frozen THEN objs
                  ELSE [objs EXCEPT ![i] = [a \in FIdx(cfg) |-> IF objs[i][a] = UNSET THEN Val(a, i) ELSE objs[i][a]]]
     IN /\ objs' = nobjs
        /\ hist' = Append(hist, Step("fill", i, 0, <<>>, i, res, 0, nobjs))
  /\ UNCHANGED <<cfg, dv, open>>

DoSetSelf(i, a) == \* the instance refers to itself: repr must print `...` (terminal)
  /\ DefOK /\ open /\ Len(hist) < MaxLen /\ i \in 1..Len(objs) /\ a \in FIdx(cfg)
  /\ cfg.f[a].ty = "obj" /\ ~cfg.o.frozen
  /\ objs' = [objs EXCEPT ![i][a] = SELF]
  /\ hist' = Append(hist, Step("setself", i, a, <<>>, 0, "ok", 0, [objs EXCEPT ![i][a] = SELF]))
  /\ open' = FALSE
  /\ UNCHANGED <<cfg, dv>>

New == \E sh \in Shapes(cfg, dv) : \E s \in Salts : DoNew(sh[1], sh[2], s)
Set == \E i \in 1..2 : \E a \in FIdx(cfg) : \E v \in SetVals : DoSet(i, a, v)
Del == \E i \in 1..2 : \E a \in FIdx(cfg) : DoDel(i, a)
Fill == \E i \in 1..2 : DoFill(i)
SetSelf == \E i \in 1..2 : \E a \in FIdx(cfg) : DoSetSelf(i, a)
Next == New \/ Set \/ Del \/ Fill \/ SetSelf
Spec == Init /\ [][Next]_vars

---------------------------------------------------------------------------
(* invariants *)
Last == hist[Len(hist)]
TypeOK == /\ Len(objs) <= 2 /\ Len(hist) <= MaxLen
          /\ \A k \in 1..Len(objs) : DOMAIN objs[k] = FIdx(cfg)
          /\ dv.deferr \in {"none", "ValueError", "TypeError"}
          /\ ~DefOK => hist = <<>>

\* the rule form of the __hash__ decision and the PEP 557 table agree; every triple has exactly one action
HashTableTotal == hist = <<>> =>
                  /\ RefHashAction(cfg) \in {"add", "none", "inherit"}
                  /\ ImplHashAction(cfg) = RefHashAction(cfg)
                  /\ DOMAIN HashTable = BOOLEAN \X BOOLEAN \X BOOLEAN

\* a call that binds gives every __init__ parameter exactly one source and leaves no parameter unset;
\* a call that does not bind has a nameable reason (checked on the step just taken)
BindConflictFree ==
  (hist # <<>> /\ Last.op = "new" /\ cfg.o.init) =>
    LET p == Last.a  kw == Range(Last.kw)  P == ParamsD(dv) IN
    IF Last.res = "ok"
    THEN /\ \A i \in P : Cardinality(Sources(cfg, dv, p, kw, i)) = 1
         /\ kw \subseteq P /\ p <= Len(dv.std)
         /\ \A i \in P : objs[Len(objs)][i] # UNSET
    ELSE \/ p > Len(dv.std) \/ ~(kw \subseteq P)
         \/ \E i \in P : Cardinality(Sources(cfg, dv, p, kw, i)) # 1

\* __init__ lists positional parameters before keyword-only ones, each init field exactly once, and (when the
\* definition is accepted) no positional parameter without default follows one with a default
SignatureOK == hist = <<>> =>
               /\ Range(dv.std) \cap Range(dv.kw) = {}
               /\ ParamsD(dv) = {i \in FIdx(cfg) : cfg.f[i].init}
               /\ \A j, k \in 1..Len(dv.std) : j < k => dv.std[j] < dv.std[k]
               /\ \A j, k \in 1..Len(dv.kw) : j < k => dv.kw[j] < dv.kw[k]
               /\ (DefOK /\ cfg.o.init) => ~NonDefaultAfterDefault(cfg)
               /\ dv.margs.k = "names" => Range(dv.margs.v) \subseteq ParamsD(dv)

\* tuple comparison: recursive and declarative definitions agree, the order is total, and the
\* field-by-field loop that Cython generates computes the same relation
OrderLaws ==
  \A i, j \in 1..Len(objs) :
    (~HasUnset(objs[i], dv.cmpf) /\ ~HasUnset(objs[j], dv.cmpf) /\ ~HasSelf(objs[i]) /\ ~HasSelf(objs[j])) =>
    LET x == Sub(objs[i], dv.cmpf)  y == Sub(objs[j], dv.cmpf) IN
    /\ TupLt(x, y) = LexLt(x, y)
    /\ Cardinality({r \in {"lt", "eq", "gt"} : Cmp(r, x, y)}) = 1
    /\ Cmp("le", x, y) = (Cmp("lt", x, y) \/ Cmp("eq", x, y))
    /\ Cmp("ge", x, y) = (Cmp("gt", x, y) \/ Cmp("eq", x, y))
    /\ \A op \in {"eq", "lt", "le", "gt", "ge"} : ImplCmp(op, x, y) = Cmp(op, x, y)

\* equal instances hash equal whenever the hashed fields are among the compared ones
EqHashCoherent ==
  \A i, j \in 1..Len(objs) :
    (cfg.o.eq /\ dv.hact = "add" /\ Range(dv.hashf) \subseteq Range(dv.cmpf)
     /\ ~HasUnset(objs[i], dv.cmpf) /\ ~HasUnset(objs[j], dv.cmpf)
     /\ Sub(objs[i], dv.cmpf) = Sub(objs[j], dv.cmpf)) => Sub(objs[i], dv.hashf) = Sub(objs[j], dv.hashf)

\* the transcription of Dataclass.py agrees with the reference exactly off the hazards
ImplVsRefCfg == hist = <<>> =>
  LET H == Hazards(cfg) IN
  /\ (ImplDefError(cfg) = "none" /\ dv.deferr # "none") => H \cap {"order-without-eq", "mutable-default-via-field"} # {}
  /\ (ImplDefError(cfg) # "none" /\ dv.deferr = "none") => "field-kw-only" \in H
  /\ (H \cap {"order-without-eq", "mutable-default-via-field", "field-kw-only"} = {}) =>
         ((ImplDefError(cfg) = "none") <=> (dv.deferr = "none"))
  /\ ("order-without-eq" \in H /\ ImplDefError(cfg) = "none") => dv.deferr = "ValueError"
  /\ "field-kw-only" \in H => ImplDefError(cfg) # "none"
  /\ "field-kw-only" \notin H => (ImplStd(cfg) = dv.std /\ ImplKw(cfg) = dv.kw)
  /\ (H \cap {"field-kw-only", "init-false-in-match-args"} = {}) => ImplMatchArgs(cfg) = dv.margs
  /\ ("init-false-in-match-args" \in H /\ "field-kw-only" \notin H) => ImplMatchArgs(cfg) # dv.margs
  /\ ("frozen" \in H) => ImplFrozenError # RefFrozenError
  /\ (dv.hact = "add" /\ "hash-of-compare-false-field" \notin H) => ImplHashF(cfg) = dv.hashf
  /\ ("hash-of-compare-false-field" \in H) => ImplHashF(cfg) # dv.hashf
ImplVsRefStep == (hist # <<>> /\ Last.op = "new") =>
  LET H == Hazards(cfg) IN
  /\ (H \cap {"field-kw-only", "no-init"} = {}) => ImplBind(cfg, Last.a, Range(Last.kw)) = Last.res
  /\ ("no-init" \in H /\ Last.res # "ok") => ImplBind(cfg, Last.a, Range(Last.kw)) # Last.res

\* introspection (dataclasses.fields / __dataclass_params__) echoes the declaration
RefIntrospect(c) == [params |-> c.o,
                     fields |-> [i \in FIdx(c) |-> [init |-> c.f[i].init, repr |-> c.f[i].repr, cmp |-> c.f[i].cmp,
                                                    hash |-> c.f[i].hash, dflt |-> c.f[i].dflt]]]
Leaf == hist # <<>> /\ (~open \/ Len(hist) = MaxLen \/ (Len(cfg.f) = 0 /\ Len(objs) = 2))
HzSeq(c) == SelectSeq(HzNames, LAMBDA h : h \in Hazards(c))
CfgRecord(c) == [id |-> c.id, kind |-> "cfg", deferr |-> RefDefError(c), margs |-> RefMatchArgs(c), hz |-> HzSeq(c),
                 std |-> StdInit(c), hashf |-> Derive(c).hashf, intro |-> RefIntrospect(c),
                 bare |-> [i \in FIdx(c) |-> Bare(c.f[i])], impl_deferr |-> ImplDefError(c)]
\* cases mode: one record per configuration (initial state) and one per leaf history
Publish == Mode = "cases" =>
  /\ (hist = <<>>) => PrintT("@@" \o ToJson(CfgRecord(cfg)))
  /\ Leaf => PrintT("@@" \o ToJson([id |-> cfg.id, kind |-> "hist", h |-> hist]))
=============================================================================
