----------------------------- MODULE Dataclass -----------------------------
(* C30: an extension type declared as a dataclass behaves like the class the *)
(* standard `dataclasses` module builds from the same declaration (PEP 557,  *)
(* Lib/dataclasses.py of Python 3.12).                                       *)
(*                                                                           *)
(* A configuration is cfg = [id, o, f]: decorator options                    *)
(*   o = [init repr eq order uhash frozen kwo margs]                         *)
(* and a sequence of fields                                                  *)
(*   f[i] = [dflt in none/value/factory/mutable/both, init, repr, cmp,       *)
(*           hash in none/true/false, kwo, ty].                              *)
(* `ty` (long/double/str/obj) is a rendering attribute: the reference        *)
(* semantics does not depend on it (only SetSelf needs an object field).     *)
(*                                                                           *)
(* Reference: definition-time errors, the __init__ signature and argument    *)
(* binding, defaults / factories / class-attribute fallback, repr, tuple     *)
(* comparison, the __hash__ action table, frozen, __match_args__.            *)
(* Implementation-shaped: Cython/Compiler/Dataclass.py transcribed           *)
(* (Field(), process_class_get_fields, generate_init_code / match_args /     *)
(* cmp_code / hash_code).  Where the transcription differs from the          *)
(* reference the configuration carries a *hazard*; the invariants say that   *)
(* the two agree exactly off the hazards and differ on them.                 *)
(*                                                                           *)
(* State machine: a history of operations on at most two instances           *)
(*   new(p positional, kw keywords, salt)   any call shape as first step     *)
(*                                          (terminal unless canonical)      *)
(*   set / del / fill / setself                                              *)
(* after every step the full expected observation vector is recorded.        *)
(* Mode "lattice": Init ranges over a slice of the option lattice (tables    *)
(* total and conflict-free).  Mode "cases": Init ranges over configurations  *)
(* the harness sampled from the full product (IOEnv.CASES); the leaves are   *)
(* published for replay on compiled code and on the stdlib (B1).             *)
EXTENDS Integers, Sequences, FiniteSets, TLC, Json, IOUtils

CONSTANTS Mode, Slice, MaxFields, MaxLen, Salts, SetVals

UNSET == -1     \* attribute does not exist (Python: AttributeError)
DFLT  == 3      \* the field's default value
FAC   == 4      \* the value its default_factory returns
SELF  == 9      \* the instance itself (recursive repr)

Min(a, b) == IF a < b THEN a ELSE b
RECURSIVE Sorted(_)
Sorted(S) == IF S = {} THEN <<>>
             ELSE LET m == CHOOSE x \in S : \A y \in S : x <= y IN <<m>> \o Sorted(S \ {m})
Range(s) == {s[k] : k \in DOMAIN s}
Sub(x, idx) == [k \in 1..Len(idx) |-> x[idx[k]]]

---------------------------------------------------------------------------
(* configurations *)
DefaultO == [init |-> TRUE, repr |-> TRUE, eq |-> TRUE, order |-> FALSE, uhash |-> FALSE,
             frozen |-> FALSE, kwo |-> FALSE, margs |-> TRUE]
DefaultF == [dflt |-> "none", init |-> TRUE, repr |-> TRUE, cmp |-> TRUE, hash |-> "none", kwo |-> FALSE, ty |-> "obj"]
AllO == [init : BOOLEAN, repr : BOOLEAN, eq : BOOLEAN, order : BOOLEAN, uhash : BOOLEAN,
         frozen : BOOLEAN, kwo : BOOLEAN, margs : BOOLEAN]
AllF == [dflt : {"none", "value", "factory", "mutable", "both"}, init : BOOLEAN, repr : BOOLEAN, cmp : BOOLEAN,
         hash : {"none", "true", "false"}, kwo : BOOLEAN, ty : {"obj"}]
VaryO(keys) == {o \in AllO : \A k \in DOMAIN o \ keys : o[k] = DefaultO[k]}
VaryF(keys, dflts) == {g \in AllF : g.dflt \in dflts /\ \A k \in (DOMAIN g \ keys) \ {"dflt"} : g[k] = DefaultF[k]}
Lists(FS) == UNION {[1..n -> FS] : n \in 0..MaxFields}

LatticeCfgs ==
  CASE Slice = "sig"    -> {[id |-> 0, o |-> o, f |-> f] : o \in VaryO({"init", "kwo"}),
                                                           f \in Lists(VaryF({"init", "kwo"}, {"none", "value", "factory"}))}
    [] Slice = "flags"  -> {[id |-> 0, o |-> o, f |-> f] : o \in AllO, f \in Lists(VaryF({"repr", "cmp", "hash"}, {"none"}))}
    [] Slice = "deferr" -> {[id |-> 0, o |-> o, f |-> f] : o \in VaryO({"init", "eq", "order", "kwo", "margs"}),
                                                           f \in Lists(VaryF({"init", "kwo", "repr"}, {"none", "value", "factory", "mutable", "both"}))}
    [] OTHER -> {}

Cases == IF Mode = "cases" THEN ndJsonDeserialize(IOEnv.CASES) ELSE <<>>
Cfgs == IF Mode = "cases" THEN Range(Cases) ELSE LatticeCfgs

FIdx(c) == 1..Len(c.f)
IsKwo(c, i) == c.o.kwo \/ c.f[i].kwo
HasDflt(g) == g.dflt # "none"
\* the declaration needs no field(...) call
Bare(g) == g.init /\ g.repr /\ g.cmp /\ g.hash = "none" /\ ~g.kwo /\ g.dflt \in {"none", "value", "mutable"}

---------------------------------------------------------------------------
(* reference: class construction (dataclasses._process_class) *)
StdInit(c) == Sorted({i \in FIdx(c) : c.f[i].init /\ ~IsKwo(c, i)})
KwInit(c)  == Sorted({i \in FIdx(c) : c.f[i].init /\ IsKwo(c, i)})
Params(c)  == Range(StdInit(c)) \cup Range(KwInit(c))

NonDefaultAfterDefault(c) ==
  LET s == StdInit(c) IN \E j, k \in 1..Len(s) : j < k /\ HasDflt(c.f[s[j]]) /\ ~HasDflt(c.f[s[k]])

RefDefError(c) ==
  IF \E i \in FIdx(c) : c.f[i].dflt = "both" THEN "ValueError"          \* field(): both default and default_factory
  ELSE IF \E i \in FIdx(c) : c.f[i].dflt = "mutable" THEN "ValueError"  \* _get_field: mutable default
  ELSE IF c.o.order /\ ~c.o.eq THEN "ValueError"                        \* eq must be true if order is true
  ELSE IF c.o.init /\ NonDefaultAfterDefault(c) THEN "TypeError"        \* _init_fn
  ELSE "none"

RefMatchArgs(c) == IF c.o.margs THEN [k |-> "names", v |-> StdInit(c)] ELSE [k |-> "absent", v |-> <<>>]

\* the __hash__ action table of PEP 557 (no explicit __hash__ in the class): <<unsafe_hash, eq, frozen>>
HashTable == [t \in BOOLEAN \X BOOLEAN \X BOOLEAN |->
  CASE t = <<FALSE, FALSE, FALSE>> -> "inherit"
    [] t = <<FALSE, FALSE, TRUE>>  -> "inherit"
    [] t = <<FALSE, TRUE, FALSE>>  -> "none"
    [] t = <<FALSE, TRUE, TRUE>>   -> "add"
    [] t = <<TRUE, FALSE, FALSE>>  -> "add"
    [] t = <<TRUE, FALSE, TRUE>>   -> "add"
    [] t = <<TRUE, TRUE, FALSE>>   -> "add"
    [] t = <<TRUE, TRUE, TRUE>>    -> "add"]
RefHashAction(c) == HashTable[<<c.o.uhash, c.o.eq, c.o.frozen>>]

ReprF(c) == Sorted({i \in FIdx(c) : c.f[i].repr})
CmpF(c)  == Sorted({i \in FIdx(c) : c.f[i].cmp})
HashF(c) == Sorted({i \in FIdx(c) : IF c.f[i].hash = "none" THEN c.f[i].cmp ELSE c.f[i].hash = "true"})

---------------------------------------------------------------------------
(* reference: calling the class with p positional arguments and the keyword *)
(* set kw (field indices; 0 stands for a name that is no field at all)      *)
Positional(c, p) == {StdInit(c)[j] : j \in 1..Min(p, Len(StdInit(c)))}
RefBind(c, p, kw) ==
  IF ~c.o.init THEN (IF p = 0 /\ kw = {} THEN "ok" ELSE "TypeError")     \* object.__init__ takes no arguments
  ELSE IF p > Len(StdInit(c)) THEN "TypeError"                           \* too many positional arguments
  ELSE IF ~(kw \subseteq Params(c)) THEN "TypeError"                     \* unexpected keyword (init=False fields included)
  ELSE IF Positional(c, p) \cap kw # {} THEN "TypeError"                 \* multiple values
  ELSE IF \E i \in Params(c) \ (Positional(c, p) \cup kw) : ~HasDflt(c.f[i]) THEN "TypeError"   \* missing argument
  ELSE "ok"

Val(i, s) == (i + s) % 3
Supplied(c, p, kw) == Positional(c, p) \cup kw
NewObj(c, p, kw, s) == [i \in FIdx(c) |->
  IF ~c.o.init THEN (IF c.f[i].dflt = "value" THEN DFLT ELSE UNSET)     \* class attribute fallback only
  ELSE IF i \in Supplied(c, p, kw) THEN Val(i, s)
  ELSE IF c.f[i].dflt = "value" THEN DFLT
  ELSE IF c.f[i].dflt = "factory" THEN FAC
  ELSE UNSET]
FacCalls(c, p, kw) == IF c.o.init THEN Cardinality({i \in FIdx(c) : c.f[i].dflt = "factory" /\ i \notin Supplied(c, p, kw)}) ELSE 0
\* where every __init__ parameter gets its value from: exactly one source when the call binds
Sources(c, p, kw, i) == (IF i \in Positional(c, p) THEN {"pos"} ELSE {}) \cup (IF i \in kw THEN {"kw"} ELSE {})
                        \cup (IF i \notin Supplied(c, p, kw) /\ HasDflt(c.f[i]) THEN {"default"} ELSE {})
Canonical(c, p, kw) == p = 0 /\ kw = (IF c.o.init THEN Params(c) ELSE {})

---------------------------------------------------------------------------
(* reference: observations *)
HasUnset(x, idx) == \E k \in 1..Len(idx) : x[idx[k]] = UNSET
HasSelf(x) == \E i \in DOMAIN x : x[i] = SELF

RECURSIVE TupLt(_, _)
TupLt(x, y) == IF x = <<>> THEN FALSE
               ELSE IF Head(x) < Head(y) THEN TRUE
               ELSE IF Head(x) > Head(y) THEN FALSE
               ELSE TupLt(Tail(x), Tail(y))
\* the declarative reading: the first position where the tuples differ decides
LexLt(x, y) == \E k \in 1..Len(x) : x[k] < y[k] /\ \A j \in 1..(k - 1) : x[j] = y[j]
Cmp(op, x, y) == CASE op = "eq" -> x = y
                   [] op = "lt" -> TupLt(x, y)
                   [] op = "le" -> ~TupLt(y, x)
                   [] op = "gt" -> TupLt(y, x)
                   [] op = "ge" -> ~TupLt(x, y)

ReprObs(c, x) == IF ~c.o.repr THEN [k |-> "default", v |-> <<>>]
                 ELSE IF HasUnset(x, ReprF(c)) THEN [k |-> "unset", v |-> <<>>]
                 ELSE [k |-> "fields", v |-> [j \in 1..Len(ReprF(c)) |-> <<ReprF(c)[j], x[ReprF(c)[j]]>>]]
HashObs(c, x) == IF HasSelf(x) THEN [k |-> "skip", v |-> <<>>]
                 ELSE IF RefHashAction(c) = "none" THEN [k |-> "unhashable", v |-> <<>>]
                 ELSE IF RefHashAction(c) = "inherit" THEN [k |-> "identity", v |-> <<>>]
                 ELSE IF HasUnset(x, HashF(c)) THEN [k |-> "unset", v |-> <<>>]
                 ELSE [k |-> "tuple", v |-> Sub(x, HashF(c))]
MatchObs(c, x) == IF ~c.o.margs THEN [k |-> "absent", v |-> <<>>]
                  ELSE IF HasSelf(x) THEN [k |-> "skip", v |-> <<>>]
                  ELSE IF HasUnset(x, StdInit(c)) THEN [k |-> "unset", v |-> <<>>]
                  ELSE [k |-> "captures", v |-> Sub(x, StdInit(c))]
\* one character per ordered pair: T / F, E = TypeError, U = reads a missing attribute, S = not observed
CmpChar(c, op, objs, i, j) ==
  IF HasSelf(objs[i]) \/ HasSelf(objs[j]) THEN "S"
  ELSE IF op = "eq" /\ ~c.o.eq THEN (IF i = j THEN "T" ELSE "F")      \* identity
  ELSE IF op # "eq" /\ ~c.o.order THEN "E"
  ELSE IF HasUnset(objs[i], CmpF(c)) \/ HasUnset(objs[j], CmpF(c)) THEN "U"
  ELSE IF Cmp(op, Sub(objs[i], CmpF(c)), Sub(objs[j], CmpF(c))) THEN "T" ELSE "F"
RECURSIVE Mat(_, _, _, _)
Mat(c, op, objs, k) == LET m == Len(objs) IN
  IF k > m * m THEN "" ELSE CmpChar(c, op, objs, ((k - 1) \div m) + 1, ((k - 1) % m) + 1) \o Mat(c, op, objs, k + 1)

Obs(c, objs) == [v  |-> objs,
                 r  |-> [k \in 1..Len(objs) |-> ReprObs(c, objs[k])],
                 h  |-> [k \in 1..Len(objs) |-> HashObs(c, objs[k])],
                 m  |-> [k \in 1..Len(objs) |-> MatchObs(c, objs[k])],
                 eq |-> Mat(c, "eq", objs, 1), lt |-> Mat(c, "lt", objs, 1), le |-> Mat(c, "le", objs, 1),
                 gt |-> Mat(c, "gt", objs, 1), ge |-> Mat(c, "ge", objs, 1)]

---------------------------------------------------------------------------
(* implementation-shaped: Cython/Compiler/Dataclass.py *)
\* generate_init_code: one pass over the fields in declaration order
RECURSIVE ImplSeenDefaultError(_, _, _)
ImplSeenDefaultError(c, i, seen) ==
  IF i > Len(c.f) THEN FALSE
  ELSE IF HasDflt(c.f[i]) THEN ImplSeenDefaultError(c, i + 1, seen \/ c.f[i].init)
  ELSE IF seen /\ ~c.o.kwo /\ c.f[i].init THEN TRUE
  ELSE ImplSeenDefaultError(c, i + 1, seen)

ImplDefError(c) ==
  IF \E i \in FIdx(c) : c.f[i].dflt = "both" THEN "CompileError"                      \* process_class_get_fields
  ELSE IF \E i \in FIdx(c) : c.f[i].kwo THEN "CompileError"                           \* Field(**additional_kwds)
  ELSE IF \E i \in FIdx(c) : c.f[i].dflt = "mutable" /\ Bare(c.f[i]) THEN "CompileError"  \* only `x: T = []` is checked
  ELSE IF c.o.init /\ ImplSeenDefaultError(c, 1, FALSE) THEN "CompileError"
  ELSE "none"
\* args of the generated __init__: `*` first when kw_only, then every init field
ImplStd(c) == IF c.o.kwo THEN <<>> ELSE Sorted({i \in FIdx(c) : c.f[i].init})
ImplKw(c)  == IF c.o.kwo THEN Sorted({i \in FIdx(c) : c.f[i].init}) ELSE <<>>
\* generate_match_args: every field that is not keyword-only (Field has no kw_only attribute)
ImplMatchArgs(c) == IF c.o.margs THEN [k |-> "names", v |-> IF c.o.kwo THEN <<>> ELSE Sorted(FIdx(c))]
                    ELSE [k |-> "absent", v |-> <<>>]
\* generate_hash_code without an explicit __hash__
ImplHashAction(c) == IF ~c.o.uhash THEN (IF ~c.o.eq THEN "inherit" ELSE IF ~c.o.frozen THEN "none" ELSE "add") ELSE "add"
\* generate_cmp_code: field by field
RECURSIVE ImplCmp(_, _, _)
ImplCmp(op, x, y) ==
  IF x = <<>> THEN op \in {"eq", "le", "ge"}
  ELSE IF op # "eq" /\ (IF op \in {"lt", "le"} THEN Head(x) < Head(y) ELSE Head(x) > Head(y)) THEN TRUE
  ELSE IF Head(x) # Head(y) THEN FALSE
  ELSE ImplCmp(op, Tail(x), Tail(y))
\* frozen: the attributes are declared `readonly` (ExprNodes.NameNode.declare_from_annotation)
ImplFrozenError == "AttributeError"
RefFrozenError == "FrozenInstanceError"
\* init=False: no __init__ at all; tp_new of an extension type ignores its arguments, attributes are zero-initialised
ImplBind(c, p, kw) == IF ~c.o.init THEN "ok" ELSE RefBind([c EXCEPT !.f = [i \in FIdx(c) |-> [c.f[i] EXCEPT !.kwo = FALSE]]], p, kw)

Hazards(c) ==
  (IF \E i \in FIdx(c) : c.f[i].kwo THEN {"field-kw-only"} ELSE {})
  \cup (IF c.o.order /\ ~c.o.eq THEN {"order-without-eq"} ELSE {})
  \cup (IF \E i \in FIdx(c) : c.f[i].dflt = "mutable" /\ ~Bare(c.f[i]) THEN {"mutable-default-via-field"} ELSE {})
  \cup (IF c.o.margs /\ ~c.o.kwo /\ \E i \in FIdx(c) : ~c.f[i].init /\ ~c.f[i].kwo THEN {"init-false-in-match-args"} ELSE {})
  \cup (IF c.o.frozen THEN {"frozen"} ELSE {})
  \cup (IF ~c.o.init THEN {"no-init"} ELSE {})

---------------------------------------------------------------------------
VARIABLES cfg, objs, hist, open
vars == <<cfg, objs, hist, open>>

DefOK == RefDefError(cfg) = "none"
\* some instance still shows a default that Python reads from the class attribute (init=False classes)
ClassAttrLive(c, os) == ~c.o.init /\ \E k \in 1..Len(os) : \E i \in FIdx(c) : os[k][i] = DFLT
Step(op, i, a, kw, s, res, fac, nobjs) ==
  [op |-> op, i |-> i, a |-> a, kw |-> kw, s |-> s, res |-> res, fac |-> fac, live |-> ClassAttrLive(cfg, nobjs),
   obs |-> Obs(cfg, nobjs)]

Init == /\ cfg \in Cfgs /\ objs = <<>> /\ hist = <<>> /\ open = TRUE

Shapes(c) == {<<p, kw>> : p \in 0..(Len(c.f) + 1), kw \in SUBSET (0..Len(c.f))}

DoNew(p, kw, s) ==
  /\ DefOK /\ open /\ Len(hist) < MaxLen /\ Len(objs) < 2
  /\ Canonical(cfg, p, kw) \/ (hist = <<>> /\ s = 0)
  /\ LET res == RefBind(cfg, p, kw)
         nobjs == IF res = "ok" THEN Append(objs, NewObj(cfg, p, kw, s)) ELSE objs
     IN /\ objs' = nobjs
        /\ hist' = Append(hist, Step("new", 0, p, Sorted(kw), s, res, IF res = "ok" THEN FacCalls(cfg, p, kw) ELSE 0, nobjs))
  /\ open' = Canonical(cfg, p, kw)
  /\ UNCHANGED cfg

DoSet(i, a, v) ==
  /\ DefOK /\ open /\ Len(hist) < MaxLen /\ i \in 1..Len(objs) /\ a \in FIdx(cfg)
  /\ LET res == IF cfg.o.frozen THEN RefFrozenError ELSE "ok"
         nobjs == IF cfg.o.frozen THEN objs ELSE [objs EXCEPT ![i][a] = v]
     IN /\ objs' = nobjs
        /\ hist' = Append(hist, Step("set", i, a, <<>>, v, res, 0, nobjs))
  /\ UNCHANGED <<cfg, open>>

DoDel(i, a) ==     \* only on frozen classes (deleting a C-typed attribute is not a dataclass matter)
  /\ DefOK /\ open /\ Len(hist) < MaxLen /\ i \in 1..Len(objs) /\ a \in FIdx(cfg) /\ cfg.o.frozen
  /\ hist' = Append(hist, Step("del", i, a, <<>>, 0, RefFrozenError, 0, objs))
  /\ UNCHANGED <<cfg, objs, open>>

DoFill(i) ==       \* assign every missing attribute of instance i (value salt = i)
  /\ DefOK /\ open /\ Len(hist) < MaxLen /\ i \in 1..Len(objs)
  /\ \E a \in FIdx(cfg) : objs[i][a] = UNSET
  /\ LET res == IF cfg.o.frozen THEN RefFrozenError ELSE "ok"
         nobjs == IF cfg.o.frozen THEN objs
                  ELSE [objs EXCEPT ![i] = [a \in FIdx(cfg) |-> IF objs[i][a] = UNSET THEN Val(a, i) ELSE objs[i][a]]]
     IN /\ objs' = nobjs
        /\ hist' = Append(hist, Step("fill", i, 0, <<>>, i, res, 0, nobjs))
  /\ UNCHANGED <<cfg, open>>

DoSetSelf(i, a) == \* the instance refers to itself: repr must print `...` (terminal)
  /\ DefOK /\ open /\ Len(hist) < MaxLen /\ i \in 1..Len(objs) /\ a \in FIdx(cfg)
  /\ cfg.f[a].ty = "obj" /\ ~cfg.o.frozen
  /\ objs' = [objs EXCEPT ![i][a] = SELF]
  /\ hist' = Append(hist, Step("setself", i, a, <<>>, 0, "ok", 0, [objs EXCEPT ![i][a] = SELF]))
  /\ open' = FALSE
  /\ UNCHANGED cfg

New == \E sh \in Shapes(cfg) : \E s \in Salts : DoNew(sh[1], sh[2], s)
Set == \E i \in 1..2 : \E a \in FIdx(cfg) : \E v \in SetVals : DoSet(i, a, v)
Del == \E i \in 1..2 : \E a \in FIdx(cfg) : DoDel(i, a)
Fill == \E i \in 1..2 : DoFill(i)
SetSelf == \E i \in 1..2 : \E a \in FIdx(cfg) : DoSetSelf(i, a)
Next == New \/ Set \/ Del \/ Fill \/ SetSelf
Spec == Init /\ [][Next]_vars

---------------------------------------------------------------------------
(* invariants *)
TypeOK == /\ Len(objs) <= 2 /\ Len(hist) <= MaxLen
          /\ \A k \in 1..Len(objs) : DOMAIN objs[k] = FIdx(cfg)
          /\ RefDefError(cfg) \in {"none", "ValueError", "TypeError"}
          /\ ~DefOK => hist = <<>>

\* the rule form of the __hash__ decision and the PEP 557 table agree; every triple has exactly one action
HashTableTotal == /\ RefHashAction(cfg) \in {"add", "none", "inherit"}
                  /\ ImplHashAction(cfg) = RefHashAction(cfg)
                  /\ DOMAIN HashTable = BOOLEAN \X BOOLEAN \X BOOLEAN

\* a call that binds gives every __init__ parameter exactly one source and leaves no parameter unset;
\* a call that does not bind has a nameable reason
BindConflictFree ==
  \A k \in 1..Len(hist) : hist[k].op = "new" /\ cfg.o.init =>
    LET p == hist[k].a  kw == Range(hist[k].kw) IN
    IF hist[k].res = "ok"
    THEN /\ \A i \in Params(cfg) : Cardinality(Sources(cfg, p, kw, i)) = 1
         /\ kw \subseteq Params(cfg) /\ p <= Len(StdInit(cfg))
         /\ \A i \in Params(cfg) : NewObj(cfg, p, kw, hist[k].s)[i] # UNSET
    ELSE \/ p > Len(StdInit(cfg)) \/ ~(kw \subseteq Params(cfg))
         \/ \E i \in Params(cfg) : Cardinality(Sources(cfg, p, kw, i)) # 1

\* __init__ lists positional parameters before keyword-only ones, each init field exactly once, and (when the
\* definition is accepted) no positional parameter without default follows one with a default
SignatureOK == /\ Range(StdInit(cfg)) \cap Range(KwInit(cfg)) = {}
               /\ Params(cfg) = {i \in FIdx(cfg) : cfg.f[i].init}
               /\ (DefOK /\ cfg.o.init) => ~NonDefaultAfterDefault(cfg)
               /\ RefMatchArgs(cfg).k = "names" => Range(RefMatchArgs(cfg).v) \subseteq Params(cfg)

\* tuple comparison: recursive and declarative definitions agree, the order is total, and the
\* field-by-field loop that Cython generates computes the same relation
OrderLaws ==
  \A i, j \in 1..Len(objs) :
    (~HasUnset(objs[i], CmpF(cfg)) /\ ~HasUnset(objs[j], CmpF(cfg)) /\ ~HasSelf(objs[i]) /\ ~HasSelf(objs[j])) =>
    LET x == Sub(objs[i], CmpF(cfg))  y == Sub(objs[j], CmpF(cfg)) IN
    /\ TupLt(x, y) = LexLt(x, y)
    /\ Cardinality({r \in {"lt", "eq", "gt"} : Cmp(r, x, y)}) = 1
    /\ Cmp("le", x, y) = (Cmp("lt", x, y) \/ Cmp("eq", x, y))
    /\ Cmp("ge", x, y) = (Cmp("gt", x, y) \/ Cmp("eq", x, y))
    /\ \A op \in {"eq", "lt", "le", "gt", "ge"} : ImplCmp(op, x, y) = Cmp(op, x, y)

\* equal instances hash equal whenever the hashed fields are among the compared ones
EqHashCoherent ==
  \A i, j \in 1..Len(objs) :
    (cfg.o.eq /\ RefHashAction(cfg) = "add" /\ Range(HashF(cfg)) \subseteq Range(CmpF(cfg))
     /\ ~HasUnset(objs[i], CmpF(cfg)) /\ ~HasUnset(objs[j], CmpF(cfg))
     /\ Sub(objs[i], CmpF(cfg)) = Sub(objs[j], CmpF(cfg))) => Sub(objs[i], HashF(cfg)) = Sub(objs[j], HashF(cfg))

\* the transcription of Dataclass.py agrees with the reference exactly off the hazards
ImplVsRef ==
  LET H == Hazards(cfg) IN
  /\ (ImplDefError(cfg) = "none" /\ RefDefError(cfg) # "none") => H \cap {"order-without-eq", "mutable-default-via-field"} # {}
  /\ (ImplDefError(cfg) # "none" /\ RefDefError(cfg) = "none") => "field-kw-only" \in H
  /\ (H \cap {"order-without-eq", "mutable-default-via-field", "field-kw-only"} = {}) =>
         ((ImplDefError(cfg) = "none") <=> (RefDefError(cfg) = "none"))
  /\ ("order-without-eq" \in H /\ ImplDefError(cfg) = "none") => RefDefError(cfg) = "ValueError"
  /\ "field-kw-only" \in H => ImplDefError(cfg) # "none"
  /\ "field-kw-only" \notin H => (ImplStd(cfg) = StdInit(cfg) /\ ImplKw(cfg) = KwInit(cfg))
  /\ (H \cap {"field-kw-only", "init-false-in-match-args"} = {}) => ImplMatchArgs(cfg) = RefMatchArgs(cfg)
  /\ ("init-false-in-match-args" \in H /\ "field-kw-only" \notin H) => ImplMatchArgs(cfg) # RefMatchArgs(cfg)
  /\ \A k \in 1..Len(hist) : (hist[k].op = "new" /\ H \cap {"field-kw-only", "no-init"} = {}) =>
         ImplBind(cfg, hist[k].a, Range(hist[k].kw)) = hist[k].res
  /\ \A k \in 1..Len(hist) : (hist[k].op = "new" /\ "no-init" \in H /\ hist[k].res # "ok") =>
         ImplBind(cfg, hist[k].a, Range(hist[k].kw)) # hist[k].res
  /\ ("frozen" \in H) => ImplFrozenError # RefFrozenError

Leaf == hist # <<>> /\ (~open \/ Len(hist) = MaxLen \/ (Len(cfg.f) = 0 /\ Len(objs) = 2))
HzNames == <<"field-kw-only", "order-without-eq", "mutable-default-via-field", "init-false-in-match-args", "frozen", "no-init">>
HzSeq(c) == Sorted({k \in 1..6 : HzNames[k] \in Hazards(c)})
CfgRecord(c) == [id |-> c.id, kind |-> "cfg", deferr |-> RefDefError(c), margs |-> RefMatchArgs(c),
                 hz |-> [k \in 1..Len(HzSeq(c)) |-> HzNames[HzSeq(c)[k]]],
                 bare |-> [i \in FIdx(c) |-> Bare(c.f[i])], impl_deferr |-> ImplDefError(c)]
\* cases mode: one record per configuration (initial state) and one per leaf history
Publish == Mode = "cases" =>
  /\ (hist = <<>>) => PrintT("@@" \o ToJson(CfgRecord(cfg)))
  /\ Leaf => PrintT("@@" \o ToJson([id |-> cfg.id, kind |-> "hist", h |-> hist]))
=============================================================================
