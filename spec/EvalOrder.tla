----------------------------- MODULE EvalOrder -----------------------------
(* C20: operands and targets are evaluated left to right, exactly once.      *)
(*                                                                          *)
(* An expression / assignment AST language whose leaves are LOGGING CALLS.   *)
(* A leaf at tree path p logs "Lp" and then, depending on its outcome        *)
(* (T truthy value, F falsy value, R raise LeafErr) and its kind, returns    *)
(*    kind c / o : a logging object  Vp  (truth = outcome)                   *)
(*    kind i     : the C-int-typed value p (T) or 0 (F)                      *)
(*    kind s     : the tuple (V(10000+p), V(20000+p))   (for *args, unpack)  *)
(*    kind d     : the dict {'z<p>': V(30000+p)}        (for **kwargs)       *)
(* Value leaves (kind v) become o or i according to the TYPING of the case   *)
(* (O all objects, I all C ints, M odd paths C ints).  Logging objects log   *)
(* every protocol call they receive together with the repr of the values it  *)
(* receives and return a fresh object V50000, V50001, .. that inherits the   *)
(* truth of the receiver.  Eval threads [log, nid, exc]; a raise stops       *)
(* evaluation.  The order is the language reference's (6.16 evaluation order,*)
(* 6.3.4 calls, 6.10 comparisons, 6.11 boolean ops, 6.13 conditional, 7.2    *)
(* assignment: rhs first, then targets left to right; 7.2.1 augmented: target *)
(* operands once, load, rhs, op, store).  Not observed: __hash__/__eq__      *)
(* calls made by dict/set displays.                                          *)
(* Membership over a literal display, x in (a, b, c) / [..] / {..} (and not in): x, then EVERY element left to *)
(* right, exactly once, also when an earlier element already equals x; only then the comparisons, which stop at *)
(* the first equal element.  Leaves of kind w / q are EQUALITY-AWARE logging objects (q always, w by typing):   *)
(* their __eq__ is logged as an unordered pair and answers "both operands are falsy" (so the falsy outcome of   *)
(* two leaves makes them equal, as 0 == 0 does for typed leaves); names P/Q stay plain objects (identity).      *)
(* Cases are states: root -> AST -> (typing, all leaves truthy) -> one more    *)
(* leaf outcome changed to falsy / raise (only leaves that are evaluated and  *)
(* lie, in evaluation order, after every leaf changed before): each canonical *)
(* outcome vector is reached once; the state carries the expected log, which  *)
(* is published for the three-way replay (CPython, Cython-compiled).         *)
EXTENDS Integers, Sequences, FiniteSets, TLC, Json, IOUtils

CONSTANTS MaxLeaves,  \* bound on the number of leaves of one-level expressions
          MaxLeaves2, \* bound on the number of leaves of two-level expressions and of statements
          Mod,        \* sub-sampling of the two-level expressions and statements: structural hash % Mod = Rem
                      \* (Rem = IOEnv.C20_REM, set by the harness from the seed)
          Typings,    \* subset of {"O", "I", "M"}
          Tops,       \* subset of {"ret1", "ret2", "assign", "aug", "unpack", "member"}
          ModMem,     \* sub-sampling of the membership tests over displays with mixed operands (hash % ModMem = Rem % ModMem)
          Dump

---------------------------------------------------------------------------
(* ASTs: uniform records [t form, k leaf kind / name, sig call signature, a children] *)
Lf(k)      == [t |-> "L", k |-> k, sig |-> <<>>, a |-> <<>>]
Nm(n)      == [t |-> "N", k |-> n, sig |-> <<>>, a |-> <<>>]
Nd(t, a)   == [t |-> t, k |-> "", sig |-> <<>>, a |-> a]
CallN(s, a) == [t |-> "call", k |-> "", sig |-> s, a |-> a]   \* a[1] callee, a[i+1] argument of kind s[i]

RECURSIVE NL(_), NLs(_, _)
NL(e) == IF e.t = "L" THEN 1 ELSE NLs(e.a, Len(e.a))
NLs(s, n) == IF n = 0 THEN 0 ELSE NL(s[n]) + NLs(s, n - 1)

VLeaf == Lf("v")   CLeaf == Lf("c")   SLeaf == Lf("s")   DLeaf == Lf("d")   WLeaf == Lf("w")   QLeaf == Lf("q")
\* membership test over a display: t in MemT, k the display kind, a[1] the tested value, a[2..] the elements
MemT == {"inlit", "notinlit"}
Mem(t, k, a) == [t |-> t, k |-> k, sig |-> <<>>, a |-> a]

(* static classes of expressions (so that the semantics below is total) *)
ObjForms == {"call", "getitem", "slice", "getattr"}
RECURSIVE IsNum(_)
IsNum(e) == \/ e.t = "L" /\ e.k \in {"v", "c", "w", "q"}
            \/ e.t \in ObjForms \cup {"add", "neg", "lt", "lt3", "in", "notin", "not"} \cup MemT
            \/ e.t \in {"and", "or", "cond"} /\ \A i \in 1..Len(e.a) : IsNum(e.a[i])
IsScalar(e) == IsNum(e) \/ e.t \in {"fstr", "fspec"}
IsObjY(e) == (e.t = "L" /\ e.k = "c") \/ e.t = "N" \/ e.t \in ObjForms
IsVal(e) == ~(e.t = "L" /\ e.k \in {"s", "d"}) /\ e.t # "N"    \* names only as containers
IsStar(e) == (e.t = "L" /\ e.k = "s") \/ e.t \in {"tuple", "list"}

Sigs == { <<>>, <<"p">>, <<"p","p">>, <<"p","k">>, <<"k","k">>, <<"p","s">>, <<"s","p">>, <<"p","d">>, <<"k","d">>,
          <<"d","k">>, <<"s","d">>, <<"k","s">>, <<"s","s">>, <<"d","d">>, <<"p","s","k">>, <<"p","k","d">>,
          <<"k","s","d">>, <<"p","s","k","d">> }

(* slot classes of every form: C container (object-yielding), V any value, N numeric, H hashable scalar, *)
(* S star argument, D double-star argument                                                          *)
Slots(t) == CASE t = "getitem" -> <<"C","V">>   [] t = "slice" -> <<"C","V","V">>   [] t = "getattr" -> <<"C">>
              [] t = "add" -> <<"N","N">>        [] t = "neg" -> <<"N">>              [] t = "lt" -> <<"N","N">>
              [] t = "lt3" -> <<"N","N","N">>    [] t = "in" -> <<"N","C">>           [] t = "notin" -> <<"N","C">>
              [] t = "and" -> <<"V","V">>        [] t = "or" -> <<"V","V">>           [] t = "not" -> <<"V">>
              [] t = "cond" -> <<"V","V","V">>   [] t = "tuple" -> <<"V","V">>        [] t = "list" -> <<"V","V">>
              [] t = "set" -> <<"H","H">>        [] t = "dict1" -> <<"H","V">>        [] t = "dict2" -> <<"H","V","H","V">>
              [] t = "fstr" -> <<"H","H">>       [] t = "fspec" -> <<"C","H">>
SigSlot(k) == CASE k = "p" -> "V" [] k = "k" -> "V" [] k = "s" -> "S" [] k = "d" -> "D"
Forms == {"getitem", "slice", "getattr", "add", "neg", "lt", "lt3", "in", "notin", "and", "or", "not", "cond",
          "tuple", "list", "set", "dict1", "dict2", "fstr", "fspec"}

Fits(e, slot) == CASE slot = "C" -> IsObjY(e) [] slot = "V" -> IsVal(e) [] slot = "N" -> IsNum(e)
                   [] slot = "H" -> IsScalar(e) [] slot = "S" -> IsStar(e) [] slot = "D" -> e = DLeaf

(* all child sequences for a slot sequence with at most m leaves, drawn from a pool that is indexed *)
(* by slot class and leaf count: pool[slot][n]                                                     *)
SlotNames == {"C", "V", "N", "H", "S", "D"}
Index(set, m) == [sl \in SlotNames |-> [n \in 0..m |-> {x \in set : Fits(x, sl) /\ NL(x) = n}]]
\* children from the atom pool, or (while the nesting budget k lasts) from the pool of nested expressions
RECURSIVE Fill(_, _, _, _, _, _)
Fill(slots, i, apool, npool, m, k) ==
  IF i > Len(slots) THEN {<<>>}
  ELSE UNION {LET restA == Fill(slots, i + 1, apool, npool, m - n, k)
                  restN == IF k = 0 THEN {} ELSE Fill(slots, i + 1, apool, npool, m - n, k - 1)
              IN {<<e>> \o s : e \in apool[slots[i]][n], s \in restA} \cup
                 (IF k = 0 THEN {} ELSE {<<e>> \o s : e \in npool[slots[i]][n], s \in restN})
              : n \in 0..m}

Atoms == {VLeaf, CLeaf, SLeaf, DLeaf, Nm("P")}
Build(apool, npool, m, k) ==
   {x \in UNION {{Nd(t, a) : a \in Fill(Slots(t), 1, apool, npool, m, k)} : t \in Forms} \cup
          UNION {{CallN(s, a) : a \in Fill(<<"C">> \o [i \in 1..Len(s) |-> SigSlot(s[i])], 1, apool, npool, m, k)} : s \in Sigs}
     : NL(x) >= 1}
IdxA == Index(Atoms, MaxLeaves)
E1 == Build(IdxA, IdxA, MaxLeaves, 0)
E01 == Atoms \cup E1
\* two-level expressions: (a) one nested child from the core family in any slot, the other children atoms;
\* (b) two nested children from a small family (both need temporaries)
Core == {Nd("neg", <<VLeaf>>), Nd("not", <<VLeaf>>), Nd("getitem", <<CLeaf, VLeaf>>), Nd("getitem", <<Nm("P"), VLeaf>>),
         Nd("getattr", <<CLeaf>>), CallN(<<"p">>, <<CLeaf, VLeaf>>), CallN(<<>>, <<CLeaf>>), Nd("in", <<VLeaf, Nm("P")>>),
         Nd("add", <<VLeaf, VLeaf>>), Nd("lt", <<VLeaf, VLeaf>>), Nd("and", <<VLeaf, VLeaf>>), Nd("or", <<VLeaf, VLeaf>>),
         Nd("tuple", <<VLeaf, VLeaf>>), Nd("list", <<VLeaf, VLeaf>>), Nd("fstr", <<VLeaf, VLeaf>>),
         CallN(<<"p", "s">>, <<Nm("P"), VLeaf, SLeaf>>), CallN(<<"k", "d">>, <<Nm("P"), VLeaf, DLeaf>>),
         Nd("cond", <<VLeaf, VLeaf, VLeaf>>), Nd("lt3", <<VLeaf, VLeaf, VLeaf>>), Nd("slice", <<Nm("P"), VLeaf, VLeaf>>),
         Mem("inlit", "tuple", <<WLeaf, WLeaf, WLeaf>>), Mem("notinlit", "list", <<WLeaf, Nm("P"), WLeaf>>)}
Core2 == {Nd("not", <<VLeaf>>), Nd("getitem", <<Nm("P"), VLeaf>>), CallN(<<"p">>, <<CLeaf, VLeaf>>), Nd("add", <<VLeaf, VLeaf>>),
          Nd("in", <<VLeaf, Nm("P")>>)}
IdxCore == Index(Core, MaxLeaves2)
IdxCore2 == Index(Core2, MaxLeaves2)
E2 == (Build(IdxA, IdxCore, MaxLeaves2, 1) \cup Build(IdxA, IdxCore2, MaxLeaves2, 2)) \ E1

(* structural hash for sub-sampling *)
TNames == <<"L", "N", "call", "getitem", "slice", "getattr", "add", "neg", "lt", "lt3", "in", "notin", "and", "or", "not", "cond",
            "tuple", "list", "set", "dict1", "dict2", "fstr", "fspec", "ret", "assign", "aug", "unpack", "tN", "tsub", "tattr", "tslice",
            "inlit", "notinlit">>
KNames == <<"", "v", "c", "s", "d", "P", "Q", "p", "k", "w", "q", "tuple", "list", "set">>
CodeOf(names, x) == CHOOSE i \in 1..Len(names) : names[i] = x
RECURSIVE H(_), HS(_, _), HSig(_, _)
H(e) == (CodeOf(TNames, e.t) * 37 + CodeOf(KNames, e.k) * 101 + HSig(e.sig, Len(e.sig)) + HS(e.a, Len(e.a))) % 1009
HS(s, n) == IF n = 0 THEN 0 ELSE ((2 * n + 3) * H(s[n]) + 7 * HS(s, n - 1)) % 1009
HSig(s, n) == IF n = 0 THEN 0 ELSE (n * CodeOf(KNames, s[n]) * 11 + HSig(s, n - 1)) % 1009
Rem == IF "C20_REM" \in DOMAIN IOEnv THEN atoi(IOEnv.C20_REM) % Mod ELSE 0
Sel(e) == H(e) % Mod = Rem
SelMem(e) == H(e) % ModMem = Rem % ModMem

\* operand pools for statements
SVal == {VLeaf, Nd("not", <<VLeaf>>), Nd("neg", <<VLeaf>>), Nd("add", <<VLeaf, VLeaf>>), Nd("lt", <<VLeaf, VLeaf>>),
         Nd("getitem", <<CLeaf, VLeaf>>), CallN(<<"p">>, <<CLeaf, VLeaf>>), Nd("tuple", <<VLeaf, VLeaf>>),
         Nd("and", <<VLeaf, VLeaf>>), Nd("in", <<VLeaf, Nm("P")>>), Nd("fstr", <<VLeaf, VLeaf>>), Nd("getattr", <<CLeaf>>)}
TIdx == {VLeaf, Nd("not", <<VLeaf>>), Nd("in", <<VLeaf, Nm("P")>>), Nd("add", <<VLeaf, VLeaf>>), Nd("lt", <<VLeaf, VLeaf>>),
         Nd("getitem", <<CLeaf, VLeaf>>), CallN(<<"p">>, <<CLeaf, VLeaf>>), Nd("tuple", <<VLeaf, VLeaf>>), Nd("neg", <<VLeaf>>)}
TCont == {CLeaf, Nm("P"), Nm("Q"), Nd("getitem", <<CLeaf, VLeaf>>), Nd("getattr", <<CLeaf>>), CallN(<<>>, <<CLeaf>>)}
TargetsM == {t \in {Nd("tN", <<>>)} \cup {Nd("tsub", <<c, i>>) : c \in TCont, i \in TIdx} \cup {Nd("tattr", <<c>>) : c \in TCont} \cup
                   {Nd("tslice", <<c, i, j>>) : c \in {CLeaf, Nm("P")}, i \in {VLeaf, Nd("not", <<VLeaf>>)}, j \in {VLeaf, Nd("lt", <<VLeaf, VLeaf>>)}}
             : NL(t) <= MaxLeaves2 - 1}
Targets1 == {t \in TargetsM : NL(t) <= 1}
Targets0 == {Nd("tN", <<>>), Nd("tsub", <<Nm("P"), VLeaf>>), Nd("tsub", <<Nm("Q"), VLeaf>>), Nd("tsub", <<CLeaf, VLeaf>>),
             Nd("tattr", <<CLeaf>>), Nd("tattr", <<Nm("P")>>), Nd("tsub", <<Nm("P"), Nd("not", <<VLeaf>>)>>),
             Nd("tslice", <<Nm("Q"), VLeaf, VLeaf>>)}
RElt == {VLeaf, Nd("getitem", <<Nm("P"), VLeaf>>), Nd("getitem", <<Nm("Q"), VLeaf>>), Nd("not", <<VLeaf>>)}
UnpackRhs == {SLeaf, CLeaf} \cup {Nd(t, <<x, y>>) : t \in {"tuple", "list"}, x \in RElt, y \in RElt}

\* membership tests over displays (both operators, the three display kinds, 1..3 elements): the tested value and the
\* elements are equality-aware leaves (MemBase: all of them, n >= 2) or drawn from pools with simple elements (a name:
\* no temporary), nested non-simple elements (unary / binary operator, attribute, truth value) -- sub-sampled
MemX == {WLeaf, Nd("neg", <<WLeaf>>), Nd("getattr", <<QLeaf>>)}
MemE == {WLeaf, Nm("P"), Nd("neg", <<WLeaf>>), Nd("not", <<WLeaf>>), Nd("getattr", <<QLeaf>>), Nd("add", <<WLeaf, WLeaf>>)}
MemArgs(X, E) == {<<x, a>> : x \in X, a \in E} \cup {<<x, a, b>> : x \in X, a \in E, b \in E} \cup
                 {<<x, a, b, c>> : x \in X, a \in E, b \in E, c \in E}
MemOf(X, E) == {Mem(t, k, a) : t \in MemT, k \in {"tuple", "list", "set"}, a \in {y \in MemArgs(X, E) : NLs(y, Len(y)) <= MaxLeaves}}
MemBase == {m \in MemOf({WLeaf}, {WLeaf}) : Len(m.a) >= 3}
Members == MemBase \cup {m \in MemOf(MemX, MemE) : SelMem(m)}

Stmts ==
  (IF "member" \in Tops THEN {Nd("ret", <<m>>) : m \in Members} ELSE {}) \cup
  (IF "ret1" \in Tops THEN {Nd("ret", <<e>>) : e \in {x \in E1 : IsVal(x)}} ELSE {}) \cup
  (IF "ret2" \in Tops THEN {Nd("ret", <<e>>) : e \in E2} ELSE {}) \cup
  (IF "assign" \in Tops THEN
      {Nd("assign", <<t1, v>>) : t1 \in TargetsM \ {Nd("tN", <<>>)}, v \in SVal} \cup
      {Nd("assign", <<t1, t2, v>>) : t1 \in TargetsM, t2 \in Targets1, v \in {VLeaf, Nd("not", <<VLeaf>>)}} \cup
      {Nd("assign", <<t1, t2, v>>) : t1 \in Targets1, t2 \in TargetsM, v \in {VLeaf}} \cup
      {Nd("assign", <<t1, t2, t3, v>>) : t1 \in Targets0, t2 \in Targets0, t3 \in Targets0, v \in {VLeaf}}
   ELSE {}) \cup
  (IF "aug" \in Tops THEN {Nd("aug", <<t1, v>>) : t1 \in (TargetsM \ {Nd("tN", <<>>)}) \cup {Nm("P")}, v \in SVal} ELSE {}) \cup
  (IF "unpack" \in Tops THEN {Nd("unpack", <<t1, t2, r>>) : t1 \in Targets0, t2 \in Targets0, r \in UnpackRhs} ELSE {})

\* one-level expressions are always all included; the other families are sub-sampled
Cases == {s \in Stmts : NL(s) >= 1 /\ NL(s) <= (IF s.t = "ret" /\ (s.a[1] \in E1 \/ s.a[1].t \in MemT) THEN MaxLeaves ELSE MaxLeaves2)
                         /\ ((s.t = "ret" /\ (s.a[1] \in E1 \/ s.a[1].t \in MemT)) \/ Sel(s))}

---------------------------------------------------------------------------
(* leaf paths: the root has path 0, child j of the node at path p has path 8p+j *)
RECURSIVE Paths(_, _), PathsS(_, _, _)
Paths(e, p) == IF e.t = "L" THEN <<p>> ELSE PathsS(e.a, p, 1)
PathsS(s, p, j) == IF j > Len(s) THEN <<>> ELSE Paths(s[j], 8 * p + j) \o PathsS(s, p, j + 1)

RECURSIVE Digits(_)
Digits(p) == IF p = 0 THEN <<>> ELSE Append(Digits(p \div 8), p % 8)
RECURSIVE Walk(_, _, _)
Walk(e, ds, i) == IF i > Len(ds) THEN e ELSE Walk(e.a[ds[i]], ds, i + 1)
NodeAt(root, p) == Walk(root, Digits(p), 1)

---------------------------------------------------------------------------
(* values: [k class, r repr (raw text for str), n number / object id, t truth, els reprs of elements] *)
Val(k, r, n, t, els) == [k |-> k, r |-> r, n |-> n, t |-> t, els |-> els]
ObjV(id, t)  == Val("obj", "V" \o ToString(id), id, t, <<>>)
IntV(n)      == Val("int", ToString(n), n, n # 0, <<>>)
BoolV(b)     == Val("bool", IF b THEN "True" ELSE "False", IF b THEN 1 ELSE 0, b, <<>>)
StrV(raw)    == Val("str", raw, 0, raw # "", <<>>)
NoneV        == Val("none", "None", 0, FALSE, <<>>)
OpqV(r)      == Val("opq", r, 0, TRUE, <<>>)
Rp(v) == IF v.k = "str" THEN "'" \o v.r \o "'" ELSE v.r
IsNumV(v) == v.k \in {"int", "bool"}
NameV(n) == IF n = "P" THEN ObjV(40001, TRUE) ELSE ObjV(40002, TRUE)

RECURSIVE Join(_, _, _)
Join(ss, sep, i) == IF i > Len(ss) THEN "" ELSE (IF i > 1 THEN sep ELSE "") \o ss[i] \o Join(ss, sep, i + 1)
SeqV(open, close, vs) == LET rs == [i \in 1..Len(vs) |-> Rp(vs[i])]
                         IN Val("seq", open \o Join(rs, ", ", 1) \o close, 0, Len(vs) > 0, rs)
KeyEq(a, b) == \/ a.k = "obj" /\ b.k = "obj" /\ a.n = b.n
               \/ IsNumV(a) /\ IsNumV(b) /\ a.n = b.n
               \/ a.k = "str" /\ b.k = "str" /\ a.r = b.r

(* evaluation state *)
St0 == [log |-> <<>>, nid |-> 50000, exc |-> ""]
Log(st, s) == [st EXCEPT !.log = Append(@, s)]
Res(st, v) == [st |-> st, v |-> v]
\* a protocol call on a logging object: logged, returns a fresh object with the receiver's truth
Proto(st, self, name, args) ==
  Res([Log(st, self.r \o "." \o name \o "(" \o args \o ")") EXCEPT !.nid = @ + 1], ObjV(st.nid, self.t))
\* truth test: __bool__ of a logging object is logged
Truth(st, v) == IF v.k = "obj" THEN [st |-> Log(st, v.r \o ".bool()"), b |-> v.t] ELSE [st |-> st, b |-> v.t]
SliceR(i, j) == "slice(" \o Rp(i) \o ", " \o Rp(j) \o ", None)"

\* o plain logging object, q equality-aware logging object, i C int, s / d the star containers
ResolveKind(k, p, ty) == IF k \notin {"v", "w"} THEN (IF k = "c" THEN "o" ELSE k)
                         ELSE IF ty = "I" \/ (ty = "M" /\ p % 2 = 1) THEN "i" ELSE IF k = "v" THEN "o" ELSE "q"

LeafEval(e, p, env, st) ==
  LET o  == env.out[p]
      s1 == Log(st, "L" \o ToString(p))
      rk == ResolveKind(e.k, p, env.ty)
  IN IF o = "R" THEN Res([s1 EXCEPT !.exc = "LeafErr"], NoneV)
     ELSE CASE rk \in {"o", "q"} -> Res(s1, ObjV(p, o = "T"))
            [] rk = "i" -> Res(s1, IntV(IF o = "T" THEN p ELSE 0))
            [] rk = "s" -> Res(s1, SeqV("(", ")", <<ObjV(10000 + p, TRUE), ObjV(20000 + p, TRUE)>>))
            [] rk = "d" -> Res(s1, Val("kw", "z" \o ToString(p) \o "=V" \o ToString(30000 + p), 0, TRUE, <<>>))

Cmp(st, a, b) == IF a.k = "obj" THEN Proto(st, a, "lt", Rp(b))
                 ELSE IF b.k = "obj" THEN Proto(st, b, "gt", Rp(a))
                 ELSE Res(st, BoolV(a.n < b.n))
Fmt(st, v) == IF v.k = "obj" THEN [st |-> Log(st, v.r \o ".format('')"), s |-> v.r] ELSE [st |-> st, s |-> v.r]

\* equality as the membership test sees it.  Equality-aware objects: everything but the names P / Q (every object
\* inside a membership test stems from a w / q leaf).  The event is an unordered pair (CPython asks the element,
\* the flattened comparison chain of Cython asks the tested value): object with the smaller id first, objects before numbers
EqAware(v) == v.k = "obj" /\ v.n \notin {40001, 40002}
EqEvent(a, b) == IF a.k = "obj" /\ b.k = "obj"
                 THEN (IF a.n < b.n THEN a.r \o ".eq(" \o b.r \o ")" ELSE b.r \o ".eq(" \o a.r \o ")")
                 ELSE IF a.k = "obj" THEN a.r \o ".eq(" \o Rp(b) \o ")" ELSE b.r \o ".eq(" \o Rp(a) \o ")"
EqRes(a, b) == IF IsNumV(a) /\ IsNumV(b) THEN a.n = b.n
               ELSE IF EqAware(a) \/ EqAware(b) THEN ~a.t /\ ~b.t
               ELSE a.k = "obj" /\ b.k = "obj" /\ a.n = b.n
\* vs[1] the tested value, vs[i..] the remaining elements; obs: the comparisons are observed (sequence displays; a set
\* display hashes, which elements get compared is unspecified -- only the result is)
RECURSIVE Member(_, _, _, _)
Member(st, vs, i, obs) ==
  IF i > Len(vs) THEN [st |-> st, b |-> FALSE]
  ELSE LET s1 == IF obs /\ (EqAware(vs[1]) \/ EqAware(vs[i])) THEN Log(st, EqEvent(vs[i], vs[1])) ELSE st
       IN IF EqRes(vs[i], vs[1]) THEN [st |-> s1, b |-> TRUE] ELSE Member(s1, vs, i + 1, obs)

\* positional-phase and keyword-phase argument indexes of a call signature, each in source order
SelIdx(sig, ks) == SelectSeq([i \in 1..Len(sig) |-> i], LAMBDA i : sig[i] \in ks)

RECURSIVE Eval(_, _, _, _), Kids(_, _, _, _, _, _)
\* evaluate the children order[i..] of e (at path p) left to right, stop at the first raise
Kids(e, p, order, i, env, r) ==
  IF i > Len(order) \/ r.st.exc # "" THEN r
  ELSE LET j == order[i]
           x == Eval(e.a[j], 8 * p + j, env, r.st)
       IN Kids(e, p, order, i + 1, env, [st |-> x.st, vs |-> Append(r.vs, x.v)])
AllKids(e, p, env, st) == Kids(e, p, [i \in 1..Len(e.a) |-> i], 1, env, [st |-> st, vs |-> <<>>])

Eval(e, p, env, st) ==
  IF e.t = "L" THEN LeafEval(e, p, env, st)
  ELSE IF e.t = "N" THEN Res(st, NameV(e.k))
  ELSE IF e.t \in {"and", "or"} THEN
    LET x == Eval(e.a[1], 8 * p + 1, env, st) IN
    IF x.st.exc # "" THEN x
    ELSE LET tr == Truth(x.st, x.v) IN
         IF tr.b = (e.t = "or") THEN Res(tr.st, x.v) ELSE Eval(e.a[2], 8 * p + 2, env, tr.st)
  ELSE IF e.t = "not" THEN
    LET x == Eval(e.a[1], 8 * p + 1, env, st) IN
    IF x.st.exc # "" THEN x ELSE LET tr == Truth(x.st, x.v) IN Res(tr.st, BoolV(~tr.b))
  ELSE IF e.t = "cond" THEN            \* a[1] if a[2] else a[3]
    LET c == Eval(e.a[2], 8 * p + 2, env, st) IN
    IF c.st.exc # "" THEN c
    ELSE LET tr == Truth(c.st, c.v) IN
         IF tr.b THEN Eval(e.a[1], 8 * p + 1, env, tr.st) ELSE Eval(e.a[3], 8 * p + 3, env, tr.st)
  ELSE IF e.t = "lt3" THEN             \* a < b < c: b once, c only if a < b is true
    LET r == Kids(e, p, <<1, 2>>, 1, env, [st |-> st, vs |-> <<>>]) IN
    IF r.st.exc # "" THEN Res(r.st, NoneV)
    ELSE LET c1 == Cmp(r.st, r.vs[1], r.vs[2])
             tr == Truth(c1.st, c1.v)
         IN IF ~tr.b THEN Res(tr.st, c1.v)
            ELSE LET z == Eval(e.a[3], 8 * p + 3, env, tr.st) IN
                 IF z.st.exc # "" THEN z ELSE Cmp(z.st, r.vs[2], z.v)
  ELSE IF e.t = "fstr" THEN            \* f"{a}-{b}": a is formatted before b is evaluated
    LET x == Eval(e.a[1], 8 * p + 1, env, st) IN
    IF x.st.exc # "" THEN x
    ELSE LET f1 == Fmt(x.st, x.v)
             y  == Eval(e.a[2], 8 * p + 2, env, f1.st)
         IN IF y.st.exc # "" THEN y
            ELSE LET f2 == Fmt(y.st, y.v) IN Res(f2.st, StrV(f1.s \o "-" \o f2.s))
  ELSE IF e.t \in MemT THEN           \* x in (a, b, c): x, all elements, then the comparisons up to the first equal one
    LET r == AllKids(e, p, env, st) IN
    IF r.st.exc # "" THEN Res(r.st, NoneV)
    ELSE LET m == Member(r.st, r.vs, 2, e.k # "set") IN Res(m.st, BoolV(m.b = (e.t = "inlit")))
  ELSE IF e.t = "call" THEN
    LET order == <<1>> \o [i \in 1..Len(SelIdx(e.sig, {"p", "s"})) |-> SelIdx(e.sig, {"p", "s"})[i] + 1]
                       \o [i \in 1..Len(SelIdx(e.sig, {"k", "d"})) |-> SelIdx(e.sig, {"k", "d"})[i] + 1]
        r == Kids(e, p, order, 1, env, [st |-> st, vs |-> <<>>])
    IN IF r.st.exc # "" THEN Res(r.st, NoneV)
       ELSE LET npos == Len(SelIdx(e.sig, {"p", "s"}))
                pos == [i \in 1..npos |-> IF e.sig[order[i + 1] - 1] = "s" THEN Join(r.vs[i + 1].els, ", ", 1) ELSE Rp(r.vs[i + 1])]
                kws == [i \in 1..(Len(order) - 1 - npos) |->
                          LET ai == order[i + 1 + npos] - 1 IN
                          IF e.sig[ai] = "d" THEN r.vs[i + 1 + npos].r ELSE "k" \o ToString(ai) \o "=" \o Rp(r.vs[i + 1 + npos])]
            IN Proto(r.st, r.vs[1], "call", Join(pos, ", ", 1) \o "; " \o Join(kws, ", ", 1))
  ELSE
    LET r == AllKids(e, p, env, st) vs == r.vs s == r.st IN
    IF s.exc # "" THEN Res(s, NoneV)
    ELSE CASE e.t = "getitem" -> Proto(s, vs[1], "getitem", Rp(vs[2]))
           [] e.t = "slice"   -> Proto(s, vs[1], "getitem", SliceR(vs[2], vs[3]))
           [] e.t = "getattr" -> Proto(s, vs[1], "getattr", "at")
           [] e.t = "add"     -> IF vs[1].k = "obj" THEN Proto(s, vs[1], "add", Rp(vs[2]))
                                 ELSE IF vs[2].k = "obj" THEN Proto(s, vs[2], "radd", Rp(vs[1]))
                                 ELSE Res(s, IntV(vs[1].n + vs[2].n))
           [] e.t = "neg"     -> IF vs[1].k = "obj" THEN Proto(s, vs[1], "neg", "") ELSE Res(s, IntV(-vs[1].n))
           [] e.t = "lt"      -> Cmp(s, vs[1], vs[2])
           [] e.t = "in"      -> Res(Log(s, vs[2].r \o ".contains(" \o Rp(vs[1]) \o ")"), BoolV(vs[2].t))
           [] e.t = "notin"   -> Res(Log(s, vs[2].r \o ".contains(" \o Rp(vs[1]) \o ")"), BoolV(~vs[2].t))
           [] e.t = "tuple"   -> Res(s, SeqV("(", ")", vs))
           [] e.t = "list"    -> Res(s, SeqV("[", "]", vs))
           [] e.t = "set"     -> Res(s, OpqV(IF KeyEq(vs[1], vs[2]) THEN "<set:1>" ELSE "<set:2>"))
           [] e.t = "dict1"   -> Res(s, OpqV("{" \o Rp(vs[1]) \o ": " \o Rp(vs[2]) \o "}"))
           [] e.t = "dict2"   -> Res(s, OpqV(IF KeyEq(vs[1], vs[3]) THEN "{" \o Rp(vs[1]) \o ": " \o Rp(vs[4]) \o "}"
                                             ELSE "{" \o Rp(vs[1]) \o ": " \o Rp(vs[2]) \o ", " \o Rp(vs[3]) \o ": " \o Rp(vs[4]) \o "}"))
           [] e.t = "fspec"   -> LET f == Fmt(s, vs[2]) IN      \* f"{a:{b}}"
                                 Res(Log(f.st, vs[1].r \o ".format('" \o f.s \o "')"), StrV(vs[1].r))

---------------------------------------------------------------------------
(* statements *)
\* evaluate the operands of target tg (at path p) and store the value whose repr is vr
Store(tg, p, env, st, vr) ==
  IF tg.t = "tN" THEN st
  ELSE LET r == AllKids(tg, p, env, st) vs == r.vs s == r.st IN
       IF s.exc # "" THEN s
       ELSE CASE tg.t = "tsub"   -> Log(s, vs[1].r \o ".setitem(" \o Rp(vs[2]) \o ", " \o vr \o ")")
              [] tg.t = "tattr"  -> Log(s, vs[1].r \o ".setattr(at, " \o vr \o ")")
              [] tg.t = "tslice" -> Log(s, vs[1].r \o ".setitem(" \o SliceR(vs[2], vs[3]) \o ", " \o vr \o ")")

RECURSIVE StoreAll(_, _, _, _, _, _)
StoreAll(e, i, n, env, st, vrs) ==      \* targets e.a[i..n], value reprs vrs[i..n]
  IF i > n \/ st.exc # "" THEN st ELSE StoreAll(e, i + 1, n, env, Store(e.a[i], i, env, st, vrs[i]), vrs)

Exec(e, env) ==    \* e is the root (path 0)
  LET n == Len(e.a) IN
  CASE e.t = "ret" ->
         LET x == Eval(e.a[1], 1, env, St0) IN IF x.st.exc # "" THEN x.st ELSE Log(x.st, "res=" \o Rp(x.v))
    [] e.t = "assign" ->         \* t1 = t2 = .. = v : v first, then the targets left to right
         LET x == Eval(e.a[n], n, env, St0) IN
         IF x.st.exc # "" THEN x.st ELSE StoreAll(e, 1, n - 1, env, x.st, [i \in 1..n |-> Rp(x.v)])
    [] e.t = "unpack" ->         \* t1, t2 = rhs
         LET x == Eval(e.a[3], 3, env, St0) IN
         IF x.st.exc # "" THEN x.st
         ELSE IF x.v.k = "obj"   \* iterated: logged, yields two fresh objects
              THEN LET s1 == [Log(x.st, x.v.r \o ".iter()") EXCEPT !.nid = @ + 2]
                   IN StoreAll(e, 1, 2, env, s1, <<ObjV(x.st.nid, TRUE).r, ObjV(x.st.nid + 1, TRUE).r>>)
              ELSE StoreAll(e, 1, 2, env, x.st, x.v.els)
    [] e.t = "aug" ->            \* tg += v : target operands once, load, v, __iadd__, store
         LET tg == e.a[1] IN
         IF tg.t = "N"
         THEN LET x == Eval(e.a[2], 2, env, St0) IN
              IF x.st.exc # "" THEN x.st ELSE Proto(x.st, NameV(tg.k), "iadd", Rp(x.v)).st
         ELSE LET r == AllKids(tg, 1, env, St0) vs == r.vs IN
              IF r.st.exc # "" THEN r.st
              ELSE LET key == CASE tg.t = "tsub" -> Rp(vs[2]) [] tg.t = "tattr" -> "at" [] tg.t = "tslice" -> SliceR(vs[2], vs[3])
                       g == Proto(r.st, vs[1], IF tg.t = "tattr" THEN "getattr" ELSE "getitem", key)
                       x == Eval(e.a[2], 2, env, g.st)
                   IN IF x.st.exc # "" THEN x.st
                      ELSE LET h == Proto(x.st, g.v, "iadd", Rp(x.v)) IN
                           Log(h.st, vs[1].r \o (IF tg.t = "tattr" THEN ".setattr(" ELSE ".setitem(") \o key \o ", " \o h.v.r \o ")")

---------------------------------------------------------------------------
VARIABLES phase, ast, lp, typ, outs, log, exc
vars == <<phase, ast, lp, typ, outs, log, exc>>
\* lp: the leaf paths of ast in source order (constant per AST; kept in the state so that it is computed once)

OutFn(l, o) == [p \in {l[i] : i \in 1..Len(l)} |-> o[CHOOSE i \in 1..Len(l) : l[i] = p]]
Run(a, l, ty, o) == Exec(a, [ty |-> ty, out |-> OutFn(l, o)])
LeafTag(p) == "L" \o ToString(p)
Logged(lg, p) == \E i \in 1..Len(lg) : lg[i] = LeafTag(p)
PosIn(lg, p) == CHOOSE i \in 1..Len(lg) : lg[i] = LeafTag(p)
\* canonical outcome vectors: leaves that are not evaluated have outcome T; tuple/dict leaves have no falsy form
Canon(a, l, o, lg) == \A i \in 1..Len(o) : /\ (~Logged(lg, l[i]) => o[i] = "T")
                                            /\ (NodeAt(a, l[i]).k \in {"s", "d"} => o[i] # "F")

(* root -> one state per AST -> per typing the all-truthy case -> outcome changes, one leaf at a time *)
Init == /\ phase = "root" /\ ast = Nm("P") /\ lp = <<>> /\ typ = "" /\ outs = <<>> /\ log = <<>> /\ exc = ""
PickAst == /\ phase = "root" /\ phase' = "ast"
           /\ \E a \in Cases : ast' = a /\ lp' = Paths(a, 0)
           /\ UNCHANGED <<typ, outs, log, exc>>
AllTrue == /\ phase = "ast" /\ phase' = "case"
           /\ \E t \in Typings :
                 LET o == [i \in 1..Len(lp) |-> "T"]  r == Run(ast, lp, t, o) IN
                 typ' = t /\ outs' = o /\ log' = r.log /\ exc' = r.exc
           /\ UNCHANGED <<ast, lp>>
\* change the outcome of one evaluated leaf that comes, in evaluation order, after every leaf whose outcome
\* was changed before: every canonical outcome vector is reached exactly once, with one evaluation each
Flip == /\ phase = "case" /\ exc = ""
        /\ \E i \in 1..Len(outs) :
              /\ outs[i] = "T" /\ Logged(log, lp[i])
              /\ \A j \in 1..Len(outs) : outs[j] # "T" => PosIn(log, lp[j]) < PosIn(log, lp[i])
              /\ \E oc \in (IF NodeAt(ast, lp[i]).k \in {"s", "d"} THEN {"R"} ELSE {"F", "R"}) :
                    LET o == [outs EXCEPT ![i] = oc]  r == Run(ast, lp, typ, o) IN
                    outs' = o /\ log' = r.log /\ exc' = r.exc
        /\ UNCHANGED <<phase, ast, lp, typ>>
Next == PickAst \/ AllTrue \/ Flip
Spec == Init /\ [][Next]_vars

---------------------------------------------------------------------------
(* the property on the model *)
Pos(p) == PosIn(log, p)
LPs == lp
EvaluatedIdx == {i \in 1..Len(LPs) : Logged(log, LPs[i])}
\* every leaf is evaluated at most once
AtMostOnceB == \A i \in 1..Len(LPs) : Cardinality({j \in 1..Len(log) : log[j] = LeafTag(LPs[i])}) <= 1
\* a raising leaf is the last event; without a raise no evaluated leaf had outcome R
StopsAtRaiseB == /\ exc = "" => \A i \in EvaluatedIdx : outs[i] # "R"
                /\ exc # "" => /\ exc = "LeafErr"
                               /\ \E i \in EvaluatedIdx : /\ outs[i] = "R" /\ log[Len(log)] = LeafTag(LPs[i])
                                                          /\ \A j \in EvaluatedIdx \ {i} : outs[j] # "R"
\* without short-circuit forms and without a raise everything is evaluated
RECURSIVE HasForm(_, _), HasFormS(_, _, _)
HasForm(e, fs) == e.t \in fs \/ HasFormS(e.a, fs, Len(e.a))
HasFormS(s, fs, n) == IF n = 0 THEN FALSE ELSE HasForm(s[n], fs) \/ HasFormS(s, fs, n - 1)
AllEvaluatedB == (exc = "" /\ ~HasForm(ast, {"and", "or", "cond", "lt3"})) => EvaluatedIdx = 1..Len(LPs)
\* source order = preorder of paths.  Expressions whose order IS source order: no conditional expression
\* (test first) and no call in which *args follows a keyword argument (processed first)
RECURSIVE OddCall(_), OddCallS(_, _)
OddCall(e) == (e.t = "call" /\ \E i, j \in 1..Len(e.sig) : i < j /\ e.sig[i] = "k" /\ e.sig[j] = "s") \/ OddCallS(e.a, Len(e.a))
OddCallS(s, n) == IF n = 0 THEN FALSE ELSE OddCall(s[n]) \/ OddCallS(s, n - 1)
LeftToRightB == (ast.t = "ret" /\ ~HasForm(ast, {"cond"}) /\ ~OddCall(ast)) =>
                  \A i, j \in EvaluatedIdx : i < j => Pos(LPs[i]) < Pos(LPs[j])
\* assignments: every evaluated leaf of the right-hand side precedes every leaf of the targets;
\* targets among themselves left to right.  Augmented: target operands, then the value
RhsFirstB == ast.t \in {"assign", "unpack"} =>
               LET n == Len(ast.a)
                   isRhs(p) == Digits(p)[1] = n
               IN \A i, j \in EvaluatedIdx :
                     /\ (isRhs(LPs[i]) /\ ~isRhs(LPs[j])) => Pos(LPs[i]) < Pos(LPs[j])
                     /\ (i < j /\ ~isRhs(LPs[i]) /\ ~isRhs(LPs[j])) => Pos(LPs[i]) < Pos(LPs[j])
AugOrderB == ast.t = "aug" => \A i, j \in EvaluatedIdx : i < j => Pos(LPs[i]) < Pos(LPs[j])
\* membership over a display whose operands are all leaves: every operand is evaluated (in source order) before the
\* first comparison, whatever the values are; at most one comparison event per element follows
MemberFirstB == (ast.t = "ret" /\ ast.a[1].t \in MemT /\ exc = "" /\ \A i \in 1..Len(ast.a[1].a) : ast.a[1].a[i].t = "L") =>
                   /\ Len(log) >= Len(LPs) /\ \A i \in 1..Len(LPs) : log[i] = LeafTag(LPs[i])
                   /\ Len(log) <= Len(LPs) + (Len(LPs) - 1) + 1
CanonB == Canon(ast, lp, outs, log)
CanonInv     == phase = "case" => CanonB
AtMostOnce   == phase = "case" => AtMostOnceB
StopsAtRaise == phase = "case" => StopsAtRaiseB
AllEvaluated == phase = "case" => AllEvaluatedB
LeftToRight  == phase = "case" => LeftToRightB
RhsFirst     == phase = "case" => RhsFirstB
AugOrder     == phase = "case" => AugOrderB
MemberFirst  == phase = "case" => MemberFirstB

Publish == (Dump /\ phase = "case") => PrintT("@@" \o ToJson([ast |-> ast, ty |-> typ, lp |-> LPs, out |-> outs, log |-> log, exc |-> exc]))
=============================================================================
