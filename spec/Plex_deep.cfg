SPECIFICATION Spec
CONSTANTS
  MaxLen = 6
  UseCore = TRUE
  Dump = TRUE
INVARIANT ImplAgreesOffHazards
INVARIANT DfaWellFormed
INVARIANT PublishLex
INVARIANT PublishCase
CHECK_DEADLOCK FALSE
