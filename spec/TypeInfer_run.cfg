INIT InitRun
NEXT NextRun
CONSTANTS
  Phase = "run"
  MaxLimbs = 76
  MaxSteps = 700
INVARIANT RunWellFormed
INVARIANT IntsBounded
INVARIANT StoreSound
INVARIANT ParamsAreObjects
INVARIANT HazardsAttributed
INVARIANT PublishRun
CHECK_DEADLOCK FALSE
