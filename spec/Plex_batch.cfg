SPECIFICATION Spec
CONSTANTS
  MaxLen = 5
  UseCore = FALSE
  Dump = TRUE
INVARIANT ImplAgreesOffHazards
INVARIANT DfaWellFormed
INVARIANT PublishLex
INVARIANT PublishCase
CHECK_DEADLOCK FALSE
