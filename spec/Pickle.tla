------------------------------- MODULE Pickle -------------------------------
(* C29: automatic pickling of extension types round-trips.                   *)
(*                                                                           *)
(* A LAYOUT is a chain C0 <- C1 <- C2 of cdef classes (n = chain length):    *)
(*   mem[x]  = NoMem | [lvl, kind]   member x declared in class C<lvl>       *)
(*   dict    = level that declares `cdef dict __dict__` (-1: none)           *)
(*   cinit   = level that defines __cinit__ (-1: none)                       *)
(*   off     = classes C0..C<off-1> carry @auto_pickle(False)                *)
(*   force   = class that carries @auto_pickle(True) (-1: none)              *)
(* An INSTANCE (valuation) is [lvl, py, v, d]: an object of class C<lvl> or  *)
(* of a Python subclass of it (py), value index v[x] per member name, and    *)
(* instance-__dict__ contents d (0 empty, 1 plain, 2 with self/alias refs).  *)
(*                                                                           *)
(* Reference  : Demand - what the property asks of dump-under-L1 followed by *)
(*   load-under-L2 (L1 = L2: round trip; pickle every protocol, copy,        *)
(*   deepcopy): TypeError for types that cannot be pickled, "same" (every    *)
(*   field keeps its value, XformRef gives the identity structure), "raise"  *)
(*   when the layouts differ in member names / class / dict, "sameorraise"   *)
(*   when the same members are declared differently (moved between classes), *)
(*   "byname" when kinds differ (the load must act like assigning every      *)
(*   field BY NAME, or raise).                                               *)
(* Impl-shaped: AnalyseDeclarationsTransform._inject_pickle_methods          *)
(*   (Compiler/ParseTreeTransforms.py) + ExtensionTypes.c: members of the    *)
(*   whole chain sorted by name, state tuple in that order (+ the instance   *)
(*   dict when non-empty), use_setstate decision, checksum over the name     *)
(*   tuple with three accepted digests, __pyx_unpickle_<cls> checks the      *)
(*   checksum, <cls>__set_state assigns state[ix] POSITIONALLY and updates   *)
(*   __dict__ from the extra item; the state tuple is released afterwards    *)
(*   (a `char*` field keeps pointing into it; a char[N] field is converted   *)
(*   to Python as a C string but from Python as an array of exactly N).      *)
(* The digest is abstracted by the name tuple itself (injective); CksMode =  *)
(* "len" is a deliberately broken digest used to show the invariant bites.   *)
(*                                                                           *)
(* State machine: `cur` is edited (add/delete/rename/move member, change     *)
(* kind, add/drop class, __dict__, __cinit__, auto_pickle) and snapshotted   *)
(* into `hist` (the versions of one module); `vals` are the instances.       *)
(* Finished histories are published with Demand, the model's own prediction  *)
(* and the expected field values for every (version i, version j, instance,  *)
(* operation); the binding builds version i and j as modules with identical  *)
(* module/class names and replays dump in one process / load in another.     *)
EXTENDS Integers, Sequences, FiniteSets, TLC, Json

CONSTANTS NNames,     \* member names used: the first NNames of a, b, c, d
          Kinds,      \* member kinds in play
          MaxLvl,     \* maximal chain length (1..3)
          MaxVer,     \* versions per history
          NVals,      \* instances per published history
          NV,         \* value indices 0..NV-1
          FirstEdits, \* edits before the first snapshot (simulation starts from the empty layout)
          MaxEdits,   \* maximal edits between snapshots
          Opts,       \* enabled options: subset of {"dict","cinit","off","force","py"}
          Mode,       \* "pairs" (all ordered layout pairs) | "hist" (edit histories, exhaustive) | "sim"
          CksMode,    \* "names" | "len"
          Dump        \* publish finished histories

AllNames == <<"a", "b", "c", "d">>
NameSeq == SubSeq(AllNames, 1, NNames)
Names == {NameSeq[i] : i \in 1..NNames}
Lvls == 0..(MaxLvl - 1)
NoMem == [lvl |-> -1, kind |-> "-"]
MemOpts == {NoMem} \cup [lvl : Lvls, kind : Kinds]
IsPyObj(k) == k \in {"obj", "typed"}

---------------------------------------------------------------------------
(* layouts *)
Members(L, l) == {x \in Names : L.mem[x].lvl # -1 /\ L.mem[x].lvl <= l}
KindOf(L, x) == L.mem[x].kind
KindsAt(L, l) == {KindOf(L, x) : x \in Members(L, l)}
HasCinit(L, l) == L.cinit # -1 /\ L.cinit <= l
HasDict(L, l) == L.dict # -1 /\ L.dict <= l
IsOff(L, l) == l < L.off
Forced(L, l) == L.force = l

Valid(L) ==
  /\ \A x \in Names : L.mem[x].lvl < L.n
  /\ L.dict < L.n /\ L.cinit < L.n /\ L.off <= L.n /\ L.force < L.n
  /\ (L.dict # -1 => "dict" \in Opts) /\ (L.cinit # -1 => "cinit" \in Opts)
  /\ (L.off # 0 => "off" \in Opts) /\ (L.force # -1 => "force" \in Opts)
  \* @auto_pickle(True) on a class that cannot be pickled is a compile-time error
  /\ L.force # -1 => /\ ~IsOff(L, L.force) /\ ~HasCinit(L, L.force)
                     /\ "ptr" \notin KindsAt(L, L.force)

\* (ranges are narrowed first: TLC enumerates the record set before it filters)
OptR(o, n) == IF o \in Opts THEN -1..(n - 1) ELSE {-1}
LayoutsN(n) == {L \in [n : {n}, mem : [Names -> {NoMem} \cup [lvl : 0..(n - 1), kind : Kinds]],
                        dict : OptR("dict", n), cinit : OptR("cinit", n),
                        off : IF "off" \in Opts THEN 0..n ELSE {0}, force : OptR("force", n)] : Valid(L)}
Layouts == IF Mode = "sim" THEN {} ELSE UNION {LayoutsN(n) : n \in 1..MaxLvl}   \* (TLC evaluates constants eagerly)
Empty == [n |-> 1, mem |-> [x \in Names |-> NoMem], dict |-> -1, cinit |-> -1, off |-> 0, force |-> -1]

---------------------------------------------------------------------------
(* values: a tag per (kind, value index); the binding owns the concrete value of a tag *)
Tags(k) == CASE k = "num" -> <<"n0", "n1", "n2">>
             [] k = "flt" -> <<"f0", "f1", "f2", "f3">>
             [] k = "obj" -> <<"none", "self", "shl", "oint", "otxt">>
             [] k = "typed" -> <<"none", "t1", "t2">>
             [] k = "agg" -> <<"g0", "g1">>
             [] k = "struct" -> <<"s0", "s1">>
             [] k = "ptr" -> <<"null">>
             [] k = "cstr" -> <<"c0", "c1">>
             [] k = "carr" -> <<"a0", "a1">>
Tag(L, x, inst) == LET t == Tags(KindOf(L, x)) IN t[(inst.v[x] % Len(t)) + 1]
DictSeq(d) == CASE d = 0 -> <<>>
                [] d = 1 -> << <<"k1", "oint">> >>
                [] d = 2 -> << <<"k1", "otxt">>, <<"me", "self">>, <<"sh", "shl">> >>

Insts == [lvl : Lvls, py : IF "py" \in Opts THEN BOOLEAN ELSE {FALSE}, v : [Names -> 0..(NV - 1)],
          d : IF "dict" \in Opts \/ "py" \in Opts THEN 0..2 ELSE {0}]

(* the instance can be built under L, and the property says something about it *)
Applicable(L, inst) ==
  /\ inst.lvl < L.n
  /\ inst.d # 0 => (HasDict(L, inst.lvl) \/ inst.py)
  /\ ~(IsOff(L, inst.lvl) /\ Members(L, inst.lvl) = {})   \* plain object.__reduce_ex__: CPython's business

(* identity structure after the operation: a self reference follows the copy for pickle/deepcopy *)
(* and keeps pointing at the original for copy.copy; the aliased list is re-created once or shared *)
XformRef(op, tag) == IF op = "copy" THEN (IF tag = "self" THEN "orig" ELSE tag)
                     ELSE (IF tag = "shl" THEN "shlnew" ELSE tag)

---------------------------------------------------------------------------
(* reference *)
RefPicklable(L, l) ==
  /\ ~IsOff(L, l) /\ ~HasCinit(L, l)
  /\ "ptr" \notin KindsAt(L, l)
  /\ "struct" \in KindsAt(L, l) => Forced(L, l)

ChainEq(L1, L2, l) == /\ \A x \in Names : (L1.mem[x].lvl \in 0..l \/ L2.mem[x].lvl \in 0..l) => L1.mem[x] = L2.mem[x]
                      /\ HasDict(L1, l) = HasDict(L2, l) /\ (HasDict(L1, l) => L1.dict = L2.dict)
SameKinds(L1, L2, l) == \A x \in Members(L1, l) : KindOf(L1, x) = KindOf(L2, x)

Demand(L1, L2, inst) ==
  LET l == inst.lvl IN
  IF ~Applicable(L1, inst) THEN "n/a"
  ELSE IF ~RefPicklable(L1, l) THEN "TypeError"
  ELSE IF l >= L2.n THEN "raise"                                   \* the class is gone
  ELSE IF ~RefPicklable(L2, l) THEN "raise"                        \* ... or cannot be unpickled any more
  ELSE IF Members(L1, l) # Members(L2, l) THEN "raise"             \* different attribute names
  ELSE IF inst.d # 0 /\ ~(HasDict(L2, l) \/ inst.py) THEN "raise"  \* nowhere to put the instance dict
  ELSE IF ChainEq(L1, L2, l) THEN "same"                           \* the classes up to C<l> are declared identically
  ELSE IF SameKinds(L1, L2, l) THEN "sameorraise" ELSE "byname"    \* a changed layout may always be refused

---------------------------------------------------------------------------
(* implementation-shaped *)
SortedNames(S) == SelectSeq(NameSeq, LAMBDA x : x \in S)
Cks(ms) == IF CksMode = "names" THEN ms ELSE <<Len(ms)>>

\* what _inject_pickle_methods generates for class l
ImplKind(L, l) ==
  IF IsOff(L, l) THEN "none"
  ELSE LET all == Members(L, l)
           nonpy == {x \in all : KindOf(L, x) = "ptr"}
           structs == {x \in all : KindOf(L, x) = "struct"}
       IN IF HasCinit(L, l) \/ nonpy # {} \/ (structs # {} /\ ~Forced(L, l)) THEN "raising" ELSE "auto"

SelfReachable(L, inst) == inst.d = 2 \/ \E x \in Members(L, inst.lvl) : Tag(L, x, inst) = "self"

\* __reduce_cython__: err = "TypeError" / "recursion", or the reduce value
NoBlob(err) == [err |-> err, cls |-> -1, py |-> FALSE, cks |-> <<0, <<>> >>, us |-> FALSE, st |-> <<>>]
ImplDump(L, inst, op, alg) ==
  LET l == inst.lvl k == ImplKind(L, l) IN
  IF k = "none" THEN NoBlob("TypeError")            \* object.__reduce_ex__ on a type with C fields
  ELSE IF k = "raising" THEN NoBlob("TypeError")
  ELSE LET ms == SortedNames(Members(L, l))
           st0 == [i \in 1..Len(ms) |-> [t |-> "m", src |-> ms[i]]]
           st == IF inst.d # 0 THEN Append(st0, [t |-> "d", src |-> "-"]) ELSE st0
           us == inst.d # 0 \/ \E x \in Members(L, l) : IsPyObj(KindOf(L, x)) /\ Tag(L, x, inst) # "none"
       IN \* without use_setstate the state is pickled BEFORE the object is memoized
          IF ~us /\ op # "copy" /\ SelfReachable(L, inst) THEN NoBlob("recursion")
          ELSE [err |-> "", cls |-> l, py |-> inst.py, cks |-> <<alg, Cks(ms)>>, us |-> us, st |-> st]

\* __pyx_unpickle_<cls> + <cls>__set_state + __Pyx_UpdateUnpickledDict
ImplLoad(blob, L1, L2) ==
  LET l == blob.cls IN
  IF l >= L2.n THEN "raise"
  ELSE IF ImplKind(L2, l) # "auto" THEN "raise"          \* no __pyx_unpickle_<cls> in the module
  ELSE LET ms2 == SortedNames(Members(L2, l))
           st == blob.st
       IN IF ~\E a \in 1..3 : blob.cks = <<a, Cks(ms2)>> THEN "raise"      \* PickleError
          ELSE IF Len(st) < Len(ms2) THEN "raise"                            \* IndexError
          ELSE LET src == [i \in 1..Len(ms2) |-> st[i]]
                   extra == IF Len(st) > Len(ms2) THEN st[Len(ms2) + 1] ELSE [t |-> "-", src |-> "-"]
               IN IF \E i \in 1..Len(ms2) : src[i].t # "m" THEN "misassign"   \* a field received the dict
                  ELSE IF \E i \in 1..Len(ms2) : src[i].src # ms2[i] THEN "misassign"
                  ELSE IF extra.t = "m" THEN "misassign"                       \* a field value taken for the dict
                  ELSE IF extra.t = "d" /\ ~(HasDict(L2, l) \/ blob.py) THEN "raise"  \* no __dict__ to update
                  ELSE IF Len(st) > Len(ms2) + 1 THEN "dictlost"
                  \* the state tuple dies now
                  ELSE IF \E i \in 1..Len(ms2) : KindOf(L2, ms2[i]) = "carr" /\ KindOf(L1, ms2[i]) = "carr" THEN "carr"
                  ELSE IF \E i \in 1..Len(ms2) : KindOf(L2, ms2[i]) = "cstr" /\ KindOf(L1, ms2[i]) = "cstr" THEN "dangling"
                  ELSE "ok"

Impl(L1, L2, inst, op, alg) ==
  IF ~Applicable(L1, inst) THEN "n/a"
  ELSE LET b == ImplDump(L1, inst, op, alg) IN
       IF b.err # "" THEN b.err ELSE ImplLoad(b, L1, L2)

Meets(d, o) == \/ d = "n/a"
               \/ d = "TypeError" /\ o = "TypeError"
               \/ d = "raise" /\ o = "raise"
               \/ d = "same" /\ o = "ok"
               \/ d \in {"sameorraise", "byname"} /\ o \in {"ok", "raise"}

SameOps == {"pickle", "copy", "deepcopy"}
PairX(L1, L2, inst) == Meets(Demand(L1, L2, inst), Impl(L1, L2, inst, "pickle", 1))
PairSame(L, inst) == LET d == Demand(L, L, inst) IN
                     d # "n/a" => /\ \A op \in SameOps : Meets(d, Impl(L, L, inst, op, 1))
                                  /\ \A alg \in {2, 3}, op \in {"pickle", "copy"} : Meets(d, Impl(L, L, inst, op, alg))
PairOK(L1, L2, inst) == IF L1 = L2 THEN PairSame(L1, inst) ELSE PairX(L1, L2, inst)

---------------------------------------------------------------------------
VARIABLES cur, hist, vals, e, done
vars == <<cur, hist, vals, e, done>>

Init == /\ cur \in (IF Mode = "sim" THEN {Empty} ELSE IF Mode = "pairs" THEN Layouts
                    \* hist: full chain, every name but the last one present (room for add / rename), no options yet
                    ELSE {L \in Layouts : L.n = MaxLvl /\ L.dict = -1 /\ L.cinit = -1 /\ L.off = 0 /\ L.force = -1
                                          /\ L.mem[NameSeq[NNames]] = NoMem
                                          /\ \A i \in 1..(NNames - 1) : L.mem[NameSeq[i]].lvl = (i - 1) % MaxLvl
                                                                        /\ L.mem[NameSeq[i]].kind \in (IF i = 1 THEN {"num", "obj"} ELSE {"obj", "struct"})})
        /\ hist = (IF Mode = "pairs" THEN <<cur>> ELSE <<>>) /\ vals = <<>> /\ e = 0 /\ done = FALSE

CanEdit == /\ Mode # "pairs" /\ Len(hist) < MaxVer
           /\ Len(hist) = 0 => Mode = "sim"          \* hist: the seed itself is the first version
           /\ e < (IF Len(hist) = 0 THEN FirstEdits + MaxEdits ELSE MaxEdits)
Edit(L) == /\ CanEdit /\ Valid(L) /\ L # cur
           /\ cur' = L /\ e' = e + 1 /\ UNCHANGED <<hist, vals, done>>
Stable(k) == k \notin {"cstr", "carr"}      \* these two never take part in a kind change

\* (simulation only: struct / pointer members enter in the leaf class, so that the classes below stay picklable more often)
Biased(l, k) == Mode = "sim" /\ k \in {"ptr", "struct"} => l = cur.n - 1
AddMember == \E x \in Names, l \in Lvls, k \in Kinds :
               /\ cur.mem[x] = NoMem /\ Biased(l, k) /\ Edit([cur EXCEPT !.mem[x] = [lvl |-> l, kind |-> k]])
DelMember == \E x \in Names : cur.mem[x] # NoMem /\ Edit([cur EXCEPT !.mem[x] = NoMem])
RenameMember == \E x \in Names, y \in Names :
               /\ cur.mem[x] # NoMem /\ cur.mem[y] = NoMem
               /\ Edit([cur EXCEPT !.mem[y] = cur.mem[x], !.mem[x] = NoMem])
ChangeKind == \E x \in Names, k \in Kinds :
               /\ cur.mem[x] # NoMem /\ Stable(k) /\ Stable(cur.mem[x].kind) /\ Biased(cur.mem[x].lvl, k)
               /\ Edit([cur EXCEPT !.mem[x].kind = k])
MoveMember == \E x \in Names, l \in Lvls : cur.mem[x] # NoMem /\ Edit([cur EXCEPT !.mem[x].lvl = l])
AddClass == cur.n < MaxLvl /\ Edit([cur EXCEPT !.n = cur.n + 1])
Clamp(v, top) == IF v > top THEN top ELSE v
DropClass == /\ cur.n > 1
             /\ LET t == cur.n - 2 IN       \* the leaf class is merged into its base
                Edit([n |-> cur.n - 1,
                      mem |-> [x \in Names |-> IF cur.mem[x].lvl > t THEN [cur.mem[x] EXCEPT !.lvl = t] ELSE cur.mem[x]],
                      dict |-> Clamp(cur.dict, t), cinit |-> Clamp(cur.cinit, t),
                      off |-> Clamp(cur.off, t + 1), force |-> Clamp(cur.force, t)])
SetDict == \E l \in -1..(MaxLvl - 1) : l # cur.dict /\ Edit([cur EXCEPT !.dict = l])
SetCinit == \E l \in -1..(MaxLvl - 1) : l # cur.cinit /\ Edit([cur EXCEPT !.cinit = l])
SetOff == \E o \in 0..MaxLvl : o # cur.off /\ Edit([cur EXCEPT !.off = o])
SetForce == \E l \in -1..(MaxLvl - 1) : l # cur.force /\ Edit([cur EXCEPT !.force = l])
Jump == /\ Mode = "pairs" /\ Len(hist) = 1
        /\ \E L \in Layouts : cur' = L /\ hist' = Append(hist, L) /\ UNCHANGED <<e, vals, done>>

Snap == /\ Len(hist) < MaxVer /\ Mode # "pairs"
        /\ e >= (IF Len(hist) = 0 THEN FirstEdits ELSE 1)
        /\ hist' = Append(hist, cur) /\ e' = 0 /\ UNCHANGED <<cur, vals, done>>

\* instances: random in simulation, a fixed diagonal family otherwise
StdVal(k) == [lvl |-> (k - 1) % MaxLvl, py |-> ("py" \in Opts /\ k % 2 = 0),
              v |-> [x \in Names |-> (k + (CHOOSE i \in 1..NNames : NameSeq[i] = x)) % NV],
              d |-> IF "dict" \in Opts \/ "py" \in Opts THEN (k - 1) % 3 ELSE 0]
Idx(x) == CHOOSE i \in 1..NNames : NameSeq[i] = x
SimVals == {[lvl |-> l, py |-> p, v |-> [x \in Names |-> (salt + Idx(x) * stride) % NV], d |-> d] :
              l \in Lvls, p \in (IF "py" \in Opts THEN BOOLEAN ELSE {FALSE}), salt \in 0..(NV - 1), stride \in 1..2,
              d \in (IF "dict" \in Opts \/ "py" \in Opts THEN 0..2 ELSE {0})}
AddVal == /\ Len(hist) = MaxVer /\ Len(vals) < NVals /\ ~done
          /\ \E inst \in (IF Mode = "sim" THEN SimVals ELSE {StdVal(Len(vals) + 1)}) :
                /\ (Mode = "sim" => \E i \in 1..MaxVer : Applicable(hist[i], inst))
                /\ vals' = Append(vals, inst)
          /\ UNCHANGED <<cur, hist, e, done>>
Finish == /\ Mode # "pairs" /\ Len(hist) = MaxVer /\ Len(vals) = NVals /\ ~done
          /\ done' = TRUE /\ UNCHANGED <<cur, hist, vals, e>>

Next == AddMember \/ DelMember \/ RenameMember \/ ChangeKind \/ MoveMember \/ AddClass \/ DropClass
        \/ SetDict \/ SetCinit \/ SetOff \/ SetForce \/ Jump \/ Snap \/ AddVal \/ Finish
Spec == Init /\ [][Next]_vars

---------------------------------------------------------------------------
(* the property on the model: checked when a version has just been added, against every *)
(* earlier version in both directions; over ALL instances in pairs mode, over the        *)
(* published ones in hist mode (and at the end of a simulated history)                   *)
CheckInsts == IF Mode = "pairs" THEN Insts ELSE IF Mode = "hist" THEN {StdVal(k) : k \in 1..NVals} ELSE {}
JustSnapped == Len(hist) > 0 /\ e = 0 /\ vals = <<>>
ImplMeetsDemand ==
  JustSnapped => LET n == Len(hist) Ln == hist[n] IN
                 \A inst \in CheckInsts :
                    /\ (Mode # "pairs" \/ n = 1) => PairSame(Ln, inst)
                    /\ \A i \in 1..(n - 1) : /\ PairX(hist[i], Ln, inst)
                                             /\ Mode # "pairs" => PairX(Ln, hist[i], inst)   \* pairs: the reverse is another state
ImplMeetsDemandVals ==
  done => \A i \in 1..MaxVer, j \in 1..MaxVer, k \in 1..NVals : PairOK(hist[i], hist[j], vals[k])
Hazards == {"carr", "dangling"}
PublishedMeet ==     \* (simulation, all kinds: everything published meets the demand unless the model predicts a hazard)
  done => \A i \in 1..MaxVer, j \in 1..MaxVer, k \in 1..NVals :
             Impl(hist[i], hist[j], vals[k], "pickle", 1) \in Hazards \/ PairOK(hist[i], hist[j], vals[k])

(* a load that succeeds never gives a field another field's value (weaker: holds for every kind) *)
Bad == {"misassign", "dictlost", "recursion"}
NoMisassign ==
  JustSnapped => LET n == Len(hist) Ln == hist[n] IN
                 \A inst \in CheckInsts :
                    /\ \A op \in SameOps : Impl(Ln, Ln, inst, op, 1) \notin Bad
                    /\ \A i \in 1..(n - 1) : /\ Impl(hist[i], Ln, inst, "pickle", 1) \notin Bad
                                             /\ Impl(Ln, hist[i], inst, "pickle", 1) \notin Bad

(* publication *)
Case(i, j, k, op, alg) ==
  LET L1 == hist[i] L2 == hist[j] inst == vals[k]
      d == Demand(L1, L2, inst)
      ms == Members(L1, inst.lvl) IN
  [i |-> i, j |-> j, k |-> k, op |-> op, alg |-> alg, demand |-> d, impl |-> Impl(L1, L2, inst, op, alg),
   pre |-> [x \in ms |-> Tag(L1, x, inst)],
   exp |-> IF d \in {"same", "sameorraise"} THEN [x \in ms |-> XformRef(op, Tag(L1, x, inst))] ELSE [x \in {} |-> ""],
   dexp |-> IF d \in {"same", "sameorraise", "byname"} THEN [q \in 1..Len(DictSeq(inst.d)) |-> <<DictSeq(inst.d)[q][1], XformRef(op, DictSeq(inst.d)[q][2])>>]
            ELSE <<>>]

Cases == {Case(i, i, k, op, 1) : i \in 1..MaxVer, k \in 1..NVals, op \in SameOps}
         \* data of an older release (sha1 / md5 digest): replayed by calling __pyx_unpickle_<cls> with the reduce value's
         \* own state, which is as shallow as copy.copy
         \cup {Case(i, i, k, "copy", alg) : i \in 1..MaxVer, k \in 1..NVals, alg \in {2, 3}}
         \cup {Case(ij[1], ij[2], k, "pickle", 1) : ij \in {p \in (1..MaxVer) \X (1..MaxVer) : p[1] # p[2]}, k \in 1..NVals}

Publish == (Dump /\ done) =>
   PrintT("@@" \o ToJson([layouts |-> hist, vals |-> vals,
                          cases |-> {c \in Cases : c.demand # "n/a"}]))
=============================================================================
