------------------------------ MODULE Signature ------------------------------
(* C25: compiled functions report faithful names and signatures.             *)
(*                                                                           *)
(* mode "expr": default-value expressions as abstract syntax trees           *)
(*   N(k, v, c) (kind, operator/leaf id, children), built node by node in    *)
(*   postfix order (one TLC state per partial stack; every state with one    *)
(*   tree on the stack is a case).                                           *)
(*   Reference : Pr(e, m), the printer that follows Python's expression      *)
(*               grammar (level of a node / minimal level of every operand   *)
(*               position) and Parse, a recursive-descent parser of that     *)
(*               grammar over token sequences.  TLC decides                  *)
(*               Parse(Pr(e)) = e for every tree (RoundTrip).                *)
(*   Impl-shaped: PI(e, prec), a transcription of CodeWriter.ExpressionWriter*)
(*               as repaired for KF-C25-1..6 (precedence stack with          *)
(*               visit_operand / visit_primary, emit_sequence with the comma *)
(*               of a one-element tuple, the comparison cascade, the         *)
(*               conditional expression under operator_enter(0), negative    *)
(*               literals under the precedence of unary minus) on the tree   *)
(*               as EmbedSignature sees it (after ConstantFolding: "-1" is a *)
(*               literal, "not (a in b)" is "a not in b"; after              *)
(*               FlattenInListTransform: "x in (a, b)" is not printable).    *)
(*               Hazard(e): the text PI prints does not parse back to (the   *)
(*               normal form of) e.  TLC decides that every hazard is        *)
(*               explained by the root-cause catalogue Causes (Catalogue):   *)
(*               only "inlist" is left; the other six classes of Tags(e)     *)
(*               (the constructs the writer got wrong before the repairs)    *)
(*               are printed faithfully, they remain as replay strata.       *)
(* mode "sig":  parameter lists (kind, default) built parameter by parameter *)
(*   and nesting paths (function / class / cdef class) with QualName(path).  *)
(* Every case is published ("@@" + JSON) for replay on compiled modules.     *)
EXTENDS Integers, Sequences, FiniteSets, TLC, Json

CONSTANTS Modes,                       \* subset of {"expr", "lit", "sig"}
          Names, Nums, Atoms, Opqs,    \* leaf ids of mode "expr" (the harness owns their source text)
          LitTok,                      \* mode "lit": the whole literal pool under at most LitTok - 1 one-operand constructors
          UnOps, BinOps, BoolOps, CmpOps, ChainOps, Ctors,
          MaxOps, MaxTok,              \* bounds on operator nodes / all nodes of a tree
          MaxParams, MaxNest,
          Dump

\* named constant sets for the .cfg files
NoneSet  == {}
LvNames  == {"K", "L"}
LvNames1 == {"K"}
LvNums   == {"i1", "f15"}
LvNums1  == {"i1"}
LvAtoms1 == {"s_a"}
LvOpqs   == {"lambda", "walrus", "fstring"}
LvLits   == {"i0", "i1", "ibig", "ihex", "ibin", "ioct", "iund", "f15", "fexp", "fEneg", "fdot5", "f5dot", "finf", "fund",
             "j2", "j15"}
DecInts  == {"i0", "i1", "ibig", "iund"}       \* decimal integer literals: "1.real" is not a token sequence ("1." is a float)
IntLits  == {"i0", "i1", "ibig", "ihex", "ibin", "ioct", "iund"}      \* literals that are an ExprNodes.IntNode
LvAtomsAll == {"s_a", "s_esc", "s_quotes", "s_uni", "s_raw", "s_cat", "s_triple", "s_empty", "s_nl", "b_a", "b_esc", "b_quotes",
               "None", "True", "False", "Ellipsis", "e_tuple", "e_list", "e_dict", "e_setcall"}
AllUn    == {"-", "+", "~", "not"}
MinUn    == {"-", "~", "not"}
LvOpq1   == {"lambda"}
T3Bin    == {"-", "**"}
T3Bool   == {"and"}
T3Ctors  == {"tuple1", "list1", "attr", "idx", "call1", "cond"}
AllBin   == {"|", "^", "&", "<<", ">>", "+", "-", "*", "/", "//", "%", "@", "**"}
RepBin   == {"|", "^", "&", "<<", "+", "-", "*", "//", "**"}          \* every precedence level
MinBin   == {"|", "<<", "-", "*", "**"}
Bin7     == {"|", "^", "&", "<<", "-", "*", "**"}                      \* one operator of every precedence level
AllBool  == {"or", "and"}
AllCmp   == {"<", "<=", ">", ">=", "==", "!=", "in", "not in", "is", "is not"}
RepCmp   == {"<", "==", "in", "is not"}
MinCmp   == {"<", "in"}
RepChain == {"<", "=="}
MinChain == {"<"}
AllCtors == {"tuple1", "tuple2", "list1", "set1", "dict1", "attr", "idx", "sl_lo", "sl_hi", "sl_st", "sl_all", "sl_lohi",
             "call0", "call1", "call2", "callstar", "calldstar", "callkw", "cond"}
RepCtors == {"tuple1", "tuple2", "list1", "dict1", "attr", "idx", "sl_lohi", "call1", "callkw", "cond"}
DispCtors == {"tuple1", "tuple2", "list1", "set1", "dict1"}
LitCtors == {"tuple1", "list1", "set1", "attr", "call0", "sl_all"}

VARIABLES mode, stack, nops, ntok, params, path, leaf
vars == <<mode, stack, nops, ntok, params, path, leaf>>

---------------------------------------------------------------------------
(* trees *)
N(k, v, c) == [k |-> k, v |-> v, c |-> c]
Lf(k, id) == N(k, <<id>>, <<>>)
Nil    == N("nil", <<>>, <<>>)
Err    == N("err", <<>>, <<>>)
Absent == N("absent", <<>>, <<>>)
EllipsisLeaf == Lf("atom", "Ellipsis")
LeafKinds == {"name", "num", "atom", "opq"}
OperatorKinds == {"un", "bin", "bool", "cmp", "cond"}

RECURSIVE Size(_), SumSizes(_, _)
SumSizes(xs, i) == IF i > Len(xs) THEN 0 ELSE Size(xs[i]) + SumSizes(xs, i + 1)
Size(e) == (IF e.k \in {"kv", "star", "dstar", "kw", "slice", "absent"} THEN 0 ELSE 1) + SumSizes(e.c, 1)   \* wrappers are free

---------------------------------------------------------------------------
(* tokens *)
T(s) == [t |-> "p", s |-> s, n |-> Nil]
A(e) == [t |-> "a", s |-> e.v[1], n |-> e]
EOFTok == [t |-> "eof", s |-> "", n |-> Nil]
At(ts, i) == IF i >= 1 /\ i <= Len(ts) THEN ts[i] ELSE EOFTok
Is(ts, i, s) == At(ts, i).t = "p" /\ At(ts, i).s = s
IsIn(ts, i, S) == At(ts, i).t = "p" /\ At(ts, i).s \in S
Texts(ts) == [i \in 1..Len(ts) |-> ts[i].s]

---------------------------------------------------------------------------
(* Python's expression grammar: level of a node, parser *)
\* 1 test (conditional, lambda)  2 or  3 and  4 not  5 comparison  6 |  7 ^  8 &  9 shift
\* 10 arith  11 term  12 factor (unary)  13 power  15 primary / atom ;  0 named expression
BinLv(op) == CASE op = "|" -> 6 [] op = "^" -> 7 [] op = "&" -> 8 [] op \in {"<<", ">>"} -> 9
               [] op \in {"+", "-"} -> 10 [] op \in {"*", "/", "//", "%", "@"} -> 11 [] op = "**" -> 13
OpqLv(id) == IF id = "walrus" THEN 0 ELSE IF id = "lambda" THEN 1 ELSE 15
Lv(e) == CASE e.k = "cond" -> 1
           [] e.k = "bool" -> IF e.v[1] = "or" THEN 2 ELSE 3
           [] e.k = "un" -> IF e.v[1] = "not" THEN 4 ELSE 12
           [] e.k = "cmp" -> 5
           [] e.k = "bin" -> BinLv(e.v[1])
           [] e.k = "opq" -> OpqLv(e.v[1])
           [] OTHER -> 15
\* level of a binary operator token (0: not an operator)
OpLv(s) == CASE s = "or" -> 2 [] s = "and" -> 3 [] s \in AllCmp -> 5 [] s = "|" -> 6 [] s = "^" -> 7 [] s = "&" -> 8
             [] s \in {"<<", ">>"} -> 9 [] s \in {"+", "-"} -> 10 [] s \in {"*", "/", "//", "%", "@"} -> 11 [] OTHER -> 0
TokLv(ts, i) == IF At(ts, i).t = "p" THEN OpLv(At(ts, i).s) ELSE 0

R(n, p) == [n |-> n, p |-> p]
Bad == R(Nil, 0)
RI(xs, tr, p) == [xs |-> xs, tr |-> tr, p |-> p]
BadItems == RI(<<>>, FALSE, 0)

RECURSIVE PTest(_, _), PExpr(_, _, _), PPrefix(_, _, _), PClimb(_, _, _, _), PCmpTail(_, _, _, _), PAtom(_, _), PTrail(_, _, _),
          PItems(_, _, _, _, _, _), PItem(_, _, _), PSlice(_, _)

\* test: or_test ['if' or_test 'else' test]
PTest(ts, i) ==
  LET a == PExpr(ts, i, 2) IN
  IF a.p = 0 THEN Bad
  ELSE IF Is(ts, a.p, "if")
       THEN LET b == PExpr(ts, a.p + 1, 2) IN
            IF b.p = 0 \/ ~Is(ts, b.p, "else") THEN Bad
            ELSE LET c == PTest(ts, b.p + 1) IN
                 IF c.p = 0 THEN Bad ELSE R(N("cond", <<>>, <<a.n, b.n, c.n>>), c.p)
       ELSE a

\* an expression all of whose top-level operators have level >= m (precedence climbing, 2 <= m <= 12)
PExpr(ts, i, m) == LET a == PPrefix(ts, i, m) IN IF a.p = 0 THEN Bad ELSE PClimb(ts, a.n, a.p, m)

\* not_test: 'not' not_test | comparison ;  factor: ('+'|'-'|'~') factor | power ;  power: primary ['**' factor]
PPrefix(ts, i, m) ==
  IF Is(ts, i, "not")
  THEN IF m > 4 THEN Bad
       ELSE LET a == PExpr(ts, i + 1, 4) IN IF a.p = 0 THEN Bad ELSE R(N("un", <<"not">>, <<a.n>>), a.p)
  ELSE IF IsIn(ts, i, {"+", "-", "~"})
  THEN LET a == PPrefix(ts, i + 1, 12) IN IF a.p = 0 THEN Bad ELSE R(N("un", <<At(ts, i).s>>, <<a.n>>), a.p)
  ELSE LET a == PAtom(ts, i) IN
       IF a.p = 0 THEN Bad
       ELSE LET b == PTrail(ts, a.n, a.p) IN
            IF b.p = 0 THEN Bad
            ELSE IF Is(ts, b.p, "**")
                 THEN LET c == PPrefix(ts, b.p + 1, 12) IN        \* right operand: a factor (unary allowed, ** right-assoc.)
                      IF c.p = 0 THEN Bad ELSE R(N("bin", <<"**">>, <<b.n, c.n>>), c.p)
                 ELSE b

\* left-associative operator chains; a comparison chain is one node with all operators and operands
PClimb(ts, left, p, m) ==
  LET l == TokLv(ts, p) IN
  IF l = 0 \/ l < m THEN R(left, p)
  ELSE IF l = 5
       THEN LET r == PCmpTail(ts, <<>>, <<left>>, p) IN IF r.p = 0 THEN Bad ELSE PClimb(ts, r.n, r.p, m)
       ELSE LET b == PExpr(ts, p + 1, l + 1) IN
            IF b.p = 0 THEN Bad
            ELSE PClimb(ts, N(IF l <= 3 THEN "bool" ELSE "bin", <<At(ts, p).s>>, <<left, b.n>>), b.p, m)

PCmpTail(ts, ops, xs, p) ==
  IF TokLv(ts, p) = 5
  THEN LET b == PExpr(ts, p + 1, 6) IN
       IF b.p = 0 THEN Bad ELSE PCmpTail(ts, Append(ops, At(ts, p).s), Append(xs, b.n), b.p)
  ELSE R(N("cmp", ops, xs), p)

AllKv(xs) == \A i \in 1..Len(xs) : xs[i].k = "kv"
NoKv(xs) == \A i \in 1..Len(xs) : xs[i].k # "kv"

PAtom(ts, i) ==
  IF At(ts, i).t = "a" THEN R(At(ts, i).n, i + 1)
  ELSE IF Is(ts, i, "(")
       THEN LET r == PItems(ts, i + 1, ")", "seq", <<>>, FALSE) IN
            IF r.p = 0 THEN Bad
            ELSE IF Len(r.xs) = 1 /\ ~r.tr THEN R(r.xs[1], r.p)          \* parenthesised expression
                 ELSE R(N("tuple", <<>>, r.xs), r.p)
  ELSE IF Is(ts, i, "[")
       THEN LET r == PItems(ts, i + 1, "]", "seq", <<>>, FALSE) IN
            IF r.p = 0 THEN Bad ELSE R(N("list", <<>>, r.xs), r.p)
  ELSE IF Is(ts, i, "{")
       THEN LET r == PItems(ts, i + 1, "}", "brace", <<>>, FALSE) IN
            IF r.p = 0 THEN Bad
            ELSE IF AllKv(r.xs) THEN R(N("dict", <<>>, r.xs), r.p)
                 ELSE IF NoKv(r.xs) THEN R(N("set", <<>>, r.xs), r.p) ELSE Bad
  ELSE Bad

PItems(ts, i, close, ctx, acc, tr) ==
  IF Is(ts, i, close) THEN RI(acc, tr, i + 1)
  ELSE LET it == PItem(ts, i, ctx) IN
       IF it.p = 0 THEN BadItems
       ELSE IF Is(ts, it.p, ",") THEN PItems(ts, it.p + 1, close, ctx, Append(acc, it.n), TRUE)
            ELSE IF Is(ts, it.p, close) THEN RI(Append(acc, it.n), FALSE, it.p + 1)
                 ELSE BadItems

Wrap1(k, v, r) == IF r.p = 0 THEN Bad ELSE R(N(k, v, <<r.n>>), r.p)

PItem(ts, i, ctx) ==
  CASE ctx = "seq" -> PTest(ts, i)
    [] ctx = "brace" -> LET a == PTest(ts, i) IN
                        IF a.p = 0 THEN Bad
                        ELSE IF Is(ts, a.p, ":")
                             THEN LET b == PTest(ts, a.p + 1) IN
                                  IF b.p = 0 THEN Bad ELSE R(N("kv", <<>>, <<a.n, b.n>>), b.p)
                             ELSE a
    [] ctx = "arg" -> IF Is(ts, i, "*") THEN Wrap1("star", <<>>, PTest(ts, i + 1))
                      ELSE IF Is(ts, i, "**") THEN Wrap1("dstar", <<>>, PTest(ts, i + 1))
                      ELSE IF Is(ts, i, "a=") THEN Wrap1("kw", <<"a">>, PTest(ts, i + 1))
                      ELSE PTest(ts, i)
    [] ctx = "sub" -> PSlice(ts, i)

PSlice(ts, i) ==
  LET lo == IF Is(ts, i, ":") THEN R(Absent, i) ELSE PTest(ts, i) IN
  IF lo.p = 0 THEN Bad
  ELSE IF ~Is(ts, lo.p, ":") THEN lo                                      \* a plain index
  ELSE LET j == lo.p + 1
           hi == IF IsIn(ts, j, {":", "]", ","}) THEN R(Absent, j) ELSE PTest(ts, j) IN
       IF hi.p = 0 THEN Bad
       ELSE IF Is(ts, hi.p, ":")
            THEN LET k == hi.p + 1
                     st == IF IsIn(ts, k, {"]", ","}) THEN R(Absent, k) ELSE PTest(ts, k) IN
                 IF st.p = 0 THEN Bad ELSE R(N("slice", <<>>, <<lo.n, hi.n, st.n>>), st.p)
            ELSE R(N("slice", <<>>, <<lo.n, hi.n, Absent>>), hi.p)

PTrail(ts, base, p) ==
  IF Is(ts, p, ".real") THEN PTrail(ts, N("attr", <<"real">>, <<base>>), p + 1)
  ELSE IF Is(ts, p, "[")
       THEN LET r == PItems(ts, p + 1, "]", "sub", <<>>, FALSE) IN
            IF r.p = 0 \/ r.xs = <<>> THEN Bad
            ELSE PTrail(ts, N("sub", <<>>, <<base, IF Len(r.xs) = 1 /\ ~r.tr THEN r.xs[1] ELSE N("tuple", <<>>, r.xs)>>), r.p)
  ELSE IF Is(ts, p, "(")
       THEN LET r == PItems(ts, p + 1, ")", "arg", <<>>, FALSE) IN
            IF r.p = 0 THEN Bad ELSE PTrail(ts, N("call", <<>>, <<base>> \o r.xs), r.p)
  ELSE R(base, p)

Parse(ts) == LET r == PTest(ts, 1) IN IF r.p = Len(ts) + 1 THEN r.n ELSE Err

---------------------------------------------------------------------------
(* reference printer: parentheses exactly where the operand position demands a higher level *)
RECURSIVE Pr(_, _), Body(_), Items(_, _), Item(_), CmpRest(_, _)
Paren(ts) == <<T("(")>> \o ts \o <<T(")")>>
Pr(e, m) == IF Lv(e) < m THEN Paren(Body(e)) ELSE Body(e)
\* xs[i..] printed as items, separated by commas
Items(xs, i) == IF i > Len(xs) THEN <<>>
                 ELSE Item(xs[i]) \o (IF i < Len(xs) THEN <<T(",")>> ELSE <<>>) \o Items(xs, i + 1)
CmpRest(e, i) == IF i > Len(e.v) THEN <<>> ELSE <<T(e.v[i])>> \o Pr(e.c[i + 1], 6) \o CmpRest(e, i + 1)
Item(x) == CASE x.k = "kv" -> Pr(x.c[1], 1) \o <<T(":")>> \o Pr(x.c[2], 1)
             [] x.k = "star" -> <<T("*")>> \o Pr(x.c[1], 1)
             [] x.k = "dstar" -> <<T("**")>> \o Pr(x.c[1], 1)
             [] x.k = "kw" -> <<T("a=")>> \o Pr(x.c[1], 1)
             [] x.k = "absent" -> <<>>
             [] OTHER -> Pr(x, 1)
SliceToks(s, f(_)) == f(s.c[1]) \o <<T(":")>> \o f(s.c[2]) \o (IF s.c[3].k = "absent" THEN <<>> ELSE <<T(":")>> \o f(s.c[3]))
Body(e) ==
  CASE e.k \in LeafKinds -> <<A(e)>>
    [] e.k = "un" -> <<T(e.v[1])>> \o Pr(e.c[1], IF e.v[1] = "not" THEN 4 ELSE 12)
    [] e.k = "bin" -> IF e.v[1] = "**" THEN Pr(e.c[1], 15) \o <<T("**")>> \o Pr(e.c[2], 12)
                      ELSE Pr(e.c[1], BinLv(e.v[1])) \o <<T(e.v[1])>> \o Pr(e.c[2], BinLv(e.v[1]) + 1)
    [] e.k = "bool" -> Pr(e.c[1], Lv(e)) \o <<T(e.v[1])>> \o Pr(e.c[2], Lv(e) + 1)
    [] e.k = "cmp" -> Pr(e.c[1], 6) \o CmpRest(e, 1)
    [] e.k = "cond" -> Pr(e.c[1], 2) \o <<T("if")>> \o Pr(e.c[2], 2) \o <<T("else")>> \o Pr(e.c[3], 1)
    [] e.k = "tuple" -> Paren(Items(e.c, 1) \o (IF Len(e.c) = 1 THEN <<T(",")>> ELSE <<>>))
    [] e.k = "list" -> <<T("[")>> \o Items(e.c, 1) \o <<T("]")>>
    [] e.k \in {"set", "dict"} -> <<T("{")>> \o Items(e.c, 1) \o <<T("}")>>
    [] e.k = "attr" -> (IF e.c[1].k = "num" THEN Paren(Body(e.c[1])) ELSE Pr(e.c[1], 15)) \o <<T(".real")>>
    [] e.k = "sub" -> Pr(e.c[1], 15) \o <<T("[")>>
                      \o (IF e.c[2].k = "slice" THEN SliceToks(e.c[2], Item) ELSE Pr(e.c[2], 1)) \o <<T("]")>>
    [] e.k = "call" -> Pr(e.c[1], 15) \o <<T("(")>> \o Items(Tail(e.c), 1) \o <<T(")")>>
RefText(e) == Pr(e, 1)

---------------------------------------------------------------------------
(* semantic normal form: `and` / `or` are associative (same values, same short-circuit), *)
(* `not (a in b)` is `a not in b` (the result of `in` / `is` is always a bool)             *)
NegOp(op) == CASE op = "in" -> "not in" [] op = "not in" -> "in" [] op = "is" -> "is not" [] op = "is not" -> "is"
RECURSIVE Norm(_), NormAll(_, _), Flat(_, _)
NormAll(xs, i) == IF i > Len(xs) THEN <<>> ELSE <<Norm(xs[i])>> \o NormAll(xs, i + 1)
\* operands of a (normalised) bool node e for operator op, flattened
Flat(e, op) == IF e.k = "bool" /\ e.v[1] = op THEN e.c ELSE <<e>>
Norm(e) ==
  LET cs == NormAll(e.c, 1) IN
  CASE e.k = "bool" -> N("bool", e.v, Flat(cs[1], e.v[1]) \o Flat(cs[2], e.v[1]))
    [] e.k = "un" /\ e.v[1] = "not" /\ cs[1].k = "cmp" /\ Len(cs[1].v) = 1 /\ cs[1].v[1] \in {"in", "not in", "is", "is not"}
         -> N("cmp", <<NegOp(cs[1].v[1])>>, cs[1].c)
    [] e.k = "opq" -> EllipsisLeaf                     \* not printable: the placeholder "..." is expected
    [] OTHER -> N(e.k, e.v, cs)

---------------------------------------------------------------------------
(* implementation-shaped printer: CodeWriter.ExpressionWriter *)
CyPrec(e) == CASE e.k = "bool" -> IF e.v[1] = "or" THEN 1 ELSE 2
               [] e.k = "un" -> IF e.v[1] = "not" THEN 3 ELSE 11
               [] e.k = "cmp" -> 4
               [] e.k = "bin" -> CASE e.v[1] = "|" -> 5 [] e.v[1] = "^" -> 6 [] e.v[1] = "&" -> 7 [] e.v[1] \in {"<<", ">>"} -> 8
                                   [] e.v[1] \in {"+", "-"} -> 9 [] e.v[1] \in {"*", "/", "//", "%", "@"} -> 10 [] e.v[1] = "**" -> 12
\* operator_enter / operator_exit
Enter(old, new, ts) == IF old > new THEN Paren(ts) ELSE ts
\* FlattenInListTransform (runs before EmbedSignature): x in (a, b) / x not in [a, b] with a non-empty display becomes an
\* EvalWithTempExprNode, which the writer does not know
IsMember(e) == e.k = "cmp" /\ Len(e.v) = 1 /\ e.v[1] \in {"in", "not in"} /\ e.c[2].k \in {"tuple", "list", "set"} /\ e.c[2].c # <<>>
FoldedNeg(e) == e.k = "un" /\ e.v[1] = "-" /\ e.c[1].k = "num"       \* ConstantFolding: a negative literal node
NotMember(e) == e.k = "un" /\ e.v[1] = "not" /\ e.c[1].k = "cmp" /\ Len(e.c[1].v) = 1
                /\ e.c[1].v[1] \in {"in", "not in", "is", "is not"}       \* ConstantFolding._handle_NotNode

\* ConstantFolding._handle_NotNode works bottom-up: the node the writer sees in place of a chain of `not`s
\* ("not not (a in b)" is "a in b")
RECURSIVE CFNot(_)
CFNot(e) == IF e.k = "un" /\ e.v[1] = "not"
            THEN LET c == CFNot(e.c[1]) IN
                 IF c.k = "cmp" /\ Len(c.v) = 1 /\ c.v[1] \in {"in", "not in", "is", "is not"}
                 THEN N("cmp", <<NegOp(c.v[1])>>, c.c) ELSE N("un", <<"not">>, <<c>>)
            ELSE e

\* The writer keeps a stack of precedences; pr is its top when the node is visited.  operator_enter(p) parenthesises when
\* pr > p and pushes p; visit_operand(x, q) pushes q around the visit of x; self.visit(x) alone leaves the stack as it is
\* (items of displays, subscripts, slice bounds, call arguments inherit pr).
\* Cython's parser builds `and` / `or` chains right-nested (p_rassoc_binop_expr): the source "a and b and c" -- the
\* reference text of (a and b) and c -- is the tree a and (b and c) when the writer sees it.  Spine: the operands of
\* the unparenthesised chain (a right operand that is itself a chain was parenthesised in the source: one operand).
RECURSIVE Spine(_, _)
Spine(e, op) == IF e.k = "bool" /\ e.v[1] = op THEN Spine(e.c[1], op) \o <<e.c[2]>> ELSE <<e>>
RECURSIVE PI(_, _), PIItems(_, _, _), PICmpRest(_, _), PIBool(_, _, _, _)
PIItem(x, pr) == CASE x.k = "kv" -> PI(x.c[1], pr) \o <<T(":")>> \o PI(x.c[2], pr)
                   [] x.k = "star" -> <<T("*")>> \o PI(x.c[1], pr)
                   [] x.k = "dstar" -> <<T("**")>> \o PI(x.c[1], pr)
                   [] x.k = "kw" -> <<T("a=")>> \o PI(x.c[1], pr)
                   [] x.k = "absent" -> <<>>
                   [] OTHER -> PI(x, pr)
\* comma_separated_list: no trailing comma, whatever the length
PIItems(xs, i, pr) == IF i > Len(xs) THEN <<>>
                      ELSE PIItem(xs[i], pr) \o (IF i < Len(xs) THEN <<T(",")>> ELSE <<>>) \o PIItems(xs, i + 1, pr)
\* emit_sequence: comma_separated_list + "," after the single item of a TupleNode
PISeq1(xs, pr) == PIItems(xs, 1, pr) \o (IF Len(xs) = 1 THEN <<T(",")>> ELSE <<>>)
\* visit_PrimaryCmpNode follows node.cascade: every operator, every operand with prec + 1 = 5
PICmpRest(e, i) == IF i > Len(e.v) THEN <<>> ELSE <<T(e.v[i])>> \o PI(e.c[i + 1], 5) \o PICmpRest(e, i + 1)
\* the right-nested chain xs[i] op (xs[i+1] op (...)): every right operand is visited with prec + 1, so the writer
\* parenthesises the tail of a chain of three or more ("a and (b and c)": same value, same short-circuit order)
PIBool(xs, i, op, pr) == LET p == IF op = "or" THEN 1 ELSE 2 IN
                         IF i = Len(xs) THEN PI(xs[i], pr)
                         ELSE Enter(pr, p, PI(xs[i], p) \o <<T(op)>> \o PIBool(xs, i + 1, op, p + 1))
IntLit(x) == x.k = "num" /\ x.v[1] \in IntLits
IntNodeObj(x) == IntLit(x) \/ (FoldedNeg(x) /\ IntLit(x.c[1]))          \* isinstance(node.obj, IntNode), value "1" or "-1"
PI(e, pr) ==
  CASE e.k \in {"name", "num", "atom"} -> <<A(e)>>
    [] e.k = "opq" -> <<A(EllipsisLeaf)>>                               \* visit_Node with allow_unknown_nodes
    \* emit_number: a literal whose text starts with "-" is written under operator_enter(unop_precedence["-"])
    [] e.k = "un" -> IF FoldedNeg(e) THEN Enter(pr, 11, <<T("-"), A(e.c[1])>>)
                     ELSE IF e.v[1] = "not"
                          THEN LET f == CFNot(e) IN
                               IF f.k = "cmp" THEN PI(f, pr) ELSE Enter(pr, 3, <<T("not")>> \o PI(f.c[1], 3))
                     ELSE Enter(pr, CyPrec(e), <<T(e.v[1])>> \o PI(e.c[1], CyPrec(e)))
    \* visit_BinopNode (= visit_BoolBinopNode): the operand on the non-associative side is visited with prec + 1
    [] e.k = "bin" -> LET p == CyPrec(e)
                          r == e.v[1] = "**"
                      IN Enter(pr, p, PI(e.c[1], IF r THEN p + 1 ELSE p) \o <<T(e.v[1])>> \o PI(e.c[2], IF r THEN p ELSE p + 1))
    [] e.k = "bool" -> PIBool(Spine(e, e.v[1]), 1, e.v[1], pr)
    [] e.k = "cmp" -> IF IsMember(e) THEN <<A(EllipsisLeaf)>>                \* visit_Node with allow_unknown_nodes
                      ELSE Enter(pr, 4, PI(e.c[1], 5) \o PICmpRest(e, 1))
    \* visit_CondExprNode: operator_enter(0); true_val and condition with the precedence of `or`, false_val under the 0
    [] e.k = "cond" -> Enter(pr, 0, PI(e.c[1], 1) \o <<T("if")>> \o PI(e.c[2], 1) \o <<T("else")>> \o PI(e.c[3], 0))
    [] e.k = "tuple" -> Paren(PISeq1(e.c, pr))
    [] e.k = "list" -> <<T("[")>> \o PIItems(e.c, 1, pr) \o <<T("]")>>
    [] e.k \in {"set", "dict"} -> <<T("{")>> \o PIItems(e.c, 1, pr) \o <<T("}")>>
    \* visit_AttributeNode: "(" visit_operand(obj, 0) ")" for an IntNode, visit_primary = visit_operand(obj, 12 + 1) otherwise
    [] e.k = "attr" -> (IF IntNodeObj(e.c[1]) THEN Paren(PI(e.c[1], 0)) ELSE PI(e.c[1], 13)) \o <<T(".real")>>
    \* visit_IndexNode / visit_SliceIndexNode / visit_SliceNode: visit_primary(base); the precedence is popped before "["
    [] e.k = "sub" -> PI(e.c[1], 13) \o <<T("[")>>
                      \o (IF e.c[2].k = "slice" THEN SliceToks(e.c[2], LAMBDA x : PIItem(x, pr))
                          ELSE IF e.c[2].k = "tuple" THEN (IF e.c[2].c = <<>> THEN <<T("("), T(")")>> ELSE PISeq1(e.c[2].c, pr))
                          ELSE PI(e.c[2], pr))
                      \o <<T("]")>>
    \* visit_SimpleCallNode / visit_GeneralCallNode: visit_primary(function); arguments inherit pr
    [] e.k = "call" -> PI(e.c[1], 13) \o <<T("(")>> \o PIItems(Tail(e.c), 1, pr) \o <<T(")")>>
ImplText(e) == PI(e, 0)

\* "1.real" is one float token followed by a name for the tokenizer: such a text is not a token sequence.  LexNode: the tree
\* shape that needs the parentheses; LexText: a text that lacks them (the repaired visit_AttributeNode never emits one)
LexNode(g) == g.k = "attr" /\ g.c[1].k = "num" /\ g.c[1].v[1] \in DecInts
LexText(ts) == \E i \in 1..Len(ts) - 1 : /\ ts[i].t = "a" /\ ts[i].n.k = "num" /\ ts[i].n.v[1] \in DecInts
                                         /\ Is(ts, i + 1, ".real")

---------------------------------------------------------------------------
(* what ConstantFolding may rewrite before the writer runs (beyond the two forms modelled above):  *)
(* the implementation-shaped model makes no prediction for these trees; they are replayed and      *)
(* compared by value all the same                                                                   *)
RECURSIVE Closed(_), ClosedAll(_, _)
ClosedAll(xs, i) == IF i > Len(xs) THEN TRUE ELSE Closed(xs[i]) /\ ClosedAll(xs, i + 1)
Closed(e) == e.k \notin {"name", "opq"} /\ ClosedAll(e.c, 1)
FoldNode(g) == CASE g.k = "un" -> Closed(g.c[1]) /\ ~FoldedNeg(g)
                 [] g.k = "bin" -> Closed(g.c[1]) /\ Closed(g.c[2])
                 [] g.k = "bool" -> LET sp == Spine(g, g.v[1]) IN \E i \in 1..Len(sp) - 1 : Closed(sp[i])   \* (right-nested chain)
                 [] g.k = "cond" -> Closed(g.c[2])
                 [] g.k = "cmp" -> \E i \in 1..Len(g.v) : Closed(g.c[i]) /\ Closed(g.c[i + 1])
                 [] g.k = "sub" -> Closed(g.c[1]) /\ g.c[2].k = "slice"        \* constant slicing of a literal sequence
                 [] OTHER -> FALSE

---------------------------------------------------------------------------
(* Classes of constructs where parentheses, a comma or a whole sub-tree are at stake (Tags), and the root-cause      *)
(* catalogue of the implementation-shaped printer (Causes).  Before the repairs KF-C25-1..6 every class was a root   *)
(* cause (the writer dropped the comma of a one-element tuple, the tail of a comparison chain, the parentheses of     *)
(* same-precedence operands, of conditional expressions, of primary bases and of negative bases of a power);         *)
(* the repaired writer prints all of them faithfully -- TLC decides it (Catalogue: a hazard implies a cause) -- and    *)
(* only "inlist" (KF-C25-10, FlattenInListTransform runs before EmbedSignature) is left.  The classes stay: they     *)
(* are the strata of the replay sample and the vacuity guard demands a published tree of every class alone.           *)
IsOperator(g) == g.k \in OperatorKinds
CmpLike(x) == x.k = "cmp" \/ NotMember(x)      \* `not (a in b)` is the comparison `a not in b` when the writer sees it
SamePrecTight(g) ==      \* an operand with the operator's own precedence on the side where Python needs parentheses
  \/ g.k = "bin" /\ g.v[1] # "**" /\ g.c[2].k = "bin" /\ CyPrec(g.c[2]) = CyPrec(g)
  \/ g.k = "bin" /\ g.v[1] = "**" /\ g.c[1].k = "bin" /\ g.c[1].v[1] = "**"
  \/ g.k = "cmp" /\ \E i \in 1..2 : CmpLike(g.c[i])
  \/ g.k = "un" /\ NotMember(g) /\ \E i \in 1..2 : CmpLike(g.c[1].c[i])
CondOperand(g) ==        \* a conditional expression where Python needs it parenthesised
  \/ g.k \in {"un", "bin", "bool", "cmp"} /\ \E i \in 1..Len(g.c) : g.c[i].k = "cond"
  \/ g.k = "un" /\ g.c[1].k = "cmp" /\ \E i \in 1..Len(g.c[1].c) : g.c[1].c[i].k = "cond"
  \/ g.k = "cond" /\ (g.c[1].k = "cond" \/ g.c[2].k = "cond")
PrimaryBase(g) ==        \* attribute / subscript / call on an operator expression or a numeric literal
  g.k \in {"attr", "sub", "call"} /\ (IsOperator(g.c[1]) \/ LexNode(g))
\* (second disjuncts: what ConstantFolding may turn into the catalogued shape; such trees are Foldish, the model makes no
\*  prediction for them, the tag only names the root cause)
NegPow(g) == g.k = "bin" /\ g.v[1] = "**" /\ (FoldedNeg(g.c[1]) \/ (g.c[1].k \in {"un", "bin", "bool", "cond"} /\ Closed(g.c[1])))
Tuple1(g) == g.k = "tuple" /\ Len(g.c) = 1
Chain(g) == g.k = "cmp" /\ Len(g.v) > 1
RECURSIVE DispLike(_)
DispLike(x) == \/ x.k \in {"tuple", "list", "set"} /\ x.c # <<>>
               \/ x.k = "bool" /\ (DispLike(x.c[1]) \/ DispLike(x.c[2]))
               \/ x.k = "cond" /\ (DispLike(x.c[1]) \/ DispLike(x.c[3]))
MemberF(g) == g.k = "cmp" /\ Len(g.v) = 1 /\ g.v[1] \in {"in", "not in"} /\ g.c[2].k \in {"bool", "cond"}
              /\ DispLike(g.c[2]) /\ FoldNode(g.c[2])
InList(g) == IsMember(g) \/ (NotMember(g) /\ IsMember(g.c[1])) \/ MemberF(g) \/ (NotMember(g) /\ MemberF(g.c[1]))
\* does some node of e satisfy the predicate named t ?
Pred(g, t) == CASE t = "tuple1" -> Tuple1(g) [] t = "chain" -> Chain(g) [] t = "assoc" -> SamePrecTight(g)
                [] t = "cond" -> CondOperand(g) [] t = "primary" -> PrimaryBase(g) [] t = "negpow" -> NegPow(g) [] t = "inlist" -> InList(g)
                [] t = "fold" -> FoldNode(g)
RECURSIVE AnyT(_, _)
AnyT(e, t) == Pred(e, t) \/ \E i \in 1..Len(e.c) : AnyT(e.c[i], t)
Tags(e) == {t \in {"tuple1", "chain", "assoc", "cond", "primary", "negpow", "inlist"} : AnyT(e, t)}
Causes == {"inlist"}
Foldish(e) == AnyT(e, "fold")
Hazard(e) == LexText(ImplText(e)) \/ Norm(Parse(ImplText(e))) # Norm(e)

---------------------------------------------------------------------------
(* parameter lists and nesting paths *)
KindRank(k) == CASE k = "po" -> 1 [] k = "pk" -> 2 [] k = "va" -> 3 [] k = "ko" -> 4 [] k = "vk" -> 5
Param(k, d) == [kind |-> k, dflt |-> d]
\* Python's rules, stated declaratively
ValidParams(ps) ==
  /\ \A i \in 1..Len(ps) - 1 : KindRank(ps[i].kind) <= KindRank(ps[i + 1].kind)
  /\ Cardinality({i \in 1..Len(ps) : ps[i].kind = "va"}) <= 1
  /\ Cardinality({i \in 1..Len(ps) : ps[i].kind = "vk"}) <= 1
  /\ \A i \in 1..Len(ps) : ps[i].kind \in {"va", "vk"} => ~ps[i].dflt
  /\ \A i, j \in 1..Len(ps) : (i < j /\ ps[i].kind \in {"po", "pk"} /\ ps[j].kind \in {"po", "pk"} /\ ps[i].dflt) => ps[j].dflt

\* a path is the sequence of enclosing scopes of the function, outermost first
PathOK(p) == /\ \A i \in 1..Len(p) : p[i] \in {"fn", "cls", "ccls"}
             /\ \A i \in 1..Len(p) : p[i] = "ccls" => i = 1                     \* cdef classes live at module level
             /\ \A i \in 2..Len(p) : p[i - 1] = "ccls" => p[i] = "fn"           \* ... and contain functions only
ScopeName(p, i) == IF p[i] = "fn" THEN "f" \o ToString(i) ELSE "C" \o ToString(i)
RECURSIVE QualSegs(_, _)
QualSegs(p, i) == IF i > Len(p) THEN <<"m">>
                  ELSE <<ScopeName(p, i)>> \o (IF p[i] = "fn" THEN <<"<locals>">> ELSE <<>>) \o QualSegs(p, i + 1)
QualName(p) == QualSegs(p, 1)
LeafOK(p, lf) == lf \in {"static", "classm"} => (Len(p) > 0 /\ p[Len(p)] \in {"cls", "ccls"})

---------------------------------------------------------------------------
H == Len(stack)
Top(i) == stack[H - i]
Pop(k) == SubSeq(stack, 1, H - k)
IsExpr == mode \in {"expr", "lit"}
IsLit == mode = "lit"
MaxT == IF IsLit THEN LitTok ELSE MaxTok
MaxO == IF IsLit THEN LitTok - 1 ELSE MaxOps
CtorSet == IF IsLit THEN LitCtors ELSE Ctors
Half(n) == (n + 1) \div 2
\* one more operator node fits (and the remaining stack can still be reduced to one tree)
Room(arity) == /\ IsExpr /\ H >= arity /\ nops < MaxO /\ ntok < MaxT
               /\ nops + 1 + Half(H - arity) <= MaxO /\ ntok + 1 + Half(H - arity) <= MaxT
Keep == UNCHANGED <<mode, params, path, leaf>>
Reduce(arity, node) == /\ stack' = Append(Pop(arity), node) /\ nops' = nops + 1 /\ ntok' = ntok + 1 /\ Keep

BoolTyped(e) == e.k = "cmp" \/ (e.k = "un" /\ e.v[1] = "not")
\* Left out of the family (by-catch of other properties, see notes): a tuple display of C-typed values (literals, comparisons)
\* is a "ctuple" for the compiler; its truth test is mis-compiled (wrong constant / C that does not compile), and `is` between
\* C-typed operands compares values
RECURSIVE CTyped(_)
CTyped(e) == \/ e.k = "num" \/ BoolTyped(e)
             \/ e.k = "opq" /\ e.v[1] = "walrus"                    \* (W := 1) has the C type of the literal
             \/ e.k = "un" /\ CTyped(e.c[1])
             \/ e.k \in {"bin", "bool"} /\ CTyped(e.c[1]) /\ CTyped(e.c[2])
             \/ e.k = "cond" /\ CTyped(e.c[1]) /\ CTyped(e.c[3])
CTuple(e) == e.k = "tuple" /\ e.c # <<>> /\ \A i \in 1..Len(e.c) : CTyped(e.c[i])
\* operands that cannot raise when the definition is evaluated (names are symbolic objects that absorb every operator)
Opnd(e) == e.k \notin {"atom", "opq", "tuple", "list", "set", "dict"}
Base(e) == Opnd(e) /\ e.k # "num" /\ ~FoldedNeg(e)

Init == /\ mode \in Modes /\ stack = <<>> /\ nops = 0 /\ ntok = 0 /\ params = <<>> /\ path = <<>> /\ leaf = "def"

LeafPool == IF IsLit THEN ({"name"} \X LvNames1) \cup ({"num"} \X LvLits) \cup ({"atom"} \X LvAtomsAll) \cup ({"opq"} \X LvOpqs)
            ELSE ({"name"} \X Names) \cup ({"num"} \X Nums) \cup ({"atom"} \X Atoms) \cup ({"opq"} \X Opqs)
Push == /\ IsExpr /\ H < (IF IsLit THEN 1 ELSE 3) /\ ntok + 1 + Half(H) <= MaxT /\ (H > 0 => nops + Half(H) <= MaxO)
        /\ \E l \in LeafPool :
             stack' = Append(stack, Lf(l[1], l[2]))
        /\ ntok' = ntok + 1 /\ UNCHANGED <<mode, nops, params, path, leaf>>

Unary == /\ Room(1)
         /\ \E op \in UnOps : /\ (op # "not" => Opnd(Top(0))) /\ (op = "not" => ~CTuple(Top(0)))
                              /\ Reduce(1, N("un", <<op>>, <<Top(0)>>))
\* (`1 ** (a in b)`: ** on a C-typed bool operand follows the documented C typing of cpow=False (a double): left out;
\*  a tuple display as a branch of a conditional expression next to an int literal is rejected by the compiler: by-catch)
Binary == /\ Room(2)
          /\ \E op \in BinOps : /\ Opnd(Top(1)) /\ Opnd(Top(0))
                                /\ (op = "**" => ~BoolTyped(Top(1)) /\ ~BoolTyped(Top(0)))
                                /\ Reduce(2, N("bin", <<op>>, <<Top(1), Top(0)>>))
Boolean == /\ Room(2) /\ ~CTuple(Top(1)) /\ ~CTuple(Top(0))
           /\ \E op \in BoolOps : Reduce(2, N("bool", <<op>>, <<Top(1), Top(0)>>))
Compare == /\ Room(2)
           /\ \E op \in CmpOps : /\ (op \in {"is", "is not"} => ~CTyped(Top(1)) /\ ~CTyped(Top(0)))
                                /\ Reduce(2, N("cmp", <<op>>, <<Top(1), Top(0)>>))
\* (a chain with two adjacent constant operands is rewritten by ConstantFolding into a different, not always
\*  value-equal expression ("K < 1 == 1" becomes "K < 1"): a matter of constant folding, not of signatures -- left out
\*  of the family, also when an operand only becomes a constant by folding ("K < (1 or K) == 1", "(1 if 1 else K) < 1 < K");
\*  MayConst over-approximates "folds to a constant")
RECURSIVE MayConst(_)
MayConst(x) == \/ Closed(x)
               \/ x.k \in {"un", "attr"} /\ MayConst(x.c[1])
               \/ x.k = "bin" /\ MayConst(x.c[1]) /\ MayConst(x.c[2])
               \/ x.k = "bool" /\ MayConst(x.c[1])
               \/ x.k = "cond" /\ MayConst(x.c[2]) /\ (MayConst(x.c[1]) \/ MayConst(x.c[3]))
               \/ x.k = "cmp" /\ \A i \in 1..Len(x.c) : MayConst(x.c[i])
ChainCmp == /\ Room(3) /\ ~(MayConst(Top(2)) /\ MayConst(Top(1))) /\ ~(MayConst(Top(1)) /\ MayConst(Top(0)))
            /\ \E o1 \in ChainOps, o2 \in ChainOps : Reduce(3, N("cmp", <<o1, o2>>, <<Top(2), Top(1), Top(0)>>))
Cond == /\ Room(3) /\ "cond" \in CtorSet /\ Top(2).k # "tuple" /\ Top(0).k # "tuple" /\ ~CTuple(Top(1))
        /\ Reduce(3, N("cond", <<>>, <<Top(2), Top(1), Top(0)>>))
Display == \E ct \in CtorSet \cap DispCtors :
             CASE ct = "tuple1" -> Room(1) /\ Reduce(1, N("tuple", <<>>, <<Top(0)>>))
               [] ct = "list1"  -> Room(1) /\ Reduce(1, N("list", <<>>, <<Top(0)>>))
               [] ct = "set1"   -> Room(1) /\ Top(0).k \in {"name", "num", "atom", "tuple"} /\ Reduce(1, N("set", <<>>, <<Top(0)>>))
               [] ct = "tuple2" -> Room(2) /\ Reduce(2, N("tuple", <<>>, <<Top(1), Top(0)>>))
               [] ct = "dict1"  -> Room(2) /\ Top(1).k \in {"name", "num", "atom", "tuple"}
                                   /\ Reduce(2, N("dict", <<>>, <<N("kv", <<>>, <<Top(1), Top(0)>>)>>))
\* (a tuple display of integer literals as a slice bound makes the compiler emit C that does not compile:
\*  by-catch, reported in the notes, not a matter of signatures)
\*  and a constant float bound (1 / 1) is truncated to a C integer: by-catch too)
Bound(e) == e.k # "tuple" /\ ~(e.k = "bin" /\ CTyped(e))
Sl(lo, hi, st) == N("slice", <<>>, <<lo, hi, st>>)
Primary == \E ct \in CtorSet \ (DispCtors \cup {"cond"}) :
             CASE ct = "attr"    -> Room(1) /\ (Base(Top(0)) \/ Top(0).k = "num" \/ FoldedNeg(Top(0)))
                                    /\ Reduce(1, N("attr", <<"real">>, <<Top(0)>>))
               [] ct = "idx"     -> Room(2) /\ Base(Top(1)) /\ Reduce(2, N("sub", <<>>, <<Top(1), Top(0)>>))
               [] ct = "sl_lo"   -> Room(2) /\ Base(Top(1)) /\ Bound(Top(0)) /\ Reduce(2, N("sub", <<>>, <<Top(1), Sl(Top(0), Absent, Absent)>>))
               [] ct = "sl_hi"   -> Room(2) /\ Base(Top(1)) /\ Bound(Top(0)) /\ Reduce(2, N("sub", <<>>, <<Top(1), Sl(Absent, Top(0), Absent)>>))
               [] ct = "sl_st"   -> Room(2) /\ Base(Top(1)) /\ Reduce(2, N("sub", <<>>, <<Top(1), Sl(Absent, Absent, Top(0))>>))
               [] ct = "sl_all"  -> Room(1) /\ Base(Top(0)) /\ Reduce(1, N("sub", <<>>, <<Top(0), Sl(Absent, Absent, Absent)>>))
               [] ct = "sl_lohi" -> Room(3) /\ Base(Top(2)) /\ Bound(Top(1)) /\ Bound(Top(0)) /\ Reduce(3, N("sub", <<>>, <<Top(2), Sl(Top(1), Top(0), Absent)>>))
               [] ct = "call0"   -> Room(1) /\ Base(Top(0)) /\ Reduce(1, N("call", <<>>, <<Top(0)>>))
               [] ct = "call1"   -> Room(2) /\ Base(Top(1)) /\ Reduce(2, N("call", <<>>, <<Top(1), Top(0)>>))
               [] ct = "call2"   -> Room(3) /\ Base(Top(2)) /\ Reduce(3, N("call", <<>>, <<Top(2), Top(1), Top(0)>>))
               [] ct = "callstar"  -> Room(2) /\ Base(Top(1)) /\ Top(0).k = "name"
                                      /\ Reduce(2, N("call", <<>>, <<Top(1), N("star", <<>>, <<Top(0)>>)>>))
               [] ct = "calldstar" -> Room(2) /\ Base(Top(1)) /\ Top(0).k = "name"
                                      /\ Reduce(2, N("call", <<>>, <<Top(1), N("dstar", <<>>, <<Top(0)>>)>>))
               [] ct = "callkw"  -> Room(2) /\ Base(Top(1)) /\ Reduce(2, N("call", <<>>, <<Top(1), N("kw", <<"a">>, <<Top(0)>>)>>))

IsSig == mode = "sig"
KeepE == UNCHANGED <<mode, stack, nops, ntok>>
AddParam == /\ IsSig /\ Len(params) < MaxParams
            /\ \E k \in {"po", "pk", "va", "ko", "vk"}, d \in BOOLEAN :
                 /\ ValidParams(Append(params, Param(k, d)))
                 /\ params' = Append(params, Param(k, d))
            /\ UNCHANGED <<path, leaf>> /\ KeepE
Nest == /\ IsSig /\ params = <<>> /\ leaf = "def" /\ Len(path) < MaxNest
        /\ \E s \in {"fn", "cls", "ccls"} : PathOK(Append(path, s)) /\ path' = Append(path, s)
        /\ UNCHANGED <<params, leaf>> /\ KeepE
LeafKind == /\ IsSig /\ params = <<>> /\ leaf = "def"
            /\ \E lf \in {"static", "classm"} : LeafOK(path, lf) /\ leaf' = lf
            /\ UNCHANGED <<params, path>> /\ KeepE

Next == Push \/ Unary \/ Binary \/ Boolean \/ Compare \/ ChainCmp \/ Cond \/ Display \/ Primary
        \/ AddParam \/ Nest \/ LeafKind
Spec == Init /\ [][Next]_vars

---------------------------------------------------------------------------
ExprCase == IsExpr /\ H = 1
E == stack[1]

TypeOK == /\ mode \in {"expr", "lit", "sig"} /\ H <= 3 /\ nops <= MaxO /\ ntok <= MaxT
          /\ ntok = SumSizes(stack, 1)
          /\ ValidParams(params) /\ PathOK(path) /\ LeafOK(path, leaf)

(* All statements about one expression case, evaluated once per state:                               *)
(*  RoundTrip     the reference printer never drops needed parentheses: its text parses back to e    *)
(*  ImplParses    the parser is total on whatever the implementation-shaped printer emits            *)
(*  Catalogue     every tree the implementation-shaped printer gets wrong contains a catalogued      *)
(*                root cause (Causes); in particular the six repaired classes print faithfully       *)
(*  AlwaysStrikes the root causes always strike (no other construct masks them)                      *)
Verdict(e) == LET ref  == RefText(e)
                  im   == ImplText(e)
                  back == Parse(im)
                  fold == Foldish(e)
                  hz   == LexText(im) \/ Norm(back) # Norm(e)
                  tags == Tags(e)
              IN [ref |-> ref, im |-> im, fold |-> fold, hz |-> hz, tags |-> tags,
                  roundtrip |-> Parse(ref) = e,
                  implparses |-> back.k # "nil",
                  catalogue |-> (~fold /\ hz) => tags \cap Causes # {},
                  strikes |-> (~fold /\ tags \cap Causes # {}) => hz]
SetToSortedSeq(S) == LET order == <<"assoc", "chain", "cond", "inlist", "negpow", "primary", "tuple1">> IN
                     SelectSeq(order, LAMBDA t : t \in S)
ExprOK == ExprCase =>
            LET v == Verdict(E) IN
            /\ v.roundtrip /\ v.implparses /\ v.catalogue /\ v.strikes
            /\ Dump => PrintT("@@" \o ToJson([mode |-> mode, ast |-> E, ref |-> Texts(v.ref), impl |-> Texts(v.im),
                                              hazard |-> (~v.fold /\ v.hz), foldish |-> v.fold,
                                              tags |-> SetToSortedSeq(v.tags), nops |-> nops]))
\* the same statements one by one (for diagnosis)
RoundTrip == ExprCase => Parse(RefText(E)) = E
ImplParses == ExprCase => Parse(ImplText(E)).k # "nil"
Catalogue == (ExprCase /\ ~Foldish(E) /\ Hazard(E)) => Tags(E) \cap Causes # {}
AlwaysStrikes == (ExprCase /\ ~Foldish(E) /\ Tags(E) \cap Causes # {}) => Hazard(E)

(* qualified names: one "<locals>" per enclosing function, the function's own name last *)
QualOK == IsSig => LET q == QualName(path) IN
                   /\ q[Len(q)] = "m"
                   /\ Len(q) = Len(path) + 1 + Cardinality({i \in 1..Len(path) : path[i] = "fn"})
                   /\ \A i \in 1..Len(q) - 1 : (q[i] = "<locals>") => (i > 1 /\ q[i - 1] # "<locals>")

SigOK == IsSig => /\ QualOK
                  /\ Dump => PrintT("@@" \o ToJson([mode |-> "sig", params |-> params, path |-> path, leaf |-> leaf,
                                                    qualname |-> QualName(path)]))
=============================================================================
