SPECIFICATION Spec
CONSTANTS
  Pairs <- PairsTiny
  AllPython = FALSE
  Dump = FALSE
INVARIANT RefShape
CHECK_DEADLOCK FALSE
