----------------------------- MODULE Directives -----------------------------
(* C41, part 1: compiler directives apply exactly within their scope.        *)
(*                                                                           *)
(* A case is a *scope tree* plus the module-wide sources:                    *)
(*   node 0 = the module; nodes 1..n in preorder, each [kind, par, ov]:      *)
(*     def / cfn (cdef function) / cclass / pyclass : overrides = decorators *)
(*     with                                         : `with cython.d(v):`    *)
(*     lam / gen / comp (lambda, generator expression, list comprehension)   *)
(*                       : leaves whose body is code enclosed by the parent  *)
(*   hdr  = `# cython: d=v` header comment (hpos: top / after another        *)
(*          comment / late = after the first statement, where it is no       *)
(*          header any more), opt = directive passed to the compiler         *)
(*          (CompilationOptions / cythonize(compiler_directives=) / -X).     *)
(* Every node carries the *list* of its directive decorators / with-items    *)
(* in source order (st).  The same directive may occur more than once:       *)
(*   decorators : the first (outermost) decorator of a directive wins        *)
(*                ("Decorators coming first take precedence"), for the       *)
(*                decorated object itself and for everything it contains;    *)
(*   with-items : `with cython.d(u), cython.d(v):` reads like the nested     *)
(*                form, so the last item (the nearest enclosing one) wins.   *)
(* ov = the winning value per directive (derived from st).                   *)
(* Two abstract inheritable boolean directives, p (default FALSE) and q      *)
(* (default TRUE); the binding maps them to real directives with the same    *)
(* default (cdivision, nonecheck, overflowcheck / boundscheck, wraparound,   *)
(* binding, initializedcheck).                                               *)
(*                                                                           *)
(* Reference   : EffSet(i, d) = the value of the nearest enclosing override, *)
(*               else header, else option, else default (as a *set* of       *)
(*               candidate values: the property needs it to be a singleton). *)
(* Impl-shaped : Dict(i) = dictionary propagation of                         *)
(*               InterpretCompilerDirectives (module dict = defaults updated *)
(*               by options updated by header; child dict = copy of the      *)
(*               parent's updated by the node's own directives), with the    *)
(*               decorator list processed as _extract_directives does it:    *)
(*               scanned innermost first against a running dictionary (a     *)
(*               decorator that does not change the running value is         *)
(*               dropped), the kept ones merged so that later = outer ones   *)
(*               override, giving the directives of the object (OwnDict) and *)
(*               of its contents (Dict); visit_with_directives skips the     *)
(*               wrapping when the object's dictionary equals the enclosing  *)
(*               one.                                                        *)
(* Hazard predictor (not a demand): bodies of lam/gen are emitted, and those *)
(* of comp analysed, with the directives of the *owner* scope (nearest       *)
(* enclosing function or module) -- `deferred` marks the nodes where that    *)
(* differs from the demand, so that the binding can describe what it sees.   *)
(*                                                                           *)
(* TLC: every reachable state is one case (trees grow node by node along the *)
(* rightmost path, so every ordered tree is generated exactly once); the     *)
(* state is published with the demanded value of every directive at every    *)
(* node.                                                                     *)
EXTENDS Integers, Sequences, FiniteSets, TLC, Json

CONSTANTS MaxNodes,   \* nodes below the module
          MaxDepth,   \* depth below the module
          OvMode,     \* "all": every override combination; "small": 5 of the 9; "min": 3
          SrcMode,    \* "none" | "some" | "few" | "full": header/option combinations
          MaxStack,   \* 0: every node carries the canonical list of its override (p, then q);
                      \* n > 0: up to StackNodes nodes of a tree carry any list of <= n
                      \* decorators (<= min(n, 2) with-items), repetitions included
          StackNodes,
          Shape,      \* "any": all ordered trees; "chain": every node is a child of the previous one
          Dump

Dirs == {"p", "q"}
Default == [p |-> FALSE, q |-> TRUE]
Ov == {"-", "T", "F"}
B(x) == x = "T"
NoOv == [p |-> "-", q |-> "-"]
OvAll == [Dirs -> Ov]
OvSmall == {NoOv, [p |-> "T", q |-> "-"], [p |-> "F", q |-> "-"], [p |-> "-", q |-> "F"], [p |-> "T", q |-> "T"]}
OvMin == {NoOv, [p |-> "T", q |-> "-"], [p |-> "-", q |-> "F"]}
OvSet == IF OvMode = "all" THEN OvAll ELSE IF OvMode = "min" THEN OvMin ELSE OvSmall

\* decorator lists / with-item lists
Items == [d : Dirs, v : {"T", "F"}]
SeqsUpTo(n) == UNION {[1..k -> Items] : k \in 0..n}
Canon(ov) == (IF ov["p"] # "-" THEN <<[d |-> "p", v |-> ov["p"]]>> ELSE <<>>) \o
             (IF ov["q"] # "-" THEN <<[d |-> "q", v |-> ov["q"]]>> ELSE <<>>)
Occ(st, d) == {k \in 1..Len(st) : st[k].d = d}
MinOf(S) == CHOOSE x \in S : \A y \in S : x <= y
MaxOf(S) == CHOOSE x \in S : \A y \in S : x >= y
\* reference: which occurrence of a repeated directive counts
WinIdx(kind, st, d) == IF kind = "with" THEN MaxOf(Occ(st, d)) ELSE MinOf(Occ(st, d))
OvOf(kind, st) == [d \in Dirs |-> IF Occ(st, d) = {} THEN "-" ELSE st[WinIdx(kind, st, d)].v]

Kinds == {"def", "cfn", "cclass", "pyclass", "with", "lam", "gen", "comp"}
Leaves == {"lam", "gen", "comp"}

SrcFew == { [hdr |-> NoOv, opt |-> NoOv, hpos |-> "top"],
            [hdr |-> NoOv, opt |-> [p |-> "T", q |-> "F"], hpos |-> "top"],
            [hdr |-> [p |-> "T", q |-> "F"], opt |-> NoOv, hpos |-> "after_comment"],
            [hdr |-> [p |-> "F", q |-> "T"], opt |-> [p |-> "T", q |-> "F"], hpos |-> "top"],
            [hdr |-> [p |-> "T", q |-> "-"], opt |-> [p |-> "-", q |-> "F"], hpos |-> "top"],
            [hdr |-> [p |-> "T", q |-> "F"], opt |-> NoOv, hpos |-> "late"] }
SrcSome == { [hdr |-> NoOv, opt |-> NoOv, hpos |-> "top"],
             [hdr |-> NoOv, opt |-> [p |-> "T", q |-> "F"], hpos |-> "top"],
             [hdr |-> [p |-> "T", q |-> "F"], opt |-> [p |-> "F", q |-> "-"], hpos |-> "top"] }
SrcFull == {s \in [hdr : OvAll, opt : OvAll, hpos : {"top", "after_comment", "late"}] :
              s.hdr = NoOv => s.hpos = "top"}
SrcSet == IF SrcMode = "full" THEN SrcFull
          ELSE IF SrcMode = "few" THEN SrcFew
          ELSE IF SrcMode = "some" THEN SrcSome
          ELSE {[hdr |-> NoOv, opt |-> NoOv, hpos |-> "top"]}

VARIABLES nodes, src
vars == <<nodes, src>>

N(ns) == Len(ns)
KindOf(ns, i) == IF i = 0 THEN "mod" ELSE ns[i].kind
ParOf(ns, i) == ns[i].par

RECURSIVE DepthOf(_, _), AncSelf(_, _), Base(_, _)
DepthOf(ns, i) == IF i = 0 THEN 0 ELSE 1 + DepthOf(ns, ParOf(ns, i))
\* the node and its ancestors below the module
AncSelf(ns, i) == IF i = 0 THEN {} ELSE {i} \cup AncSelf(ns, ParOf(ns, i))
\* nearest enclosing node (or the node itself) that is not a with-block
Base(ns, i) == IF i = 0 \/ KindOf(ns, i) # "with" THEN i ELSE Base(ns, ParOf(ns, i))
\* the scope that owns the code of a leaf: nearest enclosing function or the module
Owner(ns, i) == Base(ns, ParOf(ns, i))
Desc(ns, k) == {j \in 1..N(ns) : k \in AncSelf(ns, j)}

\* what may be written where (read off the compiler: `cdef` statements are not
\* allowed inside a with-block; closures are not allowed in cdef functions)
ChildKinds(ns, par) ==
  LET b == KindOf(ns, Base(ns, par))
      viaWith == KindOf(ns, par) = "with"
  IN CASE b = "mod" -> IF viaWith THEN {"def", "pyclass", "with", "lam", "gen", "comp"}
                        ELSE {"def", "cfn", "cclass", "pyclass", "with", "lam", "gen", "comp"}
       [] b = "def" -> {"def", "with", "lam", "gen", "comp"}
       [] b = "cfn" -> {"with", "comp"}
       [] b = "cclass" -> {"def", "cfn"}
       [] b = "pyclass" -> {"def"}
       [] OTHER -> {}

---------------------------------------------------------------------------
(* reference semantics *)
HdrActive(s) == s.hpos # "late"

\* candidates from the module-wide sources, by precedence header > option > default
SrcCands(s, d) ==
  IF HdrActive(s) /\ s.hdr[d] # "-" THEN {B(s.hdr[d])}
  ELSE IF s.opt[d] # "-" THEN {B(s.opt[d])}
  ELSE {Default[d]}

Overriders(ns, i, d) == {j \in AncSelf(ns, i) : ns[j].ov[d] # "-"}
\* j is a nearest overrider of i: no other overrider lies between j and i
Nearest(ns, i, d) == {j \in Overriders(ns, i, d) :
                        \A k \in Overriders(ns, i, d) : k \in AncSelf(ns, j)}
EffSet(ns, s, i, d) ==
  IF Overriders(ns, i, d) # {} THEN {B(ns[j].ov[d]) : j \in Nearest(ns, i, d)}
  ELSE SrcCands(s, d)
Eff(ns, s, i, d) == CHOOSE v \in EffSet(ns, s, i, d) : TRUE
EffVec(ns, s, i) == [d \in Dirs |-> Eff(ns, s, i, d)]

---------------------------------------------------------------------------
(* implementation-shaped: dictionary propagation *)
Update(dict, ov) == [d \in Dirs |-> IF ov[d] # "-" THEN B(ov[d]) ELSE dict[d]]
ModDict(s) == LET withOpts == Update(Default, s.opt)
              IN IF HdrActive(s) THEN Update(withOpts, s.hdr) ELSE withOpts
\* _extract_directives: decorators scanned from the innermost one (k = Len(st)) outwards against
\* a running copy of the enclosing dictionary; one that does not change the running value is
\* dropped ("Directive does not change previous value"), the others are collected in scan order
RECURSIVE Scan(_, _, _, _), Merge(_, _, _)
Scan(st, k, cur, dl) ==
  IF k = 0 THEN dl
  ELSE IF cur[st[k].d] # B(st[k].v)
       THEN Scan(st, k - 1, [cur EXCEPT ![st[k].d] = B(st[k].v)], Append(dl, st[k]))
       ELSE Scan(st, k - 1, cur, dl)
\* "merge or override repeated directives": a later entry of the list overrides an earlier one
Merge(dl, k, acc) == IF k > Len(dl) THEN acc ELSE Merge(dl, k + 1, [acc EXCEPT ![dl[k].d] = dl[k].v])
OptDict(old, st) == Merge(Scan(st, Len(st), old, <<>>), 1, NoOv)
\* p and q are not "immediate" decorator directives: the contents get the same dictionary
ContentsOptDict(old, st) == OptDict(old, st)
\* visit_WithStatNode: directive_dict[name] = value, item by item
WithDict(st) == Merge(st, 1, NoOv)

RECURSIVE Dict(_, _, _)
\* directives of the code *inside* node i
Dict(ns, s, i) ==
  IF i = 0 THEN ModDict(s)
  ELSE LET old == Dict(ns, s, ParOf(ns, i))
       IN IF ns[i].kind = "with" THEN Update(old, WithDict(ns[i].st))
          ELSE IF Update(old, OptDict(old, ns[i].st)) = old THEN old      \* "directives unchanged" shortcut
          ELSE Update(old, ContentsOptDict(old, ns[i].st))
\* directives of the decorated object itself (the CompilerDirectivesNode around it)
OwnDict(ns, s, i) == LET old == Dict(ns, s, ParOf(ns, i))
                     IN IF ns[i].kind = "with" THEN Dict(ns, s, i) ELSE Update(old, OptDict(old, ns[i].st))

---------------------------------------------------------------------------
(* tree growth *)
RightPath == IF N(nodes) = 0 THEN {0} ELSE {0} \cup AncSelf(nodes, N(nodes))

Add(par, kind, st) ==
  /\ par \in RightPath
  /\ Shape = "chain" => par = N(nodes)
  /\ DepthOf(nodes, par) < MaxDepth
  /\ kind \in ChildKinds(nodes, par)
  /\ nodes' = Append(nodes, [kind |-> kind, par |-> par, st |-> st, ov |-> OvOf(kind, st)])
  /\ UNCHANGED src

\* the lists a new node may carry: the canonical ones, and -- while fewer than StackNodes nodes
\* have one -- every list up to the bound
IsCanon(nd) == nd.st = Canon(nd.ov)
CanonLists == {Canon(ov) : ov \in OvSet}
FreeLists(kind) == IF MaxStack > 0 /\ Cardinality({i \in 1..N(nodes) : ~IsCanon(nodes[i])}) < StackNodes
                   THEN SeqsUpTo(IF kind = "with" /\ MaxStack > 2 THEN 2 ELSE MaxStack)
                   ELSE {}
Lists(kind) == (CanonLists \cup FreeLists(kind)) \ (IF kind = "with" THEN {<<>>} ELSE {})

More == N(nodes) < MaxNodes
AddDef     == More /\ \E par \in 0..MaxNodes, st \in Lists("def") : Add(par, "def", st)
AddCfn     == More /\ \E par \in 0..MaxNodes, st \in Lists("cfn") : Add(par, "cfn", st)
AddCClass  == More /\ \E par \in 0..MaxNodes, st \in Lists("cclass") : Add(par, "cclass", st)
AddPyClass == More /\ \E par \in 0..MaxNodes, st \in Lists("pyclass") : Add(par, "pyclass", st)
AddWith    == More /\ \E par \in 0..MaxNodes, st \in Lists("with") : Add(par, "with", st)
AddLam     == More /\ \E par \in 0..MaxNodes : Add(par, "lam", <<>>)
AddGen     == More /\ \E par \in 0..MaxNodes : Add(par, "gen", <<>>)
AddComp    == More /\ \E par \in 0..MaxNodes : Add(par, "comp", <<>>)

Init == nodes = <<>> /\ src \in SrcSet
Next == AddDef \/ AddCfn \/ AddCClass \/ AddPyClass \/ AddWith \/ AddLam \/ AddGen \/ AddComp
Spec == Init /\ [][Next]_vars

---------------------------------------------------------------------------
(* invariants *)
All == 0..N(nodes)

WellFormed == \A i \in 1..N(nodes) :
                /\ nodes[i].par \in 0..(i - 1)
                /\ nodes[i].kind \in ChildKinds(nodes, nodes[i].par)
                /\ (nodes[i].kind \in Leaves => nodes[i].st = <<>>)
                /\ (nodes[i].kind = "with" => nodes[i].ov # NoOv)
                /\ nodes[i].ov = OvOf(nodes[i].kind, nodes[i].st)
                /\ (\A d \in Dirs : nodes[i].ov[d] = "-" <=> Occ(nodes[i].st, d) = {})
                /\ KindOf(nodes, nodes[i].par) \notin Leaves

\* the effective value is a function of the node: exactly one candidate
Unambiguous == \A i \in All : \A d \in Dirs : Cardinality(EffSet(nodes, src, i, d)) = 1

\* dictionary propagation delivers the reference value everywhere
DictAgrees == \A i \in All : \A d \in Dirs : Dict(nodes, src, i)[d] \in EffSet(nodes, src, i, d)

\* a decorated function / class is itself governed by the value that governs its contents
\* (signature and body of `@cython.d(v) def f` are both "the enclosed code")
OwnAgrees == \A i \in 1..N(nodes) : \A d \in Dirs : OwnDict(nodes, src, i)[d] \in EffSet(nodes, src, i, d)

\* a repeated directive: the occurrence that counts is the outermost decorator / the last with-item,
\* whatever the shadowed occurrences say
Precedence == \A i \in 1..N(nodes) : \A d \in Dirs : Occ(nodes[i].st, d) # {} =>
   LET st == nodes[i].st
       w == IF nodes[i].kind = "with" THEN st[MaxOf(Occ(st, d))].v ELSE st[MinOf(Occ(st, d))].v
   IN /\ Dict(nodes, src, i)[d] = B(w)
      /\ OwnDict(nodes, src, i)[d] = B(w)

\* "exactly within": removing the overrides of node k changes nothing outside k's subtree,
\* and inside the subtree only what no nearer override shadows
Clear(ns, k) == [ns EXCEPT ![k].ov = NoOv, ![k].st = <<>>]
NoLeak == \A k \in 1..N(nodes) : \A j \in All \ Desc(nodes, k) : \A d \in Dirs :
             EffSet(Clear(nodes, k), src, j, d) = EffSet(nodes, src, j, d)
Applies == \A k \in 1..N(nodes) : \A d \in Dirs : nodes[k].ov[d] # "-" =>
             \A j \in Desc(nodes, k) :
                (\A m \in Overriders(nodes, j, d) : m \in AncSelf(nodes, k))   \* nothing nearer than k
                   => EffSet(nodes, src, j, d) = {B(nodes[k].ov[d])}

\* source precedence at the module node
SourceOrder == \A d \in Dirs :
   /\ (HdrActive(src) /\ src.hdr[d] # "-") => Eff(nodes, src, 0, d) = B(src.hdr[d])
   /\ (~(HdrActive(src) /\ src.hdr[d] # "-") /\ src.opt[d] # "-") => Eff(nodes, src, 0, d) = B(src.opt[d])
   /\ (~(HdrActive(src) /\ src.hdr[d] # "-") /\ src.opt[d] = "-") => Eff(nodes, src, 0, d) = Default[d]

---------------------------------------------------------------------------
(* publication *)
Deferred(i) == IF nodes[i].kind \in Leaves
               THEN [d \in Dirs |-> Eff(nodes, src, i, d) # Eff(nodes, src, Owner(nodes, i), d)]
               ELSE [d \in Dirs |-> FALSE]

\* class of the list of node i with respect to directive d: not named / named once / repeated
\* with one value / repeated with both values, the winner restoring the value of the enclosing
\* scope ("restore": the net effect is nil) or not ("flip")
Shadow(i, d) ==
  LET st == nodes[i].st
      occ == Occ(st, d)
  IN IF occ = {} THEN "none"
     ELSE IF Cardinality(occ) = 1 THEN "single"
     ELSE IF Cardinality({st[k].v : k \in occ}) = 1 THEN "same"
     ELSE IF B(nodes[i].ov[d]) = Eff(nodes, src, ParOf(nodes, i), d) THEN "restore"
     ELSE "flip"

Publish == Dump => PrintT("@@" \o ToJson(
   [nodes |-> nodes, hdr |-> src.hdr, opt |-> src.opt, hpos |-> src.hpos,
    eff0 |-> EffVec(nodes, src, 0),
    eff |-> [i \in 1..N(nodes) |-> EffVec(nodes, src, i)],
    owner |-> [i \in 1..N(nodes) |-> IF nodes[i].kind \in Leaves THEN Owner(nodes, i) ELSE Base(nodes, i)],
    deferred |-> [i \in 1..N(nodes) |-> Deferred(i)],
    shadow |-> [i \in 1..N(nodes) |-> [d \in Dirs |-> Shadow(i, d)]]]))
=============================================================================
