----------------------------- MODULE Directives -----------------------------
(* C41, part 1: compiler directives apply exactly within their scope.        *)
(*                                                                           *)
(* A case is a *scope tree* plus the module-wide sources:                    *)
(*   node 0 = the module; nodes 1..n in preorder, each [kind, par, ov]:      *)
(*     def / cfn (cdef function) / cclass / pyclass : overrides = decorators *)
(*     with                                         : `with cython.d(v):`    *)
(*     lam / gen / comp (lambda, generator expression, list comprehension)   *)
(*                       : leaves whose body is code enclosed by the parent  *)
(*   hdr  = `# cython: d=v` header comment (hpos: top / after another        *)
(*          comment / late = after the first statement, where it is no       *)
(*          header any more), opt = directive passed to the compiler         *)
(*          (CompilationOptions / cythonize(compiler_directives=) / -X).     *)
(* Two abstract inheritable boolean directives, p (default FALSE) and q      *)
(* (default TRUE); the binding maps them to real directives with the same    *)
(* default (cdivision, nonecheck, overflowcheck / boundscheck, wraparound,   *)
(* binding, initializedcheck).                                               *)
(*                                                                           *)
(* Reference   : EffSet(i, d) = the value of the nearest enclosing override, *)
(*               else header, else option, else default (as a *set* of       *)
(*               candidate values: the property needs it to be a singleton). *)
(* Impl-shaped : Dict(i) = dictionary propagation of                         *)
(*               InterpretCompilerDirectives (module dict = defaults updated *)
(*               by options updated by header; child dict = copy of the      *)
(*               parent's updated by the node's own directives).             *)
(* Hazard predictor (not a demand): bodies of lam/gen are emitted, and those *)
(* of comp analysed, with the directives of the *owner* scope (nearest       *)
(* enclosing function or module) -- `deferred` marks the nodes where that    *)
(* differs from the demand, so that the binding can describe what it sees.   *)
(*                                                                           *)
(* TLC: every reachable state is one case (trees grow node by node along the *)
(* rightmost path, so every ordered tree is generated exactly once); the     *)
(* state is published with the demanded value of every directive at every    *)
(* node.                                                                     *)
EXTENDS Integers, Sequences, FiniteSets, TLC, Json

CONSTANTS MaxNodes,   \* nodes below the module
          MaxDepth,   \* depth below the module
          OvMode,     \* "all": every override combination; "small": 5 of the 9
          SrcMode,    \* "none" | "few" | "full": header/option combinations
          Dump

Dirs == {"p", "q"}
Default == [p |-> FALSE, q |-> TRUE]
Ov == {"-", "T", "F"}
B(x) == x = "T"
NoOv == [p |-> "-", q |-> "-"]
OvAll == [Dirs -> Ov]
OvSmall == {NoOv, [p |-> "T", q |-> "-"], [p |-> "F", q |-> "-"], [p |-> "-", q |-> "F"], [p |-> "T", q |-> "T"]}
OvSet == IF OvMode = "all" THEN OvAll ELSE OvSmall

Kinds == {"def", "cfn", "cclass", "pyclass", "with", "lam", "gen", "comp"}
Leaves == {"lam", "gen", "comp"}

SrcFew == { [hdr |-> NoOv, opt |-> NoOv, hpos |-> "top"],
            [hdr |-> NoOv, opt |-> [p |-> "T", q |-> "F"], hpos |-> "top"],
            [hdr |-> [p |-> "T", q |-> "F"], opt |-> NoOv, hpos |-> "after_comment"],
            [hdr |-> [p |-> "F", q |-> "T"], opt |-> [p |-> "T", q |-> "F"], hpos |-> "top"],
            [hdr |-> [p |-> "T", q |-> "-"], opt |-> [p |-> "-", q |-> "F"], hpos |-> "top"],
            [hdr |-> [p |-> "T", q |-> "F"], opt |-> NoOv, hpos |-> "late"] }
SrcFull == {s \in [hdr : OvAll, opt : OvAll, hpos : {"top", "after_comment", "late"}] :
              s.hdr = NoOv => s.hpos = "top"}
SrcSet == IF SrcMode = "full" THEN SrcFull
          ELSE IF SrcMode = "few" THEN SrcFew
          ELSE {[hdr |-> NoOv, opt |-> NoOv, hpos |-> "top"]}

VARIABLES nodes, src
vars == <<nodes, src>>

N(ns) == Len(ns)
KindOf(ns, i) == IF i = 0 THEN "mod" ELSE ns[i].kind
ParOf(ns, i) == ns[i].par

RECURSIVE DepthOf(_, _), AncSelf(_, _), Base(_, _)
DepthOf(ns, i) == IF i = 0 THEN 0 ELSE 1 + DepthOf(ns, ParOf(ns, i))
\* the node and its ancestors below the module
AncSelf(ns, i) == IF i = 0 THEN {} ELSE {i} \cup AncSelf(ns, ParOf(ns, i))
\* nearest enclosing node (or the node itself) that is not a with-block
Base(ns, i) == IF i = 0 \/ KindOf(ns, i) # "with" THEN i ELSE Base(ns, ParOf(ns, i))
\* the scope that owns the code of a leaf: nearest enclosing function or the module
Owner(ns, i) == Base(ns, ParOf(ns, i))
Desc(ns, k) == {j \in 1..N(ns) : k \in AncSelf(ns, j)}

\* what may be written where (read off the compiler: `cdef` statements are not
\* allowed inside a with-block; closures are not allowed in cdef functions)
ChildKinds(ns, par) ==
  LET b == KindOf(ns, Base(ns, par))
      viaWith == KindOf(ns, par) = "with"
  IN CASE b = "mod" -> IF viaWith THEN {"def", "pyclass", "with", "lam", "gen", "comp"}
                        ELSE {"def", "cfn", "cclass", "pyclass", "with", "lam", "gen", "comp"}
       [] b = "def" -> {"def", "with", "lam", "gen", "comp"}
       [] b = "cfn" -> {"with", "comp"}
       [] b = "cclass" -> {"def", "cfn"}
       [] b = "pyclass" -> {"def"}
       [] OTHER -> {}

---------------------------------------------------------------------------
(* reference semantics *)
HdrActive(s) == s.hpos # "late"

\* candidates from the module-wide sources, by precedence header > option > default
SrcCands(s, d) ==
  IF HdrActive(s) /\ s.hdr[d] # "-" THEN {B(s.hdr[d])}
  ELSE IF s.opt[d] # "-" THEN {B(s.opt[d])}
  ELSE {Default[d]}

Overriders(ns, i, d) == {j \in AncSelf(ns, i) : ns[j].ov[d] # "-"}
\* j is a nearest overrider of i: no other overrider lies between j and i
Nearest(ns, i, d) == {j \in Overriders(ns, i, d) :
                        \A k \in Overriders(ns, i, d) : k \in AncSelf(ns, j)}
EffSet(ns, s, i, d) ==
  IF Overriders(ns, i, d) # {} THEN {B(ns[j].ov[d]) : j \in Nearest(ns, i, d)}
  ELSE SrcCands(s, d)
Eff(ns, s, i, d) == CHOOSE v \in EffSet(ns, s, i, d) : TRUE
EffVec(ns, s, i) == [d \in Dirs |-> Eff(ns, s, i, d)]

---------------------------------------------------------------------------
(* implementation-shaped: dictionary propagation *)
Update(dict, ov) == [d \in Dirs |-> IF ov[d] # "-" THEN B(ov[d]) ELSE dict[d]]
ModDict(s) == LET withOpts == Update(Default, s.opt)
              IN IF HdrActive(s) THEN Update(withOpts, s.hdr) ELSE withOpts
RECURSIVE Dict(_, _, _)
Dict(ns, s, i) == IF i = 0 THEN ModDict(s) ELSE Update(Dict(ns, s, ParOf(ns, i)), ns[i].ov)

---------------------------------------------------------------------------
(* tree growth *)
RightPath == IF N(nodes) = 0 THEN {0} ELSE {0} \cup AncSelf(nodes, N(nodes))

Add(par, kind, ov) ==
  /\ par \in RightPath
  /\ DepthOf(nodes, par) < MaxDepth
  /\ kind \in ChildKinds(nodes, par)
  /\ nodes' = Append(nodes, [kind |-> kind, par |-> par, ov |-> ov])
  /\ UNCHANGED src

More == N(nodes) < MaxNodes
AddDef     == More /\ \E par \in 0..MaxNodes, ov \in OvSet : Add(par, "def", ov)
AddCfn     == More /\ \E par \in 0..MaxNodes, ov \in OvSet : Add(par, "cfn", ov)
AddCClass  == More /\ \E par \in 0..MaxNodes, ov \in OvSet : Add(par, "cclass", ov)
AddPyClass == More /\ \E par \in 0..MaxNodes, ov \in OvSet : Add(par, "pyclass", ov)
AddWith    == More /\ \E par \in 0..MaxNodes, ov \in OvSet \ {NoOv} : Add(par, "with", ov)
AddLam     == More /\ \E par \in 0..MaxNodes : Add(par, "lam", NoOv)
AddGen     == More /\ \E par \in 0..MaxNodes : Add(par, "gen", NoOv)
AddComp    == More /\ \E par \in 0..MaxNodes : Add(par, "comp", NoOv)

Init == nodes = <<>> /\ src \in SrcSet
Next == AddDef \/ AddCfn \/ AddCClass \/ AddPyClass \/ AddWith \/ AddLam \/ AddGen \/ AddComp
Spec == Init /\ [][Next]_vars

---------------------------------------------------------------------------
(* invariants *)
All == 0..N(nodes)

WellFormed == \A i \in 1..N(nodes) :
                /\ nodes[i].par \in 0..(i - 1)
                /\ nodes[i].kind \in ChildKinds(nodes, nodes[i].par)
                /\ (nodes[i].kind \in Leaves => nodes[i].ov = NoOv)
                /\ (nodes[i].kind = "with" => nodes[i].ov # NoOv)
                /\ KindOf(nodes, nodes[i].par) \notin Leaves

\* the effective value is a function of the node: exactly one candidate
Unambiguous == \A i \in All : \A d \in Dirs : Cardinality(EffSet(nodes, src, i, d)) = 1

\* dictionary propagation delivers the reference value everywhere
DictAgrees == \A i \in All : \A d \in Dirs : Dict(nodes, src, i)[d] \in EffSet(nodes, src, i, d)

\* "exactly within": removing the overrides of node k changes nothing outside k's subtree,
\* and inside the subtree only what no nearer override shadows
Clear(ns, k) == [ns EXCEPT ![k].ov = NoOv]
NoLeak == \A k \in 1..N(nodes) : \A j \in All \ Desc(nodes, k) : \A d \in Dirs :
             EffSet(Clear(nodes, k), src, j, d) = EffSet(nodes, src, j, d)
Applies == \A k \in 1..N(nodes) : \A d \in Dirs : nodes[k].ov[d] # "-" =>
             \A j \in Desc(nodes, k) :
                (\A m \in Overriders(nodes, j, d) : m \in AncSelf(nodes, k))   \* nothing nearer than k
                   => EffSet(nodes, src, j, d) = {B(nodes[k].ov[d])}

\* source precedence at the module node
SourceOrder == \A d \in Dirs :
   /\ (HdrActive(src) /\ src.hdr[d] # "-") => Eff(nodes, src, 0, d) = B(src.hdr[d])
   /\ (~(HdrActive(src) /\ src.hdr[d] # "-") /\ src.opt[d] # "-") => Eff(nodes, src, 0, d) = B(src.opt[d])
   /\ (~(HdrActive(src) /\ src.hdr[d] # "-") /\ src.opt[d] = "-") => Eff(nodes, src, 0, d) = Default[d]

---------------------------------------------------------------------------
(* publication *)
Deferred(i) == IF nodes[i].kind \in Leaves
               THEN [d \in Dirs |-> Eff(nodes, src, i, d) # Eff(nodes, src, Owner(nodes, i), d)]
               ELSE [d \in Dirs |-> FALSE]

Publish == Dump => PrintT("@@" \o ToJson(
   [nodes |-> nodes, hdr |-> src.hdr, opt |-> src.opt, hpos |-> src.hpos,
    eff0 |-> EffVec(nodes, src, 0),
    eff |-> [i \in 1..N(nodes) |-> EffVec(nodes, src, i)],
    owner |-> [i \in 1..N(nodes) |-> IF nodes[i].kind \in Leaves THEN Owner(nodes, i) ELSE Base(nodes, i)],
    deferred |-> [i \in 1..N(nodes) |-> Deferred(i)]]))
=============================================================================
