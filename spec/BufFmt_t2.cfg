SPECIFICATION Spec
CONSTANTS
  DtNames = {"ST", "IC", "PK", "FC", "A2"}
  Edits = 2
  MaxTail = 2
  Wide = FALSE
  Deep = TRUE
  Dump = TRUE
INVARIANT RefSound
INVARIANT DtSound
INVARIANT NoFalseAccept
INVARIANT ImplAgreesOffMarked
INVARIANT ImplAgreesOffMarkedDt
INVARIANT Publish
INVARIANT PublishDt
CHECK_DEADLOCK FALSE
