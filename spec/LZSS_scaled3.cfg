SPECIFICATION Spec
CONSTANTS
  Mode = "scaled"
  Big = FALSE
  MaxS = 8
  Alphabet = {97, 98, 99}
  Base = 1
  Off2N = 1
  Len2N = 1
  Off3N = 4
  Len8N = 4
  GPS = 1
INVARIANT TypeOK
INVARIANT RoundTrip
INVARIANT Publish
CHECK_DEADLOCK FALSE
