SPECIFICATION Spec
CONSTANTS
  MaxDepth = 2
  MaxNodes = 1
  MaxInj = 3
  HSets <- HSetsSmall
  CMs = {"no", "sup"}
  Kinds = {"try", "tf", "with", "loop", "seq"}
  Leaves = {"raise", "from", "reraise", "ret", "brk", "cnt", "quiet"}
  RaiseCls = {"A", "B"}
  Outers = {FALSE, TRUE}
  Dump = TRUE
INVARIANT HandledRestored
INVARIANT FinallyOnce
INVARIANT OutcomeWellFormed
INVARIANT ChainsWellFormed
INVARIANT NoSpuriousRuntimeError
INVARIANT CallerTransparent
INVARIANT Publish
CHECK_DEADLOCK FALSE
