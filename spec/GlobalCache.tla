--------------------------- MODULE GlobalCache ---------------------------
(* C26: reads of module globals / builtins in compiled code always see the  *)
(* current binding.                                                         *)
(* Reference : Read(n) = module dict entry, else builtins entry, else       *)
(*             NameError.                                                   *)
(* Impl-shaped: __Pyx_GetModuleGlobalName (Utility/ObjectHandling.c): per   *)
(*   read SITE two static variables <<dict version, cached value or NULL>>; *)
(*   version equal -> cached value, or (NULL) a fresh builtins lookup;      *)
(*   otherwise dict lookup + cache update.  The module dict's version tag   *)
(*   is bumped by CPython on insert / replace-by-a-different-object /       *)
(*   delete, NOT when the identical object is stored again.                 *)
(* Names: "ga" is assigned by the module, "gb" is unknown at compile time,  *)
(* "hex" is a builtin the module never assigns.  Value 0 = absent.          *)
(* A history step is a mutation followed by reads through all sites or only *)
(* through site 1 (so that site 2's cache lags behind by several versions). *)
EXTENDS Naturals, Sequences, FiniteSets, TLC, Json

CONSTANTS MaxLen, Dump

Names == {"ga", "gb", "hex"}
Sites == {1, 2}
Vals == {1, 2}
Absent == 0
BuiltinHex == 9          \* stands for the real builtins.hex
NameErr == 100           \* observation: NameError

VARIABLES mod, bltn, ver, cache, hist
vars == <<mod, bltn, ver, cache, hist>>

RefRead(n) == IF mod[n] # Absent THEN mod[n] ELSE IF bltn[n] # Absent THEN bltn[n] ELSE NameErr
BuiltinLookup(m, b, n) == IF b[n] # Absent THEN b[n] ELSE NameErr

(* one read through site s of name n in state (m, b, v, c): <<result, new cache entry>> *)
ImplRead(m, b, v, c, s, n) ==
  IF c[s][n].ver = v
  THEN <<IF c[s][n].val # Absent THEN c[s][n].val ELSE BuiltinLookup(m, b, n), c[s][n]>>
  ELSE <<IF m[n] # Absent THEN m[n] ELSE BuiltinLookup(m, b, n), [ver |-> v, val |-> m[n]]>>

Init == /\ mod = [n \in Names |-> IF n = "ga" THEN 1 ELSE Absent]
        /\ bltn = [n \in Names |-> IF n = "hex" THEN BuiltinHex ELSE Absent]
        /\ ver = 1
        /\ cache = [s \in Sites |-> [n \in Names |-> [ver |-> 0, val |-> Absent]]]
        /\ hist = <<>>

(* after a mutation: the sites in R read every name; expectation and cache update *)
ReadersOf(r) == IF r = "all" THEN Sites ELSE {1}
AfterReads(m, b, v, r) ==
  [s \in Sites |-> [n \in Names |-> IF s \in ReadersOf(r) THEN ImplRead(m, b, v, cache, s, n)[2] ELSE cache[s][n]]]
ImplObs(m, b, v, r) == [n \in Names |-> [s \in ReadersOf(r) |-> ImplRead(m, b, v, cache, s, n)[1]]]
RefObs(m, b) == [n \in Names |-> IF m[n] # Absent THEN m[n] ELSE IF b[n] # Absent THEN b[n] ELSE NameErr]

Step(op, n, v, how, r, m2, b2, v2) ==
  /\ mod' = m2 /\ bltn' = b2 /\ ver' = v2
  /\ cache' = AfterReads(m2, b2, v2, r)
  /\ hist' = Append(hist, [op |-> op, n |-> n, v |-> v, how |-> how, r |-> r,
                           exp |-> RefObs(m2, b2), impl |-> ImplObs(m2, b2, v2, r)])

Hows(n) == IF n = "ga" THEN {"setattr", "dict", "compiled"} ELSE {"setattr", "dict"}

SetG(n, v, how, r) ==
  Step("setg", n, v, how, r, [mod EXCEPT ![n] = v], bltn, IF mod[n] = v THEN ver ELSE ver + 1)
DelG(n, how, r) ==
  /\ mod[n] # Absent
  /\ Step("delg", n, 0, how, r, [mod EXCEPT ![n] = Absent], bltn, ver + 1)
SetB(n, v, r) ==
  /\ n # "ga"
  /\ Step("setb", n, v, "builtins", r, mod, [bltn EXCEPT ![n] = v], ver)
DelB(n, r) ==
  /\ n # "ga" /\ bltn[n] # Absent
  /\ Step("delb", n, 0, "builtins", r, mod, [bltn EXCEPT ![n] = Absent], ver)

(* `del ga` (global statement) while ga is absent: NameError, nothing changes *)
DelAbsent(r) ==
  /\ mod["ga"] = Absent
  /\ Step("delg_absent", "ga", 0, "compiled", r, mod, bltn, ver)

More == Len(hist) < MaxLen
DoSetG == More /\ \E n \in Names, v \in Vals, r \in {"all", "first"} : \E how \in Hows(n) : SetG(n, v, how, r)
DoDelG == More /\ \E n \in Names, r \in {"all", "first"} : \E how \in Hows(n) : DelG(n, how, r)
DoSetB == More /\ \E n \in Names, v \in Vals, r \in {"all", "first"} : SetB(n, v, r)
DoDelB == More /\ \E n \in Names, r \in {"all", "first"} : DelB(n, r)
DoDelAbsent == More /\ \E r \in {"all", "first"} : DelAbsent(r)
Next == DoSetG \/ DoDelG \/ DoSetB \/ DoDelB \/ DoDelAbsent
Spec == Init /\ [][Next]_vars

---------------------------------------------------------------------------
(* the property on the model: every read performed returned the current binding *)
ReadsCurrent == hist # <<>> =>
   LET h == hist[Len(hist)] IN \A n \in Names : \A s \in DOMAIN h.impl[n] : h.impl[n][s] = h.exp[n]
(* the inductive reason: a cache entry whose version is current holds the current dict entry *)
CacheCoherent == \A s \in Sites, n \in Names : cache[s][n].ver = ver => cache[s][n].val = mod[n]

Publish == (Dump /\ Len(hist) = MaxLen) =>
   PrintT("@@" \o ToJson([i \in 1..Len(hist) |-> [op |-> hist[i].op, n |-> hist[i].n, v |-> hist[i].v,
                                                   how |-> hist[i].how, r |-> hist[i].r, exp |-> hist[i].exp]]))
=============================================================================
