SPECIFICATION Spec
CONSTANTS
  Mode = "model"
  AtomSet <- AllAtoms
  PairAtoms <- QuickAtoms
  InnerAtoms <- Zeros
  PairOuter = FALSE
  Dump = TRUE
INVARIANT KeyImpliesPyEq
INVARIANT SharedImpliesObsEq
INVARIANT PoolSound
INVARIANT HitReturnsFirst
INVARIANT SameTextShared
INVARIANT NearMissesNotShared
INVARIANT TaggingLemma
INVARIANT ObsRefinesEq
INVARIANT ObsIdempotent
INVARIANT PublishConst
INVARIANT PublishPair
CHECK_DEADLOCK FALSE
