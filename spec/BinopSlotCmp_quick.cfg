SPECIFICATION Spec
CONSTANTS
  Pairs <- PairsQuick
  Profile = "quick"
  Dump = TRUE
INVARIANT RefShape
INVARIANT ImplAgreesOffHazards
INVARIANT Publish
CHECK_DEADLOCK FALSE
