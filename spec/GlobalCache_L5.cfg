SPECIFICATION Spec
CONSTANTS
  MaxLen = 5
  Dump = FALSE
INVARIANT ReadsCurrent
INVARIANT CacheCoherent
INVARIANT Publish
CHECK_DEADLOCK FALSE
