SPECIFICATION Spec
CONSTANTS
  S = 3
  Abis <- AbisNamed
  Cfgs <- Cfgs3
  Types <- TypesSweepNamed
  Pub = FALSE
  MaxK = 3
  HiK = 7
  Steps = FALSE
INVARIANT IntExact
INVARIANT ToPyExact
INVARIANT NoBad
INVARIANT RootCause
INVARIANT Publish
