SPECIFICATION Spec
CONSTANTS
  Part = "small"
  IntTypes <- TInt8
  MaxE = 70
  MaxN = 200
INVARIANT TableSound
INVARIANT Pow2Sound
INVARIANT RealSound
INVARIANT Publish
CHECK_DEADLOCK FALSE
