---------------------------- MODULE LineTable ----------------------------
(* C44: the CPython 3.11+ location-table format (InternalDocs/locations.md) *)
(* as a reference DECODER, and the conformance check of the real encoder    *)
(* Cython/Compiler/LineTable.py:build_line_table.                           *)
(*                                                                          *)
(* Records (one per input list the harness fed to the real encoder) come    *)
(* from IOEnv.RECORDS as ndjson: [id, first, pos: <<<<sl,el,sc,ec>>,..>>,   *)
(* bytes: <<0..255>>].  One TLC state per record; the verdict of every      *)
(* record is accumulated, the failing ids are printed in the final state.   *)
EXTENDS Naturals, Integers, Sequences, Json, TLC, IOUtils, FiniteSets

Records == ndJsonDeserialize(IOEnv.RECORDS)
N == Len(Records)

---------------------------------------------------------------------------
(* varints: 6 payload bits per byte, bit 6 = "more" *)
RECURSIVE VarintAt(_, _, _, _)
\* returns <<value, next position>> or <<-1, 0>> when the bytes run out
VarintAt(b, p, shift, acc) ==
  IF p > Len(b) THEN <<-1, 0>>
  ELSE LET v == acc + (b[p] % 64) * shift IN
       IF (b[p] \div 64) % 2 = 1 THEN VarintAt(b, p + 1, shift * 64, v)
       ELSE <<v, p + 1>>

Varint(b, p) == VarintAt(b, p, 1, 0)
SignedOf(u) == IF u % 2 = 1 THEN -(u \div 2) ELSE u \div 2

Bad == << <<-9, -9, -9, -9>> >>     \* "malformed table": same shape as a position list, never equal to a real one

(* Decode one entry starting at p with running line `line`.                 *)
(* Result: [ok, next, line (new running line), n (code units), pos]         *)
Entry(b, p, line) ==
  IF p > Len(b) \/ b[p] < 128 THEN [ok |-> FALSE]
  ELSE
  LET code == (b[p] \div 8) % 16
      n    == (b[p] % 8) + 1
  IN
  IF code <= 9 THEN
     IF p + 1 > Len(b) THEN [ok |-> FALSE]
     ELSE LET s  == b[p+1]
              sc == code * 8 + ((s \div 16) % 8)
              ec == sc + (s % 16)
          IN [ok |-> s < 128, next |-> p + 2, line |-> line, n |-> n,
              pos |-> <<line, line, sc, ec>>]
  ELSE IF code \in 10..12 THEN
     IF p + 2 > Len(b) THEN [ok |-> FALSE]
     ELSE LET l == line + (code - 10)
          IN [ok |-> b[p+1] < 128 /\ b[p+2] < 128, next |-> p + 3, line |-> l, n |-> n,
              pos |-> <<l, l, b[p+1], b[p+2]>>]
  ELSE IF code = 13 THEN
     LET d == Varint(b, p + 1) IN
     IF d[1] < 0 THEN [ok |-> FALSE]
     ELSE LET l == line + SignedOf(d[1])
          IN [ok |-> TRUE, next |-> d[2], line |-> l, n |-> n, pos |-> <<l, l, -1, -1>>]
  ELSE IF code = 14 THEN
     LET d  == Varint(b, p + 1) IN
     IF d[1] < 0 THEN [ok |-> FALSE] ELSE
     LET e  == Varint(b, d[2]) IN
     IF e[1] < 0 THEN [ok |-> FALSE] ELSE
     LET sc == Varint(b, e[2]) IN
     IF sc[1] < 0 THEN [ok |-> FALSE] ELSE
     LET ec == Varint(b, sc[2]) IN
     IF ec[1] < 0 THEN [ok |-> FALSE] ELSE
     LET l == line + SignedOf(d[1])
     IN [ok |-> TRUE, next |-> ec[2], line |-> l, n |-> n,
         pos |-> <<l, l + e[1], sc[1] - 1, ec[1] - 1>>]
  ELSE \* code 15: no location
     [ok |-> TRUE, next |-> p + 1, line |-> line, n |-> n, pos |-> <<-1, -1, -1, -1>>]

RECURSIVE DecodeFrom(_, _, _, _)
DecodeFrom(b, p, line, acc) ==
  IF p > Len(b) THEN acc
  ELSE LET e == Entry(b, p, line) IN
       IF ~e.ok THEN Bad
       ELSE IF e.n # 1 THEN Bad    \* the encoder documents one code unit per entry
       ELSE DecodeFrom(b, e.next, e.line, Append(acc, e.pos))

Decode(b, first) == DecodeFrom(b, 1, first, <<>>)

(* The property: the table decodes to exactly the positions recorded.       *)
Accepts(r) == Decode(r.bytes, r.first) = r.pos

---------------------------------------------------------------------------
VARIABLES i, bad
vars == <<i, bad>>

Init == i = 0 /\ bad = <<>>

Step == /\ i < N
        /\ i' = i + 1
        /\ bad' = IF Accepts(Records[i + 1]) THEN bad ELSE Append(bad, Records[i + 1].id)

Done == /\ i = N
        /\ UNCHANGED vars

Next == Step \/ Done
Spec == Init /\ [][Next]_vars

(* the final state publishes the verdicts *)
Publish == i = N => PrintT("@@" \o ToJson([n |-> N, bad |-> bad]))
PublishOnce == (i = N) => Publish
TypeOK == i \in 0..N /\ Len(bad) <= i
=============================================================================
