SPECIFICATION Spec
CONSTANTS
  MaxLen = 6
  Dump = TRUE
  BodySel = {32, 35}
INVARIANT Consistent
INVARIANT FinallyOnce
INVARIANT CleanupOnDel
INVARIANT NoUnsup
INVARIANT Publish
PROPERTY Causal
CHECK_DEADLOCK FALSE
