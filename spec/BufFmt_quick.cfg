SPECIFICATION Spec
CONSTANTS
  DtNames = {"int", "NE"}
  Extra = 2
  Slack = 2
  Neutral = 1
  Wide = FALSE
  Dump = TRUE
INVARIANT RefSound
INVARIANT DtSound
INVARIANT NoFalseAccept
INVARIANT ImplAgreesOffMarked
INVARIANT ImplAgreesOffMarkedDt
INVARIANT Publish
INVARIANT PublishDt
CHECK_DEADLOCK FALSE
