----------------------------- MODULE BinopSlot -----------------------------
(* C28 (arithmetic part): binary / reflected / in-place operators on        *)
(* extension types dispatch like on Python classes.                         *)
(*                                                                          *)
(* Classes (fixed hierarchy):  C (cdef), S(C) (cdef), T(S) (cdef),          *)
(*   P(C) (Python subclass of the extension type), D (unrelated cdef),      *)
(*   O (unrelated Python class).  A configuration `defs` gives, for every   *)
(*   class in the ancestry of the two operands, the subset of                *)
(*   {op, rop, iop} (= __add__, __radd__, __iadd__ for `+`) it defines.     *)
(*   Every method appends itself to a call log and returns its own tag or   *)
(*   NotImplemented (`beh`).                                                 *)
(*                                                                          *)
(* Reference (Ref): the binary-operator protocol of the language reference  *)
(*   (3.3.8): for `x op y` try x.__op__(y), then y.__rop__(x) if the types  *)
(*   differ; the reflected method goes first iff type(y) is a proper        *)
(*   subclass of type(x) and provides a different __rop__; no reflected     *)
(*   call for operands of the same type; `x op= y` tries x.__iop__(y)       *)
(*   first and falls back to `x op y`; TypeError at the end.                *)
(*   Independent of which classes are extension types.                      *)
(*                                                                          *)
(* Implementation-shaped (Imp): CPython's binary_op1 / binary_iop1 and      *)
(*   slot_nb_<op> (typeobject.c, SLOT1BINFULL incl. method_is_overloaded    *)
(*   and slot inheritance / wrapper descriptors) for Python classes, and    *)
(*   the slot function Cython generates for a cdef class from               *)
(*   Utility/ExtensionTypes.c "BinopSlot" (maybe_self_is_left/right,        *)
(*   overloads_left/right, call_left/call_right = the class's own method    *)
(*   or <func>_maybe_call_slot(tp_base, left, right), see ModuleNode.       *)
(*   generate_binop_function).  In states with allpy = TRUE every class is  *)
(*   a Python class: then Imp is CPython's algorithm on plain classes and   *)
(*   must equal Ref (two independent formulations of the reference).        *)
(*                                                                          *)
(* State machine: Init picks the operand kinds, in-place or not and the     *)
(*   configuration; `beh` starts empty.  Ref and Imp are evaluated with     *)
(*   NotImplemented for every undecided method; a step decides the first    *)
(*   undecided method that either of them called (lazy enumeration of the   *)
(*   execution paths).  States without undecided calls are the cases; they  *)
(*   are published with (result, call log) of Ref and of Imp.               *)
EXTENDS Integers, Sequences, FiniteSets, TLC, Json

CONSTANTS Pairs,        \* set of <<left kind, right kind>> explored with the cdef classes
          PairsRef,     \* ... explored with every class taken as a Python class (reference cross-check)
          Dump

Kinds == {"C", "S", "T", "P", "O", "D"}
M == {"op", "rop", "iop"}
Anc == [C |-> <<"C">>, S |-> <<"S", "C">>, T |-> <<"T", "S", "C">>, P |-> <<"P", "C">>, O |-> <<"O">>, D |-> <<"D">>]
BaseOf(k) == IF Len(Anc[k]) > 1 THEN Anc[k][2] ELSE ""
Range(s) == {s[i] : i \in 1..Len(s)}
IsSub(a, b) == b \in Range(Anc[a])             \* non-strict
Involved(x, y) == Range(Anc[x]) \cup Range(Anc[y])

VARIABLES allpy,            \* TRUE: every class is a plain Python class in Imp (then Imp must equal Ref)
          l, r, ip, defs, beh,
          ref, imp          \* Ref and Imp evaluated in the current state (kept in the state so that each is computed once)
vars == <<allpy, l, r, ip, defs, beh, ref, imp>>
Cdef == IF allpy THEN {} ELSE {"C", "S", "T", "D"}

NI == "NI"
Val(mid) == IF mid \in DOMAIN beh THEN beh[mid] ELSE NI
Mid(cls, m) == cls \o "." \o m
Has(k, m) == k \in DOMAIN defs /\ m \in defs[k]

RECURSIVE FirstDef(_, _)
FirstDef(seq, m) == IF seq = <<>> THEN "" ELSE IF Has(Head(seq), m) THEN Head(seq) ELSE FirstDef(Tail(seq), m)
Lookup(k, m) == FirstDef(Anc[k], m)            \* class whose definition of m an instance of k uses ("" = none)

---------------------------------------------------------------------------
(* Reference: ordered attempts, the first that does not return NotImplemented wins *)
Att(cls, m, so) == [mid |-> Mid(cls, m), so |-> so]     \* so: "LR" self = left operand, "RL" self = right operand
ReflectedFirst == /\ l # r /\ IsSub(r, l)
                  /\ Lookup(r, "rop") # "" /\ Lookup(r, "rop") # Lookup(l, "rop")
RefAttempts ==
  LET lm == Lookup(l, "op")  rm == Lookup(r, "rop")  im == Lookup(l, "iop")
      L == IF lm = "" THEN <<>> ELSE <<Att(lm, "op", "LR")>>
      R == IF rm = "" THEN <<>> ELSE <<Att(rm, "rop", "RL")>>
      I == IF ip /\ im # "" THEN <<Att(im, "iop", "LR")>> ELSE <<>>
  IN I \o (IF l = r THEN L ELSE IF ReflectedFirst THEN R \o L ELSE L \o R)

Min(S) == CHOOSE m \in S : \A n \in S : m <= n
(* TLC re-evaluates a LET definition at every use: values that are used more than once are bound    *)
(* through a singleton set instead (One({Body(v) : v \in {expr}}) evaluates expr once).              *)
One(S) == CHOOSE y \in S : TRUE
Ref == One({ LET hits == {i \in 1..Len(att) : Val(att[i].mid) # NI} IN
             IF hits = {} THEN [res |-> "TypeError", log |-> att]
             ELSE One({[res |-> att[k].mid, log |-> SubSeq(att, 1, k)] : k \in {Min(hits)}})
           : att \in {RefAttempts} })

---------------------------------------------------------------------------
(* Implementation-shaped *)
None == <<"none">>
PY == <<"py">>
Ret(v, log) == [v |-> v, log |-> log]
Invoke(cls, m, so, log) == Ret(IF Val(Mid(cls, m)) = NI THEN NI ELSE Mid(cls, m), Append(log, Att(cls, m, so)))
OwnBin(k) == Has(k, "op") \/ Has(k, "rop")

(* attribute lookup of __op__ / __rop__ on the type of kind k.  A Python class contributes its      *)
(* functions.  A cdef class with an own nb slot contributes, for a method it defines, a               *)
(* method_descriptor that calls the method directly (Code.put_pymethoddef: METH_COEXIST entries for    *)
(* binop methods) and, for the other name, the wrapper descriptor add_operators() creates for the slot *)
RECURSIVE AttrOfChain(_, _)
AttrOfChain(seq, m) ==
  IF seq = <<>> THEN None
  ELSE LET k == Head(seq) IN
       IF k \in Cdef THEN (IF Has(k, m) THEN <<"meth", k>> ELSE IF OwnBin(k) THEN <<"wrap", k>> ELSE AttrOfChain(Tail(seq), m))
       ELSE (IF Has(k, m) THEN <<"fn", k>> ELSE AttrOfChain(Tail(seq), m))
Attr(k, m) == AttrOfChain(Anc[k], m)

(* which function sits in tp_as_number->nb_<op> of the type of kind k: a cdef class has its own      *)
(* generated function if it defines __op__ or __rop__, else inherits; a Python class gets            *)
(* slot_nb_<op> (update_one_slot) as soon as one of the two names resolves to something that is not  *)
(* a slot wrapper -- always the case when any of its bases defines one of the methods                *)
RECURSIVE CySlotOfChain(_)
CySlotOfChain(seq) == IF seq = <<>> THEN None ELSE IF OwnBin(Head(seq)) THEN <<"cy", Head(seq)>> ELSE CySlotOfChain(Tail(seq))
SlotFn(k) == IF k \in Cdef THEN CySlotOfChain(Anc[k])
             ELSE IF Attr(k, "op") = None /\ Attr(k, "rop") = None THEN None ELSE PY

(* a step of a C function: evaluate e once; return its result unless it is NotImplemented, else    *)
(* continue with K on the log so far                                                                  *)
OrElse(e, K(_)) == One({ IF s.v # NI THEN s ELSE K(s.log) : s \in {e} })

(* the Cython-generated slot function of cdef class K, called with (left, right) *)
RECURSIVE CySlot(_, _)
CySlot(K, log) ==
  LET ol  == Has(K, "op")
      orr == Has(K, "rop")
      maybeSelfIsLeft   == l = r \/ SlotFn(l) = <<"cy", K>> \/ IsSub(l, K)
      maybeSelfIsRight0 == l = r \/ SlotFn(r) = <<"cy", K>> \/ IsSub(r, K)
      base == IF BaseOf(K) = "" THEN None ELSE SlotFn(BaseOf(K))
      BaseCall(lg) == IF base = None THEN Ret(NI, lg) ELSE CySlot(base[2], lg)    \* <func>_maybe_call_slot(tp_base, left, right)
      CallLeft(lg)  == IF ol THEN Invoke(K, "op", "LR", lg) ELSE BaseCall(lg)
      CallRight(lg) == IF orr THEN Invoke(K, "rop", "RL", lg) ELSE BaseCall(lg)
      early == maybeSelfIsLeft /\ orr /\ ~ol /\ maybeSelfIsRight0             \* "if (maybe_self_is_right) { res = call_right; ..."
      maybeSelfIsRight == IF ol THEN maybeSelfIsRight0                       \* computed late when overloads_left
                          ELSE IF early THEN FALSE                            \* "Don't bother calling it again."
                          ELSE maybeSelfIsRight0
  IN OrElse(IF early THEN CallRight(log) ELSE Ret(NI, log),
       LAMBDA lg1 : OrElse(IF maybeSelfIsLeft THEN CallLeft(lg1) ELSE Ret(NI, lg1),
         LAMBDA lg2 : IF maybeSelfIsRight THEN CallRight(lg2) ELSE Ret(NI, lg2)))

CallAttr(k, m, so, log) ==
  LET a == Attr(k, m) IN
  IF a = None THEN Ret(NI, log)
  ELSE IF a[1] \in {"fn", "meth"} THEN Invoke(a[2], m, so, log)
  ELSE CySlot(a[2], log)                               \* wrap_binaryfunc_l / _r both end in slot(left, right)

(* slot_nb_<op> of typeobject.c (SLOT1BINFULL), self = left, other = right *)
PySlot(log) ==
  LET doOther0 == l # r /\ SlotFn(r) = PY
      selfPy   == SlotFn(l) = PY
      overl    == /\ doOther0 /\ IsSub(r, l)
                  /\ Attr(r, "rop") # None /\ Attr(r, "rop") # Attr(l, "rop")     \* method_is_overloaded
      doOther == IF selfPy /\ overl THEN FALSE ELSE doOther0
  IN OrElse(IF selfPy /\ overl THEN CallAttr(r, "rop", "RL", log) ELSE Ret(NI, log),
       LAMBDA lg1 : One({ IF selfPy /\ (s2.v # NI \/ l = r) THEN s2                  \* "if (r != Py_NotImplemented || Py_IS_TYPE(other, Py_TYPE(self))) return r"
                          ELSE IF doOther THEN CallAttr(r, "rop", "RL", s2.log)
                          ELSE Ret(NI, s2.log)
                        : s2 \in {IF selfPy THEN CallAttr(l, "op", "LR", lg1) ELSE Ret(NI, lg1)} }))

CallSlot(f, log) == IF f = PY THEN PySlot(log) ELSE CySlot(f[2], log)

(* abstract.c binary_op1 *)
BinaryOp1(log) ==
  LET slotv == SlotFn(l)
      slotw0 == IF l # r THEN SlotFn(r) ELSE None
      slotw == IF slotw0 = slotv THEN None ELSE slotw0
      first == slotv # None /\ slotw # None /\ IsSub(r, l)
      slotw1 == IF first THEN None ELSE slotw
  IN OrElse(IF first THEN CallSlot(slotw, log) ELSE Ret(NI, log),
       LAMBDA lg1 : OrElse(IF slotv # None THEN CallSlot(slotv, lg1) ELSE Ret(NI, lg1),
         LAMBDA lg2 : IF slotw1 # None THEN CallSlot(slotw1, lg2) ELSE Ret(NI, lg2)))

(* binary_iop1: nb_inplace_<op> is the cdef class's own __iop__ or an inherited one *)
ISlotClass(k) == Lookup(k, "iop")
Imp ==
  LET ic == ISlotClass(l) IN
  One({ [res |-> IF s.v = NI THEN "TypeError" ELSE s.v, log |-> s.log]
      : s \in { OrElse(IF ip /\ ic # "" THEN Invoke(ic, "iop", "LR", <<>>) ELSE Ret(NI, <<>>),
                       LAMBDA lg : BinaryOp1(lg)) } })

---------------------------------------------------------------------------
Undecided(log) == {i \in 1..Len(log) : log[i].mid \notin DOMAIN beh}
NextMethod == IF Undecided(ref.log) # {} THEN ref.log[Min(Undecided(ref.log))].mid
              ELSE IF Undecided(imp.log) # {} THEN imp.log[Min(Undecided(imp.log))].mid
              ELSE ""
IsCase == NextMethod = ""

Init == /\ allpy \in BOOLEAN
        /\ \E p \in (IF allpy THEN PairsRef ELSE Pairs) : l = p[1] /\ r = p[2]
        /\ ip \in BOOLEAN
        /\ defs \in [Involved(l, r) -> SUBSET M]
        \* __iop__ can only matter for `x op= y` and in the ancestry of x: other configurations are not enumerated
        /\ \A k \in Involved(l, r) : "iop" \in defs[k] => (ip /\ k \in Range(Anc[l]))
        /\ beh = <<>>
        /\ ref = Ref /\ imp = Imp

Decide(b) == /\ beh' = beh @@ (NextMethod :> b)
             /\ UNCHANGED <<allpy, l, r, ip, defs>>
             /\ ref' = Ref' /\ imp' = Imp'
DecideRef == Undecided(ref.log) # {} /\ \E b \in {"V", NI} : Decide(b)
DecideImp == /\ Undecided(ref.log) = {} /\ Undecided(imp.log) # {}       \* a method only the implementation calls
             /\ \E b \in {"V", NI} : Decide(b)
Next == DecideRef \/ DecideImp
Spec == Init /\ [][Next]_vars

---------------------------------------------------------------------------
(* properties of the reference that follow from the language reference directly *)
Mids(log) == {log[i].mid : i \in 1..Len(log)}
RefShape == LET rf == ref IN
  /\ Len(rf.log) <= 3 /\ Cardinality(Mids(rf.log)) = Len(rf.log)                  \* no method is called twice
  /\ (l = r => \A i \in 1..Len(rf.log) : rf.log[i].so = "LR")                       \* same type: never reflected
  /\ (~ip => \A i \in 1..Len(rf.log) : rf.log[i].mid \notin {Mid(k, "iop") : k \in Kinds})
  /\ (rf.res # "TypeError" => rf.res = rf.log[Len(rf.log)].mid /\ Val(rf.res) # NI)
  /\ \A i \in 1..Len(rf.log) : (i < Len(rf.log) \/ rf.res = "TypeError") => Val(rf.log[i].mid) = NI

(* Imp = Ref.  In states with allpy = TRUE this says that CPython's algorithm on plain classes is the *)
(* language-reference protocol (must hold); with the cdef classes it is what C28 demands.           *)
ImplAgrees == IsCase => imp = ref
RefIsCPythonOnPlainClasses == (IsCase /\ allpy) => imp = ref

(* Structural description of where the generated slot function leaves the protocol (TLC checks   *)
(* that Imp = Ref everywhere else):                                                                 *)
(* HSame   : both operands have the same cdef type and a __rop__ is in reach: the template's        *)
(*           "Py_TYPE(left) == Py_TYPE(right)" clause makes maybe_self_is_right true.               *)
(* HChained: the type of an operand has its own slot function and so has one of its cdef bases:     *)
(*           call_left / call_right of the subclass delegate to the base type's whole slot function *)
(*           (which dispatches in both directions again), and binary_op1 calls both functions, each *)
(*           guessing its role from subtype tests.                                                  *)
CdefOperand == l \in Cdef \/ r \in Cdef
HSame == l = r /\ l \in Cdef /\ Lookup(l, "rop") # ""
Chained(k) == k \in Cdef /\ OwnBin(k) /\ BaseOf(k) # "" /\ SlotFn(BaseOf(k)) # None
HChained == \E k \in {l, r} : \E a \in Range(Anc[k]) : Chained(a)
Hazard == HSame \/ HChained
ImplAgreesOffHazards == (IsCase /\ ~allpy /\ ~Hazard) => imp = ref

Relation == IF l = r THEN "same_type" ELSE IF IsSub(r, l) THEN "right_is_subclass"
            ELSE IF IsSub(l, r) THEN "left_is_subclass" ELSE "unrelated"

K4 == {"C", "S", "O", "D"}
K5 == {"C", "S", "T", "O", "D"}
PairsRefQuick == {<<"C", "C">>, <<"C", "S">>, <<"S", "C">>, <<"S", "P">>, <<"C", "O">>, <<"O", "S">>}
PairsStrict == {<<"C", "C">>}
NoPairs == {}
PairsQuick == {<<x, y>> \in K4 \X K4 : ~(x = "O" /\ y = "O")}
PairsDeep  == {<<x, y>> \in K5 \X K5 : ~(x = "O" /\ y = "O")}
PairsFull  == {<<x, y>> \in Kinds \X Kinds : ~(x = "O" /\ y = "O")}
PairsRefDeep == {p \in PairsFull : Cardinality(Involved(p[1], p[2])) <= 3}

Str(log) == [i \in 1..Len(log) |-> log[i].mid \o ":" \o log[i].so]
Publish == (Dump /\ IsCase /\ ~allpy) =>
  PrintT("@@" \o ToJson([l |-> l, r |-> r, ip |-> ip, defs |-> defs, beh |-> beh, rel |-> Relation,
                          res |-> ref.res, log |-> Str(ref.log), ires |-> imp.res, ilog |-> Str(imp.log),
                          hsame |-> HSame, hchained |-> HChained]))
=============================================================================
