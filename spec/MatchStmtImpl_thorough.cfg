SPECIFICATION Spec
CONSTANTS
  NStmts = 600
  MaxDepth = 3
  MaxCases = 4
  MaxSeq = 4
  MaxKeys = 3
  Dump = TRUE
  Dev = {}
INVARIANT SelSound
INVARIANT SkipSound
INVARIANT BindComplete
INVARIANT OneBody
INVARIANT GuardOrder
INVARIANT ExcFinal
INVARIANT ImplAgrees
INVARIANT Publish
CHECK_DEADLOCK FALSE
