----------------------------- MODULE StrTable -----------------------------
(* C10, second part: the module string table.                               *)
(*   Code.py GlobalState.generate_string_constants / generate_pystring_    *)
(*   constants concatenate all Python string constants of a module into one *)
(*   byte blob (text constants as UTF-8 first, non-interned before          *)
(*   interned, then bytes constants), emit a length index per section and   *)
(*   `#define <cname> stringtab[<slot>]`, optionally compress the blob      *)
(*   (CYTHON_COMPRESS_STRINGS: none / zlib / bz2 / lzss); module init       *)
(*   decompresses and cuts the blob along the length index.                 *)
(* State machine: Add* ; Emit(algo) ; DecodeStep* ; Ready.                  *)
(* Property (Holds): every constant's slot holds exactly the bytes added,   *)
(* in the right section (str / bytes), slots form a bijection, the blob is  *)
(* consumed exactly, interned text constants come after the others (module  *)
(* init interns slots >= first_interned), every length fits its bit field.  *)
(* Mode "model":   exhaustive over small pools; the properties are          *)
(*                 invariants of the reference Emit.                        *)
(* Mode "records": the tables emitted by REAL compilations (constants as    *)
(*                 handed to generate_pystring_constants, slots and length  *)
(*                 indices parsed from the generated C, the blob as handed  *)
(*                 to the C-literal writer) are loaded instead of Emit and  *)
(*                 run through the same DecodeStep; the verdict per record  *)
(*                 is accumulated and published.                            *)
(* zlib / bz2 / lzss are opaque round-tripping codecs here (Dec(Enc(x)) = x;*)
(* LZSS itself: C12, spec/LZSS.tla); the binding validates that assumption  *)
(* on the emitted compressed blobs with independent decoders.               *)
EXTENDS Integers, Sequences, FiniteSets, TLC, Json, IOUtils

CONSTANTS Mode,      \* "model" | "records"
          Alpha,     \* model: byte alphabet
          MaxLen,    \* model: longest string
          MaxAdds    \* model: constants per module

Records == IF Mode = "records" THEN ndJsonDeserialize(IOEnv.RECORDS) ELSE <<>>
N == Len(Records)
Algos == {"none", "zlib", "bz2", "lzss"}

VARIABLES ph,     \* "add" | "emitted" | "ready" | "broken"
          pool,   \* constants added: sequence of [k: "u" | "b", it: interned?, s: bytes]
          slot,   \* pool index -> stringtab slot (1-based)
          ulen, blen,   \* emitted length index of the text / bytes section
          ubits, bbits, \* width of the C bit field holding those lengths
          wire,   \* the emitted data: [algo, payload]
          tab,    \* run time: decoded stringtab
          pos,    \* run time: read position in the decompressed blob
          ri, bad \* records mode: records consumed, ids of records that do not satisfy Holds
vars == <<ph, pool, slot, ulen, blen, ubits, bbits, wire, tab, pos, ri, bad>>

---------------------------------------------------------------------------
RECURSIVE Flat(_)
Flat(ss) == IF ss = <<>> THEN <<>> ELSE Head(ss) \o Flat(Tail(ss))
RECURSIVE LexLess(_, _)     \* strict lexicographic order on byte strings (= code point order of the UTF-8 text)
LexLess(a, b) == IF b = <<>> THEN FALSE ELSE IF a = <<>> THEN TRUE
                 ELSE IF a[1] # b[1] THEN a[1] < b[1] ELSE LexLess(Tail(a), Tail(b))
RECURSIVE BitLen(_)
BitLen(n) == IF n = 0 THEN 0 ELSE 1 + BitLen(n \div 2)
Max(S) == IF S = {} THEN 0 ELSE CHOOSE x \in S : \A y \in S : y <= x
Range(s) == {s[j] : j \in 1..Len(s)}

\* opaque codecs
Enc(a, x) == [algo |-> a, payload |-> x]
Dec(w) == w.payload

RECURSIVE Strs(_)
Strs(n) == IF n = 0 THEN {<<>>} ELSE Strs(n - 1) \cup {Append(s, c) : s \in {t \in Strs(n - 1) : Len(t) = n - 1}, c \in Alpha}
Entries == {[k |-> "u", it |-> it, s |-> s] : it \in BOOLEAN, s \in Strs(MaxLen)} \cup {[k |-> "b", it |-> FALSE, s |-> s] : s \in Strs(MaxLen)}
\* emission order: text before bytes, non-interned before interned, then by content
Before(e, f) == IF e.k # f.k THEN e.k = "u" ELSE IF e.it # f.it THEN ~e.it ELSE LexLess(e.s, f.s)
\* model mode adds constants in this (different) fixed order: Emit sorts, so the insertion order is irrelevant
InsBefore(e, f) == IF e.s # f.s THEN LexLess(e.s, f.s) ELSE IF e.k # f.k THEN e.k = "b" ELSE (e.it /\ ~f.it)

---------------------------------------------------------------------------
Init == /\ ph = "add" /\ pool = <<>> /\ slot = <<>> /\ ulen = <<>> /\ blen = <<>> /\ ubits = 0 /\ bbits = 0
        /\ wire = Enc("none", <<>>) /\ tab = <<>> /\ pos = 0 /\ ri = 0 /\ bad = <<>>

Add == /\ Mode = "model" /\ ph = "add" /\ Len(pool) < MaxAdds
       /\ \E e \in Entries : /\ (IF pool = <<>> THEN TRUE ELSE InsBefore(pool[Len(pool)], e))      \* new (de-duplicated) constant
                             /\ pool' = Append(pool, e)
       /\ UNCHANGED <<ph, slot, ulen, blen, ubits, bbits, wire, tab, pos, ri, bad>>

\* reference emission: text constants sorted by (interned, text), then bytes constants sorted
Sorted == SortSeq(pool, Before)
Emit == /\ Mode = "model" /\ ph = "add" /\ pool # <<>>
        /\ \E a \in Algos :
             LET ord == Sorted
                 nu  == Cardinality({j \in 1..Len(ord) : ord[j].k = "u"})
             IN /\ slot' = [j \in 1..Len(pool) |-> CHOOSE p \in 1..Len(ord) : ord[p] = pool[j]]
                /\ ulen' = [p \in 1..nu |-> Len(ord[p].s)]
                /\ blen' = [p \in 1..(Len(ord) - nu) |-> Len(ord[nu + p].s)]
                /\ ubits' = BitLen(Max({Len(ord[p].s) : p \in 1..nu}))
                /\ bbits' = BitLen(Max({Len(ord[p].s) : p \in (nu + 1)..Len(ord)}))
                /\ wire' = Enc(a, Flat([p \in 1..Len(ord) |-> ord[p].s]))
        /\ ph' = "emitted" /\ UNCHANGED <<pool, tab, pos, ri, bad>>

\* records mode: what the real compiler emitted for the next module
Load == /\ Mode = "records" /\ ph = "add" /\ ri < N
        /\ LET r == Records[ri + 1] IN
             /\ pool' = r.entries /\ slot' = [j \in 1..Len(r.slot) |-> r.slot[j] + 1]
             /\ ulen' = r.ulen /\ blen' = r.blen /\ ubits' = r.ubits /\ bbits' = r.bbits
             /\ wire' = Enc("real", r.blob)
        /\ ph' = "emitted" /\ ri' = ri + 1 /\ tab' = <<>> /\ pos' = 0 /\ UNCHANGED bad

\* module init: cut the decompressed blob along the length index, text section first
NSlots == Len(ulen) + Len(blen)
DecodeStep == /\ ph = "emitted" /\ Len(tab) < NSlots
              /\ LET n   == Len(tab) + 1
                     len == IF n <= Len(ulen) THEN ulen[n] ELSE blen[n - Len(ulen)]
                     data == Dec(wire)
                 IN IF pos + len > Len(data)
                    THEN ph' = "broken" /\ UNCHANGED <<tab, pos>>
                    ELSE /\ tab' = Append(tab, [k |-> IF n <= Len(ulen) THEN "u" ELSE "b", s |-> SubSeq(data, pos + 1, pos + len)])
                         /\ pos' = pos + len /\ UNCHANGED ph
              /\ UNCHANGED <<pool, slot, ulen, blen, ubits, bbits, wire, ri, bad>>
Ready == /\ ph = "emitted" /\ Len(tab) = NSlots /\ ph' = "ready"
         /\ UNCHANGED <<pool, slot, ulen, blen, ubits, bbits, wire, tab, pos, ri, bad>>

---------------------------------------------------------------------------
Pow2(n) == 2 ^ n
Holds ==
  /\ ph = "ready"
  /\ Len(slot) = Len(pool)
  /\ \A j \in 1..Len(pool) : slot[j] \in 1..Len(tab) /\ tab[slot[j]] = [k |-> pool[j].k, s |-> pool[j].s]    \* round trip
  /\ \A j1, j2 \in 1..Len(pool) : j1 # j2 => slot[j1] # slot[j2]                                             \* bijection ...
  /\ Len(tab) = Len(pool)                                                                                     \* ... onto the table
  /\ pos = Len(Dec(wire))                                                                                     \* blob consumed exactly
  /\ \A j1, j2 \in 1..Len(pool) : (pool[j1].k = "u" /\ pool[j2].k = "u" /\ pool[j1].it /\ ~pool[j2].it) => slot[j2] < slot[j1]
  /\ \A p \in 1..Len(ulen) : ulen[p] < Pow2(ubits)
  /\ \A p \in 1..Len(blen) : blen[p] < Pow2(bbits)

\* records mode: judge the module just decoded, go on with the next one
Verdict == /\ Mode = "records" /\ ph \in {"ready", "broken"}
           /\ bad' = IF Holds THEN bad ELSE Append(bad, Records[ri].id)
           /\ ph' = "add" /\ pool' = <<>> /\ slot' = <<>> /\ ulen' = <<>> /\ blen' = <<>> /\ ubits' = 0 /\ bbits' = 0
           /\ wire' = Enc("none", <<>>) /\ tab' = <<>> /\ pos' = 0 /\ UNCHANGED ri
Finished == /\ \/ (Mode = "records" /\ ph = "add" /\ ri = N)
               \/ (Mode = "model" /\ ph \in {"ready", "broken"})
               \/ (Mode = "model" /\ ph = "add" /\ pool = <<>> /\ MaxAdds = 0)
            /\ UNCHANGED vars

Next == Add \/ Emit \/ Load \/ DecodeStep \/ Ready \/ Verdict \/ Finished
Spec == Init /\ [][Next]_vars

---------------------------------------------------------------------------
TypeOK == /\ ph \in {"add", "emitted", "ready", "broken"} /\ pos >= 0 /\ ri \in 0..N /\ Len(bad) <= ri
(* model mode: the reference emission satisfies the property for every pool and every codec *)
ModelOK == Mode = "model" => (ph # "broken" /\ (ph = "ready" => Holds))
(* records mode: the final state publishes the verdicts *)
Publish == (Mode = "records" /\ ph = "add" /\ ri = N) => PrintT("@@" \o ToJson([n |-> N, bad |-> bad]))
=============================================================================
