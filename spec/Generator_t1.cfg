SPECIFICATION Spec
CONSTANTS
  MaxLen = 5
  Dump = TRUE
  BodySel = {1, 2, 3, 4, 5, 6, 7, 8}
INVARIANT Consistent
INVARIANT FinallyOnce
INVARIANT CleanupOnDel
INVARIANT NoUnsup
INVARIANT Publish
PROPERTY Causal
CHECK_DEADLOCK FALSE
