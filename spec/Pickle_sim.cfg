SPECIFICATION Spec
CONSTANTS
  NNames = 4
  Kinds = {"num", "flt", "obj", "typed", "agg", "struct", "ptr", "cstr", "carr"}
  MaxLvl = 3
  MaxVer = 3
  NVals = 3
  NV = 5
  FirstEdits = 3
  MaxEdits = 2
  Opts = {"dict", "cinit", "off", "force", "py"}
  Mode = "sim"
  CksMode = "names"
  Dump = TRUE
INVARIANT Publish
INVARIANT PublishedMeet
CHECK_DEADLOCK FALSE
