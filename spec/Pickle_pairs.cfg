SPECIFICATION Spec
CONSTANTS
  NNames = 2
  Kinds = {"num", "obj", "struct", "ptr"}
  MaxLvl = 2
  MaxVer = 2
  NVals = 0
  NV = 2
  FirstEdits = 0
  MaxEdits = 0
  Opts = {"dict", "py"}
  Mode = "pairs"
  CksMode = "names"
  Dump = FALSE
INVARIANT ImplMeetsDemand
INVARIANT NoMisassign
CHECK_DEADLOCK FALSE
