SPECIFICATION Spec
CONSTANTS
  Alphabet <- QuickAlphabet
  MaxLen = 5
  Blocks <- BigBlocks
  MaxBlocks = 3
  BlockAfter = 2
  Dump = TRUE
INVARIANT AutomatonConsistent
INVARIANT StrToNumberOK
INVARIANT CLiteralOK
INVARIANT UnderscoreNeutral
INVARIANT Publish
CHECK_DEADLOCK FALSE
