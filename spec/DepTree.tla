------------------------------ MODULE DepTree ------------------------------
(* C46, part A: the memoised transitive dependency computation of           *)
(* Cython/Build/Dependencies.py                                             *)
(*     DependencyTree.all_dependencies  ->  transitive_merge                *)
(*                                      ->  transitive_merge_helper         *)
(*                                                                          *)
(* Reference      : Closure(n) = reflexive-transitive closure of the edge   *)
(*                  relation (edges = what cimported_files() returns).      *)
(* Implementation : step-by-step transcription of transitive_merge_helper:  *)
(*   explicit recursion stack `frames` (the dict `stack` of the code maps   *)
(*   node -> depth, i.e. the position of its frame), the memo `seen`        *)
(*   (= _transitive_cache[extract, merge], shared by all queries on one     *)
(*   DependencyTree), loop-head selection by stack index, "memoise only     *)
(*   when not inside an open loop".                                         *)
(*                                                                          *)
(* One behaviour = one graph (chosen in Init, with an iteration order for   *)
(* every successor list) and an arbitrary sequence of queries on one tree.  *)
(* MaxQ = 0: any number of queries (state space is finite: the memo only    *)
(* grows); MaxQ > 0 and Dump: the query history with the expected result    *)
(* and the expected memo key set after every query is printed at the leaves *)
(* and replayed on the real DependencyTree by harness/checks/c46.py.        *)
EXTENDS Naturals, Sequences, FiniteSets, TLC, Json, IOUtils, SequencesExt

CONSTANTS NConst,     \* number of nodes when the graphs are enumerated here
          OrderMode,  \* "ad": successor lists ascending or descending (whole graph)
                      \* "perm": every permutation of every successor list
                      \* "file": [succ, plan] records in IOEnv.DT_GRAPHS (graph with orders and the
                      \*         query sequence to run on it), N = IOEnv.DT_N
          SelfLoops,  \* FALSE: enumerate only graphs without edges n -> n ("ad"/"perm")
          MaxQ,       \* 0 = unbounded number of queries (no history), else bound
          Dump        \* TRUE: print the history of every behaviour with MaxQ queries

VARIABLES succ,    \* node -> sequence of successors (iteration order of cimported_files)
          seenK,   \* memo: set of memoised nodes
          seenV,   \* memo: node -> memoised dependency set ({} when not memoised)
          frames,  \* recursion stack: <<[node, i, deps, loop]>>, loop = 0 is None
          ok,      \* the last finished query returned Closure(q) and left q memoised
          plan,    \* "file" mode: the query sequence to run (<<>> otherwise: free choice)
          nq,      \* number of queries started (only counted when there is a bound)
          hist     \* Dump: <<[q, res, keys]>>

vars == <<succ, plan, seenK, seenV, frames, ok, nq, hist>>

N == IF OrderMode = "file" THEN atoi(IOEnv.DT_N) ELSE NConst
Nodes == 1..N

---------------------------------------------------------------------------
(* graphs *)
Asc(S)  == SetToSortSeq(S, LAMBDA a, b : a < b)
Desc(S) == SetToSortSeq(S, LAMBDA a, b : a > b)
Perms(S) == {s \in [1..Cardinality(S) -> S] : \A i, j \in 1..Cardinality(S) : s[i] = s[j] => i = j}

FileCases == LET gs == ndJsonDeserialize(IOEnv.DT_GRAPHS) IN {gs[i] : i \in 1..Len(gs)}

(* the graph of a behaviour: chosen once, never changes *)
InitGraph ==
  CASE OrderMode = "ad" ->
         \E E \in [Nodes -> SUBSET Nodes], d \in BOOLEAN :
            /\ SelfLoops \/ \A n \in Nodes : n \notin E[n]
            /\ succ = [n \in Nodes |-> IF d THEN Desc(E[n]) ELSE Asc(E[n])]
            /\ plan = <<>>
    [] OrderMode = "perm" ->
         /\ succ \in [Nodes -> UNION {Perms(S) : S \in SUBSET Nodes}]
         /\ SelfLoops \/ \A n \in Nodes : \A i \in 1..Len(succ[n]) : succ[n][i] # n
         /\ plan = <<>>
    [] OrderMode = "file" -> \E c \in FileCases : succ = c.succ /\ plan = c.plan

Edges(n)   == {succ[n][i] : i \in 1..Len(succ[n])}
Extract(n) == {n} \cup Edges(n)      \* immediate_dependencies(n)

---------------------------------------------------------------------------
(* reference *)
RECURSIVE Reach(_, _)
Reach(S, k) == IF k = 0 THEN S ELSE Reach(S \cup UNION {Edges(n) : n \in S}, k - 1)
Closure(n) == Reach({n}, N)

---------------------------------------------------------------------------
(* implementation-shaped: transitive_merge_helper, one call/return per step *)
Idle  == frames = <<>>
Depth == Len(frames)
Top   == frames[Depth]
OnStack(F, n) == \E k \in 1..Len(F) : F[k].node = n
Pos(F, n) == CHOOSE k \in 1..Len(F) : F[k].node = n      \* stack[n]

(* the caller's loop body after a call returned (sub_deps, sub_loop):       *)
(*   if sub_loop is not None:                                               *)
(*       if loop is not None and stack[loop] < stack[sub_loop]: pass        *)
(*       else: loop = sub_loop                                              *)
(*   deps = merge(deps, sub_deps)                                           *)
Merged(F, subdeps, subloop) ==
  LET f == F[Len(F)]
      l == IF subloop = 0 THEN f.loop
           ELSE IF f.loop # 0 /\ Pos(F, f.loop) < Pos(F, subloop) THEN f.loop
           ELSE subloop
  IN [F EXCEPT ![Len(F)] = [f EXCEPT !.deps = @ \cup subdeps, !.loop = l, !.i = @ + 1]]

NewFrame(n) == [node |-> n, i |-> 1, deps |-> Extract(n), loop |-> 0]

QLimit == IF OrderMode = "file" THEN Len(plan) ELSE MaxQ
MayQuery(n) == /\ Idle /\ (QLimit = 0 \/ nq < QLimit)
               /\ OrderMode = "file" => plan[nq + 1] = n
Count == nq' = IF QLimit = 0 THEN 0 ELSE nq + 1
Log(qq, r, K) == hist' = IF Dump THEN Append(hist, [q |-> qq, res |-> Asc(r), keys |-> Asc(K)]) ELSE hist

(* all_dependencies(n) on a memoised node: `if node in seen: return seen[node]` *)
QueryHit(n) ==
  /\ MayQuery(n) /\ n \in seenK
  /\ ok' = (seenV[n] = Closure(n)) /\ Count /\ Log(n, seenV[n], seenK)
  /\ UNCHANGED <<succ, plan, seenK, seenV, frames>>

QueryMiss(n) ==
  /\ MayQuery(n) /\ n \notin seenK
  /\ Count /\ frames' = <<NewFrame(n)>>
  /\ UNCHANGED <<succ, plan, seenK, seenV, ok, hist>>

Calling == ~Idle /\ Top.i <= Len(succ[Top.node])
Callee  == succ[Top.node][Top.i]

(* recursive call answered by the memo *)
CallMemo ==
  /\ Calling /\ Callee \in seenK
  /\ frames' = Merged(frames, seenV[Callee], 0)
  /\ UNCHANGED <<succ, plan, seenK, seenV, ok, nq, hist>>

(* recursive call reaches a node that is on the stack: `return deps, node` *)
CallStack ==
  /\ Calling /\ Callee \notin seenK /\ OnStack(frames, Callee)
  /\ frames' = Merged(frames, Extract(Callee), Callee)
  /\ UNCHANGED <<succ, plan, seenK, seenV, ok, nq, hist>>

CallDescend ==
  /\ Calling /\ Callee \notin seenK /\ ~OnStack(frames, Callee)
  /\ frames' = Append(frames, NewFrame(Callee))
  /\ UNCHANGED <<succ, plan, seenK, seenV, ok, nq, hist>>

(* end of the for loop:  if loop == node: loop = None                       *)
(*                       if loop is None: seen[node] = deps                 *)
(*                       return deps, loop   (finally: del stack[node])     *)
Return ==
  /\ ~Idle /\ Top.i > Len(succ[Top.node])
  /\ LET f == Top
         l == IF f.loop = f.node THEN 0 ELSE f.loop
         K == IF l = 0 THEN seenK \cup {f.node} ELSE seenK
     IN /\ seenK' = K
        /\ seenV' = IF l = 0 THEN [seenV EXCEPT ![f.node] = f.deps] ELSE seenV
        /\ IF Depth = 1
           THEN /\ frames' = <<>> /\ Log(f.node, f.deps, K)   \* the query on f.node is finished
                /\ ok' = (f.deps = Closure(f.node) /\ f.node \in K)
           ELSE /\ frames' = Merged(SubSeq(frames, 1, Depth - 1), f.deps, l)
                /\ UNCHANGED <<ok, hist>>
  /\ UNCHANGED <<succ, plan, nq>>

Init ==
  /\ InitGraph
  /\ seenK = {} /\ seenV = [n \in Nodes |-> {}]
  /\ frames = <<>> /\ ok = TRUE /\ nq = 0 /\ hist = <<>>

DoQueryHit  == \E n \in Nodes : QueryHit(n)
DoQueryMiss == \E n \in Nodes : QueryMiss(n)
Next == DoQueryHit \/ DoQueryMiss \/ CallMemo \/ CallStack \/ CallDescend \/ Return

Spec == Init /\ [][Next]_vars

---------------------------------------------------------------------------
(* properties *)
(* every memo entry is a COMPLETE closure, at every moment *)
MemoComplete == \A k \in seenK : seenV[k] = Closure(k)
(* a finished query returns the closure and leaves its root memoised *)
ResultCorrect == ok
(* partial results never contain a non-dependency *)
PartialSound == \A k \in 1..Depth : /\ frames[k].deps \subseteq Closure(frames[k].node)
                                    /\ Extract(frames[k].node) \subseteq frames[k].deps
(* an open loop head is always on the stack, at or above the frame *)
LoopOnStack == \A k \in 1..Depth : frames[k].loop # 0 =>
                  /\ OnStack(frames, frames[k].loop) /\ Pos(frames, frames[k].loop) <= k
(* the stack is a simple path of the graph *)
StackIsPath == /\ \A i, j \in 1..Depth : frames[i].node = frames[j].node => i = j
               /\ \A k \in 1..(Depth - 1) : frames[k + 1].node \in Edges(frames[k].node)

DumpLeaves == (Dump /\ Idle /\ QLimit > 0 /\ nq = QLimit) =>
                 PrintT("@@" \o ToJson([n |-> N, succ |-> succ, qs |-> hist]))
=============================================================================
