SPECIFICATION Spec
CONSTANTS
  Pairs <- PairsCC
  Profile = "strict"
  Dump = FALSE
INVARIANT RefShape
INVARIANT ImplAgrees
INVARIANT Publish
CHECK_DEADLOCK FALSE
