SPECIFICATION Spec
CONSTANTS
  Pairs <- PairsSq
  FamC <- Five
  FamS <- Five
  FamD <- Tiny
  FamO <- Tiny
  Dump = FALSE
INVARIANT RefShape
INVARIANT ImplAgrees
INVARIANT Publish
CHECK_DEADLOCK FALSE
