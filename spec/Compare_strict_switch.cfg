SPECIFICATION Spec
CONSTANTS
  Part = "switch"
  MaxArms = 2
INVARIANT SwitchStrict
CHECK_DEADLOCK FALSE
