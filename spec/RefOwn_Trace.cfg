SPECIFICATION Spec
INVARIANT NonNegative
INVARIANT Progress
INVARIANT FlagsGrow
INVARIANT Publish
CHECK_DEADLOCK FALSE
