#!/usr/bin/env python3
"""Run the pinned suite of /root/.vp/BASELINE.json (guard off) and compare with stable_pass.
exit 0 iff every stable_pass test passed."""
import json, os, subprocess, sys, tempfile, xml.etree.ElementTree as ET
b = json.load(open("/root/.vp/BASELINE.json"))
out = tempfile.mktemp(suffix=".xml", dir="/var/tmp")
cmd = b["cmd"].replace("<file>", out)
if os.environ.get("BASELINE_REPO"):  # run the same suite on a scratch checkout
    cmd = cmd.replace("cd /repo", "cd " + os.environ["BASELINE_REPO"])
env = dict(os.environ); env.pop("CYTHON_VERIF", None)
subprocess.run(cmd, shell=True, env=env, stdout=subprocess.DEVNULL, stderr=subprocess.DEVNULL)
passed = set()
for tc in ET.parse(out).getroot().iter("testcase"):
    if not any(ch.tag in ("failure", "error", "skipped") for ch in tc):
        passed.add("%s::%s" % (tc.get("classname"), tc.get("name")))
os.unlink(out)
want = set(b["stable_pass"])
missing = sorted(want - passed)
print("stable_pass=%d passed_now=%d missing=%d" % (len(want), len(passed & want), len(missing)))
for m in missing[:20]:
    print("  MISSING", m)
sys.exit(1 if missing else 0)
