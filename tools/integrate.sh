#!/bin/sh
# integrate a finished check: merge its known-findings fragment, register it, regenerate the manifest
set -e
cd /verif
for id in "$@"; do
  if [ -f known_findings.d/$id.jsonl ]; then
    python3 -c "
import sys,json
for l in open('known_findings.d/$id.jsonl'):
    if l.strip(): print(json.dumps(json.loads(l)))" >> known_findings.jsonl
    rm -f known_findings.d/$id.jsonl
  fi
  grep -qx $id tools/integrated.txt || echo $id >> tools/integrated.txt
done
python3 tools/gen_manifest.py
