#!/usr/bin/env python3
"""usage: mark_fixed.py APPLIED_FILE  (lines "KF-id commit"): sets those entries to fixed in known_findings.jsonl"""
import json, sys
fx = dict(l.split()[:2] for l in open(sys.argv[1]) if l.startswith("KF-") and len(l.split()) == 2)
out = []
for l in open('/verif/known_findings.jsonl'):
    r = json.loads(l)
    if r['id'] in fx and r['status'] != 'fixed':
        r['status'] = 'fixed'
        r['line'] = "fixed: property=%s %s %s" % (r['property'], fx[r['id']], " ".join((r.get('what') or '').split())[:300])
        print("marked", r['id'], fx[r['id']])
    out.append(r)
open('/verif/known_findings.jsonl', 'w').write(''.join(json.dumps(r) + '\n' for r in out))
