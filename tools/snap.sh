#!/bin/sh
# make a pure-Python snapshot of /repo/Cython at $1 (for manual experiments)
mkdir -p "$1" && rsync -a --delete --exclude '*.so' --exclude '__pycache__' --exclude '/Cython/Compiler/*.c' --exclude '/Cython/Plex/*.c' --exclude '/Cython/Tempita/*.c' --exclude '/Cython/*.c' /repo/Cython "$1"/
