#!/bin/sh
# usage: apply_fixes.sh PID  -- applies /var/tmp/fixes/PID/<KF>.patch in ORDER to /repo, one "fix:" commit each,
# and prints "KF commit" pairs (to be recorded in known_findings.jsonl)
pid=$1; d=/var/tmp/fixes/$pid
for kf in $(cat $d/ORDER); do
  [ -f $d/$kf.patch ] || { echo "$kf: no patch"; continue; }
  if git -C /repo apply --check $d/$kf.patch 2>/dev/null; then
    git -C /repo apply $d/$kf.patch && git -C /repo commit -qa -F $d/$kf.msg && echo "$kf $(git -C /repo log --format=%h -1)"
  else
    echo "$kf: patch does not apply"
  fi
done
