#!/bin/sh
# usage: try_seeds.sh PID:WT[:CHECK] ...   runs check CHECK (default PID) with VERIF_REPO=WT, prints rc and VIOLATION count
for a in "$@"; do
  pid=$(echo $a | cut -d: -f1); wt=$(echo $a | cut -d: -f2); chk=$(echo $a | cut -d: -f3); [ -z "$chk" ] && chk=$pid
  out=/var/tmp/seedrun_${pid}_${chk}.log
  d=/var/tmp/seedrun_$pid; mkdir -p $d/ev
  VERIF_REPO=$wt VERIF_SCRATCH=$d/scratch VERIF_EVIDENCE_DIR=$d/ev VERIF_REPLAY_DIR=$d/replay timeout 3000 /venv/bin/python /verif/harness/check.py $chk --tier quick > $out 2>&1
  echo "$pid via $chk: rc=$? violations=$(grep -c '^VIOLATION' $out) known=$(grep -c '^KNOWN' $out)"
done
