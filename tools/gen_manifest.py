#!/usr/bin/env python3
"""Generate /verif/MANIFEST.json from tools/checks.json (one entry per claimed property)."""
import json, os
V = os.path.dirname(os.path.dirname(os.path.abspath(__file__)))
cfg = json.load(open(os.path.join(V, "tools", "checks.json")))
import glob
integrated = set(open(os.path.join(V, "tools", "integrated.txt")).read().split())
for f in sorted(glob.glob(os.path.join(V, "tools", "checks.d", "C*.json"))):
    c = json.load(open(f))
    if c["id"] in integrated:      # fragments of checks still under construction are not claimed yet
        cfg["checks"].append(c)
checks = []
for c in cfg["checks"]:
    pid = c["id"]
    e = {
        "property_id": pid,
        "quick_cmd": "/venv/bin/python harness/check.py %s --tier quick" % pid,
        "evidence_file": "/verif/evidence/%s.json" % pid,
        "replay_cmd_template": "/venv/bin/python harness/check.py %s --replay {path}" % pid,
        "engine": c.get("engine", "tlc+replay"),
        "level_claimed": {"category": c["level"], "text": c["text"], "design_ref": c.get("design_ref", "DESIGN.md section 4, " + pid)},
        "level_note": c["note"],
        "technique": c["technique"],
    }
    if c.get("thorough", True):
        e["thorough_cmd"] = "/venv/bin/python harness/check.py %s --tier thorough" % pid
    checks.append(e)
props = [json.loads(l)["id"] for l in open(os.path.join(V, "properties.jsonl"))]
claimed = {c["id"] for c in cfg["checks"]}
na = []
for p in props:
    if p not in claimed:
        na.append({"property_id": p, "reason": cfg["not_applicable"].get(p, "check not built yet in this round (planned in DESIGN.md section 4); not claimed")})
for eng in cfg["engines"]:
    eng["serves_properties"] = sorted(c["property_id"] for c in checks if c.get("engine") == eng["name"])
m = {
    "version": 1,
    "setup_cmd": cfg["setup_cmd"],
    "hooks": cfg["hooks"],
    "engines": cfg["engines"],
    "checks": checks,
    "notes": cfg["notes"],
    "not_applicable": na,
}
json.dump(m, open(os.path.join(V, "MANIFEST.json"), "w"), indent=1)
print("claimed", len(checks), "not_applicable", len(na))
