#!/bin/sh
# usage: confirm_seed.sh PID  -- confirms /tmp/seed_PID against worktree /tmp/wt_PID (patch applied there):
# demo exits 1 with the patch, 0 without, pinned suite still 504/504 with the patch; then stores it as /verif/seeded/PID-N
pid=$1; wt=/tmp/wt_$pid; sd=/tmp/seed_$pid
cd $wt || exit 2
git diff > /var/tmp/confirm_$pid.diff
[ -s /var/tmp/confirm_$pid.diff ] || { echo "$pid: no change in worktree"; exit 2; }
PYTHONPATH=$wt timeout 600 /venv/bin/python $sd/demo.py > /var/tmp/confirm_$pid.with 2>&1; rc_with=$?
git apply -R /var/tmp/confirm_$pid.diff
PYTHONPATH=$wt timeout 600 /venv/bin/python $sd/demo.py > /var/tmp/confirm_$pid.without 2>&1; rc_without=$?
git apply /var/tmp/confirm_$pid.diff
suite=$(BASELINE_REPO=$wt python3 /verif/tools/baseline.py | head -1)
git -C $wt status --short | grep '^??' | awk '{print $2}' | while read f; do rm -rf "$wt/$f"; done
echo "$pid: demo_with_patch=$rc_with demo_without=$rc_without suite: $suite"
if [ $rc_with = 1 ] && [ $rc_without = 0 ] && echo "$suite" | grep -q "missing=0"; then
  n=1; while [ -d /verif/seeded/$pid-$n ]; do n=$((n+1)); done
  mkdir -p /verif/seeded/$pid-$n
  cp /var/tmp/confirm_$pid.diff /verif/seeded/$pid-$n/patch.diff; cp $sd/demo.py $sd/meta.json /verif/seeded/$pid-$n/
  echo "$pid: stored as /verif/seeded/$pid-$n"
fi
