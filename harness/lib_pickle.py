"""C29 helpers (shared by harness/checks/c29.py and the child harness/lib_pickle_child.py).

* concrete values of the tags that spec/Pickle.tla uses (the binding owns tag -> value)
* rendering of a layout (one version of one slot) to Cython source
* `enc`: canonical, identity-aware encoding of attribute values
* `py_demand`: independent re-statement (P) of the spec's Demand
* `judge`: compares one observation with the spec's expectation
"""
import enum
import hashlib

NAMES = ["a", "b", "c", "d"]
SHL_CONTENT = [1, "shared"]
OINT = 12345678901234567890
OTXT = "t\xe9xt"
HAZARD_KINDS = ("cstr", "carr")

# abstract name -> concrete attribute name (per slot one scheme; sort order differs from the abstract one in most)
NAME_SCHEMES = [
    ("a", "b", "c", "d"),
    ("z", "y", "x", "w"),
    ("Zb", "a", "_c", "D9"),
    ("\xfc", "b", "\xe9", "d"),
    ("m10", "m9", "m1", "m"),
]

# kind -> list of (C declaration, {tag: Python expression})
VARIANTS = {
    "num": [
        ("int", {"n0": "0", "n1": "2147483647", "n2": "-2147483648"}),
        ("long long", {"n0": "-1", "n1": "9223372036854775807", "n2": "-9223372036854775808"}),
        ("unsigned char", {"n0": "0", "n1": "255", "n2": "7"}),
        ("short", {"n0": "1", "n1": "32767", "n2": "-32768"}),
        ("Py_ssize_t", {"n0": "0", "n1": "9223372036854775807", "n2": "-5"}),
        ("unsigned long long", {"n0": "0", "n1": "18446744073709551615", "n2": "1"}),
        ("bint", {"n0": "False", "n1": "True", "n2": "True"}),
        ("PE", {"n0": "PE.pa", "n1": "PE.pb", "n2": "PE.pc"}),
        ("Py_UCS4", {"n0": "'a'", "n1": "'\\U0001f600'", "n2": "'\\x00'"}),
    ],
    "flt": [
        ("double", {"f0": "-0.0", "f1": "1.5", "f2": "float('inf')", "f3": "float('nan')"}),
        ("float", {"f0": "0.5", "f1": "-2.25", "f2": "float('-inf')", "f3": "float('nan')"}),
        ("double complex", {"f0": "0j", "f1": "(1+2j)", "f2": "complex(float('inf'), -1.0)", "f3": "(-0.5-0.25j)"}),
        ("long double", {"f0": "0.0", "f1": "1.25", "f2": "-3.5", "f3": "float('inf')"}),
    ],
    "obj": [
        ("object", {"none": "None", "self": "@self", "shl": "@shl", "oint": repr(OINT), "otxt": repr(OTXT)}),
    ],
    "typed": [
        ("str", {"none": "None", "t1": "''", "t2": "'h\\xe9llo'"}),
        ("list", {"none": "None", "t1": "[]", "t2": "[1, [2, 'x']]"}),
        ("dict", {"none": "None", "t1": "{}", "t2": "{'k': [1, 2], 3: None}"}),
        ("bytes", {"none": "None", "t1": "b''", "t2": "b'\\x00\\xff'"}),
        ("tuple", {"none": "None", "t1": "()", "t2": "(1, (2.5, 'x'))"}),
        ("set", {"none": "None", "t1": "set()", "t2": "{1, 'a'}"}),
        ("Aux", {"none": "None", "t1": "Aux(1)", "t2": "Aux(-7)"}),
    ],
    "agg": [
        ("int[3]", {"g0": "[0, 0, 0]", "g1": "[1, -2, 3]"}),
        ("(int, double)", {"g0": "(0, 0.0)", "g1": "(-4, 2.5)"}),
        ("S[2]", {"g0": "[{'x': 0, 'y': 0.0}, {'x': 1, 'y': -1.0}]", "g1": "[{'x': 7, 'y': 2.5}, {'x': -7, 'y': 0.5}]"}),
    ],
    "struct": [
        ("S", {"s0": "{'x': 0, 'y': 0.0}", "s1": "{'x': -5, 'y': 2.5}"}),
    ],
    "ptr": [("int*", {}), ("void*", {}), ("S*", {})],
    "cstr": [
        ("char*", {"c0": "b'cstr-value-one'", "c1": "b'x'"}),
        ("const char*", {"c0": "b'const-cstr-0123'", "c1": "b'yz'"}),
        ("unsigned char*", {"c0": "b'unsigned-cstr'", "c1": "b'q'"}),
    ],
    "carr": [
        ("char[8]", {"a0": "b'abc'", "a1": "b'abcdefg'"}),
    ],
}


def variant(slot_key, name, kind):
    """Stable choice of the C declaration for (slot, abstract name, kind): a member that keeps
    its name and kind keeps its declaration across the versions of a slot."""
    vs = VARIANTS[kind]
    h = int(hashlib.sha1(("%s/%s/%s" % (slot_key, name, kind)).encode()).hexdigest()[:8], 16)
    return vs[h % len(vs)]


def name_scheme(slot_key):
    h = int(hashlib.sha1(("names/%s" % slot_key).encode()).hexdigest()[:8], 16)
    return dict(zip(NAMES, NAME_SCHEMES[h % len(NAME_SCHEMES)]))


# --------------------------------------------------------------------------
# stand-ins used when expressions are evaluated outside the compiled module


class PE(enum.IntEnum):
    pa = 1
    pb = 2
    pc = 3


class Aux(object):
    def __init__(self, v=0):
        self.v = v


def eval_expr(expr, ns=None):
    env = {"PE": PE, "Aux": Aux}
    if ns:
        env.update(ns)
    return eval(expr, env)


def enc(v, ctx=None, depth=0):
    """Canonical JSON-able encoding.  ctx: {"new": loaded object, "orig": original or None,
    "shl": the original aliased list or None, "groups": {id: index}}"""
    ctx = ctx if ctx is not None else {}
    if ctx.get("new") is not None and v is ctx["new"]:
        return "self"
    if ctx.get("orig") is not None and v is ctx["orig"]:
        return "orig"
    if ctx.get("shl") is not None and v is ctx["shl"]:
        return "shl"
    if type(v) is list and v == SHL_CONTENT:
        g = ctx.setdefault("groups", {})
        if id(v) not in g:
            g[id(v)] = len(g)
        ctx.setdefault("keep", []).append(v)
        return "shlnew#%d" % g[id(v)]
    if v is None:
        return "None"
    if isinstance(v, enum.Enum):
        return "enum:%d" % int(v.value)
    if isinstance(v, bool):
        return "bool:%r" % v
    if isinstance(v, int):
        return "int:%d" % v
    if isinstance(v, float):
        return "float:%r" % v
    if isinstance(v, complex):
        return "complex:%r:%r" % (v.real, v.imag)
    if isinstance(v, str):
        return "str:%r" % v
    if isinstance(v, (bytes, bytearray)):
        return "%s:%r" % (type(v).__name__, bytes(v))
    if depth > 6:
        return "deep"
    if isinstance(v, list):
        return ["list"] + [enc(x, ctx, depth + 1) for x in v]
    if isinstance(v, tuple):
        return ["tuple"] + [enc(x, ctx, depth + 1) for x in v]
    if isinstance(v, (set, frozenset)):
        return [type(v).__name__] + sorted((enc(x, ctx, depth + 1) for x in v), key=repr)
    if isinstance(v, dict):
        return ["dict"] + sorted(([enc(k, ctx, depth + 1), enc(x, ctx, depth + 1)] for k, x in v.items()), key=repr)
    if type(v).__name__ == "Aux":
        return "Aux:%d" % v.v
    return "other:%s" % type(v).__name__


def tag_enc(var, tag):
    """Expected encoding of a (transformed) tag for the declaration `var` = (decl, values)."""
    if tag in ("self", "orig", "shl"):
        return tag
    if tag == "shlnew":
        return "shlnew#0"
    return enc(eval_expr(var[1][tag]))


def dict_tag_enc(tag):
    if tag in ("self", "orig", "shl"):
        return tag
    if tag == "shlnew":
        return "shlnew#0"
    return enc({"oint": OINT, "otxt": OTXT}[tag])


# --------------------------------------------------------------------------
# rendering

PRELUDE = '''# cython: language_level=3
cimport cython
from libc.string cimport memcpy, memset

cdef struct S:
    int x
    double y

cpdef enum PE:
    pa = 1
    pb = 2
    pc = 3

cdef class Aux:
    cdef public int v
    def __init__(self, v=0):
        self.v = v

_keep = []
'''


def members(layout, lvl):
    return [x for x in NAMES if x in layout["mem"] and 0 <= layout["mem"][x]["lvl"] <= lvl]


def render_slot(s, slot_key, layout):
    """Cython source of the class chain S<s>C0 <- S<s>C1 <- ... for one layout."""
    names = name_scheme(slot_key)
    out = []
    for l in range(layout["n"]):
        if l < layout["off"]:
            out.append("@cython.auto_pickle(False)")
        if layout["force"] == l:
            out.append("@cython.auto_pickle(True)")
        base = "(S%dC%d)" % (s, l - 1) if l else ""
        out.append("cdef class S%dC%d%s:" % (s, l, base))
        body = []
        if layout["dict"] == l:
            body.append("cdef dict __dict__")
        own = [x for x in NAMES if x in layout["mem"] and layout["mem"][x]["lvl"] == l]
        for x in own:
            kind = layout["mem"][x]["kind"]
            decl = variant(slot_key, x, kind)[0]
            cn = names[x]
            if decl.endswith("]") and not decl.startswith("("):
                base_t, dim = decl.split("[", 1)
                body.append("cdef %s %s[%s" % (base_t, cn, dim))
            else:
                body.append("cdef %s %s" % (decl, cn))
        if layout["cinit"] == l:
            body.append("def __cinit__(self):\n        pass")
        for x in own:
            kind = layout["mem"][x]["kind"]
            cn = names[x]
            if kind == "ptr":
                continue
            if kind == "cstr":
                body.append("def set_%s(self, bytes v):\n        _keep.append(v)\n        self.%s = v" % (x, cn))
            elif kind == "carr":
                body.append("def set_%s(self, bytes v):\n        memset(self.%s, 0, 8)\n        memcpy(self.%s, <char*>v, len(v))" % (x, cn, cn))
            else:
                body.append("def set_%s(self, v):\n        self.%s = v" % (x, cn))
            body.append("def get_%s(self):\n        return self.%s" % (x, cn))
        if not body:
            body.append("pass")
        out.extend("    " + b for b in body)
        out.append("")
    return "\n".join(out)


def render_module(slots, ver):
    """slots: list of (s, slot_key, layouts); version `ver` (0-based) of every slot that has one."""
    parts = [PRELUDE]
    for s, key, layouts in slots:
        if ver < len(layouts):
            parts.append(render_slot(s, key, layouts[ver]))
    return "\n".join(parts)


def render_pysub(slots, maxlvl=3):
    """Pure-Python module c29py: Python subclasses S<s>P<l> of whatever classes the imported c29m has."""
    lines = ["import c29m", ""]
    for s, key, layouts in slots:
        for l in range(maxlvl):
            lines.append("if hasattr(c29m, 'S%dC%d'):\n    class S%dP%d(c29m.S%dC%d):\n        pass\n" % (s, l, s, l, s, l))
    return "\n".join(lines)


# --------------------------------------------------------------------------
# P: independent re-statement of the demand (written from the property statement and the
# documentation of auto_pickle, not from the spec text)


def _picklable(L, l):
    if l < L["off"]:
        return False
    if L["cinit"] != -1 and L["cinit"] <= l:
        return False
    kinds = [L["mem"][x]["kind"] for x in members(L, l)]
    if "ptr" in kinds:
        return False
    if "struct" in kinds and L["force"] != l:
        return False
    return True


def applicable(L, inst):
    l = inst["lvl"]
    if l >= L["n"]:
        return False
    hasdict = L["dict"] != -1 and L["dict"] <= l
    if inst["d"] != 0 and not (hasdict or inst["py"]):
        return False
    if l < L["off"] and not members(L, l):
        return False
    return True


def py_demand(L1, L2, inst):
    l = inst["lvl"]
    if not applicable(L1, inst):
        return "n/a"
    if not _picklable(L1, l):
        return "TypeError"
    if l >= L2["n"] or not _picklable(L2, l):
        return "raise"
    m1, m2 = members(L1, l), members(L2, l)
    if m1 != m2:
        return "raise"
    if inst["d"] != 0 and not ((L2["dict"] != -1 and L2["dict"] <= l) or inst["py"]):
        return "raise"
    if any(L1["mem"][x]["kind"] != L2["mem"][x]["kind"] for x in m1):
        return "byname"
    d1 = L1["dict"] if (L1["dict"] != -1 and L1["dict"] <= l) else -1
    d2 = L2["dict"] if (L2["dict"] != -1 and L2["dict"] <= l) else -1
    if d1 == d2 and all(L1["mem"][x]["lvl"] == L2["mem"][x]["lvl"] for x in m1):
        return "same"            # the chain up to this class is declared identically: it must load
    return "sameorraise"         # a changed layout may be refused, but never mis-assigned


def py_xform(op, tag):
    """identity structure CPython's pickle / copy produce (checked against real twins in the child, too)"""
    if op == "copy":
        return "orig" if tag == "self" else tag
    return "shlnew" if tag == "shl" else tag


# --------------------------------------------------------------------------
# digests of the member-name tuple (documented compatibility: sha256 now, sha1 / md5 from older releases)


def digests(concrete_names_sorted):
    s = " ".join(concrete_names_sorted).encode("utf-8")
    out = {}
    for alg, nm in ((1, "sha256"), (2, "sha1"), (3, "md5")):
        try:
            out[alg] = int(getattr(hashlib, nm)(s, usedforsecurity=False).hexdigest()[:7], 16)
        except (AttributeError, ValueError):
            pass
    return out


# --------------------------------------------------------------------------
# judge


def judge(demand, exp_fields, exp_dict, obs):
    """None if the observation satisfies the demand, else the class of the wrong observation.
    obs: {"crash": sig} | {"dump_exc": T} | {"load_exc": T} | {"fields", "dict", "dict_shared", "type", "want_type", ["byname"]}"""
    if "crash" in obs:
        return "crash"
    if "timeout" in obs:
        return "timeout"
    if demand == "TypeError":
        if "dump_exc" in obs:
            return None if obs["dump_exc"] == "TypeError" else "dump-raises:" + obs["dump_exc"]
        if "load_exc" in obs:
            return "load-raises:" + obs["load_exc"]
        return "no-exception"
    if "dump_exc" in obs:
        return "dump-raises:" + obs["dump_exc"]
    if demand == "raise":
        return None if "load_exc" in obs else "loaded"
    if demand == "byname":
        by = obs.get("byname")
        if by is None:
            return "no-byname-reference"
        if "load_exc" in obs:
            return None                          # a changed layout may always be refused
        if "exc" in by:
            return "loaded-but-assignment-raises"
        if obs["fields"] != by["fields"]:
            return "value-mismatch"
        if (obs["dict"] or {}) != (by["dict"] or {}):
            return "dict-mismatch"
        return None
    # same / sameorraise
    if "load_exc" in obs:
        return None if demand == "sameorraise" else "load-raises:" + obs["load_exc"]
    if obs.get("type") != obs.get("want_type"):
        return "type-mismatch"
    if obs["fields"] != exp_fields:
        return "value-mismatch"
    if (obs["dict"] or {}) != exp_dict:
        return "dict-mismatch"
    if obs.get("dict_shared"):
        return "dict-shared"
    return None
