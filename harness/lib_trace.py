"""C45 helpers: rendering of TraceEvents.tla programs, the recording driver, stream comparison,
random program growth (validated by the spec's WellFormed invariant)."""
import json
import os

import core

HELPERS = {"__enter__": 8, "__exit__": 9}
DECOR = {"def": [], "gen": [], "cfunc": ["@cython.cfunc"], "ccall": ["@cython.ccall"]}

ATOMS = {
    "ps": {"t": "pass"}, "rt": {"t": "ret"}, "rz": {"t": "raise"}, "bk": {"t": "brk"}, "yd": {"t": "yield"},
    "c1": {"t": "call", "c": 1}, "c2": {"t": "call", "c": 2}, "r1": {"t": "retcall", "c": 1}, "r2": {"t": "retcall", "c": 2},
    "nc": {"t": "nc"}, "gc": {"t": "gc"},
    "fa": {"t": "for", "b": {"t": "pass"}}, "fb": {"t": "for", "b": {"t": "brk"}}, "fr": {"t": "for", "b": {"t": "ret"}},
    "fz": {"t": "for", "b": {"t": "raise"}}, "fy": {"t": "for", "b": {"t": "yield"}}, "fc": {"t": "for", "b": {"t": "call", "c": 1}},
}


# ---------------------------------------------------------------------------- rendering

def render_stmt(s, names, ind, out):
    """names: {1: d1 name, 2: d2 name, 3: generator name}; one statement / clause header per line"""
    p = "    " * ind
    t = s["t"]
    if t == "pass":
        out.append(p + "pass")
    elif t == "ret":
        out.append(p + "return 1")
    elif t == "raise":
        out.append(p + "raise ValueError")
    elif t == "brk":
        out.append(p + "break")
    elif t == "yield":
        out.append(p + "yield 1")
    elif t == "call":
        out.append(p + "%s()" % names[s["c"]])
    elif t == "retcall":
        out.append(p + "return %s()" % names[s["c"]])
    elif t == "nc":
        out += [p + "g = %s()" % names[3], p + "next(g)", p + "g.close()"]
    elif t == "gc":
        out += [p + "g = %s()" % names[3], p + "g.close()"]
    elif t == "for":
        out.append(p + "for _ in %s():" % names[3])
        render_stmt(s["b"], names, ind + 1, out)
    elif t == "lp":
        out.append(p + "for _ in range(2):")
        render_stmt(s["b"], names, ind + 1, out)
    elif t == "with":
        out.append(p + "with CM():")
        render_stmt(s["b"], names, ind + 1, out)
    elif t == "seq":
        render_stmt(s["a"], names, ind, out)
        render_stmt(s["b"], names, ind, out)
    elif t == "te":
        out.append(p + "try:")
        render_stmt(s["b"], names, ind + 1, out)
        out.append(p + "except ValueError:")
        render_stmt(s["h"], names, ind + 1, out)
    elif t == "tf":
        out.append(p + "try:")
        render_stmt(s["b"], names, ind + 1, out)
        out.append(p + "finally:")
        render_stmt(s["f"], names, ind + 1, out)
    else:
        raise ValueError(t)


def stmt_src(s):
    """compact one-line form for reports"""
    t = s["t"]
    if t in ("pass", "ret", "raise", "brk", "yield", "nc", "gc"):
        return t
    if t in ("call", "retcall"):
        return "%s(d%d)" % (t, s["c"])
    if t in ("for", "lp", "with"):
        return "%s[%s]" % (t, stmt_src(s["b"]))
    if t == "seq":
        return "%s; %s" % (stmt_src(s["a"]), stmt_src(s["b"]))
    if t == "te":
        return "try[%s] except[%s]" % (stmt_src(s["b"]), stmt_src(s["h"]))
    return "try[%s] finally[%s]" % (stmt_src(s["b"]), stmt_src(s["f"]))


def prog_src(case):
    return ["f%d:%s %s" % (i + 1, f["k"], stmt_src(f["b"])) for i, f in enumerate(case["p"])]


def render_module(cases):
    """cases: list of (pid, case).  Returns (source, deflines {(pid, f): line}, helper deflines {8: line, 9: line})"""
    lines = ["import cython", "class CM:", "    def __enter__(self):", "        return self",
             "    def __exit__(self, *a):", "        return False"]
    hdef = {8: 3, 9: 5}
    deflines = {}
    for pid, case in cases:
        fns = case["p"]
        for i, f in enumerate(fns, 1):
            names = {c + 1: ("p%d_f%d" % (pid, j) if j else None) for c, j in enumerate(f["ch"])}
            lines += DECOR[f["k"]]
            lines.append("def p%d_f%d():" % (pid, i))
            deflines[(pid, i)] = len(lines)
            body = []
            render_stmt(f["b"], names, 1, body)
            if len(body) != f["n"]:
                core.die("layout of the renderer (%d lines) differs from the spec's Size (%d): %r" % (len(body), f["n"], f["b"]))
            lines += body
    return "\n".join(lines) + "\n", deflines, hdef


# ---------------------------------------------------------------------------- the recording driver (runs in a child)

DRIVER = r'''
import sys, json, gc
mode, kind, modname, tail, srcpath = sys.argv[1:6]
pids = json.loads(sys.argv[6])
gc.disable()
sys.unraisablehook = lambda *a: None
if mode == "P":
    import types
    m = types.ModuleType(modname)
    with open(srcpath) as f:
        exec(compile(f.read(), tail, "exec"), m.__dict__)
else:
    m = __import__(modname)
    assert m.__file__.endswith(".so"), m.__file__
ev = []
def prof(frame, event, arg):
    if event == "call" or event == "return":
        co = frame.f_code
        if co.co_filename.endswith(tail):
            ev.append((event[0], co.co_name, frame.f_lineno))
def tr(frame, event, arg):
    if event != "exception":
        co = frame.f_code
        if co.co_filename.endswith(tail):
            ev.append((event[0], co.co_name, frame.f_lineno))
            return tr
    return tr
for pid in pids:
    f = getattr(m, "p%d_f1" % pid)
    del ev[:]
    out = "ok"
    if kind == "profile":
        sys.setprofile(prof)
    else:
        sys.settrace(tr)
    try:
        try:
            f()
        except ValueError:
            out = "VE"
        except BaseException:
            out = "OT"
    finally:
        sys.setprofile(None)
        sys.settrace(None)
    print("@@" + json.dumps({"id": pid, "ev": ev, "out": out}))
    sys.stdout.flush()
'''


def run_driver(mode, kind, modname, sodir, srcpath, pids, timeout=600):
    """mode 'P' (CPython on the source) or 'C' (the compiled module); kind 'profile' | 'trace'.
    Returns ({pid: record}, [(pid, how)] of programs that killed the child).  After a crash the remaining
    programs are run in a fresh child."""
    tail = os.path.basename(srcpath)
    got, died = {}, []
    todo = list(pids)
    while todo and len(died) < 8:
        r = core.run_child(DRIVER, [mode, kind, modname, tail, srcpath, json.dumps(todo)], cwd=core.subdir("c45run"),
                           paths=[sodir] if mode == "C" else [], with_snapshot=True, timeout=timeout)
        for rec in r.json_lines():
            got[rec["id"]] = rec
        rest = [p for p in todo if p not in got]
        if not rest:
            break
        how = "timeout" if r.timed_out else ("signal %d" % r.signal if r.crashed else "exit %s: %s" % (r.rc, r.err[-300:]))
        died.append((rest[0], how))
        core.CRASH_LOGS.append({"call": "%s %s %s p%d" % (mode, kind, modname, rest[0]), "stderr": r.err[-1500:]})
        todo = rest[1:]
    return got, died


# ---------------------------------------------------------------------------- streams

def normalise(rec, pid, deflines, hdef):
    """recorded events -> [k, f, rel line]; unknown names get f = 0"""
    out = []
    pre = "p%d_f" % pid
    for k, name, line in rec["ev"]:
        if name.startswith(pre) and name[len(pre):].isdigit():
            f = int(name[len(pre):])
            d = deflines.get((pid, f))
            out.append([k, f, line - d if d is not None else -1])
        elif name in HELPERS:
            f = HELPERS[name]
            out.append([k, f, line - hdef[f]])
        else:
            out.append([k, 0, -1])
    return out


def spec_views(case):
    """from the expected events of the spec: projection, strict stream, allowed lines per activation"""
    proj, strict, acts = [], [], []
    allowed = {}
    strict_lines = set()
    for k, f, a, l, s in case["ev"]:
        if k == "line":
            allowed.setdefault(a, set()).add(l)
            if s:
                strict.append(["l", f, l])
                strict_lines.add((f, l))
        else:
            kk = "c" if k in ("call", "resume", "throw") else "r"
            proj.append([kk, f])
            strict.append([kk, f])
            acts.append(a)
            allowed.setdefault(a, set())
    return {"proj": proj, "strict": strict, "acts": acts, "allowed": allowed, "strict_lines": strict_lines}


def proj_of(stream):
    return [[k, f] for k, f, _ in stream if k != "l"]


def strict_of(stream, strict_lines):
    return [[k, f, l] if k == "l" else [k, f] for k, f, l in stream if k != "l" or (f, l) in strict_lines]


def line_check(stream, views):
    """stream has the expected start/end events; every line event must name a line that the reference semantics
    executes in the activation on top.  Returns None or (index, reason)."""
    stack = []
    i = 0
    for n, (k, f, l) in enumerate(stream):
        if k == "c":
            stack.append((f, views["acts"][i]))
            i += 1
        elif k == "r":
            stack.pop()
            i += 1
        else:
            if not stack:
                return n, "line-event-outside-any-activation"
            tf, ta = stack[-1]
            if tf != f:
                return n, "line-event-of-a-function-that-is-not-on-top"
            if l not in views["allowed"][ta]:
                return n, "line-not-executed-by-the-activation"
    return None


# ---------------------------------------------------------------------------- random growth of programs (seeded)

SKEL = {
    1: lambda x, z, v: x,
    2: lambda x, z, v: {"t": "seq", "a": x, "b": z},
    3: lambda x, z, v: {"t": "te", "b": x, "h": z},
    4: lambda x, z, v: {"t": "tf", "b": x, "f": z},
    5: lambda x, z, v: {"t": "lp", "b": x},
    6: lambda x, z, v: {"t": "with", "b": x},
    7: lambda x, z, v: {"t": "seq", "a": {"t": "te", "b": x, "h": z}, "b": v},
    8: lambda x, z, v: {"t": "seq", "a": {"t": "tf", "b": x, "f": z}, "b": v},
    9: lambda x, z, v: {"t": "tf", "b": {"t": "te", "b": x, "h": z}, "f": v},
    10: lambda x, z, v: {"t": "te", "b": {"t": "tf", "b": x, "f": z}, "h": v},
    11: lambda x, z, v: {"t": "lp", "b": {"t": "tf", "b": x, "f": z}},
    12: lambda x, z, v: {"t": "lp", "b": {"t": "te", "b": x, "h": z}},
    13: lambda x, z, v: {"t": "lp", "b": {"t": "seq", "a": x, "b": z}},
    14: lambda x, z, v: {"t": "tf", "b": {"t": "seq", "a": x, "b": z}, "f": v},
    15: lambda x, z, v: {"t": "te", "b": {"t": "seq", "a": x, "b": z}, "h": v},
    16: lambda x, z, v: {"t": "tf", "b": x, "f": {"t": "seq", "a": z, "b": v}},
    17: lambda x, z, v: {"t": "seq", "a": x, "b": {"t": "seq", "a": z, "b": v}},
    18: lambda x, z, v: {"t": "for", "b": {"t": "tf", "b": x, "f": z}},
    19: lambda x, z, v: {"t": "for", "b": {"t": "te", "b": x, "h": z}},
    20: lambda x, z, v: {"t": "for", "b": {"t": "seq", "a": x, "b": z}},
    21: lambda x, z, v: {"t": "with", "b": {"t": "tf", "b": x, "f": z}},
    22: lambda x, z, v: {"t": "tf", "b": {"t": "with", "b": x}, "f": z},
    23: lambda x, z, v: {"t": "with", "b": {"t": "seq", "a": x, "b": z}},
    24: lambda x, z, v: {"t": "seq", "a": {"t": "lp", "b": {"t": "tf", "b": x, "f": z}}, "b": v},
    25: lambda x, z, v: {"t": "tf", "b": {"t": "tf", "b": x, "f": z}, "f": v},
    26: lambda x, z, v: {"t": "for", "b": x},
    27: lambda x, z, v: {"t": "seq", "a": {"t": "for", "b": x}, "b": z},
    28: lambda x, z, v: {"t": "tf", "b": {"t": "for", "b": x}, "f": z},
    29: lambda x, z, v: {"t": "te", "b": {"t": "for", "b": x}, "h": z},
}
HOLES = {k: (1 if k in (1, 5, 6, 26) else 2 if k in (2, 3, 4, 11, 12, 13, 18, 19, 20, 21, 22, 23, 27, 28, 29) else 3) for k in SKEL}


def _sub(s):
    t = s["t"]
    if t in ("for", "lp", "with"):
        return [s["b"]]
    if t == "seq":
        return [s["a"], s["b"]]
    if t == "te":
        return [s["b"], s["h"]]
    if t == "tf":
        return [s["b"], s["f"]]
    return []


def uses(s):
    u = set()
    if s["t"] in ("call", "retcall"):
        u.add("d%d" % s["c"])
    if s["t"] in ("nc", "gc", "for"):
        u.add("g")
    for c in _sub(s):
        u |= uses(c)
    return u


def has_yield(s):
    return s["t"] == "yield" or any(has_yield(c) for c in _sub(s))


def brk_ok(s, inloop):
    if s["t"] == "brk":
        return inloop
    if s["t"] in ("for", "lp"):
        return brk_ok(s["b"], True)
    return all(brk_ok(c, inloop) for c in _sub(s))


def yield_in_finally(s):
    if s["t"] == "tf":
        return yield_in_finally(s["b"]) or has_yield(s["f"])
    return any(yield_in_finally(c) for c in _sub(s))


def grow(rng, max_fn, max_depth, root_kinds, callee_kinds, tries=200):
    """one random program in the spec's representation [k, sk, at, ch, d] (ids allocated like the spec's Add)"""
    atoms_d = [a for a in ATOMS if a not in ("yd", "fy")]
    atoms_g = list(ATOMS)
    fns, todo = [], [("d", 1)]
    while todo:
        cls, d = todo[0]
        for _ in range(tries):
            k = rng.choice(list(SKEL))
            pool = atoms_g if cls == "g" else atoms_d
            at = [rng.choice(pool) if h < HOLES[k] else "ps" for h in range(3)]
            if cls == "g" and not any(a in ("yd", "fy") for a in at):
                at[rng.randrange(HOLES[k])] = rng.choice(["yd", "yd", "fy"])
            b = SKEL[k](*[ATOMS[a] for a in at])
            u = uses(b)
            n = len(fns) + len(todo)
            if not brk_ok(b, False) or has_yield(b) != (cls == "g") or ("d2" in u and "d1" not in u) or yield_in_finally(b):
                continue
            if n + len(u) > max_fn or (u and d >= max_depth):
                continue
            break
        else:
            k, at = 1, ["yd" if cls == "g" else "rt", "ps", "ps"]
            u, n = set(), len(fns) + len(todo)
        kind = "gen" if cls == "g" else rng.choice(root_kinds if not fns else callee_kinds)
        ch = [n + 1 if "d1" in u else 0, n + 2 if "d2" in u else 0, n + len(u) if "g" in u else 0]
        fns.append({"k": kind, "sk": k, "at": at, "ch": ch, "d": d})
        todo = todo[1:] + [("d", d + 1)] * (("d1" in u) + ("d2" in u)) + ([("g", d + 1)] if "g" in u else [])
    return fns
