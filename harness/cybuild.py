"""Child process: Cython-compile one module with the compiler found on
PYTHONPATH (the snapshot of /repo's working tree) and C-compile the result.
Usage: cybuild.py req.json   -> writes res.json next to it."""
import json
import os
import subprocess
import sys
import time
import traceback


def export_facts(kind, result, tree_holder):
    fn = FACTS.get(kind)
    if fn is None:
        return None
    return fn(result, tree_holder)


FACTS = {}


def main():
    reqf = sys.argv[1]
    with open(reqf) as f:
        req = json.load(f)
    d = req["dir"]
    res = {"ok": False, "stage": "cython", "so": None, "c_file": None, "errors": "", "facts": None,
           "cython_s": 0, "cc_s": 0}
    try:
        import Cython
        res["cython_file"] = Cython.__file__
        from Cython.Compiler import Options, Errors
        from Cython.Compiler.Main import compile as cy_compile, CompilationOptions
        opts = req["options"]
        for k, v in (opts.get("global_options") or {}).items():
            setattr(Options, k, v)
        ext = ".pyx" if req["kind"] == "pyx" else ".py"
        src = os.path.join(d, req["name"] + ext)
        with open(src, "w", encoding="utf8", newline="") as f:
            f.write(req["source"])
        for rel, text in (opts.get("extra_files") or {}).items():
            p = os.path.join(d, rel)
            os.makedirs(os.path.dirname(p), exist_ok=True)
            with open(p, "w", encoding="utf8") as f:
                f.write(text)
        cplus = bool(opts.get("cplus"))
        directives = dict(req["directives"])
        if "language_level" in opts:
            directives["language_level"] = opts["language_level"]
        elif "language_level" not in directives:
            directives["language_level"] = 3
        co = dict(compiler_directives=directives, cplus=cplus,
                  include_path=[d] + list(opts.get("include_path") or []),
                  output_file=os.path.join(d, req["name"] + (".cpp" if cplus else ".c")))
        for k in ("emit_linenums", "annotate", "embed_pos_in_docstring", "compile_time_env",
                  "c_line_in_traceback", "formal_grammar", "evaluate_tree_assertions"):
            if k in opts:
                co[k] = opts[k]
        options = CompilationOptions(**co)
        t0 = time.time()
        facts_kind = req.get("facts")
        holder = {}
        if facts_kind:
            import cyfacts
            cyfacts.install(facts_kind, holder)
        import io
        errbuf = io.StringIO()
        Errors.init_thread()
        old_stderr = sys.stderr
        sys.stderr = errbuf
        try:
            result = cy_compile(src, options)
        finally:
            sys.stderr = old_stderr
        res["cython_s"] = round(time.time() - t0, 2)
        res["errors"] = errbuf.getvalue()[-20000:]
        if facts_kind:
            res["facts"] = holder.get("facts")
        if result.num_errors or not result.c_file or not os.path.exists(result.c_file):
            res["stage"] = "cython"
            res["num_errors"] = result.num_errors
        else:
            res["c_file"] = result.c_file
            if req.get("cython_only"):
                res["ok"] = True
                res["stage"] = "done"
            else:
                res["stage"] = "cc"
                cc = req.get("cc") or ("g++" if cplus else "gcc")
                so = os.path.join(d, req["name"] + req["suffix"])
                base = [cc, "-O0", "-w", "-fPIC", "-shared", "-fno-strict-aliasing", "-I" + req["include"], "-I" + d]
                try:
                    import numpy
                    base.append("-I" + numpy.get_include())
                except Exception:
                    pass
                cmd = base + list(req["cflags"]) + [result.c_file, "-o", so] + list(req.get("ldflags") or [])
                t1 = time.time()
                p = subprocess.run(cmd, capture_output=True, text=True)
                res["cc_s"] = round(time.time() - t1, 2)
                res["cc_cmd"] = " ".join(cmd)
                if p.returncode == 0:
                    res["ok"] = True
                    res["stage"] = "done"
                    res["so"] = so
                else:
                    res["errors"] += (p.stdout + p.stderr)[-8000:]
    except BaseException:
        res["stage"] = "cython-crash"
        res["errors"] = res.get("errors", "") + traceback.format_exc()[-8000:]
    with open(os.path.join(d, "res.json"), "w") as f:
        json.dump(res, f, default=str)


if __name__ == "__main__":
    sys.path.insert(0, os.path.dirname(os.path.abspath(__file__)))
    main()
