"""C30 helpers: sampling of dataclass configurations, rendering as a Cython extension
type and as a stdlib dataclass, attribution of compile errors to classes, and the child
that replays spec histories on a module and reports every observation that differs from
the expectation the spec published."""
import json
import os
import re

import core

NAMES = "abcde"
OPT_KEYS = ("init", "repr", "eq", "order", "uhash", "frozen", "kwo", "margs")
OPT_PY = {"init": "init", "repr": "repr", "eq": "eq", "order": "order", "uhash": "unsafe_hash", "frozen": "frozen",
          "kwo": "kw_only", "margs": "match_args"}
OPT_DEFAULT = {"init": True, "repr": True, "eq": True, "order": False, "uhash": False, "frozen": False, "kwo": False, "margs": True}
TYPES = ("long", "double", "str", "obj")
ANN_CY = {"long": "cython.long", "double": "cython.double", "str": "str", "obj": "object"}
ANN_PY = {"long": "int", "double": "float", "str": "str", "obj": "object"}


def default_field(ty="obj"):
    return {"dflt": "none", "init": True, "repr": True, "cmp": True, "hash": "none", "kwo": False, "ty": ty}


# ---------------------------------------------------------------------------
# sampling (the spec classifies; `_likely_deferr` only balances the sample)

def _likely_deferr(c):
    o = c["o"]
    if any(f["dflt"] in ("both", "mutable") for f in c["f"]):
        return True
    if o["order"] and not o["eq"]:
        return True
    if o["init"]:
        seen = False
        for f in c["f"]:
            if f["init"] and not (o["kwo"] or f["kwo"]):
                if f["dflt"] != "none":
                    seen = True
                elif seen:
                    return True
    return False


def _rand_field(rng, p_flag, dflts=("none", "value", "factory"), kwo_ok=False):
    f = default_field(rng.choice(TYPES))
    f["dflt"] = rng.choice(dflts)
    for k in ("init", "repr", "cmp"):
        if rng.random() < p_flag:
            f[k] = False
    if rng.random() < p_flag:
        f["hash"] = rng.choice(("true", "false"))
    if kwo_ok and rng.random() < 0.5:
        f["kwo"] = True
    if f["dflt"] == "mutable":
        f["ty"] = "obj"
    return f


def _rand_opts(rng, p):
    o = dict(OPT_DEFAULT)
    for k in OPT_KEYS:
        if rng.random() < p:
            o[k] = not o[k]
    return o


def sample_configs(rng, n_random, n_deferr, n_fkwo, max_fields=5):
    """Configurations for the replay: systematic one- and two-option variations of a standard
    class, single-flag variations of its fields, then seeded random points of the full product."""
    out = []

    def std_fields():
        fs = [default_field("long"), default_field("obj"), default_field("str")]
        fs[1]["dflt"] = "value"
        fs[2]["dflt"] = "factory"
        return fs

    def add(o, fs):
        out.append({"id": len(out) + 1, "o": o, "f": fs})

    add(dict(OPT_DEFAULT), std_fields())
    add(dict(OPT_DEFAULT), [])
    for k in OPT_KEYS:
        o = dict(OPT_DEFAULT)
        o[k] = not o[k]
        add(o, std_fields())
    pairs = [(a, b) for i, a in enumerate(OPT_KEYS) for b in OPT_KEYS[i + 1:]]
    for a, b in pairs:
        o = dict(OPT_DEFAULT)
        o[a] = not o[a]
        o[b] = not o[b]
        add(o, std_fields())
    # one field flag at a time, on each position, for hashable+ordered classes
    for pos in range(3):
        for k, v in (("init", False), ("repr", False), ("cmp", False), ("hash", "true"), ("hash", "false")):
            fs = std_fields()
            fs[pos][k] = v
            o = dict(OPT_DEFAULT, order=True, uhash=True)
            add(o, fs)
    # edges of the parameter-order rule and of keyword-only classes
    def fl(ty, dflt, **kw):
        return dict(default_field(ty), dflt=dflt, **kw)
    add(dict(OPT_DEFAULT), [fl("obj", "value", init=False), fl("long", "none")])
    add(dict(OPT_DEFAULT), [fl("str", "factory", init=False), fl("obj", "none"), fl("long", "value")])
    add(dict(OPT_DEFAULT, kwo=True), [fl("long", "value"), fl("obj", "none")])
    add(dict(OPT_DEFAULT, kwo=True), [])
    add(dict(OPT_DEFAULT, kwo=True), [fl("obj", "value", init=False), fl("double", "factory", init=False)])
    add(dict(OPT_DEFAULT, order=True, frozen=True), [fl("double", "none"), fl("str", "none", cmp=False), fl("long", "value")])
    systematic = len(out)
    # random points of the product
    want_ok, want_err, want_kwo = n_random, n_deferr, n_fkwo
    guard = 0
    while (want_ok > 0 or want_err > 0 or want_kwo > 0) and guard < 100000:
        guard += 1
        n = min(rng.choice([0, 1, 2, 2, 3, 3, 3, 4, 4, 5]), max_fields)
        kind = rng.random()
        o = _rand_opts(rng, rng.choice((0.15, 0.3, 0.5)))
        if want_kwo > 0 and kind < 0.2:
            fs = [_rand_field(rng, 0.2, kwo_ok=True) for _ in range(max(n, 1))]
            if not any(f["kwo"] for f in fs):
                fs[-1]["kwo"] = True
        elif want_err > 0 and kind < 0.5:
            fs = [_rand_field(rng, 0.2, dflts=("none", "value", "factory", "mutable", "both")) for _ in range(n)]
        else:
            fs = [_rand_field(rng, rng.choice((0.1, 0.3))) for _ in range(n)]
            if rng.random() < 0.7:     # usually a well-formed parameter order
                fs.sort(key=lambda f: f["dflt"] != "none" and f["init"])
        c = {"o": o, "f": fs}
        bad = _likely_deferr(c)
        has_kwo = any(f["kwo"] for f in fs)
        if has_kwo and not bad:
            if want_kwo <= 0:
                continue
            want_kwo -= 1
        elif bad:
            if want_err <= 0:
                continue
            want_err -= 1
        else:
            if want_ok <= 0:
                continue
            want_ok -= 1
        add(o, fs)
    return out, systematic


# ---------------------------------------------------------------------------
# rendering

def pyval_src(ty, code):
    if ty == "long":
        return str(10 + code)
    if ty == "double":
        return repr(10.5 + code)
    if ty == "str":
        return repr(NAMES[code])
    return "(%d,)" % code


PRELUDE_COMMON = '''
FAC_CALLS = []
def fac_long():
    FAC_CALLS.append(1)
    return 14
def fac_double():
    FAC_CALLS.append(1)
    return 14.5
def fac_str():
    FAC_CALLS.append(1)
    return "e"
def fac_obj():
    FAC_CALLS.append(1)
    return (4,)
'''
PRELUDE_CY = "# cython: language_level=3\ncimport cython\nfrom cython.dataclasses cimport dataclass, field\nimport dataclasses\n" + PRELUDE_COMMON
PRELUDE_PY = "import dataclasses\nfrom dataclasses import dataclass, field\n" + PRELUDE_COMMON


def _field_line(f, name, bare, cy, field_fn):
    ann = (ANN_CY if cy else ANN_PY)[f["ty"]]
    lit = pyval_src(f["ty"], 3)
    if bare:
        if f["dflt"] == "none":
            return "    %s: %s" % (name, ann)
        return "    %s: %s = %s" % (name, ann, "[]" if f["dflt"] == "mutable" else lit)
    kw = []
    if f["dflt"] == "value":
        kw.append("default=" + lit)
    elif f["dflt"] == "factory":
        kw.append("default_factory=fac_" + f["ty"])
    elif f["dflt"] == "mutable":
        kw.append("default=[]")
    elif f["dflt"] == "both":
        kw += ["default=" + lit, "default_factory=fac_" + f["ty"]]
    if not f["init"]:
        kw.append("init=False")
    if not f["repr"]:
        kw.append("repr=False")
    if not f["cmp"]:
        kw.append("compare=False")
    if f["hash"] != "none":
        kw.append("hash=" + ("True" if f["hash"] == "true" else "False"))
    if f["kwo"]:
        kw.append("kw_only=True")
    return "    %s: %s = %s(%s)" % (name, ann, field_fn, ", ".join(kw))


def render_class(c, bare, cy):
    """Source lines of one class.  Only non-default options / field arguments are written."""
    opts = ["%s=%s" % (OPT_PY[k], c["o"][k]) for k in OPT_KEYS if c["o"][k] != OPT_DEFAULT[k]]
    lines = ["@dataclass(%s)" % ", ".join(opts) if opts else "@dataclass"]
    lines.append(("cdef class T%d:" if cy else "class T%d:") % c["id"])
    field_fn = "field" if c["id"] % 2 == 0 else "dataclasses.field"
    for i, f in enumerate(c["f"]):
        lines.append(_field_line(f, NAMES[i], bare[i], cy, field_fn))
    if not c["f"]:
        lines.append("    pass")
    return lines


def render_module(cfgs, bares):
    """-> (pyx source, {id: (first line, last line)})"""
    lines = PRELUDE_CY.split("\n")
    spans = {}
    for c in cfgs:
        lines.append("")
        cl = render_class(c, bares[c["id"]], True)
        spans[c["id"]] = (len(lines) + 1, len(lines) + len(cl))
        lines += cl
    return "\n".join(lines) + "\n", spans


BUILD_TIMEOUT = 3600      # seconds per module (the shared machine can be 10x slower than nominal)
_ERR = re.compile(r"^(?!warning)\S*\.pyx:(\d+):(\d+): (.*)$", re.M)


def build_with_rejects(name, cfgs, bares, workdir, cython_only=False, depth=0):
    """Build the classes of `cfgs` in one module; classes in whose source lines Cython reports an error are
    rejected, the rest is rebuilt (split in halves when the error text cannot be attributed).
    -> (builds [(BuildResult, cfgs in it)], rejected {id: message}, accepted-by-Cython cfgs, problems)"""
    rejected, problems = {}, []
    todo = list(cfgs)
    for attempt in range(4):
        if not todo:
            return [], rejected, [], problems
        src, spans = render_module(todo, bares)
        b = core.build_many([core.BuildSpec("%s_%d" % (name, attempt), src, cython_only=cython_only)], workdir=workdir, jobs=1, timeout=BUILD_TIMEOUT)[0]
        if b.ok:
            return ([] if cython_only else [(b, todo)]), rejected, todo, problems
        if b.stage != "cython":
            problems.append({"stage": b.stage, "errors": (b.errors or "")[-3000:], "ids": [c["id"] for c in todo]})
            return [], rejected, [], problems
        errs = _ERR.findall(b.errors or "")
        hit = {}
        for ln, col, msg in errs:
            for cid, (first, last) in spans.items():
                if first <= int(ln) <= last:
                    hit.setdefault(cid, msg)
        n_err = getattr(b, "num_errors", None)
        if not hit or (n_err is not None and n_err > len(errs)):
            # error text truncated or not attributable to a class: split the batch
            if len(todo) == 1 or depth > 8:
                problems.append({"stage": "cython-unattributed", "errors": (b.errors or "")[-3000:], "ids": [c["id"] for c in todo]})
                return [], rejected, [], problems
            h = len(todo) // 2
            builds, acc = [], []
            for k, part in enumerate((todo[:h], todo[h:])):
                bb, rj, ac, pr = build_with_rejects(name + "ab"[k], part, bares, workdir, cython_only, depth + 1)
                builds += bb
                rejected.update(rj)
                acc += ac
                problems += pr
            return builds, rejected, acc, problems
        rejected.update(hit)
        todo = [c for c in todo if c["id"] not in hit]
        if cython_only:
            # one pass is enough: classes without an error got through the dataclass transform
            return [], rejected, todo, problems
    problems.append({"stage": "reject-loop", "errors": "no fixpoint", "ids": [c["id"] for c in todo]})
    return [], rejected, [], problems


# ---------------------------------------------------------------------------
# the replay child (same code for the stdlib classes and for the compiled module)

CHILD = r'''
import json, sys, os, importlib, types
mode, moddir, modname, casefile, histfile, outfile, strict = sys.argv[1:8]
strict = strict == "1"
NAMES = "abcde"
cfgs = {}
with open(casefile) as f:
    for line in f:
        c = json.loads(line)
        cfgs[c["id"]] = c
deferr = {}
if mode == "so":
    sys.path.insert(0, moddir)
    mod = importlib.import_module(modname)
    assert mod.__file__.endswith(".so"), mod.__file__
    classes = {cid: getattr(mod, "T%d" % cid) for cid in cfgs if hasattr(mod, "T%d" % cid)}
    FAC = mod.FAC_CALLS
else:
    import dataclasses
    ns = {}
    exec(open(os.path.join(moddir, "prelude.py")).read(), ns)
    FAC = ns["FAC_CALLS"]
    classes = {}
    for cid, c in cfgs.items():
        try:
            exec(c["pysrc"], ns)
            classes[cid] = ns["T%d" % cid]
            deferr[cid] = "none"
        except BaseException as e:
            deferr[cid] = type(e).__name__

def pyval(ty, code):
    if ty == "long": return 10 + code
    if ty == "double": return 10.5 + code
    if ty == "str": return NAMES[code]
    return (code,)

def decode(ty, x, me):
    if x is me: return 9
    try:
        if ty == "long" and type(x) is int: r = x - 10
        elif ty == "double" and type(x) is float: r = x - 10.5
        elif ty == "str" and type(x) is str and len(x) == 1: r = NAMES.index(x)
        elif ty == "obj" and type(x) is tuple and len(x) == 1: r = x[0]
        else: return -2
    except ValueError:
        return -2
    return int(r) if r in (0, 1, 2, 3, 4) else -2

def ename(e):
    return "E:" + type(e).__name__

_matchers = {}
def matcher(cid, k):
    key = (cid, k)
    if key not in _matchers:
        ns = {"T": classes[cid]}
        caps = ", ".join("p%d" % j for j in range(k))
        exec("def m(x):\n    match x:\n        case T(%s):\n            return [%s]\n    return 'nomatch'\n" % (caps, caps), ns)
        _matchers[key] = ns["m"]
    return _matchers[key]

import operator
OPS = {"eq": operator.eq, "lt": operator.lt, "le": operator.le, "gt": operator.gt, "ge": operator.ge, "ne": operator.ne}

def cmpchar(op, x, y):
    try:
        r = OPS[op](x, y)
    except TypeError:
        return "E"
    except AttributeError:
        return "A"
    except BaseException:
        return "X"
    return "T" if r is True else ("F" if r is False else "N")

bad = []
counts = {"hist": 0, "steps": 0, "checks": 0, "skipped_unset": 0}

def check(hi, k, aspect, want, got):
    counts["checks"] += 1
    if want != got:
        bad.append({"hist": hi, "step": k, "aspect": aspect, "want": want, "got": got})
        return False
    return True

def observe(hi, k, c, cls, objs, exp):
    tys = [f["ty"] for f in c["f"]]
    n = len(tys)
    for oi, x in enumerate(objs):
        # attribute values
        for a in range(n):
            w = exp["v"][oi][a]
            try:
                g = decode(tys[a], getattr(x, NAMES[a]), x)
            except AttributeError:
                g = -1
            except BaseException as e:
                g = ename(e)
            if w == -1 and not strict:
                counts["skipped_unset"] += 1
                continue
            check(hi, k, "vals", w, g)
        # repr
        r = exp["r"][oi]
        try:
            g = repr(x)
        except BaseException as e:
            g = ename(e)
        if r["k"] == "default":
            check(hi, k, "repr", "object-repr", "object-repr" if g == object.__repr__(x) else g)
        elif r["k"] == "fields":
            w = "T%d(%s)" % (c["id"], ", ".join("%s=%s" % (NAMES[i - 1], "..." if v == 9 else repr(pyval(tys[i - 1], v))) for i, v in r["v"]))
            check(hi, k, "repr", w, g)
        elif strict:
            check(hi, k, "repr", "E:AttributeError", g)
        else:
            counts["skipped_unset"] += 1
        # hash
        h = exp["h"][oi]
        if h["k"] != "skip":
            try:
                hv = hash(x)
                g = "ok"
            except BaseException as e:
                g = ename(e)
            if h["k"] == "unhashable":
                check(hi, k, "hash", "E:TypeError", g)
            elif h["k"] == "identity":
                check(hi, k, "hash", "identity", "identity" if g == "ok" and hv == object.__hash__(x) else ("not-identity" if g == "ok" else g))
            elif h["k"] == "tuple":
                hf = c["hashf"]
                w = hash(tuple(pyval(tys[i - 1], v) for i, v in zip(hf, h["v"])))
                check(hi, k, "hash", "hash-of-field-tuple", "hash-of-field-tuple" if g == "ok" and hv == w else ("other-hash" if g == "ok" else g))
            elif strict:
                check(hi, k, "hash", "E:AttributeError", g)
            else:
                counts["skipped_unset"] += 1
        # match statement with one capture per expected __match_args__ entry
        m = exp["m"][oi]
        if m["k"] in ("captures", "unset"):
            std = c["std"]
            try:
                g = matcher(c["id"], len(std))(x)
                if g != "nomatch":
                    g = [decode(tys[i - 1], v, x) for i, v in zip(std, g)]
            except BaseException as e:
                g = ename(e)
            if m["k"] == "captures":
                check(hi, k, "match", list(m["v"]), g)
            elif strict:
                check(hi, k, "match", "nomatch", g)
            else:
                counts["skipped_unset"] += 1
    # comparisons, one character per ordered pair
    m = len(objs)
    for op in ("eq", "lt", "le", "gt", "ge", "ne"):
        want = exp["eq" if op == "ne" else op]
        if op == "ne":
            want = want.translate({ord("T"): "F", ord("F"): "T"})
        got = []
        w2 = []
        for p in range(m * m):
            wc = want[p]
            if wc == "S":
                continue
            if wc == "U":
                if not strict:
                    counts["skipped_unset"] += 1
                    continue
                wc = "A"
            w2.append(wc)
            got.append(cmpchar(op, objs[p // m], objs[p % m]))
        check(hi, k, "eq" if op in ("eq", "ne") else "order", op + ":" + "".join(w2), op + ":" + "".join(got))

def replay(hi, rec):
    c = cfgs[rec["id"]]
    cls = classes[rec["id"]]
    tys = [f["ty"] for f in c["f"]]
    objs = []
    prev_v = []
    for k, st in enumerate(rec["h"]):
        counts["steps"] += 1
        op = st["op"]
        want = "ok" if st["res"] == "ok" else "E:" + st["res"]
        got = "ok"
        if op == "new":
            args = []
            for j in range(st["a"]):
                if j < len(c["std"]):
                    i = c["std"][j]
                    args.append(pyval(tys[i - 1], (i + st["s"]) % 3))
                else:
                    args.append(10)
            kwargs = {}
            for i in st["kw"]:
                if i == 0:
                    kwargs["zz"] = 10
                else:
                    kwargs[NAMES[i - 1]] = pyval(tys[i - 1], (i + st["s"]) % 3)
            n0 = len(FAC)
            try:
                x = cls(*args, **kwargs)
            except BaseException as e:
                got = ename(e)
                x = None
            if want == "ok" and got == "ok":
                objs.append(x)
            ok = check(hi, k, "new", want, got)
            if ok and want == "ok":
                ok = check(hi, k, "factory-calls", st["fac"], len(FAC) - n0)
            if not ok and want != got:
                return      # no instance to go on with
        else:
            x = objs[st["i"] - 1]
            try:
                if op == "set":
                    setattr(x, NAMES[st["a"] - 1], pyval(tys[st["a"] - 1], st["s"]))
                elif op == "del":
                    delattr(x, NAMES[st["a"] - 1])
                elif op == "setself":
                    setattr(x, NAMES[st["a"] - 1], x)
                elif op == "fill":
                    for a in range(len(tys)):
                        if prev_v[st["i"] - 1][a] == -1:
                            setattr(x, NAMES[a], pyval(tys[a], (a + 1 + st["i"]) % 3))
            except BaseException as e:
                got = ename(e)
            check(hi, k, op, want, got)
        observe(hi, k, c, cls, objs, st["obs"])
        prev_v = st["obs"]["v"]

static = {}
intro = {}
import dataclasses as _dc
for cid, cls in classes.items():
    try:
        ma = cls.__match_args__
        static[cid] = list(ma) if type(ma) is tuple else "not-a-tuple"
    except AttributeError:
        static[cid] = "absent"
    except BaseException as e:
        static[cid] = ename(e)
    # introspection: __dataclass_params__ and dataclasses.fields()
    try:
        tys = [f["ty"] for f in cfgs[cid]["f"]]
        p = cls.__dataclass_params__
        params = {k: getattr(p, a) for k, a in (("init", "init"), ("repr", "repr"), ("eq", "eq"), ("order", "order"), ("uhash", "unsafe_hash"),
                                                ("frozen", "frozen"), ("kwo", "kw_only"), ("margs", "match_args"))}
        fl = []
        for f in _dc.fields(cls):
            ty = tys[NAMES.index(f.name)]
            if f.default is not _dc.MISSING:
                kind = "value" if decode(ty, f.default, None) == 3 else "value:other"
            elif f.default_factory is not _dc.MISSING:
                kind = "factory" if decode(ty, f.default_factory(), None) == 4 else "factory:other"
            else:
                kind = "none"
            fl.append({"name": f.name, "init": f.init, "repr": f.repr, "cmp": f.compare,
                       "hash": {None: "none", True: "true", False: "false"}.get(f.hash, "other"), "dflt": kind})
        intro[cid] = {"is_dataclass": _dc.is_dataclass(cls), "params": params, "fields": fl}
    except BaseException as e:
        intro[cid] = ename(e) + ": " + str(e)[:200]

with open(histfile) as f:
    for hi, line in enumerate(f):
        rec = json.loads(line)
        if rec["id"] not in classes:
            continue
        counts["hist"] += 1
        try:
            replay(hi, rec)
        except BaseException as e:
            bad.append({"hist": hi, "step": -1, "aspect": "harness", "want": "replay completes", "got": ename(e) + ": " + str(e)[:200]})
with open(outfile, "w") as f:
    json.dump({"bad": bad, "counts": counts, "deferr": deferr, "match_args": static, "intro": intro, "classes": sorted(classes)}, f)
'''
