"""C33 helpers: target types published by spec/Convert.tla -> Cython source, realisation of the
spec's Python values, canonical encoding of results, and the independent oracle P (CPython
primitives: array.array for C numbers, codecs, iter/unpacking/collections.abc.Mapping for containers).
"""
import array
import collections.abc
import json

# --------------------------------------------------------------------------
# code shared with the child process (prelude of calls.run_calls): realise a value, encode a result

CHILD_SRC = r'''
import json as _json, types as _types

def mk(v):
    k = v["k"]
    if k == "int": return v["n"]
    if k == "big": return v["n"] * 2 ** 70
    if k == "bool": return bool(v["n"])
    if k == "float": return v["n"] / 2
    if k == "none": return None
    if k == "obj": return object()
    if k == "bytes": return bytes(v["b"])
    if k == "bytearray": return bytearray(v["b"])
    if k == "str": return "".join(map(chr, v["b"]))
    if k == "name": return v["s"]
    if k == "list": return [mk(x) for x in v["e"]]
    if k == "tuple": return tuple(mk(x) for x in v["e"])
    if k == "set": return set(mk(x) for x in v["e"])
    if k == "gen":
        items = [mk(x) for x in v["e"]]
        return (x for x in items)
    if k == "dict": return {mk(a): mk(b) for a, b in v["d"]}
    if k == "mproxy": return _types.MappingProxyType({mk(a): mk(b) for a, b in v["d"]})
    raise ValueError("mk: %r" % (v,))

def canon(o):
    """type-strict canonical form of a result (JSON-able, order-free for sets and dicts)"""
    t = type(o)
    if t is bool: return ["bool", int(o)]
    if t is int: return ["int", str(o)]
    if t is float: return ["float", repr(o)]
    if o is None: return ["none"]
    if t is bytes: return ["bytes", list(o)]
    if t is bytearray: return ["bytearray", list(o)]
    if t is str: return ["str", [ord(c) for c in o]]
    if t is list: return ["list", [canon(x) for x in o]]
    if t is tuple: return ["tuple", [canon(x) for x in o]]
    if t in (set, frozenset): return ["set", sorted((canon(x) for x in o), key=_json.dumps)]
    if t is dict: return ["dict", sorted(([canon(a), canon(b)] for a, b in o.items()), key=_json.dumps)]
    return ["other", t.__name__]

def exc_class(e):
    for c in (TypeError, ValueError, OverflowError):
        if isinstance(e, c):
            return c.__name__
    return ""

def call(fname, js):
    try:
        v = mk(_json.loads(js))
    except BaseException as e:
        return _json.dumps({"mkfail": repr(e)})
    try:
        r = globals()[fname](v)
    except BaseException as e:
        return _json.dumps({"exc": type(e).__name__, "voc": exc_class(e)})
    return _json.dumps({"ok": canon(r)})
'''

_ns = {}
exec(compile(CHILD_SRC, "<c33-child>", "exec"), _ns)
mk, canon, exc_class = _ns["mk"], _ns["canon"], _ns["exc_class"]

# --------------------------------------------------------------------------
# types -> Cython

LEAF_C = {"int": "int", "uchar": "unsigned char", "short": "short", "schar": "char", "double": "double",
          "cstr": "const char*", "string": "string"}
TMPL = {"vector": "vector", "list": "cpplist", "set": "cppset", "uset": "unordered_set", "map": "cppmap",
        "umap": "unordered_map", "pair": "pair"}
CPP_TAGS = set(TMPL) | {"string"}
MODE_DIRECTIVES = {"": {}, "bytes": {}, "u8": {"c_string_type": "unicode", "c_string_encoding": "utf8"},
                   "ascii": {"c_string_type": "str", "c_string_encoding": "ascii"}}
CPP_HEADER = """from libcpp.vector cimport vector
from libcpp.list cimport list as cpplist
from libcpp.set cimport set as cppset
from libcpp.unordered_set cimport unordered_set
from libcpp.map cimport map as cppmap
from libcpp.unordered_map cimport unordered_map
from libcpp.pair cimport pair
from libcpp.string cimport string
"""


def subtypes(T):
    yield T
    for a in T["a"]:
        for s in subtypes(a):
            yield s


def needs_cpp(T):
    return any(s["t"] in CPP_TAGS for s in subtypes(T))


def array_parts(T):
    """(element type that is not an array, [dims])"""
    dims = []
    while T["t"] in ("array", "chararray"):
        dims.append(T["n"])
        if T["t"] == "chararray":
            return {"t": "schar", "name": "schar", "a": [], "f": [], "n": 0, "md": ""}, dims
        T = T["a"][0]
    return T, dims


def ctype(T):
    t = T["t"]
    if t in LEAF_C:
        return LEAF_C[t]
    if t in TMPL:
        return "%s[%s]" % (TMPL[t], ", ".join(ctype(a) for a in T["a"]))
    if t in ("struct", "union"):
        return T["name"]
    raise ValueError("no inline C type for %s" % T["name"])


def decl(T, ident):
    if T["t"] in ("array", "chararray"):
        base, dims = array_parts(T)
        return "%s %s%s" % (ctype(base), ident, "".join("[%d]" % d for d in dims))
    return "%s %s" % (ctype(T), ident)


def render_module(types):
    """Cython source with one identity function rt_<name> per type."""
    cpp = any(needs_cpp(T) for T in types)
    out = ["# cython: language_level=3"]
    if cpp:
        out.append(CPP_HEADER)
    declared = set()

    def declare(T):
        for a in T["a"]:
            declare(a)
        if T["t"] in ("struct", "union") and T["name"] not in declared:
            declared.add(T["name"])
            out.append("cdef %s %s:" % (T["t"], T["name"]))
            for f, a in zip(T["f"], T["a"]):
                out.append("    " + decl(a, f))
            out.append("")
    for T in types:
        declare(T)
    for T in types:
        if T["t"] in ("array", "chararray"):
            out.append("def rt_%s(x):\n    cdef %s\n    a = x\n    return a\n" % (T["name"], decl(T, "a")))
        else:
            out.append("def rt_%s(%s):\n    return x\n" % (T["name"], decl(T, "x")))
    return "\n".join(out) + "\n", cpp


def plan_modules(types, chunk=9):
    """[(module name, [types], directives, cplus)]: one C module, C++ modules of <= chunk types, one per string mode."""
    plain_c = sorted((T for T in types if not needs_cpp(T) and T["md"] in ("", "bytes")), key=lambda T: T["name"])
    cpp = sorted((T for T in types if needs_cpp(T) and T["md"] in ("", "bytes")), key=lambda T: T["name"])
    mods = []
    if plain_c:
        mods.append(("c33_c", plain_c, {}, False))
    for i in range(0, len(cpp), chunk):
        mods.append(("c33_cpp%d" % (i // chunk), cpp[i:i + chunk], {}, True))
    for md in ("u8", "ascii"):
        ts = sorted((T for T in types if T["md"] == md), key=lambda T: T["name"])
        for i in range(0, len(ts), chunk):
            mods.append(("c33_%s%d" % (md, i // chunk), ts[i:i + chunk], MODE_DIRECTIVES[md], True))
    return mods


# --------------------------------------------------------------------------
# the spec's result values -> the canonical form of `canon`

def want_matches(w, got):
    """does the canonical result `got` equal the spec-side value `w` (JSON of a TLA+ record)?"""
    k = w["k"]
    if k == "int":
        return got == ["int", str(w["n"])]
    if k == "float":
        return got == ["float", repr(w["n"] / 2)]
    if k == "bytes":
        return got == ["bytes", list(w["b"])]
    if k == "str":
        return got == ["str", list(w["b"])]
    if k in ("list", "tuple"):
        return got[0] == k and len(got[1]) == len(w["e"]) and all(want_matches(a, b) for a, b in zip(w["e"], got[1]))
    if k == "oset":
        return got[0] == "set" and _match_unordered(w["m"], got[1], want_matches)
    if k == "odict":
        return got[0] == "dict" and _match_unordered(w["m"], got[1],
                                                      lambda p, q: want_matches(p[0], q[0]) and want_matches(p[1], q[1]))
    if k == "sdict":
        return got[0] == "dict" and _match_unordered(w["m"], got[1],
                                                      lambda p, q: q[0] == ["str", [ord(c) for c in p[0]]] and want_matches(p[1], q[1]))
    if k == "udict":
        # the dict of a union holds every member; only the member that was set is determined
        if got[0] != "dict":
            return False
        key = ["str", [ord(c) for c in w["s"]]]
        hits = [q for q in got[1] if q[0] == key]
        return len(hits) == 1 and all(q[0][0] == "str" for q in got[1]) and want_matches(w["e"][0], hits[0][1])
    raise ValueError("want_matches: %r" % (w,))


def _match_unordered(ws, gs, eq):
    if len(ws) != len(gs):
        return False
    left = list(gs)
    for w in ws:
        for i, g in enumerate(left):
            if eq(w, g):
                del left[i]
                break
        else:
            return False
    return True


# --------------------------------------------------------------------------
# P: independent oracle on the realised objects

ARRAY_CODE = {"int": "i", "uchar": "B", "short": "h", "schar": "b"}
ENCODING = {"u8": "utf-8", "ascii": "ascii"}


class UnionValue(object):
    def __init__(self, name, value):
        self.name, self.value = name, value


def p_convert(T, o):
    """Round trip of `o` through target type T, or TypeError / ValueError / OverflowError."""
    t = T["t"]
    if t in ARRAY_CODE:
        return array.array(ARRAY_CODE[t], [o])[0]
    if t == "double":
        if isinstance(o, int) and abs(o) > 2 ** 60:
            raise NotImplementedError("huge int -> double is not generated")
        return array.array("d", [o])[0]
    if t in ("cstr", "string"):
        md = T["md"]
        if isinstance(o, (bytes, bytearray)):
            b = bytes(o)
        elif isinstance(o, str) and md in ENCODING:
            b = o.encode(ENCODING[md])
        else:
            raise TypeError("bytes expected")
        if t == "cstr":
            b = b.split(b"\0")[0]
        return b.decode(ENCODING[md]) if md in ENCODING else b
    if t in ("vector", "list"):
        return [p_convert(T["a"][0], x) for x in iter(o)]
    if t in ("set", "uset"):
        return {p_convert(T["a"][0], x) for x in iter(o)}
    if t == "pair":
        x, y = o
        return (p_convert(T["a"][0], x), p_convert(T["a"][1], y))
    if t in ("map", "umap"):
        if not isinstance(o, collections.abc.Mapping):
            raise TypeError("mapping expected")
        res = {}
        for k, v in o.items():
            ck, cv = p_convert(T["a"][0], k), p_convert(T["a"][1], v)
            res.setdefault(ck, cv)
        return res
    if t == "struct":
        if not isinstance(o, collections.abc.Mapping):
            raise TypeError("mapping expected")
        if any(f not in o for f in T["f"]):
            raise ValueError("missing member")
        if set(o.keys()) != set(T["f"]):
            raise ValueError("surplus key")
        return {f: p_convert(a, o[f]) for f, a in zip(T["f"], T["a"])}
    if t == "union":
        if not isinstance(o, collections.abc.Mapping):
            raise TypeError("mapping expected")
        keys = list(o.keys())
        if len(keys) != 1 or keys[0] not in T["f"]:
            raise ValueError("exactly one member expected")
        i = T["f"].index(keys[0])
        return UnionValue(keys[0], p_convert(T["a"][i], o[keys[0]]))
    if t == "array":
        items = list(iter(o))
        if len(items) != T["n"]:
            raise ValueError("length")
        return [p_convert(T["a"][0], x) for x in items]
    if t == "chararray":
        items = list(iter(o))
        if len(items) != T["n"]:
            raise ValueError("length")
        raw = bytes(array.array("b", [array.array("b", [x])[0] for x in items]).tobytes())
        return raw.split(b"\0")[0]
    raise ValueError(t)


def p_canon(o):
    """canonical form of P's result, with the union marker"""
    if isinstance(o, UnionValue):
        return ["union", o.name, p_canon(o.value)]
    if type(o) is list:
        return ["list", [p_canon(x) for x in o]]
    if type(o) is tuple:
        return ["tuple", [p_canon(x) for x in o]]
    if type(o) is set:
        return ["set", sorted((p_canon(x) for x in o), key=json.dumps)]
    if type(o) is dict:
        return ["dict", sorted(([p_canon(a), p_canon(b)] for a, b in o.items()), key=json.dumps)]
    return canon(o)


def want_canon(w):
    """spec-side result -> the form of p_canon (S vs P comparison)"""
    k = w["k"]
    if k == "int":
        return ["int", str(w["n"])]
    if k == "float":
        return ["float", repr(w["n"] / 2)]
    if k in ("bytes", "str"):
        return [k, list(w["b"])]
    if k in ("list", "tuple"):
        return [k, [want_canon(x) for x in w["e"]]]
    if k == "oset":
        return ["set", sorted((want_canon(x) for x in w["m"]), key=json.dumps)]
    if k == "odict":
        return ["dict", sorted(([want_canon(a), want_canon(b)] for a, b in w["m"]), key=json.dumps)]
    if k == "sdict":
        return ["dict", sorted(([["str", [ord(c) for c in a]], want_canon(b)] for a, b in w["m"]), key=json.dumps)]
    if k == "udict":
        return ["union", w["s"], want_canon(w["e"][0])]
    raise ValueError(w)


def p_outcome(T, val):
    """('ok', canon) | ('exc', vocabulary class or real name)"""
    try:
        o = mk(val)
    except BaseException as e:
        return ("mkfail", repr(e))
    try:
        r = p_convert(T, o)
    except (TypeError, ValueError, OverflowError) as e:
        return ("exc", exc_class(e))
    return ("ok", p_canon(r))
