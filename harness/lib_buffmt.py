"""C17 helpers: the declared dtypes as Cython source, the test exporter, the child driver that performs the
acquisitions, the independent layout oracle (struct module + NumPy's PEP 3118 reader) and the decoding of
expected element values from the raw bytes."""
import json
import os
import random
import struct

import core

# --------------------------------------------------------------------------
# declared dtypes.  Model name (spec/BufFmt.tla) -> C types that have this run-time type information.
# A type tree is ("sc", ctype, group) | ("arr", tree, dims) | ("st", name, [members], packed)

SC = {
    "schar": ("signed char", "I"), "uchar": ("unsigned char", "U"), "char": ("char", "H"),
    "short": ("short", "I"), "ushort": ("unsigned short", "U"), "int": ("int", "I"), "uint": ("unsigned int", "U"),
    "long": ("long", "I"), "ulong": ("unsigned long", "U"), "float": ("float", "R"), "double": ("double", "R"),
    "ldouble": ("long double", "R"), "cfloat": ("float complex", "C"), "cdouble": ("double complex", "C"),
}
# further C types with the same (group, size): checked on the same cases
ALIASES = {"long": [("longlong", "long long"), ("ssize", "Py_ssize_t")],
           "ulong": [("ulonglong", "unsigned long long"), ("size", "size_t")]}


def sc(n):
    return ("sc", SC[n][0], SC[n][1])


def arr(t, *dims):
    return ("arr", t, list(dims))


STRUCTS = {}


def st(name, members, packed=False):
    STRUCTS[name] = ("st", name, members, packed)
    return STRUCTS[name]


PK = st("PK", [sc("schar"), sc("int"), sc("short")], True)
ST = st("ST", [sc("schar"), sc("int"), sc("short")])
IN = st("IN", [sc("schar"), ("sc", "long long", "I"), sc("schar")])
NE = st("NE", [sc("schar"), IN, sc("schar")])
NS = st("NS", [IN, sc("int")])
DN = st("DN", [sc("schar"), NS])
AR = st("AR", [arr(sc("int"), 3), sc("double")])
A2 = st("A2", [sc("schar"), arr(sc("short"), 2, 3)])
CS = st("CS", [sc("double"), sc("double")])
SA = st("SA", [arr(sc("char"), 4), sc("int")])
FC = st("FC", [sc("cfloat"), sc("schar")])
IC = st("IC", [sc("int"), sc("schar")])
STRUCT_ORDER = ["PK", "ST", "IN", "NE", "NS", "DN", "AR", "A2", "CS", "SA", "FC", "IC"]


def concrete(model):
    """[(id, C type text, tree)] for a model dtype name"""
    if model in SC:
        out = [(model, SC[model][0], sc(model))]
        for cid, ctype in ALIASES.get(model, []):
            out.append((cid, ctype, ("sc", ctype, SC[model][1])))
        return out
    return [(model, model, STRUCTS[model])]


def leaves_expr(tree, expr):
    """[(python expression, group, is_complex)] reading every scalar of `expr` in memory order"""
    k = tree[0]
    if k == "sc":
        return [(expr, tree[2])]
    if k == "arr":
        out = []

        def rec(e, dims):
            if not dims:
                out.extend(leaves_expr(tree[1], e))
            else:
                for j in range(dims[0]):
                    rec("%s[%d]" % (e, j), dims[1:])
        rec(expr, tree[2])
        return out
    out = []
    for j, m in enumerate(tree[2]):
        out.extend(leaves_expr(m, "%s.f%d" % (expr, j)))
    return out


def addr_exprs(tree, expr):
    """[(address expression, sizeof expression, group, dims)] per leaf (arrays kept whole), for the layout function"""
    k = tree[0]
    if k == "sc":
        return [("&%s" % expr, "sizeof(%s)" % expr, tree[2], [])]
    if k == "arr":
        idx = "".join("[0]" for _ in tree[2])
        return [("&%s%s" % (expr, idx), "sizeof(%s%s)" % (expr, idx), tree[1][2], tree[2])]
    out = []
    for j, m in enumerate(tree[2]):
        out.extend(addr_exprs(m, "%s.f%d" % (expr, j)))
    return out


def struct_decl(name):
    _, _, members, packed = STRUCTS[name]
    lines = ["cdef %sstruct %s:" % ("packed " if packed else "", name)]
    for j, m in enumerate(members):
        if m[0] == "arr":
            base = m[1][1] if m[1][0] == "sc" else m[1][1]
            lines.append("    %s f%d%s" % (base, j, "".join("[%d]" % d for d in m[2])))
        elif m[0] == "sc":
            lines.append("    %s f%d" % (m[1], j))
        else:
            lines.append("    %s f%d" % (m[1], j))
    return "\n".join(lines)


EXPORTER = r'''
# cython: language_level=3
from cpython.buffer cimport PyBUF_FORMAT, PyBUF_ND, PyBUF_STRIDES, PyBUF_INDIRECT, PyBUF_WRITABLE

cdef class Exp:
    """test exporter: hands out exactly what it was given, counts gets and releases"""
    cdef bytes data
    cdef bytes fmt
    cdef Py_ssize_t itemsize
    cdef Py_ssize_t off
    cdef Py_ssize_t shape[4]
    cdef Py_ssize_t strides[4]
    cdef Py_ssize_t suboffsets[4]
    cdef int ndim
    cdef int nostrides, hassub
    cdef public int gets, releases, lastflags
    def __init__(self, bytes data, bytes fmt, Py_ssize_t itemsize, shape, strides=None, Py_ssize_t off=0, suboffsets=None):
        self.data = data; self.fmt = fmt; self.itemsize = itemsize; self.off = off
        self.ndim = len(shape)
        self.nostrides = strides is None
        self.hassub = suboffsets is not None
        cdef Py_ssize_t s = itemsize
        for i in range(self.ndim):
            self.shape[i] = shape[i]
        for i in range(self.ndim - 1, -1, -1):
            self.strides[i] = s if strides is None else strides[i]
            s *= shape[i]
            self.suboffsets[i] = -1 if suboffsets is None else suboffsets[i]
    def __getbuffer__(self, Py_buffer *view, int flags):
        self.gets += 1
        self.lastflags = flags
        view.buf = (<char*>self.data) + self.off
        view.obj = self
        view.len = self.itemsize
        for i in range(self.ndim):
            view.len *= self.shape[i]
        view.readonly = 0
        view.itemsize = self.itemsize
        view.format = <char*>self.fmt if flags & PyBUF_FORMAT else NULL
        view.ndim = self.ndim
        view.shape = self.shape
        # strides may only be left out when the consumer did not ask for them
        view.strides = NULL if (self.nostrides and (flags & PyBUF_STRIDES) != PyBUF_STRIDES) else self.strides
        view.suboffsets = self.suboffsets if self.hassub else NULL
        view.internal = NULL
    def __releasebuffer__(self, Py_buffer *view):
        self.releases += 1
'''


def pyval(expr, grp):
    if grp == "C":
        return "(%s).real, (%s).imag" % (expr, expr)
    return expr


def module_source(models):
    """Cython source with, per concrete dtype id: mv_<id>(obj) (typed memoryview), bf_<id>(obj) (legacy buffer
    argument) -> list of the scalars of all elements in memory order, and lay_<id>() -> [sizeof, [[offset, size], ...]]"""
    src = [EXPORTER]
    need = set()

    def deps(tree):
        if tree[0] == "st":
            for m in tree[2]:
                deps(m if m[0] != "arr" else m[1])
            need.add(tree[1])
    for mname in models:
        if mname in STRUCTS:
            deps(STRUCTS[mname])
    for name in STRUCT_ORDER:
        if name in need:
            src.append(struct_decl(name))
    ids = []
    for mname in models:
        for cid, ctype, tree in concrete(mname):
            ids.append((cid, mname))
            vals = ", ".join(pyval(e, g) for e, g in leaves_expr(tree, "e"))
            src.append("def mv_%s(obj, Py_ssize_t n):\n    cdef %s[:] v = obj\n    cdef %s e\n    cdef Py_ssize_t i\n    out = []\n"
                       "    for i in range(v.shape[0]):\n        e = v[i]\n        out.extend((%s,))\n    return out\n" % (cid, ctype, ctype, vals))
            src.append("def bf_%s(object[%s, ndim=1] v, Py_ssize_t n):\n    cdef %s e\n    cdef Py_ssize_t i\n    out = []\n"
                       "    for i in range(n):\n        e = v[i]\n        out.extend((%s,))\n    return out\n" % (cid, ctype, ctype, vals))
            ad = addr_exprs(tree, "x")
            src.append("def lay_%s():\n    cdef %s x\n    return [sizeof(%s), [%s]]\n" % (
                cid, ctype, ctype, ", ".join("[<size_t>(%s) - <size_t>&x, %s]" % (a, s) for a, s, _, _ in ad)))
    src.append(GEOM_FUNCS)
    return "\n".join(src), ids


# part G: declared axes (spec/BufGeom.tla) -> function reading all elements in C order of the indices
GEOM_DECL = {"strided": ("gm_s", "gb_1"), "contig": ("gm_c", None), "strided+strided": ("gm_ss", "gb_2"),
             "follow+contig": ("gm_fc", None), "contig+follow": ("gm_cf", None), "follow+follow+contig": ("gm_ffc", None),
             "strided+strided+strided": ("gm_sss", "gb_3")}


def _geom_func(name, decl, nd, legacy):
    lines = ["def %s(%s, Py_ssize_t n0, Py_ssize_t n1, Py_ssize_t n2):" % (name, ("object[int, ndim=%d] v" % nd) if legacy else "obj")]
    if not legacy:
        lines.append("    cdef %s v = obj" % decl)
        lines.append("    n0 = v.shape[0]")
        if nd > 1:
            lines.append("    n1 = v.shape[1]")
        if nd > 2:
            lines.append("    n2 = v.shape[2]")
    lines.append("    cdef Py_ssize_t i, j, k")
    lines.append("    out = []")
    ind = "    "
    idx = []
    for d, var in zip(range(nd), "ijk"):
        lines.append("%sfor %s in range(n%d):" % (ind, var, d))
        ind += "    "
        idx.append(var)
    lines.append("%sout.append(v[%s])" % (ind, ", ".join(idx)))
    lines.append("    return out")
    return "\n".join(lines) + "\n"


GEOM_FUNCS = "\n".join([
    _geom_func("gm_s", "int[:]", 1, False), _geom_func("gm_c", "int[::1]", 1, False),
    _geom_func("gm_ss", "int[:, :]", 2, False), _geom_func("gm_fc", "int[:, ::1]", 2, False),
    _geom_func("gm_cf", "int[::1, :]", 2, False), _geom_func("gm_ffc", "int[:, :, ::1]", 3, False),
    _geom_func("gm_sss", "int[:, :, :]", 3, False),
    _geom_func("gb_1", None, 1, True), _geom_func("gb_2", None, 2, True), _geom_func("gb_3", None, 3, True)])


def model_leaf_meta(mname):
    """[(group, dims)] per leaf of the model dtype, from this table (independent of the spec)"""
    tree = concrete(mname)[0][2]
    return [(g, d) for _, _, g, d in addr_exprs(tree, "x")]


# --------------------------------------------------------------------------
# raw bytes handed out by the exporter, and what a correct acquisition reads

RAW = random.Random(20260922).randbytes(1 << 12)
NITEMS = 2


def raw_for(isz, n=NITEMS):
    return RAW[:isz * n]


_INT = {("I", 1): "b", ("I", 2): "h", ("I", 4): "i", ("I", 8): "q", ("U", 1): "B", ("U", 2): "H", ("U", 4): "I", ("U", 8): "Q",
        ("H", 1): "b", ("R", 4): "f", ("R", 8): "d"}


def fnorm(x):
    if isinstance(x, float):
        return "nan" if x != x else x.hex()
    return x


def decode(canon, isz, n=NITEMS):
    """values of the scalars <group, size, offset> of every item, as the driver reports them"""
    raw = raw_for(isz, n)
    out = []
    for k in range(n):
        for g, sz, off in canon:
            p = k * isz + off
            if (g, sz) == ("R", 16):
                import numpy as np
                out.append(fnorm(float(np.frombuffer(raw[p:p + 16], dtype=np.longdouble)[0])))
            else:
                out.append(fnorm(struct.unpack_from("=" + _INT[(g, sz)], raw, p)[0]))
    return out


# --------------------------------------------------------------------------
# independent oracle for the layout of a format: struct.calcsize / NumPy's PEP 3118 reader

def _np_flat(dt, base, out):
    if dt.fields:
        for _, fld in sorted(dt.fields.items(), key=lambda kv: kv[1][1]):
            _np_flat(fld[0], base + fld[1], out)
        return
    if dt.subdtype:
        sub, shape = dt.subdtype
        n = 1
        for d in shape:
            n *= d
        for k in range(n):
            _np_flat(sub, base + k * sub.itemsize, out)
        return
    k = dt.kind
    if k == "c":
        h = dt.itemsize // 2
        out.append(("R", h, base))
        out.append(("R", h, base + h))
    elif k == "S":
        for j in range(dt.itemsize):
            out.append(("bytes", 1, base + j))
    elif k == "V":
        pass       # padding
    else:
        out.append(({"i": "I", "u": "U", "b": "U", "f": "R", "O": "O"}.get(k, k), dt.itemsize, base))


def numpy_layout(text):
    """(canon leaves, itemsize) or None if NumPy does not read the format"""
    from numpy._core._internal import _dtype_from_pep3118
    import warnings
    try:
        with warnings.catch_warnings():
            warnings.simplefilter("ignore")
            dt = _dtype_from_pep3118(text)
    except Exception as e:       # noqa
        return None
    out = []
    _np_flat(dt, 0, out)
    return out, dt.itemsize


def struct_size(text):
    try:
        return struct.calcsize(text)
    except struct.error:
        return None


def unpack_values(text, item):
    """the scalars struct.unpack reads from one item, as the driver reports them; None if struct cannot"""
    if "p" in text or "?" in text:
        return None            # Pascal strings and bools are interpreted, not just read
    try:
        vals = struct.unpack(text, item)
    except struct.error:
        return None
    out = []
    for x in vals:
        if isinstance(x, bytes):
            out.extend(struct.unpack("%db" % len(x), x))
        elif isinstance(x, bool):
            out.append(int(x))
        else:
            out.append(fnorm(x))
    return out


def same_values(a, b):
    """equal, where 1-byte integers are compared modulo their sign interpretation"""
    if len(a) != len(b):
        return False
    for x, y in zip(a, b):
        if x == y:
            continue
        if isinstance(x, int) and isinstance(y, int) and abs(x) < 256 and abs(y) < 256 and (x - y) % 256 == 0:
            continue
        return False
    return True


def group_same(spec_g, oracle_g):
    return spec_g == oracle_g or (oracle_g == "bytes" and spec_g in ("I", "H"))


# --------------------------------------------------------------------------
# child driver: performs the acquisitions; one line per call, written before and after the call, so that a
# crash is attributed exactly.  Calls flagged risky run in a forked copy (a crash or a hang costs a fork only).

DRIVER = r'''
import json, os, sys, signal, importlib
moddir, modname, infile, outfile, start = sys.argv[1], sys.argv[2], sys.argv[3], sys.argv[4], int(sys.argv[5])
sys.path.insert(0, moddir)
mod = importlib.import_module(modname)
if not mod.__file__.endswith(".so"):
    print("@@" + json.dumps({"fatal": "not an extension: %s" % mod.__file__})); sys.exit(3)
spec = json.load(open(infile))
raw = bytes.fromhex(spec["raw"])
calls = spec["calls"]
fd = os.open(outfile, os.O_WRONLY | os.O_APPEND | os.O_CREAT)

def norm(v):
    if isinstance(v, float):
        return "nan" if v != v else v.hex()
    return v

def one(c):
    fn, fmt, isz, shape, strides, off, sub = c[0], c[1], c[2], c[3], c[4], c[5], c[6]
    n = 1
    for d in shape: n *= d
    e = mod.Exp(raw[:max(isz * n, 1) if strides is None else len(raw)], fmt.encode("latin1"), isz, tuple(shape),
                None if strides is None else tuple(strides), off, None if sub is None else tuple(sub))
    try:
        if fn == "P_geom":          # CPython's own memoryview as oracle for contiguity and element order
            m = memoryview(e)
            flat = m.tolist()
            for _ in range(m.ndim - 1):
                flat = [y for x in flat for y in x]
            r = ["ok", [m.c_contiguous, m.f_contiguous] + flat]
            m.release()
        elif fn[:2] in ("gm", "gb"):
            r = ["ok", getattr(mod, fn)(e, *(list(shape) + [0, 0, 0])[:3])]
        else:
            r = ["ok", [norm(x) for x in getattr(mod, fn)(e, shape[0])]]
    except BaseException as ex:
        r = ["exc", type(ex).__name__]
    return r + [e.gets, e.releases]

for i in range(start, len(calls)):
    c = calls[i]
    if c[7]:        # risky: in a forked copy, under a CPU-time limit
        rd, wr = os.pipe()
        pid = os.fork()
        if pid == 0:
            os.close(rd)
            signal.setitimer(signal.ITIMER_VIRTUAL, 1.0)
            signal.setitimer(signal.ITIMER_REAL, 60.0)
            r = one(c)
            os.write(wr, json.dumps(r).encode())
            os._exit(0)
        os.close(wr)
        buf = b""
        while True:
            b = os.read(rd, 65536)
            if not b: break
            buf += b
        os.close(rd)
        _, st = os.waitpid(pid, 0)
        if os.WIFSIGNALED(st):
            sig = os.WTERMSIG(st)
            r = ["hang" if sig in (signal.SIGVTALRM, signal.SIGALRM) else "crash", sig]
        elif buf:
            r = json.loads(buf)
        else:
            r = ["crash", "exit%d" % os.WEXITSTATUS(st)]
        os.write(fd, (json.dumps([i, r]) + "\n").encode())
    else:
        os.write(fd, b"S%d\n" % i)
        signal.setitimer(signal.ITIMER_VIRTUAL, 5.0)      # a call that does not come back kills the driver (SIGVTALRM)
        r = one(c)
        signal.setitimer(signal.ITIMER_VIRTUAL, 0)
        os.write(fd, (json.dumps([i, r]) + "\n").encode())
os.close(fd)
print("@@" + json.dumps({"done": len(calls)}))
'''


ABORTED = []      # tags of call tables that were given up after too many unpredicted deaths of the driver


def run_acquisitions(build, calls, tag="acq", timeout=3000, max_deaths=12):
    """calls: [fn, fmt text, itemsize, shape, strides|None, offset, suboffsets|None, risky] -> observations
    ["ok", values, gets, releases] | ["exc", type name, gets, releases] | ["crash", signal] | ["hang", signal]"""
    moddir = os.path.dirname(build.so)
    inf = os.path.join(moddir, tag + "_in.json")
    outf = os.path.join(moddir, tag + "_out.ndjson")
    with open(inf, "w") as f:
        json.dump({"raw": RAW.hex(), "calls": calls}, f)
    if os.path.exists(outf):
        os.unlink(outf)
    obs = [None] * len(calls)
    start = 0
    deaths = 0
    while start < len(calls):
        ch = core.run_child(DRIVER, [moddir, build.name, inf, outf, str(start)], timeout=timeout, mem_mb=4096)
        started = -1
        if os.path.exists(outf):
            with open(outf) as f:
                for line in f:
                    if line.startswith("S"):
                        try:
                            started = int(line[1:])
                        except ValueError:
                            pass
                        continue
                    try:
                        i, r = json.loads(line)
                    except ValueError:
                        continue
                    obs[i] = r
        fatal = [j for j in ch.json_lines() if "fatal" in j]
        if fatal:
            core.die("driver: %s" % fatal[0]["fatal"])
        if ch.rc == 0 and ch.json_lines():
            break
        # the driver itself died: in the call it had started
        nxt = started if started >= start and obs[started] is None else None
        if nxt is None:
            nxt = start
            while nxt < len(calls) and obs[nxt] is not None:
                nxt += 1
            if nxt >= len(calls):
                break
        obs[nxt] = ["hang", "timeout"] if ch.timed_out else ["hang", ch.signal] if ch.signal == 26 else ["crash", ch.signal or ("exit%s" % ch.rc)]
        core.CRASH_LOGS.append({"call": calls[nxt], "obs": obs[nxt], "stderr": ch.err[-2000:]})
        deaths += 1
        start = nxt + 1
        if deaths >= max_deaths:
            # every death is a disagreement already; the rest of this table stays unexecuted (observation None)
            ABORTED.append(tag)
            break
    return obs


LAYOUT_DRIVER = r"""
import json, sys, importlib
sys.path.insert(0, sys.argv[1])
mod = importlib.import_module(sys.argv[2])
assert mod.__file__.endswith(".so"), mod.__file__
print("@@" + json.dumps({cid: getattr(mod, "lay_" + cid)() for cid in sys.argv[3].split(",")}))
"""


def run_layouts(build, cids):
    ch = core.run_child(LAYOUT_DRIVER, [os.path.dirname(build.so), build.name, ",".join(cids)], timeout=300)
    js = ch.json_lines()
    if ch.rc != 0 or not js:
        core.die("layout driver failed: %s" % ch.err[-1000:])
    return js[0]
