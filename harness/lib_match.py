"""C31 helpers: rendering of spec/MatchStmt.tla statements as Python / Cython source, the runtime
module shared by the CPython leg and the compiled leg (subject classes, logging guard / body
functions, canonical repr), the child driver, spec-side case features.

Pattern (JSON from TLC): {"t": kind, "v": text, "a": [sub-patterns], "ks": [key texts | attribute names]}.
Names follow the spec: capture "v"+path, star "s"+path, as "w"+path (inner pattern: path+"0"),
**rest "r"+path; child i extends the path by the digit i; alternatives share the path."""
import collections
import json
import os
import re
import zlib

import core

RUNTIME = r'''
"""runtime of the C31 check (plain Python in both legs)"""
import collections.abc

CUR = [None]      # the log of the running call (K.E appends to it)
GS = []           # guard outcomes still to be handed out


class GuardErr(Exception):
    pass


_MISSING = object()


class SStr(str):
    pass


class LSub(list):
    pass


class DSub(dict):
    pass


class CSeq(collections.abc.Sequence):
    def __init__(self, items):
        self._i = list(items)

    def __len__(self):
        return len(self._i)

    def __getitem__(self, i):
        return self._i[i]


class RSeq(object):
    def __init__(self, items):
        self._i = list(items)

    def __len__(self):
        return len(self._i)

    def __getitem__(self, i):
        return self._i[i]

    def __iter__(self):
        return iter(self._i)


collections.abc.Sequence.register(RSeq)


class CMap(collections.abc.Mapping):
    def __init__(self, d):
        self._d = dict(d)

    def __getitem__(self, k):
        return self._d[k]

    def __len__(self):
        return len(self._d)

    def __iter__(self):
        return iter(self._d)


class RMap(object):
    def __init__(self, d):
        self._d = dict(d)

    def __getitem__(self, k):
        return self._d[k]

    def __len__(self):
        return len(self._d)

    def __iter__(self):
        return iter(self._d)

    def keys(self):
        return self._d.keys()

    def get(self, k, default=None):
        return self._d.get(k, default)


collections.abc.Mapping.register(RMap)


class P(object):
    __match_args__ = ("a", "b")

    def __init__(self, a=_MISSING, b=_MISSING):
        if a is not _MISSING:
            self.a = a
        if b is not _MISSING:
            self.b = b


class P2(P):
    pass


class Q(object):
    def __init__(self, a=_MISSING, b=_MISSING):
        if a is not _MISSING:
            self.a = a
        if b is not _MISSING:
            self.b = b


class BadMA(object):
    __match_args__ = ["a", "b"]

    def __init__(self, a=_MISSING, b=_MISSING):
        if a is not _MISSING:
            self.a = a
        if b is not _MISSING:
            self.b = b


class Boom(object):
    __match_args__ = ("a", "b")
    b = 5

    @property
    def a(self):
        raise ValueError("boom")


class PyE(object):
    """CPython-leg stand-in of the cdef class E of the compiled modules"""
    __match_args__ = ("a", "b")

    def __init__(self, a=None, b=None):
        self.a = a
        self.b = b


PyE.__name__ = "E"

_SEQC = (LSub, CSeq, RSeq)
_MAPC = (DSub, CMap, RMap)


def canon(o):
    t = type(o)
    if o is None or t is bool or t is int or t is float or t is str or t is bytes:
        return repr(o)
    if t is SStr:
        return "SStr(%r)" % str(o)
    if t is list:
        return "[" + ", ".join([canon(x) for x in o]) + "]"
    if t is tuple:
        return "(" + ", ".join([canon(x) for x in o]) + ("," if len(o) == 1 else "") + ")"
    if t in _SEQC:
        return t.__name__ + "([" + ", ".join([canon(x) for x in (o if t is LSub else o._i)]) + "])"
    if t is dict:
        return "{" + ", ".join(["%s: %s" % (canon(k), canon(v)) for k, v in o.items()]) + "}"
    if t in _MAPC:
        d = o if t is DSub else o._d
        return t.__name__ + "({" + ", ".join(["%s: %s" % (canon(k), canon(v)) for k, v in d.items()]) + "})"
    if t is Boom:
        return "Boom()"
    if t in (P, P2, Q, BadMA) or t.__name__ == "E":
        parts = []
        for n in ("a", "b"):
            try:
                parts.append("%s=%s" % (n, canon(getattr(o, n))))
            except AttributeError:
                pass
        return t.__name__ + "(" + ", ".join(parts) + ")"
    return "<?%s>" % t.__name__


class _LogEq(object):
    """K.E: logs the == it receives; equal to the number 1"""
    def __eq__(self, other):
        CUR[0].append(["eq", 0, [["", canon(other)]]])
        return type(other) in (int, float, bool) and other == 1

    def __hash__(self):
        return 1


class K(object):
    i1 = 1
    sa = "a"
    none = None
    k = "k"
    E = _LogEq()


def _b(kw):
    return sorted([[n, canon(v)] for n, v in kw.items()])


def G(L, i, **kw):
    L.append(["g", i, _b(kw)])
    o = GS.pop(0) if GS else "T"
    if o == "R":
        raise GuardErr()
    return o == "T"


def B(L, i, **kw):
    L.append(["b", i, _b(kw)])
'''

RT_NAMES = "GuardErr, SStr, LSub, DSub, CSeq, RSeq, CMap, RMap, P, P2, Q, BadMA, Boom, K, G, B"

PYX_HEADER = """# cython: language_level=3
import c31rt as rt
from c31rt import %s


cdef class E:
    cdef readonly object a, b
    __match_args__ = ("a", "b")

    def __init__(self, a=None, b=None):
        self.a = a
        self.b = b

""" % RT_NAMES

PY_HEADER = """import c31rt as rt
from c31rt import %s
from c31rt import PyE as E

""" % RT_NAMES

DRIVER = r'''
import importlib, json, os, sys
rtdir, mode, target, inf, start = sys.argv[1], sys.argv[2], sys.argv[3], sys.argv[4], int(sys.argv[5])
skip = set(sys.argv[6].split(",")) if len(sys.argv) > 6 and sys.argv[6] else set()
sys.path.insert(0, rtdir)
sys.path.insert(0, os.path.dirname(target))
import c31rt as rt
name = os.path.basename(target).split(".")[0]
mod = importlib.import_module(name)
if mode == "C" and not mod.__file__.endswith(".so"):
    print("@@" + json.dumps({"fatal": "imported %s instead of the extension" % mod.__file__})); sys.exit(0)
if mode == "P" and not mod.__file__.endswith(".py"):
    print("@@" + json.dumps({"fatal": "imported %s instead of the .py" % mod.__file__})); sys.exit(0)
with open(inf) as f:
    work = json.load(f)
ns = dict(vars(rt))
ns["E"] = mod.E
subj = [compile(e, "<subject>", "eval") for e in work["subjects"]]
items = work["items"]
out = sys.stdout
for idx in range(start, len(items)):
    fname, si, gs = items[idx]
    if fname in skip:
        continue
    L = []
    rt.CUR[0] = L
    rt.GS[:] = gs
    s = eval(subj[si - 1], ns)
    exc = ""
    try:
        getattr(mod, fname)(s, L)
    except BaseException as e:
        exc = type(e).__name__
    out.write("@@" + json.dumps([idx, L, exc]) + "\n")
    out.flush()
out.write("@@" + json.dumps({"end": len(items)}) + "\n")
'''


def write_runtime(d):
    p = os.path.join(d, "c31rt.py")
    if not os.path.exists(p):
        with open(p, "w") as f:
            f.write(RUNTIME)
    return p


# --------------------------------------------------------------------------- rendering

def _h(*parts):
    return zlib.crc32(repr(parts).encode())


def names(p, path=""):
    """the names a pattern binds (spec: Names)"""
    t = p["t"]
    if t == "cap":
        return ["v" + path]
    if t == "star":
        return ["s" + path]
    if t == "as":
        return names(p["a"][0], path + "0") + ["w" + path]
    if t == "or":
        return names(p["a"][0], path)
    out = []
    if t in ("seq", "map", "cls"):
        for i, c in enumerate(p["a"], 1):
            out += names(c, path + str(i))
        if t == "map" and p["v"] == "rest":
            out.append("r" + path)
    return out


CLS_SRC = {"NotT": "K.i1"}


def pat(p, path, sid, top=False):
    """source text of a pattern; the surface variant (brackets, dotted names, groups) is picked from a hash"""
    t = p["t"]
    h = _h(sid, path, t)
    if t == "lit":
        return p["v"]
    if t == "val":
        return ("rt." + p["v"]) if h % 4 == 0 else p["v"]
    if t == "cap":
        return "v" + path
    if t == "wild":
        return "_"
    if t == "star":
        return "*s" + path
    if t == "starw":
        return "*_"
    if t == "as":
        inner = p["a"][0]
        s = pat(inner, path + "0", sid)
        if inner["t"] in ("as", "or") or h % 3 == 0:
            s = "(" + s + ")"
        return "%s as w%s" % (s, path)
    if t == "or":
        alts = []
        for c in p["a"]:
            s = pat(c, path, sid)
            if c["t"] in ("as", "or"):
                s = "(" + s + ")"
            alts.append(s)
        return " | ".join(alts)
    if t == "seq":
        kids = [pat(c, path + str(i), sid) for i, c in enumerate(p["a"], 1)]
        kids = ["(" + k + ")" if c["t"] == "as" and h % 2 else k for k, c in zip(kids, p["a"])]
        if top and kids and h % 5 == 0:
            return ", ".join(kids) + ("," if len(kids) == 1 else "")       # open sequence pattern
        if h % 2:
            return "(" + ", ".join(kids) + ("," if len(kids) == 1 else "") + ")"
        return "[" + ", ".join(kids) + "]"
    if t == "map":
        items = ["%s: %s" % (k, pat(c, path + str(i), sid)) for i, (k, c) in enumerate(zip(p["ks"], p["a"]), 1)]
        if p["v"] == "rest":
            items.append("**r" + path)
        return "{" + ", ".join(items) + "}"
    if t == "cls":
        cl = CLS_SRC.get(p["v"], p["v"])
        if p["v"] in ("P", "P2", "Q", "BadMA", "Boom", "CSeq") and h % 3 == 0:
            cl = "rt." + cl
        args = [("%s=" % k if k else "") + pat(c, path + str(i), sid) for i, (k, c) in enumerate(zip(p["ks"], p["a"]), 1)]
        return "%s(%s)" % (cl, ", ".join(args))
    raise ValueError(t)


TYPINGS = {"O": "s", "L": "list s", "T": "tuple s", "D": "dict s", "I": "long s", "E": "E s"}


def function(name, stmt, typing, pyx):
    arg = TYPINGS[typing] if pyx else "s"
    lines = ["def %s(%s, L):" % (name, arg), "    match s:"]
    for j, c in enumerate(stmt["cases"], 1):
        ns = names(c["p"])
        kw = "".join(", %s=%s" % (n, n) for n in ns)
        head = "        case %s" % pat(c["p"], "", stmt["id"], top=True)
        if c["g"]:
            head += " if G(L, %d%s)" % (j, kw)
        lines.append(head + ":")
        lines.append("            B(L, %d%s)" % (j, kw))
    return "\n".join(lines) + "\n"


def statement_source(stmt):
    return function("f", stmt, "O", False)


# --------------------------------------------------------------------------- subjects / typings

_RE_INT = re.compile(r"-?\d+$")


def subject_class(rp):
    if rp == "None":
        return "None"
    if _RE_INT.match(rp):
        return "int"
    if rp.startswith("["):
        return "list"
    if rp.startswith("("):
        return "tuple"
    if rp.startswith("{"):
        return "dict"
    m = re.match(r"([A-Za-z_0-9]+)\(", rp)
    if m:
        return m.group(1)
    if rp in ("True", "False"):
        return "bool"
    if rp.startswith("b'"):
        return "bytes"
    if rp.startswith("'"):
        return "str"
    return "float"


DOMAIN = {"L": ("list", "None"), "T": ("tuple", "None"), "D": ("dict", "None"), "I": ("int",), "E": ("E", "None")}


def in_domain(typing, rp):
    return typing == "O" or subject_class(rp) in DOMAIN[typing]


def walk(p):
    yield p
    for c in p["a"]:
        for x in walk(c):
            yield x


def relevant_typings(stmt):
    """typed variants worth compiling for a statement (the subject type changes what MatchCaseNodes generates)"""
    rel = set()
    for c in stmt["cases"]:
        for i, p in enumerate(walk(c["p"])):
            t = p["t"]
            if t == "seq":
                rel.update("LT")
            elif t == "map" or (t == "cls" and p["v"] == "dict"):
                rel.add("D")
            elif t == "cls" and p["v"] == "E":
                rel.add("E")
            elif t == "cls" and p["v"] in ("list", "tuple"):
                rel.add("L" if p["v"] == "list" else "T")
            elif i == 0 and (t in ("lit", "val", "or") or (t == "cls" and p["v"] in ("int", "bool", "float"))):
                rel.add("I")
            elif t == "lit" and p["v"] == "None":
                rel.update("LE")
    return sorted(rel)


# --------------------------------------------------------------------------- spec-side features of a statement

DUP_KEYS = (("1", "K.i1"), ("'k'", "K.k"))
LIT_CANON = {"K.i1": "1", "K.sa": "'a'", "K.none": "None", "K.k": "'k'", "K.E": "<?_LogEq>"}


def _value_only(p):
    """or-pattern whose alternatives are literal / value patterns only (no names, no wildcard)"""
    return p["t"] == "or" and all(c["t"] in ("lit", "val") or _value_only(c) for c in p["a"])


def _under_as(p):
    while p["t"] == "as":
        p = p["a"][0]
    return p


def _outer(p):
    """the pattern and what `as` / `or` wrap directly around the same subject"""
    yield p
    if p["t"] in ("as", "or"):
        for c in p["a"]:
            for x in _outer(c):
                yield x


def _irref(p):
    t = p["t"]
    return t in ("cap", "wild") or (t == "as" and _irref(p["a"][0])) or (t == "or" and any(_irref(c) for c in p["a"]))


def _simple(p):
    """what MatchCaseNodes turns into an if-clause (is_simple_value_comparison): literal, value, capture, wildcard,
    alternatives of those that bind nothing; an as-target does not change it"""
    p = _under_as(p)
    return p["t"] in ("lit", "val", "cap", "wild") or (p["t"] == "or" and all(_simple(c) and not names(c) for c in p["a"]))


def _structural_alt(p):
    return p["t"] in ("seq", "map", "cls") or (p["t"] == "or" and any(_structural_alt(c) for c in p["a"]))


def hazards(stmt):
    """features of the statement (spec side) that known findings refer to: {feature: first case that has it}"""
    hz = {}

    def add(name, j):
        hz.setdefault(name, j)
    regular = None      # the nearest preceding case that stays a MatchCaseNode (not simple, or guarded)
    for j, c in enumerate(stmt["cases"], 1):
        if _simple(c["p"]) and not c["g"]:
            if regular is not None and not _irref(regular["p"]) and set(names(regular["p"])) & set(names(c["p"])):
                add("name-rebound-in-substituted-case", j)
        else:
            regular = c
        for p in walk(c["p"]):
            if p["t"] in ("seq", "cls"):
                for k in p["a"]:
                    if k["t"] == "or" and _irref(k) and not names(k) and _structural_alt(k):
                        add("irrefutable-alternatives-with-structural-alternative", j)
        for p in _outer(c["p"]):
            if p["t"] == "seq" and any(k["t"] not in ("wild", "starw") for k in p["a"]):
                add("sequence-pattern-on-subject", j)       # a sequence pattern that takes items out of the subject itself
        for p in walk(c["p"]):
            t = p["t"]
            if t == "as" and _under_as(p)["t"] in ("lit", "val") and _under_as(p)["v"] not in ("None", "True", "False"):
                add("as-of-value-pattern", j)
            if t == "cls":
                for v in p["a"]:
                    if _value_only(_under_as(v)):
                        add("value-alternatives-in-class-pattern", j)
            if t == "map":
                ks = p["ks"]
                if any(a in ks and b in ks for a, b in DUP_KEYS):
                    add("map-runtime-duplicate-key", j)
                for v in p["a"]:
                    if v["t"] == "as" and v["a"][0]["t"] == "wild":
                        add("map-value-wildcard-as", j)
            elif t == "cls":
                ks = p["ks"]
                npos = sum(1 for k in ks if not k)
                if p["v"] in ("P", "P2", "E", "Boom") and any(k in ["a", "b"][:npos] for k in ks if k):
                    add("class-duplicate-attribute", j)
                if p["v"] == "Boom" and npos >= 1:
                    add("class-positional-getter-raises", j)
    return hz


def as_value_aliases(stmt, j):
    """{as-name: canonical texts of the pattern values} for the `<literal or constant> as name` patterns of case j"""
    out = {}

    def rec(p, path):
        t = p["t"]
        if t == "as":
            inner = _under_as(p)
            if inner["t"] in ("lit", "val") and inner["v"] not in ("None", "True", "False"):
                out.setdefault("w" + path, set()).add(LIT_CANON.get(inner["v"], inner["v"]))
            rec(p["a"][0], path + "0")
        elif t == "or":
            for c in p["a"]:
                rec(c, path)
        else:
            for i, c in enumerate(p["a"], 1):
                rec(c, path + str(i))
    rec(stmt["cases"][j - 1]["p"], "")
    return out


def top_kinds(stmt):
    return [c["p"]["t"] for c in stmt["cases"]]


# --------------------------------------------------------------------------- running

CRASH_CAP = 3     # after this many crashes of one function its remaining items are not run ("SKIPPED")


def run_items(rtdir, mode, target, subjects, items, tag, timeout=900):
    """items: [[funcname, si, gs], ...] -> list of [log, exc] | "CRASH:<sig>" | "TIMEOUT" | "SKIPPED" (one per item)."""
    wd = os.path.dirname(target)
    inf = os.path.join(wd, tag + "_in.json")
    with open(inf, "w") as f:
        json.dump({"subjects": subjects, "items": items}, f)
    res = [None] * len(items)
    start = 0
    crashes = collections.Counter()
    skip = set()
    while start < len(items):
        ch = core.run_child(DRIVER, [rtdir, mode, target, inf, str(start), ",".join(sorted(skip))], timeout=timeout, with_snapshot=False)
        ended = False
        for r in ch.json_lines():
            if isinstance(r, dict):
                if "fatal" in r:
                    core.die("driver: %s" % r["fatal"])
                ended = ended or "end" in r
            else:
                res[r[0]] = [r[1], r[2]]
        if ended and ch.rc == 0:
            break
        nxt = start
        while nxt < len(items) and (res[nxt] is not None or items[nxt][0] in skip):
            nxt += 1
        if nxt >= len(items):
            break
        if not (ch.timed_out or ch.crashed) and nxt == start:
            core.die("driver failed before running anything (%s): rc=%s %s" % (tag, ch.rc, ch.err[-1500:]))
        res[nxt] = "TIMEOUT" if ch.timed_out else ("CRASH:%d" % ch.signal if ch.crashed else "CRASH:exit%s" % ch.rc)
        if not ch.timed_out:
            core.CRASH_LOGS.append({"call": items[nxt], "target": target, "stderr": ch.err[-1500:]})
        crashes[items[nxt][0]] += 1
        if crashes[items[nxt][0]] >= CRASH_CAP:
            skip.add(items[nxt][0])
        if sum(crashes.values()) > 400:
            core.die("too many crashes in run_items (%s)" % tag)
        start = nxt + 1
    return ["SKIPPED" if r is None else r for r in res]
