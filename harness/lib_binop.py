"""C28 helpers: source generators for the operator-dispatch class families (as `cdef class`
for the code under test, as plain `class` for the CPython oracle) and the child driver that
replays the cases published by spec/BinopSlot.tla and spec/BinopSlotCmp.tla.

Arithmetic family (one module per operator):
  C<c>            cdef class, subset c of {op=1, rop=2, iop=4}
  S<c>_<s>(C<c>)  cdef subclass with its own subset s
  T<c>_<s>_<t>    cdef class derived from S<c>_<s>            (only when depth3=True)
  D<d>            unrelated cdef class
  P(C<c>), O      Python classes, created by the driver at run time
Every method appends "<Role>.<m>:<self><other>" (L = left operand, R = right operand) to LOG and
returns its tag "<Role>.<m>" or NotImplemented when the tag is in NI.
"""

#        name        symbol  __op__          __rop__          __iop__
OPS = [("add", "+", "__add__", "__radd__", "__iadd__"),
       ("sub", "-", "__sub__", "__rsub__", "__isub__"),
       ("mul", "*", "__mul__", "__rmul__", "__imul__"),
       ("matmul", "@", "__matmul__", "__rmatmul__", "__imatmul__"),
       ("floordiv", "//", "__floordiv__", "__rfloordiv__", "__ifloordiv__"),
       ("lshift", "<<", "__lshift__", "__rlshift__", "__ilshift__"),
       ("and", "&", "__and__", "__rand__", "__iand__"),
       ("pow", "**", "__pow__", "__rpow__", "__ipow__"),
       ("truediv", "/", "__truediv__", "__rtruediv__", "__itruediv__"),
       ("mod", "%", "__mod__", "__rmod__", "__imod__"),
       ("rshift", ">>", "__rshift__", "__rrshift__", "__irshift__"),
       ("or", "|", "__or__", "__ror__", "__ior__"),
       ("xor", "^", "__xor__", "__rxor__", "__ixor__")]
OPD = {o[0]: o for o in OPS}
BITS = {"op": 1, "rop": 2, "iop": 4}


def bits(names):
    return sum(BITS[n] for n in (names or ()))


_HEAD = '''# cython: language_level=3
LOG = []
NI = set()
X = [None, None]

def _pos(o):
    return "L" if o is X[0] else ("R" if o is X[1] else "?")
'''


def _methods(role, sub, op, compiled):
    name, sym, m_op, m_rop, m_iop = OPD[op]
    out = []
    for key, meth in (("op", m_op), ("rop", m_rop), ("iop", m_iop)):
        if not sub & BITS[key]:
            continue
        tag = "%s.%s" % (role, key)
        if op == "pow" and key != "iop":
            sig = "(self, other, mod)" if compiled else "(self, other, mod=None)"
        else:
            sig = "(self, other)"
        out.append("    def %s%s:\n        LOG.append(\"%s:\" + _pos(self) + _pos(other))\n"
                   "        return NotImplemented if \"%s\" in NI else \"%s\"\n" % (meth, sig, tag, tag, tag))
    if not out:
        out.append("    pass\n")
    return "".join(out)


REDUCED = {"cs": (1, 2, 3, 7), "ss": (0, 1, 2, 3, 6), "ds": (0, 1, 2, 3)}


def binop_source(op, compiled, depth3=False, cs=range(8), ss=range(8), ds=range(8)):
    """Source of the class family for one operator (cs / ss / ds: which subsets C, S and D range over)."""
    kw = "cdef class" if compiled else "class"
    name, sym = OPD[op][0], OPD[op][1]
    src = [_HEAD]
    for c in cs:
        src.append("%s C%d:\n%s\n" % (kw, c, _methods("C", c, op, compiled)))
        for s in ss:
            src.append("%s S%d_%d(C%d):\n%s\n" % (kw, c, s, c, _methods("S", s, op, compiled)))
            if depth3:
                for t in range(8):
                    src.append("%s T%d_%d_%d(S%d_%d):\n%s\n" % (kw, c, s, t, c, s, _methods("T", t, op, compiled)))
    for d in ds:
        src.append("%s D%d:\n%s\n" % (kw, d, _methods("D", d, op, compiled)))
    src.append("def do_bin(x, y):\n    return x %s y\n\ndef do_inp(x, y):\n    x %s= y\n    return x\n" % (sym, sym))
    return "".join(src)


# --------------------------------------------------------------------------
# child driver (arithmetic): argv = mode moddir modname op casefile outfile seed
BIN_CHILD = r'''
import json, sys, os, importlib, types, random
mode, moddir, modname, op, casefile, outfile, seed = sys.argv[1:8]
meths = dict(zip(("op", "rop", "iop"), sys.argv[8:11]))
if mode == "compiled":
    sys.path.insert(0, moddir)
    mod = importlib.import_module(modname)
    assert mod.__file__.endswith(".so"), mod.__file__
else:
    mod = types.ModuleType(modname)
    exec(compile(open(os.path.join(moddir, modname + ".py")).read(), modname, "exec"), mod.__dict__)
BITS = {"op": 1, "rop": 2, "iop": 4}
LOG, NI, X = mod.LOG, mod.NI, mod.X
def pos(o):
    return "L" if o is X[0] else ("R" if o is X[1] else "?")
def mk(tag):
    def f(self, other, *a):
        LOG.append(tag + ":" + pos(self) + pos(other))
        return NotImplemented if tag in NI else tag
    return f
_pycache = {}
def pyclass(role, base, sub):
    key = (role, base, sub)
    if key not in _pycache:
        d = {meths[k]: mk(role + "." + k) for k in BITS if sub & BITS[k]}
        _pycache[key] = type(role, (base,), d)
    return _pycache[key]
def b(defs, k):
    return sum(BITS[n] for n in defs.get(k, ()))
rng = random.Random(int(seed))
bad = []
n = 0
agree_model = 0
with open(casefile) as f:
    for line in f:
        case = json.loads(line)
        n += 1
        defs = case["defs"]
        c, s, t = b(defs, "C"), b(defs, "S"), b(defs, "T")
        def cls(k):
            if k == "C": return getattr(mod, "C%d" % c)
            if k == "S": return getattr(mod, "S%d_%d" % (c, s))
            if k == "T": return getattr(mod, "T%d_%d_%d" % (c, s, t))
            if k == "D": return getattr(mod, "D%d" % b(defs, "D"))
            if k == "P": return pyclass("P", getattr(mod, "C%d" % c), b(defs, "P"))
            if k == "O": return pyclass("O", object, b(defs, "O"))
        x, y = cls(case["l"])(), cls(case["r"])()
        X[0], X[1] = x, y
        beh = case["beh"] if isinstance(case["beh"], dict) else {}
        NI.clear()
        for k, ms in defs.items():
            for m in ms:
                tag = k + "." + m
                v = beh.get(tag)
                if v is None:
                    v = rng.choice(("V", "NI"))     # undecided by the model: no prediction may depend on it
                if v == "NI":
                    NI.add(tag)
        del LOG[:]
        try:
            res = mod.do_inp(x, y) if case["ip"] else mod.do_bin(x, y)
            if not isinstance(res, str): res = "?" + type(res).__name__
        except TypeError:
            res = "TypeError"
        except BaseException as e:
            res = "E:" + type(e).__name__
        log = list(LOG)
        if res == case["ires"] and log == case["ilog"]:
            agree_model += 1
        if res != case["res"] or log != case["log"]:
            bad.append({"i": n - 1, "res": res, "log": log})
X[0] = X[1] = None
json.dump({"n": n, "bad": bad, "agree_model": agree_model}, open(outfile, "w"))
'''


# --------------------------------------------------------------------------
# rich comparisons
CMP = [("lt", "<"), ("le", "<="), ("eq", "=="), ("ne", "!="), ("gt", ">"), ("ge", ">=")]
CBITS = {"lt": 1, "le": 2, "eq": 4, "ne": 8, "gt": 16, "ge": 32}


def cbits(names):
    return sum(CBITS[n] for n in (names or ()))


_CHEAD = '''LOG = []
BEH = {}
X = [None, None]

def _pos(o):
    if X[0] is X[1]:
        return "X"
    return "L" if o is X[0] else ("R" if o is X[1] else "?")
'''


def _cmp_methods(role, sub):
    out = []
    for name, _ in CMP:
        if sub & CBITS[name]:
            tag = "%s.%s" % (role, name)
            out.append("    def __%s__(self, other):\n        LOG.append(\"%s:\" + _pos(self) + _pos(other))\n"
                       "        return BEH.get(\"%s\", NotImplemented)\n" % (name, tag, tag))
    if not out:
        out.append("    pass\n")
    return "".join(out)


def cmp_class_names(case):
    """names of the generated classes a comparison case needs: {kind: class name}"""
    d, t = case["defs"], case["tos"]
    out = {}
    if "C" in d:
        out["C"] = "C_%d_%d" % (cbits(d["C"]), int(t["C"]))
    if "S" in d:
        out["S"] = "S_%d_%d_%d_%d" % (cbits(d["C"]), int(t["C"]), cbits(d["S"]), int(t["S"]))
    if "D" in d:
        out["D"] = "D_%d_%d" % (cbits(d["D"]), int(t["D"]))
    return out


def cmp_source(classes, compiled):
    """classes: set of class names as produced by cmp_class_names (bases are added)."""
    need = set(classes)
    for n in list(need):
        if n.startswith("S_"):
            p = n.split("_")
            need.add("C_%s_%s" % (p[1], p[2]))
    kw = "cdef class" if compiled else "class"
    deco = "@cython.total_ordering\n" if compiled else "@functools.total_ordering\n"
    src = ["# cython: language_level=3\n" + ("cimport cython\n" if compiled else "import functools\n"), _CHEAD]

    def emit(name, base, role, sub, to):
        src.append("%s%s %s%s:\n%s\n" % (deco if to else "", kw, name, "(%s)" % base if base else "", _cmp_methods(role, sub)))
    for n in sorted(x for x in need if x.startswith("C_")):
        p = n.split("_")
        emit(n, None, "C", int(p[1]), int(p[2]))
    for n in sorted(x for x in need if x.startswith("S_")):
        p = n.split("_")
        emit(n, "C_%s_%s" % (p[1], p[2]), "S", int(p[3]), int(p[4]))
    for n in sorted(x for x in need if x.startswith("D_")):
        p = n.split("_")
        emit(n, None, "D", int(p[1]), int(p[2]))
    for name, sym in CMP:
        src.append("def do_%s(x, y):\n    return x %s y\n\n" % (name, sym))
    return "".join(src)


# child driver (comparisons): argv = mode moddir modname casefile outfile seed
CMP_CHILD = r'''
import json, sys, os, importlib, types, random
mode, moddir, modname, casefile, outfile, seed = sys.argv[1:7]
if mode == "compiled":
    sys.path.insert(0, moddir)
    mod = importlib.import_module(modname)
    assert mod.__file__.endswith(".so"), mod.__file__
else:
    mod = types.ModuleType(modname)
    exec(compile(open(os.path.join(moddir, modname + ".py")).read(), modname, "exec"), mod.__dict__)
CBITS = {"lt": 1, "le": 2, "eq": 4, "ne": 8, "gt": 16, "ge": 32}
LOG, BEH, X = mod.LOG, mod.BEH, mod.X
VAL = {"T": True, "F": False, "NI": NotImplemented}
def pos(o):
    if X[0] is X[1]: return "X"
    return "L" if o is X[0] else ("R" if o is X[1] else "?")
def mk(tag):
    def f(self, other):
        LOG.append(tag + ":" + pos(self) + pos(other))
        return BEH.get(tag, NotImplemented)
    return f
_pycache = {}
def pyclass(names):
    key = tuple(sorted(names))
    if key not in _pycache:
        _pycache[key] = type("O", (object,), {"__%s__" % n: mk("O." + n) for n in names})
    return _pycache[key]
def cb(names): return sum(CBITS[n] for n in names)
rng = random.Random(int(seed))
bad = []
n = 0
agree_model = 0
with open(casefile) as f:
    for line in f:
        case = json.loads(line)
        n += 1
        defs, tos = case["defs"], case["tos"]
        def cls(k):
            if k == "C": return getattr(mod, "C_%d_%d" % (cb(defs["C"]), int(tos["C"])))
            if k == "S": return getattr(mod, "S_%d_%d_%d_%d" % (cb(defs["C"]), int(tos["C"]), cb(defs["S"]), int(tos["S"])))
            if k == "D": return getattr(mod, "D_%d_%d" % (cb(defs["D"]), int(tos["D"])))
            if k == "O": return pyclass(defs["O"])
        x = cls(case["l"])()
        y = x if case["same"] else cls(case["r"])()
        X[0], X[1] = x, y
        beh = case["beh"] if isinstance(case["beh"], dict) else {}
        BEH.clear()
        for k, ms in defs.items():
            for m in ms:
                tag = k + "." + m
                v = beh.get(tag)
                if v is None:
                    v = rng.choice(("T", "F", "NI"))     # undecided by the model: no prediction may depend on it
                BEH[tag] = VAL[v]
        del LOG[:]
        try:
            res = getattr(mod, "do_" + case["op"])(x, y)
            res = "T" if res is True else "F" if res is False else "?" + type(res).__name__
        except TypeError:
            res = "TypeError"
        except BaseException as e:
            res = "E:" + type(e).__name__
        log = list(LOG)
        if case["same"]:
            want, iwant = [e[:-2] + "XX" for e in case["log"]], [e[:-2] + "XX" for e in case["ilog"]]
        else:
            want, iwant = case["log"], case["ilog"]
        if res == case["ires"] and log == iwant:
            agree_model += 1
        if res != case["res"] or log != want:
            bad.append({"i": n - 1, "res": res, "log": log})
X[0] = X[1] = None
json.dump({"n": n, "bad": bad, "agree_model": agree_model}, open(outfile, "w"))
'''
