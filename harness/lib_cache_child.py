"""Child: one cythonize() run for C48.  argv: workdir cachedir|- inputs.json out.json
Writes the probe sources according to `inputs`, removes m.c, runs the real
cythonize (snapshot on PYTHONPATH) and reports: output bytes hash, whether the
cache reported a hit, the fingerprint the real Cache computed."""
import hashlib
import io
import json
import os
import sys

workdir, cachedir, inf, outf = sys.argv[1:5]
inputs = json.load(open(inf))
os.makedirs(workdir, exist_ok=True)
os.chdir(workdir)


def w(name, text):
    with open(name, "w") as f:
        f.write(text)
    os.utime(name, (1000000000, 1000000000))   # fixed, old mtime: only content matters


v = lambda k: inputs.get(k, 0)
w("dep.pxd", "cdef enum:\n    K = %d\n" % (1 + v("dep_pxd")))
w("inc.pxi", "INC = %d\n" % (1 + v("dep_pxi")))
w("m.pyx", '''cimport cython
from dep cimport K
include "inc.pxi"
DEF CT = 0

cdef class A:
    cdef public int n
    cpdef int meth(self):
        return self.n

def f(int a, int b, list l, s, A obj):
    """docstring of f"""
    cdef int i, t = 0
    x = a // b
    y = l[a]
    for i in range(a):
        t += i
    lst = [j for j in range(3)]
    g = lambda q: q + K
    return x, y, K, INC, 1/2, len(l), t, obj.n, "%s" % s, SRC, g(1), abs(a)

def h(x, *, y=@SRC@):
    if x == 1: return 1
    elif x == 2: return 2
    elif x == 3: return 3
    return y

SRC = @SRC@
'''.replace("@SRC@", str(v("src"))))

import Cython
assert Cython.__file__.startswith(os.environ["PYTHONPATH"].split(os.pathsep)[0]), Cython.__file__
from Cython.Compiler import Options
from Cython.Build import Cache as CacheMod
from Cython.Build.Dependencies import cythonize

kw = {"quiet": False, "force": False}
directives = {}
DIRECTIVES = {
    "cdivision": (False, True), "boundscheck": (True, False), "wraparound": (True, False),
    "binding": (True, False), "embedsignature": (False, True), "nonecheck": (False, True),
    "overflowcheck": (False, True), "initializedcheck": (True, False), "profile": (False, True),
    "infer_types": (None, False), "always_allow_keywords": (True, False), "optimize.use_switch": (True, False),
    "auto_pickle": (None, False), "emit_code_comments": (True, False), "annotation_typing": (True, False),
    "c_api_binop_methods": (False, True),
}
GLOBALS = {
    "docstrings": (True, False), "cache_builtins": (True, False), "generate_cleanup_code": (False, 3),
    "embed_pos_in_docstring": (False, True), "clear_to_none": (True, False), "convert_range": (True, False),
    "lookup_module_cpdef": (False, True), "closure_freelist_size": (8, 0), "gcc_branch_hints": (True, False),
}
OPTIONS = {
    "language_level": (3, 2), "emit_linenums": (False, True), "c_line_in_traceback": (None, False),
    "language": (None, "c++"), "compile_time_env": (None, {"XX": 1}), "gdb_debug": (False, False),
    "verbose": (0, 0),
}
for name, (a, b) in DIRECTIVES.items():
    if ("directive:" + name) in inputs:
        directives[name] = (a, b)[inputs["directive:" + name]]
for name, (a, b) in GLOBALS.items():
    if ("global:" + name) in inputs:
        setattr(Options, name, (a, b)[inputs["global:" + name]])
for name, (a, b) in OPTIONS.items():
    if ("option:" + name) in inputs:
        val = (a, b)[inputs["option:" + name]]
        if val is not None:
            kw[name] = val
if "language_level" not in kw:
    kw["language_level"] = 3

fps = []
orig = CacheMod.Cache.transitive_fingerprint


def rec(self, *a, **k):
    r = orig(self, *a, **k)
    fps.append(r)
    return r


CacheMod.Cache.transitive_fingerprint = rec

for ext in (".c", ".cpp"):
    if os.path.exists("m" + ext):
        os.unlink("m" + ext)
buf = io.StringIO()
old = sys.stdout
sys.stdout = buf
err = None
try:
    try:
        cythonize(["m.pyx"], cache=(cachedir if cachedir != "-" else None), compiler_directives=directives, **kw)
    finally:
        sys.stdout = old
except BaseException as e:
    err = "%s: %s" % (type(e).__name__, str(e)[:300])
text = buf.getvalue()
cfile = "m.cpp" if os.path.exists("m.cpp") else "m.c"
data = open(cfile, "rb").read() if os.path.exists(cfile) else b""
json.dump({"sha": hashlib.sha256(data).hexdigest(), "size": len(data), "hit": "in cache" in text,
           "fingerprint": fps[-1] if fps else None, "error": err, "stdout": text[-500:]}, open(outf, "w"))
