"""C32 helpers: render the cases published by spec/ExcSpec.tla (and ExcSpecCpp.tla) as Cython
modules, compute the expected observation strings, and the documented-rule oracle (P)."""
import json
import struct

CT = {"int": "int", "double": "double", "ptr": "int*", "struct": "S", "void": "void", "object": "object"}
BASE_RT = tuple(CT)
# typed numeric layer of the spec (IntInfo / WTypes): C name, bits, signed
INTINFO = {"schar": ("signed char", 8, True), "uchar": ("unsigned char", 8, False),
           "short": ("short", 16, True), "ushort": ("unsigned short", 16, False),
           "int": ("int", 32, True), "uint": ("unsigned int", 32, False),
           "long": ("long", 64, True), "ulong": ("unsigned long", 64, False),
           "llong": ("long long", 64, True), "ullong": ("unsigned long long", 64, False),
           "ssize_t": ("Py_ssize_t", 64, True), "size_t": ("size_t", 64, False)}
WBOUNDS = {"uchar": ["255"], "ushort": ["65535"], "schar": ["-128", "127"], "short": ["-32768", "32767"]}
for _t, (_cn, _b, _s) in INTINFO.items():
    CT.setdefault(_t, _cn)
CT["float"] = "float"
FLT = ("double", "float")


def is_int(rt):
    return rt in INTINFO


def decode(rt, v):
    """value tag published by the spec -> the Python-level value (int family: the representative -> the mathematical value)"""
    if is_int(rt):
        n = int(v)
        _, bits, signed = INTINFO[rt]
        if not signed and n < 0:
            n += 1 << bits
        return n
    return v


def pconv(rt, lit):
    """P: the value a literal has as a value of the C type rt (ISO C 6.3.1.3 / 6.3.1.5), computed with Python integers and
    IEEE single precision -- independent of the TLA+ operators Rep / ConvT"""
    if is_int(rt):
        _, bits, signed = INTINFO[rt]
        n = int(lit) % (1 << bits)
        if signed and n >= 1 << (bits - 1):
            n -= 1 << bits
        return n
    if rt == "float" and lit not in ("nan",):
        f = struct.unpack("f", struct.pack("f", float(lit)))[0]
        return lit if f == float(lit) else lit + "f"
    return lit


def vrepr(rt, v):
    """repr() of the Python-level value the def wrapper returns for the (converted) value tag v of type rt"""
    if is_int(rt):
        return str(decode(rt, v))
    if v.endswith("f") and rt == "float":
        return repr(struct.unpack("f", struct.pack("f", float(v[:-1])))[0])
    return VREPR[v]

# body tags in the fixed order that defines the selector argument k
BODIES = {"int": ["raise", "fall", "-1", "0", "5", "7"],
          "double": ["raise", "fall", "-1.0", "0.0", "2.5", "nan"],
          "ptr": ["raise", "fall", "NULL", "P"],
          "struct": ["raise", "fall", "Z", "S"],
          "void": ["raise", "fall", "void"],
          "object": ["raise", "fall", "None", "obj"],
          "float": ["raise", "fall", "-1.0", "0.0", "2.5", "nan", "0.1"]}
for _t in INTINFO:
    BODIES.setdefault(_t, ["raise", "fall", "-1", "0", "5"] + WBOUNDS.get(_t, []))
RET = {"-1": "return -1", "0": "return 0", "5": "return 5", "7": "return 7",
       "-1.0": "return -1.0", "0.0": "return 0.0", "2.5": "return 2.5", "nan": "return NAN",
       "NULL": "return NULL", "P": "return &CELL", "Z": "return mkS(0, 0)", "S": "return mkS(3, 4)",
       "void": "return", "None": "return None", "obj": "return OBJ", "0.1": "return 0.1"}
SVTXT = {"-1": "-1", "0": "0", "5": "5", "-1.0": "-1.0", "0.0": "0.0", "nan": "NAN", "NULL": "NULL", "0.1": "0.1"}
for _bs in WBOUNDS.values():
    for _b in _bs:
        RET[_b] = "return " + _b
        SVTXT[_b] = _b
# repr() of the Python-level value the def wrapper returns for a value tag
VREPR = {"-1": "-1", "0": "0", "5": "5", "7": "7", "-1.0": "-1.0", "0.0": "0.0", "2.5": "2.5", "nan": "nan",
         "NULL": "'NULL'", "P": "'P'", "Z": "(0, 0)", "S": "(3, 4)", "void": "'void'", "None": "None", "obj": "('obj',)"}
ZERO = {"int": "0", "double": "0.0", "ptr": "NULL", "struct": "any", "void": "void", "object": "None", "float": "0.0"}
for _t in INTINFO:
    ZERO.setdefault(_t, "0")

HEADER = '''# cython: language_level=3
cimport cython
from libc.math cimport NAN
from cpython.exc cimport PyErr_Occurred
cdef struct S:
    int a
    int b
cdef int CELL = 42
OBJ = ("obj",)
cdef S mkS(int a, int b) noexcept nogil:
    cdef S s
    s.a = a
    s.b = b
    return s
cdef object ptag(int* p):
    return "NULL" if p == NULL else ("P" if p == &CELL else "?")
'''

PRELUDE = r'''
import sys, json
_hooks = []
def _hook(u):
    _hooks.append(type(u.exc_value).__name__ if u.exc_value is not None else getattr(u.exc_type, "__name__", "?"))
sys.unraisablehook = _hook
try:
    KPY = K()
except NameError:
    KPY = None
def _norm(r):
    if isinstance(r, dict) and set(r) == {"a", "b"}:
        return (r["a"], r["b"])
    return r
def obs(fn, *a):
    del _hooks[:]
    f = eval(fn, globals())
    try:
        r = f(*a)
    except BaseException as e:
        return json.dumps(["e", type(e).__name__, list(_hooks)])
    # A call that returns a result AND leaves the error indicator set (an exception that the caller's test missed) makes the
    # exception surface at the next checked C call: provoke that here, so that it is attributed to this call ("late").
    try:
        len(_hooks); repr(r)
        if isinstance(r, tuple) and len(r) == 2 and isinstance(r[1], bool) and fn.startswith("d"):
            return json.dumps(["v", repr(_norm(r[0])), r[1], list(_hooks)])
        return json.dumps(["v", repr(_norm(r)), None, list(_hooks)])
    except BaseException as e:
        return json.dumps(["late", type(e).__name__, list(_hooks)])
_RES = None
def _run_table(table):
    # All calls of the table run, in order, in a forked copy of this driver that streams one result line per call.
    # When the copy dies (signal, alarm) the call it was in gets "CRASH:<signal>" and a new copy continues after it:
    # a crash costs one fork, no interpreter start, and can never be attributed to the wrong call.
    import os, signal
    res = {}
    i = 0
    while i < len(table):
        sys.stdout.flush(); sys.stderr.flush()
        r, w = os.pipe()
        pid = os.fork()
        if pid == 0:
            try:
                os.close(r)
                for j in range(i, len(table)):
                    signal.alarm(60)
                    os.write(w, (json.dumps([j, obs(*table[j])]) + "\n").encode())
                signal.alarm(0)
            finally:
                os._exit(0)
        os.close(w)
        last = i - 1
        with os.fdopen(r) as f:
            for line in f:
                try:
                    j, v = json.loads(line)
                except ValueError:
                    break
                res[j] = v
                last = j
        _, status = os.waitpid(pid, 0)
        if last + 1 < len(table):
            res[last + 1] = ("CRASH:%d" % os.WTERMSIG(status)) if os.WIFSIGNALED(status) else ("CRASH:exit%d" % os.WEXITSTATUS(status))
        i = last + 2
    return res
def obs_fork(fn, *a):
    global _RES
    if _RES is None:
        table = [c[1] for c in json.load(open(sys.argv[3])) if c[0] == "obs_fork"]
        out = _run_table(table)
        _RES = {json.dumps(t): out[i] for i, t in enumerate(table)}
    return _RES[json.dumps([fn] + list(a))]
'''


def clause(spec, sv):
    return {"exc_v": "except %s" % SVTXT.get(sv), "exc_q": "except? %s" % SVTXT.get(sv), "exc_star": "except *",
            "noexc": "noexcept", "dflt": ""}[spec]


def sname(spec, sv):
    t = {"-1": "m1", "0": "z", "5": "p5", "-1.0": "m1", "0.0": "z", "nan": "nan", "NULL": "null", "none": "", "0.1": "p01"}.get(sv)
    if t is None:
        t = ("m" + sv[1:]) if sv.startswith("-") else ("p" + sv)      # boundary literals of the narrow integer types
    return spec.replace("_", "") + t


def fname(kind, spec, rt, sv, nogil=False):
    return "%s_%s_%s%s" % ({"cdef": "f", "cpdef": "p", "meth": "m", "cpmeth": "q"}[kind], rt, sname(spec, sv), "_ng" if nogil else "")


def render_func(kind, spec, rt, sv, nogil, indent=""):
    """source of the function under test; the int argument selects the body"""
    name = fname(kind, spec, rt, sv, nogil)
    kw = "cpdef" if kind in ("cpdef", "cpmeth") else "cdef"
    args = "self, int k" if kind in ("meth", "cpmeth") else "int k"
    cl = clause(spec, sv)
    head = "%s %s %s(%s)%s%s:" % (kw, CT[rt], name, args, (" " + cl) if cl else "", " nogil" if nogil else "")
    ls = [head]
    for i, b in enumerate(BODIES[rt]):
        if b == "raise":
            if nogil:
                ls += ["    if k == %d:" % i, "        with gil:", "            raise KeyError(k)"]
            else:
                ls += ["    if k == %d:" % i, "        raise KeyError(k)"]
        elif b == "fall":
            continue          # no branch: execution leaves the body without a return statement
        else:
            ls += ["    if k == %d:" % i, "        " + RET[b]]
    return "\n".join(indent + l for l in ls) + "\n"


def conv(rt, r):
    return {"ptr": "ptag(%s)" % r, "struct": "(%s.a, %s.b)" % (r, r), "void": "'void'"}.get(rt, r)


def callexpr(kind, name):
    return ("KOBJ.%s" % name) if kind in ("meth", "cpmeth") else name


def render_def_wrapper(dname, rt, call, pre=()):
    ls = ["def %s(int k):" % dname]
    ls += ["    " + p for p in pre]
    if rt == "void":
        ls += ["    %s(k)" % call]
    else:
        ls += ["    cdef %s r" % CT[rt], "    r = %s(k)" % call]
    ls += ["    cdef bint e = PyErr_Occurred() != NULL", "    return (%s, e)" % conv(rt, "r")]
    return "\n".join(ls) + "\n"


def render_module(cases):
    """cases: records of ONE module (same kind).  Returns (source, {case index -> [fnexpr, k]})."""
    funcs, meths, callers, seen = [], [], [], set()
    callmap = {}
    for idx, c in enumerate(cases):
        kind, spec, rt, sv, ctx = c["kind"], c["spec"], c["rt"], c["sv"], c["ctx"]
        nogil = ctx == "nogil"
        name = fname(kind, spec, rt, sv, nogil)
        inclass = kind in ("meth", "cpmeth")
        if name not in seen:
            seen.add(name)
            (meths if inclass else funcs).append(render_func(kind, spec, rt, sv, nogil, "    " if inclass else ""))
        k = BODIES[rt].index(c["body"])
        call = callexpr(kind, name)
        if ctx == "py":
            callmap[idx] = [("KPY.%s" % name) if inclass else name, k]
            continue
        if ctx == "def":
            dname = "d_" + name
            if dname not in seen:
                seen.add(dname)
                callers.append(render_def_wrapper(dname, rt, call))
        elif ctx == "cdef":
            dname = "dc_" + name
            if dname not in seen:
                seen.add(dname)
                cl = "" if rt == "object" else " except *"
                callers.append("cdef %s c_%s(int k)%s:\n    %s%s(k)\n" % (CT[rt], name, cl, "" if rt == "void" else "return ", call))
                callers.append(render_def_wrapper(dname, rt, "c_" + name))
        elif ctx == "nogil":
            dname = "dn_" + name
            if dname not in seen:
                seen.add(dname)
                if inclass:
                    callers.append("cdef %s n_%s(K o, int k) except * nogil:\n    %so.%s(k)\n" % (CT[rt], name, "" if rt == "void" else "return ", name))
                    ncall = "n_%s(KOBJ, k)" % name
                else:
                    callers.append("cdef %s n_%s(int k) except * nogil:\n    %s%s(k)\n" % (CT[rt], name, "" if rt == "void" else "return ", name))
                    ncall = "n_%s(k)" % name
                ls = ["def %s(int k):" % dname]
                if rt != "void":
                    ls += ["    cdef %s r" % CT[rt]]
                ls += ["    with nogil:", "        %s%s" % ("" if rt == "void" else "r = ", ncall),
                       "    cdef bint e = PyErr_Occurred() != NULL", "    return (%s, e)" % conv(rt, "r")]
                callers.append("\n".join(ls) + "\n")
        elif ctx == "fptr":
            dname = "dp_%s__%s" % (name, sname(c["pspec"], c["psv"]))
            if dname not in seen:
                seen.add(dname)
                pcl = clause(c["pspec"], c["psv"])
                callers.append(render_def_wrapper(dname, rt, "fp", pre=["cdef %s (*fp)(int)%s" % (CT[rt], (" " + pcl) if pcl else ""), "fp = %s" % name]))
        callmap[idx] = [dname, k]
    src = [HEADER] + funcs
    if meths:
        src += ["cdef class K:\n" + "".join(meths), "cdef K KOBJ = K()\n"]
    src += callers
    # B3 facts: the analysed function types, as Cython prints them
    names = sorted(n for n in seen if n[0] in "fpmq" and n[1] == "_")
    src.append("def facts():\n    return {%s}\n" % ", ".join(
        "'%s': cython.typeof(%s)" % (n, ("KOBJ." + n) if n[0] in "mq" else n) for n in names))
    return "\n".join(src), callmap


def render_pairs(pairs):
    """Acceptance study: one assignment per line; returns (source, {line number -> pair})."""
    decl_f, seen = [], set()
    for (spec, sv, pspec, psv, rt) in pairs:
        name = fname("cdef", spec, rt, sv)
        if name not in seen:
            seen.add(name)
            decl_f.append(render_func("cdef", spec, rt, sv, False))
    head = (HEADER + "\n".join(decl_f) + "\ndef go():").split("\n")
    decls, assigns = [], []
    for i, (spec, sv, pspec, psv, rt) in enumerate(pairs):
        pcl = clause(pspec, psv)
        decls.append("    cdef %s (*fp%d)(int)%s" % (CT[rt], i, (" " + pcl) if pcl else ""))
        assigns.append("    fp%d = %s" % (i, fname("cdef", spec, rt, sv)))
    lines = head + decls
    linemap = {len(lines) + i + 1: p for i, p in enumerate(pairs)}
    return "\n".join(lines + assigns) + "\n", linemap


ACCEPT_CHILD = r'''
import sys, io, json, re, os
import Cython
from Cython.Compiler import Errors, Nodes, PyrexTypes
from Cython.Compiler.Main import compile as cy_compile, CompilationOptions
for m in (Cython, Nodes, PyrexTypes):
    assert m.__file__.endswith(".py"), m.__file__
src = sys.argv[1]
opts = CompilationOptions(compiler_directives={"language_level": 3}, output_file=src[:-4] + ".c")
buf = io.StringIO()
Errors.init_thread()
old = sys.stderr
sys.stderr = buf
try:
    res = cy_compile(src, opts)
finally:
    sys.stderr = old
errs = [[int(m.group(1)), m.group(2)[:300]] for m in re.finditer(r"^[^\n:]*\.pyx:(\d+):\d+: (.*)$", buf.getvalue(), re.M)
        if not m.group(2).startswith(("warning", "performance hint"))]
print("@@" + json.dumps({"num_errors": res.num_errors, "errors": errs}))
'''


# ---------------------------------------------------------------------------
# P: the documented rules, written independently of the TLA+ text
# (docs/src/userguide/language_basics.rst, "Error return values" / "Default return values")

def doc_rule(c):
    """-> (kind, value tag, hooks) with kind in val / exc / anyexc"""
    rt, spec = c["rt"], c["spec"]
    raised = c["body"] == "raise"
    val = None if raised else pconv(rt, ZERO[rt] if c["body"] == "fall" else c["body"])     # `return x` converts x to the return type
    if rt == "object":                       # always NULL + exception, clause is ignored
        return ("exc", "KeyError", 0) if raised else ("val", val, 0)
    if spec == "noexc":                      # "will print a warning message but not allow the exception to propagate"
        return ("val", pconv(rt, ZERO[rt]), 1) if raised else ("val", val, 0)
    if raised:                               # except v / except? v / except * / implicit: propagates
        return ("exc", "KeyError", 0)
    if spec == "exc_v" and val == pconv(rt, c["sv"]):   # "you should never explicitly or implicitly return that value"
        return ("anyexc", "none", 0)
    return ("val", val, 0)                   # except? / except * / implicit: a returned sentinel is a value


def expected_obs(c):
    """what `obs` must return for the case (None = any value accepted in that position)"""
    hooks = ["KeyError"] * c["hooks"]
    if c["k"] == "exc":
        return ["e", c["v"], hooks]
    if c["k"] == "anyexc":
        return ["e", None, hooks]
    v = c["v"]
    if c["ctx"] == "py":
        r = None if v == "any" else ("None" if v == "void" else vrepr(c["rt"], v))
        return ["v", r, None, hooks]
    return ["v", None if v == "any" else vrepr(c["rt"], v), False, hooks]


def obs_matches(want, got):
    if not isinstance(got, list) or len(got) != len(want) or got[0] != want[0]:
        return False
    return all(w is None and i == 1 or w == g for i, (w, g) in enumerate(zip(want, got)))


def classify(want, got_raw):
    """obs_class of a wrong observation"""
    if isinstance(got_raw, str) and (got_raw.startswith("CRASH") or got_raw == "TIMEOUT"):
        return "crash"
    try:
        got = json.loads(got_raw)
    except (TypeError, ValueError):
        return "driver-error"
    if got[0] == "late":
        return "exception-left-pending"          # result delivered with the error indicator set; it surfaced after the call
    if got[0] == "e" and want[0] == "v":
        return "exception-instead-of-value"
    if got[0] == "v" and want[0] == "e":
        return "value-instead-of-exception"
    if got[-1] != want[-1]:
        return "unraisable-count"
    if got[0] == "v" and got[2] != want[2]:
        return "stale-error-indicator"
    if got[0] == "e":
        return "wrong-exception-type"
    return "wrong-value"


# the function type Cython must have analysed, from the model's (ev, ec) -- for the B3 fact comparison
def type_string(c, name_args):
    rt = c["rt"]
    base = {"int": "int (%s)", "double": "double (%s)", "ptr": "int *(%s)", "struct": "S (%s)", "void": "void (%s)",
            "object": "object (%s)"}[rt] % name_args
    if rt == "object":
        return base
    ev, ec = c["ev"], c["ec"]
    evt = SVTXT.get(ev)
    if ev != "none":
        return base + (" except? %s" % evt if ec else " except %s" % evt)
    return base + (" except *" if ec else " noexcept")


# ---------------------------------------------------------------------------
# C++ part (spec/ExcSpecCpp.tla)

CPP_THROW = {
    "exception": "std::exception()", "bad_alloc": "std::bad_alloc()", "bad_array_new_length": "std::bad_array_new_length()",
    "bad_cast": "std::bad_cast()", "bad_typeid": "std::bad_typeid()", "bad_exception": "std::bad_exception()",
    "logic_error": 'std::logic_error("m")', "domain_error": 'std::domain_error("m")',
    "invalid_argument": 'std::invalid_argument("m")', "length_error": 'std::length_error("m")',
    "out_of_range": 'std::out_of_range("m")', "runtime_error": 'std::runtime_error("m")',
    "overflow_error": 'std::overflow_error("m")', "range_error": 'std::range_error("m")',
    "underflow_error": 'std::underflow_error("m")',
    "system_error": "std::system_error(std::make_error_code(std::errc::invalid_argument))",
    "ios_failure": 'std::ios_base::failure("m")', "user_oor": "user_oor()", "user_exc": "user_exc()",
    "user_plain": "user_plain()", "int": "42",
}
CPP_CLASSES = sorted(CPP_THROW)
CPP_DECL = {"plus": "except +", "plus_star": "except +*", "plus_pyexc": "except +ZeroDivisionError", "plus_handler": "except +my_handler"}
PYERR_CODE = 99


def cpp_which(fb):
    return 0 if fb == "ret" else (PYERR_CODE if fb == "pyerr" else 1 + CPP_CLASSES.index(fb))


def render_cpp(cases):
    """-> (source, {case index -> [fnexpr, which]})"""
    sw = "\n".join("        case %d: throw %s;" % (1 + i, CPP_THROW[c]) for i, c in enumerate(CPP_CLASSES))
    verb = '''
    #include <stdexcept>
    #include <new>
    #include <typeinfo>
    #include <ios>
    #include <system_error>
    #include <exception>
    struct user_oor : std::out_of_range { user_oor() : std::out_of_range("u") {} };
    struct user_exc : std::exception {};
    struct user_plain {};
    static int thrower_i(int which) {
        switch (which) {
%s
        case %d: { PyGILState_STATE s = PyGILState_Ensure(); PyErr_SetString(PyExc_KeyError, "set by callee"); PyGILState_Release(s); return 0; }
        }
        return 7;
    }
    static void thrower_v(int which) { thrower_i(which); }
    static void my_handler() {
        try { throw; }
        catch (const std::out_of_range&) { PyErr_SetString(PyExc_KeyError, "h"); }
        catch (const std::bad_alloc&) { }
        catch (...) { PyErr_SetString(PyExc_LookupError, "h"); }
    }
''' % (sw, PYERR_CODE)
    src = ["# cython: language_level=3", "from cpython.exc cimport PyErr_Occurred", "cdef extern from *:", '    """' + verb + '    """',
           "    void my_handler()"]
    decls, callers, seen, callmap = [], [], set(), {}
    for idx, c in enumerate(cases):
        decl, rt, ctx = c["decl"], c["rt"], c["ctx"]
        fn = "x_%s_%s" % (decl, rt)
        if fn not in seen:
            seen.add(fn)
            decls.append('    %s %s "thrower_%s"(int) %s nogil' % (rt, fn, rt[0], CPP_DECL[decl]))
        dname = {"def": "d_", "cdef": "dc_", "nogil": "dn_"}[ctx] + fn
        if dname not in seen:
            seen.add(dname)
            asg = "" if rt == "void" else "r = "
            ls = ["def %s(int k):" % dname] + ([] if rt == "void" else ["    cdef int r"])
            if ctx == "def":
                ls += ["    %s%s(k)" % (asg, fn)]
            elif ctx == "cdef":
                callers.append("cdef %s c_%s(int k) except *:\n    %s%s(k)\n" % (rt, fn, "" if rt == "void" else "return ", fn))
                ls += ["    %sc_%s(k)" % (asg, fn)]
            else:
                ls += ["    with nogil:", "        %s%s(k)" % (asg, fn)]
            ls += ["    cdef bint e = PyErr_Occurred() != NULL", "    return (%s, e)" % ("'void'" if rt == "void" else "r")]
            callers.append("\n".join(ls) + "\n")
        callmap[idx] = [dname, cpp_which(c["fb"])]
    return "\n".join(src + decls + [""] + callers), callmap


def cpp_expected_obs(c):
    if c["k"] == "exc":
        return ["e", c["v"], []]
    return ["v", "'void'" if c["rt"] == "void" else "7", False, []]


# nearest listed base class, written from the documented table + the C++ standard's hierarchy (P for the C++ part)
CPP_PARENT = {"exception": None, "bad_alloc": "exception", "bad_array_new_length": "bad_alloc", "bad_cast": "exception",
              "bad_typeid": "exception", "bad_exception": "exception", "logic_error": "exception", "domain_error": "logic_error",
              "invalid_argument": "logic_error", "length_error": "logic_error", "out_of_range": "logic_error",
              "runtime_error": "exception", "overflow_error": "runtime_error", "range_error": "runtime_error",
              "underflow_error": "runtime_error", "system_error": "runtime_error", "ios_failure": "system_error",
              "user_oor": "out_of_range", "user_exc": "exception", "user_plain": None, "int": None}
CPP_TABLE = {"bad_alloc": "MemoryError", "bad_cast": "TypeError", "bad_typeid": "TypeError", "domain_error": "ValueError",
             "invalid_argument": "ValueError", "ios_failure": "OSError", "out_of_range": "IndexError",
             "overflow_error": "OverflowError", "range_error": "ArithmeticError", "underflow_error": "ArithmeticError"}


def cpp_doc_rule(c):
    fb = c["fb"]
    if fb == "ret":
        return ("val", "ok")
    if fb == "pyerr":
        return ("exc", "KeyError")
    chain = []
    x = fb
    while x is not None:
        chain.append(x)
        x = CPP_PARENT[x]
    if c["decl"] == "plus_pyexc":
        return ("exc", "ZeroDivisionError")
    if c["decl"] == "plus_handler":
        return ("exc", "KeyError" if "out_of_range" in chain else ("RuntimeError" if "bad_alloc" in chain else "LookupError"))
    for x in chain:
        if x in CPP_TABLE:
            return ("exc", CPP_TABLE[x])
    return ("exc", "RuntimeError")
