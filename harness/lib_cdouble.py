"""Helpers of the C06 check (C double arithmetic, float() of str/bytes/bytearray).

* symbol strings of spec/FloatParse.tla  ->  concrete str / bytes (representatives per class)
* the denotation the spec publishes      ->  the correctly rounded double (exact rationals)
* generator of the long-string records the spec decides in record mode
* values of spec/XReal.tla               <-> Python floats; Python mirror of its Impl operator
  (floor(a / b), CMath.c ModFloat), validated cell by cell against the TLC output by the check
* a compact child driver (one line per call) for the compiled modules
"""
import itertools
import json
import math
import os
import struct
import sys
import unicodedata
from fractions import Fraction

import core

# --------------------------------------------------------------------------------------------
# FloatParse: symbols -> characters

DIGITS = "0123456789"
LETTERS = "infaty"
ASCII_SYMS = set(DIGITS) | set(LETTERS) | {"_", ".", "e", "+", "-", "sp", "gs", "nul", "x"}
NONASCII_SYMS = {"us", "ux"} | {"u%d" % d for d in range(10)}

SP_CHARS = " \t\n\v\f\r"
GS_CHARS = "\x1c\x1d\x1e\x1f"
X_CHARS = "x,dj/'lp#?$:;!(%*=\x7f\x01\x08\x0e"
US_CHARS = "".join(chr(c) for c in range(0x80, 0x3100) if chr(c).isspace())
UX_CHARS = "\xe9\xb2\xbd\u2212\u066b\u200b\u221e\u2460\xb9\u3007\u5341\u0bf0"   # e-acute, superscript 2, 1/2, minus sign, ...
_UDIG = {}


def udigits(d):
    if not _UDIG:
        for c in range(0x80, 0x20000):
            ch = chr(c)
            if unicodedata.category(ch) == "Nd":
                _UDIG.setdefault(unicodedata.decimal(ch), []).append(ch)
    return _UDIG[d]


def class_sanity():
    """The classes mean what the spec says (checked against the running CPython)."""
    assert all(c.isspace() and ord(c) < 128 for c in SP_CHARS + GS_CHARS)
    assert all(c.isspace() and ord(c) > 127 for c in US_CHARS) and len(US_CHARS) >= 15
    assert all(ord(c) > 127 and not c.isspace() and unicodedata.category(c) != "Nd" for c in UX_CHARS)
    assert all(ord(c) < 128 and not c.isspace() and c not in "0123456789_.eE+-infatyINFATY\0" for c in X_CHARS)
    assert all(len(udigits(d)) > 20 for d in range(10))


def canon_char(sym):
    if sym in DIGITS or sym in LETTERS or sym in "_.e+-":
        return sym
    return {"sp": " ", "gs": "\x1c", "nul": "\0", "x": "x", "us": "\u2003", "ux": "\xe9"}.get(sym) or udigits(int(sym[1]))[0]


def rand_char(sym, rng):
    if sym in DIGITS or sym in "_.+-":
        return sym
    if sym == "e":
        return rng.choice("eE")
    if sym in LETTERS:
        return rng.choice((sym, sym.upper()))
    if sym == "sp":
        return rng.choice(SP_CHARS)
    if sym == "gs":
        return rng.choice(GS_CHARS)
    if sym == "nul":
        return "\0"
    if sym == "x":
        return rng.choice(X_CHARS)
    if sym == "us":
        return rng.choice(US_CHARS)
    if sym == "ux":
        return rng.choice(UX_CHARS)
    return rng.choice(udigits(int(sym[1])))


def instantiate(syms, rng=None):
    """-> str (rng None: canonical representatives)"""
    if rng is None:
        return "".join(canon_char(s) for s in syms)
    return "".join(rand_char(s, rng) for s in syms)


def to_bytes(text, syms, rng=None):
    """bytes image of an instantiated string: UTF-8; an "ux" symbol may also become a lone high byte"""
    out = bytearray()
    for ch, s in zip(text, syms):
        if s == "ux" and rng is not None and rng.random() < 0.5:
            out.append(rng.randrange(0xf8, 0x100))      # a byte that occurs in no UTF-8 sequence
        else:
            out += ch.encode("utf8")
    return bytes(out)


def is_ascii_syms(syms):
    return not any(s in NONASCII_SYMS for s in syms)


# --------------------------------------------------------------------------------------------
# FloatParse: denotation -> double

def fhex(v):
    """canonical text of a double: hex, 'nan' (sign of NaN is not observed), 'inf', '-inf'"""
    if v != v:
        return "nan"
    if v in (math.inf, -math.inf):
        return "inf" if v > 0 else "-inf"
    return float(v).hex()


def unhex(s):
    return float(s) if s in ("nan", "inf", "-inf") else float.fromhex(s)


def denote(ref):
    """spec denotation [acc, kind, neg, ip, fp, eneg, ep] -> canonical text of the expected double,
    computed with exact rationals (the correctly rounded value of sign * ip.fp * 10^(+-ep))"""
    if not ref["acc"]:
        return "E:ValueError"
    if ref["kind"] == "nan":
        return "nan"
    sign = -1.0 if ref["neg"] else 1.0
    if ref["kind"] == "inf":
        return fhex(sign * math.inf)
    digits = (ref["ip"] + ref["fp"]).lstrip("0")
    if not digits:
        return fhex(sign * 0.0)
    e10 = (int(ref["ep"]) if ref["ep"] else 0) * (-1 if ref["eneg"] else 1) - len(ref["fp"])
    # magnitude bounds: digits * 10^e10 >= 10^(e10)  and  < 10^(len + e10)
    if e10 > 320:
        return fhex(sign * math.inf)
    if len(digits) + e10 < -330:
        return fhex(sign * 0.0)
    q = Fraction(int(digits)) * Fraction(10) ** e10
    try:
        v = q.numerator / q.denominator          # int / int is correctly rounded
    except OverflowError:
        v = math.inf
    return fhex(sign * v)


# --------------------------------------------------------------------------------------------
# FloatParse: families (mirrors FamTable of the spec: used for the completeness count and to
# enumerate the rejected strings, which the spec does not print)

CORE = ["0", "1", "_", ".", "e", "+", "-"]
CORES = CORE + ["sp"]
WIDE = ["0", "1", "_", ".", "e", "+", "-", "sp", "gs", "i", "n", "f", "a", "nul", "x", "us", "u3", "ux"]
WORDS = ["i", "n", "f", "a", "gs", "us"]
WORDSS = ["i", "n", "f", "a", "-", "sp", "gs", "us"]
NONA = ["1", "_", ".", "e", "sp", "gs", "us", "u3"]
BOTH = ("str", "bytes")
FAMILIES = {
    "core5": (CORE, 5, ("str",)), "core6": (CORE, 6, ("str",)), "cores5": (CORES, 5, ("str",)),
    "wide3": (WIDE, 3, BOTH), "wide4": (WIDE, 4, BOTH),
    "words5": (WORDS, 5, ("str",)), "words6": (WORDS, 6, ("str",)), "wordss5": (WORDSS, 5, BOTH),
    "nona4": (NONA, 4, BOTH), "nona5": (NONA, 5, BOTH),
}
TIER_FAMILIES = {"quick": ["core5", "wide3", "words5", "nona4"],
                 "thorough": ["core6", "cores5", "wide4", "words6", "wordss5", "nona5"]}


def family_size(name):
    alpha, n, modes = FAMILIES[name]
    return len(modes) * sum(len(alpha) ** k for k in range(n + 1))


def covered_by(fams, mode, syms):
    """is (mode, syms) replayed as a member of one of these families?  A family enumerated in mode "str" only
    also replays the bytes image of its ASCII-only strings."""
    for f in fams:
        alpha, n, modes = FAMILIES[f]
        if len(syms) <= n and all(s in alpha for s in syms):
            if mode in modes or (modes == ("str",) and is_ascii_syms(syms)):
                return True
    return False


def family_strings(name):
    alpha, n, modes = FAMILIES[name]
    for mode in modes:
        for k in range(n + 1):
            for t in itertools.product(alpha, repeat=k):
                yield mode, t


# --------------------------------------------------------------------------------------------
# FloatParse: records (long strings decided by the spec in record mode)

ALL_SYMS = list(DIGITS) + list(LETTERS) + ["_", ".", "e", "+", "-", "sp", "gs", "nul", "x", "us", "ux"] + ["u%d" % d for d in range(10)]


def _rand_digits(rng, n, und=0.0, udig=0.0):
    out = []
    for i in range(n):
        d = rng.choice(DIGITS)
        out.append(("u" + d) if rng.random() < udig else d)
        if i < n - 1 and rng.random() < und:
            out.append("_")
    return out


def _rand_number(rng, maxdig=12, und=0.15, udig=0.0):
    s = []
    if rng.random() < 0.4:
        s.append(rng.choice("+-"))
    ni = rng.choice((0, 1, 1, 2, 3, rng.randint(0, maxdig)))
    nf = rng.choice((0, 0, 1, 2, rng.randint(0, maxdig)))
    if ni + nf == 0:
        ni = 1
    s += _rand_digits(rng, ni, und, udig)
    if nf or rng.random() < 0.3:
        s.append(".")
        s += _rand_digits(rng, nf, und, udig)
    if rng.random() < 0.5:
        s.append("e")
        if rng.random() < 0.6:
            s.append(rng.choice("+-"))
        s += _rand_digits(rng, rng.choice((1, 1, 2, 3, 4)), und, udig)
    return s


def _mutate(rng, s, alphabet):
    s = list(s)
    k = rng.choice((0, 1, 1, 2))
    for _ in range(k):
        op = rng.randrange(4)
        if op == 0 or not s:
            s.insert(rng.randint(0, len(s)), rng.choice(alphabet))
        elif op == 1:
            del s[rng.randrange(len(s))]
        elif op == 2:
            s[rng.randrange(len(s))] = rng.choice(alphabet)
        else:
            i = rng.randrange(len(s))
            s.insert(i, s[i])
    return s


def _pad(rng, s, spaces):
    return [rng.choice(spaces) for _ in range(rng.choice((0, 0, 1, 2)))] + list(s) + \
           [rng.choice(spaces) for _ in range(rng.choice((0, 0, 1, 3)))]


def gen_records(tier, rng):
    """-> list of {"id", "mode", "s"}"""
    recs = []

    dedup = set()

    def add(mode, s):
        if len(s) <= 120 and (mode, tuple(s)) not in dedup:
            dedup.add((mode, tuple(s)))
            recs.append({"id": len(recs) + 1, "mode": mode, "s": list(s)})

    num_alpha = list(DIGITS) + ["_", "_", ".", "e", "+", "-", "sp", "x", "nul", "gs"]
    word_alpha = list(LETTERS) + ["_", "+", "-", "sp", "gs", "1", "e", "."]
    words = [list("inf"), list("infinity"), list("nan")]
    # (1) the special-value words: exact, every single-symbol deletion / duplication, signs, white space of every kind
    for w in words:
        for mode in BOTH:
            for sign in ([], ["+"], ["-"]):
                base = sign + w
                add(mode, base)
                add(mode, ["sp"] + base + ["sp", "sp"])
                add(mode, ["us"] + base)
                add(mode, base + ["us"])
                add(mode, ["gs"] + base + ["us"])
                add(mode, ["us", "gs"] + base)
                add(mode, ["us"] + base + ["gs"])
                add(mode, ["gs"] + base)
                add(mode, base + ["nul"])
                add(mode, base + ["sp", "nul"])
                for i in range(len(base)):
                    add(mode, base[:i] + base[i + 1:])
                    add(mode, base[:i] + [base[i]] + base[i:])
                    add(mode, base[:i] + ["_"] + base[i:])
                    add(mode, ["us"] + base[:i] + base[i + 1:])
    n_mut = 600 if tier == "quick" else 6000
    for _ in range(n_mut):
        w = rng.choice(words)
        sign = rng.choice(([], [], ["+"], ["-"]))
        s = _pad(rng, _mutate(rng, sign + w, word_alpha), ["sp", "sp", "gs", "us"])
        add(rng.choice(BOTH), s)
    # (2) the buffer boundary of the fast path (40 characters without underscores): lengths around 40, with and
    #     without underscores, in the ASCII path, the bytes path and the non-ASCII str path
    for n in (1, 17, 37, 38, 39, 40, 41, 42, 43, 64, 100):
        for und in (0.0, 0.2):
            for pre in ([], ["sp"], ["us"], ["us", "sp"]):
                for mode in BOTH:
                    d = _rand_digits(rng, n, und)
                    add(mode, pre + d)
                    add(mode, pre + ["-"] + d + ["sp"])
                    k = rng.randint(0, len(d))
                    add(mode, pre + d[:k] + ["."] + d[k:])
                    add(mode, pre + d + ["e", "-"] + _rand_digits(rng, 2))
                    add(mode, pre + d + ["e", "+", "_"] + _rand_digits(rng, 1))
                    add(mode, pre + d + ["_"])
                    add(mode, pre + d + ["us"])
    # (3) random numbers of the grammar with 0-2 random edits
    n_rand = 2500 if tier == "quick" else 40000
    for _ in range(n_rand):
        udig = rng.choice((0.0, 0.0, 0.3))
        s = _rand_number(rng, udig=udig)
        s = _mutate(rng, s, num_alpha + (["u7", "us", "ux"] if udig or rng.random() < 0.2 else []))
        s = _pad(rng, s, ["sp", "sp", "sp", "us", "gs"] if rng.random() < 0.3 else ["sp"])
        add(rng.choice(BOTH), s)
    # (4) underscores around the exponent, exhaustively for one mantissa/exponent shape
    for pat in itertools.product(["", "_"], repeat=5):
        for sg in ("+", "-", ""):
            s = ["1"] + ([pat[0]] if pat[0] else []) + ["5"] + ([pat[1]] if pat[1] else []) + ["e"] + ([pat[2]] if pat[2] else []) + \
                ([sg] if sg else []) + ([pat[3]] if pat[3] else []) + ["2"] + ([pat[4]] if pat[4] else []) + ["3"]
            for mode in BOTH:
                add(mode, s)
    return recs


def shape_features(syms):
    """spec-side features of a symbol string used in descriptors / known-finding matchers"""
    s = list(syms)
    und_after_exp_sign = any(s[i] == "e" and s[i + 1] in "+-" and s[i + 2] == "_" for i in range(len(s) - 2))
    # an ASCII "information separator" (white space for str.isspace, not for C isspace) among the outer white space
    lo = 0
    while lo < len(s) and s[lo] in ("sp", "gs", "us"):
        lo += 1
    hi = len(s)
    while hi > lo and s[hi - 1] in ("sp", "gs", "us"):
        hi -= 1
    outer = s[:lo] + s[hi:]
    # length of what the non-ASCII str path of the fast path keeps after stripping Unicode white space
    return {"ws_core_len": (hi - lo) if not is_ascii_syms(s) else -1,
            "und_after_exp_sign": und_after_exp_sign,
            "gs_in_outer_space": "gs" in outer,
            "non_ascii": not is_ascii_syms(s),
            "has_underscore": "_" in s,
            "len": len(s)}


# --------------------------------------------------------------------------------------------
# XReal values

def xr_to_py(x):
    """spec value -> Python object; exceptions -> 'E:Name'; undecided -> None"""
    k = x["k"]
    if k == "ix":
        return None
    if k == "nan":
        return math.nan
    if k == "inf":
        return math.inf * x["s"]
    if k == "fin":
        return math.copysign(math.ldexp(float(x["m"]), x["e"]), x["s"])
    if k == "int":
        return x["s"] * (x["m"] << x["e"])
    if k == "bool":
        return bool(x["m"])
    return "E:" + k


def obs_of(v):
    """canonical observation text of a Python value"""
    if isinstance(v, str):
        return v
    if isinstance(v, bool):
        return "b:%d" % v
    if isinstance(v, int):
        return "i:%d" % v
    if isinstance(v, float):
        return "f:" + fhex(v)
    return "o:" + type(v).__name__


def py_float(x):
    """P: CPython's float(x) as an observation text"""
    try:
        v = float(x)
    except Exception as e:
        return "E:" + type(e).__name__
    return "f:" + fhex(v)


def fclass(v):
    if v != v:
        return "nan"
    if v in (math.inf, -math.inf):
        return "+inf" if v > 0 else "-inf"
    if v == 0:
        return "-0" if math.copysign(1, v) < 0 else "+0"
    return "pos" if v > 0 else "neg"


def oclass(o):
    """class of an observation text"""
    if o.startswith("f:"):
        return fclass(unhex(o[2:]))
    if o.startswith("E:"):
        return o
    return o[:1]


import operator
PYOPS = {"add": operator.add, "sub": operator.sub, "mul": operator.mul, "tdiv": operator.truediv,
         "fdiv": operator.floordiv, "mod": operator.mod, "lt": operator.lt, "le": operator.le, "eq": operator.eq,
         "ne": operator.ne, "gt": operator.gt, "ge": operator.ge}
PYUN = {"neg": operator.neg, "int": int, "round": round}


def py_eval(op, a, b=None):
    """P: CPython's own float arithmetic"""
    try:
        return obs_of(PYUN[op](a) if op in PYUN else PYOPS[op](a, b))
    except (ZeroDivisionError, ValueError, OverflowError) as e:
        return "E:" + type(e).__name__


def c_floor(q):
    if q != q or q in (math.inf, -math.inf) or q == 0:
        return q
    return float(math.floor(q))


def c_fmod(a, b):
    if a != a or b != b or a in (math.inf, -math.inf) or b == 0:
        return math.nan
    return math.fmod(a, b)


def mirror_impl(op, a, b=None):
    """Python mirror of XReal.Impl (what Cython emits): floor(a / b), ModFloat of CMath.c; other operators = CPython.
    IEEE operations are Python's float operations (b != 0 wherever a division happens)."""
    if op in ("tdiv", "fdiv", "mod") and b == 0:
        return "E:ZeroDivisionError"
    if op == "fdiv":
        return obs_of(c_floor(a / b))
    if op == "mod":
        r = c_fmod(a, b)
        k = 1.0 if (r != 0 and ((r < 0) != (b < 0))) else 0.0
        return obs_of(r + k * b)
    return py_eval(op, a, b)


def deviation_cause(op, a, b):
    """why the transcription leaves CPython in this cell (None: it does not)."""
    if op not in ("fdiv", "mod") or b == 0 or a != a or b != b:
        return None
    if mirror_impl(op, a, b) == py_eval(op, a, b):
        return None
    if op == "mod":
        if math.isinf(b) and not math.isinf(a):
            return "zero-times-inf"          # r += 0 * inf
        if not math.isinf(a) and c_fmod(a, b) == 0 and b < 0:
            return "zero-remainder-sign"     # +0.0 instead of copysign(0, b)
        return "other"
    if math.isinf(a):
        return "dividend-inf"                # floor(inf / b) = +-inf, CPython nan
    q = a / b
    if q == 0 and a != 0:
        return "quotient-rounds-to-zero"     # floor(-0.0) = -0.0, CPython -1.0 (b infinite or a/b underflows)
    return "quotient-rounding"               # fl(a / b) is on the other side of an integer than a / b


# --------------------------------------------------------------------------------------------
# child driver: calls on a compiled module, one observation line per call

_DRIVER = r'''
import sys, json, math, importlib
moddir, modname, infile, outfile, start, careful = sys.argv[1], sys.argv[2], sys.argv[3], sys.argv[4], int(sys.argv[5]), int(sys.argv[6])
skip = set(json.loads(sys.argv[7]))
sys.path.insert(0, moddir)
mod = importlib.import_module(modname)
if not mod.__file__.endswith(".so"):
    print("@@" + json.dumps({"fatal": "not an extension: %s" % mod.__file__})); sys.exit(3)
def dec(x):
    if isinstance(x, list):
        t, v = x
        if t == "f": return float(v) if v in ("nan", "inf", "-inf") else float.fromhex(v)
        if t == "b": return bytes.fromhex(v)
        if t == "ba": return bytearray(bytes.fromhex(v))
        if t == "py": return eval(v, vars(mod))
        raise ValueError(x)
    return x
def enc(v):
    if isinstance(v, bool): return "b:%d" % v
    if isinstance(v, int): return "i:%d" % v
    if type(v) is float:
        return "f:" + ("nan" if v != v else ("inf" if v == math.inf else "-inf" if v == -math.inf else v.hex()))
    return "o:" + type(v).__name__
calls = json.load(open(infile, encoding="utf8"))
out = open(outfile, "a")
buf = []
for i in range(start, len(calls)):
    fn = calls[i][0]
    if careful or len(buf) >= 4000:
        out.write("".join(buf)); out.flush(); buf = []
    if fn in skip:
        r = "SKIP"
    else:
        try:
            r = enc(getattr(mod, fn)(*[dec(x) for x in calls[i][1:]]))
        except BaseException as e:
            r = "E:" + type(e).__name__
    buf.append("%d %s\n" % (i, r))
out.write("".join(buf)); out.flush(); out.close()
print("@@" + json.dumps({"done": len(calls)}))
'''


def farg(v):
    return ["f", fhex(v)]


def run_table(build, table, tag, timeout=900):
    """table: list of [funcname, arg, ...] (args: str | int | ["f", hex] | ["b", hex] | ["ba", hex]).
    -> list of observation texts ('f:<hex>', 'i:<n>', 'b:0/1', 'E:<Type>', 'CRASH:<sig>', 'TIMEOUT'; 'SKIP' for the
    remaining calls of a function after its 5th crash)."""
    moddir = os.path.dirname(build.so)
    inf = os.path.join(moddir, tag + "_in.json")
    outf = os.path.join(moddir, tag + "_out.txt")
    with open(inf, "w", encoding="utf8") as f:
        json.dump(table, f)
    if os.path.exists(outf):
        os.unlink(outf)
    obs = [None] * len(table)
    start, careful, crashes = 0, 0, {}
    while start < len(table):
        skip = [fn for fn, n in crashes.items() if n >= 5]
        ch = core.run_child(_DRIVER, [moddir, build.name, inf, outf, str(start), str(careful), json.dumps(skip)], timeout=timeout)
        if os.path.exists(outf):
            with open(outf) as f:
                for line in f:
                    i, _, r = line.rstrip("\n").partition(" ")
                    if i.isdigit() and r:
                        obs[int(i)] = r
        fatal = [j for j in ch.json_lines() if "fatal" in j]
        if fatal:
            core.die("driver: %s" % fatal[0]["fatal"])
        if ch.rc == 0 and ch.json_lines():
            break
        nxt = start
        while nxt < len(table) and obs[nxt] is not None:
            nxt += 1
        if nxt >= len(table):
            break
        if not careful:
            careful, start = 1, nxt        # find the culprit: one flush per call from here on
            continue
        obs[nxt] = "TIMEOUT" if ch.timed_out else ("CRASH:%d" % ch.signal if ch.crashed else "CRASH:exit%s" % ch.rc)
        core.CRASH_LOGS.append({"module": build.name, "call": table[nxt], "obs": obs[nxt], "stderr": ch.err[-3000:]})
        crashes[table[nxt][0]] = crashes.get(table[nxt][0], 0) + 1
        if sum(crashes.values()) > 200:
            core.die("too many crashes in run_table")
        start, careful = nxt + 1, 0
    return obs
