"""Core of the /verif harness: scratch space, snapshot of /repo's working tree,
Cython+C builds, child-process execution, TLC runs, known findings, evidence.

Everything here is stdlib only and runs under /venv/bin/python.
See /verif/harness/README.md for the API that per-property checks use.
"""
import atexit
import concurrent.futures
import hashlib
import json
import os
import re
import shutil
import signal
import subprocess
import sys
import time

VERIF = os.path.dirname(os.path.dirname(os.path.abspath(__file__)))
REPO = os.environ.get("VERIF_REPO", "/repo")
PY = os.environ.get("VERIF_PY", "/venv/bin/python")
SPEC = os.path.join(VERIF, "spec")
HOOK_GUARD = "CYTHON_VERIF"
NCPU = os.cpu_count() or 4
# C36 re-runs other checks with VERIF_SANITIZE=1: instrumented builds, evidence/replay redirected
SANITIZE = bool(os.environ.get("VERIF_SANITIZE"))
EVIDENCE_DIR = os.environ.get("VERIF_EVIDENCE_DIR") or os.path.join(VERIF, "evidence")
REPLAY_DIR = os.environ.get("VERIF_REPLAY_DIR") or os.path.join(VERIF, "replay")
CRASH_LOGS = []      # filled by calls.run_calls / checks: {"call":..., "stderr":...} of children that died

_asan_rt = None


def asan_runtime():
    global _asan_rt
    if _asan_rt is None:
        _asan_rt = subprocess.check_output(["clang", "-print-file-name=libclang_rt.asan-x86_64.so"], text=True).strip()
    return _asan_rt

_scratch = None
import threading as _threading
import uuid as _uuid
_scratch_lock = _threading.Lock()


def scratch():
    """Per-process scratch dir outside /repo and /verif; removed at exit."""
    global _scratch
    if _scratch is None:
        with _scratch_lock:          # checks call this from worker threads
            if _scratch is None:
                base = os.environ.get("VERIF_SCRATCH", "/var/tmp/verif-scratch")
                d = os.path.join(base, "p%d" % os.getpid())
                shutil.rmtree(d, ignore_errors=True)
                # scratch directories of runs that were killed (no atexit): remove those whose process is gone
                try:
                    for name in os.listdir(base):
                        if name.startswith("p") and name[1:].isdigit() and not os.path.exists("/proc/" + name[1:]):
                            shutil.rmtree(os.path.join(base, name), ignore_errors=True)
                except OSError:
                    pass
                os.makedirs(d, exist_ok=True)
                if not os.environ.get("VERIF_KEEP"):
                    atexit.register(shutil.rmtree, d, True)
                _scratch = d
    return _scratch


def subdir(name):
    d = os.path.join(scratch(), name)
    os.makedirs(d, exist_ok=True)
    return d


# --------------------------------------------------------------------------
# snapshot of the working tree (pure Python: the self-compiled *.so are skipped
# so that edits to the .py files are what runs)

_snap = None
import threading
_snap_lock = threading.Lock()


def snapshot():
    """Copy /repo/Cython (without *.so, __pycache__, self-compiled .c) to
    scratch and return the directory to put on PYTHONPATH."""
    with _snap_lock:
        return _snapshot_locked()


def _snapshot_locked():
    global _snap
    if _snap is not None:
        return _snap
    dst = subdir("src")
    src = os.path.join(REPO, "Cython")

    def ignore(d, names):
        out = []
        in_utility = os.path.basename(d) == "Utility"
        for n in names:
            if n == "__pycache__" or n.endswith(".so") or n.endswith(".pyc"):
                out.append(n)
            elif n.endswith(".c") and not in_utility:
                out.append(n)
            elif n.endswith(".html"):
                out.append(n)
        return out

    shutil.copytree(src, os.path.join(dst, "Cython"), ignore=ignore)
    for extra in ("cython.py", "cythonize.py"):
        p = os.path.join(REPO, extra)
        if os.path.exists(p):
            shutil.copy(p, dst)
    px = os.path.join(REPO, "pyximport")
    if os.path.isdir(px):
        shutil.copytree(px, os.path.join(dst, "pyximport"),
                        ignore=shutil.ignore_patterns("__pycache__", "*.so", "test"))
    _snap = dst
    return dst


def use_snapshot_in_process():
    """Make `import Cython` in *this* process resolve to the snapshot."""
    s = snapshot()
    for m in list(sys.modules):
        if m == "Cython" or m.startswith("Cython.") or m == "cython":
            raise RuntimeError("Cython imported before use_snapshot_in_process")
    sys.path.insert(0, s)
    os.environ[HOOK_GUARD] = "1"
    return s


def child_env(extra=None, pythonpath=()):
    env = dict(os.environ)
    env["PYTHONPATH"] = os.pathsep.join([snapshot()] + list(pythonpath))
    env["PYTHONHASHSEED"] = env.get("PYTHONHASHSEED", "0")
    env["PYTHONDONTWRITEBYTECODE"] = "1"
    env[HOOK_GUARD] = "1"
    if extra:
        env.update(extra)
    return env


# --------------------------------------------------------------------------
# building extension modules from the snapshot

PY_INCLUDE = None


def py_include():
    global PY_INCLUDE
    if PY_INCLUDE is None:
        PY_INCLUDE = subprocess.check_output(
            [PY, "-c", "import sysconfig;print(sysconfig.get_paths()['include'])"],
            text=True).strip()
    return PY_INCLUDE


def ext_suffix():
    return ".cpython-312-x86_64-linux-gnu.so" if True else ".so"


_CYBUILD = os.path.join(os.path.dirname(os.path.abspath(__file__)), "cybuild.py")


class BuildSpec(object):
    """One extension module to build.

    name       module name
    source     text of the .pyx / .py
    kind       'pyx' or 'py'
    directives dict of compiler directives
    options    dict: cplus, language_level, global_options {name: value on Cython.Compiler.Options},
               extra_files {relpath: text}, include_path
    cflags     extra C compiler flags (e.g. ['-DCYTHON_USE_DICT_VERSIONS=1'])
    cc         'gcc' | 'g++' | 'clang' | 'clang++'
    facts      name of an exporter in cybuild.FACTS run on the tree (B3), or None
    """

    def __init__(self, name, source, kind="pyx", directives=None, options=None,
                 cflags=(), cc=None, facts=None, cython_only=False, ldflags=()):
        self.name = name
        self.source = source
        self.kind = kind
        self.directives = dict(directives or {})
        self.options = dict(options or {})
        self.cflags = list(cflags)
        self.ldflags = list(ldflags)
        self.cc = cc
        self.facts = facts
        self.cython_only = cython_only


class BuildResult(object):
    def __init__(self, d):
        self.__dict__.update(d)

    def __repr__(self):
        return "<BuildResult %s ok=%s>" % (self.name, self.ok)


def build_one(spec, workdir, timeout=900):
    """Cython-compile (child process, snapshot on PYTHONPATH) and C-compile.
    Returns BuildResult with: ok, stage ('cython'|'cc'|'done'), so (path),
    c_file, errors (text), facts (any), cython_s, cc_s, dir."""
    d = os.path.join(workdir, spec.name + "_b")
    os.makedirs(d, exist_ok=True)
    cc, cflags, ldflags = spec.cc, list(spec.cflags), list(spec.ldflags)
    directives, options = dict(spec.directives), dict(spec.options)
    # C39: one configuration cell applied to every module a check builds
    if os.environ.get("VERIF_EXTRA_CFLAGS"):
        cflags = cflags + os.environ["VERIF_EXTRA_CFLAGS"].split()
    if os.environ.get("VERIF_EXTRA_DIRECTIVES"):
        for k, v in json.loads(os.environ["VERIF_EXTRA_DIRECTIVES"]).items():
            directives.setdefault(k, v)
    if os.environ.get("VERIF_CPLUS") and not options.get("cplus"):
        options["cplus"] = True
        if cc == "gcc" or cc is None:
            cc = None
        elif cc == "clang":
            cc = "clang++"
    if SANITIZE:
        # C36: the same modules, instrumented with ASan + UBSan (clang); reports abort the child
        cplus = bool(options.get("cplus")) or (cc in ("g++", "clang++"))
        cc = "clang++" if cplus else "clang"
        san = ["-fsanitize=address,undefined", "-fno-sanitize-recover=undefined", "-fno-omit-frame-pointer", "-g1"]
        cflags = cflags + san
        ldflags = ldflags + ["-fsanitize=address,undefined", "-shared-libasan"]
    req = {
        "name": spec.name, "source": spec.source, "kind": spec.kind,
        "directives": directives, "options": options,
        "cflags": cflags, "ldflags": ldflags, "cc": cc, "facts": spec.facts,
        "cython_only": spec.cython_only, "dir": d, "include": py_include(),
        "suffix": ext_suffix(),
    }
    reqf = os.path.join(d, "req.json")
    with open(reqf, "w") as f:
        json.dump(req, f)
    try:
        p = subprocess.run([PY, _CYBUILD, reqf], env=child_env(), capture_output=True,
                           text=True, timeout=timeout)
    except subprocess.TimeoutExpired:
        return BuildResult({"name": spec.name, "ok": False, "stage": "timeout", "errors": "build timeout",
                            "dir": d, "so": None, "c_file": None, "facts": None})
    resf = os.path.join(d, "res.json")
    if not os.path.exists(resf):
        return BuildResult({"name": spec.name, "ok": False, "stage": "cython-crash",
                            "errors": (p.stdout + p.stderr)[-4000:], "dir": d, "so": None,
                            "c_file": None, "facts": None, "returncode": p.returncode})
    with open(resf) as f:
        r = json.load(f)
    r["name"] = spec.name
    r["dir"] = d
    return BuildResult(r)


def build_many(specs, workdir=None, jobs=None, timeout=900):
    workdir = workdir or subdir("build")
    jobs = jobs or NCPU
    with concurrent.futures.ThreadPoolExecutor(max_workers=jobs) as ex:
        return list(ex.map(lambda s: build_one(s, workdir, timeout), specs))


# --------------------------------------------------------------------------
# child processes that run compiled code


def _limits(mem_mb, cpu_s):
    def f():
        import resource
        if mem_mb:
            resource.setrlimit(resource.RLIMIT_AS, (mem_mb << 20, mem_mb << 20))
        if cpu_s:
            resource.setrlimit(resource.RLIMIT_CPU, (cpu_s, cpu_s + 5))
        resource.setrlimit(resource.RLIMIT_CORE, (0, 0))
    return f


class ChildResult(object):
    def __init__(self, rc, out, err, timed_out):
        self.rc = rc
        self.out = out
        self.err = err
        self.timed_out = timed_out

    @property
    def signal(self):
        return -self.rc if self.rc is not None and self.rc < 0 else 0

    @property
    def crashed(self):
        return self.signal != 0 and not self.timed_out

    def json_lines(self):
        res = []
        for line in self.out.splitlines():
            if line.startswith("@@"):
                try:
                    res.append(json.loads(line[2:]))
                except ValueError:
                    pass
        return res


def run_child(code_or_path, args=(), cwd=None, paths=(), env=None, timeout=120, mem_mb=4096,
              cpu_s=None, stdin=None, python=None, with_snapshot=False, preload=None):
    """Run a Python child.  `code_or_path` is a path to a script or source text
    (run with -c).  stdout lines starting with '@@' carry JSON records."""
    e = dict(os.environ)
    pp = list(paths)
    if with_snapshot:
        pp = [snapshot()] + pp
    e["PYTHONPATH"] = os.pathsep.join(pp)
    e["PYTHONHASHSEED"] = e.get("PYTHONHASHSEED", "0")
    e["PYTHONDONTWRITEBYTECODE"] = "1"
    e[HOOK_GUARD] = "1"
    if SANITIZE and not preload:
        preload = asan_runtime()
        e["ASAN_OPTIONS"] = "detect_leaks=0:abort_on_error=1:allocator_may_return_null=1:handle_segv=1"
        e["UBSAN_OPTIONS"] = "halt_on_error=1:print_stacktrace=1:abort_on_error=1"
        mem_mb = 0        # ASan reserves terabytes of address space; RLIMIT_AS cannot be used
    if preload:
        e["LD_PRELOAD"] = preload
    if env:
        e.update(env)
    if os.path.exists(code_or_path) and "\n" not in code_or_path:
        cmd = [python or PY, code_or_path] + list(args)
    else:
        cmd = [python or PY, "-c", code_or_path] + list(args)
    try:
        p = subprocess.run(cmd, cwd=cwd, env=e, capture_output=True, text=True, timeout=timeout,
                           input=stdin, preexec_fn=_limits(mem_mb, cpu_s), errors="replace")
        return ChildResult(p.returncode, p.stdout, p.stderr, False)
    except subprocess.TimeoutExpired as ex:
        out = ex.stdout.decode("utf8", "replace") if isinstance(ex.stdout, bytes) else (ex.stdout or "")
        err = ex.stderr.decode("utf8", "replace") if isinstance(ex.stderr, bytes) else (ex.stderr or "")
        return ChildResult(None, out, err, True)


# --------------------------------------------------------------------------
# TLC


class TLCResult(object):
    def __init__(self):
        self.ok = False
        self.rc = None
        self.generated = 0
        self.distinct = 0
        self.depth = 0
        self.out = ""
        self.wall = 0.0
        self.violation = None   # name of violated invariant/property, or 'deadlock', 'assume', ...
        self.coverage = {}      # action name -> (distinct, total)
        self.printed = []       # PrintT'ed JSON values (lines starting with the marker)
        self.cmd = ""

    def summary(self):
        return {"states_generated": self.generated, "distinct_states": self.distinct,
                "depth": self.depth, "wall_s": round(self.wall, 2), "cmd": self.cmd}


_RE_STATES = re.compile(r"(\d+) states generated, (\d+) distinct states found")
_RE_DEPTH = re.compile(r"The depth of the complete state graph search is (\d+)")
_RE_INV = re.compile(r"Error: Invariant (\S+) is violated")
_RE_PROP = re.compile(r"Error: (?:Action|Temporal) propert(?:y|ies) (\S+)? ?.*violated")
_RE_COV = re.compile(r"^<(\w+) line \d+, col \d+ to line \d+, col \d+ of module (\w+)>: (\d+):(\d+)")


def tlc(module, cfg=None, workers=None, env=None, timeout=1800, simulate=None, depth=None,
        coverage=False, extra=(), specdir=None, seed=None, deadlock=True, heap=None,
        dfs=False):
    """Run TLC on spec/<module>.tla with spec/<cfg or module>.cfg.
    env: values readable in the spec through IOEnv.<NAME>.
    Records printed by the spec with PrintT(<<"@@", ToJson(x)>>) or PrintT("@@"+json)
    are collected in .printed."""
    specdir = specdir or SPEC
    r = TLCResult()
    meta = subdir("tlc") + "/m_" + _uuid.uuid4().hex     # unique also for concurrent calls from threads
    cmd = ["java", "-XX:+UseParallelGC"]
    if heap:
        cmd.append("-Xmx" + heap)
    if dfs:
        cmd.append("-Dtlc2.tool.queue.IStateQueue=StateDeque")
    cmd += ["-cp", "/opt/veriftools/tla/tla2tools.jar:/opt/veriftools/tla/CommunityModules-deps.jar",
            "tlc2.TLC", "-workers", str(workers or NCPU), "-metadir", meta, "-noGenerateSpecTE"]
    if cfg:
        cmd += ["-config", cfg if cfg.endswith(".cfg") else cfg + ".cfg"]
    if not deadlock:
        cmd += ["-deadlock"]
    if simulate:
        cmd += ["-simulate", simulate]
    if depth:
        cmd += ["-depth", str(depth)]
    if coverage:
        cmd += ["-coverage", "1"]
    if seed is not None:
        cmd += ["-seed", str(seed)]
    cmd += list(extra)
    cmd.append(module if module.endswith(".tla") else module + ".tla")
    r.cmd = " ".join(cmd[cmd.index("tlc2.TLC"):])
    e = dict(os.environ)
    if env:
        e.update({k: str(v) for k, v in env.items()})
    t0 = time.time()
    try:
        p = subprocess.run(cmd, cwd=specdir, env=e, capture_output=True, text=True, timeout=timeout)
        r.rc = p.returncode
        r.out = p.stdout + p.stderr
    except subprocess.TimeoutExpired as ex:
        r.rc = -9
        r.out = (ex.stdout or b"").decode("utf8", "replace") if isinstance(ex.stdout, bytes) else (ex.stdout or "")
        r.violation = "timeout"
        subprocess.run(["pkill", "-f", meta], capture_output=True)
    r.wall = time.time() - t0
    shutil.rmtree(meta, ignore_errors=True)
    for m in _RE_STATES.finditer(r.out):
        r.generated, r.distinct = int(m.group(1)), int(m.group(2))
    m = _RE_DEPTH.search(r.out)
    if m:
        r.depth = int(m.group(1))
    m = _RE_INV.search(r.out)
    if m:
        r.violation = m.group(1)
    elif "is violated" in r.out or "was violated" in r.out:
        mm = re.search(r"Error: (.*violated.*)", r.out)
        r.violation = mm.group(1) if mm else "violated"
    elif "Deadlock reached" in r.out:
        r.violation = "deadlock"
    elif "Assumption" in r.out and "is false" in r.out:
        r.violation = "assume"
    for line in r.out.splitlines():
        m = _RE_COV.match(line)
        if m:
            r.coverage[m.group(1)] = (int(m.group(3)), int(m.group(4)))
        if line.startswith('"@@'):
            try:
                s = json.loads(line)  # TLA+ string printed with quotes; escapes are JSON-compatible
                r.printed.append(json.loads(s[2:]))
            except ValueError:
                pass
        elif line.startswith("@@"):
            try:
                r.printed.append(json.loads(line[2:]))
            except ValueError:
                pass
    r.ok = (r.rc == 0 and r.violation is None)
    return r


def tlc_simulate(module, cfg, seconds=20, depth=40, workers=4, env=None, seed=None, max_records=20000, specdir=None):
    """Run TLC in simulation mode for a wall-clock budget and collect the
    records the spec prints ("@@"+json lines).  TLC is killed when the budget
    or max_records is reached (simulation never terminates by itself)."""
    specdir = specdir or SPEC
    meta = subdir("tlc") + "/s_" + _uuid.uuid4().hex
    cmd = ["java", "-XX:+UseParallelGC", "-cp",
           "/opt/veriftools/tla/tla2tools.jar:/opt/veriftools/tla/CommunityModules-deps.jar",
           "tlc2.TLC", "-workers", str(workers), "-metadir", meta, "-noGenerateSpecTE",
           "-simulate", "-depth", str(depth), "-config", cfg if cfg.endswith(".cfg") else cfg + ".cfg"]
    if seed is not None:
        cmd += ["-seed", str(seed)]
    cmd.append(module if module.endswith(".tla") else module + ".tla")
    e = dict(os.environ)
    if env:
        e.update({k: str(v) for k, v in env.items()})
    r = TLCResult()
    r.cmd = " ".join(cmd[cmd.index("tlc2.TLC"):])
    t0 = time.time()
    p = subprocess.Popen(cmd, cwd=specdir, env=e, stdout=subprocess.PIPE, stderr=subprocess.STDOUT, text=True)
    import threading
    timer = threading.Timer(seconds, p.kill)
    timer.start()
    tail = []
    try:
        for line in p.stdout:
            if line.startswith('"@@'):
                try:
                    r.printed.append(json.loads(json.loads(line)[2:]))
                except ValueError:
                    pass
                if len(r.printed) >= max_records:
                    p.kill()
                    break
            else:
                tail.append(line)
                if len(tail) > 200:
                    tail.pop(0)
    finally:
        timer.cancel()
        try:
            p.kill()
        except OSError:
            pass
        p.wait()
    r.out = "".join(tail)
    r.wall = time.time() - t0
    shutil.rmtree(meta, ignore_errors=True)
    m = _RE_INV.search(r.out)
    if m:
        r.violation = m.group(1)
    elif "Error:" in r.out and "violated" in r.out:
        r.violation = "violated"
    elif "Error:" in r.out:
        r.violation = "error"
    r.ok = r.violation is None
    return r


def tlc_or_die(*a, **k):
    """tlc() that turns any TLC failure into a machinery error (exit 2)."""
    r = tlc(*a, **k)
    if not r.ok:
        sys.stderr.write(r.out[-6000:])
        die("TLC failed (%s): %s" % (r.violation or r.rc, r.cmd))
    return r


def die(msg):
    sys.stderr.write("MACHINERY-ERROR: %s\n" % msg)
    sys.stdout.flush()
    sys.exit(2)


# --------------------------------------------------------------------------
# ndjson helpers


def write_ndjson(path, records):
    with open(path, "w") as f:
        for r in records:
            f.write(json.dumps(r, separators=(",", ":")))
            f.write("\n")


def read_ndjson(path):
    out = []
    with open(path) as f:
        for line in f:
            line = line.strip()
            if line:
                out.append(json.loads(line))
    return out


# --------------------------------------------------------------------------
# known findings + verdict reporting

KF_FILE = os.path.join(VERIF, "known_findings.jsonl")


def load_known_findings(prop):
    out = []
    files = [KF_FILE]
    # per-property fragments used while a check is being developed; merged into KF_FILE on integration
    frag = os.path.join(VERIF, "known_findings.d", prop + ".jsonl")
    if os.path.exists(frag):
        files.append(frag)
    for fn in files:
        if os.path.exists(fn):
            for rec in read_ndjson(fn):
                if rec.get("property") == prop and rec.get("status", "open") == "open":
                    out.append(rec)
    return out


def _match(matcher, desc):
    for k, v in matcher.items():
        dv = desc.get(k)
        if isinstance(v, dict):
            if "in" in v and dv not in v["in"]:
                return False
            if "lt" in v and not (dv is not None and dv < v["lt"]):
                return False
            if "gt" in v and not (dv is not None and dv > v["gt"]):
                return False
            if "ne" in v and dv == v["ne"]:
                return False
            if "re" in v and not (isinstance(dv, str) and re.search(v["re"], dv)):
                return False
        elif dv != v:
            return False
    return True


class Reporter(object):
    """Collects disagreements, applies the known-findings file, writes replay
    files and prints the VIOLATION / KNOWN-FINDING lines.

    A disagreement is (desc, obs_class, detail): `desc` is the canonical case
    descriptor built from the *spec-side* description of the case, `obs_class`
    the class of wrong observation, `detail` everything needed to replay."""

    def __init__(self, prop):
        self.prop = prop
        shutil.rmtree(os.path.join(REPLAY_DIR, prop), ignore_errors=True)
        self.kf = load_known_findings(prop)
        self.kf_hits = {}
        self.violations = []
        self.drift = []
        self.notes = []

    def disagree(self, desc, obs_class, detail):
        d = dict(desc)
        d["obs_class"] = obs_class
        for k in self.kf:
            if _match(k["match"], d):
                self.kf_hits.setdefault(k["id"], []).append(detail)
                return "known"
        self.violations.append((d, detail))
        return "violation"

    def spec_drift(self, what, detail=None):
        self.drift.append((what, detail))

    def finish(self):
        """Print lines, write replay files; return exit code."""
        for k in self.kf:
            hits = self.kf_hits.get(k["id"])
            if hits:
                print("KNOWN-FINDING: property=%s %s [%s, %d case(s) this run]" % (
                    self.prop, k["what"], k["id"], len(hits)))
        if self.drift:
            for what, detail in self.drift[:10]:
                sys.stderr.write("SPEC-DRIFT: %s %s\n" % (what, json.dumps(detail, default=str)[:1500]))
            die("%d spec-drift case(s): spec and independent oracle disagree (not a verdict on /repo)"
                % len(self.drift))
        if not self.violations:
            return 0
        rdir = os.path.join(REPLAY_DIR, self.prop)
        os.makedirs(rdir, exist_ok=True)
        if CRASH_LOGS:
            with open(os.path.join(rdir, "crash_logs.json"), "w") as f:
                json.dump(CRASH_LOGS[:200], f, indent=1, default=str)
        seen = {}
        for d, detail in self.violations:
            key = json.dumps(d, sort_keys=True, default=str)
            seen.setdefault(key, []).append(detail)
        n = 0
        for key, details in seen.items():
            h = hashlib.sha1(key.encode()).hexdigest()[:12]
            path = os.path.join(rdir, "%s.json" % h)
            with open(path, "w") as f:
                json.dump({"property": self.prop, "descriptor": json.loads(key),
                           "count": len(details), "cases": details[:5]}, f, indent=1, default=str)
            print("VIOLATION property=%s replay=%s" % (self.prop, path))
            n += 1
            if n >= 25:
                print("(%d further violation classes not listed)" % (len(seen) - n))
                break
        return 1

    def n_violations(self):
        return len(self.violations)

    def kf_summary(self):
        return {k: len(v) for k, v in self.kf_hits.items()}


# --------------------------------------------------------------------------
# evidence


def write_evidence(prop, tier, seed, level, coverage, wall_s, assumptions=(), violations=0):
    d = EVIDENCE_DIR
    os.makedirs(d, exist_ok=True)
    ev = {
        "property_id": prop, "tier": tier, "seed": int(seed), "level": level,
        "coverage": coverage, "assumptions": list(assumptions),
        "wall_s": round(float(wall_s), 2), "violations": int(violations),
    }
    path = os.path.join(d, prop + ".json")
    with open(path, "w") as f:
        json.dump(ev, f, indent=1, default=str)
    return path


def sample(seq, n, rng):
    seq = list(seq)
    if len(seq) <= n:
        return seq
    return rng.sample(seq, n)
