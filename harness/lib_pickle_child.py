"""C29 child process: builds instances of the generated extension types, dumps / copies / loads them.

usage: lib_pickle_child.py MODE PLAN VER MODDIR WORKDIR SKIP
  MODE   python  - pure-Python twins of the classes (P oracle for the identity structure)
         dump    - version VER of module c29m (MODDIR): same-version operations + blobs for the other versions
         load    - version VER: unpickle the blobs written by the dump children of the other versions
  PLAN   json: {"slots": [{"s", "key", "layouts", "vals", "items": [...]}]}
  SKIP   json list of step ids that crashed an earlier run of this child (skipped, and reported by the parent)

Every step prints '@@{"ev": "begin", "id": ...}' before and '@@{"ev": "obs", ...}' after (flushed), so that the
parent can attribute a crash to a step and restart after it.
"""
import copy
import enum
import json
import os
import pickle
import sys

sys.path.insert(0, os.path.dirname(os.path.abspath(__file__)))
import lib_pickle as lp  # noqa: E402

mode, plan_path, ver, moddir, workdir, skip_path = sys.argv[1:7]
ver = int(ver)
plan = json.load(open(plan_path))
skip = set(json.dumps(x) for x in json.load(open(skip_path))) if os.path.exists(skip_path) else set()
done_items = set()
if os.path.exists(os.path.join(workdir, "done_%s_%d.json" % (mode, ver))):
    done_items = set(json.load(open(os.path.join(workdir, "done_%s_%d.json" % (mode, ver)))))


def emit(rec):
    sys.stdout.write("@@" + json.dumps(rec) + "\n")
    sys.stdout.flush()


NS = {}
if mode == "python":
    mod = pymod = None
    NS = {"PE": lp.PE, "Aux": lp.Aux}
else:
    sys.path.insert(0, moddir)
    import c29m as mod
    assert mod.__file__.endswith(".so"), mod.__file__
    sys.path.insert(0, os.path.join(workdir, "py"))
    import c29py as pymod
    NS = {"PE": mod.PE, "Aux": mod.Aux}


def junk():
    # allocations of the sizes of freed state items, so that a dangling pointer does not read stale-but-intact memory
    return [bytes([90]) * n for n in range(1, 24) for _ in range(48)]


def twin_class(s, lvl, py):
    """pure-Python twin: plain classes with the same chain"""
    name = "S%d%s%d" % (s, "P" if py else "C", lvl)
    g = globals()
    if name not in g:
        if py:
            base = twin_class(s, lvl, False)
        else:
            base = twin_class(s, lvl - 1, False) if lvl else object
        cls = type(name, (base,), {})
        cls.__module__ = "__main__"
        cls.__qualname__ = name
        g[name] = cls
    return g[name]


def get_class(s, lvl, py):
    if mode == "python":
        return twin_class(s, lvl, py)
    return getattr(pymod if py else mod, "S%d%s%d" % (s, "P" if py else "C", lvl))


def setter(o, slot, x, v):
    if mode == "python":
        setattr(o, "f_" + x, v)
    else:
        getattr(o, "set_" + x)(v)


def getter(o, slot, x):
    if mode == "python":
        return getattr(o, "f_" + x)
    return getattr(o, "get_" + x)()


def vis_members(slot, L, lvl):
    return [x for x in lp.members(L, lvl) if L["mem"][x]["kind"] != "ptr"]


def build(slot, L, item):
    """instance for item = {"k", "lvl", "py", "d", "pre": {name: tag}}"""
    cls = get_class(slot["s"], item["lvl"], item["py"])
    o = cls()
    shl = list(lp.SHL_CONTENT)
    for x in vis_members(slot, L, item["lvl"]):
        var = lp.variant(slot["key"], x, L["mem"][x]["kind"])
        expr = var[1][item["pre"][x]]
        v = o if expr == "@self" else shl if expr == "@shl" else lp.eval_expr(expr, NS)
        setter(o, slot, x, v)
    if item["d"] == 1:
        o.k1 = lp.OINT
    elif item["d"] == 2:
        o.k1 = lp.OTXT
        o.me = o
        o.sh = shl
    return o, shl


def observe(slot, L, lvl, o2, orig=None, shl=None):
    ctx = {"new": o2, "orig": orig, "shl": shl}
    keep = junk()
    fields = {}
    for x in vis_members(slot, L, lvl):
        fields[x] = lp.enc(getter(o2, slot, x), ctx)
    d = getattr(o2, "__dict__", None)
    dd = None
    if d is not None:
        dd = {}
        for k in sorted(d):
            if mode == "python" and k.startswith("f_"):
                continue
            dd[k] = lp.enc(d[k], ctx)
    shared = bool(orig is not None and d is not None and d is getattr(orig, "__dict__", None))
    del keep
    return {"fields": fields, "dict": dd, "dict_shared": shared, "type": type(o2).__name__}


def exc_name(e):
    return type(e).__name__


def sorted_concrete(slot, L, lvl):
    names = lp.name_scheme(slot["key"])
    return sorted(names[x] for x in lp.members(L, lvl))


def plain_values(slot, L, item, o, shl):
    """Python-level values by name, for the by-name reference in another version's process"""
    out = {}
    for x in vis_members(slot, L, item["lvl"]):
        v = getter(o, slot, x)
        if v is o:
            v = ("@@self",)
        elif v is shl:
            v = ("@@shl",)
        elif type(v).__name__ == "Aux":
            v = ("@@aux", v.v)
        elif isinstance(v, enum.Enum):
            v = ("@@pe", int(v.value))
        out[x] = v
    return out


def step(sid, fn):
    """run one observation step; returns the observation or None when skipped"""
    if json.dumps(sid) in skip:
        return None
    emit({"ev": "begin", "id": sid})
    try:
        obs = fn()
    except MemoryError:
        obs = {"load_exc": "MemoryError"}
    emit({"ev": "obs", "id": sid, "obs": obs})
    return obs


def same_version(slot, L, item):
    s, k = slot["s"], item["k"]
    o, shl = build(slot, L, item)
    lvl = item["lvl"]
    pre = observe(slot, L, lvl, o, None, shl)
    emit({"ev": "pre", "s": s, "k": k, "ver": ver, "obs": pre})
    want_type = type(o).__name__

    def fin(o2, orig):
        r = observe(slot, L, lvl, o2, orig, shl)
        r["want_type"] = want_type
        return r

    def do_copy(deep):
        def f():
            try:
                o.__reduce_ex__(4)
            except Exception as e:
                return {"dump_exc": exc_name(e)}
            try:
                o2 = copy.deepcopy(o) if deep else copy.copy(o)
            except RecursionError:
                return {"load_exc": "RecursionError"}
            except Exception as e:
                return {"load_exc": exc_name(e)}
            return fin(o2, o)
        return f

    step([s, k, ver, "copy", 0], do_copy(False))
    step([s, k, ver, "deepcopy", 0], do_copy(True))
    blobs = {}
    for proto in range(6):
        def f(proto=proto):
            try:
                b = pickle.dumps(o, proto)
            except RecursionError:
                return {"dump_exc": "RecursionError"}
            except Exception as e:
                return {"dump_exc": exc_name(e)}
            blobs[proto] = b
            try:
                o2 = pickle.loads(b)
            except Exception as e:
                return {"load_exc": exc_name(e)}
            return fin(o2, o)
        step([s, k, ver, "pickle", proto], f)
    if mode == "dump":
        for alg in (2, 3):
            def f(alg=alg):
                # data written by an older release: same reduce value, digest of the same names by sha1 / md5
                try:
                    r = o.__reduce__()
                except Exception as e:
                    return {"dump_exc": exc_name(e)}
                if not getattr(r[0], "__name__", "").startswith("__pyx_unpickle"):
                    return {"not_cython_reduce": True}
                dg = lp.digests(sorted_concrete(slot, L, lvl))
                if r[1][1] != dg.get(1):
                    return {"digest_scheme": [r[1][1], dg.get(1)]}
                if alg not in dg:
                    return {"digest_unavailable": alg}
                try:
                    o2 = r[0](r[1][0], dg[alg], r[1][2])
                    if len(r) > 2 and r[2] is not None:
                        o2.__setstate__(r[2])
                except Exception as e:
                    return {"load_exc": exc_name(e)}
                del r
                return fin(o2, o)
            step([s, k, ver, "legacy", alg], f)
        with open(os.path.join(workdir, "blob_%d_%d_%d.pkl" % (ver, s, k)), "wb") as fh:
            pickle.dump({"blobs": blobs, "vals": plain_values(slot, L, item, o, shl), "d": item["d"],
                         "want_type": want_type}, fh)


def load_version(slot, L, item):
    """item: {"k", "lvl", "py", "d", "src": i}: unpickle under this version what version `src` wrote"""
    s, k, src = slot["s"], item["k"], item["src"]
    p = os.path.join(workdir, "blob_%d_%d_%d.pkl" % (src, s, k))
    if not os.path.exists(p):
        emit({"ev": "noblob", "s": s, "k": k, "src": src, "ver": ver})
        return
    with open(p, "rb") as fh:
        rec = pickle.load(fh)
    lvl = item["lvl"]
    byname = None
    if item.get("byname"):
        def ref():
            try:
                cls = get_class(s, lvl, item["py"])
                fresh = cls()
                shl = list(lp.SHL_CONTENT)
                for x in vis_members(slot, L, lvl):
                    v = rec["vals"][x]
                    if isinstance(v, tuple) and v and isinstance(v[0], str) and v[0].startswith("@@"):
                        v = {"@@self": lambda: fresh, "@@shl": lambda: shl, "@@aux": lambda: mod.Aux(v[1]),
                             "@@pe": lambda: mod.PE(v[1])}[v[0]]()
                    setter(fresh, slot, x, v)
                if rec["d"] == 1:
                    fresh.k1 = lp.OINT
                elif rec["d"] == 2:
                    fresh.k1 = lp.OTXT
                    fresh.me = fresh
                    fresh.sh = shl
            except Exception as e:
                return {"exc": exc_name(e)}
            return observe(slot, L, lvl, fresh, None, None)
        byname = step([s, k, ver, "byname", src], ref)
    for proto in range(6):
        def f(proto=proto):
            if proto not in rec["blobs"]:
                return {"dump_exc": "unknown"}
            try:
                o2 = pickle.loads(rec["blobs"][proto])
            except Exception as e:
                r = {"load_exc": exc_name(e)}
            else:
                r = observe(slot, L, lvl if lvl < L["n"] else L["n"] - 1, o2, None, None)
                r["want_type"] = rec["want_type"]
            if byname is not None:
                r["byname"] = byname
            return r
        step([s, k, ver, "xload", src, proto], f)


def main():
    global ver
    for slot in plan["slots"]:
        for item in slot["items"]:
            if mode == "python":
                if "src" in item:
                    continue
                ver = item["ver"]          # the twins do not depend on a module: all versions in one run
            elif item["ver"] != ver or (mode == "load") != ("src" in item):
                continue
            L = slot["layouts"][ver]
            iid = json.dumps([slot["s"], item["k"], item.get("src", -1)])
            if iid in done_items:
                continue
            if mode == "load":
                load_version(slot, L, item)
            else:
                same_version(slot, L, item)
            emit({"ev": "item_done", "iid": iid})
    emit({"ev": "end"})


main()
