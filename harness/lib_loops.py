"""C14 helpers.

(1) Python transcription of spec/RangeLoop.tla (reference range semantics, body
    templates, and the implementation-shaped C loop of IterationTransform +
    ForFromStatNode with explicit wrap / overflow events).  TLC checks the model
    exhaustively for small widths; this transcription is compared with every row
    TLC publishes (a difference is spec drift) and is then used for the 32/64-bit
    types whose values TLC's 32-bit integers cannot hold.
(2) Rendering of the loop functions as ONE template that is emitted twice: as
    .pyx (typed, compiled by Cython from the snapshot = C) and as plain Python
    (types stripped, exec'd by CPython = P).
(3) The child-process driver that replays case tables on either module.
"""
import json
import os

import core

SENT = 99          # value of the loop variable before the loop (fits every C type used)
CAPEXC = "BufferError"   # raised by a loop body that runs more often than the cap allows


# --------------------------------------------------------------------------
# (1) range model


class CT(object):
    """C type of the loop target.  w/s: width, signedness.  pw: width of the type C
    arithmetic on it is carried out in (pw > w: promoted to a signed `int`).  bw: width
    of the (signed) type in which `reversed(range())` recomputes its bound when the
    bounds are not of the target type (0: same as the loop arithmetic)."""

    def __init__(self, w, s, pw=None, bw=0):
        self.w, self.s, self.pw, self.bw = w, s, pw or w, bw

    def lo(self):
        return -(1 << (self.w - 1)) if self.s else 0

    def hi(self):
        return (1 << (self.w - 1)) - 1 if self.s else (1 << self.w) - 1

    def key(self):
        return (self.w, self.s, self.pw, self.bw)


def inr(w, s, v):
    return (-(1 << (w - 1)) <= v < (1 << (w - 1))) if s else (0 <= v < (1 << w))


def wrap(w, s, v):
    v &= (1 << w) - 1
    if s and v >= (1 << (w - 1)):
        v -= 1 << w
    return v


def range_len(a, b, s):
    if s > 0:
        return (b - a - 1) // s + 1 if a < b else 0
    return (a - b - 1) // (-s) + 1 if a > b else 0


def ref_seq(form, a, b, s):
    n = range_len(a, b, s)
    if form == "fwd":
        return [a + j * s for j in range(n)]
    return [a + (n - 1 - j) * s for j in range(n)]


def apply_body(seq, bk, ck, capped=False):
    """Observation of the loop template over the iteration sequence `seq`:
    the n-th iteration (1-based) is skipped before logging when n == ck, and breaks
    after logging when n == bk.  -> (visited, final, else_ran)"""
    vis = []
    fin = SENT
    for n, x in enumerate(seq, 1):
        fin = x
        if n == ck:
            continue
        vis.append(x)
        if n == bk:
            return vis, fin, False
    return vis, fin, True


def impl_run(ty, form, a, b, s, bk, cap):
    """The C loop as generated for a target of type `ty` with run-time bounds of that
    type, simulated with two's complement wrap-around.
    -> dict(seq, broke, capped, events[(cause, flag)])  flag 1: unsigned wrap,
    2: signed overflow (undefined in C), 3: value-changing store into the target type."""
    ev = []
    A = (ty.pw, True) if ty.pw > ty.w else (ty.w, ty.s)
    B = (ty.bw, True) if ty.bw else A

    def ar(at, v, cause):
        if inr(at[0], at[1], v):
            return v
        ev.append((cause, 2 if at[1] else 1))
        return wrap(at[0], at[1], v)

    def st(v, cause):
        if inr(ty.w, ty.s, v):
            return v
        ev.append((cause, 3))
        return wrap(ty.w, ty.s, v)

    k = abs(s)
    if form == "fwd":
        b1, b2, dec, off = a, b, s < 0, 0
    else:
        b2 = a
        dec = s > 0
        off = -1 if dec else 1
        if k == 1:
            b1 = b
        else:
            if s > 0:
                x = ar(B, b - a, "calc")
                x = ar(B, x - 1, "calc")
                m = ar(B, k * (x // k), "calc")
                y = ar(B, a + m, "calc")
                y = ar(B, y + 1, "calc")
            else:
                x = ar(B, a - b, "calc")
                x = ar(B, x - 1, "calc")
                m = ar(B, k * (x // k), "calc")
                y = ar(B, a - m, "calc")
                y = ar(B, y - 1, "calc")
            b1 = st(y, "calc")
    special = (not ty.s) and dec
    x = b1
    if off:
        x = ar(A, x + off, "init")
    if special:
        x = ar(A, x + k, "init")
    t = st(x, "init")
    lim = ar(A, b2 + k, "bound") if special else b2

    def cond(t):
        if form == "fwd":
            return t > lim if dec else t < lim
        return t >= lim if dec else t <= lim

    seq = []
    broke = capped = False
    while cond(t):
        if special:
            t = st(ar(A, t - k, "inc"), "inc")
        seq.append(t)
        if len(seq) == bk:
            broke = True
            break
        if len(seq) >= cap:
            capped = True
            break
        if not special:
            t = st(ar(A, t - k if dec else t + k, "inc"), "inc")
    return {"seq": seq, "broke": broke, "capped": capped, "events": ev}


def classify(ty, form, a, b, s, bk, ck, cap):
    """-> (ref_obs, hazard descriptor fields).  ref_obs None when the reference itself
    runs longer than the cap.  hazard: cause of the first wrap event ('' if none),
    ub (signed overflow reached), dev (the wrap-around simulation deviates from the
    reference), pred (the simulated observation)."""
    rs = ref_seq(form, a, b, s)
    n_exec = bk if (0 < bk <= len(rs) and bk != ck) else len(rs)
    ref = None if n_exec >= cap else list(apply_body(rs, bk, ck))
    eff_bk = bk if bk != ck else 0
    r = impl_run(ty, form, a, b, s, eff_bk, cap)
    if r["capped"]:
        pred = "E:" + CAPEXC
    else:
        pred = list(apply_body(r["seq"], bk, ck))
    cause = r["events"][0][0] if r["events"] else ""
    return ref, {"cause": cause, "ub": any(f == 2 for _, f in r["events"]),
                 "dev": ref is not None and pred != ref, "pred": pred}
