"""C14 helpers.

(1) Python transcription of spec/RangeLoop.tla (reference range semantics, body
    templates, and the implementation-shaped C loop of IterationTransform +
    ForFromStatNode with explicit wrap / overflow events).  TLC checks the model
    exhaustively for small widths; this transcription is compared with every row
    TLC publishes (a difference is spec drift) and is then used for the 32/64-bit
    types whose values TLC's 32-bit integers cannot hold.
(2) Rendering of the loop functions as ONE template that is emitted twice: as
    .pyx (typed, compiled by Cython from the snapshot = C) and as plain Python
    (types stripped, exec'd by CPython = P).
(3) The child-process driver that replays case tables on either module.
"""
import json
import os

import core

SENT = 99          # value of the loop variable before the loop (fits every C type used)
CAPEXC = "BufferError"   # raised by a loop body that runs more often than the cap allows


# --------------------------------------------------------------------------
# (1) range model


class CT(object):
    """C type of the loop target.  w/s: width, signedness.  pw: width of the type C
    arithmetic on it is carried out in (pw > w: promoted to a signed `int`).  bw: width
    of the (signed) type in which `reversed(range())` recomputes its bound when the
    bounds are not of the target type (0: bounds of the target type)."""

    def __init__(self, w, s, pw=None, bw=0):
        self.w, self.s, self.pw, self.bw = w, s, pw or w, bw

    def lo(self):
        return -(1 << (self.w - 1)) if self.s else 0

    def hi(self):
        return (1 << (self.w - 1)) - 1 if self.s else (1 << self.w) - 1

    def key(self):
        return (self.w, self.s, self.pw, self.bw)


def inr(w, s, v):
    return (-(1 << (w - 1)) <= v < (1 << (w - 1))) if s else (0 <= v < (1 << w))


def wrap(w, s, v):
    v &= (1 << w) - 1
    if s and v >= (1 << (w - 1)):
        v -= 1 << w
    return v


def range_len(a, b, s):
    if s > 0:
        return (b - a - 1) // s + 1 if a < b else 0
    return (a - b - 1) // (-s) + 1 if a > b else 0


def ref_seq(form, a, b, s, limit=None):
    """Reference iteration sequence (closed form of spec RefSeq); at most `limit` elements."""
    n = range_len(a, b, s)
    m = n if limit is None else min(n, limit)
    if form == "fwd":
        return [a + j * s for j in range(m)]
    return [a + (n - 1 - j) * s for j in range(m)]


def apply_body(seq, bk, ck):
    """Observation of the loop template over the iteration sequence `seq`:
    the n-th iteration (1-based) is skipped before logging when n == ck, and breaks
    after logging when n == bk.  -> (visited, final, else_ran)"""
    vis = []
    fin = SENT
    for n, x in enumerate(seq, 1):
        fin = x
        if n == ck:
            continue
        vis.append(x)
        if n == bk:
            return vis, fin, False
    return vis, fin, True


def impl_run(ty, form, a, b, s, bk, cap):
    """The C loop as generated for a target of type `ty` with run-time bounds of that
    type, simulated with two's complement wrap-around.
    -> dict(seq, broke, capped, events[(cause, kind, iterations done)])  kind 1: unsigned
    wrap, 2: signed overflow (undefined in C), 3: value-changing store into the target type."""
    ev = []
    seq = []
    A = (ty.pw, True) if ty.pw > ty.w else (ty.w, ty.s)
    B = (ty.bw, True) if ty.bw else A

    def ar(at, v, cause):
        if inr(at[0], at[1], v):
            return v
        ev.append((cause, 2 if at[1] else 1, len(seq)))
        return wrap(at[0], at[1], v)

    def st(v, cause):
        if inr(ty.w, ty.s, v):
            return v
        ev.append((cause, 3, len(seq)))
        return wrap(ty.w, ty.s, v)

    k = abs(s)
    if form == "fwd":
        b1, b2, dec, off = a, b, s < 0, 0
    else:
        b2 = a
        dec = s > 0
        off = -1 if dec else 1
        if k == 1:
            b1 = b
        else:
            sg = 1 if s > 0 else -1
            x = ar(B, sg * (b - a), "calc")
            x = ar(B, x - 1, "calc")
            # signed: __Pyx_div_T (floor); unsigned: C division of the (possibly wrapped) value
            m = ar(B, k * (x // k), "calc")
            y = ar(B, a + sg * m, "calc")
            y = ar(B, y + sg, "calc")
            b1 = y if ty.bw else st(y, "calc")
    special = (not ty.s) and dec
    # expressions over the bounds are evaluated in the bounds' type (B = A for bounds of type T)
    x = b1
    if off:
        x = ar(B, x + off, "init")
    if special:
        x = ar(B, x + k, "init")
    t = st(x, "init")
    lim = ar(B, b2 + k, "bound") if special else b2
    if ty.bw and not ty.s and ty.w >= ty.bw:
        lim = wrap(ty.w, False, lim)     # comparison in the unsigned type

    def cond(t):
        if form == "fwd":
            return t > lim if dec else t < lim
        return t >= lim if dec else t <= lim

    broke = capped = False
    while cond(t):
        if special:
            t = st(ar(A, t - k, "inc"), "inc")
        seq.append(t)
        if len(seq) == bk:
            broke = True
            break
        if len(seq) > cap:
            capped = True
            break
        if not special:
            t = st(ar(A, t - k if dec else t + k, "inc"), "inc")
    return {"seq": seq, "broke": broke, "capped": capped, "events": ev}


def model_row(ty, form, a, b, s, cap):
    """What spec/RangeLoop.tla calls Run(): (n, m, ev) -- reference length, iterations of
    the C loop before its first wrap event (or its natural end), the event [cause, kind]."""
    r = impl_run(ty, form, a, b, s, 0, cap)
    n = range_len(a, b, s)
    if r["events"]:
        c, kind, m = r["events"][0]
        return n, m, [c, kind]
    return n, len(r["seq"]), []


def exposed(m, ev, bk, ck):
    """Exposed() of the spec: the body reaches the wrap event."""
    return bool(ev) and not (0 < bk <= m and bk != ck)


def classify(ty, form, a, b, s, bk, ck, cap):
    """-> (ref_obs or None when the reference runs into the cap, descriptor fields of the hazard)
    cause/kind of the first wrap event the body is exposed to ('' / 0 if none), dev: the
    wrap-around simulation deviates from the reference, pred: the simulated observation."""
    n = range_len(a, b, s)
    n_exec = bk if (0 < bk <= n and bk != ck) else n
    ref = None if n_exec > cap else list(apply_body(ref_seq(form, a, b, s, cap + 1), bk, ck))
    eff_bk = bk if bk != ck else 0
    r = impl_run(ty, form, a, b, s, eff_bk, cap)
    pred = ("E:" + CAPEXC) if r["capped"] else list(apply_body(r["seq"], bk, ck))
    evs = r["events"]
    return ref, {"cause": evs[0][0] if evs else "", "kind": evs[0][1] if evs else 0,
                 "dev": ref is not None and pred != ref, "pred": pred}


# --------------------------------------------------------------------------
# (2) rendering: one template, two emissions ("c": .pyx for Cython, "p": plain Python)

#          tag      C type            bits signed
RTYPES = [("schar", "signed char", 8, True), ("uchar", "unsigned char", 8, False),
          ("int", "int", 32, True), ("uint", "unsigned int", 32, False),
          ("long", "long", 64, True), ("ssize", "Py_ssize_t", 64, True),
          ("ulong", "unsigned long", 64, False)]
RT = {t[0]: t for t in RTYPES}
STEPS = (-3, -2, -1, 1, 2, 3)
CAP8, CAPW = 300, 40


def model_type(tag, bounds):
    """CT of the loop that Cython generates for a target of type `tag` whose bounds are
    typed like the target ('t') or are Python objects converted through Py_ssize_t ('o')."""
    _, _, bits, signed = RT[tag]
    pw = 32 if bits < 32 else bits
    return CT(bits, signed, pw, 64 if (bounds == "o" and not (bits == 64 and signed)) else 0)


def sname(s):
    return ("m%d" % -s) if s < 0 else ("p%d" % s)


def cap_of(tag):
    return CAP8 if RT[tag][2] == 8 else CAPW


_RANGE_TMPL = '''def %(name)s(%(args)s):
%(decl)s    out = []
    els = False
    for i in %(iter)s:
        n += 1
        if n > %(cap)d: raise BufferError()
        if n == ck: continue
        out.append(i)
        if n == bk: break
    else:
        els = True
    return (out, i, els)
'''


def _range_fn(name, mode, ctype, args, iterexpr, cap, target):
    """args: list of (name, kind) kind 'T' (typed like the target), 'O' (object), 'I' (C int)"""
    if mode == "c":
        a = ", ".join((ctype + " " + n) if k == "T" else (("int " + n) if k == "I" else n) for n, k in args)
        if target == "c":
            decl = "    cdef %s i = %d\n    cdef int n = 0\n" % (ctype, SENT)
        elif target == "object":
            decl = "    cdef object i = %d\n    cdef int n = 0\n" % SENT
        else:   # inferred
            decl = "    cdef int n = 0\n    i = %d\n" % SENT
    else:
        a = ", ".join(n for n, _ in args)
        decl = "    i = %d\n    n = 0\n" % SENT
    return _RANGE_TMPL % {"name": name, "args": a, "decl": decl, "iter": iterexpr, "cap": cap}


def range_module(tag, mode):
    """All range loops with a target of C type `tag`: constant step -3..3 x forward/reversed x
    bounds typed like the target / Python objects; 1- and 2-argument range; run-time step."""
    ctype = RT[tag][1]
    cap = cap_of(tag)
    out = ["# cython: language_level=3\n"]
    for form in ("fwd", "rev"):
        wrap_ = (lambda e: "reversed(%s)" % e) if form == "rev" else (lambda e: e)
        for s in STEPS:
            for bk, ak in (("t", "T"), ("o", "O")):
                out.append(_range_fn("r_%s_%s_%s" % (form, sname(s), bk), mode, ctype,
                                     [("a", ak), ("b", ak), ("bk", "I"), ("ck", "I")], wrap_("range(a, b, %d)" % s), cap, "c"))
        out.append(_range_fn("r_%s_r2" % form, mode, ctype, [("a", "T"), ("b", "T"), ("bk", "I"), ("ck", "I")], wrap_("range(a, b)"), cap, "c"))
        out.append(_range_fn("r_%s_r1" % form, mode, ctype, [("b", "T"), ("bk", "I"), ("ck", "I")], wrap_("range(b)"), cap, "c"))
        # run-time step: not turned into a C loop; must behave all the same (and raise ValueError for 0)
        out.append(_range_fn("r_%s_rs" % form, mode, ctype, [("a", "T"), ("b", "T"), ("s", "T" if RT[tag][3] else "I"), ("bk", "I"), ("ck", "I")],
                             wrap_("range(a, b, s)"), cap, "c"))
    return "\n".join(out)


def const_module(triples, mode):
    """Loops whose range arguments are literals: object / inferred / int / unsigned int targets."""
    out = ["# cython: language_level=3\n"]
    for idx, (a, b, s) in enumerate(triples):
        for form in ("fwd", "rev"):
            e = "range(%d, %d, %d)" % (a, b, s)
            if form == "rev":
                e = "reversed(%s)" % e
            for tg, ctype, target in (("obj", None, "object"), ("inf", None, "infer"), ("int", "int", "c"), ("uint", "unsigned int", "c")):
                if tg == "uint" and (a < 0 or b < 0):
                    continue
                out.append(_range_fn("k_%s_%s_%d" % (tg, form, idx), mode, ctype, [("bk", "I"), ("ck", "I")], e, CAPW, target))
    # object target with run-time (object) bounds: generic iteration
    for form in ("fwd", "rev"):
        for s in STEPS:
            e = "range(a, b, %d)" % s
            if form == "rev":
                e = "reversed(%s)" % e
            out.append(_range_fn("ko_%s_%s" % (form, sname(s)), mode, None, [("a", "O"), ("b", "O"), ("bk", "I"), ("ck", "I")], e, CAPW, "object"))
    return "\n".join(out)


# ---- containers

OPC = {"cont": 1, "brk": 2, "set": 3, "del": 4, "add": 5, "dis": 6, "app": 7, "pop": 8, "pop0": 9, "ins0": 10}

_CONT_HEAD = '''# cython: language_level=3
def mutate(c, p):
    o = p[0]
    if o == 3: c[p[1]] = p[2]
    elif o == 4: del c[p[1]]
    elif o == 5: c.add(p[1])
    elif o == 6: c.discard(p[1])
    elif o == 7: c.append(p[1])
    elif o == 8: c.pop()
    elif o == 9: del c[0]
    elif o == 10: c.insert(0, p[1])
'''

_CONT_TMPL = '''def %(name)s(%(args)s):
%(decl)s    out = []
    els = False
    j = 0
    try:
        for %(target)s in %(iter)s:
            ops = script[j] if j < len(script) else ()
            j += 1
            if j > 40: raise BufferError()
            if ops and ops[0][0] == 1: continue
            out.append(%(log)s)
            if ops and ops[0][0] == 2: break
            for p in ops: mutate(c, p)
        else:
            els = True
    except RuntimeError:
        return (out, 'E:RuntimeError')
    return (out, %(log)s, els)
'''

# name: (spec kind, container class, C type of the parameter ('' = untyped), iter expression, target, log expression,
#        C declarations, P declarations, item view, path)
#   item view: how a spec item (dict: [k, v]; others: i) shows up in the log
#   path: 'pydict_next' (optimised dict loop over PyDict_Next), 'generic' (the container's own iterator), 'opt' (other optimised loop)
_X = "    x = 99\n"
_KV = "    k = 99\n    v = 99\n"
_XS = "    x = 'c'\n"                       # str loops: a str before the loop (an int before it: variant st_t_isent, the
#                                           target then is a Python object: find_spanning_type does not merge Py_UCS4 with numbers)
_KVS = "    k = 99\n    v = 'c'\n"
_XO = "    cdef object x = 99\n"
CONT_VARIANTS = {
    "d_t_direct": ("dict", "dict", "dict", "c", "x", "x", _X, _X, "k", "pydict_next"),
    "d_t_keys": ("dict", "dict", "dict", "c.keys()", "x", "x", _X, _X, "k", "pydict_next"),
    "d_t_values": ("dict", "dict", "dict", "c.values()", "x", "x", _X, _X, "v", "pydict_next"),
    "d_t_items2": ("dict", "dict", "dict", "c.items()", "k, v", "(k, v)", _KV, _KV, "kv", "pydict_next"),
    "d_t_items1": ("dict", "dict", "dict", "c.items()", "x", "x", _X, _X, "kv1", "pydict_next"),
    "d_t_enum": ("dict", "dict", "dict", "enumerate(c, 7)", "k, v", "(k, v)", _KV, _KV, "ek", "pydict_next"),
    "d_u_direct": ("dict", "dict", "", "c", "x", "x", _X, _X, "k", "generic"),
    "d_u_keys": ("dict", "dict", "", "c.keys()", "x", "x", _X, _X, "k", "pydict_next"),
    "d_u_values": ("dict", "dict", "", "c.values()", "x", "x", _X, _X, "v", "pydict_next"),
    "d_u_items2": ("dict", "dict", "", "c.items()", "k, v", "(k, v)", _KV, _KV, "kv", "pydict_next"),
    "d_s_keys": ("dict", "DSub", "", "c.keys()", "x", "x", _X, _X, "k", "generic"),
    "d_s_items2": ("dict", "DSub", "", "c.items()", "k, v", "(k, v)", _KV, _KV, "kv", "generic"),
    "s_t": ("set", "set", "set", "c", "x", "x", _X, _X, "i", "opt"),
    "s_t_enum": ("set", "set", "set", "enumerate(c, 7)", "k, v", "(k, v)", _KV, _KV, "ei", "opt"),
    "s_u": ("set", "set", "", "c", "x", "x", _X, _X, "i", "generic"),
    "s_sub": ("set", "SSub", "", "c", "x", "x", _X, _X, "i", "generic"),
    "s_fz": ("set", "frozenset", "frozenset", "c", "x", "x", _X, _X, "i", "opt"),
    "l_t": ("list", "list", "list", "c", "x", "x", _X, _X, "i", "opt"),
    "l_u": ("list", "list", "", "c", "x", "x", _X, _X, "i", "opt"),
    "l_t_enum": ("list", "list", "list", "enumerate(c, 7)", "k, v", "(k, v)", _KV, _KV, "ei", "opt"),
    "l_t_enumc": ("list", "list", "list", "enumerate(c, 7)", "k, v", "(k, v)", "    cdef int k = 99\n    v = 99\n", _KV, "ei", "opt"),
    "rl_t": ("rlist", "list", "list", "reversed(c)", "x", "x", _X, _X, "i", "opt"),
    "rl_u": ("rlist", "list", "", "reversed(c)", "x", "x", _X, _X, "i", "generic"),
    "t_t": ("list", "tuple", "tuple", "c", "x", "x", _X, _X, "i", "opt"),
    "rt_t": ("rlist", "tuple", "tuple", "reversed(c)", "x", "x", _X, _X, "i", "opt"),
    "ba_t": ("list", "bytearray", "bytearray", "c", "x", "x", _X, _X, "i", "opt"),
    "rba_t": ("rlist", "bytearray", "bytearray", "reversed(c)", "x", "x", _X, _X, "i", "opt"),
    "st_t": ("list", "str", "str", "c", "x", "x", _XS, _XS, "ch", "opt"),
    "st_t_isent": ("list", "str", "str", "c", "x", "x", _X, _X, "ch", "opt"),
    "st_t_ucs4": ("list", "str", "str", "c", "x", "x", "    cdef Py_UCS4 x = 99\n", "    x = 'c'\n", "ch", "opt"),
    "st_t_rev": ("rlist", "str", "str", "reversed(c)", "x", "x", _XS, _XS, "ch", "opt"),
    "st_t_enum": ("list", "str", "str", "enumerate(c)", "k, v", "(k, v)", _KVS, _KVS, "ech", "opt"),
    "st_u": ("list", "str", "", "c", "x", "x", _XS, _XS, "ch", "generic"),
    "by_t_int": ("list", "bytes", "bytes", "c", "x", "x", "    cdef int x = 99\n", _X, "by", "opt"),
    "by_t_uchar": ("list", "bytes", "bytes", "c", "x", "x", "    cdef unsigned char x = 99\n", _X, "by", "opt"),
    "by_t_obj": ("list", "bytes", "bytes", "c", "x", "x", _XO, _X, "by", "generic"),
    "by_t_inf": ("list", "bytes", "bytes", "c", "x", "x", _X, _X, "by", "opt"),
    "by_u": ("list", "bytes", "", "c", "x", "x", _X, _X, "by", "generic"),
    "by_t_rev": ("rlist", "bytes", "bytes", "reversed(c)", "x", "x", "    cdef unsigned char x = 99\n", _X, "by", "opt"),
    "by_t_revint": ("rlist", "bytes", "bytes", "reversed(c)", "x", "x", "    cdef int x = 99\n", _X, "by", "opt"),
}
# C arrays: (spec kind, slice as Python text, indices visited, needs n)
_CA = "    cdef int[5] arr\n    cdef int x = 99\n    arr = c\n"
_PA = "    arr = list(c)\n    x = 99\n"
CARRAY_VARIANTS = {
    "ca_full": ("list", "arr", [0, 1, 2, 3, 4]),
    "ca_rev": ("rlist", "reversed(arr)", [0, 1, 2, 3, 4]),
    "ca_s14": ("list", "arr[1:4]", [1, 2, 3]),
    "ca_s22": ("list", "arr[2:2]", []),
    "ca_st2": ("list", "arr[:5:2]", [0, 2, 4]),
    "ca_sn2": ("list", "arr[4:0:-2]", [4, 2]),
    "ca_sn1": ("list", "arr[4::-1]", [4, 3, 2, 1, 0]),
}
STR_ITEMS = "aé€\U0001F600z"
BYTES_ITEMS = [65, 200, 128, 255, 0]
CARR_VALS = [11, -22, 33, 44, -55]


def cont_module(mode):
    out = [_CONT_HEAD]
    for name, (kind, cls, ctype, it, target, log, cdecl, pdecl, view, path) in CONT_VARIANTS.items():
        args = (("%s c, script" % ctype) if ctype else "c, script") if mode == "c" else "c, script"
        out.append(_CONT_TMPL % {"name": name, "args": args, "decl": cdecl if mode == "c" else pdecl,
                                 "target": target, "iter": it, "log": log})
    for name, (kind, it, idxs) in CARRAY_VARIANTS.items():
        out.append(_CONT_TMPL % {"name": name, "args": "c, script", "decl": _CA if mode == "c" else _PA,
                                 "target": "x", "iter": it, "log": "x"})
    return "\n".join(out)


# --------------------------------------------------------------------------
# (3) replay driver (child process; the same script runs the compiled module and the plain one)

_DRIVER = r'''
import json, sys, os, importlib
moddir, modname, infile, outfile, start, want_ext = sys.argv[1], sys.argv[2], sys.argv[3], sys.argv[4], int(sys.argv[5]), sys.argv[6] == "1"
sys.path.insert(0, moddir)
mod = importlib.import_module(modname)
if want_ext != mod.__file__.endswith(".so"):
    print("@@" + json.dumps({"fatal": "wrong kind of module: %s" % mod.__file__})); sys.exit(3)
class DSub(dict): pass
class SSub(set): pass
def build(x):
    if isinstance(x, dict):
        (t, v), = x.items()
        if t in ("dict", "DSub"):
            c = {} if t == "dict" else DSub()
            for k, val in v: c[k] = val
            return c
        if t in ("set", "SSub"):
            c = set() if t == "set" else SSub()
            for k in v: c.add(k)
            return c
        if t == "frozenset":
            c = set()
            for k in v: c.add(k)
            return frozenset(c)
        if t == "list": return list(v)
        if t == "tuple": return tuple(v)
        if t == "bytes": return bytes(v)
        if t == "bytearray": return bytearray(v)
        raise ValueError(x)
    return x
def enc(v):
    if isinstance(v, (tuple, list)): return [enc(x) for x in v]
    if isinstance(v, bytes): return {"b": list(v)}
    return v
calls = json.load(open(infile))
out = open(outfile, "a")
buf = []
for i in range(start, len(calls)):
    fn, args = calls[i]
    if len(buf) >= 400:
        out.write("".join(buf)); out.flush(); buf = []
    try:
        r = enc(getattr(mod, fn)(*[build(a) for a in args]))
    except BaseException as e:
        r = "E:" + type(e).__name__
    buf.append(json.dumps([i, r]) + "\n")
out.write("".join(buf)); out.flush(); out.close()
print("@@" + json.dumps({"done": len(calls)}))
'''


def run_table(moddir, modname, calls, is_ext, tag, timeout=900):
    """calls: [[function, [args]], ...] -> observations (JSON values, 'E:<Type>', 'CRASH:<sig>', 'TIMEOUT')."""
    inf = os.path.join(moddir, tag + "_in.json")
    outf = os.path.join(moddir, tag + "_out.ndjson")
    with open(inf, "w") as f:
        json.dump(calls, f)
    if os.path.exists(outf):
        os.unlink(outf)
    obs = [None] * len(calls)
    start = 0
    crashes = 0
    while start < len(calls):
        ch = core.run_child(_DRIVER, [moddir, modname, inf, outf, str(start), "1" if is_ext else "0"], timeout=timeout)
        if os.path.exists(outf):
            with open(outf) as f:
                for line in f:
                    try:
                        i, r = json.loads(line)
                    except ValueError:
                        continue
                    obs[i] = r
        fatal = [j for j in ch.json_lines() if "fatal" in j]
        if fatal:
            core.die("driver: %s" % fatal[0]["fatal"])
        if ch.rc == 0 and ch.json_lines():
            break
        nxt = start
        while nxt < len(calls) and obs[nxt] is not None:
            nxt += 1
        if nxt >= len(calls):
            break
        obs[nxt] = "TIMEOUT" if ch.timed_out else ("CRASH:%d" % ch.signal if ch.crashed else "CRASH:exit%s:%s" % (ch.rc, ch.err[-300:]))
        crashes += 1
        if crashes > 100:
            core.die("too many crashes in run_table")
        start = nxt + 1
    return obs
