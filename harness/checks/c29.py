"""C29 - automatic pickling of extension types round-trips.

spec/Pickle.tla: layouts (class chains with typed members, __dict__, __cinit__, auto_pickle), the property
as `Demand`, and an implementation-shaped transcription of _inject_pickle_methods / ExtensionTypes.c.
TLC: (1) all ordered pairs of layouts in small bounds x all instances: the transcription meets the demand;
(2) the same with `char*` / `char[N]` members is REFUTED (the model predicts the two known hazards) and a
broken digest (count of names) is refuted, too; (3) every single-edit history from 4 seed layouts and
simulated 3-version edit histories over all kinds are published with demand / model prediction / expected
field values per (version i, version j, instance, operation).
B1: every selected history becomes one slot of a module `c29m`; version v of all slots is built in its own
directory (same module and class names), instances are dumped in one process per version and loaded in
another one per version (protocols 0-5), plus copy / deepcopy / old-digest data in the dumping process.
P: pure-Python twin classes under stock pickle/copy (identity structure), an independent Python statement
of the demand, hashlib for the digests, and by-name attribute assignment for kind changes.
"""
import collections
import concurrent.futures
import json
import os
import random
import sys
import time

import core
import lib_pickle as lp

PROP = "C29"
CHILD = os.path.join(os.path.dirname(os.path.dirname(os.path.abspath(__file__))), "lib_pickle_child.py")

TIERS = {
    # sim_n histories are enough; sim_s only bounds the wait on a busy machine
    "quick": dict(groups=2, slots=22, sim_s=400, sim_n=160, pairs=["Pickle_pairs", "Pickle_pairs_opts"], workers=4, jobs=6),
    "thorough": dict(groups=6, slots=30, sim_s=1500, sim_n=800,
                     pairs=["Pickle_pairs", "Pickle_pairs_opts", "Pickle_hazard_nm", "Pickle_pairs_t1", "Pickle_pairs_t2", "Pickle_pairs_t3"],
                     workers=4, jobs=6),
}


def norm_family(rec):
    """TLC's JSON -> plain dicts (empty functions come out as [])"""
    for c in rec["cases"]:
        for f in ("pre", "exp"):
            if not isinstance(c[f], dict):
                c[f] = {}
        c["dexp"] = [list(x) for x in c["dexp"]]
    return rec


def fam_key(rec):
    return json.dumps([rec["layouts"], rec["vals"]], sort_keys=True)


def view_kinds(L, lvl):
    return sorted(set(L["mem"][x]["kind"] for x in lp.members(L, lvl)))


def edits(L1, L2):
    out = set()
    for x in lp.NAMES:
        a, b = L1["mem"].get(x), L2["mem"].get(x)
        if a is None or b is None:
            continue
        if a["lvl"] == -1 and b["lvl"] != -1:
            out.add("add")
        elif a["lvl"] != -1 and b["lvl"] == -1:
            out.add("del")
        elif a["lvl"] != -1:
            if a["kind"] != b["kind"]:
                out.add("kind")
            if a["lvl"] != b["lvl"]:
                out.add("move")
    for f in ("n", "dict", "cinit", "off", "force"):
        if L1[f] != L2[f]:
            out.add(f)
    return out


def features(rec):
    fs = set()
    Ls, vals = rec["layouts"], rec["vals"]
    for c in rec["cases"]:
        cross = c["i"] != c["j"]
        inst = vals[c["k"] - 1]
        fs.add(("case", cross, c["demand"], c["impl"]))
        L1, L2 = Ls[c["i"] - 1], Ls[c["j"] - 1]
        if cross and c["demand"] == "raise" and inst["lvl"] < L2["n"] and lp._picklable(L2, inst["lvl"]) \
                and len(lp.members(L1, inst["lvl"])) == len(lp.members(L2, inst["lvl"])) and lp.members(L1, inst["lvl"]):
            fs.add(("renamed-same-count",))
            k1 = sorted(L1["mem"][x]["kind"] for x in lp.members(L1, inst["lvl"]))
            k2 = sorted(L2["mem"][x]["kind"] for x in lp.members(L2, inst["lvl"]))
            if k1 == k2:
                fs.add(("renamed-same-kinds",))
        if cross and c["demand"] == "raise" and inst["d"] and lp.members(L1, inst["lvl"]) == lp.members(L2, inst["lvl"]):
            fs.add(("dict-nowhere",))
        if c["demand"] == "same" and not cross:
            fs.add(("same", "py", inst["py"]))
            fs.add(("same", "d", inst["d"]))
            fs.add(("same", "lvl", inst["lvl"]))
            for t in c["pre"].values():
                if t in ("self", "shl"):
                    fs.add(("same", "tag", t))
            for kd in view_kinds(L1, inst["lvl"]):
                fs.add(("same", "kind", kd))
        if c["demand"] == "TypeError":
            l = inst["lvl"]
            why = "ptr" if "ptr" in view_kinds(L1, l) else "cinit" if (L1["cinit"] != -1 and L1["cinit"] <= l) else \
                "off" if l < L1["off"] else "struct"
            fs.add(("TypeError", why))
            # the cause sits in a base class only (the generated code has to walk the chain)
            if why == "cinit":
                inh = L1["cinit"] < l
            elif why in ("ptr", "struct"):
                inh = all(L1["mem"][x]["lvl"] < l for x in lp.members(L1, l) if L1["mem"][x]["kind"] == why)
            else:
                inh = False
            if inh:
                fs.add(("TypeError", why, "inherited"))
    for a, b in zip(Ls, Ls[1:]):
        for e in edits(a, b):
            fs.add(("edit", e))
    for L in Ls:
        if L["force"] != -1 and "struct" in view_kinds(L, L["force"]):
            fs.add(("forced-struct",))
    return fs


def has_hazard(rec):
    return any(m["kind"] in lp.HAZARD_KINDS for L in rec["layouts"] for m in L["mem"].values())


def interest(rec):
    w = {"same": 1.0, "sameorraise": 2.0, "byname": 2.0, "raise": 0.5, "TypeError": 0.05}
    return sum(w.get(c["demand"], 0) * (2 if c["i"] != c["j"] else 1) for c in rec["cases"])


def select(pool, n, rng):
    """greedy cover of case / edit features, then by interest; at most a third of the slots with hazard kinds"""
    pool = list(pool)
    rng.shuffle(pool)
    feats = [features(r) for r in pool]
    haz = [has_hazard(r) for r in pool]
    chosen, covered, nh = [], collections.Counter(), 0
    avail = set(range(len(pool)))
    while len(chosen) < n and avail:
        best, bs = None, None
        for i in avail:
            if haz[i] and nh >= n // 3:
                continue
            gain = sum(1.0 / (1 + covered[f]) ** 2 for f in feats[i])
            sc = gain + 0.02 * interest(pool[i])
            if bs is None or sc > bs:
                best, bs = i, sc
        if best is None:
            break
        avail.discard(best)
        chosen.append(pool[best])
        nh += haz[best]
        for f in feats[best]:
            covered[f] += 1
    return chosen, covered


class Child(object):
    """runs lib_pickle_child.py, restarting after crashes; collects observations by step id"""

    def __init__(self, mode, plan_path, ver, moddir, wd):
        self.mode, self.plan_path, self.ver, self.moddir, self.wd = mode, plan_path, ver, moddir, wd
        self.obs = {}
        self.pre = {}
        self.crashes = 0
        self.noblob = []

    def run(self):
        skip, done = [], []
        skipf = os.path.join(self.wd, "skip_%s_%d.json" % (self.mode, self.ver))
        donef = os.path.join(self.wd, "done_%s_%d.json" % (self.mode, self.ver))
        for attempt in range(40):
            with open(skipf, "w") as f:
                json.dump(skip, f)
            with open(donef, "w") as f:
                json.dump(done, f)
            ch = core.run_child(CHILD, [self.mode, self.plan_path, str(self.ver), self.moddir or "-", self.wd, skipf],
                                timeout=900, mem_mb=8192)
            open_id, ended = None, False
            for rec in ch.json_lines():
                ev = rec.get("ev")
                if ev == "begin":
                    open_id = rec["id"]
                elif ev == "obs":
                    self.obs[json.dumps(rec["id"])] = rec["obs"]
                    open_id = None
                elif ev == "pre":
                    self.pre[(rec["s"], rec["k"], rec["ver"])] = rec["obs"]
                elif ev == "item_done":
                    done.append(rec["iid"])
                elif ev == "noblob":
                    self.noblob.append(rec)
                elif ev == "end":
                    ended = True
            if ended and ch.rc == 0:
                return
            if open_id is None or not (ch.crashed or ch.timed_out):
                core.die("C29 child (%s, version %d) failed (not a crash of the code under test): rc=%s step=%s %s"
                         % (self.mode, self.ver, ch.rc, open_id, ch.err[-2000:]))
            self.crashes += 1
            self.obs[json.dumps(open_id)] = {"timeout": True} if ch.timed_out else {"crash": ch.signal or ch.rc}
            core.CRASH_LOGS.append({"call": open_id, "stderr": ch.err[-1500:]})
            skip.append(open_id)
        core.die("C29 child (%s, version %d): too many restarts" % (self.mode, self.ver))


def run(tier, seed):
    t0 = time.time()
    T = TIERS[tier]
    rng = random.Random(seed)
    rep = core.Reporter(PROP)
    cov = {"tlc": []}
    W = T["workers"]
    bg = concurrent.futures.ThreadPoolExecutor(max_workers=2)
    futs = {}
    for cfg in T["pairs"]:
        futs[cfg] = bg.submit(core.tlc, "Pickle", cfg=cfg, workers=W, timeout=3000)
    for cfg in ("Pickle_hazard", "Pickle_mutant"):
        futs[cfg] = bg.submit(core.tlc, "Pickle", cfg=cfg, workers=2, timeout=900)

    # ---- histories: exhaustive single edits from the seeds + simulated 3-version histories over all kinds
    t_core = core.tlc_or_die("Pickle", cfg="Pickle_core", workers=W, coverage=True, timeout=900)
    import re
    actcov = {}
    for m in re.finditer(r"^<(\w+) line \d+, col \d+ to line \d+, col \d+ of module Pickle(?: \([\d ]+\))?>: (\d+):(\d+)", t_core.out, re.M):
        a = actcov.setdefault(m.group(1), [0, 0])
        a[0] += int(m.group(2))
        a[1] += int(m.group(3))
    for act in ("AddMember", "DelMember", "RenameMember", "ChangeKind", "MoveMember", "DropClass", "SetDict", "SetCinit",
                "SetOff", "SetForce", "Snap", "AddVal", "Finish"):
        if actcov.get(act, [0, 0])[1] == 0:
            core.die("vacuous model: action %s never taken in Pickle_core (%s)" % (act, actcov))
    cov["action_coverage"] = actcov
    cov["tlc"].append(dict(t_core.summary(), config="Pickle_core: every single edit from 4 seed layouts, 3 instances each; ImplMeetsDemand holds; published"))
    sim = core.tlc_simulate("Pickle", "Pickle_sim", seconds=T["sim_s"], depth=60, seed=seed, max_records=T["sim_n"], workers=W)
    if not sim.ok:
        sys.stderr.write(sim.out[-3000:])
        core.die("simulation: %s" % sim.violation)
    cov["tlc"].append({"config": "Pickle_sim: simulated 3-version edit histories, all kinds and options; PublishedMeet holds",
                       "histories": len(sim.printed), "wall_s": round(sim.wall, 1), "cmd": sim.cmd})
    pool, seen = [], set()
    for rec in t_core.printed + sim.printed:
        rec = norm_family(rec)
        k = fam_key(rec)
        if k not in seen and rec["cases"]:
            seen.add(k)
            pool.append(rec)
    nslots = T["groups"] * T["slots"]
    if len(pool) < nslots // 2:
        core.die("only %d histories published" % len(pool))
    # the exhaustive single-edit histories first (a stable core), the rest from the simulation
    core_pool = [r for r in pool if len(r["layouts"]) == 2]
    sim_pool = [r for r in pool if len(r["layouts"]) == 3]
    n_core = min(len(core_pool), nslots // 3)
    chosen_core, _ = select(core_pool, n_core, rng)
    chosen_sim, _ = select(sim_pool, nslots - len(chosen_core), rng)
    chosen = chosen_core + chosen_sim
    rng.shuffle(chosen)
    covered = collections.Counter()
    for r in chosen:
        for f in features(r):
            covered[f] += 1
    NEED = (("renamed-same-kinds",), ("case", True, "same", "ok"), ("case", True, "sameorraise", "ok"), ("case", True, "byname", "ok"), ("case", False, "same", "ok"),
                 ("case", False, "TypeError", "TypeError"), ("case", True, "raise", "raise"), ("TypeError", "ptr"), ("TypeError", "struct"),
                 ("TypeError", "cinit"), ("TypeError", "off"), ("forced-struct",), ("same", "py", True), ("same", "d", 2),
            ("same", "tag", "self"), ("same", "tag", "shl"), ("dict-nowhere",), ("same", "lvl", 1),
            ("TypeError", "cinit", "inherited"), ("TypeError", "ptr", "inherited"), ("TypeError", "struct", "inherited"))
    # every class of case the check relies on occurs in the exhaustive single-edit histories: top up if the greedy cover missed one
    for need in NEED:
        if not covered[need]:
            extra = [r for r in core_pool if need in features(r) and r not in chosen]
            if not extra:
                core.die("vacuous model: no published history with %s (pool %d)" % (need, len(pool)))
            chosen.append(extra[0])
            for f in features(extra[0]):
                covered[f] += 1
    cov["selected_features"] = {json.dumps(k): v for k, v in sorted(covered.items(), key=repr)}

    # ---- S vs P on the published cases: demand, identity transformation, Meets on everything the model calls hazard-free
    ncases = 0
    for fi, rec in enumerate(chosen):
        for c in rec["cases"]:
            ncases += 1
            L1, L2, inst = rec["layouts"][c["i"] - 1], rec["layouts"][c["j"] - 1], rec["vals"][c["k"] - 1]
            pd = lp.py_demand(L1, L2, inst)
            if pd != c["demand"]:
                rep.spec_drift("Demand vs independent statement", {"case": c, "python": pd, "L1": L1, "L2": L2, "inst": inst})
            if c["demand"] in ("same", "sameorraise"):
                want = {x: lp.py_xform(c["op"], t) for x, t in c["pre"].items()}
                if want != c["exp"]:
                    rep.spec_drift("XformRef vs independent statement", {"case": c, "python": want})
            meets = {"TypeError": ("TypeError",), "raise": ("raise",), "same": ("ok",), "sameorraise": ("ok", "raise"),
                     "byname": ("ok", "raise")}[c["demand"]]
            if c["impl"] not in meets and c["impl"] not in ("carr", "dangling"):
                rep.spec_drift("published case where the model misses the demand without predicting a hazard", {"case": c})

    # ---- modules: group g, version v -> directory g<g>/v<v>/c29m
    wd = core.subdir("c29")
    per = -(-len(chosen) // T["groups"])
    groups = [chosen[g * per:(g + 1) * per] for g in range(T["groups"])]
    groups = [g for g in groups if g]
    plans, specs = [], []
    for g, fams in enumerate(groups):
        gd = os.path.join(wd, "g%d" % g)
        os.makedirs(os.path.join(gd, "py"), exist_ok=True)
        slots = []
        for s, rec in enumerate(fams):
            key = "%d/%d/%d" % (seed, g, s)
            items = []
            todo_same, todo_cross = {}, {}
            for c in rec["cases"]:
                inst = rec["vals"][c["k"] - 1]
                if c["i"] == c["j"]:
                    todo_same[(c["i"] - 1, c["k"])] = c["pre"]
                elif c["demand"] in ("raise", "same", "sameorraise", "byname"):
                    todo_cross[(c["i"] - 1, c["j"] - 1, c["k"])] = c["demand"] == "byname"
            for (v, k), pre in sorted(todo_same.items()):
                inst = rec["vals"][k - 1]
                items.append({"ver": v, "k": k, "lvl": inst["lvl"], "py": inst["py"], "d": inst["d"], "pre": pre})
            for (i, j, k), byname in sorted(todo_cross.items()):
                inst = rec["vals"][k - 1]
                items.append({"ver": j, "src": i, "k": k, "lvl": inst["lvl"], "py": inst["py"], "d": inst["d"], "byname": byname})
            slots.append({"s": s, "key": key, "layouts": rec["layouts"], "vals": rec["vals"], "items": items})
        pf = os.path.join(gd, "plan.json")
        with open(pf, "w") as f:
            json.dump({"slots": slots}, f)
        with open(os.path.join(gd, "py", "c29py.py"), "w") as f:
            f.write(lp.render_pysub([(sl["s"], sl["key"], sl["layouts"]) for sl in slots]))
        plans.append((gd, pf, slots))
        for v in range(3):
            src = lp.render_module([(sl["s"], sl["key"], sl["layouts"]) for sl in slots], v)
            specs.append((g, v, core.BuildSpec("c29m", src), os.path.join(gd, "v%d" % v)))
    for _, _, _, d in specs:
        os.makedirs(d, exist_ok=True)
    with concurrent.futures.ThreadPoolExecutor(max_workers=T["jobs"]) as ex:
        builds = list(ex.map(lambda t: core.build_one(t[2], t[3], 1800), specs))
    built = {}
    for (g, v, spec, d), b in zip(specs, builds):
        if not b.ok:
            rep.disagree({"kind": "build", "stage": b.stage}, "build-failed", {"group": g, "version": v, "errors": b.errors[-3000:]})
        else:
            built[(g, v)] = os.path.dirname(b.so)
    cov["builds"] = {"modules": len(specs), "ok": len(built), "cython_s": round(sum(getattr(b, "cython_s", 0) or 0 for b in builds), 1),
                     "cc_s": round(sum(getattr(b, "cc_s", 0) or 0 for b in builds), 1)}

    # ---- children: P twins, then dump per version, then load per version
    def run_group(g):
        gd, pf, slots = plans[g]
        res = {"python": Child("python", pf, -1, None, gd)}
        res["python"].run()
        for v in range(3):
            if (g, v) in built:
                c = Child("dump", pf, v, built[(g, v)], gd)
                c.run()
                res[("dump", v)] = c
        for v in range(3):
            if (g, v) in built:
                c = Child("load", pf, v, built[(g, v)], gd)
                c.run()
                res[("load", v)] = c
        return res

    with concurrent.futures.ThreadPoolExecutor(max_workers=min(len(plans), T["jobs"])) as ex:
        results = list(ex.map(run_group, range(len(plans))))

    # ---- verdicts
    stats = collections.Counter()
    nontrivial = set()
    judged_ok = []          # (demand, exp_fields, exp_dict, obs) of accepted observations, for the binding demonstration
    samples = []
    for g, (gd, pf, slots) in enumerate(plans):
        res = results[g]
        for sl, rec in zip(slots, groups[g]):
            s, key = sl["s"], sl["key"]
            for c in rec["cases"]:
                i, j, k = c["i"] - 1, c["j"] - 1, c["k"]
                L1, L2, inst = rec["layouts"][i], rec["layouts"][j], rec["vals"][k - 1]
                lvl = inst["lvl"]
                cross = i != j
                if (g, i) not in built or (g, j) not in built:
                    stats["skipped-unbuilt"] += 1
                    continue
                if cross and c["demand"] == "TypeError":
                    continue        # the dump fails in version i: judged there
                exp_fields = exp_dict = None
                if c["demand"] in ("same", "sameorraise"):
                    exp_fields = {x: lp.tag_enc(lp.variant(key, x, L1["mem"][x]["kind"]), t) for x, t in c["exp"].items()}
                    exp_dict = {kk: lp.dict_tag_enc(t) for kk, t in c["dexp"]}
                if not cross:
                    pre = res[("dump", i)].pre.get((s, k, i))
                    want_pre = {x: lp.tag_enc(lp.variant(key, x, L1["mem"][x]["kind"]), t) for x, t in c["pre"].items()
                                if L1["mem"][x]["kind"] != "ptr"}
                    if pre is not None and pre["fields"] != want_pre and c["op"] == "copy":
                        rep.spec_drift("attribute read-back differs from the value that was stored (not a pickling matter)",
                                       {"slot": key, "layout": L1, "got": pre["fields"], "want": want_pre})
                if cross:
                    ids = [("load", j, [s, k, j, "xload", i, p], p) for p in range(6)]
                elif c["alg"] != 1:
                    ids = [("dump", i, [s, k, i, "legacy", c["alg"]], None)]
                elif c["op"] == "pickle":
                    ids = [("dump", i, [s, k, i, "pickle", p], p) for p in range(6)]
                else:
                    ids = [("dump", i, [s, k, i, c["op"], 0], None)]
                hz = sorted(set(L1["mem"][x]["kind"] for x in lp.members(L1, lvl)) & set(lp.HAZARD_KINDS))
                desc = {"demand": c["demand"], "impl": c["impl"], "op": "legacy" if c["alg"] != 1 else c["op"], "cross": cross,
                        "hazard": hz, "py": inst["py"], "dict": inst["d"] != 0}
                for (cm, cv, sid, proto) in ids:
                    obs = res[(cm, cv)].obs.get(json.dumps(sid))
                    if obs is None:
                        stats["no-observation"] += 1
                        continue
                    if "digest_scheme" in obs:
                        rep.spec_drift("digest of the member names is not sha256(' '.join(names))[:7]", {"obs": obs, "slot": key})
                        continue
                    if "digest_unavailable" in obs or ("not_cython_reduce" in obs and c["demand"] == "TypeError"):
                        stats["legacy-not-applicable"] += 1
                        continue
                    if "not_cython_reduce" in obs:
                        obs = {"dump_exc": "no-cython-reduce"}
                    stats["evaluations"] += 1
                    # P: the pure-Python twin under stock pickle / copy must satisfy the same expectation
                    if not cross and c["demand"] == "same" and c["alg"] == 1:
                        pobs = res["python"].obs.get(json.dumps(sid))
                        if pobs is None or lp.judge("same", exp_fields, exp_dict, pobs) is not None:
                            rep.spec_drift("pure-Python twin disagrees with the spec's expectation",
                                           {"case": c, "twin": pobs, "exp": exp_fields, "dexp": exp_dict})
                            continue
                    bad = lp.judge(c["demand"], exp_fields, exp_dict, obs)
                    stats["demand:" + c["demand"]] += 1
                    if c["demand"] != "TypeError" and lp.members(L1, lvl):
                        nontrivial.add((g, s, i, j, k, desc["op"]))
                    if bad is None:
                        if c["impl"] in ("carr", "dangling"):
                            stats["hazard-predicted-not-observed"] += 1
                        if c["impl"] == "ok" and "load_exc" in obs and "exc" not in (obs.get("byname") or {}):
                            stats["refused-where-the-model-loads"] += 1      # allowed by the property (changed layout)
                        if len(judged_ok) < 4000:
                            judged_ok.append((c["demand"], exp_fields, exp_dict, obs))
                        if len(samples) < 6 and c["demand"] in ("same", "sameorraise", "raise", "byname") and rng.random() < 0.02:
                            samples.append({"layout_dump": L1, "layout_load": L2, "instance": inst, "op": desc["op"], "protocol": proto,
                                            "demand": c["demand"], "observed": {kk: vv for kk, vv in obs.items() if kk != "byname"}})
                        continue
                    stats["disagree:" + bad] += 1
                    rep.disagree(desc, bad, {"slot": key, "names": lp.name_scheme(key), "layout_dump": L1, "layout_load": L2, "instance": inst,
                                             "decls": {x: lp.variant(key, x, L1["mem"][x]["kind"])[0] for x in lp.members(L1, lvl)},
                                             "pre": c["pre"], "protocol": proto, "expected": exp_fields, "expected_dict": exp_dict,
                                             "observed": obs, "model_predicts": c["impl"]})
        for cm, ch in res.items():
            stats["child-crashes"] += ch.crashes

    # ---- binding demonstration: corrupted expectations must be rejected
    demo = {"corrupted": 0, "rejected": 0}
    for demand, ef, ed, obs in judged_ok:
        if demo["corrupted"] >= 300:
            break
        if demand == "same" and ef and len(ef) >= 2:
            xs = sorted(ef)
            if ef[xs[0]] != ef[xs[1]]:
                ef2 = dict(ef)
                ef2[xs[0]], ef2[xs[1]] = ef[xs[1]], ef[xs[0]]      # two fields swapped
                demo["corrupted"] += 1
                demo["rejected"] += lp.judge("same", ef2, ed, obs) is not None
        if demand == "same":
            demo["corrupted"] += 2
            demo["rejected"] += lp.judge("raise", None, None, obs) is not None
            demo["rejected"] += lp.judge("TypeError", None, None, obs) is not None
        elif demand == "raise":
            demo["corrupted"] += 1
            demo["rejected"] += lp.judge("same", {}, {}, obs) is not None
        elif demand == "TypeError":
            demo["corrupted"] += 1
            demo["rejected"] += lp.judge("same", {}, {}, obs) is not None
    if demo["corrupted"] == 0 or demo["rejected"] != demo["corrupted"]:
        core.die("binding demonstration failed: %s" % demo)
    cov["binding_demonstration"] = demo

    # ---- the exhaustive TLC runs
    states = t_core.generated
    distinct = t_core.distinct
    for cfg, fu in futs.items():
        r = fu.result()
        if cfg == "Pickle_hazard":
            if r.violation != "ImplMeetsDemand":
                sys.stderr.write(r.out[-2000:])
                core.die("Pickle_hazard: expected ImplMeetsDemand to be refuted (char* / char[N] members), got %s" % (r.violation or "no violation"))
            cov["tlc"].append(dict(r.summary(), config="Pickle_hazard (char*, char[N] members): ImplMeetsDemand refuted, as expected"))
        elif cfg == "Pickle_mutant":
            if r.violation != "NoMisassign":
                sys.stderr.write(r.out[-2000:])
                core.die("Pickle_mutant: a digest over the NUMBER of names must be refuted, got %s" % (r.violation or "no violation"))
            cov["tlc"].append(dict(r.summary(), config="Pickle_mutant (digest = number of names): NoMisassign refuted, as expected"))
        else:
            if not r.ok:
                sys.stderr.write(r.out[-3000:])
                core.die("TLC %s failed: %s" % (cfg, r.violation or r.rc))
            cov["tlc"].append(dict(r.summary(), config=cfg + ": holds"))
            states += r.generated
            distinct += r.distinct
    bg.shutdown()

    cov.update({
        "states": states, "distinct_states": distinct, "transitions": states,
        "traces_validated_against_impl": len(chosen), "published_cases": ncases,
        "evaluations": stats["evaluations"], "distinct_nontrivial": len(nontrivial),
        "histories_pool": len(pool), "histories_core": len(core_pool), "histories_simulated": len(sim_pool),
        "stats": dict(stats),
        "rule": "slots = selected histories (exhaustive single-edit histories from 4 seeds + simulated 3-version histories over 9 member "
                "kinds, chain length <= 3, __dict__/__cinit__/auto_pickle options, Python subclass instances); per slot and instance: "
                "pickle protocols 0-5, copy, deepcopy, sha1/md5-digest data in the dumping version, protocols 0-5 for every ordered pair of "
                "different versions (dump and load in different processes); non-trivial = demand is not TypeError and the class has members",
        "samples": samples[:6],
    })
    rc = rep.finish()
    cov["known_findings"] = rep.kf_summary()
    core.write_evidence(PROP, tier, seed, "model_checking", cov, time.time() - t0,
                        assumptions=["the 28-bit digests of different name tuples do not collide (abstracted by the tuple itself in the spec)",
                                     "ordinary attribute assignment is the reference for loading into a member whose kind changed",
                                     "instances always have every char* member set (a NULL char* cannot be converted at all)",
                                     "classes under @auto_pickle(False) are only judged when they have C members (CPython then refuses to pickle them)"],
                        violations=rep.n_violations())
    return rc
