"""C19 -- comparisons and membership tests match CPython.

spec/Compare.tla: six families of cases, each a TLC behaviour whose final state carries the expected
observation: comparison chains (left-to-right, at most once, stop at the first link that is not true,
value of the last link), pairs over a wide value table, membership in tuple/list/set/dict displays
(hash, then identity-or-equality; FlattenInListTransform transcribed next to it), membership in
str/bytes literals, if/elif chains with SwitchTransform transcribed (keys of has_duplicate_values vs.
the C values of the labels), and boolean combinations (and / or / not) of == / != / in / not in tests of
one C-integer subject as expression, conditional expression, while test and if/elif conditions, with
SwitchTransform.extract_conditions transcribed (SwitchSound: a switch has the truth table of the
expression it replaces, over the whole 8-bit image of the subject type).
Binding B1: every published case is executed three ways -- S (TLC), P (CPython on the same source
without the C declarations), C (module compiled from the snapshot; operands typed object / int /
double / str / bytes, subjects int / long / unsigned char / signed char / unsigned int / enum / Py_UCS4 /
object, value and boolean contexts, optimize.use_switch on and off).  S != P is spec drift (exit 2),
C != S a violation.  B3 (reported only): which generated functions really contain a C switch.
"""
import concurrent.futures
import json
import os
import random
import time

import calls
import core
import lib_compare as lc

PROP = "C19"
MODSIZE = 300


def B(b):
    return "True" if b else "False"


def truthy(r):
    return r in ("True", "r2", "rx")


def expected_obs(shape, rec):
    """S: what the driver must report for this case (result token + '|' + log digits)"""
    out = rec["out"]
    if shape["ctx"] == "bool" and not out.startswith("E:"):
        out = B(truthy(out))
    if shape["part"] == "strin":
        return out
    if shape["part"] == "pair":
        return out + "|"
    log = "".join(str(i) for i in range(rec["n"])) if shape["form"] == "leaf" else ""
    return out + "|" + log


def case_args(shape, rec):
    if shape["part"] == "chain":
        return rec["vals"]
    if shape["part"] == "pair":
        return [rec["a"], rec["b"]]
    if shape["part"] == "member":
        return [rec["x"]] + (rec["ms"] if shape["form"] != "lit" else [])
    return rec["x"]


def obs_class(want, got):
    if not isinstance(got, str):
        return "crash"
    if got.startswith("CRASH") or got == "TIMEOUT":
        return "crash"
    w, g = want.split("|")[0], got.split("|")[0]
    if w.startswith("E:") and g.startswith("E:"):
        return "wrong-exception"
    if w.startswith("E:"):
        return "value-instead-of-exception"
    if g.startswith("E:"):
        return "exception-instead-of-value"
    return "wrong-value"


def compare(shape, rec, want, got):
    """-> list of (aspect, obs_class) in which the compiled code differs from the expectation"""
    if not isinstance(got, str) or got.startswith("CRASH") or got == "TIMEOUT":
        return [("result", "crash")]
    wr, _, wl = want.partition("|")
    gr, _, gl = got.partition("|")
    out = []
    # a chain that went on past the link that should have ended it: its result and log are consequences
    continued = shape["part"] == "chain" and gl.startswith(wl) and len(gl) > len(wl)
    if wr != gr:
        oc = obs_class(wr, gr)
        impl = rec.get("impl")
        if impl is not None and rec.get("hz") and gr == impl:
            oc = "as-flatten-model" if shape["part"] == "member" else "as-char-model"
        elif continued:
            oc = "result-of-continued-chain"
        out.append(("result", oc))
    if wl != gl:
        oc = "wrong-log"
        if shape["part"] == "member" and shape["form"] == "leaf" and gl == "".join(map(str, list(range(1, rec["n"])) + [0])):
            oc = "members-before-x"
        elif continued:
            oc = "continued-past-raising-link" if wr.startswith("E:") else "continued-past-false-link"
        out.append(("log", oc))
    return out


def pclass(tok):
    """class of a value token of the pair family"""
    if tok in ("N", "W", "nan", "T", "Fa"):
        return tok
    return {"i": "int", "m": "int", "n": "int", "f": "float", "s": "str", "b": "bytes", "B": "bytearray"}[tok[0]]


def descriptor(shape, rec):
    p = shape["part"]
    if p == "pair":
        return {"part": "pair", "op": shape["op"], "ty": shape["ty"], "ctx": shape["ctx"], "expected": rec["out"],
                "a_class": pclass(rec["a"]), "b_class": pclass(rec["b"]),
                "both_empty_bytes": rec["a"] in ("b_", "B_") and rec["b"] in ("b_", "B_")}
    if p == "chain":
        n = rec["n"]           # operands evaluated: the deciding link is n - 1
        op = shape["ops"][n - 2]
        return {"part": "chain", "nops": len(shape["ops"]), "ops": ",".join(shape["ops"]), "ty": shape["ty"], "ctx": shape["ctx"],
                "form": shape["form"], "expected": rec["out"], "deciding_op": op,
                "cint_in_bytes": op in ("in", "notin") and shape["ty"][n - 2] == "i" and shape["ty"][n - 1] == "y",
                "in_first_c_later": lc.chain_suspect(shape)}
    if p == "member":
        return {"part": "member", "kind": shape["kind"], "neg": shape["neg"], "form": shape["form"], "xty": shape["xty"], "ctx": shape["ctx"],
                "n": len(shape["mdoms"]), "hz": rec["hz"], "why": rec["why"], "expected": rec["out"]}
    return {"part": "strin", "kind": shape["kind"], "neg": shape["neg"], "xty": shape["xty"], "ctx": shape["ctx"], "cint": shape["cint"],
            "hz": rec["hz"], "expected": rec["out"], "xkind": rec["x"]["k"],
            "highbyte": rec["x"]["k"] == "int" and rec["x"]["v"] >= 128 and rec["x"]["v"] in shape["cs"] and len(set(shape["cs"])) >= 2}


def bool_counts(quick):
    """number of cases Compare.tla's InitBool enumerates per family (N2, N3, N4, NS, NB as in the spec)"""
    n2, n3, n4, ns, nb = (10, 5, 4, 7, 3) if quick else (17, 9, 6, 12, 6)
    e2 = 5 * 2 * n2 * n2
    simple = ns + 2 * nb * nb
    return e2 + 16 * n3 ** 3 + 8 * n4 ** 4 + e2 + simple ** 2 + (0 if quick else (5 + 2 * 9) ** 3)


def bool_class(c):
    return "%s.%s.%s%s%s" % (c["ctx"], "top" if c["top"] else ("inner" if c["any"] else "none"), len(c["conds"]),
                             ".hz" if c["hz"]["s"] else "", ".raises" if c["rz"]["s"] else "")


def bool_pick(cases, n, rng):
    """stratified sample: every class (where the model builds switches, predicted hazard, raising subjects) is represented"""
    buckets = {}
    for c in cases:
        buckets.setdefault(bool_class(c), []).append(c)
    floor = max(2, n // (2 * max(1, len(buckets))))
    pick, rest = [], []
    for key in sorted(buckets):
        b = buckets[key]
        rng.shuffle(b)
        pick += b[:floor]
        rest += b[floor:]
    if len(pick) < n:
        pick += rng.sample(rest, min(len(rest), n - len(pick)))
    return pick


def bool_expect(f):
    """S: expected observation for every value of the subject image; and what the transcribed transform predicts"""
    c = f["case"]
    dom = lc.bool_dom(c["fam"])
    tok = lc.bool_tokens(f["rctx"], f["els"])
    rz = lc.iv_set(c["rz"])
    sel = lc.bool_rows(c["rows"], dom)
    f["dom"], f["rz"], f["hzset"] = dom, rz, lc.iv_set(c["hz"])
    f["exp"] = ["E:ValueError" if x in rz else tok(sel[x]) for x in dom]
    for mode in ("on", "off"):
        isel = lc.bool_rows(c[mode], dom)
        f["impl_" + mode] = [tok(isel[x]) for x in dom]


def modules_of(funcs, prefix):
    """funcs: list of (name, pyx) -> list of (modname, [names], source)"""
    mods = []
    for i in range(0, len(funcs), MODSIZE):
        chunk = funcs[i:i + MODSIZE]
        mods.append((prefix + str(i // MODSIZE), [n for n, _ in chunk], lc.HEADER_PYX + "\n".join(s for _, s in chunk)))
    return mods


def run_module(build, calltable):
    return calls.run_calls(build, calltable, prelude=lc.PRELUDE, timeout=2400, tag="c19")


def run(tier, seed):
    t0 = time.time()
    rng = random.Random(seed)
    rep = core.Reporter(PROP)
    wd = core.subdir("c19")
    cov = {"tlc": []}
    quick = tier == "quick"
    timing = {}

    def mark(what):
        timing[what] = round(time.time() - t0, 1)

    # ------------------------------------------------------------------ shapes
    shapes = {"chain": lc.chain_shapes(tier, rng), "pair": lc.pair_shapes(tier, rng), "member": lc.member_shapes(tier, rng), "strin": lc.strin_shapes(tier, rng)}
    allrecs = []
    for part, sh in shapes.items():
        for i, s in enumerate(sh):
            s["id"] = i
            s["name"] = part[0] + str(i)
            if part == "chain":
                allrecs.append({"part": part, "id": i, "ops": s["ops"], "doms": s["doms"]})
            elif part == "pair":
                allrecs.append({"part": part, "id": i, "op": s["op"], "adom": s["adom"], "bdom": s["bdom"]})
            elif part == "member":
                allrecs.append({"part": part, "id": i, "kind": s["kind"], "neg": s["neg"], "xdom": s["xdom"], "mdoms": s["mdoms"]})
            else:
                allrecs.append({"part": part, "id": i, "kind": s["kind"], "neg": s["neg"], "xdom": s["xdom"], "cs": s["cs"], "cint": s["cint"], "sty": s["sty"]})
    files = {"shapes": os.path.join(wd, "shapes.ndjson"), "strict": os.path.join(wd, "shapes_strict.ndjson")}
    core.write_ndjson(files["shapes"], allrecs)
    # a small input for the strict configurations (which TLC must refute; thorough tier)
    core.write_ndjson(files["strict"], [{"part": "member", "id": 0, "kind": k, "neg": False, "xdom": lc.XM, "mdoms": [lc.MM]} for k in ("tuple", "set")] +
                      [{"part": "strin", "id": 0, "kind": "bytes", "neg": False, "cs": [97], "cint": True, "sty": "int", "xdom": [lc.xrec("int", v=v) for v in (97, 353)]}])

    def ncases(part, s):
        n = 1
        for d in (s["doms"] if part == "chain" else [s["adom"], s["bdom"]] if part == "pair" else ([s["xdom"]] + s.get("mdoms", []))):
            n *= len(d)
        return n
    want_cases = {part: sum(ncases(part, s) for s in sh) for part, sh in shapes.items()}

    # render chain / member / strin functions (they do not depend on TLC's output)
    funcs, pysrc, suspects = [], [lc.HEADER_PY], []
    render = {"chain": lc.render_chain, "pair": lc.render_pair, "member": lc.render_member, "strin": lc.render_strin}
    for part, sh in shapes.items():
        for s in sh:
            pyx, py = render[part](s, s["name"])
            pysrc.append(py)
            if part == "chain" and lc.chain_suspect(s):
                suspects.append((s["name"], pyx))
            else:
                funcs.append((s["name"], pyx))
    rng.shuffle(funcs)
    cms_mods = modules_of(funcs, "c19a")
    # shapes of the known code-generation defect: one module each (a sample), so that they cannot take others down
    n_suspects = len(suspects)
    suspects = rng.sample(suspects, min(len(suspects), 12 if quick else 40))
    sus_mods = [("c19x%d" % i, [n], lc.HEADER_PYX + src) for i, (n, src) in enumerate(suspects)]
    cms_mods = cms_mods + sus_mods

    ex = concurrent.futures.ThreadPoolExecutor(max_workers=12)
    tl_timeout = 5400 if quick else 14400

    def tlc_part(part, cfg, workers, shapes_file=None, delay=0.0):
        time.sleep(delay)
        r = tlc_run(cfg, workers, shapes_file)
        mark("tlc_" + cfg)
        return r

    def tlc_run(cfg, workers, shapes_file):
        return core.tlc("Compare", cfg=cfg, workers=workers, env={"SHAPES": shapes_file or ""}, timeout=tl_timeout,
                        heap=None if quick else "12g")
    fut = {"switch": ex.submit(tlc_part, "switch", "Compare_switch3" if quick else "Compare_switch4", 4),
           "bool": ex.submit(tlc_part, "bool", "Compare_bool_q" if quick else "Compare_bool_t", 6, None, 0.1),
           "shapes": ex.submit(tlc_part, "shapes", "Compare_shapes", max(4, core.NCPU - 8), files["shapes"], 0.2)}
    # invariants that TLC must refute: the model exhibits the open deviations (set display not hashed, no ValueError for
    # a C integer outside range(256), negative label on an unsigned subject), and SwitchSound does not hold for the
    # transcription of extract_conditions as it was before e6ec21370
    strict = {"flatten": "FlattenStrict", "strin": "StrinStrict", "wrap": "BoolStrict", "andmerge": "SwitchSound"}
    if not quick:
        for i, key in enumerate(strict):
            fut["strict_" + key] = ex.submit(tlc_part, "strict", "Compare_strict_" + key, 1 if key in ("flatten", "strin") else 2,
                                             files["strict"], 0.4 + i / 10.0)
    fbuild_cms = ex.submit(core.build_many, [core.BuildSpec(n, src, cc="clang") for n, _, src in cms_mods], os.path.join(wd, "b_cms"), 8, 6000)

    # ------------------------------------------------------------------ switch family: TLC first, then render
    r = fut["switch"].result()
    if not r.ok:
        core.die("TLC Compare/switch failed: %s\n%s" % (r.violation or r.rc, r.out[-3000:]))
    cov["tlc"].append(dict(r.summary(), config="switch"))
    swcases = r.printed
    nsw_want = 2 * 2 * sum(16 ** n for n in range(1, (3 if quick else 4) + 1))
    if len(swcases) != nsw_want:
        core.die("Compare/switch published %d cases, expected %d" % (len(swcases), nsw_want))
    if any(c["hz"] for c in swcases):
        core.die("Compare/switch: the model predicts a chain that is not a C program")
    # chains in which an `==` arm and an `in b".."` arm share a value (they used to become switches with duplicate
    # labels, 079bc99c5) go into modules of their own: a regression must not take the other functions down
    by_fam = {"bytes": [c for c in swcases if c["fam"] == "bytes" and not c["mix"]], "ustr": [c for c in swcases if c["fam"] == "ustr"]}
    hazards = [c for c in swcases if c["mix"]]
    per_typing = 50 if quick else 300
    swfuncs = []    # dicts: name, case, typing, kind ('chain'|'expr'), neg, ectx, pyx, py
    k = 0
    for fam, typings in lc.SW_TYPINGS.items():
        for typing in typings:
            pool = by_fam[fam] if typing != "enum" else [c for c in by_fam[fam] if all(a["f"] == "eq" for a in c["arms"])]
            # every chain length is represented; longer chains dominate the pool anyway
            short = [c for c in pool if len(c["arms"]) <= 2]
            pick = rng.sample(short, per_typing // 3) + rng.sample(pool, per_typing - per_typing // 3)
            for c in pick:
                name = "w%d" % k
                k += 1
                pyx, py = lc.render_switch(c, typing, name, random.Random("%s/%s" % (seed, name)))
                swfuncs.append({"name": name, "case": c, "typing": typing, "kind": "chain", "pyx": pyx, "py": py})
            singles = [c for c in pool if len(c["arms"]) == 1 and c["els"]]
            for c in singles:
                for neg in (False, True):
                    ectx = ("cond", "val")[(k + neg) % 2] if quick else None
                    for ec in ([ectx] if ectx else ["cond", "val"]):
                        name = "w%d" % k
                        k += 1
                        pyx, py = lc.render_swexpr(c, typing, name, random.Random("%s/%s" % (seed, name)), neg, ec)
                        swfuncs.append({"name": name, "case": c, "typing": typing, "kind": "expr", "neg": neg, "ectx": ec, "pyx": pyx, "py": py})
    # mixed chains: a sample together in one group of modules, some of them also in a module of their own
    hzfuncs = []
    hz_pick = rng.sample(hazards, min(len(hazards), 40 if quick else 240))
    n_own = 2 if quick else 8
    for i, c in enumerate(hz_pick):
        typing = ("int", "uchar", "long")[i % 3]
        name = "w%d" % k
        k += 1
        pyx, py = lc.render_switch(c, typing, name, random.Random("%s/%s" % (seed, name)))
        hzfuncs.append({"name": name, "case": c, "typing": typing, "kind": "chain", "pyx": pyx, "py": py, "hz": True})
    for f in swfuncs + hzfuncs:
        pysrc.append(f["py"])
    mark("switch_tlc_done")
    sw_mods = modules_of([(f["name"], f["pyx"]) for f in swfuncs], "c19s")
    # the same functions with optimize.use_switch=False; the hazard chains must work there
    nosw_mods = modules_of([(f["name"], f["pyx"]) for f in swfuncs + hzfuncs], "c19n")
    hz_mods = [("c19h%d" % i, [f["name"]], lc.HEADER_PYX + f["pyx"]) for i, f in enumerate(hzfuncs[:n_own])] + \
              modules_of([(f["name"], f["pyx"]) for f in hzfuncs[n_own:]], "c19m")
    specs = [core.BuildSpec(n, src, cc="clang") for n, _, src in sw_mods] + \
            [core.BuildSpec(n, src, cc="clang", directives={"optimize.use_switch": False}) for n, _, src in nosw_mods] + \
            [core.BuildSpec(n, src, cc="clang") for n, _, src in hz_mods]
    fbuild_sw = ex.submit(core.build_many, specs, os.path.join(wd, "b_sw"), 8, 6000)
    mark("switch_rendered")

    # ------------------------------------------------------------------ bool family: TLC, then pick and render
    r = fut["bool"].result()
    if not r.ok:
        core.die("TLC Compare/bool failed: %s\n%s" % (r.violation or r.rc, "\n".join(ln for ln in r.out.splitlines() if not ln.startswith('"@@'))[-3000:]))
    cov["tlc"].append(dict(r.summary(), config="bool"))
    bcases = r.printed
    r.out, r.printed = "", []
    if len(bcases) != 4 * bool_counts(quick):
        core.die("Compare/bool published %d cases, expected %d" % (len(bcases), 4 * bool_counts(quick)))
    bfuncs = []
    bk = 0
    n_expr, n_stmt = (110, 50) if quick else (400, 200)
    for fam, typings in lc.BOOL_TYPINGS.items():
        for typing in typings:
            pool = [c for c in bcases if c["fam"] == fam and not (typing == "enum" and lc.bool_has_str(c))]
            scale = 5 if typing == "obj" else 1
            for ctx, n in (("expr", n_expr // scale), ("stmt", n_stmt // scale)):
                for i, c in enumerate(bool_pick([c for c in pool if c["ctx"] == ctx], n, rng)):
                    name = "b%d" % bk
                    bk += 1
                    frng = random.Random("%s/%s" % (seed, name))
                    f = {"name": name, "case": c, "typing": typing, "rctx": lc.BOOL_CTX[ctx][i % len(lc.BOOL_CTX[ctx])], "els": frng.random() < 0.5}
                    f["pyx"], f["py"] = lc.render_bool(c, typing, f["rctx"], name, frng, f["els"])
                    bool_expect(f)
                    bfuncs.append(f)
    bool_classes = {}
    for c in bcases:
        for key in ("bool." + bool_class(c), "bool.fam." + c["fam"]):
            bool_classes[key] = bool_classes.get(key, 0) + 1
    n_bcases = len(bcases)
    del bcases
    for f in bfuncs:
        pysrc.append(f["py"])
    rng.shuffle(bfuncs)
    bon_mods = modules_of([(f["name"], f["pyx"]) for f in bfuncs], "c19b")
    boff_mods = modules_of([(f["name"], f["pyx"]) for f in bfuncs], "c19c")
    fbuild_bool = ex.submit(core.build_many, [core.BuildSpec(n, src, cc="clang") for n, _, src in bon_mods] +
                            [core.BuildSpec(n, src, cc="clang", directives={"optimize.use_switch": False}) for n, _, src in boff_mods],
                            os.path.join(wd, "b_bool"), 6, 6000)
    mark("bool_rendered")

    # ------------------------------------------------------------------ the other TLC runs
    r = fut["shapes"].result()
    if not r.ok:
        core.die("TLC Compare/shapes failed: %s\n%s" % (r.violation or r.rc, r.out[-3000:]))
    cov["tlc"].append(dict(r.summary(), config="shapes"))
    published = {"chain": [], "pair": [], "member": [], "strin": []}
    for rec in r.printed:
        published[{"c": "chain", "p": "pair", "m": "member", "s": "strin"}[rec["p"]]].append(rec)
    r.out, r.printed = "", []
    for part in published:
        if len(published[part]) != want_cases[part]:
            core.die("Compare/%s published %d cases, expected %d" % (part, len(published[part]), want_cases[part]))
    refuted = {}
    if not quick:
        for key, inv in strict.items():
            r = fut["strict_" + key].result()
            refuted[key] = r.violation
            if r.violation != inv:
                core.die("TLC was expected to refute %s (the model exhibits the known deviations); got %r\n%s" % (inv, r.violation, r.out[-2000:]))
    cov["strict_invariants_refuted_by_tlc"] = refuted or "thorough tier only; the published hazard counts show the same"

    # vacuity guard on the model: every class of case occurs
    classes = {}

    def cnt(key):
        classes[key] = classes.get(key, 0) + 1
    for rec in published["chain"]:
        s = shapes["chain"][rec["id"]]
        cnt("chain.out." + rec["out"])
        cnt("chain.stopped_early" if rec["n"] <= len(s["ops"]) else "chain.ran_to_end")
        cnt("chain.links%d" % len(s["ops"]))
    for rec in published["pair"]:
        cnt("pair.out." + rec["out"])
        cnt("pair.%s.%s" % tuple(sorted((pclass(rec["a"]), pclass(rec["b"])))))
    for rec in published["member"]:
        cnt("member.out." + rec["out"])
        cnt("member.why." + rec["why"])
        cnt("member.hz" if rec["hz"] else "member.nohz")
    for rec in published["strin"]:
        cnt("strin.out." + rec["out"])
        cnt("strin.hz" if rec["hz"] else "strin.nohz")
    for c in swcases:
        cnt("switch.%s.%s" % ("sw" if c["sw"] else "nosw", "hz" if c["hz"] else "ok"))
        cnt("switch.arms%d" % len(c["arms"]))
        if c["mix"]:
            cnt("switch.mix")
    classes.update(bool_classes)
    needed = ["chain.out." + o for o in ("True", "False", "r0", "r2", "re", "rx", "E:TypeError", "E:ValueError")] + \
             ["chain.stopped_early", "chain.ran_to_end", "chain.links1", "chain.links2", "chain.links3",
              "pair.out.True", "pair.out.False", "pair.out.E:TypeError", "pair.out.E:ValueError", "pair.out.r0", "pair.float.int", "pair.int.int",
              "pair.str.str", "pair.bytes.bytes", "pair.bytearray.bytes", "pair.float.nan", "pair.W.int",
              "member.out.True", "member.out.False", "member.out.E:TypeError", "member.why.identity", "member.why.unhashable", "member.why.none",
              "member.hz", "strin.out.True", "strin.out.False", "strin.out.E:TypeError", "strin.out.E:ValueError", "strin.hz",
              "switch.sw.ok", "switch.nosw.ok", "switch.mix", "switch.arms1", "switch.arms3",
              "bool.expr.top.1", "bool.expr.inner.1", "bool.expr.none.1", "bool.expr.top.1.hz", "bool.expr.inner.1.raises",
              "bool.stmt.top.1", "bool.stmt.top.2", "bool.stmt.inner.2", "bool.stmt.none.2", "bool.stmt.top.2.hz",
              "bool.fam.int", "bool.fam.uchar", "bool.fam.uint", "bool.fam.ucs4"]
    missing = [n for n in needed if not classes.get(n)]
    if missing:
        core.die("vacuous model: no case of class(es) %s" % missing)
    cov["case_classes"] = classes

    mark("tlc_all_done")
    # ------------------------------------------------------------------ P: CPython on the same source
    pns = {}
    exec(compile("\n".join(pysrc), "<c19-plain-python>", "exec"), pns)
    exec(compile(lc.PRELUDE, "<c19-prelude>", "exec"), pns)
    PVAL = pns["VAL"]

    # group the published cases per function
    per_func = {}     # name -> (shape, [rec...])
    for part in ("chain", "pair", "member", "strin"):
        for rec in published[part]:
            s = shapes[part][rec["id"]]
            per_func.setdefault(s["name"], (s, []))[1].append(rec)
    n_drift = 0
    expected = {}     # name -> list of expected observations
    for name, (s, recs) in per_func.items():
        exp = [expected_obs(s, rec) for rec in recs]
        expected[name] = exp
        if s["part"] == "strin":
            pobs = pns["RX"](name, [lc.xrec_val(rec["x"], PVAL) for rec in recs])
        elif s.get("form") == "cvar":
            pobs = pns["RM"](name, s["kind"], [case_args(s, rec) for rec in recs])
        else:
            pobs = pns["RC"](name, [case_args(s, rec) for rec in recs])
        for rec, e, p in zip(recs, exp, pobs):
            if e != p:
                n_drift += 1
                if n_drift <= 20:
                    rep.spec_drift("Compare.tla expectation vs CPython", {"function": name, "shape": {k: v for k, v in s.items() if k not in ("doms", "xdom", "mdoms")},
                                                                          "case": rec, "spec": e, "cpython": p})
    sw_expected = {}
    for f in swfuncs + hzfuncs:
        c = f["case"]
        if f["kind"] == "chain":
            exp = ["r%d" % lc.switch_expected(c, x) for x in lc.SUBJECTS]
        else:
            hit = [(c["row"][str(x)] == 1) != f["neg"] for x in lc.SUBJECTS]
            exp = [("rY" if h else "rN") if f["ectx"] == "cond" else B(h) for h in hit]
        sw_expected[f["name"]] = exp
        pobs = pns["RX"](f["name"], [lc.subject_arg(c["fam"], "obj", x) for x in lc.SUBJECTS])
        if pobs != exp:
            n_drift += 1
            rep.spec_drift("Compare.tla switch row vs CPython", {"function": f["name"], "source": f["py"], "spec": exp, "cpython": pobs})

    for f in bfuncs:
        fam = f["case"]["fam"]
        pobs = pns["RX"](f["name"], [lc.bool_subject(fam, x) for x in f["dom"]])
        if pobs != f["exp"]:
            n_drift += 1
            if n_drift <= 20:
                rep.spec_drift("Compare.tla bool rows vs CPython", {"function": f["name"], "source": f["py"],
                                                                   "first": [(x, e, p) for x, e, p in zip(f["dom"], f["exp"], pobs) if e != p][:4]})

    # ------------------------------------------------------------------ C: compiled modules
    stats = {"functions": 0, "cases": 0, "mismatches": 0, "crashed_functions": 0}
    samples = []
    ok_pairs = []    # (want, got) of agreeing cases, for the binding self-test

    def build_failed(b, what, hz=False, extra=None):
        if b.stage == "timeout":
            core.die("build of %s timed out (overloaded machine?) -- no verdict" % b.name)
        d = {"part": "build", "what": what, "hz": hz, "stage": b.stage}
        d.update(extra or {})
        rep.disagree(d, "build-failed", {"module": b.name, "errors": b.errors[-2500:]})

    mark("cpython_oracle_done")
    builds_cms = fbuild_cms.result()
    mark("builds_cms_done")
    jobs = []
    for (mname, names, _), b in zip(cms_mods, builds_cms):
        if not b.ok:
            if b.stage == "timeout":
                core.die("build of %s timed out (overloaded machine?) -- no verdict" % b.name)
            if mname.startswith("c19x"):
                sshape = per_func[names[0]][0]
                d = descriptor(sshape, per_func[names[0]][1][0])
                d.update({"aspect": "build", "expected": "n/a", "deciding_op": "n/a", "cint_in_bytes": False, "stage": b.stage})
                rep.disagree(d, "build-failed", {"function": render["chain"](sshape, names[0])[0],
                                                 "errors": [ln for ln in b.errors.splitlines() if "rror" in ln][-3:]})
            else:
                build_failed(b, "chain/member/strin module")
            continue
        table = []
        for name in names:
            s, recs = per_func[name]
            if s["part"] == "strin":
                table.append(["RX", [name, [lc.xrec_arg(rec["x"]) for rec in recs]]])
            elif s.get("form") == "cvar":
                table.append(["RM", [name, s["kind"], [case_args(s, rec) for rec in recs]]])
            else:
                table.append(["RC", [name, [case_args(s, rec) for rec in recs]]])
        jobs.append((b, names, table))
    builds_sw = fbuild_sw.result()
    mark("builds_switch_done")
    swjobs = []
    fdict = {f["name"]: f for f in swfuncs + hzfuncs}
    b3 = {"model_switch_real_switch": 0, "model_switch_real_none": 0, "model_none_real_switch": 0, "model_none_real_none": 0,
          "object_subject_with_switch": 0, "use_switch_off_with_switch": 0}
    for (mname, names, _), b in zip(sw_mods + nosw_mods + hz_mods, builds_sw):
        mode = "sw" if mname.startswith("c19s") else ("nosw" if mname.startswith("c19n") else "hz")
        if not b.ok:
            if mode == "hz":
                f = fdict[names[0]]
                build_failed(b, "mixed chain", True, {"typing": f["typing"], "fam": f["case"]["fam"],
                                                       "duplicate_case_reported": "duplicate case" in b.errors})
                samples.append({"part": "switch-mixed", "source": f["pyx"], "build": "failed", "error": [ln for ln in b.errors.splitlines() if "error" in ln][:1]})
            else:
                build_failed(b, "switch module use_switch=%s" % (mode == "sw"))
            continue
        try:
            with open(b.c_file) as fh:
                seen, with_sw = lc.functions_with_switch(fh.read())
        except OSError:
            seen, with_sw = set(), set()
        for name in names:
            f = fdict[name]
            if name not in seen or f["kind"] != "chain":
                continue
            real = name in with_sw
            if mode == "nosw":
                b3["use_switch_off_with_switch"] += real
            elif f["typing"] == "obj":
                b3["object_subject_with_switch"] += real
            else:
                b3["model_%s_real_%s" % ("switch" if f["case"]["anysw"] else "none", "switch" if real else "none")] += 1
        table = [["RX", [name, [lc.subject_arg(fdict[name]["case"]["fam"], fdict[name]["typing"], x) for x in lc.SUBJECTS]]] for name in names]
        swjobs.append((b, names, table, mode))

    builds_bool = fbuild_bool.result()
    mark("builds_bool_done")
    bjobs = []
    bdict = {f["name"]: f for f in bfuncs}
    b3b = {"model_switch_real_switch": 0, "model_switch_real_none": 0, "model_none_real_switch": 0, "model_none_real_none": 0,
           "object_subject_with_switch": 0, "use_switch_off_with_switch": 0, "disagreeing": []}
    for (mname, names, _), b in zip(bon_mods + boff_mods, builds_bool):
        mode = "on" if mname.startswith("c19b") else "off"
        if not b.ok:
            build_failed(b, "bool module use_switch=%s" % (mode == "on"))
            continue
        try:
            with open(b.c_file) as fh:
                seen, with_sw = lc.bool_functions_with_switch(fh.read())
        except OSError:
            seen, with_sw = set(), set()
        for name in names:
            f = bdict[name]
            if name not in seen:
                continue
            real = name in with_sw
            if mode == "off":
                b3b["use_switch_off_with_switch"] += real
            elif f["typing"] == "obj":
                b3b["object_subject_with_switch"] += real
            else:
                b3b["model_%s_real_%s" % ("switch" if f["case"]["any"] else "none", "switch" if real else "none")] += 1
                if real != f["case"]["any"] and len(b3b["disagreeing"]) < 5:
                    b3b["disagreeing"].append(f["pyx"])
        table = [["RX", [name, [lc.bool_subject_arg(bdict[name]["case"]["fam"], x) for x in bdict[name]["dom"]]]] for name in names]
        bjobs.append((b, names, table, mode))

    allobs = list(ex.map(lambda j: run_module(j[0], j[2]), jobs + swjobs + bjobs))
    ex.shutdown()
    mark("compiled_runs_done")

    def unpack(o, n):
        """observation of one call -> list of n per-case observations"""
        if isinstance(o, list) and o and o[0] == "l" and len(o) == n + 1:
            return o[1:]
        stats["crashed_functions"] += 1
        return [o if isinstance(o, str) else "CRASH:bad-observation"] * n

    for (b, names, table), obs in zip(jobs, allobs[:len(jobs)]):
        for name, o in zip(names, obs):
            s, recs = per_func[name]
            stats["functions"] += 1
            for rec, want, got in zip(recs, expected[name], unpack(o, len(recs))):
                stats["cases"] += 1
                if want == got:
                    if len(ok_pairs) < 4000:
                        ok_pairs.append((want, got))
                    continue
                stats["mismatches"] += 1
                for aspect, oc in compare(s, rec, want, got):
                    d = descriptor(s, rec)
                    d["aspect"] = aspect
                    rep.disagree(d, oc, {"function": render[s["part"]](s, name)[0], "args": case_args(s, rec), "want": want, "got": got})
    for (b, names, table, mode), obs in zip(swjobs, allobs[len(jobs):len(jobs) + len(swjobs)]):
        for name, o in zip(names, obs):
            f = fdict[name]
            c = f["case"]
            stats["functions"] += 1
            for x, want, got in zip(lc.SUBJECTS, sw_expected[name], unpack(o, len(lc.SUBJECTS))):
                stats["cases"] += 1
                if want == got:
                    if len(ok_pairs) < 8000:
                        ok_pairs.append((want, got))
                    continue
                stats["mismatches"] += 1
                d = {"part": "switch", "fam": c["fam"], "typing": f["typing"], "narms": len(c["arms"]), "hz": c["hz"], "sw": c["sw"], "mix": c["mix"],
                     "use_switch": mode != "nosw", "kind": f["kind"], "ectx": f.get("ectx")}
                rep.disagree(d, obs_class(want, got), {"function": f["pyx"], "x": x, "want": want, "got": got})
    bool_nontriv = 0
    for (b, names, table, mode), obs in zip(bjobs, allobs[len(jobs) + len(swjobs):]):
        for name, o in zip(names, obs):
            f = bdict[name]
            c = f["case"]
            stats["functions"] += 1
            exp, impl, dom = f["exp"], f["impl_" + mode], f["dom"]
            # non-trivial: subject values next to a change of the expected outcome
            bool_nontriv += sum(1 for i in range(len(dom)) if (i > 0 and exp[i] != exp[i - 1]) or (i + 1 < len(dom) and exp[i] != exp[i + 1]))
            for x, want, pred, got in zip(dom, exp, impl, unpack(o, len(dom))):
                stats["cases"] += 1
                if want == got:
                    if len(ok_pairs) < 12000 and x % 16 == 1:
                        ok_pairs.append((want, got))
                    continue
                stats["mismatches"] += 1
                raises, hz = x in f["rz"], mode == "on" and x in f["hzset"]
                d = {"part": "bool", "fam": c["fam"], "typing": f["typing"], "ctx": f["rctx"], "nconds": len(c["conds"]), "use_switch": mode == "on",
                     "top": c["top"], "any": c["any"], "hz": hz, "raises": raises, "expected": "E:ValueError" if raises else "value"}
                oc = obs_class(want, got)
                if got == pred and raises:
                    oc = "as-char-model"        # no range check on the C integer (KF-C19-4)
                elif got == pred and hz:
                    oc = "as-switch-model"      # the label wrapped
                rep.disagree(d, oc, {"function": f["pyx"], "x": lc.bool_subject_arg(c["fam"], x), "image": x, "want": want, "got": got})

    # binding demonstration: corrupted expectations must be rejected by the comparison used above
    if len(ok_pairs) < 100:
        core.die("too few agreeing cases (%d) for the binding self-test" % len(ok_pairs))
    for want, got in rng.sample(ok_pairs, 60):
        head, _, log = want.partition("|")
        bad = [("False" if head == "True" else "True") + ("|" + log if "|" in want else ""),
               head + "|" + log + "9" if "|" in want else "E:TypeError" if head != "E:TypeError" else "True"]
        for bw in bad:
            if bw == got:
                core.die("binding self-test failed: corrupted expectation %r accepted" % bw)

    # samples of real cases
    some = rng.sample(sorted(per_func), 4)
    for name in some:
        s, recs = per_func[name]
        i = rng.randrange(len(recs))
        samples.append({"part": s["part"], "source": render[s["part"]](s, name)[0], "args": case_args(s, recs[i]), "expected": expected[name][i]})
    for f in rng.sample(swfuncs, 2):
        samples.append({"part": "switch", "typing": f["typing"], "source": f["pyx"], "subjects": lc.SUBJECTS, "expected": sw_expected[f["name"]]})
    for f in rng.sample(bfuncs, 3):
        xs = [x for x in f["dom"] if 95 <= x <= 102] + [f["dom"][0], f["dom"][-1]]
        samples.append({"part": "bool", "typing": f["typing"], "source": f["pyx"], "subjects": [lc.bool_subject_arg(f["case"]["fam"], x) for x in xs],
                        "expected": [f["exp"][f["dom"].index(x)] for x in xs]})

    # distinct (function, arguments) pairs executed on compiled code whose expected outcome is not the plain
    # "False" / "no arm selected" bulk: a true or non-bool result, an exception, or a selected arm
    nontriv = 0
    for (b, names, table) in jobs:
        for name in names:
            s, recs = per_func[name]
            nontriv += len({json.dumps(case_args(s, rec), sort_keys=True) for rec, e in zip(recs, expected[name]) if not e.startswith("False")})
    for (b, names, table, mode) in swjobs:
        for name in names:
            nontriv += sum(1 for e in sw_expected[name] if e not in ("r0", "r-1", "rN", "False"))
    nontriv += bool_nontriv
    tl = cov["tlc"]
    cov.update({
        "states": sum(t["states_generated"] for t in tl), "distinct_states": sum(t["distinct_states"] for t in tl),
        "transitions": sum(t["states_generated"] for t in tl),
        "traces_validated_against_impl": stats["cases"], "evaluations": stats["cases"], "distinct_nontrivial": nontriv,
        "functions_compiled": stats["functions"], "modules": len(jobs) + len(swjobs) + len(bjobs), "mismatching_cases": stats["mismatches"],
        "crashed_functions": stats["crashed_functions"], "spec_vs_cpython_drift": n_drift,
        "repaired_crash_pattern_shapes": {"generated": n_suspects, "compiled_in_own_module": len(suspects)},
        "published_cases": {p: len(v) for p, v in published.items()} | {"switch": len(swcases), "bool": n_bcases},
        "bool_functions": {"compiled_each_with_use_switch_on_and_off": len(bfuncs), "subject_values_per_function": 256,
                           "by_context": {k: sum(1 for f in bfuncs if f["rctx"] == k) for k in ("ret", "cond", "while", "stmt")},
                           "by_typing": {k: sum(1 for f in bfuncs if f["typing"] == k) for k in sorted({f["typing"] for f in bfuncs})}},
        "B3_bool_switch_statements_in_generated_C": b3b,
        "switch_functions": {"chains": sum(1 for f in swfuncs if f["kind"] == "chain"), "expression_contexts": sum(1 for f in swfuncs if f["kind"] == "expr"),
                             "mixed_chains": len(hzfuncs)},
        "B3_switch_statements_in_generated_C": b3, "timing_s": timing,
        "rule": "one compiled function per shape (operator sequence x operand typing x context x leaf/name form; container kind x form x "
                "subject typing; if/elif chain x subject typing x use_switch; boolean combination x subject typing x context x use_switch), "
                "called with every value tuple TLC enumerated for it (bool family: every value of the 8-bit image of the subject type); "
                "non-trivial = distinct (function, arguments) pairs whose expected outcome is a true or non-bool value, an exception or a selected arm "
                "(not the plain False / no-arm bulk); bool family: the subject values next to a change of the expected outcome",
        "samples": samples,
    })
    rc = rep.finish()
    cov["known_findings"] = rep.kf_summary()
    core.write_evidence(PROP, tier, seed, "model_checking", cov, time.time() - t0,
                        assumptions=["W, nan and [] stand for objects with non-bool comparison results, for identity-without-equality and for unhashable operands",
                                     "which side's __eq__ a container scan calls, and hash/eq call counts, are not observed (not fixed by the language reference)",
                                     "C operands are only paired with Python operands or C operands of the same signedness; `is` is not applied to C operands",
                                     "bool family: int / long / unsigned int / enum subjects are exercised on the 256 values of the scaled image (for unsigned "
                                     "int 128..255 stand for 2**32-128..2**32-1), unsigned char and Py_UCS4 (0..255) on the real values",
                                     "the quick tier compiles a seeded sample of shapes; all value tuples of every compiled shape are replayed",
                                     "exception types are compared, not messages"],
                        violations=rep.n_violations())
    return rc


def replay(path, seed):
    """Re-run the cases of one replay file on a freshly compiled module: exit 1 if any still differs."""
    import re
    with open(path) as f:
        rp = json.load(f)
    d = rp["descriptor"]
    bad = 0
    for i, case in enumerate(rp["cases"]):
        src = case.get("function")
        if not src:
            print("case %d: build-level record, nothing to re-run: %s" % (i, json.dumps(case)[:300]))
            bad += 1
            continue
        name = re.search(r"def (\w+)\(", src).group(1)
        directives = {} if d.get("use_switch", True) else {"optimize.use_switch": False}
        b = core.build_many([core.BuildSpec("c19r%d" % i, lc.HEADER_PYX + src, cc="clang", directives=directives)])[0]
        if not b.ok:
            print("case %d: build failed (%s): %s" % (i, b.stage, b.errors[-600:]))
            bad += 1
            continue
        if d["part"] == "bool":
            call = ["RX", [name, [case["x"]]]]
        elif d["part"] == "switch":
            call = ["RX", [name, [lc.subject_arg(d["fam"], d["typing"], case["x"])]]]
        elif d["part"] == "strin":
            call = ["RX", [name, [lc.xrec_arg(case["args"])]]]
        else:
            call = ["RC", [name, [case["args"]]]]
        o = run_module(b, [call])[0]
        got = o[1] if isinstance(o, list) and len(o) == 2 else o
        same = got == case["want"]
        print("case %d: %s args=%s want=%s got=%s -> %s" % (i, name, json.dumps(case.get("args", case.get("x"))), case["want"], got,
                                                              "agrees now" if same else "DIFFERS"))
        bad += not same
    return 1 if bad else 0
