"""C23 — generators and coroutines follow CPython's protocol on every history.

spec/Generator.tla: the protocol as an interpreter with an input stream (PEP 342/380/479/492).
TLC explores (body template, history) states: 35 templates (32 generator bodies incl. delegation
to compiled and plain-Python inner generators and to plain iterators without send/throw/close, 3 `async def` coroutines over a hand-written
awaitable) x every history over {next, send None, send 7, throw ValueError/KeyError/GeneratorExit,
close} up to the bound; every state carries the expected answers and the body's log after the
history and after an additional `del` (finaliser).  Invariants: one answer per operation, finally
blocks at most once per entered try / exactly once for finished objects, `del` runs nothing on
finished or never-started objects, causality (answers never depend on later operations, a finished
object never runs body code).
Binding B1, three-way: the published templates are rendered as ONE Python source; P = that source
exec'd by CPython, C = the same source compiled by Cython from the snapshot; each history is run on a
fresh object in a child process.  S != P -> spec drift (exit 2);  C != S -> disagreement.
"""
import collections
import json
import os
import random
import time

import core
import lib_gen

PROP = "C23"

QUICK = [("Generator", "MaxLen=4, all templates")]
THOROUGH = [("Generator_t1", "MaxLen=5, templates 1-8"), ("Generator_t2", "MaxLen=5, templates 9-16"),
            ("Generator_t3", "MaxLen=5, templates 17-24"), ("Generator_t4", "MaxLen=5, templates 25-31"),
            ("Generator_t5", "MaxLen=6, templates 4 (ignore_ge), 9 (yf_c)"),
            ("Generator_t6", "MaxLen=6, templates 12 (yf_ignore_c), 26 (yf_drop_c)"),
            ("Generator_t7", "MaxLen=6, templates 11 (nested_fin), 30 (co_tryfin)"),
            ("Generator_t8", "MaxLen=5, templates 32-35 (yield from plain iterators)")]


def classify(case, coro, want, got):
    """obs_class: computed from the wrong observation (allowed), never part of the matcher's descriptor"""
    if got[0] == "CRASH":
        return "crash", False
    h = case["h"]
    if h and h[0] == 3 and want[0] and want[0][0] == ["exc", "TypeError"]:
        # would a FINISHED object have answered like this after the rejected first send?
        if got[0][:1] == [["exc", "TypeError"]] and got[0][1:] == lib_gen.finished_answers(coro, h[1:]) \
                and got[1] == [] and got[2] == []:
            return "finished_after_rejected_first_send", False
    if got[0] != want[0]:
        i = next((k for k in range(min(len(got[0]), len(want[0]))) if got[0][k] != want[0][k]), min(len(got[0]), len(want[0])))
        exp_kind = want[0][i][0] if i < len(want[0]) else "none"
        got_kind = ":".join(str(v) for v in got[0][i][:2 if got[0][i][0] == "exc" else 1]) if i < len(got[0]) else "none"
        return "answer:%s-instead-of-%s" % (got_kind, exp_kind), False
    if got[1] != want[1]:
        return "log", False
    return "log_after_del", True


def descriptor(case, names, kinds, has_del):
    h = case["h"]
    return {"body": names[case["b"] - 1], "kind": kinds[case["b"] - 1],
            "first_op": lib_gen.OPNAMES[h[0]] if h else "none", "has_del": has_del,
            # spec-side case feature: a frame that is being closed returns a non-None value
            "close_returns_value": bool(case["dcr"] if has_del else case["cr"])}


def build_module(pub, rep):
    src, plain = lib_gen.render(pub)
    wd = core.subdir("c23")
    srcpath = os.path.join(wd, "c23mod_src.py")
    plainpath = os.path.join(wd, "c23plain.py")
    with open(srcpath, "w") as f:
        f.write(src)
    with open(plainpath, "w") as f:
        f.write(plain)
    # two builds of the same module: default macros, and without the am_send slot protocol
    import concurrent.futures
    spec = lambda flags: core.BuildSpec("c23mod", src, kind="py", options={"language_level": 3}, cflags=flags)
    with concurrent.futures.ThreadPoolExecutor(2) as ex:
        f1 = ex.submit(core.build_many, [spec([])], core.subdir("build_default"))
        f2 = ex.submit(core.build_many, [spec(["-DCYTHON_USE_AM_SEND=0"])], core.subdir("build_no_am_send"))
        builds = [("default", f1.result()[0]), ("no_am_send", f2.result()[0])]
    return builds, srcpath, plainpath, src


def run(tier, seed):
    t0 = time.time()
    rng = random.Random(seed)
    rep = core.Reporter(PROP)
    cov = {"tlc": []}
    cfgs = QUICK if tier == "quick" else THOROUGH
    workers = int(os.environ.get("VERIF_TLC_WORKERS", "0")) or None

    pub = None
    built = None
    names = kinds = None
    tot = collections.Counter()
    classes = collections.Counter()
    action_cov = collections.Counter()
    samples = []
    selftest = {"corrupted": 0, "rejected": 0}
    distinct_nontrivial = 0

    seen_cases = set()
    for bi, (cfg, cfgdesc) in enumerate(cfgs):
        # ---- model checking: every (template, history) is a state carrying its expected observations
        r = core.tlc_or_die("Generator", cfg=cfg, timeout=3000, workers=workers)
        cov["tlc"].append(dict(r.summary(), config=cfgdesc))
        tot["states"] += r.generated
        tot["distinct"] += r.distinct
        pubs = [p for p in r.printed if "templates" in p]
        cases = [p for p in r.printed if "h" in p]
        if not pubs or len(cases) != r.distinct:
            core.die("Generator.tla published %d templates records and %d cases for %d distinct states" % (len(pubs), len(cases), r.distinct))
        del r
        if pub is None:
            pub = pubs[0]
            names = [t["name"] for t in pub["templates"]]
            kinds = [t["kind"] for t in pub["templates"]]
            if [(o["k"], o["v"], o["e"]) for o in pub["ops"]] != [("next", -1, ""), ("send", -1, ""), ("send", 7, ""), ("throw", -1, "ValueError"),
                                                                  ("throw", -1, "KeyError"), ("throw", -1, "GeneratorExit"), ("close", -1, "")]:
                core.die("operation table of the spec differs from the driver's")
            # ---- render + build (once)
            builds, srcpath, plainpath, src = build_module(pub, rep)
            bad = [(n, b) for n, b in builds if not b.ok]
            if bad:
                b = bad[0][1]
                rep.disagree({"body": "*", "kind": "build", "first_op": "none", "has_del": False, "config": bad[0][0]}, "build-failed",
                             {"stage": b.stage, "errors": b.errors[-3000:]})
                rc = rep.finish()
                core.write_evidence(PROP, tier, seed, "model_checking",
                                    {"evaluations": 1, "distinct_nontrivial": 0, "states": tot["states"], "transitions": tot["states"],
                                     "traces_validated_against_impl": 0, "samples": ["build failed at stage %s" % b.stage]},
                                    time.time() - t0, violations=rep.n_violations())
                return rc
            built = builds
        elif pubs[0] != pub:
            core.die("template table differs between TLC runs")

        cases.sort(key=lambda c: (c["b"], len(c["h"]), c["h"]))
        stim = [[c["b"], c["h"]] for c in cases]
        want = [lib_gen.spec_expect(c) for c in cases]
        # ---- P: plain CPython on the same source; C: the compiled module (two macro configurations)
        gotP = lib_gen.replay("P", os.path.dirname(built[0][1].so), srcpath, plainpath, names, kinds, stim, "p%d" % bi)
        gotCs = [lib_gen.replay("C", os.path.dirname(b.so), srcpath, plainpath, names, kinds, stim, "c%d_%s" % (bi, n)) for n, b in built]
        gotC = gotCs[0]
        for c, w, p, g, g2 in zip(cases, want, gotP, gotCs[0], gotCs[1]):
            coro = kinds[c["b"] - 1] == "coro"
            key = (c["b"], tuple(c["h"]))
            if key in seen_cases:       # the MaxLen=6 runs repeat the shorter histories of their templates
                continue
            seen_cases.add(key)
            tot["cases"] += 1
            tot["ops"] += len(c["h"])
            if c["h"]:      # every non-initial state was produced by exactly one action of Next
                action_cov[{1: "DoNext", 2: "DoSend", 3: "DoSend", 4: "DoThrow", 5: "DoThrow", 6: "DoThrow", 7: "DoClose"}[c["h"][-1]]] += 1
            if c["s"] != "created":
                distinct_nontrivial += 1
            classes["status:" + c["s"]] += 1
            classes["after_del:" + c["ds"]] += 1
            for k, v, e in c["o"]:
                classes["answer:" + k + (":" + e if k == "exc" else (":value" if k == "stop" and v != -1 else ""))] += 1
            if c["cr"] or c["dcr"]:
                classes["close_returns_value"] += 1
            if c["d"] != c["l"]:
                classes["del_runs_cleanup"] += 1
            if p != w:
                rep.spec_drift("Generator.tla vs CPython", {"body": names[c["b"] - 1], "hist": [lib_gen.OPNAMES[o] for o in c["h"]],
                                                           "spec": w, "cpython": p})
                continue
            for cfgname, gg in (("default", g), ("no_am_send", g2)):
                tot["replays"] += 1
                if gg != w:
                    oc, only_del = classify(c, coro, w, gg)
                    rep.disagree(dict(descriptor(c, names, kinds, only_del), config=cfgname), oc,
                                 {"body": names[c["b"] - 1], "hist": [lib_gen.OPNAMES[o] for o in c["h"]], "ops": c["h"],
                                  "want [answers, log, log after del]": w, "got": gg})
        # ---- binding demonstration: corrupted expectations must be rejected by the comparison
        if bi == 0:
            idx = [i for i, c in enumerate(cases) if c["o"]]
            for i in rng.sample(idx, min(200, len(idx))):
                bad = json.loads(json.dumps(want[i]))
                a = bad[0][rng.randrange(len(bad[0]))]
                if a[0] == "y":
                    a[1] = (a[1] or 0) + 1
                elif a[0] == "stop":
                    a[0] = "y"
                elif a[0] == "exc":
                    a[1] = "KeyError" if a[1] != "KeyError" else "ValueError"
                else:
                    a[0] = "stop"
                    a.append(None)
                selftest["corrupted"] += 1
                if gotP[i] != bad:      # P == S was established above; the corrupted S must differ
                    selftest["rejected"] += 1
            idx = [i for i, c in enumerate(cases) if c["d"] != c["l"]]
            for i in rng.sample(idx, min(100, len(idx))):
                bad = json.loads(json.dumps(want[i]))
                bad[2] = bad[1]       # "the finaliser runs nothing"
                selftest["corrupted"] += 1
                if gotP[i] != bad:      # P == S was established above; the corrupted S must differ
                    selftest["rejected"] += 1
        for i in rng.sample(range(len(cases)), 2):
            samples.append({"body": names[cases[i]["b"] - 1], "hist": [lib_gen.OPNAMES[o] for o in cases[i]["h"]],
                            "expected [answers, log, log after del]": want[i], "compiled": gotC[i]})
        del cases, want, gotP, gotC, gotCs, stim

    # ---- vacuity guards (model side): states per action of Next, classes of cases / expected answers
    for a in ("DoNext", "DoSend", "DoThrow", "DoClose"):
        if action_cov[a] == 0:
            core.die("vacuous model: action %s never taken" % a)
    for k in ("status:suspended", "status:finished", "status:created", "after_del:dropped", "answer:exc:RuntimeError",
              "answer:exc:TypeError", "answer:stop:value", "answer:closed", "answer:exc:GeneratorExit", "del_runs_cleanup"):
        if classes[k] == 0:
            core.die("vacuous model: no case of class %s" % k)
    if selftest["corrupted"] == 0 or selftest["rejected"] != selftest["corrupted"]:
        core.die("binding self-test failed: %r" % selftest)

    cov.update({
        "states": tot["states"], "distinct_states": tot["distinct"], "transitions": tot["states"],
        "traces_validated_against_impl": tot["cases"],
        "evaluations": tot["cases"] + tot["replays"], "build_configurations": ["default", "-DCYTHON_USE_AM_SEND=0"], "operations_replayed_on_compiled_code": tot["ops"],
        "distinct_nontrivial": distinct_nontrivial, "exhaustive": True,
        "templates": len(names), "action_coverage": dict(action_cov), "case_classes": dict(classes),
        "binding_selftest": selftest,
        "rule": "one case per (body template, history); histories = all sequences up to the bound over {next, send None, send 7, "
                "throw ValueError, throw KeyError, throw GeneratorExit, close}; each case is run twice per side (with and without a "
                "final del + gc); compared: per-operation answers (yielded value / StopIteration value / exception type / close "
                "returned), the body's log after the history and after del; non-trivial = the object was started or finished by the history",
        "samples": samples[:4],
    })
    rc = rep.finish()
    cov["known_findings"] = rep.kf_summary()
    core.write_evidence(PROP, tier, seed, "model_checking", cov, time.time() - t0,
                        assumptions=["exception TYPES are compared, not messages (they differ by design)",
                                     "unraisable errors reported by finalisers and RuntimeWarnings are not part of the observation",
                                     "an inner generator that is being finalised does not start a new delegation (spec guard NoUnsup)",
                                     "async generators (asend/athrow/aclose) are not modelled; coroutines are driven by send/throw/close "
                                     "over a hand-written awaitable"],
                        violations=rep.n_violations())
    return rc
