"""C50 — the Plex lexer engine recognises exactly its regular-expression rules.

spec/Plex.tla: reference = denotational matching on the event stream the scanner feeds its
machine (bol/eol/eof pseudo-symbols, transparent unless a rule names them), token = declaratively
chosen (longest stretch, earliest rule); implementation-shaped = Regexps.py desugaring and
build_machine, Lexicon priorities, DFA.nfa_to_dfa, Scanner.run_machine_inlined / scan_a_token.
TLC explores one state per (lexicon, text): hand-written + seeded generated lexicons (<= 4 rules,
depth <= 2) x every string over {a, b, c, newline} up to the length bound, checks the two
against each other and the declarative statement of the property, and publishes lexicons and
expected token streams.
Binding B1: every published lexicon is built with the real Plex.Lexicon (pure Python from the
snapshot) and every text scanned with the real Scanner, from io.StringIO and from a stream that
delivers one character per read(); tokens (rule, text, line, column) and the end of the stream
(end of file / UnrecognizedInput + position / repeated empty match) are compared with the spec.
P: an independent matcher (Python `re` on the event string) recomputes every expectation.
"""
import concurrent.futures
import json
import os
import random
import sys
import time

import core
import lib_plex

PROP = "C50"
LIB = os.path.join(os.path.dirname(os.path.dirname(os.path.abspath(__file__))), "lib_plex.py")
JAVA_ENV = {"JAVA_TOOL_OPTIONS": "-Xss64m -Xmx4g -XX:ParallelGCThreads=4"}   # the recursive operators need deep worker stacks


def tlc_env(seed, nlex, first):
    return dict(JAVA_ENV, PLEX_SEED=seed, PLEX_NLEX=nlex, PLEX_FIRST=first)


def group(printed):
    """published records -> list of jobs {l, rules, cases: [[s, toks, end, model_end, tie, backup], ..]}"""
    lex = {}
    cases = {}
    for r in printed:
        if r.get("kind") == "lex":
            lex[r["l"]] = r
        elif r.get("kind") == "case":
            cases.setdefault(r["l"], []).append([r["s"], r["t"], r["e"], r["m"], r["tie"], r["bk"]])
    if set(lex) != set(cases):
        core.die("Plex.tla published lexicons %d but cases for %d" % (len(lex), len(cases)))
    jobs = []
    for l in sorted(lex):
        cs = sorted(cases[l], key=lambda c: (len(c[0]), c[0]))
        jobs.append({"l": l, "rules": lex[l]["rules"], "dfa_states": lex[l]["dfa_states"], "cases": cs})
    return jobs


def run_children(what, jobs, tag, nproc):
    """split the jobs over child processes; -> (number done, records)"""
    wd = core.subdir("c50")
    nproc = max(1, min(nproc, len(jobs)))
    parts = [jobs[i::nproc] for i in range(nproc)]

    def one(i):
        jf = os.path.join(wd, "%s_%s_%d.ndjson" % (tag, what, i))
        of = os.path.join(wd, "%s_%s_%d.out" % (tag, what, i))
        core.write_ndjson(jf, parts[i])
        ch = core.run_child(LIB, [what, jf, of], with_snapshot=(what == "real"), timeout=3000, mem_mb=4096)
        return ch, of

    done, recs, failed = 0, [], []
    with concurrent.futures.ThreadPoolExecutor(max_workers=nproc) as ex:
        for ch, of in ex.map(one, range(nproc)):
            jl = ch.json_lines()
            if ch.rc != 0 or not jl:
                failed.append({"rc": ch.rc, "timed_out": ch.timed_out, "stderr": ch.err[-2000:]})
                continue
            done += jl[-1]["done"]
            recs += core.read_ndjson(of)
    return done, recs, failed


def descriptor(case, mode):
    return {"end": case[2]["k"], "model_end": case[3], "tie": bool(case[4]), "backup": bool(case[5]), "mode": mode}


def corrupt(jobs, rng, n=60):
    """binding demonstration: expectations that are wrong in one place each"""
    out = []
    pool = [(j, c) for j in jobs for c in j["cases"] if c[1] and c[2]["k"] in ("eof", "error") and c[3] == c[2]["k"]]   # not the hazard cases
    for j, c in rng.sample(pool, min(n, len(pool))):
        c = json.loads(json.dumps(c))
        kind = rng.randrange(4)
        if kind == 0:
            c[1][0][0] = c[1][0][0] % 4 + 1                       # another rule
        elif kind == 1:
            c[1][-1][3] += 1                                      # another line
        elif kind == 2:
            c[2]["k"] = "eof" if c[2]["k"] == "error" else "error"
        else:
            c[1] = c[1][:-1]                                      # one token fewer
        out.append({"l": j["l"], "rules": j["rules"], "cases": [c]})
    return out


def bind(jobs, tag, rep, stats, nproc):
    """S vs P, then C vs S for a batch of jobs"""
    ncases = sum(len(j["cases"]) for j in jobs)
    nd, drift, failed = run_children("oracle", jobs, tag, nproc)
    if failed or nd != ncases:
        core.die("oracle children failed: %r (done %d of %d)" % (failed[:1], nd, ncases))
    for d in drift[:20]:
        rep.spec_drift("Plex.tla expectation vs independent matcher (python re)", d)
    nr, mism, failed = run_children("real", jobs, tag, nproc)
    for f in failed:
        rep.disagree({"end": "n/a", "model_end": "n/a", "tie": False, "backup": False, "mode": "child"}, "crash", f)
    for m in mism:
        if m["case"] is None:
            rep.disagree({"end": "n/a", "model_end": "n/a", "tie": False, "backup": False, "mode": "build"}, m["cls"],
                         {"lexicon": m["rules"], "what": m["what"]})
            continue
        rep.disagree(descriptor(m["case"], m["mode"]), m["cls"],
                     {"lexicon_id": m["l"], "lexicon": m["rules"], "text": lib_plex.real_text(m["s"]), "mode": m["mode"],
                      "expected_tokens": m["case"][1], "expected_end": m["case"][2], "what": m["what"]})
    stats["scans"] += nr
    stats["cases"] += ncases
    stats["mismatch_records"] += len(mism)


def classify(jobs, st):
    for j in jobs:
        st["lexicon_states"] += 1
        key = json.dumps(j["rules"], sort_keys=True)
        fresh = key not in st["lexkeys"]
        st["lexkeys"].add(key)
        st["dfa_states_max"] = max(st["dfa_states_max"], j["dfa_states"])
        for c in j["cases"]:
            s, toks, end, m, tie, bk = c
            st["end_" + end["k"]] += 1
            st["tie"] += bool(tie)
            st["backup"] += bool(bk)
            st["hazard"] += (end["k"] == "eof" and m == "error")
            st["tokens"] += len(toks)
            st["multi_line_pos"] += any(t[3] > 1 for t in toks)
            if fresh and (len(toks) >= 2 or tie or bk or (toks and end["k"] == "error")):
                st["nontrivial"] += 1


def run(tier, seed):
    t0 = time.time()
    rng = random.Random(seed)
    rep = core.Reporter(PROP)
    cov = {"tlc": []}
    nproc = min(core.NCPU, 16)

    # 1. + 2. run in the background while the case batches are explored and bound:
    # 1. the strict form of the property on the model: TLC must find the end-of-file hazard
    # 2. the declarative statement of the property on the implementation-shaped tokens
    ndecl = 6 if tier == "quick" else 100
    side = concurrent.futures.ThreadPoolExecutor(max_workers=2)
    f_strict = side.submit(core.tlc, "Plex", cfg="Plex_strict", env=tlc_env(seed, 0, 1), timeout=900, workers=2)
    time.sleep(0.2)
    f_decl = side.submit(core.tlc, "Plex", cfg="Plex_decl", env=tlc_env(seed, ndecl, 5001), timeout=3000,
                         workers=4 if tier == "quick" else 8)
    time.sleep(0.2)

    # 3. the cases: batches of generated lexicons (the first batch also has the hand-written ones)
    if tier == "quick":
        batches = [("Plex_quick", 70, 1)]
    else:
        batches = [("Plex_quick", 250, 1)] + [("Plex_batch", 250, 1 + 250 * k) for k in range(1, 3)] + [("Plex_deep", 10, 9001)]
    st = {k: 0 for k in ("end_eof", "end_error", "end_stuck", "end_eofc", "tie", "backup", "hazard", "tokens", "multi_line_pos",
                         "nontrivial", "dfa_states_max", "lexicon_states")}
    st["lexkeys"] = set()
    stats = {"scans": 0, "cases": 0, "mismatch_records": 0}
    samples = []
    selftest = None
    states = 0
    for cfg, nlex, first in batches:
        r = core.tlc_or_die("Plex", cfg=cfg, env=tlc_env(seed, nlex, first), timeout=3000)
        cov["tlc"].append(dict(r.summary(), config="%s: %d generated lexicons from family index %d, seed %d" % (cfg, nlex, first, seed)))
        states += r.generated
        jobs = group(r.printed)
        r.printed = None
        r.out = ""
        if len(jobs) < nlex:
            core.die("%s published %d lexicons" % (cfg, len(jobs)))
        classify(jobs, st)
        bind(jobs, cfg + str(first), rep, stats, nproc)
        if selftest is None:
            # binding demonstration: corrupted expectations must all be rejected
            bad = corrupt(jobs, rng)
            _, rej, failed = run_children("real", bad, "corrupt", 4)
            rejected = len({(m["l"], m["s"], json.dumps(m["case"])) for m in rej})
            selftest = {"corrupted": len(bad), "rejected": rejected}
            if failed or rejected != len(bad) or not bad:
                core.die("binding self-test failed: %r %r" % (selftest, failed[:1]))
        if not samples:
            pick = rng.sample(jobs, 2)
            for j in pick:
                c = rng.choice([c for c in j["cases"] if len(c[1]) >= 2] or j["cases"])
                samples.append({"lexicon": j["rules"], "text": lib_plex.real_text(c[0]), "expected_tokens": c[1], "expected_end": c[2]})
        del jobs

    strict, decl = f_strict.result(), f_decl.result()
    side.shutdown()
    cov["tlc"].append(dict(strict.summary(), config="strict: hand-written lexicons, MaxLen=2, INVARIANT ImplAgrees", result=str(strict.violation)))
    if strict.violation != "ImplAgrees":
        sys.stderr.write(strict.out[-3000:])
        core.die("Plex_strict: expected TLC to refute ImplAgrees (end-of-file hazard of the model), got %r" % strict.violation)
    cov["tlc"].append(dict(decl.summary(), config="decl: hand-written + %d generated lexicons, MaxLen=4, RefChoiceIsBest, ImplTokensAreBest, "
                                                  "ErrorIffNoRuleMatches, ImplAgreesOffHazards" % ndecl))
    if not decl.ok:
        sys.stderr.write(decl.out[-4000:])
        core.die("Plex_decl: TLC failed (%s)" % (decl.violation or decl.rc))
    if decl.depth != 4:
        core.die("Plex_decl: search depth %d, expected root -> id -> lexicon -> case" % decl.depth)
    states += strict.generated + decl.generated

    # vacuity guard on the model's own case classes
    for k in ("end_eof", "end_error", "end_stuck", "end_eofc", "tie", "backup", "hazard", "multi_line_pos"):
        if st[k] == 0:
            core.die("vacuous exploration: no case of class %s" % k)

    nlex_distinct = len(st.pop("lexkeys"))
    n_lex_states = st.pop("lexicon_states")
    cov.update({
        "states": states, "transitions": states,
        "traces_validated_against_impl": stats["cases"],
        "evaluations": stats["scans"], "distinct_nontrivial": st["nontrivial"],
        "exhaustive": True,
        "distinct_lexicons": nlex_distinct,
        "case_classes": {k: v for k, v in st.items()},
        "real_scans": stats["scans"], "stream_modes": list(lib_plex.MODES),
        "action_counts": {"PickLexicon": n_lex_states, "BuildLexicon": n_lex_states, "PickText": stats["cases"]},
        "binding_selftest": selftest,
        "rule": "case = (lexicon, text): 22 hand-written + seeded generated lexicons (1-4 rules, depth <= 2 over Str/Any/AnyBut/Range/"
                "Seq/Alt/Rep/Rep1/Opt/Bol/Eol/Eof/Empty) x EVERY string over {a,b,c,newline} up to length 5 (6 in the deep batch); each "
                "scanned with the real Scanner in 2 stream modes; non-trivial = distinct (lexicon, text) whose expected stream has >= 2 "
                "tokens, or a tie between rules, or a backed-up run, or an error after a token",
        "samples": samples,
    })
    rc = rep.finish()
    cov["known_findings"] = rep.kf_summary()
    core.write_evidence(PROP, tier, seed, "model_checking", cov, time.time() - t0,
                        assumptions=["the pseudo-symbols bol/eol/eof are transparent unless a rule names them (reference semantics of the "
                                     "event stream); the longest match is counted in events, so `a Eol` beats `a` at a line end",
                                     "with no match and no character left the documented result is end of file (Scanner.read docstring)",
                                     "nothing is demanded after a rule has consumed the eof symbol",
                                     "the model abstracts TransitionMap's range list and the 'else' transition to per-character "
                                     "transitions over the test alphabet; the real data structure is exercised through the binding only",
                                     "Begin/State (scanner states), NoCase/Case, Call/Method actions and the compiled .so twins are not covered"],
                        violations=rep.n_violations())
    return rc


def replay(path, seed):
    """Re-run the cases of a replay file on the real engine (working tree snapshot)."""
    with open(path) as f:
        rec = json.load(f)
    jobs = []
    for c in rec["cases"]:
        if "lexicon" not in c or "text" not in c:
            continue
        s = c["text"].replace("\n", "n")
        jobs.append({"l": c.get("lexicon_id", 0), "rules": c["lexicon"],
                     "cases": [[s, c["expected_tokens"], c["expected_end"], rec["descriptor"].get("model_end"), False, False]]})
    n, mism, failed = run_children("real", jobs, "replay", 1)
    for m in mism:
        print("STILL-DIFFERS mode=%s class=%s text=%r what=%s" % (m["mode"], m["cls"], lib_plex.real_text(m["s"]), json.dumps(m["what"])))
    print("replayed %d scans, %d differ" % (n, len(mism)))
    return 2 if failed else (1 if mism else 0)
