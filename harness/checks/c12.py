"""C12 -- module string-table compression round-trips.

spec/LZSS.tla is the compressed FORMAT as a reference decoder state machine with the
memory-access obligations in its verdict (every src read < srclen, every dst write < dstlen,
every copy source >= 0 and inside what has been written, stop exactly at pos = srclen, output =
the wanted bytes).  TLC runs it in four modes:

  streams  (spec -> code) boundary token streams at the edges of every back-reference encoding;
           invariant RoundTrip: Decode(ToBytes(ts)) = Meaning(ts), everything consumed, in bounds.
           The published (src, n, out) are the expected observations for the real C decoder.
  records  (code -> spec) every (input, output) pair of the real Cython/LZSS.py:lzss_compress
           (pure Python, snapshot) over exhaustive small strings and structured/random inputs;
           the terminal state of each record is the verdict.
  scaled   a transcription of the compressor's token choice with shrunken payload widths:
           Decode(Encode(s)) = s for ALL short strings (model-level theorem);
  transcr  fidelity of that transcription against the real compressor (reported, never a verdict).

The real C decoder `__pyx_lzss_decompress` is taken from the utility-code loader of the snapshot
(Utility/StringTools.c, section DecompressString_LZSS), wrapped in a C harness with exact-size heap
buffers, built with clang -fsanitize=address,undefined and run on every compressor output and
every TLC stream: bytes and return value must equal the spec's, the sanitizers must stay silent
(their liveness is demonstrated on a truncated stream).  Finally one real module with a large
string table is compiled with the LZSS branch selected and its constants are compared.

Oracle P: lib_lzss.py_decode (independent Python decoder); S != P is spec drift (exit 2).
"""
import concurrent.futures
import json
import os
import random
import sys
import time

import core
import lib_lzss as L

PROP = "C12"
JVM = "-XX:ParallelGCThreads=2"

ALL_MARKS = ["ref0", "off0", "e1.offmax", "e2.offmin", "e2.offmax", "e2.lenmax", "e3.offmin", "e3.offmax",
             "e3.lenmin", "lenmax", "lenmin"]


def _tlc(cfg, env=None, timeout=1500, workers=None, heap=None, xss=False):
    e = {"JAVA_TOOL_OPTIONS": JVM + (" -Xss512m" if xss else "")}
    if env:
        e.update(env)
    return cfg, core.tlc("LZSS", cfg=cfg, env=e, workers=workers or max(2, core.NCPU // 2), timeout=timeout, heap=heap)


def _need(name_t):
    cfg, t = name_t
    if not t.ok:
        sys.stderr.write(t.out[-5000:])
        core.die("TLC failed on %s (%s): %s" % (cfg, t.violation or t.rc, t.cmd))
    return t


def agg(printed):
    cnt = [0, 0, 0, 0]
    marks = {}
    for p in printed:
        for i in range(4):
            cnt[i] += p["cnt"][i]
        for m in p.get("marks", ()):
            marks[m] = marks.get(m, 0) + 1
    return cnt, marks


# --------------------------------------------------------------------------
# end-to-end: a real module whose string table goes through the LZSS branch

_E2E_CHILD = r'''
import json, sys, importlib
exp = json.load(open(sys.argv[1]))
try:
    mod = importlib.import_module("c12mod")
except BaseException as e:
    print("@@" + json.dumps({"import_error": type(e).__name__ + ": " + str(e)[:300]}))
    sys.exit(0)
assert mod.__file__.endswith(sys.argv[2]), mod.__file__
got_s = mod.get_s()
got_b = [x.decode("latin1") for x in mod.get_b()]
bad = [i for i, (a, b) in enumerate(zip(got_s, exp["s"])) if a != b]
badb = [i for i, (a, b) in enumerate(zip(got_b, exp["b"])) if a != b]
print("@@" + json.dumps({"n_s": len(got_s), "n_b": len(got_b), "bad_s": bad[:5], "bad_b": badb[:5],
                          "len_ok": len(got_s) == len(exp["s"]) and len(got_b) == len(exp["b"])}))
'''


def e2e_module(rng, rep, cov):
    letters = "abcdefghijklmnopqrstuvwxyz_ABCDEFXYZ0123456789"
    vocab = ["".join(rng.choice(letters) for _ in range(rng.randint(3, 11))) for _ in range(400)]
    strs = []
    for i in range(900):
        w = [rng.choice(vocab) for _ in range(rng.randint(1, 6))]
        s = rng.choice(["_", ".", " ", "::"]).join(w)
        if i % 37 == 0:
            s += " é中\U0001F600 %d" % i
        if i % 53 == 0:
            s = s * 40              # long repeats: maximal match lengths
        strs.append(s + "#%d" % i)  # all distinct
    bts = []
    for i in range(150):
        bts.append(bytes(rng.getrandbits(8) for _ in range(rng.randint(1, 40))) + b"<%d>" % i +
                   rng.choice(vocab).encode() * rng.randint(1, 5))
    src = ["# cython: language_level=3", "def get_s():", "    return ["]
    src += ["        %r," % s for s in strs]
    src += ["    ]", "def get_b():", "    return ["]
    src += ["        %r," % b for b in bts]
    src += ["    ]", ""]
    spec = core.BuildSpec("c12mod", "\n".join(src), kind="pyx", cflags=["-DCYTHON_COMPRESS_STRINGS=90"])
    res = core.build_many([spec], jobs=1)[0]
    if not res.ok:
        rep.disagree({"part": "module", "what": "build-failed", "stage": res.stage}, "build-error",
                     {"errors": (res.errors or "")[-2000:]})
        return
    ctext = open(res.c_file, errors="replace").read()
    import re
    m = re.search(r"__Pyx_DecompressString_LZSS\(cstring, (\d+), (\d+)\)", ctext)
    if not m or "compression: lzss" not in ctext:
        # the compiler did not choose to emit an LZSS branch: nothing to observe (reported, not a verdict)
        cov["module"] = {"lzss_branch_emitted": False}
        return
    wd = core.subdir("c12e2e")
    expf = os.path.join(wd, "exp.json")
    with open(expf, "w") as f:
        json.dump({"s": strs, "b": [b.decode("latin1") for b in bts]}, f)
    ch = core.run_child(_E2E_CHILD, [expf, core.ext_suffix()], paths=[os.path.dirname(res.so)], timeout=300)
    recs = ch.json_lines()
    info = {"lzss_branch_emitted": True, "compressed_len": int(m.group(1)), "uncompressed_len": int(m.group(2)),
            "strings": len(strs), "bytes_constants": len(bts)}
    cov["module"] = info
    desc = {"part": "module", "what": "string-constants"}
    if ch.crashed or ch.timed_out or not recs:
        rep.disagree(desc, "crash", {"rc": ch.rc, "stderr": ch.err[-1500:], "c_file": res.c_file})
    elif "import_error" in recs[-1]:
        rep.disagree(desc, "import-error", {"error": recs[-1]["import_error"], "lens": info})
    elif not recs[-1]["len_ok"] or recs[-1]["bad_s"] or recs[-1]["bad_b"]:
        rep.disagree(desc, "wrong-constant", {"result": recs[-1], "lens": info})
    else:
        cov["traces_validated_against_impl"] += 1
        cov["evaluations"] += 1


# --------------------------------------------------------------------------


def run(tier, seed):
    t0 = time.time()
    thorough = tier == "thorough"
    rng = random.Random(seed)
    rep = core.Reporter(PROP)
    wd = core.subdir("c12")
    cov = {"states": 0, "distinct_states": 0, "transitions": 0, "traces_validated_against_impl": 0,
           "evaluations": 0, "distinct_nontrivial": 0, "samples": [], "tlc": {}}

    # ---- inputs and the real compressor -------------------------------------------------
    inputs = L.gen_inputs(tier, rng)
    comp, ch = L.run_compressor(inputs, wd)
    if ch.rc != 0 and not comp:
        rep.disagree({"part": "compressor", "what": "child-failed"}, "crash", {"rc": ch.rc, "stderr": ch.err[-2500:]})
        rc = rep.finish()
        cov["states"] = cov["transitions"] = 1
        cov["samples"] = [{"note": "compressor could not be run"}]
        core.write_evidence(PROP, tier, seed, "model_checking", cov, time.time() - t0, violations=rep.n_violations())
        return rc
    by_id = {r["id"]: r for r in inputs}
    recs = []
    for r in inputs:
        c = comp.get(r["id"])
        if c is None or isinstance(c, tuple):
            rep.disagree({"part": "compressor", "kind": r["kind"], "what": "raised"}, "exception",
                         {"input_hex": r["data"][:400].hex(), "len": len(r["data"]),
                          "error": c[1] if c else "no output (child died: %s)" % ch.err[-300:]})
        else:
            recs.append({"id": r["id"], "data": list(r["data"]), "comp": list(c)})
    # binding self-test: corrupted records must be rejected by S and by P
    corrupt = []
    good = [r for r in recs if len(r["data"]) >= 8
            and L.py_decode(bytes(r["comp"]), len(r["data"]), bytes(r["data"]))[0] == "ok"]
    for k, r in enumerate(rng.sample(good, min(30, len(good)))):
        cid = 10 ** 6 + k
        if k % 3 == 0:
            corrupt.append({"id": cid, "data": r["data"], "comp": r["comp"] + [0]})
        elif k % 3 == 1:
            corrupt.append({"id": cid, "data": r["data"], "comp": r["comp"][:-1]})
        else:
            corrupt.append({"id": cid, "data": r["data"][:-1] + [(r["data"][-1] + 1) % 256], "comp": r["comp"]})
    recf = os.path.join(wd, "records.ndjson")
    core.write_ndjson(recf, recs + corrupt)
    # transcription fidelity sample: all exhaustive small strings + small structured + a few mid-size
    small = [r for r in recs if len(r["data"]) <= 120]
    mid = [r for r in recs if 120 < len(r["data"]) <= (700 if thorough else 450) and by_id[r["id"]]["kind"] != "rand256"]
    trs = small + rng.sample(mid, min(len(mid), 60 if thorough else 6))
    trf = os.path.join(wd, "transcr.ndjson")
    core.write_ndjson(trf, trs)

    # ---- TLC -----------------------------------------------------------------------------
    jobs = [("streams", lambda: _tlc("LZSS_streams_big" if thorough else "LZSS_streams", timeout=2400)),
            ("records", lambda: _tlc("LZSS_records", {"RECORDS": recf}, timeout=3000, heap="24g" if thorough else None)),
            ("transcr", lambda: _tlc("LZSS_transcr", {"RECORDS": trf}, timeout=2400, xss=True)),
            ("scaledB", lambda: _tlc("LZSS_scaledB_big" if thorough else "LZSS_scaledB", timeout=2400))]
    if thorough:
        jobs.append(("scaledA", lambda: _tlc("LZSS_scaled_big", timeout=2400)))
        jobs.append(("scaled3", lambda: _tlc("LZSS_scaled3", timeout=2400)))
    results = {}
    with concurrent.futures.ThreadPoolExecutor(max_workers=4) as ex:
        futs = {}
        for name, fn in jobs:
            futs[name] = ex.submit(fn)
            time.sleep(0.4)       # core.tlc derives its metadir name from the clock and a directory count
        # meanwhile: the C harness
        dec, impl = L.extract_decoder()
        if dec is None:
            core.die(impl)
        exe, err = L.build_c_harness(dec, wd)
        if exe is None:
            core.die("C harness does not compile: " + err[-2000:])
        for name in futs:
            results[name] = _need(futs[name].result())
    for name, t in results.items():
        cov["tlc"][name] = t.summary()
        cov["states"] += t.generated
        cov["distinct_states"] += t.distinct
        cov["transitions"] += t.generated

    # ---- streams: vacuity guard on the model, drift guard against P ------------------------
    streams = results["streams"].printed
    if len(streams) < 600:
        core.die("streams model published only %d cases" % len(streams))
    scnt, smarks = agg(streams)
    for m in ALL_MARKS:
        if not smarks.get(m):
            core.die("vacuous streams model: boundary %s never reached" % m)
    if min(scnt) == 0:
        core.die("vacuous streams model: token counts %s" % scnt)
    for s in streams:
        st, pos, out = L.py_decode(bytes(s["src"]), s["n"], bytes(s["out"]))
        if s["st"] != "ok" or st != "ok" or pos != s["pos"] or len(s["out"]) != s["n"]:
            rep.spec_drift("stream: TLA+ decoder vs Python decoder", {"p": s["p"], "spec": s["st"], "python": st})
    cov["streams"] = {"cases": len(streams), "tokens_lit_e1_e2_e3": scnt, "boundary_marks": smarks}

    # ---- scaled compressor model ------------------------------------------------------------
    cov["scaled"] = {}
    for name in ("scaledA", "scaledB", "scaled3"):
        if name not in results:
            continue
        pr = results[name].printed
        c, m = agg(pr)
        if len(pr) < 2000 or min(c[:3]) == 0:
            core.die("vacuous scaled model %s: %d strings, tokens %s" % (name, len(pr), c))
        lit_fallback = sum(1 for p in pr if p["cnt"][0] > 0 and sum(p["cnt"][1:]) > 0)
        cov["scaled"][name] = {"strings": len(pr), "tokens_lit_e1_e2_e3": c, "boundary_marks": m,
                               "strings_mixing_literals_and_references": lit_fallback}
    if not any(v["tokens_lit_e1_e2_e3"][3] for v in cov["scaled"].values()):
        core.die("vacuous scaled models: encoding 3 never chosen")

    # ---- transcription fidelity (reported only) ----------------------------------------------
    tr = results["transcr"].printed
    same = sum(1 for p in tr if p["same"])
    cov["transcription"] = {"inputs": len(tr), "same_bytes_as_real_compressor": same,
                            "tokens_lit_e1_e2_e3": agg(tr)[0]}
    if same != len(tr):
        print("NOTE: spec transcription of the compressor differs from the real compressor on %d of %d inputs "
              "(not a verdict on C12)" % (len(tr) - same, len(tr)))

    # ---- records: verdicts of the spec on the real compressor's outputs -----------------------
    verdict = {p["id"]: p for p in results["records"].printed}
    if len(verdict) != len(recs) + len(corrupt):
        core.die("records model published %d verdicts for %d records" % (len(verdict), len(recs) + len(corrupt)))
    rejected = 0
    for r in corrupt:
        st, pos, _ = L.py_decode(bytes(r["comp"]), len(r["data"]), bytes(r["data"]))
        v = verdict[r["id"]]
        if v["st"] != st:
            rep.spec_drift("corrupted record: TLA+ decoder vs Python decoder", {"spec": v, "python": [st, pos]})
        if v["st"] != "ok":
            rejected += 1
    if rejected != len(corrupt):
        core.die("binding self-test failed: %d corrupted records, %d rejected by the spec" % (len(corrupt), rejected))
    ok_recs = []
    for r in recs:
        v = verdict[r["id"]]
        data, c = bytes(r["data"]), bytes(r["comp"])
        st, pos, _ = L.py_decode(c, len(data), data)
        if (st, pos) != (v["st"], v["pos"]):
            rep.spec_drift("record: TLA+ decoder vs Python decoder",
                           {"id": r["id"], "kind": by_id[r["id"]]["kind"], "spec": v, "python": [st, pos]})
            continue
        if v["st"] != "ok":
            rep.disagree({"part": "compressor", "kind": by_id[r["id"]]["kind"], "verdict": v["st"]}, "bad-stream",
                         {"input_len": len(data), "input_hex": data[:2000].hex(), "compressed_hex": c[:2000].hex(),
                          "spec_verdict": v})
        else:
            ok_recs.append(r)
    rcnt, rmarks = agg([verdict[r["id"]] for r in recs])
    cov["records"] = {"inputs": len(inputs), "input_bytes": sum(len(r["data"]) for r in inputs),
                      "by_kind": {k: sum(1 for r in inputs if r["kind"] == k) for k in sorted({r["kind"] for r in inputs})},
                      "max_input_len": max(len(r["data"]) for r in inputs),
                      "tokens_lit_e1_e2_e3": rcnt, "boundary_marks_reached_by_real_compressor": rmarks,
                      "binding_selftest": {"corrupted": len(corrupt), "rejected": rejected}}
    cov["evaluations"] += len(inputs)
    cov["traces_validated_against_impl"] += len(recs)
    # non-trivial = the compressed form contains at least one back reference
    cov["distinct_nontrivial"] += sum(1 for r in recs if sum(verdict[r["id"]]["cnt"][1:]) > 0)

    # ---- the real C decoder --------------------------------------------------------------------
    ccases = []
    for r in ok_recs:
        if r["data"]:      # dst_len = 0 is outside the decoder's domain (Code.py compresses only if >= 200 bytes are saved)
            ccases.append(({"part": "c-decoder", "src": "compressor", "kind": by_id[r["id"]]["kind"]},
                           bytes(r["comp"]), bytes(r["data"]), None))
    for s in streams:
        p = s["p"]
        ccases.append(({"part": "c-decoder", "src": "stream", "enc": p["enc"], "off": p["off"], "len": p["len"]},
                       bytes(s["src"]), bytes(s["out"]), p))
    obs, err = L.run_c_decoder(exe, [(c, len(w)) for _, c, w, _ in ccases], wd, "cases")
    if obs is None:
        core.die(err)
    n_c_ok = 0
    for (desc, c, w, sp), o in zip(ccases, obs):
        detail = {"compressed_len": len(c), "output_len": len(w), "compressed_hex": c[:1000].hex(), "stream": sp}
        if "crash" in o:
            rep.disagree(desc, "crash-or-sanitizer", dict(detail, report=o["crash"]))
        elif o["out"] != w:
            first = next((i for i in range(len(w)) if o["out"][i] != w[i]), None)
            rep.disagree(desc, "wrong-bytes", dict(detail, first_difference_at=first))
        elif o["ret"] != len(c):
            rep.disagree(desc, "wrong-length", dict(detail, returned=o["ret"]))
        else:
            n_c_ok += 1
    # liveness of the sanitizer and of the comparison: a truncated and an extended stream
    probe = next(((c, w) for _, c, w, _ in ccases if len(w) > 40 and len(c) > 10), None)
    if probe and n_c_ok == len(ccases):      # (a decoder that already disagrees is reported as such)
        c, w = probe
        o2, err = L.run_c_decoder(exe, [(c[:-1], len(w)), (c + b"\0", len(w))], wd, "live")
        if o2 is None or "crash" not in o2[0] or "AddressSanitizer" not in o2[0]["crash"]:
            core.die("sanitizer liveness test failed: a truncated stream was decoded silently: %r" % (o2 and o2[0],))
        if "crash" in o2[1] or o2[1]["ret"] == len(c) + 1:
            core.die("length comparison liveness test failed: %r" % (o2[1],))
    cov["c_decoder"] = {"cases": len(ccases), "agree_with_spec": n_c_ok,
                        "from_compressor": sum(1 for d, _, _, _ in ccases if d["src"] == "compressor"),
                        "from_tlc_streams": sum(1 for d, _, _, _ in ccases if d["src"] == "stream"),
                        "build": "clang -O1 -fsanitize=address,undefined -fno-sanitize-recover=all, exact-size heap buffers",
                        "sanitizer_liveness": "truncated stream -> heap-buffer-overflow reported"}
    cov["evaluations"] += len(ccases)
    cov["traces_validated_against_impl"] += len(ccases)
    cov["distinct_nontrivial"] += len(streams)

    # ---- one real module ------------------------------------------------------------------------
    e2e_module(rng, rep, cov)

    for r in rng.sample(recs, 2):
        if len(r["data"]) <= 64:
            cov["samples"].append({"kind": by_id[r["id"]]["kind"], "input": bytes(r["data"]).decode("latin1"),
                                   "compressed": r["comp"], "spec_verdict": verdict[r["id"]]})
    pl = next(r for r in recs if by_id[r["id"]]["kind"] == "planted-near" and len(r["data"]) < 60)
    cov["samples"].append({"kind": "planted-near", "input": pl["data"], "compressed": pl["comp"],
                           "spec_verdict": verdict[pl["id"]]})
    s0 = min(streams, key=lambda s: (len(s["src"]), json.dumps(s["p"], sort_keys=True)))
    cov["samples"].append({"kind": "tlc-stream", "p": s0["p"], "src": s0["src"], "n": s0["n"], "expected_out": s0["out"]})
    cov["rule"] = ("inputs of the real compressor: every string of length <= 4 over {a,b,c} (thorough <= 7) and <= 10 "
                   "(thorough 12) over {a,b}; runs, periodic strings, planted repeats X+gap+X+tail with gap/length at the edges "
                   "of each encoding and of the window, seeded random strings over alphabets of 2..16 letters, identifier-like "
                   "text, slices of real source files, random bytes (quick <= 20 KB, thorough up to 100 KiB).  C decoder: all of "
                   "these + the TLC boundary streams.  non-trivial = compressed form contains a back reference (records) / "
                   "every boundary stream (each contains one at an encoding edge).")
    rc = rep.finish()
    cov["known_findings"] = rep.kf_summary()
    core.write_evidence(
        PROP, tier, seed, "model_checking", cov, time.time() - t0,
        assumptions=["the format is as transcribed in spec/LZSS.tla (cross-checked on every case against an independent Python "
                     "decoder: zero drift; and against the real C decoder)",
                     "the compressor is exercised in its pure-Python form from the working tree",
                     "dst_len = 0 is outside the C decoder's domain: Code.py emits a compressed table only when compression "
                     "saves >= 200 bytes",
                     "escaping of the compressed bytes into a C string literal is property C11, here only covered by the one "
                     "end-to-end module"],
        violations=rep.n_violations())
    return rc


def replay(path, seed):
    """Re-run the cases of a replay file: compressor cases are re-compressed with the working tree's
    lzss_compress and decoded with the Python reference decoder; C-decoder cases are re-run under ASan."""
    with open(path) as f:
        rp = json.load(f)
    wd = core.subdir("c12replay")
    desc = rp["descriptor"]
    bad = 0
    if desc.get("part") == "compressor":
        ins = [{"id": i, "data": bytes.fromhex(c["input_hex"])} for i, c in enumerate(rp["cases"])
               if "input_hex" in c and len(c["input_hex"]) == 2 * c.get("input_len", c.get("len", -1))]
        comp, ch = L.run_compressor(ins, wd)
        for r in ins:
            c = comp.get(r["id"])
            if c is None or isinstance(c, tuple):
                print("input", r["data"][:40], "->", c)
                bad += 1
                continue
            st, pos, _ = L.py_decode(c, len(r["data"]), r["data"])
            print("input len %d -> compressed len %d, reference decoder: %s (consumed %d)" % (len(r["data"]), len(c), st, pos))
            bad += st != "ok"
    elif desc.get("part") == "c-decoder":
        dec, impl = L.extract_decoder()
        if dec is None:
            core.die(impl)
        exe, err = L.build_c_harness(dec, wd)
        if exe is None:
            core.die(err[-2000:])
        for c in rp["cases"]:
            src = bytes.fromhex(c["compressed_hex"])
            if len(src) != c["compressed_len"]:
                print("case too long for the replay file; re-run the check")
                continue
            st, pos, out = L.py_decode(src, c["output_len"])
            o, err = L.run_c_decoder(exe, [(src, c["output_len"])], wd, "replay")
            ok = o and "crash" not in o[0] and o[0]["out"] == out and o[0]["ret"] == len(src)
            print("stream len %d -> %d bytes: reference %s, C decoder %s" % (
                len(src), c["output_len"], st, "agrees" if ok else (o[0].get("crash") or "differs")))
            bad += not ok
    else:
        print("nothing to replay for", desc)
    return 1 if bad else 0
